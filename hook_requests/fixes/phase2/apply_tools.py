#!/usr/bin/env python3
"""phase-2 edits of tools/props/*.py (run once, after the fix: commits are in /repo)"""
import re,sys
def edit(path, pairs):
    s=open(path).read()
    for a,b in pairs:
        assert s.count(a)==1,(path,a[:70])
        s=s.replace(a,b)
    open(path,'w').write(s)

edit('/verif/tools/props/c06.py',[
('''KNOWN_CLASSES = {
    "nonclaiming-accepts-loop0": "C06-loop0-nonclaiming-accepts",
}
''','''# (finding C06-loop0-nonclaiming-accepts is fixed: a non-claiming gate that accepts is a violation, whatever its shape)
KNOWN_CLASSES = {
}
'''),
('"nonclaiming_refuse_term_partial", "loop0_nonclaiming_accepts",','"nonclaiming_refuse_term", "loop0_nonclaiming_refuses",'),
])
edit('/verif/tools/props/c12.py',[
('''    "syntax:double-minus": "C12-negative-angle-double-minus",
''',''),
('"neg_kron_bundle", "neg_parameter_text", "neg_panics", "neg_ccrz_block_is_u1"]','"neg_kron_bundle", "neg_parameter_text", "cry_negative_angle_wellformed", "neg_panics", "neg_ccrz_block_is_u1"]'),
])
edit('/verif/tools/props/c18.py',[
('''    "exec-panic:measure-all-len": "C19-abort-exec-measure-all-len",
    "reps-diverge:measure-all-len": "C18-measure-all-len-diverges",
    "reps-diverge:arity": "C18-cond-arity-diverges",
    "silently-accepted:arity": "C18-cond-arity-diverges",
''',''),
('''    "latex-panic:resetall-no-qubits": "C13-resetall-zero-qubits-panic",
    "latex-panic:empty-barrier": "C18-latex-empty-barrier-panic",
''',''),
('''    "C13-resetall-zero-qubits-panic": "0 0 | reset_all | 1",
''',''),
('''    "C19-abort-exec-measure-all-len": "1 2 | peek_all 2 0 0 | 1",
''',''),
('''"neg_zero_shots", "neg_repeated_qubit", "neg_measure_all_short", "neg_peek_all_long", "neg_cbit_ge_64",
                 "neg_controls_gt_64", "neg_cond_arity_diverges", "neg_empty_operands_export",
                 "neg_ctrl_between_targets", "neg_reset_all_no_qubits", "neg_empty_barrier", "neg_cqasm_control_ge_nq", "neg_composite_subgate_out_of_range"],''',
'''"neg_zero_shots", "neg_repeated_qubit", "measure_all_short_same_error", "peek_all_long_same_error",
                 "measure_all_len_rejected_identically", "neg_cbit_ge_64",
                 "neg_controls_gt_64", "cond_arity_same_error", "gate_arity_rejected_identically", "neg_empty_operands_export",
                 "neg_ctrl_between_targets", "reset_all_no_qubits_exports", "empty_barrier_exports", "neg_cqasm_control_ge_nq", "neg_composite_subgate_out_of_range"],'''),
('''        "the stabilizer peek_all on an over-long list is modelled through the flat cell array (Model/StabFlat.lean); the register "
        "sizes generated stay below 5 qubits (allocation aborts such as 1<<60 qubits are outside the run)",''',
'''        "the register sizes generated stay below 5 qubits (allocation aborts such as 1<<60 qubits are outside the run)",'''),
])
print("tools edited")

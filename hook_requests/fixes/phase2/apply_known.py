#!/usr/bin/env python3
"""move the closed findings of known_findings.json to the `fixed` list.  usage: apply_known.py <h01> <h02> <h03> <h04> <h05> <h06>"""
import json,sys,collections
h=sys.argv[1:7]
assert len(h)==6
path='/verif/known_findings.json'
data=json.load(open(path),object_pairs_hook=collections.OrderedDict)
closed=[
 (["C18-measure-all-len-diverges","C19-abort-exec-measure-all-len"],"C18,C19",h[0],
  "StabilizerState::measure_all_into / peek_all_into did not compare the length of the bit list with the number of qubits: measure_all(&[1]) on two qubits measured only qubit 0 (InvalidNrMeasurementBits on the vector representation), peek_all with more bits than qubits read past the tableau and panicked (an abort through the C interface); both now return NotEnoughSpace / InvalidNrMeasurementBits like VectorState (closes C18-measure-all-len-diverges, C19-abort-exec-measure-all-len)"),
 (["C13-resetall-zero-qubits-panic","C19-abort-export-latex-reset-all-0q"],"C13,C18,C19",h[1],
  "Circuit::latex panicked on reset_all in a circuit without qubits (nr_qbits-1 underflow; an abort through the C interface); the range of all qubits is reserved instead, which is empty there (closes C13-resetall-zero-qubits-panic, C19-abort-export-latex-reset-all-0q)"),
 (["C18-latex-empty-barrier-panic"],"C18,C13",h[2],
  "barrier(&[]) was accepted and latex() then panicked in support::get_ranges (index into an empty list); LatexExportState::set_barrier now draws nothing for an empty barrier (closes C18-latex-empty-barrier-panic)"),
 (["C06-loop0-nonclaiming-accepts"],"C06",h[3],
  "Loop::conjugate with zero iterations over a body that is not a stabilizer gate returned Ok(false) although is_stabilizer() is false (also inside Kron/Composite); it now returns NotAStabilizer whenever the loop does not claim (closes C06-loop0-nonclaiming-accepts)"),
 (["C12-negative-angle-double-minus"],"C12",h[4],
  "the c-QASM template of CRY wrote a literal minus in front of an evaluated hole, so a negative angle (also -0.0) printed `ry q[1], --0.25`; the template now negates inside the hole like CRX/CU3/CCRX/CCRY (closes C12-negative-angle-double-minus)"),
 (["C18-cond-arity-diverges"],"C18",h[5],
  "StabilizerState::apply_gate / apply_conditional_gate had no arity check of their own: a gate with the wrong number of operands ran through when no tableau row was conjugated (condition never true, 0-qubit circuit) or for the identity gate, while VectorState returns InvalidNrBits; both now call check_nr_bits first (closes C18-cond-arity-diverges)"),
]
ids=[i for c in closed for i in c[0]]
before=len(data["findings"])
present=[f["id"] for f in data["findings"]]
for i in ids: assert i in present,i
data["findings"]=[f for f in data["findings"] if f["id"] not in ids]
assert len(data["findings"])==before-len(ids)
for _,props,commit,what in closed:
    data["fixed"].append("fixed: property=%s %s %s"%(props,commit,what))
open(path,'w').write(json.dumps(data,indent=1,ensure_ascii=True))
print("findings",before,"->",len(data["findings"]),"fixed",len(data["fixed"]))

#!/usr/bin/env python3
"""C13 follow-up of the two /repo repairs `reset_all on 0 qubits` and `empty barrier` (hook_requests/fixes/02, 03).

Run AFTER Model/Latex.lean, Proofs/LatexInv.lean, Proofs/LatexShape.lean have been replaced by the versions
for the repaired code:   python3 hook_requests/C13.after_repairs/apply.py [ROOT=/verif]
It rewrites (exact, idempotent text replacements; it aborts without writing anything if a needle is missing)
  lean/Q1t/Proofs/LatexStages.lean   resetAll_draws, setBarrier_draws for the new model text
  lean/Q1t/Proofs/LatexProv.lean     composition part regenerated from the new LatexShape.lean (Keeps -> PKeeps)
  lean/Q1t/Props/C13.lean            neg_resetall_zero_qubits_panics -> positive statements
  lean/Driver/C13.lean               class tags resetall-no-qubits / empty-barrier removed
  tools/props/c13.py                 class -> finding entry removed
Pre-tested by b-c13 against /tmp/leanfix (the fixer's model) in a private build dir.
"""
import sys, os
root = sys.argv[1] if len(sys.argv) > 1 else "/verif"
def rd(p): return open(os.path.join(root, p)).read()
out = {}

# ---- LatexStages.lean
p = "lean/Q1t/Proofs/LatexStages.lean"; s = rd(p)
new_reset = '''theorem resetAll_draws {nq : Nat} {s s' : St} (hinv : Inv s) (h : opLatex nq .resetAll s = .ok s') :
    Draws s s' (if nq = 0 then [] else [resetWrites 0 nq]) := by
  simp only [opLatex] at h
  cases nq with
  | zero =>
    -- no qubits: the range of all qubits is empty, nothing is reserved, drawn or closed
    obtain ⟨s1, h1, h⟩ := Res.bind_eq_ok.mp h
    obtain ⟨s2, h2, h3⟩ := Res.bind_eq_ok.mp h
    have e1 : s1 = s := by
      unfold startRangeOp at h1
      obtain ⟨bits, hb, h1⟩ := Res.bind_eq_ok.mp h1
      have := getBitIndices_none hb
      subst this
      simpa using h1.symm
    subst e1
    have e2 : s2 = s1 := by simpa [resetLoop] using h2.symm
    subst e2
    have e3 : s' = s2 := by
      unfold endRangeOp at h3
      rw [hinv.noRange] at h3
      simpa using h3.symm
    subst e3
    simpa using Draws.nil s'
  | succ n =>
    obtain ⟨sx, hx, _⟩ := Res.bind_eq_ok.mp h
    have hb := getBitIndices_none_ok_of_start hx
    have h' : (startRangeOp (List.range (n+1)) none s >>== fun s1 =>
        (fun s1 => resetLoop 0 (n+1) s1) s1 >>== endRangeOp) = .ok s' := by
      simpa [bind_assoc] using h
    have := range_draws (ws := resetWrites 0 (n+1)) hinv hb (by simp)
      (by
        intro s1 s2 hrn hcn _ _ _ _ hbody
        exact resetLoop_inRange hrn hcn hbody)
      (by
        intro p hp
        obtain ⟨h1, h2, _⟩ := resetWrites_rows 0 (n+1) p hp
        exact ⟨0, by simp, n, by simp, h1, by omega⟩)
      (resetWrites_nodup 0 (n+1))
      (by
        intro p hp l hl
        rw [(resetWrites_rows 0 (n+1) p hp).2.2] at hl
        simp [Sym.lines] at hl) h'
    simpa using this

'''
new_bar = '''theorem setBarrier_draws {q : List Nat} {s s' : St} (hinv : Inv s) (h : setBarrier q s = .ok s') :
    Draws s s' (match getRanges q with | some rs => barrierStages rs | none => []) := by
  unfold setBarrier at h
  split at h
  · cases h
  · split at h
    · -- a barrier on no qubits draws nothing
      rename_i he
      injection h with h; subst h
      have : q = [] := by simpa using he
      subst this
      simpa [getRanges, sortNat] using Draws.nil s
    · split at h
      · cases h
      · rename_i rs hrs
        rw [hrs]
        have d0 : Draws s (addColumn s) [] :=
          Draws.of_trace_nil (Trace.single (Step.col hinv.noRange)) rfl rfl
        have := d0.trans (barrierLoop_draws (inv_addColumn hinv) h)
        simpa using this

'''
a = s.index("theorem resetAll_draws"); b = s.index("def condStage")
s = s[:a] + new_reset + s[b:]
a = s.index("theorem setBarrier_draws"); b = s.index("/-- **The reference drawing of an operation**")
s = s[:a] + new_bar + s[b:]
out[p] = s

# ---- LatexProv.lean: composition part regenerated from LatexShape.lean
shape = rd("lean/Q1t/Proofs/LatexShape.lean")
body = shape[shape.index("/-- Sequencing. -/"):shape.index("theorem shape_new")].replace("Keeps", "PKeeps").replace("keeps_", "pk_")
p = "lean/Q1t/Proofs/LatexProv.lean"; s = rd(p)
out[p] = s[:s.index("/-- Sequencing. -/")] + body + s[s.index("theorem pm_new"):]

# ---- Props/C13.lean
p = "lean/Q1t/Props/C13.lean"; s = rd(p)
old = '''/-- D11: `reset_all` on a circuit without qubits panics. -/
theorem neg_resetall_zero_qubits_panics : circuitLatex ⟨0, 0, [.resetAll]⟩ = .panic := by decide
'''
new = '''/-- (was D11, repaired in /repo) `reset_all` on a circuit without qubits draws nothing and does not panic. -/
theorem resetall_zero_qubits_draws_nothing :
    circuitLatex ⟨0, 0, [.resetAll]⟩ = circuitLatex ⟨0, 0, []⟩ ∧ (circuitLatex ⟨0, 2, [.resetAll]⟩ matches .ok _) := by decide

/-- (repaired in /repo) a barrier on no qubits draws nothing: no panic, no empty column. -/
theorem empty_barrier_draws_nothing :
    circuitLatex ⟨2, 0, [.gate (.box "H" 1) [0], .barrier [], .gate (.box "H" 1) [1]]⟩ =
    circuitLatex ⟨2, 0, [.gate (.box "H" 1) [0], .gate (.box "H" 1) [1]]⟩ := by decide
'''
if old in s: s = s.replace(old, new)
elif "resetall_zero_qubits_draws_nothing" not in s: sys.exit("Props/C13.lean: needle not found")
s = s.replace("Excluded classes with\nwitnesses", "Excluded classes with\nwitnesses")
out[p] = s

# ---- Driver/C13.lean
p = "lean/Driver/C13.lean"; s = rd(p)
for old in ['  | .resetAll => if nq = 0 then ["resetall-no-qubits"] else []\n', '  | .barrier qs => if qs.isEmpty then ["empty-barrier"] else []\n']:
    s = s.replace(old, "")
s = s.replace("def opPanics (nq : Nat) : Op → List String", "def opPanics (_nq : Nat) : Op → List String") if "if nq = 0" not in s else s
out[p] = s

# ---- tools/props/c13.py
p = "tools/props/c13.py"; s = rd(p)
s = s.replace('    "panic:resetall-no-qubits": "C13-resetall-zero-qubits-panic",\n', "")
out[p] = s

for p, s in out.items():
    open(os.path.join(root, p), "w").write(s)
    print("rewrote", p)

import Driver.GateParse
import Driver.SimParse
import Q1t.Model.Conj
import Q1t.Spec.Clifford
import Q1t.Spec.Unitaries
/-!
Driver for C06.  Requests (fields separated by ` | `):

  isstab  | <term>                         -> true | false
  matrix  | <term>                         -> ok <dim> <re im>*
  conjall | <term>                         -> <k> ; r ; r ; …      (all 4^k strings)
  conjfs  | <term>                         -> <flag> <k> ; r ; …   (composite built by from_string)
  conj    | <term> | <digit>*              -> r
  circ    | <nq> <nc> <shots> | op ; op …  -> isc <bool> repr <S|V> claims <bool>*

`model` mode answers with the model (`Q1t.Conj`).  `spec` mode evaluates the property itself on the
implementation's answers: lines `<req>\t<impl>[\t<impl flag>[\t<impl matrix>]]` (joined by
tools/props/c06.py).
-/
open Q1t Q1t.Proto Q1t.GateParse Q1t.CFloat Q1t.Conj Q1t.Tableau
open Q1t.Spec.Clifford (allStrings)

def showB (b : Bool) : String := if b then "true" else "false"

def showResult : Conj.Result → String
  | .ok (flip, o) => (s!"ok {if flip then 1 else 0} " ++ joinNats (o.map P.toBits)).trimAscii.toString
  | .error (.invalidNrBits g e) => s!"err invalidNrBits {g} {e}"
  | .error .notAStabilizer => "err notAStabilizer"
  | .error .oob => "panic index"

def conjAllStr (g : G) : String :=
  let k := Gate.nrBits g
  " ; ".intercalate (toString k :: (allStrings k).map fun ops => showResult (conjugate g ops))

/-- split a token list at every `;` -/
def splitSemis (ws : List String) : List (List String) :=
  let rec go (acc : List String) (out : List (List String)) : List String → List (List String)
    | [] => (acc.reverse :: out).reverse
    | w :: rest => if w = ";" then go [] (acc.reverse :: out) rest else go (w :: acc) out rest
  (go [] [] ws).filter (· ≠ [])

def parseCirc (opsField : List String) : Option (List (Sim.COp Float)) :=
  (splitSemis opsField).mapM SimParse.parseOp

def opClaim : Sim.COp Float → Option Bool
  | .gate g _ => some (isStabilizer g)
  | .cond _ _ g _ => some (isStabilizer g)
  | _ => none

def handle (line : String) : String :=
  match splitBars (words line) with
  | [["isstab"], t] =>
    match parseGate t with
    | some (g, []) => showB (isStabilizer g)
    | _ => "bad-op"
  | [["matrix"], t] =>
    match parseGate t with
    | some (g, []) =>
      let m : LMat CFloat := Gate.matrix g
      if m.isEmpty then "panic" else "ok " ++ showMat m
    | _ => "bad-op"
  | [["conjall"], t] =>
    match parseGate t with
    | some (g, []) => conjAllStr g
    | _ => "bad-op"
  | [["conjfs"], t] =>
    match parseGate t with
    | some (g, []) => showB (isStabilizer g) ++ " " ++ conjAllStr g
    | _ => "bad-op"
  | [["conj"], t, ds] =>
    match parseGate t, nats? ds with
    | some (g, []), some ds => showResult (conjugate g (ds.map P.ofBits))
    | _, _ => "bad-op"
  | [["conj"], t] =>
    match parseGate t with
    | some (g, []) => showResult (conjugate g [])
    | _ => "bad-op"
  | [["conjs"], t, ss] =>
    match parseGate t, (splitSemis ss).mapM nats? with
    | some (g, []), some strs =>
      " ; ".intercalate (strs.map fun ds => showResult (conjugate g (ds.map P.ofBits)))
    | _, _ => "bad-op"
  | ["hist"] :: hdr :: rest =>
    match parseCirc (rest.headD []) with
    | some ops =>
      let n := ops.length
      let flags := (List.range (n + 1)).map fun i => showB (isStabilizerCircuit (ops.take i))
      let claims := ops.map fun op => match opClaim op with | some b => showB b | none => "-"
      let showR (l : List (Sim.COp Float)) := match chooseRepr l with | .stabilizer => "S" | .vector => "V"
      let mid := match (hdr.getD 3 "-").toNat? with | some m => showR (ops.take m) | none => "-"
      (s!"isc {" ".intercalate flags} claims {" ".intercalate claims}".trimAscii.toString ++
        s!" mid {mid} repr {showR ops} last {showB (isStabilizerCircuit ops)}")
    | none => "bad-op"
  | ["circ"] :: _ :: rest =>
    match parseCirc (rest.headD []) with
    | some ops =>
      let claims := ops.filterMap opClaim
      (s!"isc {showB (isStabilizerCircuit ops)} repr " ++
        (match chooseRepr ops with | .stabilizer => "S" | .vector => "V") ++
        " claims " ++ " ".intercalate (claims.map showB)).trimAscii.toString
    | none => "bad-op"
  | _ => "bad-op"

/-! ## (B): the property evaluated on the implementation's answers -/

def maxDist (a b : LMat CFloat) : Float :=
  if a.length ≠ b.length then 1e9 else
  (List.zipWith (fun ra rb => if ra.length ≠ rb.length then 1e9 else
    (List.zipWith CFloat.dist ra rb).foldl max 0) a b).foldl max 0

def unflat (n : Nat) (v : List CFloat) : LMat CFloat :=
  (List.range n).map fun r => (v.drop (r * n)).take n

/-- one answer `ok f d…` / `err …` / `panic …` -/
inductive Ans where
  | ok (flip : Bool) (ops : List P)
  | refused (what : String)
  | bad

def parseAns : List String → Ans
  | "ok" :: f :: ds =>
    match nats? ds with
    | some ds => if f = "0" then .ok false (ds.map P.ofBits) else if f = "1" then .ok true (ds.map P.ofBits) else .bad
    | none => .bad
  | "err" :: c :: _ => .refused ("err " ++ c)
  | "panic" :: _ => .refused "panic"
  | _ => .bad

def strDigits (ops : List P) : String := joinNats (ops.map P.toBits)

/-! fast evaluation for wide gates (d ≥ 32): a Pauli matrix has one non-zero entry per row, so
`M·P` and `P'·M` cost O(d²); the check is `M·Mᴴ = 1` (once) and `M·P = ±P'·M` (per string), which
together give `M·P·Mᴴ = ±P'` up to rounding. -/

abbrev AMat := Array (Array CFloat)
def toAMat (M : LMat CFloat) : AMat := (M.map List.toArray).toArray
def aget (M : AMat) (i j : Nat) : CFloat := (M.getD i #[]).getD j 0

/-- for every row its unique non-zero column, `none` if some row has none or several -/
def support (P : AMat) : Option (Array Nat) :=
  P.mapM fun row =>
    let nz := (List.range row.size).filter fun j => let x := row.getD j 0; x.re != 0.0 || x.im != 0.0
    match nz with
    | [j] => some j
    | _ => none

/-- `max |M·P − s·P'·M|`, `none` if `P` or `P'` is not monomial -/
def intertwineDev (M : AMat) (P P' : AMat) (flip : Bool) : Option Float := do
  let d := M.size
  let sp ← support P
  let sp' ← support P'
  -- lhs[r][π(m)] = M[r][m]·P[m][π(m)]
  let lhs : AMat := (Array.range d).map fun r =>
    (List.range d).foldl (fun row m => let c := sp.getD m 0; row.setIfInBounds c (aget M r m * aget P m c))
      (Array.replicate d (0 : CFloat))
  let dev := (List.range d).foldl (fun acc r =>
    let m := sp'.getD r 0
    let p := aget P' r m
    (List.range d).foldl (fun acc c =>
      let rhs := p * aget M m c
      let rhs := if flip then -rhs else rhs
      max acc (CFloat.dist (aget lhs r c) rhs)) acc) 0.0
  pure dev

/-! matrix-free reference for terms too wide for a matrix: the rule of every PRIMITIVE is read off
its documented 2×2 / 4×4 matrix (`Spec.specMatrix`, searched among the ±Pauli strings — independent
of the generated table), and composed through `Kron` (split), `Composite` (gather, apply, scatter)
and `Loop` (iterate).  `none` = the term is not well-formed / not Clifford. -/

open Q1t.Spec.Clifford in
def primRef (g : G) (ops : List P) : Option (Bool × List P) :=
  let k := Gate.nrBits g
  if ops.length ≠ k ∨ k > 2 then none else
  let M : LMat CFloat := Spec.specMatrix g
  let lhs := conjBy Float M (pauliMat Float ops)
  (allStrings k).findSome? fun o =>
    if maxDist lhs (pauliMat Float o) ≤ 1e-9 then some (false, o)
    else if maxDist lhs (signed true (pauliMat Float o)) ≤ 1e-9 then some (true, o)
    else none

mutual
partial def refConj : G → List P → Option (Bool × List P)
  | .C _, _ => none
  | .Kron a b, ops =>
    let n0 := Gate.nrBits a
    if ops.length ≠ n0 + Gate.nrBits b then none else do
      let (f0, o0) ← refConj a (ops.take n0)
      let (f1, o1) ← refConj b (ops.drop n0)
      pure (f0 != f1, o0 ++ o1)
  | .Composite _ n body, ops => if ops.length ≠ n then none else refOps n body ops false
  | .Loop _ iters _ n body, ops =>
    if ops.length ≠ n then none else
    (List.range iters).foldlM (fun (acc : Bool × List P) _ => do
      let (f, o) ← refOps n body acc.2 false
      pure (acc.1 != f, o)) (false, ops)
  | g, ops => primRef g ops
partial def refOps (n : Nat) : OpList Float → List P → Bool → Option (Bool × List P)
  | .nil, ops, flip => some (flip, ops)
  | .cons g bits rest, ops, flip =>
    if bits.length ≠ Gate.nrBits g ∨ !bits.all (· < n) ∨ bits.eraseDups.length ≠ bits.length then none else do
      let loc := bits.map fun b => ops.getD b .I
      let (f, loc') ← refConj g loc
      let ops' := (bits.zip loc').foldl (fun acc bp => acc.set bp.1 bp.2) ops
      refOps n rest ops' (flip != f)
end

open Q1t.Spec.Clifford in
/-- the listed strings of a term: claim ⇒ Clifford unitary and every answer exact; no claim ⇒ every answer refuses -/
def checkConjList (g : G) (flag : Bool) (strings : List (List P)) (answers : List (List String))
    (mat : Option (LMat CFloat)) : String :=
  let k := Gate.nrBits g
  if answers.length ≠ strings.length then s!"fail answer-count expected {strings.length} got {answers.length}"
  else if !flag then
    -- a gate that does not claim must refuse every string
    match (strings.zip answers).find? (fun sa => match parseAns sa.2 with | .refused _ => false | _ => true) with
    | some (s, a) =>
      -- (also a loop iterated zero times over a non-claiming body: finding C06-loop0-nonclaiming-accepts is fixed)
      s!"fail nonclaiming-accepts is_stabilizer()=false but conjugate([{strDigits s}]) returned {" ".intercalate a}"
    | none => "ok"
  else
    match mat with
    | none =>
      -- no matrix (malformed term, or too wide): the matrix-free reference, where it is defined
      if (strings.head?.bind (refConj g)).isNone then "skip" else
      let bad := (strings.zip answers).filterMap fun (s, a) =>
        match refConj g s, parseAns a with
        | some (fl, o), .ok fl' o' =>
          if fl = fl' ∧ o = o' then none
          else some s!"fail conj-rule-wrong [{strDigits s}] -> {" ".intercalate a} expected {if fl then 1 else 0} {strDigits o}"
        | some _, .refused w => some s!"fail claiming-refuses [{strDigits s}] -> {w}"
        | some _, .bad => some s!"fail unparsable-answer [{strDigits s}]"
        | none, _ => some s!"fail reference-undefined [{strDigits s}]"
      (match bad with | [] => "ok" | b :: _ => b)
    | some M =>
      let d := 2 ^ k
      if M.length ≠ d then s!"fail matrix-dimension {M.length} for {k} qubits"
      else
        let u := maxDist (LMat.mul M (adjoint Float M)) (LMat.identity d)
        if u > 1e-9 then s!"fail claiming-not-unitary dev={u}"
        else
          let MA := toAMat M
          let bad := (strings.zip answers).filterMap fun (s, a) =>
            match parseAns a with
            | .ok fl o =>
              if o.length ≠ k then some s!"fail conj-wrong-length [{strDigits s}] -> {o.length} operators"
              else if d ≥ 32 then
                match intertwineDev MA (toAMat (pauliMat Float s)) (toAMat (pauliMat Float o)) fl with
                | some dev =>
                  if dev ≤ 1e-9 then none
                  else some s!"fail conj-rule-wrong [{strDigits s}] -> {" ".intercalate a} dev={dev}"
                | none => some "fail reference-pauli-matrix-not-monomial"
              else
                let lhs := conjBy Float M (pauliMat Float s)
                let dev := maxDist lhs (signed fl (pauliMat Float o))
                if dev ≤ 1e-9 then none
                else
                  -- is G·P·Gᴴ a signed Pauli string at all?
                  let isPauli : Bool := (allStrings k).any fun o' =>
                    decide (maxDist lhs (pauliMat Float o') ≤ 1e-9) || decide (maxDist lhs (signed true (pauliMat Float o')) ≤ 1e-9)
                  if isPauli then some s!"fail conj-rule-wrong [{strDigits s}] -> {" ".intercalate a} dev={dev}"
                  else some s!"fail claiming-not-clifford G·P·G† is not a signed Pauli string for P=[{strDigits s}]"
            | .refused w => some s!"fail claiming-refuses [{strDigits s}] -> {w}"
            | .bad => some s!"fail unparsable-answer [{strDigits s}]"
          match bad with
          | [] => "ok"
          | b :: _ => b

def checkConjAll (g : G) (flag : Bool) (answers : List (List String)) (mat : Option (LMat CFloat)) : String :=
  checkConjList g flag (allStrings (Gate.nrBits g)) answers mat

def parseMatAns (ws : List String) : Option (LMat CFloat) :=
  match ws with
  | "ok" :: n :: ent =>
    match n.toNat?, parseVec ent with
    | some n, some v => if v.length = n * n then some (unflat n v) else none
    | _, _ => none
  | _ => none

def specCheck (line : String) : String :=
  match line.splitOn "\t" with
  | req :: ans :: extra =>
    match splitBars (words req) with
    | [["conjall"], t] =>
      match parseGate t, extra with
      | some (g, []), flag :: more =>
        let flag := flag.trimAscii.toString
        if flag ≠ "true" ∧ flag ≠ "false" then "fail bad-flag" else
        let mat := (more.head?).bind fun m => parseMatAns (words m)
        match splitSemis (words ans) with
        | _ :: answers => checkConjAll g (flag = "true") answers mat
        | [] => "fail empty-answer"
      | _, _ => "fail bad-request"
    | [["conjs"], t, ss] =>
      match parseGate t, (splitSemis ss).mapM nats?, extra with
      | some (g, []), some strs, flag :: more =>
        let flag := flag.trimAscii.toString
        if flag ≠ "true" ∧ flag ≠ "false" then "fail bad-flag" else
        let mat := (more.head?).bind fun m => parseMatAns (words m)
        checkConjList g (flag = "true") (strs.map fun ds => ds.map P.ofBits) (splitSemis (words ans)) mat
      | _, _, _ => "fail bad-request"
    | ["hist"] :: hdr :: _ =>
      -- `isc b*(n+1) claims c*n mid R repr R last b # res x / y`
      let ws := words ans
      let main := ws.takeWhile (· ≠ "#")
      let res := (ws.dropWhile (· ≠ "#")).drop 1
      match main with
      | "build" :: _ => "skip"
      | "isc" :: rest =>
        let flags := rest.takeWhile (· ≠ "claims")
        let r1 := (rest.dropWhile (· ≠ "claims")).drop 1
        let claims := r1.takeWhile (· ≠ "mid")
        match (r1.dropWhile (· ≠ "mid")) with
        | ["mid", midR, "repr", repr, "last", last] =>
          let n := claims.length
          if flags.length ≠ n + 1 then "fail unparsable-answer"
          else
            let conj (i : Nat) : Bool := (claims.take i).all (· ≠ "false")
            match (List.range (n + 1)).find? (fun i => (flags.getD i "") ≠ showB (conj i)) with
            | some i => s!"fail isc-not-conjunction after {i} building calls is_stabilizer_circuit()={flags.getD i ""} claims so far={claims.take i}"
            | none =>
              if last ≠ showB (conj n) then s!"fail isc-not-conjunction after execute: {last}"
              else if repr = "S" ∧ !conj n then "fail routed-to-stabilizer-with-nonclaiming-gate"
              else if repr ≠ "S" ∧ repr ≠ "V" then s!"fail no-representation {repr}"
              else if midR = "S" ∧ !conj ((hdr.getD 3 "-").toNat?.getD 0) then "fail routed-to-stabilizer-with-nonclaiming-gate (execution in between)"
              else if res.contains "notAStabilizer" ∧ (repr = "S" ∨ midR = "S") then "fail stabilizer-run-hit-nonstabilizer-gate"
              else "ok"
        | _ => "fail unparsable-answer"
      | _ => "fail unparsable-answer"
    | ["conj"] :: t :: rest =>
      -- an operand slice of any length: a gate that does not claim must refuse it
      match parseGate t, extra with
      | some (g, []), flag :: _ =>
        if flag.trimAscii.toString = "false" then
          match parseAns (words ans) with
          | .refused _ => "ok"
          | _ =>
            let cls := "nonclaiming-accepts"
            s!"fail {cls} is_stabilizer()=false but conjugate([{" ".intercalate (rest.headD [])}]) returned {ans}"
        else "skip"
      | _, _ => "fail bad-request"
    | ["circ"] :: _ =>
      -- `isc b repr R claims b* # res …`
      let (main, res) := (let ws := words ans; (ws.takeWhile (· ≠ "#"), (ws.dropWhile (· ≠ "#")).drop 1))
      match main with
      | "isc" :: isc :: "repr" :: repr :: "claims" :: claims =>
        let all := claims.all (· = "true")
        if claims.any (fun c => c ≠ "true" ∧ c ≠ "false") then "fail unparsable-answer"
        else if (isc = "true") ≠ all then s!"fail isc-not-conjunction is_stabilizer_circuit={isc} claims={claims}"
        else if repr = "S" ∧ !all then "fail routed-to-stabilizer-with-nonclaiming-gate"
        else if repr ≠ "S" ∧ repr ≠ "V" then s!"fail no-representation {repr}"
        else if repr = "S" ∧ res.take 3 = ["res", "err", "notAStabilizer"] then
          "fail stabilizer-run-hit-nonstabilizer-gate"
        else "ok"
      | "build" :: _ => "skip"
      | _ => "fail unparsable-answer"
    | _ => "skip"
  | _ => "fail bad-line"

def main (args : List String) : IO Unit :=
  if args = ["spec"] then serve specCheck else serve handle

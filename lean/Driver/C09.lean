import Driver.SimStep
import Q1t.Model.CircuitObj
/-!
Driver for C09. `step | …` lines are the per-operation trace steps of every run of a history (the
pre-state of the first operation of a re-execution is the state the previous call ended in; of an
execution: the fresh state); `call | <q present 0/1> <c present 0/1> | reexecute|query` lines ask the
history machine for the outcome of a call that does not run operations.
-/
open Q1t Q1t.Proto Q1t.Sim Q1t.SimParse Q1t.SimStep Q1t.CircuitObj

def handleCall (fs : List (List String)) : String :=
  match fs with
  | [_, [hq, hc], [kind]] =>
    let m : Machine Unit Float :=
      { obj := { q := if hq = "1" then some () else none, c := if hc = "1" then some [] else none },
        store := fun _ => 0.0 }
    match kind with
    | "query" => (match query m with | .ok _ => "ok" | .error e => showSimErr e)
    | "reexecute" =>
      -- only the not-executed decision is asked for here (no operations: empty circuit)
      let B : Backend CFloat Float Unit :=
        { applyGate := fun s _ _ => .pure s, applyUnaryAll := fun s _ => .pure s,
          applyConditional := fun s _ _ _ => .pure s, measureInto := fun s _ _ r => .pure (s, r),
          measureAllInto := fun s _ r => .pure (s, r), peekInto := fun _ _ _ r => .pure r,
          peekAllInto := fun s _ r => .pure (s, r), reset := fun s _ => .pure s, resetAll := id }
      match step B [] m .reexecute with
      | .pure _ => "ok"
      | .fail (.err e) => showSimErr e
      | _ => "panic"
    | _ => "bad-op"
  | _ => "bad-op"

def handle9 (line : String) : String :=
  let fs := fields line
  match fs.head? with
  | some ["step"] => handleStep fs
  | some ["call"] => handleCall fs
  -- (B) lines: the object's result vs a fresh object running everything since the last execute in ONE run with direct
  -- parameters; by execute_fresh, reexecute_continues and param_read_at_run the model's answer is always "same"
  | some ["prop"] => "same"
  | _ => "bad-op"

def main (_args : List String) : IO Unit := serve handle9

import Q1t.Base.Proto
import Q1t.Model.Expr
import Q1t.Spec.ExprGrammar
/-! Driver for C14: one request per line, one answer per line (protocol: harness/src/bin/c14.rs). -/
open Q1t Q1t.Proto Q1t.Expr
open Q1t.Spec.ExprGrammar (Cst Ast LitTok ExpPart BinOp Fn)

namespace C14

def hexDigit (n : Nat) : Char := if n < 10 then Char.ofNat (48 + n) else Char.ofNat (87 + n)

def natToHex (n : Nat) : String := String.ofList (Nat.toDigits 16 n)

def hex64 (b : UInt64) : String :=
  let s := natToHex b.toNat
  String.ofList (List.replicate (16 - s.length) '0') ++ s

def hexVal? (s : String) : Option Nat :=
  if s.isEmpty then none else
  s.toList.foldl (fun acc c => acc.bind fun a =>
    if '0' ≤ c && c ≤ '9' then some (a * 16 + (c.toNat - 48))
    else if 'a' ≤ c && c ≤ 'f' then some (a * 16 + (c.toNat - 87))
    else none) (some 0)

/-- `-` or `.`-separated hexadecimal code points. -/
def decodeText (s : String) : Option (List Char) :=
  if s = "-" then some [] else (s.splitOn ".").mapM fun h => (hexVal? h).map Char.ofNat

def encodeText (l : List Char) : String :=
  if l.isEmpty then "-" else ".".intercalate (l.map fun c => natToHex c.toNat)

def showExpr : Expr → String
  | .value l => s!"(v {hex64 (litBits l)})"
  | .sum a b => s!"(+ {showExpr a} {showExpr b})"
  | .difference a b => s!"(- {showExpr a} {showExpr b})"
  | .product a b => s!"(* {showExpr a} {showExpr b})"
  | .quotient a b => s!"(/ {showExpr a} {showExpr b})"
  | .negative a => s!"(neg {showExpr a})"
  | .power a b => s!"(^ {showExpr a} {showExpr b})"
  | .function n a => s!"(fn:{String.ofList n} {showExpr a})"
  | .variable n => s!"(var:{String.ofList n})"

def showAnswer (s : List Char) : String :=
  match parse s with
  | .ok (e, rest) =>
    let v := match eval floatOps e with
      | .ok x => s!"val {hex64 x.toBits}"
      | .error (.unknownFunction _) => "everr unknownfn"
      | .error (.unknownVariable _) => "everr unknownvar"
    s!"ok {showExpr e} | {encodeText rest} | {v}"
  | .err (.invalidArgument t) => s!"err invalid {encodeText t}"
  | .err (.unclosedParentheses t) => s!"err unclosed {encodeText t}"
  | .panic => "panic"
  | .fuel => "model-out-of-fuel"

/-- A request may carry the history of its thread: `@after <n> <texts> @ <request>` says that `<n>` parses failed on the
same thread before.  `Expression::parse` is modelled (and specified) as a function of its text alone, so the history is
dropped: any influence of it shows as a mismatch (A) and as a wrong value / error (B). -/
def stripHistory (line : String) : String :=
  if line.startsWith "@after " then
    match line.splitOn " @ " with
    | _ :: rest@(_ :: _) => " @ ".intercalate rest
    | _ => line
  else line

def handle (line0 : String) : String :=
  let line := stripHistory line0
  match words line with
  | _kind :: txt :: _ =>
    match decodeText txt with
    | some s => showAnswer s
    | none => "bad-request"
  | _ => "bad-request"

/-! ### S-expressions (requests carry a `Cst`, answers an expression with literal bits) -/

inductive SExp where
  | atom (s : String)
  | list (l : List SExp)
deriving Inhabited

/-- Parse one S-expression from a token list (`(` and `)` are separate tokens). -/
def parseSExp : Nat → List String → Option (SExp × List String)
  | 0, _ => none
  | _ + 1, [] => none
  | n + 1, t :: ts =>
    if t = "(" then
      let rec items : Nat → List String → List SExp → Option (SExp × List String)
        | 0, _, _ => none
        | _ + 1, [], _ => none
        | k + 1, u :: us, acc =>
          if u = ")" then some (.list acc.reverse, us)
          else match parseSExp n (u :: us) with
            | some (x, rest) => items k rest (x :: acc)
            | none => none
      items (ts.length + 1) ts []
    else if t = ")" then none
    else some (.atom t, ts)

def tokens (s : String) : List String :=
  words ((s.replace "(" " ( ").replace ")" " ) ")

def blank? (s : String) : Option (List Char) :=
  if s = "w" then some [] else if s.startsWith "w" then decodeText (s.drop 1).toString else none

def isDig (c : Char) : Bool := DecFloat.isDigit c

/-- Literal text → token (shape check only; well-formedness is checked by `Cst.WF`). -/
def litTok? (s : String) : Option LitTok :=
  let cs := s.toList
  if cs = ['p', 'i'] then some .pi
  else if cs.all isDig then some (.int cs)
  else
    let ip := cs.takeWhile isDig
    match cs.dropWhile isDig with
    | '.' :: r =>
      let fp := r.takeWhile isDig
      match r.dropWhile isDig with
      | [] => some (.dec ip fp none)
      | m :: '+' :: ds => some (.dec ip fp (some ⟨m, some '+', ds⟩))
      | m :: '-' :: ds => some (.dec ip fp (some ⟨m, some '-', ds⟩))
      | m :: ds => some (.dec ip fp (some ⟨m, none, ds⟩))
    | _ => none

def binOp? : String → Option BinOp
  | "+" => some .add | "-" => some .sub | "*" => some .mul | "/" => some .div | "^" => some .pow | _ => none

def fn? : String → Option Fn
  | "sin" => some .sin | "cos" => some .cos | "tan" => some .tan
  | "exp" => some .exp | "ln" => some .ln | "sqrt" => some .sqrt | _ => none

partial def toCst : SExp → Option Cst
  | .list [.atom "L", .atom w, .atom t] => do pure (.lit (← blank? w) (← litTok? t))
  | .list [.atom "B", .atom op, a, .atom w, b] => do
      pure (.bin (← binOp? op) (← toCst a) (← blank? w) (← toCst b))
  | .list [.atom "N", .atom w, a] => do pure (.neg (← blank? w) (← toCst a))
  | .list [.atom "F", .atom w1, .atom f, .atom w2, a, .atom w3] => do
      pure (.app (← blank? w1) (← fn? f) (← blank? w2) (← toCst a) (← blank? w3))
  | .list [.atom "P", .atom w1, a, .atom w2] => do pure (.paren (← blank? w1) (← toCst a) (← blank? w2))
  | _ => none

/-- Conventional value of an answer expression `(+ (v bits) …)`. -/
partial def evalAnswer : SExp → Option Float
  | .list [.atom "v", .atom b] => (hexVal? b).map fun n => Float.ofBits (UInt64.ofNat n)
  | .list [.atom "+", a, b] => do pure ((← evalAnswer a) + (← evalAnswer b))
  | .list [.atom "-", a, b] => do pure ((← evalAnswer a) - (← evalAnswer b))
  | .list [.atom "*", a, b] => do pure ((← evalAnswer a) * (← evalAnswer b))
  | .list [.atom "/", a, b] => do pure ((← evalAnswer a) / (← evalAnswer b))
  | .list [.atom "^", a, b] => do pure (Float.pow (← evalAnswer a) (← evalAnswer b))
  | .list [.atom "neg", a] => do pure (- (← evalAnswer a))
  | .list [.atom "fn:sin", a] => do pure (Float.sin (← evalAnswer a))
  | .list [.atom "fn:cos", a] => do pure (Float.cos (← evalAnswer a))
  | .list [.atom "fn:tan", a] => do pure (Float.tan (← evalAnswer a))
  | .list [.atom "fn:exp", a] => do pure (Float.exp (← evalAnswer a))
  | .list [.atom "fn:ln", a] => do pure (Float.log (← evalAnswer a))
  | .list [.atom "fn:sqrt", a] => do pure (Float.sqrt (← evalAnswer a))
  | _ => none

def isNaNBits (b : UInt64) : Bool :=
  (b &&& 0x7FF0000000000000) == 0x7FF0000000000000 && (b &&& 0x000FFFFFFFFFFFFF) != 0

def ordBits (b : UInt64) : Int :=
  if b &&& 0x8000000000000000 != 0 then - ((b &&& 0x7FFFFFFFFFFFFFFF).toNat : Int) else (b.toNat : Int)

/-- Equal bits, or both NaN, or (when `tol`) within `tol` units in the last place. -/
def closeBits (tol : Nat) (a b : UInt64) : Bool :=
  a == b || (isNaNBits a && isNaNBits b) ||
  (!isNaNBits a && !isNaNBits b && (ordBits a - ordBits b).natAbs ≤ tol)

/-- Split `ok <sexpr> | <rest> | val <bits>`. -/
def splitOk (ans : String) : Option (String × String × String) :=
  match (ans.drop 3).toString.splitOn " | " with
  | [e, r, v] => some (e, r.trimAscii.toString, v.trimAscii.toString)
  | _ => none

def specG (text : List Char) (extra : List String) (ans : String) : String :=
  match extra with
  | [rl, cstS] =>
    match rl.trimAscii.toString.toNat?, (parseSExp 100000 (tokens cstS)).bind (fun p => toCst p.1) with
    | some restLen, some cst =>
      let rest := text.drop (text.length - restLen)
      if cst.flatten ++ rest != text then "fail bad-request rendered-text-differs-from-Cst.flatten"
      else if !(cst.WF && Q1t.Spec.ExprGrammar.Conv cst && Q1t.Spec.ExprGrammar.Stops rest) then
        "fail bad-request not-conventional-or-remainder-does-not-stop"
      else
        let ast := cst.toAst
        let want := (Q1t.Spec.ExprGrammar.evalConv Q1t.Spec.ExprGrammar.ieee ast).toBits
        if ans.startsWith "ok " then
          match splitOk ans with
          | some (_, r, v) =>
            if r != encodeText rest then s!"fail wrong-remainder expected {encodeText rest}"
            else match words v with
              | ["val", b] =>
                (match hexVal? b with
                 | some n =>
                   if closeBits (if ast.exactOps then 0 else 2) (UInt64.ofNat n) want then "ok"
                   else s!"fail wrong-value expected {hex64 want}"
                 | none => "fail unparsable-answer")
              | _ => s!"fail eval-error {v}"
          | none => "fail unparsable-answer"
        else if ans.startsWith "panic" then "fail panic"
        else if cst.bigInt then s!"fail int-literal-overflow conventional value {hex64 want}, got {ans.take 40}"
        else s!"fail valid-expression-rejected expected value {hex64 want}"
    | _, _ => "fail bad-request"
  | _ => "fail bad-request"

def specM (text : List Char) (extra : List String) (ans : String) : String :=
  match extra.map words with
  | [[kind, ename, plen]] =>
    match plen.toNat? with
    | some n =>
      let payload := text.drop (text.length - n)
      if kind = "nostart" && !Q1t.Spec.ExprGrammar.cannotStart text then "fail bad-request text-can-start"
      else if ans.trimAscii.toString = s!"err {ename} {encodeText payload}" then "ok"
      else if ans.startsWith "panic" then s!"fail panic {kind}"
      else if ans.startsWith "ok" then s!"fail malformed-accepted {kind}"
      else s!"fail wrong-error {kind} expected err {ename} {encodeText payload}"
    | none => "fail bad-request"
  | _ => "fail bad-request"

def specX (text : List Char) (ans : String) : String :=
  if ans.startsWith "panic" then "fail panic"
  else if Q1t.Spec.ExprGrammar.cannotStart text then
    (if ans.trimAscii.toString = s!"err invalid {encodeText text}" then "ok" else "fail nostart-not-rejected")
  else if ans.startsWith "ok " then
    match splitOk ans with
    | some (e, r, v) =>
      match decodeText r, (parseSExp 100000 (tokens e)).bind (fun p => evalAnswer p.1), words v with
      | some rest, some x, ["val", b] =>
        if !(rest.isSuffixOf text) then "fail remainder-not-a-suffix"
        else (match hexVal? b with
          | some n => if closeBits 2 (UInt64.ofNat n) x.toBits then "ok"
                      else s!"fail wrong-value-of-returned-expression expected {hex64 x.toBits}"
          | none => "fail unparsable-answer")
      | _, _, _ => "fail unparsable-answer"
    | none => "fail unparsable-answer"
  else if ans.startsWith "err invalid" || ans.startsWith "err unclosed" then "ok"
  else "fail unexpected-answer"

/-- (B): the property evaluated on the implementation's answer. -/
def specCheck (line : String) : String :=
  match line.splitOn "\t" with
  | [req0, ans0] =>
    let req := stripHistory req0
    let ans := ans0.trimAscii.toString
    match (req.splitOn " | ") with
    | head :: extra =>
      match words head with
      | [kind, txt] =>
        match decodeText txt with
        | some text =>
          if kind = "g" then specG text extra ans
          else if kind = "m" then specM text extra ans
          else if kind = "x" then specX text ans
          else "fail bad-request"
        | none => "fail bad-request"
      | _ => "fail bad-request"
    | [] => "fail bad-request"
  | _ => "fail bad-line"

end C14

def main (args : List String) : IO Unit :=
  if args = ["spec"] then serve C14.specCheck else serve C14.handle

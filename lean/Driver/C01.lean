import Driver.SimStep
/-!
Driver for C01 (shot histograms are exact Born-rule samples).
* `born | <nq> | <ops>` → the exact single-shot distribution over register words from the reference
  branching semantics (floats): `ok <k> (<word> <prob hex>)*k`, sorted by word.
* `modeldist | <repr> | <nq> | <N> | <ops>` → the exact distribution of the *model's* sorted N-shot
  register (N ≤ 3), obtained by enumerating every draw of the `Prog` term with its probability:
  `ok <k> (<w_1,…,w_N> <prob hex>)*k`.
* `hist | …` lines (implementation histograms) are answered `ok` (they are judged statistically by
  tools/props/c01.py against `born`).
-/
open Q1t Q1t.Sim Q1t.Proto Q1t.GateParse Q1t.SimParse Q1t.CFloat Q1t.SimStep

def nonzeroF (v : List CFloat) : Bool := vnormSq v > 1e-24

/-- single-shot Born semantics over floats, peeks included (branch weight carried separately) -/
def bornOp (n : Nat) (op : COp Float) (br : List CFloat × Nat × Float) : List (List CFloat × Nat × Float) :=
  let (ψ, w, p) := br
  match op with
  | .peek q c b =>
      [false, true].filterMap fun o =>
        let φ := Spec.measureTo (P := Float) n q b o ψ
        if nonzeroF φ then some (ψ, Spec.writeBit w c o, p * vnormSq φ / vnormSq ψ) else none
  | .peekAll cbits b =>
      (List.range (2 ^ n)).filterMap fun k =>
        let outs := fun q => (k >>> q) % 2 == 1
        let φ := Spec.measureAllTo (P := Float) n b outs ψ
        if nonzeroF φ then
          some (ψ, (List.range n).foldl (fun acc q => Spec.writeBit acc (cbits.getD q 0) (outs q)) w,
                p * vnormSq φ / vnormSq ψ)
        else none
  | _ =>
      ((Spec.outcomesOf n op w).eraseDups.flatMap fun w' =>
        (Spec.replayOp n nonzeroF op ψ w w').filter fun c => nonzeroF c.1).map fun (φ, w') => (φ, w', p)

def bornDist (n : Nat) (ops : List (COp Float)) : List (Nat × Float) :=
  let ψ0 : List CFloat := (List.range (2 ^ n)).map fun i => if i = 0 then 1 else 0
  let brs := ops.foldl (fun brs op => brs.flatMap (bornOp n op)) [(ψ0, 0, 1.0)]
  let ws := (brs.map (·.2.1)).eraseDups
  let ws := ws.toArray.qsort (· < ·) |>.toList
  ws.map fun w => (w, (brs.filter (·.2.1 == w)).foldl (fun a b => a + b.2.2 * vnormSq b.1) 0.0)

def choose : Nat → Nat → Nat
  | _, 0 => 1
  | 0, _ + 1 => 0
  | n + 1, k + 1 => choose n k + choose n (k + 1)

/-- all ways to distribute `c` samples over the indices with positive weight: (multiset as sorted
(index,count) list, probability) -/
def multisets (ws : List Float) (c : Nat) : List (List (Nat × Nat) × Float) :=
  let total := ws.foldl (· + ·) 0.0
  let rec go : List (Nat × Float) → Nat → List (List (Nat × Nat) × Float)
    | [], 0 => [([], 1.0)]
    | [], _ + 1 => []
    | (i, w) :: rest, c =>
        (List.range (c + 1)).flatMap fun k =>
          (go rest (c - k)).map fun (l, p) =>
            ((if k = 0 then l else (i, k) :: l),
             p * (choose c k).toFloat * Float.pow (w / total) k.toFloat)
  go (ws.zipIdx.map fun (w, i) => (i, w)) c

/-- exact distribution of a `Prog` (small shot counts only) -/
partial def dist {β} : Prog CFloat β → List (Except Fail β × Float)
  | .pure b => [(.ok b, 1.0)]
  | .fail e => [(.error e, 1.0)]
  | .binomial c p k =>
      (List.range (c + 1)).flatMap fun n0 =>
        let pr := (choose c n0).toFloat * Float.pow p.re n0.toFloat * Float.pow (1.0 - p.re) (c - n0).toFloat
        if pr ≤ 0.0 then [] else (dist (k n0)).map fun (r, q) => (r, q * pr)
  | .categorical ws c k =>
      (multisets (ws.map (·.re)) c).flatMap fun (l, pr) =>
        if pr ≤ 0.0 then [] else (dist (k l)).map fun (r, q) => (r, q * pr)

def handle1 (line : String) : String :=
  let fs := fields line
  match fs with
  | [["born"], [nq], opsF] =>
    match nq.toNat?, (splitBars' opsF).mapM parseOp with
    | some n, some ops =>
      let d := bornDist n ops
      s!"ok {d.length}" ++ String.join (d.map fun (w, p) => s!" {w} {floatToHex p}")
    | _, _ => "bad-op"
  | [["modeldist"], [repr], [nq], [nshots], opsF] =>
    match nq.toNat?, nshots.toNat?, (splitBars' opsF).mapM parseOp with
    | some n, some N, some ops =>
      let regs : List (Except Fail (List Nat) × Float) :=
        if repr = "s" then
          (dist (execOps stabB (StabState.new n N) (List.replicate N 0) ops)).map fun (r, p) => (r.map (·.2), p)
        else
          (dist (execOps (vecBackend (α := CFloat) (P := Float)) (VecState.new n N) (List.replicate N 0) ops)).map
            fun (r, p) => (r.map (·.2), p)
      let outcomes := regs.map fun (r, p) =>
        match r with
        | .ok reg => (joinNats (reg.toArray.qsort (· < ·)).toList |>.replace " " ",", p)
        | .error (.err e) => (showSimErr e |>.replace " " "_", p)
        | .error (.panic _) => ("panic", p)
      let keys := (outcomes.map (·.1)).eraseDups
      let keys := keys.toArray.qsort (· < ·) |>.toList
      s!"ok {keys.length}" ++ String.join (keys.map fun k =>
        s!" {k} {floatToHex ((outcomes.filter (·.1 == k)).foldl (fun a b => a + b.2) 0.0)}")
    | _, _, _ => "bad-op"
  | ["hist"] :: _ => "ok"
  | _ => "bad-op"
where
  splitBars' (ws : List String) : List (List String) :=
    let rec go (acc : List String) (out : List (List String)) : List String → List (List String)
      | [] => (acc.reverse :: out).reverse
      | w :: rest => if w = ";" then go [] (acc.reverse :: out) rest else go (w :: acc) out rest
    (go [] [] ws).filter (· ≠ [])

def main (_args : List String) : IO Unit := serve handle1

import Q1t.Base.Proto
import Q1t.Base.CFloat
import Q1t.Model.FromStringTables
import Q1t.Spec.FromString
import Q1t.Spec.Unitaries
import Q1t.Model.Conj
import Q1t.Spec.Clifford
/-!
Driver for C15 (`Composite::from_string`).  Protocol: harness/src/bin/c15.rs.

  g <name> <maxw> <text> | <parts>          grammar-generated description with its structure
  m <name> <maxw> <text> | <class> | <expected answer>   malformed by construction, documented error
  x <name> <maxw> <text>                    mutated / garbage text
  k <name> <maxw> <text> | <parts>          Clifford-only description: `conjugate()` of the built composite on every Pauli
                                            string -> `conj <is_stabilizer> <w> ; r ; r …` (model: `Q1t.Conj.conjugate` on the
                                            model's composite; (B): M·P = ±P′·M for M = product of the documented unitaries)
  a <name> <maxw> <text> | <parts> | <vector> | <matrix>   ACTION: `apply`/`apply_slice` on the vector, `apply_mat` on the
                                            2^w x 2 matrix -> `act <w> | apply … | slice … | mat …` (model: the composite's routes
                                            `Gate.route`; (B): the ordered product of the documented unitaries times the input)
  s <name> <maxw> <text> | <parts> | <in>   the composite in a circuit (basis state, composite, inverses of the listed gates
                                            in reverse, measure_all) on both backends -> `circ S <digits>:<n>,… V …`

`<text>`, `<name>` and error payloads: '.'-separated hexadecimal code points ('-' = empty).
Answer: `ok <width> <name> | ops <k> <op>… | mat <n> <re im>…` (`<op>` = `<name>[(<p1>,<p2>…)]@<b0>,<b1>…`, the sub-gate list of
the hook `Composite::verif_ops`; parameters as bit patterns on the model side, as the 4 decimals of the description on the
implementation side; `mat -`: wider than `maxw`, matrix not taken; `mat panic`),
`err <constructor> <payload>`, `panic`.
-/
open Q1t Q1t.Proto Q1t.CFloat
open Q1t.Spec.ExprGrammar (Cst LitTok ExpPart BinOp Fn)
open Q1t.Spec.FromString (PartL ArgL BitL)

namespace C15

def natToHex (n : Nat) : String := String.ofList (Nat.toDigits 16 n)

def hexVal? (s : String) : Option Nat :=
  if s.isEmpty then none else
  s.toList.foldl (fun acc c => acc.bind fun a =>
    if '0' ≤ c && c ≤ '9' then some (a * 16 + (c.toNat - 48))
    else if 'a' ≤ c && c ≤ 'f' then some (a * 16 + (c.toNat - 87))
    else none) (some 0)

def decodeText (s : String) : Option (List Char) :=
  if s = "-" then some [] else (s.splitOn ".").mapM fun h => (hexVal? h).map Char.ofNat

def encodeText (l : List Char) : String :=
  if l.isEmpty then "-" else ".".intercalate (l.map fun c => natToHex c.toNat)

def showC (c : CFloat) : String := floatToHex c.re ++ " " ++ floatToHex c.im

def showMat (m : LMat CFloat) : String :=
  s!"{m.length} " ++ " ".intercalate (m.map fun row => " ".intercalate (row.map showC))

def showErr : FromString.ParseErr → String
  | .unknownGate n => s!"err unknownGate {encodeText n}"
  | .noGateName t => s!"err noGateName {encodeText t}"
  | .invalidNrArguments a e n => s!"err invalidNrArguments {a} {e} {encodeText n}"
  | .invalidNrBits a e n => s!"err invalidNrBits {a} {e} {encodeText n}"
  | .invalidArgument t => s!"err invalidArgument {encodeText t}"
  | .noBits n => s!"err noBits {encodeText n}"
  | .invalidBit t => s!"err invalidBit {encodeText t}"
  | .trailingText t => s!"err trailingText {encodeText t}"
  | .unclosedParentheses t => s!"err unclosedParentheses {encodeText t}"

/-- `Gate::description()` of a library gate up to its parameter list. -/
partial def descName : GateTerm Float → String
  | .H => "H" | .X => "X" | .Y => "Y" | .Z => "Z" | .S => "S" | .Sdg => "S†" | .T => "T" | .Tdg => "T†"
  | .V => "V" | .Vdg => "V†" | .I => "I"
  | .RX _ => "RX" | .RY _ => "RY" | .RZ _ => "RZ" | .U1 _ => "U1" | .U2 _ _ => "U2" | .U3 _ _ _ => "U3"
  | .CX => "CX" | .CY => "CY" | .CZ => "CZ" | .Swap => "Swap"
  | .C g => "C" ++ descName g
  | .Composite n _ _ => n
  | _ => "?"

/-- The parameters a description shows, in its order. -/
partial def gateParams : GateTerm Float → List Float
  | .RX x | .RY x | .RZ x | .U1 x => [x]
  | .U2 x y => [x, y]
  | .U3 x y z => [x, y, z]
  | .C g => gateParams g
  | _ => []

def commaNats (l : List Nat) : String := ",".intercalate (l.map toString)

/-- `<name>[(<bits of p1>,…)]@<b0>,<b1>…` -/
def opToken (g : GateTerm Float) (bits : List Nat) : String :=
  let ps := gateParams g
  let pstr := if ps.isEmpty then "" else "(" ++ ",".intercalate (ps.map floatToHex) ++ ")"
  encodeText (descName g).toList ++ pstr ++ "@" ++ commaNats bits

partial def opTokens : OpList Float → List String
  | .nil => []
  | .cons g bits rest => opToken g bits :: opTokens rest

/-- The model's answer. -/
def answer (name : List Char) (maxw : Nat) (text : List Char) : String :=
  match FromString.fromString Expr.floatOps FromString.genTables (String.ofList name) text with
  | .ok g =>
    let w := Gate.nrBits g
    let mat :=
      if w > maxw then "-" else
        let m : LMat CFloat := Gate.matrix g
        if m.isEmpty then "panic" else showMat m
    let ops := match g with
      | .Composite _ _ ops => opTokens ops
      | _ => []
    s!"ok {w} {encodeText name} | ops {ops.length}{String.join (ops.map (" " ++ ·))} | mat {mat}"
  | .err e => showErr e
  | .panic site => s!"panic {site}"
  | .fuel => "model-out-of-fuel"

/-! ### request structure: concrete syntax of the parts -/

def blank? (s : String) : Option (List Char) :=
  if s = "w" then some [] else if s.startsWith "w" then decodeText (s.drop 1).toString else none

def isDig (c : Char) : Bool := DecFloat.isDigit c

def litTok? (s : String) : Option LitTok :=
  let cs := s.toList
  if cs = ['p', 'i'] then some .pi
  else if cs.all isDig then some (.int cs)
  else
    let ip := cs.takeWhile isDig
    match cs.dropWhile isDig with
    | '.' :: r =>
      let fp := r.takeWhile isDig
      match r.dropWhile isDig with
      | [] => some (.dec ip fp none)
      | m :: '+' :: ds => some (.dec ip fp (some ⟨m, some '+', ds⟩))
      | m :: '-' :: ds => some (.dec ip fp (some ⟨m, some '-', ds⟩))
      | m :: ds => some (.dec ip fp (some ⟨m, none, ds⟩))
    | _ => none

def binOp? : String → Option BinOp
  | "+" => some .add | "-" => some .sub | "*" => some .mul | "/" => some .div | "^" => some .pow | _ => none

def fn? : String → Option Fn
  | "sin" => some .sin | "cos" => some .cos | "tan" => some .tan
  | "exp" => some .exp | "ln" => some .ln | "sqrt" => some .sqrt | _ => none

/-- One `Cst` in prefix token form: `L w t`, `B op <a> w <b>`, `N w <a>`, `F w1 f w2 <a> w3`, `P w1 <a> w2`. -/
def parseCst : Nat → List String → Option (Cst × List String)
  | 0, _ => none
  | n + 1, toks =>
    match toks with
    | "L" :: w :: t :: r => do pure (.lit (← blank? w) (← litTok? t), r)
    | "B" :: op :: r => do
        let (a, r1) ← parseCst n r
        match r1 with
        | w :: r2 => do
            let (b, r3) ← parseCst n r2
            pure (.bin (← binOp? op) a (← blank? w) b, r3)
        | [] => none
    | "N" :: w :: r => do
        let (a, r1) ← parseCst n r
        pure (.neg (← blank? w) a, r1)
    | "F" :: w1 :: f :: w2 :: r => do
        let (a, r1) ← parseCst n r
        match r1 with
        | w3 :: r2 => pure (.app (← blank? w1) (← fn? f) (← blank? w2) a (← blank? w3), r2)
        | [] => none
    | "P" :: w1 :: r => do
        let (a, r1) ← parseCst n r
        match r1 with
        | w2 :: r2 => pure (.paren (← blank? w1) a (← blank? w2), r2)
        | [] => none
    | _ => none

def parseArgs : Nat → List String → Option (List ArgL × List String)
  | 0, r => some ([], r)
  | k + 1, r => do
      let (c, r1) ← parseCst (r.length + 1) r
      match r1 with
      | w :: r2 => do
          let (more, r3) ← parseArgs k r2
          pure (⟨c, ← blank? w⟩ :: more, r3)
      | [] => none

def parseBitLs : Nat → List String → Option (List BitL × List String)
  | 0, r => some ([], r)
  | k + 1, w :: z :: v :: r => do
      let (more, r') ← parseBitLs k r
      pure (⟨← blank? w, ← z.toNat?, ← v.toNat?⟩ :: more, r')
  | _, _ => none

/-- `P <w0> <name> <wOpen> <nargs> {<cst> <wAfter>}* <nbits> {<w> <zeros> <val>}* <wEnd>` repeated. -/
def parseParts : Nat → List String → Option (List PartL)
  | _, [] => some []
  | 0, _ => none
  | n + 1, "P" :: w0 :: name :: wOpen :: na :: r => do
      let (args, r1) ← parseArgs (← na.toNat?) r
      match r1 with
      | nb :: r2 => do
          let (bits, r3) ← parseBitLs (← nb.toNat?) r2
          match r3 with
          | wEnd :: r4 => do
              let more ← parseParts n r4
              pure (⟨← blank? w0, ← decodeText name, ← blank? wOpen, args, bits, ← blank? wEnd⟩ :: more)
          | [] => none
      | [] => none
  | _, _ => none

/-! ### the action (kind `a`) -/

def showVec (v : List CFloat) : String := " ".intercalate (v.map showC)

def hexVec (s : String) : Option (List CFloat) :=
  let rec go : List String → Option (List CFloat)
    | [] => some []
    | a :: b :: r => do
        let x ← hexToFloat? a; let y ← hexToFloat? b
        let rest ← go r
        pure (⟨x, y⟩ :: rest)
    | _ => none
  go (words s)

def pairs (v : List CFloat) : List (List CFloat) :=
  (List.range (v.length / 2)).map fun r => (v.drop (2 * r)).take 2

/-- The model's `apply` / `apply_slice` / `apply_mat` of the composite it builds. -/
def actAnswer (name text : List Char) (v m : List CFloat) : String :=
  match FromString.fromString Expr.floatOps FromString.genTables (String.ofList name) text with
  | .ok g =>
    let w := Gate.nrBits g
    if v.length ≠ 2 ^ w then s!"act {w} | state-of-wrong-size" else
    let a : String := match Gate.route (α := CFloat) .vec g v with
      | some r => showVec r
      | none => "panic"
    let b : String := match Gate.route (α := CFloat) .mat g (pairs m) with
      | some r => showVec r.flatten
      | none => "panic"
    s!"act {w} | apply {a} | slice {a} | mat {b}"
  | .err e => showErr e
  | .panic site => s!"panic {site}"
  | .fuel => "model-out-of-fuel"

def vecDist (a b : List CFloat) : Float :=
  if a.length ≠ b.length then 1e9 else (List.zipWith CFloat.dist a b).foldl max 0

def mulVec (M : LMat CFloat) (v : List CFloat) : List CFloat :=
  M.map fun row => (List.zipWith (· * ·) row v).foldl (· + ·) 0

/-! ### the stabilizer route (kinds `k`, `s`) -/

open Q1t.Tableau (P) in
def showConj : Conj.Result → String
  | .ok (flip, o) => (s!"ok {if flip then 1 else 0} " ++ joinNats (o.map P.toBits)).trimAscii.toString
  | .error (.invalidNrBits g e) => s!"err invalidNrBits {g} {e}"
  | .error .notAStabilizer => "err notAStabilizer"
  | .error .oob => "panic"

/-- `conj <flag> <w> ; r ; …` of the model's composite. -/
def conjAnswer (name text : List Char) : String :=
  match FromString.fromString Expr.floatOps FromString.genTables (String.ofList name) text with
  | .ok g =>
    let w := Gate.nrBits g
    " ; ".intercalate (s!"conj {Conj.isStabilizer g} {w}" ::
      (Spec.Clifford.allStrings w).map fun ops => showConj (Conj.conjugate g ops))
  | .err e => showErr e
  | .panic site => s!"panic {site}"
  | .fuel => "model-out-of-fuel"

def inverseKey : String → String
  | "s" => "sdg" | "sdg" => "s" | "v" => "vdg" | "vdg" => "v" | k => k

/-- The inverses of the listed gates, in reverse order, as a gate list. -/
def inverseOps (ps : List PartL) : OpList Float :=
  ps.foldl (fun acc p =>
    match Spec.FromString.docGate (P := Float) (inverseKey p.key) [] with
    | some g => .cons g p.vals acc
    | none => acc) .nil

/-- The model's prediction of the circuit: the stabilizer `±Z_i` of the input basis state is carried through the model's
composite and through the inverse gates by `Conj.conjugate`; if it comes back as `±Z_i` the outcome of qubit `i` is fixed. -/
def circAnswer (name text : List Char) (ps : List PartL) (input : List Nat) : String :=
  match FromString.fromString Expr.floatOps FromString.genTables (String.ofList name) text with
  | .ok g =>
    let w := Gate.nrBits g
    let inv : GateTerm Float := .Composite "inv" w (inverseOps ps)
    let outs := (List.range w).map fun i =>
      let zi : List Tableau.P := (List.range w).map fun j => if j = i then Tableau.P.Z else Tableau.P.I
      match Conj.conjugate g zi with
      | .ok (f1, o1) =>
        (match Conj.conjugate inv o1 with
         | .ok (f2, o2) => if o2.map Tableau.P.toBits == zi.map Tableau.P.toBits then some ((input.getD i 0 + (if f1 != f2 then 1 else 0)) % 2) else none
         | .error _ => none)
      | .error _ => none
    if outs.all Option.isSome then
      let d := String.join (outs.map fun o => toString (o.getD 0))
      s!"circ S {d}:8 V {d}:8"
    else "circ not-deterministic-in-the-model"
  | .err e => showErr e
  | .panic site => s!"panic {site}"
  | .fuel => "model-out-of-fuel"

/-- Phase and target of a Pauli string on a basis column: `P|c⟩ = ph · |c xor x⟩` (qubit 0 = most significant bit). -/
def pauliAct (w : Nat) (ops : List Tableau.P) (c : Nat) : Nat × CFloat :=
  (ops.zipIdx).foldl (fun (acc : Nat × CFloat) (pi : Tableau.P × Nat) =>
    let sh := w - 1 - pi.2
    let bit := (c >>> sh) % 2
    let (r, ph) := acc
    match pi.1 with
    | .I => (r, ph)
    | .Z => (r, if bit = 1 then -ph else ph)
    | .X => (r ^^^ (1 <<< sh), ph)
    | .Y => (r ^^^ (1 <<< sh), (if bit = 1 then (⟨0.0, -1.0⟩ : CFloat) else ⟨0.0, 1.0⟩) * ph)) (c, (1 : CFloat))

/-- `max |M·P − s·P′·M|` for Pauli strings `P`, `P′` (monomial matrices; `M` unitary). -/
def intertwineDev (w : Nat) (M : Array (Array CFloat)) (p p' : List Tableau.P) (flip : Bool) : Float :=
  let d := 2 ^ w
  let get (i j : Nat) : CFloat := (M.getD i #[]).getD j 0
  (List.range d).foldl (fun acc c =>
    let (rc, ph) := pauliAct w p c          -- column c of P has its entry in row rc
    (List.range d).foldl (fun acc r =>
      -- (M·P)[r][c] = M[r][rc]·ph ;  (P′·M)[r][c] = Σ_m P′[r][m] M[m][c], P′[r][m] ≠ 0 iff r = target(m)
      let lhs := get r rc * ph
      -- P′ is an involution up to phase: the column m with target r is m = r xor x′, which is target(r)'s row index
      let (m, _) := pauliAct w p' r
      let (_, ph') := pauliAct w p' m
      let rhs := ph' * get m c
      let rhs := if flip then -rhs else rhs
      max acc (CFloat.dist lhs rhs)) acc) 0.0

def parseConjAns (ws : List String) : Option (Bool × List Tableau.P) :=
  match ws with
  | "ok" :: f :: ds => (nats? ds).bind fun ds =>
      if f = "0" then some (false, ds.map Tableau.P.ofBits) else if f = "1" then some (true, ds.map Tableau.P.ofBits) else none
  | _ => none

/-- (B) for `k`: every answer of `conjugate()` is the conjugation by the ordered product of the documented unitaries. -/
def specK (name : List Char) (structure_ : String) (text : List Char) (ans : String) : String :=
  match parseParts 1000 (words structure_) with
  | none => "fail bad-request unparsable-structure"
  | some ps =>
    if Spec.FromString.renderDesc ps != text || ps.isEmpty || !(ps.all fun p => p.WF && p.Matches) ||
        !Spec.FromString.distinctBits ps then "fail bad-request"
    else match Spec.FromString.expected Spec.ExprGrammar.ieee (String.ofList name) ps with
    | none => "fail bad-request no-documented-gate"
    | some g =>
      let w := Spec.FromString.maxIndex ps + 1
      match ans.splitOn " ; " with
      | hd :: rs =>
        if words hd ≠ ["conj", "true", toString w] then s!"fail stabilizer-claim-or-width {hd}"
        else
          let strings := Spec.Clifford.allStrings w
          if rs.length ≠ strings.length then "fail answer-count"
          else
            let M : Array (Array CFloat) := ((Spec.specMatrix g : LMat CFloat).map List.toArray).toArray
            match (strings.zip rs).find? (fun sr =>
              match parseConjAns (words sr.2) with
              | some (fl, o) => o.length ≠ w || intertwineDev w M sr.1 o fl > 1e-9
              | none => true) with
            | none => "ok"
            | some (p, r) => s!"fail conjugate-differs-from-listed-gates [{joinNats (p.map Tableau.P.toBits)}] -> {r}"
      | [] => "fail unparsable-answer"

/-- (B) for `s`: compute, uncompute with the listed gates: every shot reads the input back, on both backends. -/
def specS (input : String) (ans : String) : String :=
  let d := input.trimAscii.toString
  if ans = s!"circ S {d}:8 V {d}:8" then "ok"
  else if ans.startsWith "panic" then "fail panic"
  else
    match words ans with
    | ["circ", "S", s, "V", v] =>
      if v ≠ s!"{d}:8" then s!"fail vector-route-differs-from-listed-gates {ans}"
      else if s ≠ s!"{d}:8" then s!"fail stabilizer-route-differs-from-listed-gates {ans}"
      else "fail unexpected-answer"
    | _ => s!"fail circuit-did-not-run {ans.take 80}"

/-- (B) for `a`: the built composite ACTS as the listed gates applied in order to the listed qubits. -/
def specA (name : List Char) (structure_ : String) (text : List Char) (vS mS : String) (ans : String) : String :=
  match parseParts 1000 (words structure_), hexVec vS, hexVec mS with
  | some ps, some v, some m =>
    if Spec.FromString.renderDesc ps != text || ps.isEmpty || !(ps.all fun p => p.WF && p.Matches) ||
        !Spec.FromString.distinctBits ps || (ps.any fun p => p.bigInt) then "fail bad-request"
    else match Spec.FromString.expected Spec.ExprGrammar.ieee (String.ofList name) ps with
    | none => "fail bad-request no-documented-gate"
    | some g =>
      let w := Spec.FromString.maxIndex ps + 1
      match ans.splitOn " | " with
      | [h, a, b, c] =>
        if words h ≠ ["act", toString w] then s!"fail wrong-width {h}"
        else match words a, words b, words c with
          | "apply" :: ra, "slice" :: rb, "mat" :: rc =>
            match hexVec (" ".intercalate ra), hexVec (" ".intercalate rb), hexVec (" ".intercalate rc) with
            | some ra, some rb, some rc =>
              let M : LMat CFloat := Spec.specMatrix g
              let want := mulVec M v
              let col (k : Nat) (x : List CFloat) : List CFloat := (pairs x).map fun r => r.getD k 0
              let d1 := vecDist ra want
              let d2 := vecDist rb want
              let d3 := max (vecDist (col 0 rc) (mulVec M (col 0 m))) (vecDist (col 1 rc) (mulVec M (col 1 m)))
              if want.any (fun c => c.re.isNaN || c.im.isNaN) then "skip"
              else if d1 > 1e-9 then s!"fail apply-differs-from-listed-gates dist={d1}"
              else if d2 > 1e-9 then s!"fail apply_slice-differs-from-listed-gates dist={d2}"
              else if d3 > 1e-9 then s!"fail apply_mat-differs-from-listed-gates dist={d3}"
              else "ok"
            | _, _, _ => if ans.contains "panic" then "fail panic" else "fail unparsable-answer"
          | _, _, _ => "fail unparsable-answer"
      | _ => if ans.startsWith "panic" then "fail panic" else s!"fail valid-description-rejected {ans.take 60}"
  | _, _, _ => "fail bad-request"

def handle (line : String) : String :=
  match line.splitOn " | " with
  | head :: extra =>
    match words head with
    | [kind, name, maxw, txt] =>
      match decodeText name, maxw.toNat?, decodeText txt with
      | some n, some w, some s =>
        if kind = "k" then conjAnswer n s
        else if kind = "a" then
          (match extra with
           | [_, vS, mS] =>
             (match hexVec vS, hexVec mS with
              | some v, some m => actAnswer n s v m
              | _, _ => "bad-request")
           | _ => "bad-request")
        else if kind = "s" then
          (match extra with
           | [st, inp] =>
             (match parseParts 1000 (words st) with
              | some ps => circAnswer n s ps (inp.trimAscii.toString.toList.map fun c => c.toNat - 48)
              | none => "bad-request")
           | _ => "bad-request")
        else answer n w s
      | _, _, _ => "bad-request"
    | _ => "bad-request"
  | [] => "bad-request"

/-! ### (B) -/

def maxDist (a b : LMat CFloat) : Float :=
  if a.length ≠ b.length then 1e9 else
  (List.zipWith (fun ra rb => if ra.length ≠ rb.length then 1e9 else
    (List.zipWith CFloat.dist ra rb).foldl max 0) a b).foldl max 0

def parseVec : List String → Option (List CFloat)
  | [] => some []
  | a :: b :: r => do
      let x ← hexToFloat? a; let y ← hexToFloat? b
      let rest ← parseVec r
      pure (⟨x, y⟩ :: rest)
  | _ => none

def unflat (n : Nat) (v : List CFloat) : LMat CFloat :=
  (List.range n).map fun r => (v.drop (r * n)).take n

def hasNaN (m : LMat CFloat) : Bool := m.any fun r => r.any fun c => c.re.isNaN || c.im.isNaN

/-- Split an `ok` answer: width, name, sub-gate tokens, matrix part. -/
def splitOk (ans : String) : Option (Nat × String × List String × List String) :=
  match ans.splitOn " | " with
  | [h, o, m] =>
    match words h, words o, words m with
    | ["ok", w, nm], "ops" :: k :: toks, "mat" :: rest =>
      match w.toNat?, k.toNat? with
      | some w, some k => if toks.length = k then some (w, nm, toks, rest) else none
      | _, _ => none
    | _, _, _ => none
  | _ => none

/-- A decimal of a description (`1.5708`, `-0.0000`, `NaN`, `inf`). -/
def parseDec (t : String) : Option Float :=
  if t = "NaN" then some (0.0 / 0.0) else if t = "inf" then some (1.0 / 0.0) else if t = "-inf" then some (-1.0 / 0.0) else
  let (neg, body) := if t.startsWith "-" then (true, (t.drop 1).toString) else (false, t)
  match body.splitOn "." with
  | [ip] => ip.toNat?.map fun n => let x := Float.ofNat n; if neg then -x else x
  | [ip, fp] =>
    match ip.toNat?, fp.toNat? with
    | some a, some b =>
      let x := Float.ofScientific (a * 10 ^ fp.length + b) true fp.length
      some (if neg then -x else x)
    | _, _ => none
  | _ => none

/-- The description shows the parameter rounded to 4 decimals. -/
def closeDec (v : Float) (t : String) : Bool :=
  match parseDec t with
  | none => false
  | some d =>
    if v.isNaN then d.isNaN
    else if v.isInf then d == v
    else (v - d).abs ≤ 5.0e-5 + 1.0e-9 + 1.0e-12 * v.abs

/-- One sub-gate token of the implementation against the expected gate on the expected qubits (in that ORDER). -/
def opMatches (tok : String) (g : GateTerm Float) (bits : List Nat) : Bool :=
  match tok.splitOn "@" with
  | [left, bs] =>
    let (nm, ps) := match left.splitOn "(" with
      | [n] => (n, ([] : List String))
      | [n, rest] => (n, (rest.dropEnd 1).toString.splitOn ",")
      | _ => ("", [])
    let want := gateParams g
    nm == encodeText (descName g).toList && bs == commaNats bits && ps.length == want.length &&
      (List.zipWith closeDec want ps).all id
  | _ => false

partial def opsMatch : List String → OpList Float → Option String
  | [], .nil => none
  | tok :: toks, .cons g bits rest =>
    if opMatches tok g bits then opsMatch toks rest
    else some s!"{tok}-expected-{opToken g bits}"
  | _, _ => some "different-number-of-sub-gates"

/-- Grammar-generated description: the result is the documented gates in order on `max index + 1` qubits. -/
def specG (name text : List Char) (maxw : Nat) (structure_ : String) (ans : String) : String :=
  match parseParts 1000 (words structure_) with
  | none => "fail bad-request unparsable-structure"
  | some ps =>
    if Spec.FromString.renderDesc ps != text then "fail bad-request text-differs-from-rendered-structure"
    else if ps.isEmpty || !(ps.all fun p => p.WF && p.Matches) then "fail bad-request parts-not-well-formed-or-not-documented"
    else if ans.startsWith "panic" then "fail panic"
    else
      let top := Spec.FromString.maxIndex ps
      -- the parts are read left to right: the first part with an integer literal >= 2^64 in an argument (known finding) or
      -- with an index that is not a usize decides, before anything else
      let firstBad := ps.find? fun p => p.bigInt || p.vals.any fun b => 2 ^ 64 ≤ b
      if let some p := firstBad then
        (if p.bigInt then
           (if ans.startsWith "ok " then "fail unparsable-answer" else s!"fail arg-int-literal-overflow got {ans.take 60}")
         else if ans.startsWith "err invalidBit " then "ok" else "fail unrepresentable-index-not-rejected")
      else if 2 ^ 64 ≤ top + 1 then
        (if ans = s!"err invalidBit {encodeText (Nat.toDigits 10 top)}" then "ok" else "fail width-overflow-not-rejected")
      else
      match Spec.FromString.expected Spec.ExprGrammar.ieee (String.ofList name) ps with
      | none => "fail bad-request no-documented-gate"
      | some g =>
        match splitOk ans with
        | none =>
          if ps.any fun p => p.bigInt then s!"fail arg-int-literal-overflow got {ans.take 60}"
          else s!"fail valid-description-rejected {ans.take 80}"
        | some (w, nm, toks, mat) =>
          let wantOps := match g with
            | .Composite _ _ ops => ops
            | _ => .nil
          if w ≠ top + 1 then s!"fail wrong-width expected {top + 1}"
          else if nm ≠ encodeText name then "fail wrong-name"
          else if let some why := opsMatch toks wantOps then s!"fail sub-gate-list-differs {why}"
          else match mat with
            | ["-"] => if w > maxw then "ok" else "fail matrix-missing"
            | ["panic"] =>
              if Spec.FromString.distinctBits ps then "fail matrix-panics" else "ok"
            | n :: ent =>
              match n.toNat?, parseVec ent with
              | some n, some v =>
                if !Spec.FromString.distinctBits ps then "ok"   -- no reference semantics for a gate on repeated qubits
                else
                  let m := unflat n v
                  let ref : LMat CFloat := Spec.specMatrix g
                  if hasNaN ref then (if hasNaN m then "ok" else "fail matrix-differs-from-ordered-product nan")
                  else
                    let d := maxDist m ref
                    if d > 1e-9 then s!"fail matrix-differs-from-ordered-product dist={d}" else "ok"
              | _, _ => "fail unparsable-answer"
            | [] => "fail unparsable-answer"

def specCheck (line : String) : String :=
  match line.splitOn "\t" with
  | [req, ans0] =>
    let ans := ans0.trimAscii.toString
    match req.splitOn " | " with
    | head :: extra =>
      match words head with
      | [kind, name, maxw, txt] =>
        match decodeText name, maxw.toNat?, decodeText txt with
        | some name, some maxw, some text =>
          if kind = "g" then
            (match extra with
             | [s] => specG name text maxw s ans
             | _ => "fail bad-request")
          else if kind = "k" then
            (match extra with
             | [st] => specK name st text ans
             | _ => "fail bad-request")
          else if kind = "a" then
            (match extra with
             | [st, vS, mS] => specA name st text vS mS ans
             | _ => "fail bad-request")
          else if kind = "s" then
            (match extra with
             | [_, inp] => specS inp ans
             | _ => "fail bad-request")
          else if kind = "m" then
            (match extra with
             | [cls, want] =>
               if ans = want.trimAscii.toString then "ok"
               else if ans.startsWith "panic" then s!"fail panic {cls}"
               else if ans.startsWith "ok" then s!"fail malformed-accepted {cls}"
               else s!"fail wrong-error {cls} expected {want}"
             | _ => "fail bad-request")
          else if kind = "d" then
            (if ans.startsWith "ok " then "ok"
             else if ans.startsWith "panic" then "fail panic"
             else s!"fail doc-example-rejected {ans.take 60}")
          else if kind = "x" then
            (if ans.startsWith "panic" then "fail panic"
             else if ans.startsWith "ok " then
               (match splitOk ans with
                | some (w, _, _, _) => if w = 0 then "fail zero-width-composite" else "ok"
                | none => "fail unparsable-answer")
             else if ans.startsWith "err " then "ok"
             else "fail unexpected-answer")
          else "fail bad-request"
        | _, _, _ => "fail bad-request"
      | _ => "fail bad-request"
    | [] => "fail bad-request"
  | _ => "fail bad-line"

end C15

def main (args : List String) : IO Unit :=
  if args = ["spec"] then serve C15.specCheck else serve C15.handle

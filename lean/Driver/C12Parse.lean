import Q1t.Base.Proto
import Q1t.Base.CFloat
import Q1t.Model.CQasm
/-! Request parser and `f64` instantiation for the C12 driver (driver side only).

Request grammar (tokens separated by blanks; `|` separates operations):
```
circ <nq> <nc> | <op> | <op> …
op   ::= g <term> @ <bits> | cg <target> <cbits> : <term> @ <bits> | m <q> <c> <B> | ma <B> <cbits>
       | pk <q> <c> <B> | pka <B> <cbits> | r <q> | ra | b <qbits>
term ::= <LibraryName> <param>* | C <term> | Kron <term> <term>
       | Comp <name> <n> <k> { <term> <m> <bit>*m }*k | Loop <label> <iters> <name> <n> <k> { … }*k
param ::= <16 hex digits> | &<name>=<16 hex digits>
``` -/
namespace C12
open Q1t Q1t.Proto Q1t.CQ

/-! ### `f64` -/

def padLeft (n : Nat) (ds : List Char) : List Char := List.replicate (n - ds.length) '0' ++ ds

def dropTrailingZeros (ds : List Char) : List Char := (ds.reverse.dropWhile (· == '0')).reverse

/-- exact decimal expansion of a finite non-negative double with significand `m` at binary exponent `e` -/
def expandExact (m : Nat) (e : Int) : List Char :=
  if e ≥ 0 then (toString (m * 2 ^ e.toNat)).toList
  else
    let k := (-e).toNat
    let ip := m / 2 ^ k
    let fp := (m % 2 ^ k) * 5 ^ k          -- k decimal digits
    let fd := dropTrailingZeros (padLeft k (toString fp).toList)
    (toString ip).toList ++ (if fd.isEmpty then [] else '.' :: fd)

/-- A decimal text of `x` that reads back as `x` (`f64::to_string` is the shortest such text; numeric tokens are
compared by value, so the exact expansion is equivalent). `NaN`, `inf`, `-inf`, `-0` as Rust prints them. -/
def dispFloat (x : Float) : List Char :=
  let b := x.toBits.toNat
  let neg := b >>> 63 == 1
  let ex := (b >>> 52) % 2048
  let fr := b % 2 ^ 52
  if ex == 2047 then (if fr ≠ 0 then "NaN".toList else if neg then "-inf".toList else "inf".toList)
  else
    let body := if ex == 0 then expandExact fr (-1074) else expandExact (fr + 2 ^ 52) ((ex : Int) - 1075)
    if neg then '-' :: body else body

def floatNum : Num Float where
  disp := dispFloat
  addPi := fun x => x + Float.ofBits 0x400921FB54442D18
  evalExpr := fun e => match Expr.eval Expr.floatOps e with
    | .ok x => some x
    | .error _ => none

/-! ### requests -/

def hexF (s : String) : Option Float := CFloat.hexToFloat? s

def parseParam (tok : String) : Option (Param Float) :=
  if tok.startsWith "&" then
    match (tok.drop 1).toString.splitOn "=" with
    | [name, hex] => (hexF hex).map fun v => .ref name.toList v
    | _ => none
  else (hexF tok).map .direct

def takeNats (ws : List String) : List Nat × List String :=
  let a := ws.takeWhile fun w => w.toNat?.isSome
  (a.filterMap (·.toNat?), ws.drop a.length)

mutual
partial def parseTerm : List String → Option (XGate Float × List String)
  | "C" :: r => (parseTerm r).map fun (g, r') => (.ctl g, r')
  | "Kron" :: r => do
      let (a, r1) ← parseTerm r
      let (b, r2) ← parseTerm r1
      pure (.kron a b, r2)
  | "Comp" :: name :: n :: k :: r => do
      let n ← n.toNat?; let k ← k.toNat?
      let (ops, r') ← parseSubs k r
      pure (.comp name n ops, r')
  | "Loop" :: label :: iters :: name :: n :: k :: r => do
      let iters ← iters.toNat?; let n ← n.toNat?; let k ← k.toNat?
      let (ops, r') ← parseSubs k r
      pure (.loop label.toList iters name n ops, r')
  | name :: r =>
    match Gen.cqGates.find? (·.name == name) with
    | none => none
    | some g => do
        let k := g.params.length
        let ps ← (r.take k).mapM parseParam
        if ps.length ≠ k then none
        pure (.lib name ps, r.drop k)
  | [] => none
partial def parseSubs : Nat → List String → Option (XOps Float × List String)
  | 0, r => some (.nil, r)
  | k + 1, r => do
      let (g, r1) ← parseTerm r
      match r1 with
      | m :: r2 => do
          let m ← m.toNat?
          let bits ← nats? (r2.take m)
          if bits.length ≠ m then none
          let (rest, r3) ← parseSubs k (r2.drop m)
          pure (.cons g bits rest, r3)
      | [] => none
end

def parseBasis : String → Option Basis
  | "X" => some .X | "Y" => some .Y | "Z" => some .Z | _ => none

def parseOp : List String → Option (XOp Float)
  | "g" :: r => do
      let (g, r') ← parseTerm r
      match r' with
      | "@" :: bits => (nats? bits).map fun b => .gate g b
      | _ => none
  | "cg" :: target :: r => do
      let t ← target.toNat?
      let (control, r1) := takeNats r
      match r1 with
      | ":" :: r2 => do
          let (g, r3) ← parseTerm r2
          match r3 with
          | "@" :: bits => (nats? bits).map fun b => .cond control t g b
          | _ => none
      | _ => none
  | ["m", q, c, b] => do pure (.measure (← q.toNat?) (← c.toNat?) (← parseBasis b))
  | "ma" :: b :: cbits => do pure (.measureAll (← nats? cbits) (← parseBasis b))
  | ["pk", q, c, b] => do pure (.peek (← q.toNat?) (← c.toNat?) (← parseBasis b))
  | "pka" :: b :: cbits => do pure (.peekAll (← nats? cbits) (← parseBasis b))
  | ["r", q] => q.toNat?.map .reset
  | ["ra"] => some .resetAll
  | "b" :: bits => (nats? bits).map .barrier
  | _ => none

def parseCirc (req : String) : Option (XCircuit Float) :=
  match splitBars (words req) with
  | ["circ", nq, nc] :: ops => do
      let nq ← nq.toNat?; let nc ← nc.toNat?
      let ops ← ops.mapM parseOp
      pure ⟨nq, nc, ops⟩
  | _ => none

def encode (s : String) : String :=
  ((s.replace "%" "%25").replace "\n" "%0A").replace "\t" "%09"
def decode (s : String) : String :=
  ((s.replace "%0A" "\n").replace "%09" "\t").replace "%25" "%"

def showErr : Err → String
  | .notImplemented => "err NotImplemented"
  | .invalidConditionalOp => "err InvalidConditionalOp"
  | .exportPeekInvalid => "err ExportPeekInvalid"
  | .noClassicalRegister => "err NoClassicalRegister"
  | .invalidNrBits n e => s!"err InvalidNrBits {n} {e}"

def showRes : Res Text → String
  | .ok t => "ok " ++ encode (String.ofList t)
  | .err e => showErr e
  | .panic => "panic"

def handle (line : String) : String :=
  match parseCirc line with
  | none => "bad-request"
  | some c => showRes (exportText Gen.cqGates floatNum c)

end C12

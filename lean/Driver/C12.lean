import Driver.C12Parse
import Q1t.Spec.CQ1
import Q1t.Spec.Born
import Q1t.Base.DecFloat
/-! Driver for C12 (c-QASM export).

`model` mode: each request is answered with the model's export (`Q1t.CQ.exportText` over the generated table).

`spec` mode, input `<request>\t<implementation's answer>`: the property itself, evaluated on the implementation's text:
* a panic is a failure (`panic:<cause>`); an error is accepted; a program for a circuit with a peek or with a
  measurement into a differently numbered bit is a failure (`not-refused:…`);
* otherwise the text is parsed with `Spec/CQ1` (`syntax:<what>`), checked for well-formedness (`illformed:<what>`),
  and its branch set is compared, per register word, with the Born semantics of the circuit (`Spec/Born`) as
  unnormalised mixed states (`meaning:<cause>`).
When the program as a whole fails, the failure is attributed to the first circuit operation whose own lines fail
(lines are counted with the model's chunks; the comparison starts from the reference state before that operation). -/
open Q1t Q1t.Proto Q1t.CQ

namespace C12

/-! ### numbers of the reference reading -/

def litValue (x : CQ1.NumLit) : Float :=
  let v := Float.ofBits (DecFloat.literalBits x.txt)
  if x.neg then -v else v

def piF : Float := Float.ofBits 0x400921FB54442D18

def floatSem : CQ1.NumSem CFloat Float where
  angle := fun x => some (litValue x)
  rk := fun k => let θ := piF / (2 ^ k.toFloat); some ⟨Float.cos θ, Float.sin θ⟩

def nonzero (ψ : List CFloat) : Bool := (ψ.foldl (fun acc a => acc + CFloat.normSq a) 0.0) > 1e-18

/-! ### the circuit as the reference semantics sees it -/

def toBasis : Basis → Sim.Basis
  | .X => .X | .Y => .Y | .Z => .Z

def toCOp : XOp Float → Option (Sim.COp Float)
  | .gate g bits => (toTerm g).map fun t => .gate t bits
  | .cond control target g bits => (toTerm g).map fun t => .cond control target t bits
  | .reset q => some (.reset q)
  | .resetAll => some .resetAll
  | .measure q c b => some (.measure q c (toBasis b))
  | .measureAll cbits b => some (.measureAll cbits (toBasis b))
  | .peek q c b => some (.peek q c (toBasis b))
  | .peekAll cbits b => some (.peekAll cbits (toBasis b))
  | .barrier bits => some (.barrier bits)

def distinct (l : List Nat) : Bool := !CQ1.hasDup l

mutual
/-- a gate that can be simulated: operand counts match, sub-gate placements are distinct and in range -/
partial def gateOk : XGate Float → Bool
  | .lib _ _ => true
  | .ctl g => gateOk g
  | .kron a b => gateOk a && gateOk b
  | .comp _ n ops => opsOk n ops
  | .loop _ _ _ n ops => opsOk n ops
partial def opsOk (n : Nat) : XOps Float → Bool
  | .nil => true
  | .cons g bits rest =>
      gateOk g && bits.length == nrBits g && distinct bits && bits.all (· < n) && opsOk n rest
end

def placedOk (nq : Nat) (g : XGate Float) (bits : List Nat) : Bool :=
  gateOk g && bits.length == nrBits g && distinct bits && bits.all (· < nq) && (toTerm g).isSome

def opValid (nq nc : Nat) : XOp Float → Bool
  | .gate g bits => placedOk nq g bits
  | .cond control _ g bits => placedOk nq g bits && control.all (· < nc) && control.length ≤ 64
  | .reset q => q < nq
  | .resetAll => true
  | .measure q c _ => q < nq && c < nc
  | .measureAll cbits _ => cbits.length == nq && cbits.all (· < nc)
  | .peek q c _ => q < nq && c < nc
  | .peekAll cbits _ => cbits.length == nq && cbits.all (· < nc)
  | .barrier _ => true

mutual
partial def anyLib (p : String → List (Param Float) → Bool) : XGate Float → Bool
  | .lib name ps => p name ps
  | .ctl g => anyLib p g
  | .kron a b => anyLib p a || anyLib p b
  | .comp _ _ ops => anyLibOps p ops
  | .loop _ _ _ _ ops => anyLibOps p ops
partial def anyLibOps (p : String → List (Param Float) → Bool) : XOps Float → Bool
  | .nil => false
  | .cons g _ rest => anyLib p g || anyLibOps p rest
end

/-- a NaN / infinite parameter: the circuit has no meaning to preserve -/
def nonFinite (op : XOp Float) : Bool :=
  let bad := fun (_ : String) (ps : List (Param Float)) => ps.any fun p => p.value.isNaN || p.value.isInf
  match op with
  | .gate g _ => anyLib bad g
  | .cond _ _ g _ => anyLib bad g
  | _ => false

def isPeek : XOp Float → Bool
  | .peek _ _ _ | .peekAll _ _ => true
  | _ => false

def bitMismatch : XOp Float → Bool
  | .measure q c _ => q != c
  | .measureAll cbits _ => cbits != List.range cbits.length
  | _ => false

/-- upper bound on the number of branches -/
def branchFactor (nq : Nat) : XOp Float → Nat
  | .measure _ _ _ | .reset _ => 2
  | .measureAll _ _ | .resetAll => 2 ^ nq
  | _ => 1

/-! ### comparison of branch sets: per register word, the unnormalised mixed state -/

def matDist (A B : LMat CFloat) : Float :=
  (List.zipWith (fun ra rb => (List.zipWith (fun a b => CFloat.dist a b) ra rb).foldl max 0.0) A B).foldl max 0.0

def sameBranches (n : Nat) (xs ys : List (CQ1.Branch CFloat)) : Bool :=
  let ws := (CQ1.wordsOf xs ++ CQ1.wordsOf ys).eraseDups
  ws.all fun w => matDist (CQ1.density (P := Float) (2 ^ n) xs w) (CQ1.density (P := Float) (2 ^ n) ys w) < 1e-7

/-! ### diagnosis -/

def looksLikeHole (t : String) : Bool :=
  -- an inner `{…}` without `|`: an unevaluated template hole, not a bundle
  match CQ.splitFirst '{' ((t.toList.drop 1)) with
  | some (_, post) => match CQ.splitFirst '}' post with
    | some (inner, _) => !inner.contains '|' && !inner.contains '{'
    | none => false
  | none => false

def synTag (pf : CQ1.ParseFail) : String :=
  match pf.err with
  | .unknownInstr name =>
      if name.startsWith ";" then "stray-semicolon"
      else s!"unknown-instruction:{if name.startsWith "c-" then (name.drop 2).toString else name}"
  | .badOperand t =>
      if t.startsWith "--" then "double-minus"
      else if t.contains '{' || t.contains '}' then "unevaluated-hole"
      else if t == "NaN" || t == "inf" || t == "-inf" then "non-finite-number"
      else
        let ws := CQ1.words t.toList
        if ws.length ≥ 2 && (ws.head?.bind CQ1.parseArg).isSome then "missing-comma"
        else if (t.toList.head?.map CQ1.isIdStart).getD false && t.toList.all CQ1.isIdChar then "named-parameter"
        else "bad-operand"
  | .badArity n => s!"bad-arity:{n}"
  | .badCondition _ => "bad-condition"
  | .unclosedBundle => if pf.text.contains '*' then "unevaluated-hole" else "bundle-multiline"
  | .bundleFragment => if pf.text.contains '*' then "unevaluated-hole" else "bundle-multiline"
  | .nestedBundle => if looksLikeHole pf.text then "unevaluated-hole" else "nested-bundle"
  | .emptyBundleSlot => "bundle-empty-slot"
  | .badSubcircuit => "bad-subcircuit"
  | .noVersion => "no-version-line"
  | .noQubits => "no-qubits-line"

def wfTag : CQ1.WfErr → String
  | .noQubits => "no-qubits"
  | .qubitOutOfRange n _ => s!"qubit-out-of-range:{n}"
  | .bitOutOfRange n _ => s!"bit-out-of-range:{n}"
  | .repeatedOperand n => s!"repeated-operand:{n}"
  | .bundleOverlap => "bundle-overlap"
  | .zeroIterations _ => "zero-iterations"


mutual
/-- a `Loop` inside a `Loop` -/
partial def nestedLoop (inLoop : Bool) : XGate Float → Bool
  | .lib _ _ => false
  | .ctl g => nestedLoop inLoop g
  | .kron a b => nestedLoop inLoop a || nestedLoop inLoop b
  | .comp _ _ ops => nestedLoopOps inLoop ops
  | .loop _ _ _ _ ops => inLoop || nestedLoopOps true ops
partial def nestedLoopOps (inLoop : Bool) : XOps Float → Bool
  | .nil => false
  | .cons g _ rest => nestedLoop inLoop g || nestedLoopOps inLoop rest
end

/-- is the library gate's own translation more than one line? (by the model's text) -/
def multiLine (name : String) (ps : List (Param Float)) : Bool :=
  match libCQasm Gen.cqGates floatNum ((List.range 3).map qName) name ps (List.range (libBits name)) with
  | .ok t => t.contains '\n'
  | _ => false

/-- why the meaning of this operation's lines may differ from the operation (first applicable cause) -/
def gateCause (g : XGate Float) : String :=
  if nestedLoop false g then "nested-loop"
  else if anyLib (fun n _ => n == "CCRZ") g then "ccrz-relative-phase"
  else "unexplained"

def opCause : XOp Float → String
  | .cond control target g _ =>
      if control.isEmpty then (if target ≠ 0 then "empty-control" else gateCause g)   -- exported like a plain gate
      else if !distinct control then "repeated-control"
      else if target ≥ 2 ^ control.length then "target-beyond-controls"
      else if anyLib multiLine g then "cond-multiline"
      else if anyLib (fun n _ => n == "CCRZ") g then "ccrz-relative-phase"
      else "unexplained"
  | .gate g _ => gateCause g
  | .measureAll _ b => if b != .Z then "measure-all-basis-not-restored" else "unexplained"
  | _ => "unexplained"

def panicCause (nq nc : Nat) (ops : List (XOp Float)) : String :=
  let causes := ops.filterMap fun
    | .cond control _ _ _ =>
        if control.isEmpty then none
        else if control.length > 64 then some "more-than-64-controls"
        else if control.any (fun i => nq ≤ i) then some "condition-bit-without-qubit"
        else none
    | _ => none
  causes.head?.getD (if ops.all (opValid nq nc) then "unexplained" else "malformed-gate-operands")

/-! ### the property -/

def rawLines (t : Text) : List Text := CQ1.splitOnChar '\n' t

def chunkLines (chunks : List Text) : Nat := (chunks.map fun c => 1 + CQ1.count '\n' c).foldl (· + ·) 0

def joinLines (ls : List Text) : Text := CQ.intercalate ['\n'] ls

def oneLine (s : String) : String := (s.replace "\n" "\\n").replace "\t" " "

/-- per-operation attribution of a failure of the whole program -/
partial def attributeOp (c : XCircuit Float) (cops : List (Sim.COp Float)) (text : Text) : String :=
  let raw := rawLines text
  let hdr := if c.nq > 0 then 2 else 1
  let rec go (k : Nat) (ops : List (XOp Float × Sim.COp Float)) (lines : List Text)
      (ref : List (CQ1.Branch CFloat)) : String :=
    match ops with
    | [] => "unattributed the program as a whole fails but every operation's own lines pass"
    | (xop, cop) :: more =>
      match exportOp Gen.cqGates floatNum c.nq xop with
      | .ok chunks =>
        let nl := chunkLines chunks
        let frag := joinLines (lines.take nl)
        match Spec.branches c.nq nonzero [cop] ref with
        | none => "unattributed reference semantics undefined"
        | some ref' =>
          match CQ1.parseFragment frag with
          | .error pf => s!"syntax:{synTag pf} op={k} line=\"{oneLine pf.text}\""
          | .ok subs =>
            match CQ1.subsWf c.nq subs with
            | some e => s!"illformed:{wfTag e} op={k} lines=\"{oneLine (String.ofList frag)}\""
            | none =>
              match CQ1.subsSem floatSem c.nq nonzero subs ref with
              | none => s!"meaning:no-meaning op={k}"
              | some got =>
                if sameBranches c.nq got ref' then go (k + 1) more (lines.drop nl) ref'
                else s!"meaning:{opCause xop} op={k} lines=\"{oneLine (String.ofList frag)}\""
      | _ => "unattributed the model does not export this operation"
  go 0 (c.ops.zip cops) (raw.drop hdr) (CQ1.initial c.nq)

def specCheck (line : String) : String :=
  match line.splitOn "\t" with
  | [req, ans] =>
    match parseCirc req with
    | none => "fail bad-request"
    | some c =>
      let a := ans.trimAscii.toString
      let valid := c.ops.all (opValid c.nq c.nc)
      if a == "panic" then s!"fail panic:{panicCause c.nq c.nc c.ops} the export panics instead of returning an error or a program"
      else if a.startsWith "err " then "ok"
      else if !a.startsWith "ok " then "fail bad-answer"
      else if c.ops.any isPeek then "fail not-refused:peek a circuit with a peek was exported"
      else if c.ops.any bitMismatch then "fail not-refused:qubit-bit-mismatch a measurement into a differently numbered bit was exported"
      else if !valid || c.nq == 0 || c.ops.any nonFinite then "skip"
      else if c.nq > 3 || (c.ops.map (branchFactor c.nq)).foldl (· * ·) 1 > 256 then "skip"
      else
        match c.ops.mapM toCOp with
        | none => "skip"
        | some cops =>
          let text := (decode (a.drop 3).toString).toList
          match Spec.branches c.nq nonzero cops (CQ1.initial c.nq) with
          | none => "skip"
          | some ref =>
            let whole : Option String :=
              match CQ1.parseProgram text with
              | .error pf => some s!"syntax:{synTag pf}"
              | .ok p =>
                if p.nq ≠ c.nq then some "illformed:qubit-count" else
                match CQ1.programWf p with
                | some e => some s!"illformed:{wfTag e}"
                | none =>
                  match CQ1.programSem floatSem nonzero p with
                  | none => some "meaning:no-meaning"
                  | some got => if sameBranches c.nq got ref then none else some "meaning"
            match whole with
            | none => "ok"
            | some w =>
              let att := attributeOp c cops text
              if att.startsWith "unattributed" then s!"fail unattributed:{w} {att}" else s!"fail {att}"
  | _ => "fail bad-line"

end C12

def main (args : List String) : IO Unit :=
  if args = ["spec"] then serve C12.specCheck else serve C12.handle

import Q1t.Base.Proto
import Q1t.Model.Perm
import Q1t.Spec.Perm
/-! Driver for C17: one request per line, one answer per line. -/
open Q1t Q1t.Proto Q1t.Perm

def showErr : Err → String
  | .empty => "err empty"
  | .invalidElem m n => s!"err invalid {m} {n}"
  | .doubleElem e => s!"err double {e}"

def showRes : Except Err (List Nat) → String
  | .ok l => "ok " ++ joinNats l
  | .error e => showErr e

def showOptI : Option (List Int) → String
  | some l => "ok " ++ joinInts l
  | none => "panic"

def unflatten (n : Nat) (l : List Int) : List (List Int) :=
  (List.range n).map (fun r => (l.drop (r * n)).take n)

def handle (line : String) : String :=
  match words line with
  | "new" :: rest =>
    match nats? rest with
    | some idxs => showRes (new idxs)
    | none => "bad-op"
  | "inverse" :: rest =>
    match nats? rest with
    | some idxs => (match inverse idxs with | .ok l => "ok " ++ joinNats l | .error _ => "panic")
    | none => "bad-op"
  | op :: rest =>
    let (a, b) := splitBar rest
    match nats? a, ints? b with
    | some idxs, some v =>
      match op with
      | "into" => showOptI (applyInto idxs v)
      | "invinto" => showOptI (applyInverseInto idxs v (List.replicate v.length 0))
      | "inplace" => showOptI (inPlace idxs v)
      | "matrix" => "ok " ++ joinInts (matrix (0:Int) 1 idxs).flatten
      | "matvec" => "ok " ++ joinInts (mulVec (matrix (0:Int) 1 idxs) v)
      | "transform" => showOptI ((transform idxs (unflatten idxs.length v)).map List.flatten)
      | _ => "bad-op"
    | _, _ => "bad-op"
  | _ => "bad-op"


/-- (B): the property evaluated directly on the implementation's answer. -/
def specCheck (line : String) : String :=
  match line.splitOn "\t" with
  | [req, ans] =>
    let ws := words req
    let aw := words ans
    match ws with
    | "new" :: rest =>
      match nats? rest with
      | some idxs => if Spec.Perm.expectedNew idxs = ans.trimAscii.toString then "ok"
                     else s!"fail new expected {Spec.Perm.expectedNew idxs}"
      | none => "fail bad-request"
    | op :: rest =>
      let (a, b) := splitBar rest
      match nats? a, ints? b, aw with
      | some idxs, some v, "ok" :: out =>
        match ints? out with
        | none => "fail unparsable-answer"
        | some o =>
          let n := idxs.length
          let good : Bool :=
            match op with
            | "inverse" => o.length = n && (List.range n).all (fun i => o[idxs[i]!]! = (i : Int)) &&
                           (List.range n).all (fun i => idxs[(o[i]!).toNat]! = i)
            | "into" | "inplace" | "matvec" => o = Spec.Perm.permuted idxs v
            | "invinto" => Spec.Perm.permuted idxs o = v
            | "matrix" => o = ((List.range n).flatMap fun i => (List.range n).map fun j => if j = idxs[i]! then (1:Int) else 0)
            | "transform" => o = ((List.range n).flatMap fun i => (List.range n).map fun j => v[idxs[i]! * n + idxs[j]!]!)
            | _ => false
          if good then "ok" else s!"fail {op} result-differs-from-reference"
      | some _, some _, _ => s!"fail {op} valid-permutation-operation-did-not-return"
      | _, _, _ => "fail bad-request"
    | _ => "fail bad-request"
  | _ => "fail bad-line"

def main (args : List String) : IO Unit :=
  if args = ["spec"] then serve specCheck else serve handle

import Q1t.Base.Proto
import Q1t.Model.Perm
import Q1t.Spec.Perm
/-! Driver for C17: one request per line, one answer per line. -/
open Q1t Q1t.Proto Q1t.Perm

def showErr : Err → String
  | .empty => "err empty"
  | .invalidElem m n => s!"err invalid {m} {n}"
  | .doubleElem e => s!"err double {e}"

def showRes : Except Err (List Nat) → String
  | .ok l => "ok " ++ joinNats l
  | .error e => showErr e

def showOptI : Option (List Int) → String
  | some l => "ok " ++ joinInts l
  | none => "panic"

def unflatten (n : Nat) (l : List Int) : List (List Int) :=
  (List.range n).map (fun r => (l.drop (r * n)).take n)

/-- `inverse` iterated k times (the object obtained by k calls of `inverse()`) -/
def iterInverse (idxs : List Nat) : Nat → Option (List Nat)
  | 0 => some idxs
  | k + 1 => match inverse idxs with
    | .ok l => iterInverse l k
    | .error _ => none

/-- layout variants of a request are the same request for the model (and for the reference) -/
def stripLayout (op : String) : String :=
  if op = "inplace_strided" || op = "inplace_collapsed" || op = "inplace_reversed" then "inplace"
  else if op = "dinplace_strided" || op = "dinplace_collapsed" || op = "dinplace_reversed" then "dinplace"
  else if op = "transform_f" || op = "transform_t" then "transform"
  else if op = "into_strided" then "into" else if op = "invinto_strided" then "invinto" else op

/-- the loop of `apply_vec_into` with an explicit destination (`perm_v[new_idx] = v[old_idx]`): only needed for
mis-sized destinations; for a destination of the permutation's size it is `applyInto` -/
def intoLoop : List Nat → Nat → List Int → List Int → Option (List Int)
  | [], _, _, out => some out
  | o :: rest, i, v, out =>
    match v[o]? with
    | none => none
    | some x => if i < out.length then intoLoop rest (i + 1) v (out.set i x) else none

def unflattenRC (r c : Nat) (l : List Int) : List (List Int) :=
  (List.range r).map (fun i => (l.drop (i * c)).take c)

/-- A request may carry the history of its thread: `@after <mis-sized call> @ <request>` means that the request was made
immediately after the mis-sized call (which may have panicked half way) on a fresh thread.  Model and reference are
functions of the request alone, so the history is dropped here: any influence of it is a mismatch. -/
def stripCtx1 (ws : List String) : List String :=
  match ws with
  | w :: rest => if w.startsWith "@" && w.length > 1 then (rest.dropWhile (· ≠ "@")).drop 1 else ws
  | [] => ws

/-- histories nest at most twice: `@seq s k @ @after <call> @ <request>` -/
def stripCtx (ws : List String) : List String := stripCtx1 (stripCtx1 ws)

/-- mis-sized calls: what the model says about them (`panic`, or the destination / vector / matrix afterwards) -/
def handleFault (op : String) (rest : List String) : String :=
  match splitBars rest with
  | [a, v] =>
    match nats? a, ints? v with
    | some idxs, some v => if op = "xinplace" then showOptI (inPlace idxs v) else "bad-op"
    | _, _ => "bad-op"
  | [a, sz, v] =>
    match nats? a, nats? sz, ints? v with
    | some idxs, some [m], some v =>
      if op = "xinto" then showOptI (intoLoop idxs 0 v (List.replicate m 0))
      else if op = "xinvinto" then showOptI (applyInverseInto idxs v (List.replicate m 0))
      else "bad-op"
    | some idxs, some [r, c], some v =>
      if op = "xtransform" then showOptI ((transform idxs (unflattenRC r c v)).map List.flatten) else "bad-op"
    | _, _, _ => "bad-op"
  | _ => "bad-op"

def handle (line : String) : String :=
  match stripCtx (words line) with
  | "new" :: rest =>
    match nats? rest with
    | some idxs => showRes (new idxs)
    | none => "bad-op"
  | "inverse" :: rest =>
    match nats? rest with
    | some idxs => (match inverse idxs with | .ok l => "ok " ++ joinNats l | .error _ => "panic")
    | none => "bad-op"
  | op :: rest =>
    if op.startsWith "x" then handleFault op rest else
    let (a, b0) := splitBar rest
    -- requests on derived objects carry `| k |` (number of inverse() calls) before the payload
    let derived := op.startsWith "d" || op = "invk"
    let (kpart, b) := if derived then splitBar b0 else ([], b0)
    let op := stripLayout op
    match nats? a, ints? b with
    | some idxs0, some v =>
      match (if derived then iterInverse idxs0 ((kpart.head?.bind String.toNat?).getD 0) else some idxs0) with
      | none => "panic"
      | some idxs =>
      let op := if derived then (if op = "invk" then "indices" else (op.drop 1).toString) else op
      match op with
      | "indices" => "ok " ++ joinNats idxs
      | "into" => showOptI (applyInto idxs v)
      | "invinto" => showOptI (applyInverseInto idxs v (List.replicate v.length 0))
      | "inplace" => showOptI (inPlace idxs v)
      | "matrix" => "ok " ++ joinInts (matrix (0:Int) 1 idxs).flatten
      | "matvec" => "ok " ++ joinInts (mulVec (matrix (0:Int) 1 idxs) v)
      | "transform" => showOptI ((transform idxs (unflatten idxs.length v)).map List.flatten)
      | _ => "bad-op"
    | _, _ => "bad-op"
  | _ => "bad-op"


/-- which history a request carries (only used in the text of a failure) -/
def histTag (req : String) : String :=
  match words req with
  | "@seq" :: _ => "-late-in-a-long-same-thread-history"
  | "@after" :: "newhist" :: _ => "-after-many-new-calls-on-the-same-thread"
  | "@after" :: _ => "-after-a-mis-sized-call-on-the-same-thread"
  | _ => ""

/-- (B): the property evaluated directly on the implementation's answer. -/
def specCheck (line : String) : String :=
  match line.splitOn "\t" with
  | [req, ans] =>
    let ws := stripCtx (words req)
    let aw := words ans
    match ws with
    | "new" :: rest =>
      match nats? rest with
      | some idxs => if Spec.Perm.expectedNew idxs = ans.trimAscii.toString then "ok"
                     else s!"fail new expected {Spec.Perm.expectedNew idxs} {histTag req}"
      | none => "fail bad-request"
    | op0 :: rest =>
      -- mis-sized vectors / matrices are outside the property's quantifier (only (A) speaks about them)
      if op0.startsWith "x" then "skip" else
      let (a, b0) := splitBar rest
      let derived := op0.startsWith "d" || op0 = "invk"
      let (kpart, b) := if derived then splitBar b0 else ([], b0)
      let k := (kpart.head?.bind String.toNat?).getD 0
      let op1 := stripLayout op0
      let op := if derived then (if op1 = "invk" then "indices" else (op1.drop 1).toString) else op1
      -- reference for an object obtained by k calls of inverse(): the permutation itself for even k, otherwise the
      -- (unique) q with q[p[i]] = i, computed here by searching positions, independently of the model's `inverse`
      let refInv (p : List Nat) : List Nat := (List.range p.length).map fun j => (p.idxOf j)
      match (nats? a).map (fun p => if k % 2 = 0 then p else refInv p), ints? b, aw with
      | some idxs, some v, "ok" :: out =>
        match ints? out with
        | none => "fail unparsable-answer"
        | some o =>
          let n := idxs.length
          let good : Bool :=
            match op with
            | "indices" => o = idxs.map Int.ofNat
            | "inverse" => o.length = n && (List.range n).all (fun i => o[idxs[i]!]! = (i : Int)) &&
                           (List.range n).all (fun i => idxs[(o[i]!).toNat]! = i)
            | "into" | "inplace" | "matvec" => o = Spec.Perm.permuted idxs v
            | "invinto" => Spec.Perm.permuted idxs o = v
            | "matrix" => o = ((List.range n).flatMap fun i => (List.range n).map fun j => if j = idxs[i]! then (1:Int) else 0)
            | "transform" => o = ((List.range n).flatMap fun i => (List.range n).map fun j => v[idxs[i]! * n + idxs[j]!]!)
            | _ => false
          let hist := histTag req
          if good then "ok" else s!"fail {op0} result-differs-from-reference{hist}"
      | some _, some _, _ => s!"fail {op} valid-permutation-operation-did-not-return"
      | _, _, _ => "fail bad-request"
    | _ => "fail bad-request"
  | _ => "fail bad-line"

def main (args : List String) : IO Unit :=
  if args = ["spec"] then serve specCheck else serve handle

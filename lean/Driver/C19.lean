import Q1t.Base.Proto
import Q1t.Model.Ffi
import Q1t.Spec.Ffi
import Q1t.Gen.FfiTables
/-!
Driver for C19.  One line per case (a whole call history):

  case <id> <kind> <sizeof Circuit> <alignof Circuit> <nontrivial> ; <call> @ <twin> ; <call> @ <twin> ; ...

`<twin>` is the outcome of the equivalent Rust call on a twin `Circuit` (`na` when there is none).
`model` mode answers with what the model of ffi.rs says every call returns, owns and frees;
`spec` mode reads `<req>\t<impl answers>` and evaluates the ownership protocol and the mirror rule on
the implementation's logged behaviour.
-/
open Q1t Q1t.Proto Q1t.Ffi

namespace C19

/-! ### text helpers -/

def hexDigit (c : Char) : Option Nat :=
  if '0' ≤ c ∧ c ≤ '9' then some (c.toNat - '0'.toNat)
  else if 'a' ≤ c ∧ c ≤ 'f' then some (c.toNat - 'a'.toNat + 10)
  else none

def hexNat (s : String) : Option Nat :=
  s.toList.foldlM (fun acc c => (hexDigit c).map (fun d => acc * 16 + d)) 0

def hexBytes (s : String) : Option (List UInt8) :=
  let rec go : List Char → Option (List UInt8)
    | [] => some []
    | [_] => none
    | a :: b :: rest => do
      let x ← hexDigit a
      let y ← hexDigit b
      let r ← go rest
      pure (UInt8.ofNat (x * 16 + y) :: r)
  go s.toList

def hexString (s : String) : Option String := do
  let bs ← hexBytes s
  String.fromUTF8? ⟨bs.toArray⟩

def toHex (s : String) : String :=
  let d (n : Nat) : Char := if n < 10 then Char.ofNat (48 + n) else Char.ofNat (87 + n)
  String.ofList (s.toUTF8.toList.flatMap fun b => [d (b.toNat / 16), d (b.toNat % 16)])

def splitOnStr (s sep : String) : List String := s.splitOn sep

def natList? (s : String) : Option (List Nat) :=
  if s = "" then some [] else (s.splitOn ",").mapM (·.toNat?)

/-- `q:null` / `q:1,2` -/
def optList? (tag s : String) : Option (Option (List Nat)) :=
  match s.splitOn ":" with
  | [t, body] => if t ≠ tag then none else if body = "null" then some none else (natList? body).map some
  | _ => none

def layoutsText (l : List (Nat × Nat)) : String :=
  let sorted := l.mergeSort (fun a b => a.1 < b.1 ∨ (a.1 = b.1 ∧ a.2 ≤ b.2))
  "[" ++ ",".intercalate (sorted.map fun (s, a) => s!"{s}:{a}") ++ "]"

/-! ### parsed requests -/

inductive Twin where
  | na | ok | err (m : String) | panic | num (n : Nat) | noState | words (ws : List Nat) | wordsAny (n : Nat)
  | hist (l : List (String × Nat)) | str (s : String)
  deriving Repr

inductive PCall where
  | new (nq nc : Nat)
  | free (h : Option Nat)
  | nr (q : Bool) (h : Option Nat)
  | cstate (h : Option Nat)
  | gate (h : Option Nat) (name : Option String) (qbits : Option (List Nat)) (params : Option (List CParameter))
  | cgate (h : Option Nat) (control : Option (List Nat)) (target : Nat) (name : Option String)
      (qbits : Option (List Nat)) (params : Option (List CParameter))
  | reset (h : Option Nat) (q : Nat)
  | resetall (h : Option Nat)
  | measure (h : Option Nat) (q c : Nat) (dir : Int) (collapse : Nat)
  | measureall (h : Option Nat) (cbits : Option (List Nat)) (dir : Int) (collapse : Nat)
  | execute (h : Option Nat) (n : Nat)
  | reexecute (h : Option Nat)
  | histogram (h : Option Nat)
  | exportc (h : Option Nat) (which : Nat)
  | rfree (r : Nat)
  | poke (cell bits : Nat)
  | fin
  deriving Repr

def handle? (s : String) : Option (Option Nat) :=
  if s = "null" then some none
  else if s.startsWith "c" then ((s.drop 1).toString.toNat?).map some else none

def name? (s : String) : Option (Option String) :=
  match s.splitOn ":" with
  | ["n", h] => (hexString h).map some
  | ["bad", _] => some none
  | _ => none

def param? (s : String) : Option CParameter :=
  if s.startsWith "d" then (hexNat (s.drop 1).toString).map fun b => ⟨b, 0⟩
  else if s.startsWith "r" then ((s.drop 1).toString.toNat?).map fun c => ⟨0, c + 1⟩
  else none

def params? (s : String) : Option (Option (List CParameter)) :=
  match s.splitOn ":" with
  | ["p", body] =>
    if body = "null" then some none
    else if body = "" then some (some [])
    else ((body.splitOn ",").mapM param?).map some
  | _ => none

def parseCall (ws : List String) : Option PCall :=
  match ws with
  | ["new", a, b] => do pure (.new (← a.toNat?) (← b.toNat?))
  | ["free", h] => do pure (.free (← handle? h))
  | ["nrq", h] => do pure (.nr true (← handle? h))
  | ["nrc", h] => do pure (.nr false (← handle? h))
  | ["cstate", h] => do pure (.cstate (← handle? h))
  | ["gate", h, n, q, p] => do pure (.gate (← handle? h) (← name? n) (← optList? "q" q) (← params? p))
  | ["cgate", h, c, t, n, q, p] => do
    pure (.cgate (← handle? h) (← optList? "c" c) (← t.toNat?) (← name? n) (← optList? "q" q) (← params? p))
  | ["reset", h, q] => do pure (.reset (← handle? h) (← q.toNat?))
  | ["resetall", h] => do pure (.resetall (← handle? h))
  | ["measure", h, q, c, d, k] => do pure (.measure (← handle? h) (← q.toNat?) (← c.toNat?) (← d.toInt?) (← k.toNat?))
  | ["measureall", h, b, d, k] => do pure (.measureall (← handle? h) (← optList? "b" b) (← d.toInt?) (← k.toNat?))
  | ["execute", h, n] => do pure (.execute (← handle? h) (← n.toNat?))
  | ["reexecute", h] => do pure (.reexecute (← handle? h))
  | ["histogram", h] => do pure (.histogram (← handle? h))
  | ["latex", h] => do pure (.exportc (← handle? h) 0)
  | ["openqasm", h] => do pure (.exportc (← handle? h) 1)
  | ["cqasm", h] => do pure (.exportc (← handle? h) 2)
  | ["rfree", r] => if r.startsWith "r" then ((r.drop 1).toString.toNat?).map .rfree else none
  | ["poke", c, b] => do pure (.poke (← c.toNat?) (← hexNat b))
  | ["end"] => some .fin
  | _ => none

def histList? (s : String) : Option (List (String × Nat)) :=
  if s = "" then some []
  else (s.splitOn ",").mapM fun kv =>
    match kv.splitOn ":" with
    | [k, v] => v.toNat?.map fun n => (k, n)
    | _ => none

def parseTwin (ws : List String) : Option Twin :=
  match ws with
  | ["na"] => some .na
  | ["ok"] => some .ok
  | ["err", h] => (hexString h).map .err
  | ["err"] => some (.err "")
  | ["panic"] => some .panic
  | ["num", n] => n.toNat?.map .num
  | ["none"] => some .noState
  | ["words", l] => (natList? l).map .words
  | ["words"] => some (.words [])
  | ["wordsany", n] => n.toNat?.map .wordsAny
  | ["hist", l] => (histList? l).map .hist
  | ["hist"] => some (.hist [])
  | ["str", h] => (hexString h).map .str
  | ["str"] => some (.str "")
  | _ => none

structure Header where
  id : Nat
  kind : String
  size : Nat
  align : Nat

def parseHeader (ws : List String) : Option Header :=
  match ws with
  | ["case", i, k, s, a, _] => do pure ⟨← i.toNat?, k, ← s.toNat?, ← a.toNat?⟩
  | _ => none

def parseSeg (seg : String) : Option (PCall × Twin) :=
  let ws := words seg
  let (a, b) := (ws.takeWhile (· ≠ "@"), (ws.dropWhile (· ≠ "@")).drop 1)
  do pure (← parseCall a, ← parseTwin b)

def parseCase (line : String) : Option (Header × List (PCall × Twin)) :=
  match line.splitOn " ; " with
  | [] => none
  | h :: segs => do pure (← parseHeader (words h), ← segs.mapM parseSeg)

/-! ### the oracle: the Rust API answers what the twin answered -/

def resOf (t : Twin) : Res Unit :=
  match t with
  | .ok => .ok ()
  | .err m => .err m
  | .panic => .panic
  | _ => .err "oracle: the harness found no equivalent Rust call here"

def strOf (t : Twin) : Res String :=
  match t with
  | .str s => .ok s
  | .err m => .err m
  | .panic => .panic
  | _ => .err "oracle: the harness found no equivalent Rust call here"

def oracle (t : Twin) : Api Unit where
  new := fun _ _ => ()
  nrQbits := fun _ => match t with | .num n => n | _ => 0
  nrCbits := fun _ => match t with | .num n => n | _ => 0
  cstate := fun _ => match t with | .words ws => some ws | .wordsAny n => some (List.replicate n 0) | _ => none
  addGate := fun _ _ _ => resOf t
  addConditionalGate := fun _ _ _ _ _ => resOf t
  reset := fun _ _ => resOf t
  resetAll := fun _ => ()
  measureBasis := fun _ _ _ _ => resOf t
  peekBasis := fun _ _ _ _ => resOf t
  measureAllBasis := fun _ _ _ => resOf t
  peekAllBasis := fun _ _ _ => resOf t
  execute := fun _ _ _ => resOf t
  reexecute := fun _ _ => resOf t
  histogramString := fun _ => match t with
    | .hist l => .ok l | .err m => .err m | .panic => .panic | _ => .err "oracle: no histogram"
  latex := fun _ _ => strOf t
  openQasm := fun _ _ => strOf t
  cQasm := fun _ _ => strOf t

/-! ### model mode -/

structure Drv where
  st : State Unit
  handles : List Nat          -- harness circuit index ↦ model handle id
  results : List CResult      -- harness result index ↦ the value returned
  cells : List (Nat × Nat)    -- address ↦ bits

def memOf (cells : List (Nat × Nat)) : Mem := fun a => (cells.lookup a).getD 0

def toHandle (d : Drv) (h : Option Nat) : Handle := h.bind fun i => d.handles[i]?

def cfgOf (hd : Header) : Cfg := ⟨Gen.gateTable, Gen.condTable, hd.size, hd.align⟩

def toCall (d : Drv) : PCall → Option Call
  | .new a b => some (.new a b)
  | .free h => some (.free (toHandle d h))
  | .nr true h => some (.nrQbits (toHandle d h))
  | .nr false h => some (.nrCbits (toHandle d h))
  | .cstate h => some (.cstate (toHandle d h))
  | .gate h n q p => some (.addGate (toHandle d h) n q p)
  | .cgate h c t n q p => some (.addCond (toHandle d h) c t n q p)
  | .reset h q => some (.reset (toHandle d h) q)
  | .resetall h => some (.resetAll (toHandle d h))
  | .measure h q c dir k => some (.measure (toHandle d h) q c dir k)
  | .measureall h b dir k => some (.measureAll (toHandle d h) b dir k)
  | .execute h n => some (.execute (toHandle d h) n)
  | .reexecute h => some (.reexecute (toHandle d h))
  | .histogram h => some (.histogram (toHandle d h))
  | .exportc h 0 => some (.latex (toHandle d h))
  | .exportc h 1 => some (.openQasm (toHandle d h))
  | .exportc h _ => some (.cQasm (toHandle d h))
  | .rfree r => d.results[r]?.map .resultFree
  | .poke .. => none
  | .fin => none

def dataKind (r : CResult) : String :=
  match r.data with
  | .null => "null"
  | .dangling => "dangling"
  | .blk _ => "blk"

def payloadText (r : CResult) (anyWords : Bool) : String :=
  match r.mem with
  | .none => "-"
  | .cstr t => "msg:" ++ toHex t
  | .hist es =>
    let kv := (es.map fun e => (e.keyText, e.count)).mergeSort (fun a b => a.1 ≤ b.1)
    "hist:" ++ ",".intercalate (kv.map fun (k, v) => s!"{k}:{v}")
  | .words ws => if anyWords then s!"wordsany:{ws.length}" else "words:" ++ ",".intercalate (ws.map toString)

def resultText (r : CResult) (anyWords : Bool) : String :=
  s!"res {r.restype} len={r.length} size={r.size} data={dataKind r} {payloadText r anyWords} " ++
  s!"own={layoutsText ((CResult.owned r).map fun (_, s, a) => (s, a))} extra=0 foreign=0 mism=0"

def isAnyWords : Twin → Bool
  | .wordsAny _ => true
  | _ => false

/-- one call through the model; returns the new driver state and the answer text -/
def modelCall (hd : Header) (d : Drv) (pc : PCall) (t : Twin) : Drv × String :=
  match pc with
  | .poke c b => ({ d with cells := (c + 1, b) :: d.cells }, "-")
  | .fin =>
    (d, s!"live={layoutsText (d.st.hs.heap.map fun b => (b.size, b.align))} clean=1")
  | _ =>
    match toCall d pc with
    | none => (d, "bad-call")
    | some call =>
      let before := d.st.hs.heap
      let (st', ans) := step (cfgOf hd) (oracle t) (memOf d.cells) d.st call
      let d' := { d with st := st' }
      match ans, pc with
      | .handle id, _ => ({ d' with handles := d.handles ++ [id] },
          s!"handle box={hd.size}:{hd.align} extra=0 foreign=0 mism=0")
      | .unit, .free h =>
        let box := match toHandle d h with | some _ => s!"{hd.size}:{hd.align}" | none => "-"
        (d', s!"unit box={box} leak=0 new=0 foreign=0 mism=0")
      | .unit, _ =>
        let freed := before.filter (fun b => !(st'.hs.heap.any (fun b' => b'.id == b.id)))
        (d', s!"unit freed={layoutsText (freed.map fun b => (b.size, b.align))} new=0 foreign=0 mism=0")
      | .num n, _ => (d', s!"num {n} extra=0 foreign=0")
      | .result r, _ => ({ d' with results := d.results ++ [r] }, resultText r (isAnyWords t))
      | .abort tag, _ => (d', s!"abort {tag}")
      | .ub why, _ => (d', s!"ub {why}")

def runModel (hd : Header) (calls : List (PCall × Twin)) : List String :=
  let rec go (d : Drv) : List (PCall × Twin) → List String
    | [] => []
    | (pc, t) :: rest =>
      let (d', a) := modelCall hd d pc t
      a :: go d' rest
  go ⟨init Unit [] 1, [], [], []⟩ calls

def handleModel (line : String) : String :=
  -- liveness probes: the model (`ffi_param_live`: a non-null value_ptr is dereferenced when the gate is evaluated) says
  -- that the C interface and the reference rebuilt with the current values as direct parameters agree
  if line.startsWith "live " || line.startsWith "live-export " then "same" else
  match parseCase line with
  | none => "bad-request"
  | some (hd, calls) => " ; ".intercalate (runModel hd calls)

/-! ### spec mode: the protocol and the mirror rule evaluated on the implementation's answers -/

open Q1t.Spec.Ffi in
/-- what the implementation showed for one call -/
inductive Impl where
  | handle (box : String) (clean : Bool)
  | unitFree (box : String) (leak : Nat) (clean : Bool)
  | unitRfree (freed : String) (clean : Bool)
  | num (n : Nat) (clean : Bool)
  | res (seen : Seen) (len size : Nat) (data : String) (own : String) (clean : Bool) (anyLen : Option Nat)
  | abort
  | dash
  | fin (live : String) (clean : Bool)
  | bad

def kvs (ws : List String) : List (String × String) :=
  ws.filterMap fun w => match w.splitOn "=" with
    | [k, v] => some (k, v)
    | _ => none

def zeroKeys (m : List (String × String)) (keys : List String) : Bool :=
  keys.all fun k => (m.lookup k).getD "0" = "0"

open Q1t.Spec.Ffi in
def parseImpl (s : String) : Impl :=
  let ws := words s
  let m := kvs ws
  match ws with
  | "handle" :: _ => .handle ((m.lookup "box").getD "?") (zeroKeys m ["extra", "foreign", "mism"])
  | "unit" :: rest =>
    if (rest.head?.getD "").startsWith "box=" then
      .unitFree ((m.lookup "box").getD "?") (((m.lookup "leak").getD "0").toNat?.getD 0) (zeroKeys m ["new", "foreign", "mism"])
    else .unitRfree ((m.lookup "freed").getD "?") (zeroKeys m ["new", "foreign", "mism"])
  | "num" :: n :: _ => .num (n.toNat?.getD 0) (zeroKeys m ["extra", "foreign"])
  | "res" :: code :: _ =>
    let len := ((m.lookup "len").getD "0").toNat?.getD 0
    let size := ((m.lookup "size").getD "0").toNat?.getD 0
    let data := (m.lookup "data").getD "?"
    let own := (m.lookup "own").getD "?"
    let clean := zeroKeys m ["extra", "foreign", "mism"]
    let payload := ws.getD 5 "-"
    let body := ((payload.splitOn ":").drop 1) |> ":".intercalate
    match code with
    | "1" => .res .empty len size data own clean none
    | "0" => match hexString body with | some t => .res (.error t) len size data own clean none | none => .bad
    | "2" => match hexString body with | some t => .res (.string t) len size data own clean none | none => .bad
    | "3" => match histList? body with | some h => .res (.histogram h) len size data own clean none | none => .bad
    | "5" =>
      if payload.startsWith "wordsany:" then
        match body.toNat? with | some n => .res (.cstate (List.replicate n 0)) len size data own clean (some n) | none => .bad
      else match natList? body with | some l => .res (.cstate l) len size data own clean none | none => .bad
    | _ => .bad
  | ["abort"] => .abort
  | ["-"] => .dash
  | "live=" :: _ => .bad
  | w :: _ =>
    if w.startsWith "live=" then .fin ((m.lookup "live").getD "?") ((m.lookup "clean").getD "0" = "1") else .bad
  | [] => .bad

open Q1t.Spec.Ffi in
def twinRust : Twin → Option Rust
  | .na => some .none
  | .ok => some .ok
  | .err m => some (.err m)
  | .str s => some (.str s)
  | .hist h => some (.hist h)
  | .words ws => some (.words ws)
  | .wordsAny n => some (.words (List.replicate n 0))
  | .noState => some .noState
  | _ => none

structure SpecSt where
  boxes : List (Nat × Bool)                 -- circuit index ↦ still live
  results : List (List (Nat × Nat) × Bool)  -- result index ↦ (owned layouts, freed)
  model : Drv                               -- the model runs alongside, only to name the class of an abort

open Q1t.Spec.Ffi in
/-- Is there, by the documentation, an equivalent Rust call for this request? -/
def documentedCall (pc : PCall) : Bool :=
  match pc with
  | .gate (some _) (some n) (some _) p =>
    match lookup n with
    | some k => k.nparams = 0 ∨ (p.getD []).length = k.nparams
    | none => false
  | .cgate (some _) (some _) _ (some n) (some _) p =>
    match lookup n with
    | some k => k.nparams = 0 ∨ (p.getD []).length = k.nparams
    | none => false
  | .measure (some _) _ _ dir _ => dir ∈ [120, 88, 121, 89, 122, 90]
  | .measureall (some _) (some _) dir _ => dir ∈ [120, 88, 121, 89, 122, 90]
  | .gate .. | .cgate .. | .measure .. | .measureall .. => false
  | .reset (some _) _ | .resetall (some _) | .execute (some _) _ | .reexecute (some _) | .histogram (some _)
  | .exportc (some _) _ | .cstate (some _) | .nr _ (some _) => true
  | _ => false

open Q1t.Spec.Ffi in
/-- a wrong number of parameters for a documented gate: the message must name the documented count -/
def nrArgsExpectation (pc : PCall) : Option String :=
  let chk (n : String) (p : Option (List CParameter)) : Option String :=
    match lookup n with
    | some k => if k.nparams ≠ 0 ∧ (p.getD []).length ≠ k.nparams then some (msgNrArguments (p.getD []).length k) else none
    | none => none
  match pc with
  | .gate (some _) (some n) (some _) p => chk n p
  | .cgate (some _) (some _) _ (some n) (some _) p => chk n p
  | _ => none

open Q1t.Spec.Ffi in
def checkCall (hd : Header) (s : SpecSt) (k : Nat) (pc : PCall) (t : Twin) (a : Impl) : Except String SpecSt := do
  let boxText := s!"{hd.size}:{hd.align}"
  let (m', mans) := modelCall hd s.model pc t
  let s := { s with model := m' }
  match pc, a with
  | _, .bad => throw s!"unparsable-answer call={k}"
  | _, .abort =>
    let tag := ((words mans).getD 1 "unclassified")
    throw s!"abort:{tag} call={k} a panic reaches the extern \"C\" boundary and aborts the process instead of an error result"
  | .new _ _, .handle box clean =>
    if box ≠ boxText then throw s!"circuit-box call={k} circuit_new allocated {box}, expected {boxText}"
    if !clean then throw s!"alloc-unclean call={k} circuit_new"
    pure { s with boxes := s.boxes ++ [(s.boxes.length, true)] }
  | .free none, .unitFree box _ clean =>
    if box ≠ "-" ∨ !clean then throw s!"free-null call={k} circuit_free(NULL) touched the heap"
    pure s
  | .free (some i), .unitFree box leak clean =>
    if box ≠ boxText then throw s!"circuit-box call={k} circuit_free released {box}, expected {boxText}"
    if leak ≠ 0 then throw s!"circuit-leak call={k} {leak} blocks of the circuit are still live after circuit_free"
    if !clean then throw s!"alloc-unclean call={k} circuit_free"
    pure { s with boxes := s.boxes.map fun (j, l) => if j = i then (j, false) else (j, l) }
  | .rfree r, .unitRfree freed clean =>
    match s.results[r]? with
    | none => throw s!"protocol call={k} result r{r} does not exist"
    | some (own, was) =>
      if was then throw s!"protocol call={k} result r{r} freed twice by the harness"
      if freed ≠ layoutsText own then throw s!"result-free-inexact call={k} result_free released {freed}, the result owns {layoutsText own}"
      if !clean then throw s!"alloc-unclean call={k} result_free"
      pure { s with results := s.results.set r (own, true) }
  | .poke .., .dash => pure s
  | .fin, .fin live clean =>
    let expect := (s.results.filter (fun r => !r.2)).flatMap (·.1) ++
      ((s.boxes.filter (·.2)).map fun _ => (hd.size, hd.align))
    if live ≠ layoutsText expect then throw s!"unbalanced call={k} live at the end {live}, expected {layoutsText expect}"
    if !clean then throw s!"unbalanced call={k} blocks survive the release of everything"
    pure s
  | .nr _ (some _), .num n clean =>
    match t with
    | .num n' =>
      if n ≠ n' then throw s!"mirror call={k} returned {n}, the Rust call returns {n'}"
      if !clean then throw s!"alloc-unclean call={k}"
      pure s
    | _ => throw s!"harness-inconsistent call={k}"
  | _, .res seen len size data own clean anyLen =>
    -- mirror rule
    let some rust := twinRust t | throw s!"harness-inconsistent call={k} twin outcome"
    let doc := documentedCall pc
    if doc ∧ rust = .none then throw s!"harness-inconsistent call={k} documented call without a twin outcome"
    -- a documented conditional gate that the twin accepted but the C interface refused
    match pc, seen with
    | .cgate (some _) (some _) _ (some n) (some _) _, .error msg =>
      if doc ∧ msg = "Unknown gate \"" ++ n ++ "\"" then
        throw s!"cond-gate-refused:{n.toLower} call={k} circuit_add_conditional_gate answers \"{msg}\" for a documented gate that Circuit::add_conditional_gate takes"
    | _, _ => pure ()
    if !(mirrors rust seen) then
      throw s!"mirror call={k} the C call shows {repr seen}, the Rust call gives {repr rust}"
    -- (the wording of an error message is not part of the property: `nrArgsExpectation` is not enforced)
    -- shape of the result
    let shapeOk : Bool := match seen with
      | .empty => len = 0 ∧ size = 0 ∧ data = "null"
      | .error _ | .string _ => len = 0 ∧ size = 0 ∧ data = "blk"
      | .histogram h => len = h.length ∧ size ≥ len ∧ (if size = 0 then data = "dangling" else data = "blk")
      | .cstate ws => len = ws.length ∧ size ≥ len ∧ (if size = 0 then data = "dangling" else data = "blk")
    if !shapeOk then throw s!"result-shape call={k} len={len} size={size} data={data}"
    match anyLen, t with
    | some n, .wordsAny n' => if n ≠ n' then throw s!"mirror call={k} register of {n} shots, expected {n'}"
    | _, _ => pure ()
    -- ownership
    let owned := ownedLayouts seen size
    if own ≠ layoutsText owned then throw s!"result-owns call={k} new live blocks reachable from the result {own}, the protocol says {layoutsText owned}"
    if !clean then throw s!"alloc-unclean call={k} blocks appear or disappear that the result does not own"
    pure { s with results := s.results ++ [(owned, false)] }
  | _, _ => throw s!"answer-kind call={k}"

def runSpec (hd : Header) (calls : List (PCall × Twin)) (impls : List Impl) : String :=
  let rec go (s : SpecSt) (k : Nat) : List (PCall × Twin) → List Impl → String
    | [], [] => "ok"
    | (pc, t) :: rest, a :: as =>
      match checkCall hd s k pc t a with
      | .error e => "fail " ++ e
      | .ok s' => go s' (k + 1) rest as
    | _, _ => "fail answer-count number of answers differs from number of calls"
  go ⟨[], [], ⟨init Unit [] 1, [], [], []⟩⟩ 0 calls impls

def handleSpec (line : String) : String :=
  match line.splitOn "\t" with
  | [req, ans] =>
    if req.startsWith "live " then
      (if ans.trimAscii.toString = "same" then "ok" else s!"fail ffi-param-not-live {ans.take 160}") else
    if req.startsWith "live-export " then
      (if ans.trimAscii.toString = "same" then "ok" else s!"fail ffi-export-differs-from-rust {ans.take 200}") else
    match parseCase req with
    | none => "fail bad-request"
    | some (hd, calls) => runSpec hd calls ((ans.trimAscii.toString.splitOn " ; ").map parseImpl)
  | _ => "fail bad-line"

end C19

def main (args : List String) : IO Unit :=
  if args = ["spec"] then serve C19.handleSpec else serve C19.handleModel

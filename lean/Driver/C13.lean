import Q1t.Base.Proto
import Q1t.Model.Latex
import Q1t.Spec.QcGrid
/-! Driver for C13 (LaTeX export): one request per line, one answer per line.

Request grammar (tokens separated by blanks; `|` separates operations):
```
circ <nq> <nc> | <op> | <op> …            Circuit::latex()
raw  <nq> <nc> | <call> | <call> …        public LatexExportState calls, then code()
op   ::= g <gate> @ <bits>  |  cg <target> <cbits> : <gate> @ <bits>  |  m <q> <c> <B>  |  ma <B> <cbits>
       | pk <q> <c> <B>  |  pka <B> <cbits>  |  r <q>  |  ra  |  b <qbits>
gate ::= C <gate> | Kron <gate> <gate> | Comp <name> <n> [ (<gate> @ <bits> ,)* ] | Loop <iters> <gate>
       | Blk <label> <n> | <LibraryName> <display-param>*
```
Answers: `ok <text, %-encoded>` | `err <Constructor> <ints>` | `panic`. -/
open Q1t Q1t.Proto Q1t.Latex Q1t.Spec.QcGrid

namespace C13

def encode (s : String) : String :=
  ((s.replace "%" "%25").replace "\n" "%0A").replace "\t" "%09"
def decode (s : String) : String :=
  ((s.replace "%0A" "\n").replace "%09" "\t").replace "%25" "%"

def showErr : Err → String
  | .invalidQBit b => s!"err InvalidQBit {b}"
  | .invalidCBit b => s!"err InvalidCBit {b}"
  | .invalidNrBits n e => s!"err InvalidNrBits {n} {e}"
  | .notImplemented => "err NotImplemented"
  | .rangeAlreadyOpen => "err RangeAlreadyOpen"
  | .cantCloseLoop => "err CantCloseLoop"

def showRes : Res String → String
  | .ok t => "ok " ++ encode t
  | .err e => showErr e
  | .panic => "panic"

def takeNats (ws : List String) : List Nat × List String :=
  let a := ws.takeWhile fun w => w.toNat?.isSome
  (a.filterMap (·.toNat?), ws.drop a.length)

mutual
partial def parseGate : List String → Option (Gate × List String)
  | "C" :: r => (parseGate r).map fun (g, r') => (.c g, r')
  | "Kron" :: r =>
    match parseGate r with
    | some (a, r1) => (parseGate r1).map fun (b, r2) => (.kron a b, r2)
    | none => none
  | "Comp" :: name :: n :: "[" :: r =>
    match n.toNat?, parseSubs r with
    | some n, some (subs, r') => some (.comp name n subs, r')
    | _, _ => none
  | "Loop" :: iters :: r =>
    match iters.toNat?, parseGate r with
    | some k, some (b, r') => some (.loop k b, r')
    | _, _ => none
  | "Blk" :: label :: n :: r => n.toNat?.map fun n => (.box label n, r)
  | name :: r =>
    match libArity 4 name with
    | some k => (libGate 4 name (r.take k)).map fun g => (g, r.drop k)
    | none => none
  | [] => none
partial def parseSubs : List String → Option (Subs × List String)
  | "]" :: r => some (.nil, r)
  | r =>
    match parseGate r with
    | some (g, "@" :: r1) =>
      let (bits, r2) := takeNats r1
      match r2 with
      | "," :: r3 => (parseSubs r3).map fun (rest, r4) => (.cons g bits rest, r4)
      | _ => none
    | _ => none
end

def parseBasis : String → Option Basis
  | "X" => some .X
  | "Y" => some .Y
  | "Z" => some .Z
  | _ => none

def parseOp : List String → Option Op
  | "g" :: r =>
    match parseGate r with
    | some (g, "@" :: r1) => (nats? r1).map fun bits => .gate g bits
    | _ => none
  | "cg" :: target :: r =>
    let (ctrl, r1) := takeNats r
    match target.toNat?, r1 with
    | some t, ":" :: r2 =>
      match parseGate r2 with
      | some (g, "@" :: r3) => (nats? r3).map fun bits => .cond ctrl t g bits
      | _ => none
    | _, _ => none
  | ["m", q, c, b] =>
    match q.toNat?, c.toNat?, parseBasis b with
    | some q, some c, some b => some (.measure q c b)
    | _, _, _ => none
  | "ma" :: b :: r =>
    match parseBasis b, nats? r with
    | some b, some cs => some (.measureAll cs b)
    | _, _ => none
  | ["pk", q, c, b] =>
    match q.toNat?, c.toNat?, parseBasis b with
    | some q, some c, some b => some (.peek q c b)
    | _, _, _ => none
  | "pka" :: b :: r =>
    match parseBasis b, nats? r with
    | some b, some cs => some (.peekAll cs b)
    | _, _ => none
  | ["r", q] => q.toNat?.map .reset
  | ["ra"] => some .resetAll
  | "b" :: r => (nats? r).map .barrier
  | _ => none

def parseCirc (line : String) : Option Circ :=
  match splitBars (words line) with
  | ["circ", nq, nc] :: ops =>
    match nq.toNat?, nc.toNat?, ops.mapM parseOp with
    | some nq, some nc, some ops => some ⟨nq, nc, ops⟩
    | _, _, _ => none
  | _ => none

/-! raw mode: public `LatexExportState` methods -/

def parseRawSym (w : String) : Option Sym :=
  match w.splitOn ":" with
  | ["qw"] => some .qw
  | ["targ"] => some .targ
  | ["control"] => some .control
  | ["qswap"] => some (.qswap none)
  | ["gate", l] => some (.gate l none)
  | ["ctrl", k] => k.toInt?.map .ctrl
  | _ => none

def splitColon (ws : List String) : List String × Option (List String) :=
  let a := ws.takeWhile (· ≠ ":")
  if a.length < ws.length then (a, some (ws.drop (a.length + 1))) else (a, none)

def rawCall (ws : List String) (s : St) : Option (Res St) :=
  match ws with
  | "reserve" :: r =>
    let (q, c) := splitColon r
    match nats? q, c.map nats? with
    | some q, none => some (reserve q none s)
    | some q, some (some c) => some (reserve q (some c) s)
    | _, _ => none
  | "start" :: r =>
    let (q, c) := splitColon r
    match nats? q, c.map nats? with
    | some q, none => some (startRangeOp q none s)
    | some q, some (some c) => some (startRangeOp q (some c) s)
    | _, _ => none
  | ["end"] => some (endRangeOp s)
  | ["set", bit, sym] =>
    match bit.toNat?, parseRawSym sym with
    | some b, some y => some (setField b y s)
    | _, _ => none
  | ["meas", q, c, b] =>
    match q.toNat?, c.toNat? with
    | some q, some c => some (setMeasurement q c (if b = "-" then none else some b) s)
    | _, _ => none
  | ["rst", q] => q.toNat?.map fun q => setReset q s
  | "cond" :: target :: r =>
    let (c, q) := splitColon r
    match target.toNat?, nats? c, q.map nats? with
    | some t, some c, some (some q) => some (setCondition c t q s)
    | _, _, _ => none
  | "block" :: label :: r => (nats? r).map fun q => addBlockGate q label s
  | ["sloop", n] => n.toNat?.map fun n => startLoop n s
  | ["eloop"] => some (endLoop s)
  | ["cds", bit, count, label] =>
    match bit.toNat?, count.toNat? with
    | some b, some c => some (addCds b c label s)
    | _, _ => none
  | "bar" :: r => (nats? r).map fun q => setBarrier q s
  | ["ctl", v] => some (.ok { s with controlled := v = "1" })
  | ["exp", v] => some (.ok { s with expand := v = "1" })
  | ["init", v] => some (.ok { s with addInit := v = "1" })
  | "gate" :: r =>
    match parseGate r with
    | some (g, "@" :: r1) => (nats? r1).map fun bits => latex g bits s
    | _ => none
  | _ => none

def runRaw (line : String) : String :=
  match splitBars (words line) with
  | ["raw", nq, nc] :: calls =>
    match nq.toNat?, nc.toNat? with
    | some nq, some nc =>
      let rec go : List (List String) → St → Option (Res St)
        | [], s => some (.ok s)
        | c :: cs, s =>
          match rawCall c s with
          | none => none
          | some (.ok s') => go cs s'
          | some r => some r
      match go calls (St.new nq nc) with
      | none => "bad-op"
      | some r => showRes (r >>== code)
    | _, _ => "bad-op"
  | _ => "bad-op"

def handle (line : String) : String :=
  match words line with
  | "circ" :: _ =>
    match parseCirc line with
    | some c => showRes (circuitLatex c)
    | none => "bad-op"
  | "raw" :: _ => runRaw line
  | _ => "bad-op"

/-! (B): the property evaluated on the implementation's answer -/

/-- Shape of an operation, used only to give a failure a narrow class tag. `inRange` = under a
quantum or classical control. -/
partial def gateShapes (inRange : Bool) : Gate → List String
  | .c g => gateShapes true g
  | .kron a b => (if inRange then ["kron-in-range"] else []) ++ gateShapes inRange a ++ gateShapes inRange b
  | .comp _ _ ops => (if inRange then ["multistage-in-range"] else []) ++ subsShapes inRange ops
  | .loop k body => (if inRange then ["multistage-in-range"] else []) ++
      (if k ≥ 3 && (items body (List.range body.nbits) []).isEmpty then ["empty-loop-body"] else []) ++
      gateShapes inRange body
  | .i => if inRange then ["identity-in-range"] else []
  | _ => []
where subsShapes (inRange : Bool) : Subs → List String
  | .nil => []
  | .cons g _ rest => gateShapes inRange g ++ subsShapes inRange rest

def opShape : Op → String
  | .gate g _ =>
    let sh := gateShapes false g
    (["multistage-in-range", "kron-in-range", "empty-loop-body"].find? sh.contains).getD "plain"
  | .cond _ _ g _ =>
    let sh := gateShapes true g
    (["multistage-in-range", "kron-in-range", "empty-loop-body"].find? sh.contains).getD "plain"
  | .barrier _ => "barrier"
  | .measure .. | .measureAll .. => "measure"
  | .reset _ | .resetAll => "reset"
  | _ => "plain"

/-- Features of a gate placement that make the exporter panic. -/
partial def gatePanics (inLoop : Bool) : Gate → List Nat → List String
  | .c g, bits =>
    match bits with
    | ctl :: t :: ts =>
      let mn := ts.foldl min t
      let mx := ts.foldl max t
      (if (mn > ctl && mx > ctl) || (mn < ctl && mx < ctl) then [] else ["ctrl-between-targets"]) ++
        gatePanics inLoop g (t :: ts)
    | _ => ["ctrl-of-nothing"]
  | .kron a b, bits => gatePanics inLoop a (bits.take a.nbits) ++ gatePanics inLoop b (bits.drop a.nbits)
  | .comp _ _ ops, bits => subsPanics inLoop ops bits
  | .loop 0 _, _ => []     -- zero iterations: nothing is drawn, the body is never visited
  | .loop k body, bits =>
    (if k ≥ 3 && bits.isEmpty then ["empty-loop"] else []) ++
    (if k ≥ 3 && inLoop then ["nested-loop"] else []) ++ gatePanics (inLoop || k ≥ 3) body bits
  | .box _ n, _ => if n = 0 then ["empty-block"] else []
  | _, _ => []
where subsPanics (inLoop : Bool) : Subs → List Nat → List String
  | .nil, _ => []
  | .cons g sb rest, bits =>
    (if sb.any (· ≥ bits.length) then ["subbit-out-of-range"] else []) ++
      gatePanics inLoop g (mapBits bits sb) ++ subsPanics inLoop rest bits

def opPanics (_nq : Nat) : Op → List String
  | .gate g bits => gatePanics false g bits
  | .cond control _ g bits =>
    (if control.length > 64 then ["cond-more-than-64-bits"] else []) ++ gatePanics false g bits
  | _ => []

/-- Index of the operation at which the MODEL's export panics (attribution of a panic to an operation;
`none`: the model does not panic inside an operation, e.g. it panics while printing the loop header). -/
def panicOp (c : Circ) : Option Nat :=
  let rec go : List Op → Nat → St → Option Nat
    | [], _, _ => none
    | op :: rest, k, s =>
      match opLatex c.nq op s with
      | .ok s' => go rest (k + 1) { s' with cur := s'.cur + 1 }
      | .panic => some k
      | .err _ => none
  go c.ops 0 (St.new c.nq c.nc)

def oneLine (s : String) : String := (s.replace "\n" " ").replace "\t" " "

def specCheck (line : String) : String :=
  match line.splitOn "\t" with
  | [req, ans] =>
    match words req with
    | "raw" :: _ => "skip"
    | _ =>
      match parseCirc req with
      | none => "fail bad-request"
      | some c =>
        if c.ops.any Op.dup then "skip" else
        let peek := c.ops.any Op.isPeek
        let malformed := c.ops.any (Op.malformed c.nq)
        let a := ans.trimAscii.toString
        if a = "panic" then
          -- the features of the operation that panics (per the model), else of any operation
          let feats := match (panicOp c).bind (c.ops[·]?) with
            | some op => match opPanics c.nq op with
              | [] => c.ops.flatMap (opPanics c.nq)
              | fs => fs
            | none => c.ops.flatMap (opPanics c.nq)
          match feats.head? with
          | some f => s!"fail panic:{f} the export panics instead of drawing or returning an error"
          | none => "fail panic:unexplained the export panics"
        else if a.startsWith "err " then
          if peek || malformed then "ok" else s!"fail unexpected-error {a}"
        else if a.startsWith "ok " then
          if peek then "fail peek-exported an operation that cannot be drawn was exported"
          else if malformed then "skip"
          else
            match readDoc (decode (a.drop 3).toString) with
            | none => "fail unreadable the text is not a qcircuit grid over the known symbols"
            | some d =>
              -- attribution only: which operation drew a cell, according to the model's ghost provenance
              -- (used only if the model prints the same document: otherwise the model says nothing about
              -- the implementation's grid and the reader's own lenient matching attributes the failure)
              let cols : List Column := match exportSt c with
                | .ok s => (match code s with
                  | .ok t => if readDoc t = some d then s.rcols.reverse else []
                  | _ => [])
                | _ => []
              let hint (col row : Nat) : Option Nat :=
                match (cols[col]?).bind (·[row]?) with
                | some (some cell) => some cell.prov
                | _ => none
              match check c d hint with
              | .ok _ => "ok"
              | .error f =>
                -- attribution. Connector / span failures: the operation that drew the cell, by the model's
                -- provenance (exact). Matching failures (symbol, order, missing, unconnected, extra, loop-brace)
                -- at operation k: the left-to-right matching is unreliable once an EARLIER operation of a
                -- defective shape has been met (its stages may silently match symbols of later operations, or
                -- leave symbols behind), so the first operation of a known defective shape at or before k is
                -- blamed, unless k itself has a defective shape; k itself if there is none.
                let structural := f.kind = "connector" || f.kind = "span"
                let defectShapes := ["multistage-in-range", "kron-in-range", "empty-loop-body"]
                let shapeOf (j : Nat) : String := (c.ops[j]?.map opShape).getD "plain"
                let firstOf (shapes : List String) (upto : Nat) : Option Nat :=
                  (List.range (min (upto + 1) c.ops.length)).find? fun j => shapes.contains (shapeOf j)
                -- which defective shape can derail the matching of LATER operations: a Composite/Loop in a
                -- range (symbols lost or merged); for brace failures an empty loop body (misplaced brace).
                -- A Kron in a range draws all its symbols and fails, if at all, at itself.
                let pref := if f.kind = "loop-brace" || f.kind = "loop" then ["empty-loop-body", "multistage-in-range"]
                            else ["multistage-in-range"]
                let blamed : Option Nat := match f.op with
                  | some k =>
                    if structural || defectShapes.contains (shapeOf k) then some k
                    else some ((firstOf pref k).getD k)
                  | none => (firstOf pref c.ops.length).orElse fun _ => firstOf defectShapes c.ops.length
                let shape := match blamed with
                  | some k => (c.ops[k]?.map opShape).getD "?"
                  | none => "?"
                s!"fail {f.kind}:{shape} op={repr blamed} {oneLine f.detail}"
        else "fail bad-answer"
  | _ => "fail bad-line"

end C13

def main (args : List String) : IO Unit :=
  if args = ["spec"] then serve C13.specCheck else serve C13.handle

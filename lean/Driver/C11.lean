import Q1t.Base.Proto
import Q1t.Base.CFloat
import Q1t.Base.DecFloat
import Q1t.Model.OpenQasm
import Q1t.Model.OpenQasmTable
import Q1t.Spec.OQ2
import Q1t.Spec.Born
/-! Driver for C11 (OpenQASM export): one request per line, one answer per line.

Request grammar: see `harness/src/bin/c11.rs`.

`model` mode: the model's `exportCircuit` — `ok <tokens>` | `err <Constructor> <ints>` | `panic`, the tokens of
the program in a canonical spelling (`i:<identifier>`, `n:<IEEE bits of the number>`, `y:<symbol>`, `s:<string>`).

`spec` mode: input `<request>\t<implementation's answer>`.  The implementation's TEXT is lexed and parsed with
`Spec/OQ2`, checked for well-formedness and for using `qelib1` gates only, and (circuits on at most 3 qubits) its
exact branch set — per register value the unnormalised density matrix of the final state — is compared with the
Born semantics of the circuit (`Spec/Born`).  Answer `ok`, `skip`, or `fail <class> <detail>`. -/
open Q1t Q1t.Proto Q1t.OpenQasm Q1t.CFloat

namespace C11

/-! ### parsing requests -/

def parseParam (w : String) : Option (QParam Float) :=
  match w.toList with
  | 'd' :: h => (hexToFloat? (String.ofList h)).map .direct
  | 'r' :: rest =>
    let name := rest.takeWhile (· != ':')
    match rest.dropWhile (· != ':') with
    | _ :: h => (hexToFloat? (String.ofList h)).map (.ref (String.ofList name))
    | [] => none
  | _ => none

mutual
partial def parseGate : List String → Option (QGate Float × List String)
  | "L" :: name :: k :: r => do
    let k ← k.toNat?
    let ps ← (r.take k).mapM parseParam
    if ps.length ≠ k then none
    pure (.lib name ps, r.drop k)
  | "C" :: r => (parseGate r).map fun (g, r') => (.ctrl g, r')
  | "K" :: r => do
    let (a, r1) ← parseGate r
    let (b, r2) ← parseGate r1
    pure (.kron a b, r2)
  | "Comp" :: name :: n :: k :: r => do
    let n ← n.toNat?; let k ← k.toNat?
    let (ops, r') ← parseOps k r
    pure (.composite name n ops, r')
  | "Loop" :: label :: iters :: name :: n :: k :: r => do
    let iters ← iters.toNat?; let n ← n.toNat?; let k ← k.toNat?
    let (ops, r') ← parseOps k r
    pure (.loop label iters name n ops, r')
  | _ => none
partial def parseOps : Nat → List String → Option (QOps Float × List String)
  | 0, r => some (.nil, r)
  | k + 1, r => do
    let (g, r1) ← parseGate r
    match r1 with
    | m :: r2 => do
      let m ← m.toNat?
      let bits ← nats? (r2.take m)
      if bits.length ≠ m then none
      let (rest, r3) ← parseOps k (r2.drop m)
      pure (.cons g bits rest, r3)
    | _ => none
end

def parseBasis : String → Option Sim.Basis
  | "X" => some .X | "Y" => some .Y | "Z" => some .Z | _ => none

def parseOp : List String → Option (QOp Float)
  | "g" :: r => do
    let (g, r') ← parseGate r
    match r' with
    | "@" :: bits => (nats? bits).map (.gate g)
    | _ => none
  | "cg" :: target :: r => do
    let target ← target.toNat?
    let control ← nats? (r.takeWhile (· ≠ ":"))
    match r.dropWhile (· ≠ ":") with
    | _ :: r1 => do
      let (g, r2) ← parseGate r1
      match r2 with
      | "@" :: bits => (nats? bits).map (.cond control target g)
      | _ => none
    | [] => none
  | ["m", q, c, b] => do pure (.measure (← q.toNat?) (← c.toNat?) (← parseBasis b))
  | "ma" :: b :: cbits => do pure (.measureAll (← nats? cbits) (← parseBasis b))
  | ["pk", q, c, b] => do pure (.peek (← q.toNat?) (← c.toNat?) (← parseBasis b))
  | "pka" :: b :: cbits => do pure (.peekAll (← nats? cbits) (← parseBasis b))
  | ["r", q] => q.toNat?.map .reset
  | ["ra"] => some .resetAll
  | "b" :: bits => (nats? bits).map .barrier
  | _ => none

def parseCircuit (line : String) : Option (QCircuit Float) :=
  match splitBars (words line) with
  | ["circ", nq, nc] :: ops => do
    let nq ← nq.toNat?; let nc ← nc.toNat?
    let ops ← ops.mapM parseOp
    pure ⟨nq, nc, ops⟩
  | _ => none

/-! ### tokens -/

def decode (s : String) : String :=
  ((s.replace "%0A" "\n").replace "%09" "\t").replace "%25" "%"

def decBits (m : Nat) (e : Int) : UInt64 := DecFloat.decToBits m e

/-- tokens of the reference lexer in the spelling of the model's tokens (numbers by value) -/
def ofSpecTok : Spec.OQ2.Tok → Tok
  | .id s => .id s
  | .int n => .num (decBits n 0)
  | .real m e => .num (decBits m e)
  | .sym s => .sym s
  | .str s => .str s

/-- `Display for f64`: `NaN`, `inf`, `-inf`, else an optional `-` and the shortest decimal that reads back -/
def showVal (v : Float) : List Tok :=
  if v.isNaN then [.id "NaN"]
  else
    let neg := v.toBits >>> 63 == 1
    let mag := Float.ofBits (v.toBits &&& 0x7FFFFFFFFFFFFFFF)
    (if neg then [Tok.sym "-"] else []) ++ (if mag.isInf then [Tok.id "inf"] else [Tok.num mag.toBits])

/-- a parameter name is copied into the text as it is: whatever tokens it reads as -/
def lexName (s : String) : List Tok :=
  match Spec.OQ2.lex s with
  | .ok ts => ts.map ofSpecTok
  | .error _ => [.id s]

def hex16 (b : UInt64) : String := floatToHex (Float.ofBits b)

def showTok : Tok → String
  | .id s => "i:" ++ s
  | .num b => "n:" ++ hex16 b
  | .sym s => "y:" ++ s
  | .str s => "s:" ++ s

def showErr : Err → String
  | .notImplemented => "err NotImplemented"
  | .invalidNrBits n e => s!"err InvalidNrBits {n} {e}"
  | .peekInvalid => "err PeekInvalid"
  | .incompleteConditionRegister => "err IncompleteConditionRegister"

/-- the table the model runs with (`Props/C11.templates_as_modelled`: it is what the generated templates compile to;
re-checked here at run time) -/
def table : List GateTpl := libTable
def tableOk : Bool := decide (compileAll Gen.oqGates = some libTable)

def modelTokens (c : QCircuit Float) : Res (List Tok) :=
  (exportCircuit table c).map (programToks showVal lexName)

def handle (line : String) : String :=
  if !tableOk then "model-error generated-templates-differ-from-the-model-table" else
  match parseCircuit line with
  | none => "bad-request"
  | some c =>
    match modelTokens c with
    | .ok ts => "ok " ++ " ".intercalate (ts.map showTok)
    | .err e => showErr e
    | .panic => "panic"

/-! ### (B): the property evaluated on the implementation's text -/

instance : Spec.OQ2.Angle Float where
  ofDec m e := Float.ofBits (decBits m e)
  pi := CFloat.pi
  neg x := -x
  add x y := x + y
  sub x y := x - y
  mul x y := x * y
  div x y := x / y

def normSqSum (ψ : List CFloat) : Float := ψ.foldl (fun a z => a + CFloat.normSq z) 0.0
def nonzero (ψ : List CFloat) : Bool := normSqSum ψ > 1e-18

abbrev Br := List CFloat × Nat

/-- per register value, the unnormalised density matrix `Σ |ψ⟩⟨ψ|` of the branches that end there -/
def density (brs : List Br) : List (Nat × List (List CFloat)) :=
  let ws := (brs.map (·.2)).eraseDups
  ws.map fun w =>
    let ψs := (brs.filter (·.2 == w)).map (·.1)
    let dim := (ψs.headD []).length
    (w, (List.range dim).map fun i => (List.range dim).map fun j =>
      ψs.foldl (fun acc ψ => acc + ψ.getD i 0 * (Amp.conj Float (ψ.getD j 0) : CFloat)) 0)

def matDist (a b : List (List CFloat)) : Float :=
  ((a.zip b).map fun (ra, rb) => ((ra.zip rb).map fun (x, y) => CFloat.dist x y).foldl max 0.0).foldl max 0.0

def zeroMat (n : Nat) : List (List CFloat) := List.replicate n (List.replicate n 0)

/-- largest entrywise difference over all register values -/
def densityDist (dim : Nat) (a b : List (Nat × List (List CFloat))) : Float × Nat :=
  let ws := ((a.map (·.1)) ++ (b.map (·.1))).eraseDups
  ws.foldl (fun (best, bw) w =>
    let ma := ((a.find? (·.1 == w)).map (·.2)).getD (zeroMat dim)
    let mb := ((b.find? (·.1 == w)).map (·.2)).getD (zeroMat dim)
    let d := matDist ma mb
    if d > best then (d, w) else (best, bw)) (0.0, 0)

/-! features of a circuit that place it in a known defect class -/

mutual
partial def gateAny (f : String → List (QParam Float) → Bool) : QGate Float → Bool
  | .lib n ps => f n ps
  | .ctrl g => gateAny f g
  | .kron a b => gateAny f a || gateAny f b
  | .composite _ _ ops => opsAny f ops
  | .loop _ _ _ _ ops => opsAny f ops
partial def opsAny (f : String → List (QParam Float) → Bool) : QOps Float → Bool
  | .nil => false
  | .cons g _ r => gateAny f g || opsAny f r
end

def circAny (c : QCircuit Float) (f : String → List (QParam Float) → Bool) : Bool :=
  c.ops.any fun o => match o with
    | .gate g _ | .cond _ _ g _ => gateAny f g
    | _ => false

def multiStmt (name : String) : Bool :=
  match lookupTpl table name with
  | some t => t.stmts.length > 1
  | none => false

def isRef : QParam Float → Bool
  | .ref _ _ => true
  | _ => false
def isNonFinite : QParam Float → Bool
  | .direct v => v.isNaN || v.isInf
  | _ => false

/-- the defect classes a circuit is in (most specific first) -/
def classesOf (c : QCircuit Float) : List String :=
  (if c.ops.any (fun o => match o with | .cond [] t _ _ => t ≠ 0 | _ => false) then ["empty_control_list"] else []) ++
  (if c.ops.any (fun o => match o with | .cond (x :: xs) t _ _ => t ≥ 2 ^ (x :: xs).length | _ => false)
    then ["condition_target_overflow"] else []) ++
  (if c.ops.any (fun o => match o with
      | .cond (_ :: _) _ g _ => gateAny (fun n _ => multiStmt n) g | _ => false) then ["condition_first_statement_only"] else []) ++
  (if c.ops.any (fun o => match o with
      | .measure _ _ b | .measureAll _ b => b != .Z | _ => false) then ["basis_measurement_not_rotated_back"] else []) ++
  (if circAny c (fun _ ps => ps.any isRef) then ["reference_parameter_by_name"] else [])

/-- operand lists the simulator itself rejects or mis-executes (D10/D11): the circuit has no semantics to
preserve -/
def validOperands (c : QCircuit Float) : Bool :=
  c.ops.all fun o => match o with
    | .gate g bits | .cond _ _ g bits =>
      bits.length == nbits table g && bits.eraseDups.length == bits.length && bits.all (· < c.nq) &&
      (match g.toTerm with | some _ => true | none => false)
    | .measureAll cbits _ | .peekAll cbits _ => cbits.length == c.nq
    | .barrier qs => !qs.isEmpty && qs.eraseDups.length == qs.length
    | _ => true

mutual
/-- every sub-gate of every composite sits on distinct, in-range local bits with the right arity -/
partial def wellPlaced : QGate Float → Bool
  | .lib _ _ => true
  | .ctrl g => wellPlaced g
  | .kron a b => wellPlaced a && wellPlaced b
  | .composite _ n ops => opsPlaced n ops
  | .loop _ _ _ n ops => opsPlaced n ops
partial def opsPlaced (n : Nat) : QOps Float → Bool
  | .nil => true
  | .cons g bits r =>
    bits.length == nbits table g && bits.eraseDups.length == bits.length && bits.all (· < n) && wellPlaced g &&
      opsPlaced n r
end

def wellPlacedCircuit (c : QCircuit Float) : Bool :=
  c.ops.all fun o => match o with
    | .gate g _ | .cond _ _ g _ => wellPlaced g
    | _ => true

def bornBranches (c : QCircuit Float) : Option (List Br) := do
  let ops ← c.ops.mapM QOp.toCOp
  Spec.branches (α := CFloat) (P := Float) c.nq nonzero ops [(Spec.OQ2.zeroState c.nq, 0)]

def failWith (c : QCircuit Float) (cls detail : String) : String :=
  s!"fail {cls} {detail} classes=[{",".intercalate (classesOf c)}]"

mutual
partial def cu3Mag : QGate Float → Float
  | .lib n ps => if n == "CU3" then ps.foldl (fun a p => a + p.value.abs) 0.0 else 0.0
  | .ctrl g => cu3Mag g
  | .kron a b => cu3Mag a + cu3Mag b
  | .composite _ _ ops => cu3MagOps ops
  | .loop _ iters _ _ ops => iters.toFloat * cu3MagOps ops
partial def cu3MagOps : QOps Float → Float
  | .nil => 0.0
  | .cons g _ r => cu3Mag g + cu3MagOps r
end

/-- Comparison tolerance.  The body of `cu3` ADDS its angles (`(lambda+phi)/2`, `(lambda-phi)/2`), so evaluating
the reference in doubles loses `ulp(|angle|)` there — the only place where the reference semantics is
ill-conditioned for huge angles (all other bodies only halve, negate or copy their parameters, which is exact in
binary floating point).  The tolerance therefore grows with the magnitudes of the `CU3` parameters of the circuit;
a circuit for which it would exceed 1e-4 is not compared (`skip`). -/
def tolerance (c : QCircuit Float) : Float :=
  1e-9 + 3.6e-15 * (c.ops.foldl (fun a o => match o with
    | .gate g _ | .cond _ _ g _ => a + cu3Mag g
    | _ => a) 0.0)

def specCheck (line : String) : String :=
  match (line.trimAscii.toString).splitOn "\t" with
  | [req, impl] =>
    match parseCircuit req with
    | none => "fail bad-request"
    | some c =>
      if impl == "panic" then failWith c "panic" "Circuit::open_qasm panicked"
      else if impl.startsWith "err " then "ok"     -- the export was refused
      else if !impl.startsWith "ok " then "fail bad-answer"
      else
        let text := decode ((impl.drop 3).toString)
        match Spec.OQ2.lex text with
        | .error e => failWith c "lex_error" e
        | .ok toks =>
          -- second look at (A) with the reference lexer: the model's tokens are the tokens of the text
          let same := match modelTokens c with
            | .ok ts => ts == toks.map ofSpecTok
            | _ => false
          if !same then failWith c "token_mismatch" "model tokens differ from the lexed text" else
          match Spec.OQ2.parse toks with
          | .error p =>
            if !(validOperands c && wellPlacedCircuit c) then failWith c "unchecked_operands" s!"{p.tag}:{p.detail}"
            else failWith c p.tag p.detail
          | .ok prog =>
            match Spec.OQ2.wfProblem prog with
            | some p =>
              let cls :=
                if p.tag == "unbound_identifier" then
                  (if circAny c (fun _ ps => ps.any isNonFinite) && (p.detail == "NaN" || p.detail == "inf") then "nonfinite_parameter"
                   else if circAny c (fun _ ps => ps.any isRef) then "reference_parameter_by_name"
                   else p.tag)
                else if p.tag == "not_qelib1" then s!"not_qelib1:{p.detail}"
                else if !(validOperands c && wellPlacedCircuit c) then "unchecked_operands"
                else p.tag
              failWith c cls s!"{p.tag}:{p.detail}"
            | none =>
              if !Spec.OQ2.usesOnlyQelib1 prog then failWith c "not_qelib1" "" else
              if !(validOperands c && wellPlacedCircuit c) then failWith c "unchecked_operands" "exported although the simulator rejects the operand list"
              else if c.nq > 3 || tolerance c > 1e-4 then "skip" else
              match bornBranches c, Spec.OQ2.run (α := CFloat) (P := Float) nonzero prog with
              | none, _ => "skip"
              | _, none => failWith c "no_semantics" "the reference semantics does not cover the program"
              | some bs, some ps =>
                let dim := 2 ^ c.nq
                let (d, w) := densityDist dim (density bs) (density ps)
                if d ≤ tolerance c then "ok"
                else
                  let cls := (classesOf c).headD "unexplained_mismatch"
                  failWith c cls s!"register={w} distance={d}"
  | _ => "fail bad-line"

end C11

def main (args : List String) : IO Unit :=
  if args = ["spec"] then serve C11.specCheck else serve C11.handle

import Driver.SimStep
import Q1t.Model.StabSim
import Q1t.Model.Builders
import Q1t.Model.ExportClass
import Q1t.Spec.WellFormed
import Q1t.Gen.MacroMethods
import Q1t.Model.ExportBridge
import Driver.C12Parse
/-!
Driver for C18 (see `harness/src/bin/c18.rs` for the line protocol).  Every request line carries the
register sizes and the whole call sequence; the driver runs the builder model on it and answers

* `build`  — the result of every call (`ok` / `err <ctor> <payload> unchanged`),
* `oq`, `cq`, `latex` — the outcome class of the exporter on the built circuit,
* `step`   — operation `i` of the built circuit from the implementation's pre-state with its draws,
* `macro`  — `circuit!` with the generated `$res?` table,
* `cover`  — every builder of `Gen.resultBuilders`/`unitBuilders` occurs in the macro stream,
* `pair`   — `ok` (evaluated in spec mode only).

`spec` mode evaluates the property itself on the implementation's answers (reference semantics:
`Builders.stepRef`, `WellFormed.opDefects`) and names the violated conjunct in a class tag.
-/
open Q1t Q1t.Proto Q1t.Sim Q1t.SimParse Q1t.SimStep Q1t.GateParse Q1t.Builders Q1t.ExportClass Q1t.WellFormed

namespace C18

abbrev C := Call Float

def takeList : List String → Option (List Nat × List String)
  | k :: rest => do
      let k ← k.toNat?
      if rest.length < k then none
      let l ← nats? (rest.take k)
      pure (l, rest.drop k)
  | [] => none

def parseCall : List String → Option C
  | "add_gate" :: r => do
      let (bits, r1) ← takeList r
      let (g, r2) ← parseGate r1
      if r2 ≠ [] then none
      pure (.addGate g bits)
  | "add_conditional_gate" :: r => do
      let (control, r1) ← takeList r
      match r1 with
      | target :: r2 => do
          let target ← target.toNat?
          let (bits, r3) ← takeList r2
          let (g, r4) ← parseGate r3
          if r4 ≠ [] then none
          pure (.addConditionalGate control target g bits)
      | [] => none
  | ["measure_basis", q, c, b] => do pure (.measureBasis (← q.toNat?) (← c.toNat?) (← parseBasis b))
  | ["measure_x", q, c] => do pure (.measureX (← q.toNat?) (← c.toNat?))
  | ["measure_y", q, c] => do pure (.measureY (← q.toNat?) (← c.toNat?))
  | ["measure_z", q, c] => do pure (.measureZ (← q.toNat?) (← c.toNat?))
  | ["measure", q, c] => do pure (.measure (← q.toNat?) (← c.toNat?))
  | "measure_all_basis" :: r => do
      let (l, r1) ← takeList r
      match r1 with
      | [b] => (parseBasis b).map (.measureAllBasis l)
      | _ => none
  | "measure_all" :: r => do
      let (l, r1) ← takeList r
      if r1 ≠ [] then none
      pure (.measureAll l)
  | ["peek_basis", q, c, b] => do pure (.peekBasis (← q.toNat?) (← c.toNat?) (← parseBasis b))
  | ["peek_x", q, c] => do pure (.peekX (← q.toNat?) (← c.toNat?))
  | ["peek_y", q, c] => do pure (.peekY (← q.toNat?) (← c.toNat?))
  | ["peek_z", q, c] => do pure (.peekZ (← q.toNat?) (← c.toNat?))
  | ["peek", q, c] => do pure (.peek (← q.toNat?) (← c.toNat?))
  | "peek_all_basis" :: r => do
      let (l, r1) ← takeList r
      match r1 with
      | [b] => (parseBasis b).map (.peekAllBasis l)
      | _ => none
  | "peek_all" :: r => do
      let (l, r1) ← takeList r
      if r1 ≠ [] then none
      pure (.peekAll l)
  | ["reset", q] => q.toNat?.map .reset
  | ["reset_all"] => some .resetAll
  | "barrier" :: r => do
      let (l, r1) ← takeList r
      if r1 ≠ [] then none
      pure (.barrier l)
  | ["cx", a, b] => do pure (.cx (← a.toNat?) (← b.toNat?))
  | ["h", q] => q.toNat?.map .h | ["x", q] => q.toNat?.map .x | ["y", q] => q.toNat?.map .y
  | ["z", q] => q.toNat?.map .z | ["s", q] => q.toNat?.map .s | ["sdg", q] => q.toNat?.map .sdg
  | ["rx", t, q] => do pure (.rx (← hexF t) (← q.toNat?))
  | ["ry", t, q] => do pure (.ry (← hexF t) (← q.toNat?))
  | ["rz", t, q] => do pure (.rz (← hexF t) (← q.toNat?))
  | ["u1", t, q] => do pure (.u1 (← hexF t) (← q.toNat?))
  | ["u2", a, b, q] => do pure (.u2 (← hexF a) (← hexF b) (← q.toNat?))
  | ["u3", a, b, c, q] => do pure (.u3 (← hexF a) (← hexF b) (← hexF c) (← q.toNat?))
  | _ => none

/-- `<nq> <nc>` and the `;`-separated calls -/
def parseHead (sizes calls : List String) : Option (Nat × Nat × List C) :=
  match sizes with
  | [_, nq, nc] => do
      let nq ← nq.toNat?
      let nc ← nc.toNat?
      let cs ← (splitOps calls).mapM parseCall
      pure (nq, nc, cs)
  | _ => none

def showFailB : Fail → String
  | .err e => showSimErr e
  | .panic _ => "panic"

/-- results of the calls, and the built circuit -/
def buildAll (nq nc : Nat) (calls : List C) : Circ Float × List String :=
  calls.foldl (fun (acc : Circ Float × List String) call =>
    let (c, out) := acc
    let (c', r) := step c call
    let txt := match r with
      | .ok () => "ok"
      | .error f => showFailB f ++ (if c'.ops.length = c.ops.length then " unchanged" else " CHANGED")
    (c', out ++ [txt])) (Circ.new nq nc, [])

def showCls : Cls → String
  | .ok => "ok" | .err => "err" | .panic => "panic" | .unsupported => "unsupported"

def showLatexErr : Latex.Err → String
  | .invalidQBit b => s!"err InvalidQBit {b}"
  | .invalidCBit b => s!"err InvalidCBit {b}"
  | .invalidNrBits n e => s!"err InvalidNrBits {n} {e}"
  | .notImplemented => "err NotImplemented"
  | .rangeAlreadyOpen => "err RangeAlreadyOpen"
  | .cantCloseLoop => "err CantCloseLoop"

def showLatex : Latex.Res Unit → String
  | .ok _ => "ok"
  | .err e => showLatexErr e
  | .panic => "panic"

/-- like `SimParse.runChecked`, except that a NaN probability is not compared (Rust's `w0.min(1.0)` and
the driver's `min1` disagree on NaN, which only arises in the 0-shot runs of D9) -/
def runLenient {β} : Prog CFloat β → List DrawRec → Except String (Except Fail β × List DrawRec)
  | .pure b, ds => .ok (.ok b, ds)
  | .fail e, ds => .ok (.error e, ds)
  | .binomial c p k, .bin c' p' n0 :: ds =>
      if c ≠ c' then .error s!"binomial-count model={c} impl={c'}"
      else if !(p.re.isNaN) && !(Float.abs (p.re - p') ≤ 1e-9) then .error s!"binomial-parameter model={p.re} impl={p'}"
      else if n0 > c then .error "binomial-draw-out-of-support"
      else runLenient (k n0) ds
  | .binomial _ _ _, _ => .error "model-draws-binomial-impl-did-not"
  | .categorical ws c k, .cat c' l :: ds =>
      if c ≠ c' then .error s!"categorical-count model={c} impl={c'}"
      else if (l.map (·.2)).foldl (· + ·) 0 ≠ c then .error "categorical-counts-do-not-sum"
      else if !(l.all fun ic => ic.1 < ws.length ∧ 0 < ic.2) then .error "categorical-index-out-of-range"
      else runLenient (k l) ds
  | .categorical _ _ _, _ => .error "model-draws-categorical-impl-did-not"

/-- sentinel: `Composite::conjugate` indexes `ops[b]` with a sub-gate's local index; out of range is a panic, which
the `Conj` type (errors only) cannot carry — the sentinel error is printed as `panic` by `stepAnswer` -/
def conjPanic : Q1t.Tableau.GErr := .invalidNrBits 987654321 987654321

mutual
/-- `SimStep.conjOfTerm` with the index panic of `Composite::conjugate` (`ops[b]`) made visible -/
partial def conjOfTerm18 (g : GateTerm Float) : Q1t.Tableau.Tab.Conj := fun ops =>
  match g with
  | .Kron g0 g1 =>
      let n := Gate.nrBits g0 + Gate.nrBits g1
      if ops.length ≠ n then .error (.invalidNrBits ops.length n) else
      let n0 := Gate.nrBits g0
      match conjOfTerm18 g0 (ops.take n0) with
      | .error e => .error e
      | .ok (f0, o0) =>
        match conjOfTerm18 g1 (ops.drop n0) with
        | .error e => .error e
        | .ok (f1, o1) => .ok (f0 != f1, o0 ++ o1)
  | .Composite _ n body =>
      if ops.length ≠ n then .error (.invalidNrBits ops.length n) else conjOps18 body ops false
  | .Loop _ iters _ n body =>
      if ops.length ≠ n then .error (.invalidNrBits ops.length n) else
      if !Q1t.Conj.allStabT Q1t.Gen.conjTable body then .error .notAStabilizer else
      (List.range iters).foldl (fun acc _ =>
        match acc with
        | .error e => .error e
        | .ok (f, o) => match conjOps18 body o false with
          | .error e => .error e
          | .ok (f', o') => .ok (f != f', o')) (.ok (false, ops))
  | other => conjOfTerm other ops

partial def conjOps18 : OpList Float → List Q1t.Tableau.P → Bool → Except Q1t.Tableau.GErr (Bool × List Q1t.Tableau.P)
  | .nil, ops, f => .ok (f, ops)
  | .cons g bits rest, ops, f =>
      if bits.any (fun b => ops.length ≤ b) then .error conjPanic else       -- `ops[b]`
      let gateOps := bits.map fun b => ops.getD b .I
      match conjOfTerm18 g gateOps with
      | .error e => .error e
      | .ok (f', out) =>
        let ops' := (bits.zip out).foldl (fun acc (b, p) => acc.set b p) ops
        conjOps18 rest ops' (f != f')
end

/-- the stabilizer backend (over-long `peek_all` lists are rejected by the length check now, so the flat-array
reading of `Model/StabFlat.lean` is gone) -/
def stabBF : Backend CFloat Float StabState :=
  stabBackend (⟨0.5, 0.0⟩ : CFloat) Q1t.Gen.phaseTable conjOfTerm18

/-- does the operation place a gate on a repeated qubit? -/
def hasDupQubits : COp Float → Bool
  | .gate _ bits | .cond _ _ _ bits => WellFormed.hasDup bits
  | _ => false

def stepAnswer (op : COp Float) (snap reg draws : List String) : String :=
  match nats? reg, parseDraws draws with
  | some reg, some ds =>
    match parseVecSnapshot reg.length snap with
    | some st =>
      match runLenient (execOp (vecBackend (α := CFloat) (P := Float)) st reg op) ds with
      | .error msg => s!"draw-mismatch {msg}"
      -- matrix-mode routes on a repeated qubit: Rust asserts on the TOTAL element count of the 2-D state
      -- (`state.len() % 2`), the route model on the row count; with an odd number of rows and an even
      -- number of columns the implementation goes on with garbage where the model stops
      | .ok (.error (.panic _), _) =>
        if hasDupQubits op && st.counts.length % 2 == 0 then "panic-or-garbage" else "panic"
      | .ok (.error f, _) => showFail f
      | .ok (.ok (st', reg'), rest) =>
        if !rest.isEmpty then "draw-mismatch impl-made-more-draws-than-model"
        else s!"ok | {showVecSnapshot st'} | {joinNats reg'}"
    | none =>
      match parseStabSnapshot reg.length snap with
      | some st =>
        match runLenient (execOp stabBF st reg op) ds with
        | .error msg => s!"draw-mismatch {msg}"
        | .ok (.error (.err (.invalidNrBits 987654321 987654321)), _) => "panic"
        | .ok (.error f, _) => showFail f
        | .ok (.ok (st', reg'), rest) =>
          if !rest.isEmpty then "draw-mismatch impl-made-more-draws-than-model"
          else s!"ok | {showStabSnapshot st'} | {joinNats reg'}"
      | none => "unsupported-snapshot"
  | _, _ => "bad-step"

/-- the harness counts the evaluations of one marked argument per call; `reset_all()` has none -/
def evaluated (cs : List C) (k : Nat) : Nat :=
  ((cs.take k).filter fun c => c.name ≠ "reset_all").length

def showMacro (cs : List C) : Except Fail (Circ Float) × Nat → String
  | (.ok _, k) => s!"ok evaluated {evaluated cs k}"
  | (.error f, k) => s!"{showFailB f} evaluated {evaluated cs k}"

/-! ### the QuState level: one trait method called directly on a representation -/

inductive QsCall where
  | applyGate (bits : List Nat) (g : GateTerm Float)
  | unaryAll (g : GateTerm Float)
  | applyCond (control : List Bool) (bits : List Nat) (g : GateTerm Float)
  | measureInto (q c : Nat) | peekInto (q c : Nat)
  | measureAllInto (cbits : List Nat) | peekAllInto (cbits : List Nat)
  | reset (q : Nat) | resetAll

def parseQs : List String → Option QsCall
  | "apply_gate" :: r => do
      let (bits, r1) ← takeList r
      let (g, r2) ← parseGate r1
      if r2 ≠ [] then none
      pure (.applyGate bits g)
  | "apply_unary_gate_all" :: r => do
      let (g, r2) ← parseGate r
      if r2 ≠ [] then none
      pure (.unaryAll g)
  | "apply_conditional_gate" :: r => do
      let (ctl, r1) ← takeList r
      let (bits, r2) ← takeList r1
      let (g, r3) ← parseGate r2
      if r3 ≠ [] then none
      pure (.applyCond (ctl.map (· != 0)) bits g)
  | ["measure_into", q, c] => do pure (.measureInto (← q.toNat?) (← c.toNat?))
  | ["peek_into", q, c] => do pure (.peekInto (← q.toNat?) (← c.toNat?))
  | "measure_all_into" :: r => do
      let (l, r1) ← takeList r
      if r1 ≠ [] then none
      pure (.measureAllInto l)
  | "peek_all_into" :: r => do
      let (l, r1) ← takeList r
      if r1 ≠ [] then none
      pure (.peekAllInto l)
  | ["reset", q] => q.toNat?.map .reset
  | ["reset_all"] => some .resetAll
  | _ => none

/-- the call on a backend: new state and register -/
def qsProg {S : Type} (B : Backend CFloat Float S) (st : S) (reg : List Nat) : QsCall → Prog CFloat (S × List Nat)
  | .applyGate bits g => (B.applyGate st g bits).bind fun s' => .pure (s', reg)
  | .unaryAll g => (B.applyUnaryAll st g).bind fun s' => .pure (s', reg)
  | .applyCond control bits g => (B.applyConditional st control g bits).bind fun s' => .pure (s', reg)
  | .measureInto q c => B.measureInto st q c reg
  | .peekInto q c => (B.peekInto st q c reg).bind fun r => .pure (st, r)
  | .measureAllInto cbits => B.measureAllInto st cbits reg
  | .peekAllInto cbits => B.peekAllInto st cbits reg
  | .reset q => (B.reset st q).bind fun s' => .pure (s', reg)
  | .resetAll => .pure (B.resetAll st, reg)

/-- a qubit index outside the register in a call that does not validate it (`apply_gate`, `apply_conditional_gate`,
`reset` of `trait QuState`; `Circuit` never passes one) -/
def QsCall.qubitOob (n : Nat) : QsCall → Bool
  | .applyGate bits _ | .applyCond _ bits _ => bits.any (n ≤ ·)
  | .reset q => n ≤ q
  | _ => false

def QsCall.dupQubits : QsCall → Bool
  | .applyGate bits _ | .applyCond _ bits _ => WellFormed.hasDup bits
  | _ => false

/-- the model has `nr_shots` in the state but the snapshot does not carry it: it is the sum of the ranges -/
def qsAnswer (call : QsCall) (snap reg draws : List String) : String :=
  match nats? reg, parseDraws draws with
  | some reg, some ds =>
    match parseVecSnapshot 0 snap with
    | some st0 =>
      let st := { st0 with nrShots := st0.counts.foldl (· + ·) 0 }
      match runLenient (qsProg (vecBackend (α := CFloat) (P := Float)) st reg call) ds with
      | .error msg => s!"draw-mismatch {msg}"
      | .ok (.error (.panic _), _) =>
        if call.dupQubits && st.counts.length % 2 == 0 then "panic-or-garbage" else "panic"
      | .ok (.error f, _) => showFail f
      | .ok (.ok (st', reg'), rest) =>
        if !rest.isEmpty then "draw-mismatch impl-made-more-draws-than-model"
        else s!"ok | {showVecSnapshot st'} | {joinNats reg'}"
    | none =>
      match parseStabSnapshot 0 snap with
      | some st0 =>
        let st := { st0 with nrShots := st0.counts.foldl (· + ·) 0 }
        -- the tableau is one flat bit array: an unvalidated qubit index >= n reads and writes the cells of the NEXT row
        -- (or the padding) instead of failing; the list-of-rows tableau model stops there
        if call.qubitOob st.nrBits then "oob-unmodelled" else
        match runLenient (qsProg stabBF st reg call) ds with
        | .error msg => s!"draw-mismatch {msg}"
        | .ok (.error (.err (.invalidNrBits 987654321 987654321)), _) => "panic"
        | .ok (.error f, _) => showFail f
        | .ok (.ok (st', reg'), rest) =>
          if !rest.isEmpty then "draw-mismatch impl-made-more-draws-than-model"
          else s!"ok | {showStabSnapshot st'} | {joinNats reg'}"
      | none => "unsupported-snapshot"
  | _, _ => "bad-qs"

/-- class tag of a QuState-level failure: the malformation of the call, in the vocabulary of `WellFormed` -/
def qsTag (what : String) (n shots regLen : Nat) (call : QsCall) : String :=
  let arity (g : GateTerm Float) (bits : List Nat) : Option String :=
    if bits.any (n ≤ ·) then some "qubit-out-of-range"
    else if WellFormed.hasDup bits then some "dup-qubits"
    else if Gate.nrBits g ≠ bits.length then some "arity"
    else if !WellFormed.gateOK g then some "bad-composite" else none
  let cause : Option String := match call with
    | .applyGate bits g => arity g bits
    | .unaryAll g => if Gate.nrBits g ≠ 1 then some "arity" else none
    | .applyCond control bits g => (arity g bits).orElse fun _ => if control.length ≠ shots then some "control-length" else none
    | .measureInto q c | .peekInto q c =>
      if n ≤ q then some "qubit-out-of-range" else if 64 ≤ c then some "cbit-ge-64"
      else if regLen < shots then some "register-too-short" else none
    | .measureAllInto cbits | .peekAllInto cbits =>
      if cbits.length ≠ n then some "measure-all-len" else if cbits.any (64 ≤ ·) then some "cbit-ge-64"
      else if regLen < shots then some "register-too-short" else none
    | .reset q => if n ≤ q then some "qubit-out-of-range" else none
    | .resetAll => none
  match cause with
  | some c => s!"{what}:{c}"
  | none => if shots = 0 then s!"{what}:zero-shots" else s!"{what}:wellformed-call"

def specQPair (sizes call : List String) (rest : List (List String)) : String :=
  match sizes, parseQs call, rest with
  | [_, n, shots, regLen], some qc, [v, s, v2, s2] =>
    match n.toNat?, shots.toNat?, regLen.toNat? with
    | some n, some shots, some regLen =>
      let kind (f : List String) : String := f.getD 1 "?"
      let ctor (f : List String) : String := if kind f = "err" then f.getD 2 "" else ""
      if kind v = "panic" || kind s = "panic" then
        s!"fail {qsTag "exec-panic" n shots regLen qc} QuState call panics: vector={kind v} stabilizer={kind s}"
      else if kind v2 = "panic" || kind s2 = "panic" then
        s!"fail {qsTag "exec-panic:after" n shots regLen qc} the next call on the same object panics"
      else
        let nonClifford := ctor s = "notAStabilizer"
        if !nonClifford && (kind v ≠ kind s || ctor v ≠ ctor s) then
          s!"fail {qsTag "reps-diverge" n shots regLen qc} vector={kind v} {ctor v} stabilizer={kind s} {ctor s}"
        else "ok"
    | _, _, _ => "fail bad-request qpair"
  | _, _, _ => "fail bad-request qpair"

def handle (line : String) : String :=
  let fs := fields line
  match fs with
  | ["qs"] :: call :: [snap, reg, draws] =>
    match parseQs call with
    | some qc => qsAnswer qc snap reg draws
    | none => "bad-qs"
  | ("qpair" :: _) :: _ => "ok"
  | ("cover" :: _) :: rest =>
    let covered := rest.flatten
    let missing := (Q1t.Gen.resultBuilders ++ Q1t.Gen.unitBuilders).filter fun n => !covered.contains n
    if missing.isEmpty then "ok" else "missing " ++ " ".intercalate missing
  | sizes :: calls :: rest =>
    match parseHead sizes calls with
    | none => "bad-request"
    | some (nq, nc, cs) =>
      let (circ, results) := buildAll nq nc cs
      match sizes.head?, rest with
      | some "build", [] => " ; ".intercalate results ++ s!" | nops {circ.ops.length}"
      | some "oq", [] =>
        -- the C11 exporter model on the image of the circuit, cross-checked with the fast classifier
        let m := match Q1t.OpenQasm.exportCircuit Q1t.OpenQasm.libTable (Q1t.OpenQasm.ofCirc circ) with
          | .ok _ => "ok" | .err _ => "err" | .panic => "panic"
        let k := showCls (openQasmCls circ)
        if m = k then m else s!"classifier-disagrees model={m} class={k}"
      | some "cq", [] =>
        let m := match Q1t.CQ.exportText Q1t.Gen.cqGates C12.floatNum (Q1t.CQ.ofCirc circ) with
          | .ok _ => "ok" | .err _ => "err" | .panic => "panic"
        let k := showCls (cQasmCls circ)
        if m = k then m else s!"classifier-disagrees model={m} class={k}"
      | some "latex", [] => showLatex (latexOutcome circ)
      | some "macro", [] => showMacro cs (runMacro Q1t.Gen.checkedMethods nq nc cs)
      | some "pair", _ => "ok"
      | some "step", [[i], snap, reg, draws] =>
        match i.toNat? with
        | none => "bad-step"
        | some i =>
          match circ.ops[i]? with
          | none => "no-such-op"
          | some op => stepAnswer op snap reg draws
      | _, _ => "bad-request"
  | _ => "bad-request"

/-! ### spec mode: the property itself -/

def showRef (c c' : Circ Float) (r : Except Fail Unit) : String :=
  match r with
  | .ok () => "ok"
  | .error f => showFailB f ++ (if c'.ops.length = c.ops.length then " unchanged" else " CHANGED")

/-- the circuit according to the reference reading of the calls, with the expected answers -/
def buildRef (nq nc : Nat) (calls : List C) : Circ Float × List String :=
  calls.foldl (fun (acc : Circ Float × List String) call =>
    let (c, out) := acc
    let (c', r) := stepRef c call
    (c', out ++ [showRef c c' r])) (Circ.new nq nc, [])

def splitSemis (s : String) : List String := (s.splitOn " ; ").map fun t => t.trimAscii.toString

def firstTag (ds : List Defect) (p : Defect → Bool) : Option String := (ds.find? p).map Defect.tag

/-- the class tag of a panic of an exporter: the first defect of the circuit relevant to it -/
def exportTag (kind : String) (circ : Circ Float) : String :=
  let ds := circDefects circ
  let rel : Defect → Bool := match kind with
    | "oq" => Defect.openQasm | "cq" => Defect.cQasm | _ => Defect.latex
  match firstTag ds rel with
  | some t => s!"{kind}-panic:{t}"
  | none => s!"{kind}-panic:wellformed-circuit"

/-- `v panic@3` / `v err@2 invalidNrBits 2 1` / `v ok` / `rv skipped` -/
structure RunOut where
  kind : String          -- ok | err | panic | skipped
  at_ : Nat
  ctor : String
deriving Repr

def parseRunOut : List String → Option RunOut
  | [_, "ok"] => some ⟨"ok", 0, ""⟩
  | [_, "skipped"] => some ⟨"skipped", 0, ""⟩
  | _ :: w :: rest =>
    match w.splitOn "@" with
    | ["panic", i] => i.toNat?.map fun i => ⟨"panic", i, ""⟩
    | ["err", i] => i.toNat?.map fun i => ⟨"err", i, rest.headD ""⟩
    | _ => none
  | _ => none

def isClifford (circ : Circ Float) : Bool :=
  circ.ops.all fun op => match op with
    | .gate g _ | .cond _ _ g _ =>
      (match conjOfTerm g (List.replicate (Gate.nrBits g) .I) with | .error .notAStabilizer => false | _ => true)
    | _ => true

mutual
/-- a rotation parameter that is NaN or ±inf somewhere in the term -/
partial def nonFiniteTerm : GateTerm Float → Bool
  | .RX a | .RY a | .RZ a | .U1 a => !a.isFinite
  | .U2 a b => !a.isFinite || !b.isFinite
  | .U3 a b c => !a.isFinite || !b.isFinite || !c.isFinite
  | .C g => nonFiniteTerm g
  | .Kron a b => nonFiniteTerm a || nonFiniteTerm b
  | .Composite _ _ ops | .Loop _ _ _ _ ops => nonFiniteOps ops
  | _ => false
partial def nonFiniteOps : OpList Float → Bool
  | .nil => false
  | .cons g _ rest => nonFiniteTerm g || nonFiniteOps rest
end

def nonFiniteOp : COp Float → Bool
  | .gate g _ | .cond _ _ g _ => nonFiniteTerm g
  | _ => false

def execTag (what : String) (circ : Circ Float) (shots : Nat) (i : Nat) (reexec : Bool := false) : String :=
  let ds := match circ.ops[i]? with | some op => opDefects circ.nq op | none => []
  -- a panic with 0 shots: anything that touches the (empty) register or the ranges may panic (D9)
  if shots = 0 && what = "exec-panic" then s!"{what}:zero-shots" else
  match firstTag ds Defect.exec with
  | some t => s!"{what}:{t}"
  | none =>
    if shots = 0 then s!"{what}:zero-shots" else
    -- a defect of an earlier operation may have left a state the failing operation trips over
    -- (on re-execution: of ANY operation of the previous run)
    -- only a gate on a repeated qubit corrupts the state silently: name it first
    let earlier := ((if reexec then circ.ops else circ.ops.take i)).flatMap (opDefects circ.nq)
    if earlier.contains .dupQubits then s!"{what}:after-dup-qubits" else
    -- a NaN / infinite rotation parameter makes the whole state vector NaN; `WeightedIndex::new` then refuses the weights
    -- (known only at measure_all / peek_all: measure, peek and reset return Ok on a NaN state)
    let atAll := match circ.ops[i]? with | some (.measureAll _ _) | some (.peekAll _ _) => true | _ => false
    if atAll && ((if reexec then circ.ops else circ.ops.take i)).any nonFiniteOp then s!"{what}:non-finite-parameter" else
    match firstTag earlier Defect.exec with
    | some t => s!"{what}:after-{t}"
    | none => s!"{what}:wellformed-circuit"

def specPair (circ : Circ Float) (fs : List (List String)) : String :=
  match fs with
  | [shots] :: v :: rv :: s :: rs :: more =>
    match shots.toNat?, parseRunOut v, parseRunOut rv, parseRunOut s, parseRunOut rs with
    | some shots, some v, some rv, some s, some rs =>
      -- `v2`: execute_with(vector) once more on the same object, after all the other runs
      let v2 := (more.head?.bind parseRunOut).getD ⟨"skipped", 0, ""⟩
      let runs := [("vector", v), ("vector-reexecute", rv), ("stabilizer", s), ("stabilizer-reexecute", rs),
        ("vector-again", v2)]
      match runs.find? (fun r => r.2.kind = "panic") with
      | some (name, r) =>
        s!"fail {execTag "exec-panic" circ shots r.at_ (name.endsWith "reexecute")} {name} panics at operation {r.at_}"
      | none =>
        -- identical rejection: same kind, same constructor, same operation; a non-Clifford circuit is
        -- legitimately refused by the stabilizer representation
        let same (a b : RunOut) : Bool := a.kind = b.kind && a.ctor = b.ctor && (a.kind = "ok" || a.at_ = b.at_)
        let stabRefuses := !isClifford circ && s.kind = "err" && s.ctor = "notAStabilizer"
        if v2.kind ≠ "skipped" && !same v v2 then
          s!"fail execute-not-fresh a second execute on the same object ends differently: first={v.kind} {v.ctor} again={v2.kind} {v2.ctor}"
        else if !stabRefuses && !same v s then
          let i := if v.kind = "ok" then s.at_ else if s.kind = "ok" then v.at_ else min v.at_ s.at_
          s!"fail {execTag "reps-diverge" circ shots i} vector={v.kind} {v.ctor} stabilizer={s.kind} {s.ctor}"
        else if !stabRefuses && !(!isClifford circ && rs.kind = "err" && rs.ctor = "notAStabilizer") &&
            rv.kind ≠ "skipped" && rs.kind ≠ "skipped" && !same rv rs then
          let i := if rv.kind = "ok" then rs.at_ else if rs.kind = "ok" then rv.at_ else min rv.at_ rs.at_
          s!"fail {execTag "reps-diverge" circ shots i true} reexecute vector={rv.kind} {rv.ctor} stabilizer={rs.kind} {rs.ctor}"
        else
          -- accepted by both although malformed: silently simulated
          if v.kind = "ok" && s.kind = "ok" then
            match firstTag (circDefects circ) (fun d => d == .arity || d == .dupQubits || d == .measureAllLen) with
            | some t => s!"fail silently-accepted:{t} both representations ran a circuit with a malformed operand list"
            | none => "ok"
          else "ok"
    | _, _, _, _, _ => "fail bad-request pair"
  | _ => "fail bad-request pair"

def specCheck (line : String) : String :=
  match line.splitOn "\t" with
  | [req, impl0] =>
    let impl := impl0.trimAscii.toString
    let fs := fields req
    match fs with
    | ("cover" :: _) :: _ => if impl = "ok" then "ok" else "fail cover"
    | ["qs"] :: _ => "skip"
    | ("qpair" :: sz) :: call :: rest => specQPair ("qpair" :: sz) call rest
    | sizes :: calls :: rest =>
      match parseHead sizes calls with
      | none => "fail bad-request"
      | some (nq, nc, cs) =>
        let (circ, expected) := buildRef nq nc cs
        match sizes.head? with
        | some "build" =>
          let parts := impl.splitOn " | nops "
          let got := splitSemis (parts.headD "")
          if parts.length ≠ 2 || (parts.getD 1 "").trimAscii.toString ≠ toString circ.ops.length then
            s!"fail builder-wrong-ops expected {circ.ops.length} operations"
          else if got.any (·.startsWith "panic") then "fail builder-panic a building call panicked"
          else if got.any (fun g => g.endsWith "CHANGED") then "fail builder-not-atomic a failed call changed the circuit"
          else if got ≠ expected then s!"fail builder-wrong-result expected {" ; ".intercalate expected}"
          else "ok"
        | some "oq" | some "cq" | some "latex" =>
          if impl = "panic" then s!"fail {exportTag (sizes.headD "") circ} the exporter panics"
          else "ok"
        | some "macro" =>
          -- the first error of any call, and nothing evaluated after it
          let idx := expected.findIdx? (· ≠ "ok")
          let want := match idx with
            | none => s!"ok evaluated {evaluated cs cs.length}"
            | some j => s!"{((expected.getD j "").splitOn " unchanged").headD ""} evaluated {evaluated cs (j + 1)}"
          if impl = want then "ok"
          else
            let m := match idx with | some j => (cs[j]?.map Call.name).getD "?" | none => "?"
            s!"fail macro-error-dropped:{m} expected {want}"
        | some "pair" => specPair circ rest
        | some "step" => "skip"
        | _ => "fail bad-request"
    | _ => "fail bad-request"
  | _ => "fail bad-line"

end C18

def main (args : List String) : IO Unit :=
  match args with
  | ["spec"] => serve C18.specCheck
  | _ => serve C18.handle

import Driver.SimParse
import Q1t.Spec.Born
/-!
Driver for the simulator spine (C02, also used by C01/C09/C10).
* model mode: `step | <op> | <pre snapshot> | <pre register> | <draws>` → the model executes the single
  operation from the implementation's pre-state with the implementation's recorded draws (checking that
  each draw node requests the distribution the implementation logged) → `ok | <post snapshot> | <post register>`.
* spec mode: `shot | <nq> | <op> ; <op> ; … | <word after each op> | <final state of the shot>`
  → forced replay with the reference semantics: the recorded outcomes must have non-zero probability and
  the implementation's state must equal the replayed state up to a global phase and have unit norm.
-/
namespace Q1t.SimStep
open Q1t Q1t.Sim Q1t.Proto Q1t.GateParse Q1t.SimParse Q1t.CFloat

def showFail : Fail → String
  | .err e => showSimErr e
  | .panic _ => "panic"

def handleStep (fs : List (List String)) : String :=
  match fs with
  | [_, opToks, snap, reg, draws] =>
    match parseOp opToks, nats? reg, parseDraws draws with
    | some op, some reg, some ds =>
      match parseVecSnapshot reg.length snap with
      | some st =>
        match runChecked (execOp (vecBackend (α := CFloat) (P := Float)) st reg op) ds with
        | .error msg => s!"draw-mismatch {msg}"
        | .ok (.error f, _) => showFail f
        | .ok (.ok (st', reg'), rest) =>
          if !rest.isEmpty then "draw-mismatch impl-made-more-draws-than-model"
          else s!"ok | {showVecSnapshot st'} | {joinNats reg'}"
      | none => "unsupported-snapshot"
    | _, _, _ => "bad-op"
  | _ => "bad-op"

def handle (line : String) : String :=
  let fs := fields line
  match fs.head? with
  | some ["step"] => handleStep fs
  | some ["shot"] => "ok"
  | _ => "bad-op"

def vnormSq (v : List CFloat) : Float := v.foldl (fun a c => a + CFloat.normSq c) 0.0
def inner (a b : List CFloat) : CFloat :=
  (List.zipWith (fun x y => (⟨x.re, -x.im⟩ : CFloat) * y) a b).foldl (· + ·) 0

/-- split the op field at `;` -/
def splitOps (ws : List String) : List (List String) :=
  let rec go (acc : List String) (out : List (List String)) : List String → List (List String)
    | [] => (acc.reverse :: out).reverse
    | w :: rest => if w = ";" then go [] (acc.reverse :: out) rest else go (w :: acc) out rest
  (go [] [] ws).filter (· ≠ [])

def specShot (fs : List (List String)) : String :=
  match fs with
  | [_, [nq], opsF, wordsF, stateF] =>
    match nq.toNat?, (splitOps opsF).mapM parseOp, nats? wordsF, parseVec stateF with
    | some n, some ops, some outs, some φ =>
      let ψ0 : List CFloat := (List.range (2 ^ n)).map fun i => if i = 0 then 1 else 0
      let nonzero := fun (v : List CFloat) => vnormSq v > 1e-18
      let cands := Spec.replay (P := Float) n nonzero ops outs [(ψ0, 0)]
      let nφ := vnormSq φ
      if Float.abs (nφ - 1.0) > 1e-9 then s!"fail state-not-normalised norm2={nφ}"
      else if cands.isEmpty then "fail recorded-outcomes-have-probability-zero"
      else
        -- equal up to a global phase: |<ψ|φ>|² = ‖ψ‖²‖φ‖²
        let good := cands.any fun (ψ, _) =>
          let ip := CFloat.normSq (inner ψ φ)
          Float.abs (ip - vnormSq ψ * nφ) ≤ 1e-9 * (vnormSq ψ + 1e-300) + 1e-12 * 0.0 + 1e-9 * vnormSq ψ
        if good then "ok" else "fail state-differs-from-exact-conditional-state"
    | _, _, _, _ => "fail bad-request"
  | _ => "fail bad-request"

def specCheck (line : String) : String :=
  match line.splitOn "\t" with
  | [req, _] =>
    let fs := fields req
    match fs.head? with
    | some ["shot"] => specShot fs
    | _ => "skip"
  | _ => "fail bad-line"


end Q1t.SimStep

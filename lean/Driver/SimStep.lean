import Driver.SimParse
import Q1t.Spec.Born
import Q1t.Model.StabSim
import Q1t.Model.Conj
import Q1t.Gen.Conj
import Q1t.Gen.PhaseTable
/-!
Driver for the simulator spine (C02, also used by C01/C09/C10).
* model mode: `step | <op> | <pre snapshot> | <pre register> | <draws>` → the model executes the single
  operation from the implementation's pre-state with the implementation's recorded draws (checking that
  each draw node requests the distribution the implementation logged) → `ok | <post snapshot> | <post register>`.
* spec mode: `shot | <nq> | <op> ; <op> ; … | <word after each op> | <final state of the shot>`
  → forced replay with the reference semantics: the recorded outcomes must have non-zero probability and
  the implementation's state must equal the replayed state up to a global phase and have unit norm.
-/
namespace Q1t.SimStep
open Q1t Q1t.Sim Q1t.Proto Q1t.GateParse Q1t.SimParse Q1t.CFloat

def showFail : Fail → String
  | .err e => showSimErr e
  | .panic _ => "panic"

/-! ### conjugation rule of a gate term (driver-side; mirrors kron.rs / composite.rs / staticloop.rs) -/

open Q1t.Tableau in
def primName : GateTerm Float → Option String
  | .H => some "H" | .X => some "X" | .Y => some "Y" | .Z => some "Z" | .S => some "S" | .Sdg => some "Sdg"
  | .T => some "T" | .Tdg => some "Tdg" | .V => some "V" | .Vdg => some "Vdg" | .I => some "I"
  | .RX _ => some "RX" | .RY _ => some "RY" | .RZ _ => some "RZ" | .U1 _ => some "U1" | .U2 _ _ => some "U2"
  | .U3 _ _ _ => some "U3" | .CX => some "CX" | .CY => some "CY" | .CZ => some "CZ" | .Swap => some "Swap"
  | _ => none

mutual
partial def conjOfTerm (g : GateTerm Float) : Q1t.Tableau.Tab.Conj := fun ops =>
  match g with
  | .C _ => .error .notAStabilizer
  | .Kron g0 g1 =>
      let n := Gate.nrBits g0 + Gate.nrBits g1
      if ops.length ≠ n then .error (.invalidNrBits ops.length n) else
      let n0 := Gate.nrBits g0
      match conjOfTerm g0 (ops.take n0) with
      | .error e => .error e
      | .ok (f0, o0) =>
        match conjOfTerm g1 (ops.drop n0) with
        | .error e => .error e
        | .ok (f1, o1) => .ok (f0 != f1, o0 ++ o1)
  | .Composite _ n body =>
      if ops.length ≠ n then .error (.invalidNrBits ops.length n) else conjOps body ops false
  | .Loop _ iters _ n body =>
      if ops.length ≠ n then .error (.invalidNrBits ops.length n) else
      -- `if !self.is_stabilizer() { return Err(NotAStabilizer) }` (also with zero iterations)
      if !Q1t.Conj.allStabT Q1t.Gen.conjTable body then .error .notAStabilizer else
      (List.range iters).foldl (fun acc _ =>
        match acc with
        | .error e => .error e
        | .ok (f, o) => match conjOps body o false with
          | .error e => .error e
          | .ok (f', o') => .ok (f != f', o')) (.ok (false, ops))
  | prim =>
      match primName prim with
      | some name => Q1t.Tableau.conjOf Q1t.Gen.conjTable Q1t.Gen.conjNoArityCheck name ops
      | none => .error .notAStabilizer

partial def conjOps : OpList Float → List Q1t.Tableau.P → Bool → Except Q1t.Tableau.GErr (Bool × List Q1t.Tableau.P)
  | .nil, ops, f => .ok (f, ops)
  | .cons g bits rest, ops, f =>
      let gateOps := bits.map fun b => ops.getD b .I
      match conjOfTerm g gateOps with
      | .error e => .error e
      | .ok (f', out) =>
        let ops' := (bits.zip out).foldl (fun acc (b, p) => acc.set b p) ops
        conjOps rest ops' (f != f')
end

/-- `S <n> <K> <counts…> <tableau texts, rows joined by ','>` -/
def parseStabSnapshot (nshots : Nat) : List String → Option StabState
  | "S" :: n :: k :: rest => do
      let n ← n.toNat?
      let k ← k.toNat?
      let (counts, r) ← takeNats k rest
      if r.length ≠ k then none
      let tabs ← r.mapM fun txt => Q1t.Tableau.Tab.ofLines (if txt = "-" then [] else txt.splitOn ",")
      pure { nrBits := n, nrShots := nshots, counts := counts, tabs := tabs }
  | _ => none

def showStabSnapshot (s : StabState) : String :=
  s!"S {s.nrBits} {s.counts.length} {joinNats s.counts}" ++
    String.join (s.tabs.map fun t => " " ++ (if t.n = 0 then "-" else (Q1t.Tableau.Tab.display t).replace "\n" ","))

def stabB : Backend CFloat Float StabState :=
  stabBackend (⟨0.5, 0.0⟩ : CFloat) Q1t.Gen.phaseTable conjOfTerm

def handleStep (fs : List (List String)) : String :=
  match fs with
  | [_, opToks, snap, reg, draws] =>
    match parseOp opToks, nats? reg, parseDraws draws with
    | some op, some reg, some ds =>
      match parseVecSnapshot reg.length snap with
      | some st =>
        match runChecked (execOp (vecBackend (α := CFloat) (P := Float)) st reg op) ds with
        | .error msg => s!"draw-mismatch {msg}"
        | .ok (.error f, _) => showFail f
        | .ok (.ok (st', reg'), rest) =>
          if !rest.isEmpty then "draw-mismatch impl-made-more-draws-than-model"
          else s!"ok | {showVecSnapshot st'} | {joinNats reg'}"
      | none =>
        match parseStabSnapshot reg.length snap with
        | some st =>
          match runChecked (execOp stabB st reg op) ds with
          | .error msg => s!"draw-mismatch {msg}"
          | .ok (.error f, _) => showFail f
          | .ok (.ok (st', reg'), rest) =>
            if !rest.isEmpty then "draw-mismatch impl-made-more-draws-than-model"
            else s!"ok | {showStabSnapshot st'} | {joinNats reg'}"
        | none => "unsupported-snapshot"
    | _, _, _ => "bad-op"
  | _ => "bad-op"

def handle (line : String) : String :=
  let fs := fields line
  match fs.head? with
  | some ["step"] => handleStep fs
  | some ["shot"] => "ok"
  | _ => "bad-op"

def vnormSq (v : List CFloat) : Float := v.foldl (fun a c => a + CFloat.normSq c) 0.0
def inner (a b : List CFloat) : CFloat :=
  (List.zipWith (fun x y => (⟨x.re, -x.im⟩ : CFloat) * y) a b).foldl (· + ·) 0

/-- split the op field at `;` -/
def splitOps (ws : List String) : List (List String) :=
  let rec go (acc : List String) (out : List (List String)) : List String → List (List String)
    | [] => (acc.reverse :: out).reverse
    | w :: rest => if w = ";" then go [] (acc.reverse :: out) rest else go (w :: acc) out rest
  (go [] [] ws).filter (· ≠ [])

/-- forced replay, reporting the index of the first operation at which no candidate survives -/
def replayTraced (n : Nat) (nonzero : List CFloat → Bool) :
    List (COp Float) → List Nat → Nat → List (List CFloat × Nat) → Except Nat (List (List CFloat × Nat))
  | [], _, _, cands => .ok cands
  | _ :: _, [], j, _ => .error j
  | op :: ops, w' :: outs, j, cands =>
      let next := (cands.flatMap fun (ψ, w) => Spec.replayOp (P := Float) n nonzero op ψ w w').filter fun c => nonzero c.1
      if next.isEmpty then .error j else replayTraced n nonzero ops outs (j + 1) next

def opKind : COp Float → String
  | .gate _ _ => "gate" | .cond _ _ _ _ => "cond" | .reset _ => "reset" | .resetAll => "resetall"
  | .measure _ _ _ => "measure" | .measureAll _ _ => "measureall" | .peek _ _ _ => "peek"
  | .peekAll _ _ => "peekall" | .barrier _ => "barrier"

/-- the signed Pauli row `±P` applied to a float vector (qubit 0 = most significant index bit) -/
def actRow (n : Nat) (sign : Bool) (row : List Q1t.Tableau.P) (ψ : List CFloat) : List CFloat :=
  let arr := ψ.toArray
  (List.range (2 ^ n)).map fun i =>
    -- (Pψ)[i] = Σ_j P[i][j] ψ[j]; P is a signed permutation-with-phase matrix: j = i with X/Y bits flipped
    let (j, ph) := row.zipIdx.foldl (fun (acc : Nat × CFloat) (p, q) =>
      let (j, ph) := acc
      let bit := (i >>> (n - 1 - q)) % 2
      match p with
      | .I => (j, ph)
      | .Z => (j, if bit = 1 then -ph else ph)
      | .X => (j ^^^ (1 <<< (n - 1 - q)), ph)
      -- Y = [[0,-i],[i,0]]: row bit 0 picks -i * (col 1), row bit 1 picks +i * (col 0)
      | .Y => (j ^^^ (1 <<< (n - 1 - q)), ph * (if bit = 0 then ⟨0.0, -1.0⟩ else ⟨0.0, 1.0⟩))) (i, (1 : CFloat))
    let v := ph * arr.getD j 0
    if sign then -v else v

def vdist2 (a b : List CFloat) : Float := (List.zipWith (fun x y => CFloat.normSq (x - y)) a b).foldl (· + ·) 0.0

def stabilizesF (t : Q1t.Tableau.Tab) (ψ : List CFloat) : Bool :=
  (List.zipWith (fun s r => decide (vdist2 (actRow t.n s r ψ) ψ ≤ 1e-9 * vnormSq ψ)) t.signs t.rows).all id

def specShot (fs : List (List String)) : String :=
  match fs with
  | [_, [nq], opsF, wordsF, stateF] =>
    match nq.toNat?, (splitOps opsF).mapM parseOp, nats? wordsF with
    | some n, some ops, some outs =>
      let ψ0 : List CFloat := (List.range (2 ^ n)).map fun i => if i = 0 then 1 else 0
      let nonzero := fun (v : List CFloat) => vnormSq v > 1e-18
      let isTab := stateF.head? == some "T"
      match replayTraced n nonzero ops outs 0 [(ψ0, 0)] with
      | .error j =>
        let k := (ops.getD j (.barrier [])) |> opKind
        s!"fail {if isTab then "stab" else "vec"}-{k}-impossible-value recorded-outcomes-have-probability-zero at op {j}"
      | .ok cands =>
        if isTab then
          match Q1t.Tableau.Tab.ofLines (match stateF with | [_, txt] => (if txt = "-" then [] else txt.splitOn ",") | _ => []) with
          | none => "fail bad-request tableau"
          | some t =>
            if cands.any fun (ψ, _) => stabilizesF t ψ then "ok"
            else "fail stab-state-differs tableau-does-not-stabilize-the-exact-conditional-state"
        else
        match parseVec stateF with
        | none => "fail bad-request"
        | some φ =>
          let nφ := vnormSq φ
          if Float.abs (nφ - 1.0) > 1e-9 then s!"fail state-not-normalised norm2={nφ}"
          else
            -- equal up to a global phase: |<ψ|φ>|² = ‖ψ‖²‖φ‖²
            let good := cands.any fun (ψ, _) =>
              let ip := CFloat.normSq (inner ψ φ)
              Float.abs (ip - vnormSq ψ * nφ) ≤ 2e-9 * vnormSq ψ
            if good then "ok" else "fail vec-state-differs state-differs-from-exact-conditional-state"
    | _, _, _ => "fail bad-request"
  | _ => "fail bad-request"

def specCheck (line : String) : String :=
  match line.splitOn "\t" with
  | [req, _] =>
    let fs := fields req
    match fs.head? with
    | some ["shot"] => specShot fs
    | _ => "skip"
  | _ => "fail bad-line"


end Q1t.SimStep

import Q1t.Base.Proto
import Q1t.Base.CFloat
import Q1t.Model.Gate
/-! Parser for the prefix gate-term grammar shared with `harness/src/gate.rs` (driver side only). -/
namespace Q1t.GateParse
open Q1t Q1t.CFloat

abbrev G := GateTerm Float

def hexF (s : String) : Option Float := hexToFloat? s

/-! ### user-defined gates of the harness (`Inc2`, `Inc3`, `Inc4`, `Mix a`)

On the Rust side these are structs that only provide `matrix()` (so every `apply*` route is the trait's default).
Their meaning here is the unitary itself, written as a composite of library gates with the same matrix
(first operand = most significant bit of `k`):
* cyclic increment `|k⟩ ↦ |k+1 mod 2^n⟩`: flip bit j when all less significant bits are 1, most significant first;
* `Mix a = [[1,0,0,0],[0,cos a,-sin a,0],[0,sin a,cos a,0],[0,0,0,1]] = CX(1→0) · C-RY(-2a)(0→1) · CX(1→0)`. -/
def userInc2 : G := .Composite "Inc2" 2 (.cons .CX [1, 0] (.cons .X [1] .nil))
def userInc3 : G := .Composite "Inc3" 3 (.cons (.C .CX) [1, 2, 0] (.cons .CX [2, 1] (.cons .X [2] .nil)))
def userInc4 : G := .Composite "Inc4" 4
  (.cons (.C (.C .CX)) [1, 2, 3, 0] (.cons (.C .CX) [2, 3, 1] (.cons .CX [3, 2] (.cons .X [3] .nil))))
def userMix (a : Float) : G :=
  .Composite "Mix" 2 (.cons .CX [1, 0] (.cons (.C (.RY (-2.0 * a))) [0, 1] (.cons .CX [1, 0] .nil)))

mutual
partial def parseGate : List String → Option (G × List String)
  | [] => none
  | tok :: rest =>
    let p1 (f : Float → G) : Option (G × List String) :=
      match rest with
      | a :: r => (hexF a).map fun x => (f x, r)
      | _ => none
    let p2 (f : Float → Float → G) : Option (G × List String) :=
      match rest with
      | a :: b :: r => do let x ← hexF a; let y ← hexF b; pure (f x y, r)
      | _ => none
    let p3 (f : Float → Float → Float → G) : Option (G × List String) :=
      match rest with
      | a :: b :: c :: r => do let x ← hexF a; let y ← hexF b; let z ← hexF c; pure (f x y z, r)
      | _ => none
    match tok with
    | "H" => some (.H, rest) | "X" => some (.X, rest) | "Y" => some (.Y, rest) | "Z" => some (.Z, rest)
    | "S" => some (.S, rest) | "Sdg" => some (.Sdg, rest) | "T" => some (.T, rest) | "Tdg" => some (.Tdg, rest)
    | "V" => some (.V, rest) | "Vdg" => some (.Vdg, rest) | "I" => some (.I, rest)
    | "CX" => some (.CX, rest) | "CY" => some (.CY, rest) | "CZ" => some (.CZ, rest) | "Swap" => some (.Swap, rest)
    | "RX" => p1 .RX | "RY" => p1 .RY | "RZ" => p1 .RZ | "U1" => p1 .U1 | "U2" => p2 .U2 | "U3" => p3 .U3
    | "CH" => some (.C .H, rest) | "CS" => some (.C .S, rest) | "CSdg" => some (.C .Sdg, rest)
    | "CT" => some (.C .T, rest) | "CTdg" => some (.C .Tdg, rest)
    | "CV" => some (.C .V, rest) | "CVdg" => some (.C .Vdg, rest)
    | "CCX" => some (.C .CX, rest) | "CCZ" => some (.C .CZ, rest)
    | "CRX" => p1 (fun x => .C (.RX x)) | "CRY" => p1 (fun x => .C (.RY x)) | "CRZ" => p1 (fun x => .C (.RZ x))
    | "CU1" => p1 (fun x => .C (.U1 x)) | "CU2" => p2 (fun x y => .C (.U2 x y))
    | "CU3" => p3 (fun x y z => .C (.U3 x y z))
    | "CCRX" => p1 (fun x => .C (.C (.RX x))) | "CCRY" => p1 (fun x => .C (.C (.RY x)))
    | "CCRZ" => p1 (fun x => .C (.C (.RZ x)))
    | "Inc2" => some (userInc2, rest) | "Inc3" => some (userInc3, rest) | "Inc4" => some (userInc4, rest)
    | "Mix" => p1 userMix
    | "C" => (parseGate rest).map fun (g, r) => (.C g, r)
    | "Kron" => do
        let (g0, r0) ← parseGate rest
        let (g1, r1) ← parseGate r0
        pure (.Kron g0 g1, r1)
    | "Comp" =>
      match rest with
      | name :: nb :: k :: r => do
          let nb ← nb.toNat?; let k ← k.toNat?
          let (ops, r') ← parseOps k r
          pure (.Composite name nb ops, r')
      | _ => none
    | "Loop" =>
      match rest with
      | label :: iters :: name :: nb :: k :: r => do
          let iters ← iters.toNat?; let nb ← nb.toNat?; let k ← k.toNat?
          let (ops, r') ← parseOps k r
          pure (.Loop label iters name nb ops, r')
      | _ => none
    | _ => none

partial def parseOps : Nat → List String → Option (OpList Float × List String)
  | 0, r => some (.nil, r)
  | k + 1, r => do
      let (g, r1) ← parseGate r
      match r1 with
      | m :: r2 => do
          let m ← m.toNat?
          let bits ← Proto.nats? (r2.take m)
          if bits.length ≠ m then none
          let (rest, r3) ← parseOps k (r2.drop m)
          pure (.cons g bits rest, r3)
      | _ => none
end

def showC (c : CFloat) : String := floatToHex c.re ++ " " ++ floatToHex c.im
def showVec (v : List CFloat) : String := " ".intercalate (v.map showC)
def showMat (m : LMat CFloat) : String :=
  s!"{m.length} " ++ " ".intercalate (m.map showVec)

/-- parse `re im re im …` hex pairs -/
def parseVec : List String → Option (List CFloat)
  | [] => some []
  | a :: b :: r => do
      let x ← hexF a; let y ← hexF b
      let rest ← parseVec r
      pure (⟨x, y⟩ :: rest)
  | _ => none

end Q1t.GateParse

import Driver.GateParse
import Q1t.Model.GateCond
import Q1t.Spec.Place
/-!
Driver for C04 (application routes).  Request lines (see harness/src/bin/c04.rs):
`<kind> <nats…> | <term> | <hex data>`; `vscond` has two more sections; `bitperm n bits…`.
-/
open Q1t Q1t.Proto Q1t.GateParse Q1t.CFloat

abbrev CF := CFloat

def unflat (rows cols : Nat) (d : List CF) : List (List CF) :=
  (List.range rows).map fun r => (d.drop (r * cols)).take cols

def okVec : Option (List CF) → String
  | some v => "ok " ++ showVec v
  | none => "panic"

def okMat : Option (List (List CF)) → String
  | some m => "ok " ++ showVec m.flatten
  | none => "panic"

/-- column-major data (`cols` columns of `rows` entries) as a list of rows -/
def colsToRows (rows : Nat) (colsL : List (List CF)) : List (List CF) :=
  (List.range rows).map fun r => colsL.map fun c => c.getD r 0

/-- a list of rows, shown column by column -/
def showCols (cols : Nat) (m : List (List CF)) : String :=
  showVec ((List.range cols).flatMap fun c => m.map fun row => row.getD c 0)

/-- `apply_unary_gate_all`: `apply_gate` on every qubit in turn -/
def unaryAll (n : Nat) (g : G) (rows : List (List CF)) : Except (Nat × Nat) (Option (List (List CF))) :=
  (List.range n).foldl (fun acc bit =>
    match acc with
    | .ok (some m) => Gate.applyAll (α := CF) n m g [bit]
    | other => other) (.ok (some rows))

def parseMask (ws : List String) : Option (List Bool) :=
  ws.mapM fun w => if w = "1" then some true else if w = "0" then some false else none

structure Req where
  kind : String
  hdr : List Nat
  g : G
  data : List CF

def parseReq (secs : List (List String)) : Option Req :=
  match secs with
  | [kind :: hdr, term, data] => do
      let hdr ← nats? hdr
      let (g, rest) ← parseGate term
      if rest ≠ [] then none
      let data ← parseVec data
      -- `kind@layout`: the memory layout the harness used is carried for replays only
      pure ⟨(kind.splitOn "@").headD kind, hdr, g, data⟩
  | _ => none

def handle (line : String) : String :=
  let ws := words line
  match ws with
  | "bitperm" :: rest =>
    match nats? rest with
    | some (n :: bits) =>
      (match Gate.bitPermutation n bits with | some p => "ok " ++ joinNats p | none => "panic")
    | _ => "bad-op"
  | "vscond" :: _ =>
    match splitBars ws with
    | [_ :: hdr, counts, mask, term, data] =>
      match nats? hdr, nats? counts, parseMask mask, parseGate term, parseVec data with
      | some (n :: shots :: bits), some counts, some mask, some (g, []), some data =>
        let cols := unflat counts.length (2 ^ n) data
        match Gate.applyConditional (α := CF) n shots counts cols mask g bits with
        | .ok cs st => s!"ok {joinNats cs} | {showVec st.flatten}"
        | .errNrControl a b => s!"err nrcontrol {a} {b}"
        | .errNrBits a b => s!"err nrbits {a} {b}"
        | .panic => "panic"
      | _, _, _, _, _ => "bad-op"
    | _ => "bad-op"
  | _ =>
    match parseReq (splitBars ws) with
    | none => "bad-op"
    | some ⟨kind, hdr, g, data⟩ =>
      match kind, hdr with
      | "matrix", [] =>
        let m : LMat CF := Gate.matrix g
        if m.isEmpty then "panic" else "ok " ++ showMat m
      | "apply", [_, _] | "applyslice", [_, _] => okVec (Gate.route (α := CF) .vec g data)
      | "applymat", [rows, cols] | "applymatslice", [rows, cols] =>
        okMat (Gate.route (α := CF) .mat g (unflat rows cols data))
      | "gslice", n :: _ :: bits => okVec (Gate.applyGateSlice (α := CF) .vec g bits n data)
      | "gmatslice", n :: cols :: bits =>
        okMat (Gate.applyGateSlice (α := CF) .mat g bits n (unflat (data.length / cols) cols data))
      | "vsapply", n :: _ :: bits =>
        match Gate.applyAll (α := CF) n (data.map ([·])) g bits with
        | .error (a, b) => s!"err nrbits {a} {b}"
        | .ok r => okMat r
      | "vsapplym", n :: cols :: bits =>
        match Gate.applyAll (α := CF) n (colsToRows (2 ^ n) (unflat cols (2 ^ n) data)) g bits with
        | .error (a, b) => s!"err nrbits {a} {b}"
        | .ok (some m) => "ok " ++ showCols cols m
        | .ok none => "panic"
      | "vsunarym", [n, cols] =>
        match unaryAll n g (colsToRows (2 ^ n) (unflat cols (2 ^ n) data)) with
        | .error (a, b) => s!"err nrbits {a} {b}"
        | .ok (some m) => "ok " ++ showCols cols m
        | .ok none => "panic"
      | _, _ => "bad-op"

/-! ### (B): the property evaluated on the implementation's answer -/

def maxDist (a b : List CF) : Float :=
  if a.length ≠ b.length then 1e9 else (List.zipWith CFloat.dist a b).foldl max 0

def log2? (x : Nat) : Option Nat :=
  let k := Nat.log2 x
  if x ≠ 0 ∧ 2 ^ k = x then some k else none

def column (m : List (List CF)) (c : Nat) : List CF := m.map fun row => row.getD c 0

/-- `embed n bits M` applied to every column -/
def embedApply (n : Nat) (bits : List Nat) (M : LMat CF) (rows : List (List CF)) (cols : Nat) :
    List (List CF) :=
  let E := Spec.embed n bits M
  let outCols := (List.range cols).map fun c => LMat.mulVec E (column rows c)
  (List.range rows.length).map fun r => outCols.map fun col => col.getD r 0

def tol : Float := 1e-9

def verdict (cls : String) (d : Float) : String :=
  if d ≤ tol then "ok" else s!"fail {cls} dist={d}"

/-- leading-qubit routes: `(M ⊗ I_t)·v`, as `embed N [0..k-1] M` when the state is a register -/
def specLeading (cls : String) (g : G) (rows cols : Nat) (data : List CF) (ans : List String) : String :=
  let k := Gate.nrBits g
  let M : LMat CF := Gate.matrix g
  let valid := rows % 2 ^ k = 0 ∧ rows ≠ 0 ∧ data.length = rows * cols
  match ans with
  | "ok" :: out =>
    if ¬ valid then "skip" else
    match parseVec out with
    | none => "fail bad-answer"
    | some out =>
      let inRows := unflat rows cols data
      let expect : List (List CF) :=
        match log2? rows with
        | some N => embedApply N (List.range k) M inRows cols
        | none =>
          let outCols : List (List CF) := (List.range cols).map fun c => Spec.blockMul .vec 1 M (rows / 2 ^ k) (column inRows c)
          (List.range rows).map fun r => outCols.map fun (col : List CF) => col.getD r 0
      verdict cls (maxDist out expect.flatten)
  | _ => if valid ∧ (log2? rows).isSome then s!"fail {cls}-panic valid request did not return" else "skip"

def specPlaced (cls : String) (g : G) (n : Nat) (bits : List Nat) (cols : Nat) (data : List CF)
    (ans : List String) : String :=
  let M : LMat CF := Gate.matrix g
  let valid := Spec.validBits n bits ∧ bits.length = Gate.nrBits g ∧ data.length = 2 ^ n * cols
  match ans with
  | "ok" :: out =>
    if ¬ valid then "skip" else
    match parseVec out with
    | none => "fail bad-answer"
    | some out => verdict cls (maxDist out (embedApply n bits M (unflat (2 ^ n) cols data) cols).flatten)
  | _ => if valid then s!"fail {cls}-panic valid request did not return" else "skip"

/-- `apply_gate` / `apply_unary_gate_all` on a state of many columns: every column is multiplied by the embedded
matrix (for each placement in `placements`, in order) -/
def specMulti (cls : String) (g : G) (n cols : Nat) (placements : List (List Nat)) (data : List CF)
    (ans : List String) : String :=
  let M : LMat CF := Gate.matrix g
  let valid := placements.all (fun bits => Spec.validBits n bits && bits.length == Gate.nrBits g) ∧
    data.length = 2 ^ n * cols
  match ans with
  | "ok" :: out =>
    if ¬ valid then "skip" else
    match parseVec out with
    | none => "fail bad-answer"
    | some out =>
      let expect := (unflat cols (2 ^ n) data).map fun col =>
        placements.foldl (fun φ bits => LMat.mulVec (Spec.embed n bits M) φ) col
      verdict cls (maxDist out expect.flatten)
  | _ => if valid then s!"fail {cls}-panic valid request did not return" else "skip"

/-- expand `(count, state)` columns into one state per shot -/
def perShot (counts : List Nat) (cols : List (List CF)) : List (List CF) :=
  (List.zip counts cols).flatMap fun (c, s) => List.replicate c s

def specCond (n shots : Nat) (bits counts : List Nat) (mask : List Bool) (g : G) (data : List CF)
    (ans : List String) : String :=
  let M : LMat CF := Gate.matrix g
  let valid := Spec.validBits n bits ∧ bits.length = Gate.nrBits g ∧ mask.length = shots ∧
    counts.foldl (· + ·) 0 = shots ∧ data.length = 2 ^ n * counts.length
  if ¬ valid then "skip" else
  match splitBars ans with
  | [("ok" :: cs), out] =>
    match nats? cs, parseVec out with
    | some cs, some out =>
      let before := perShot counts (unflat counts.length (2 ^ n) data)
      let after := perShot cs (unflat cs.length (2 ^ n) out)
      let E := Spec.embed n bits M
      let expect := (List.zip mask before).map fun (b, s) => if b then LMat.mulVec E s else s
      if after.length ≠ shots then s!"fail cond-shot-count {after.length}"
      else verdict "cond-differs-from-embed" (maxDist after.flatten expect.flatten)
    | _, _ => "fail bad-answer"
  | _ => "fail cond-panic valid request did not return"

def specCheck (line : String) : String :=
  match line.splitOn "\t" with
  | [req, ans] =>
    let ws := words req
    let aw := words ans
    match ws with
    | "bitperm" :: rest =>
      match nats? rest with
      | some (n :: bits) =>
        if ¬ Spec.validBits n bits then "skip" else
        match aw with
        | "ok" :: p =>
          match nats? p with
          | some p =>
            -- gathering with `p` moves the listed qubits to the front: `p[gatherIndex i] = i`
            if p.length = 2 ^ n ∧ (List.range (2 ^ n)).all (fun i => p[Spec.gatherIndex n bits i]? = some i)
            then "ok" else "fail bitperm-not-gather"
          | none => "fail bad-answer"
        | _ => "fail bitperm-panic valid request did not return"
      | _ => "fail bad-request"
    | "vscond" :: _ =>
      match splitBars ws with
      | [_ :: hdr, counts, mask, term, data] =>
        match nats? hdr, nats? counts, parseMask mask, parseGate term, parseVec data with
        | some (n :: shots :: bits), some counts, some mask, some (g, []), some data =>
          specCond n shots bits counts mask g data aw
        | _, _, _, _, _ => "fail bad-request"
      | _ => "fail bad-request"
    | _ =>
      match parseReq (splitBars ws) with
      | none => "fail bad-request"
      | some ⟨kind, hdr, g, data⟩ =>
        match kind, hdr with
        | "matrix", [] => "skip"
        | "apply", [rows, cols] | "applyslice", [rows, cols] =>
          specLeading "lead-vec-route-differs-from-matrix" g rows cols data aw
        | "applymat", [rows, cols] | "applymatslice", [rows, cols] =>
          specLeading "lead-mat-route-differs-from-matrix" g rows cols data aw
        | "gslice", n :: cols :: bits => specPlaced "gate-slice-differs-from-embed" g n bits cols data aw
        | "gmatslice", n :: cols :: bits => specPlaced "gate-mat-slice-differs-from-embed" g n bits cols data aw
        | "vsapply", n :: cols :: bits =>
          if bits.length ≠ Gate.nrBits g then
            (if aw.take 2 = ["err", "nrbits"] then "ok" else "fail vsapply-arity-not-rejected")
          else specPlaced "vectorstate-apply-differs-from-embed" g n bits cols data aw
        | "vsapplym", n :: cols :: bits =>
          if bits.length ≠ Gate.nrBits g then
            (if aw.take 2 = ["err", "nrbits"] then "ok" else "fail vsapply-arity-not-rejected")
          else specMulti "vectorstate-apply-multi-differs-from-embed" g n cols [bits] data aw
        | "vsunarym", [n, cols] =>
          if Gate.nrBits g ≠ 1 then
            (if aw.take 2 = ["err", "nrbits"] then "ok" else "fail vsapply-arity-not-rejected")
          else specMulti "vectorstate-unary-all-differs-from-embed" g n cols ((List.range n).map ([·])) data aw
        | _, _ => "fail bad-request"
  | _ => "fail bad-line"

def main (args : List String) : IO Unit :=
  if args = ["spec"] then serve specCheck else serve handle

import Driver.SimStep
/-! Driver executable for C02 (see Driver/SimStep.lean).

Request lines that start with the tag `again ` come from a run that was NOT the first execution of its `Circuit`
object (the harness executed the same object before, with another seed and the same number of shots).  `execute*`
clears quantum and classical state, so the requirement on such a run is exactly that on a first run: the tag is
stripped and the line is answered like any other (`step`: the pre-state of the first operation is the fresh state with
a zero register; `shot`: forced replay from `|0…0⟩` and register 0). -/
open Q1t Q1t.Proto Q1t.SimStep

def untag (line : String) : String :=
  if line.startsWith "again " then (line.drop 6).toString else line

def main (args : List String) : IO Unit :=
  if args = ["spec"] then serve (specCheck ∘ untag) else serve (handle ∘ untag)

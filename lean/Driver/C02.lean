import Driver.SimStep
/-! Driver executable for C02 (see Driver/SimStep.lean). -/
open Q1t Q1t.Proto Q1t.SimStep

def main (args : List String) : IO Unit :=
  if args = ["spec"] then serve specCheck else serve handle

import Driver.GateParse
import Q1t.Spec.Unitaries
import Q1t.Model.Param
/-! Driver for C05 (gate matrices). Requests: `matrix <term>`, `nrbits <term>`. -/
open Q1t Q1t.Proto Q1t.GateParse Q1t.CFloat

def handle (line : String) : String :=
  match words line with
  | "matrixref" :: rest =>
    -- the gate's parameter is `Reference 0`; the cell currently holds the value on the request line
    match parseGate rest with
    | some (g, []) =>
      let store : Store Float := ⟨fun _ => g.params.headD 0.0, fun _ => 0.0⟩
      let m : LMat CFloat := Gate.matrixAt store (g.mapP fun _ => Param.reference 0)
      if m.isEmpty then "panic" else "ok " ++ showMat m
    | _ => "bad-op"
  | "matrixlive" :: _kinds :: rest =>
    -- parameters that were references / pointers hold, at evaluation time, the values on the request line
    match parseGate rest with
    | some (g, []) =>
      let m : LMat CFloat := Gate.matrix g
      if m.isEmpty then "panic" else "ok " ++ showMat m
    | _ => "bad-op"
  | "matrix" :: rest =>
    match parseGate rest with
    | some (g, []) =>
      let m : LMat CFloat := Gate.matrix g
      if m.isEmpty then "panic" else "ok " ++ showMat m
    | _ => "bad-op"
  | "nrbits" :: rest =>
    match parseGate rest with
    | some (g, []) => s!"ok {Gate.nrBits g}"
    | _ => "bad-op"
  | _ => "bad-op"

def maxDist (a b : LMat CFloat) : Float :=
  if a.length ≠ b.length then 1e9 else
  (List.zipWith (fun ra rb => if ra.length ≠ rb.length then 1e9 else
    (List.zipWith CFloat.dist ra rb).foldl max 0) a b).foldl max 0

def unflat (n : Nat) (v : List CFloat) : LMat CFloat :=
  (List.range n).map fun r => (v.drop (r * n)).take n

/-- (B): the implementation's matrix is the documented unitary, and is unitary. -/
def specCheck (line : String) : String :=
  match line.splitOn "\t" with
  | [req, ans] =>
    match words req, words ans with
    | kind :: rest, "ok" :: n :: ent =>
      if kind ≠ "matrix" ∧ kind ≠ "matrixref" ∧ kind ≠ "matrixlive" then "skip" else
      match parseGate (if kind = "matrixlive" then rest.drop 1 else rest), n.toNat?, parseVec ent with
      | some (g, []), some n, some v =>
        let m := unflat n v
        let ref : LMat CFloat := Spec.specMatrix g
        let d := maxDist m ref
        let u := maxDist (Spec.mulAdjoint (P := Float) m) (LMat.identity n)
        if d > 1e-9 then s!"fail matrix-differs-from-documented dist={d}"
        else if u > 1e-9 then s!"fail not-unitary dev={u}"
        else "ok"
      | _, _, _ => "fail bad-request"
    | "nrbits" :: _, _ => "skip"
    | _, _ => "fail matrix-call-did-not-return"
  | _ => "fail bad-line"

def main (args : List String) : IO Unit :=
  if args = ["spec"] then serve specCheck else serve handle

import Driver.GateParse
import Q1t.Spec.Unitaries
import Q1t.Model.Param
/-! Driver for C05 (gate matrices). Requests: `matrix <term>`, `nrbits <term>`, `matrixref`, `matrixlive`, and
`applymat <layout> <cols> <term> <entries>`: `Gate::apply_mat` on the logical `rows × cols` matrix whose row-major entries
follow the term, held by the harness in the memory layout `<layout>` (row-major, column-major, transposed copies, strided,
reversed, views); the answer `ok <rows> <cols> <entries>` does not depend on the layout: it is `(matrix() ⊗ 1)·M`. -/
open Q1t Q1t.Proto Q1t.GateParse Q1t.CFloat

def unflatRC (rows cols : Nat) (v : List CFloat) : LMat CFloat :=
  (List.range rows).map fun r => (v.drop (r * cols)).take cols

/-- `(U ⊗ 1_r)·M` for a `2^k × 2^k` matrix `U` and `M` with `r·2^k` rows (the gate acts on the leading qubits) -/
def leftApply (U : LMat CFloat) (M : LMat CFloat) : LMat CFloat :=
  let r := M.length / U.length
  LMat.mul (LMat.kron U (LMat.identity r)) M

/-- `applymat <layout> <cols> <term> <entries>` → (term, cols, logical matrix) -/
def parseApplyMat (ws : List String) : Option (G × Nat × LMat CFloat) :=
  match ws with
  | _layout :: cols :: rest => do
      let cols ← cols.toNat?
      let (g, ent) ← parseGate rest
      let v ← parseVec ent
      if cols = 0 ∨ v.length % cols ≠ 0 then none
      let rows := v.length / cols
      if rows % (2 ^ Gate.nrBits g) ≠ 0 ∨ rows = 0 then none
      pure (g, cols, unflatRC rows cols v)
  | _ => none

/-! `basis <route> <n> <index>* <term>`: a term made of basis-permuting gates (I, X, CX, Swap, C, Kron, Composite, Loop of
those) applied to basis states of an `n`-qubit register — plain bit manipulation (qubit 0 = most significant bit of an index;
the first listed operand = most significant bit of the sub-gate's own index). -/

/-- write the bits of the `bits.length`-bit number `sub` to the listed qubits of the `n`-bit index `idx` -/
def writeBits (n : Nat) (bits : List Nat) (sub idx : Nat) : Nat :=
  let k := bits.length
  bits.zipIdx.foldl (fun acc (q, pos) =>
    let b := (sub >>> (k - 1 - pos)) % 2
    let sh := n - 1 - q
    if b = 1 then acc ||| (1 <<< sh) else acc &&& ((2 ^ n - 1) ^^^ (1 <<< sh))) idx

mutual
/-- the basis state the term maps basis state `i` (of its own `nrBits` qubits) to -/
partial def permIdx : G → Nat → Option Nat
  | .I, i => some i
  | .X, i => some (i ^^^ 1)
  | .CX, i => some (if i / 2 = 1 then i ^^^ 1 else i)
  | .Swap, i => some ((i % 2) * 2 + i / 2)
  | .C g, i =>
      let d := 2 ^ Gate.nrBits g
      if i / d = 1 then (permIdx g (i % d)).map (· + d) else some i
  | .Kron a b, i => do
      let d := 2 ^ Gate.nrBits b
      let x ← permIdx a (i / d)
      let y ← permIdx b (i % d)
      pure (x * d + y)
  | .Composite _ n ops, i => permOps ops n i
  | .Loop _ iters _ n ops, i => (List.range iters).foldlM (fun acc _ => permOps ops n acc) i
  | _, _ => none
partial def permOps : OpList Float → Nat → Nat → Option Nat
  | .nil, _, i => some i
  | .cons g bits rest, n, i => do
      if bits.length ≠ Gate.nrBits g ∨ bits.any (· ≥ n) then none
      let sub' ← permIdx g (Spec.subIndex n bits i)
      permOps rest n (writeBits n bits sub' i)
end

/-- `<route> <n> <index>* <term>` → indices and term -/
def parseBasis (ws : List String) : Option (Nat × List Nat × G) :=
  match ws with
  | _route :: n :: rest => do
      let n ← n.toNat?
      let idx := rest.takeWhile (fun w => w.toNat?.isSome)
      let (g, r) ← parseGate (rest.dropWhile (fun w => w.toNat?.isSome))
      if r ≠ [] ∨ Gate.nrBits g ≠ n then none
      pure (n, idx.filterMap (·.toNat?), g)
  | _ => none

def basisAnswer (ws : List String) : String :=
  match parseBasis ws with
  | some (_, idx, g) =>
    match idx.mapM (permIdx g) with
    | some out => "ok " ++ joinNats out
    | none => "bad-op"
  | none => "bad-op"

def handle (line : String) : String :=
  match words line with
  | "basis" :: rest => basisAnswer rest
  | "applymat" :: rest =>
    match parseApplyMat rest with
    | some (g, cols, m) =>
      let u : LMat CFloat := Gate.matrix g
      if u.isEmpty then "panic" else
      s!"ok {m.length} {cols} " ++ showVec (leftApply u m).flatten
    | none => "bad-op"
  | "matrixref" :: rest =>
    -- the gate's parameter is `Reference 0`; the cell currently holds the value on the request line
    match parseGate rest with
    | some (g, []) =>
      let store : Store Float := ⟨fun _ => g.params.headD 0.0, fun _ => 0.0⟩
      let m : LMat CFloat := Gate.matrixAt store (g.mapP fun _ => Param.reference 0)
      if m.isEmpty then "panic" else "ok " ++ showMat m
    | _ => "bad-op"
  | "matrixlive" :: _kinds :: rest =>
    -- parameters that were references / pointers hold, at evaluation time, the values on the request line
    match parseGate rest with
    | some (g, []) =>
      let m : LMat CFloat := Gate.matrix g
      if m.isEmpty then "panic" else "ok " ++ showMat m
    | _ => "bad-op"
  | "matrix" :: rest =>
    match parseGate rest with
    | some (g, []) =>
      let m : LMat CFloat := Gate.matrix g
      if m.isEmpty then "panic" else "ok " ++ showMat m
    | _ => "bad-op"
  | "nrbits" :: rest =>
    match parseGate rest with
    | some (g, []) => s!"ok {Gate.nrBits g}"
    | _ => "bad-op"
  | _ => "bad-op"

def maxDist (a b : LMat CFloat) : Float :=
  if a.length ≠ b.length then 1e9 else
  (List.zipWith (fun ra rb => if ra.length ≠ rb.length then 1e9 else
    (List.zipWith CFloat.dist ra rb).foldl max 0) a b).foldl max 0

def unflat (n : Nat) (v : List CFloat) : LMat CFloat :=
  (List.range n).map fun r => (v.drop (r * n)).take n

/-- (B): the implementation's matrix is the documented unitary, and is unitary. -/
def specCheck (line : String) : String :=
  match line.splitOn "\t" with
  | [req, ans] =>
    match words req, words ans with
    | "basis" :: rest, got =>
      -- the reference IS the bit manipulation above (nothing of the matrix model is involved)
      let want := basisAnswer rest
      if want = "bad-op" then "fail bad-request"
      else if want = " ".intercalate got then "ok"
      else s!"fail basis-state-mapped-wrongly by apply on a {rest.getD 1 "?"}-qubit register: got {" ".intercalate got}, sub-gates on their local qubits give {want}"
    | "applymat" :: rest, "ok" :: rows :: cols :: ent =>
      match parseApplyMat rest, rows.toNat?, cols.toNat?, parseVec ent with
      | some (g, c, m), some rows, some cols, some v =>
        if rows ≠ m.length ∨ cols ≠ c ∨ v.length ≠ rows * cols then "fail apply-mat-shape-changed" else
        let ref := leftApply (Spec.specMatrix g) m
        let d := maxDist (unflatRC rows cols v) ref
        if d > 1e-9 then s!"fail apply-mat-differs-from-documented-unitary-times-matrix layout={rest.headD ""} dist={d}"
        else "ok"
      | _, _, _, _ => "fail bad-request"
    | "applymat" :: _, _ => "fail apply-mat-call-did-not-return"
    | kind :: rest, "ok" :: n :: ent =>
      if kind ≠ "matrix" ∧ kind ≠ "matrixref" ∧ kind ≠ "matrixlive" then "skip" else
      match parseGate (if kind = "matrixlive" then rest.drop 1 else rest), n.toNat?, parseVec ent with
      | some (g, []), some n, some v =>
        let m := unflat n v
        let ref : LMat CFloat := Spec.specMatrix g
        let d := maxDist m ref
        let u := maxDist (Spec.mulAdjoint (P := Float) m) (LMat.identity n)
        if d > 1e-9 then s!"fail matrix-differs-from-documented dist={d}"
        else if u > 1e-9 then s!"fail not-unitary dev={u}"
        else "ok"
      | _, _, _ => "fail bad-request"
    | "nrbits" :: _, _ => "skip"
    | _, _ => "fail matrix-call-did-not-return"
  | _ => "fail bad-line"

def main (args : List String) : IO Unit :=
  if args = ["spec"] then serve specCheck else serve handle

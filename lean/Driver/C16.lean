import Driver.GateParse
import Q1t.Model.Square
import Q1t.Spec.Square
/-!
Driver for C16 (`Square::square`).

Requests
* `square <term>` — every parameter is `Direct`;
* `squarep <mask> <term>` — the i-th parameter of the term (in order of occurrence) is `Direct`,
  `Reference` or `FFIRef` according to the i-th letter (`d`, `r`, `f`) of `<mask>`; the values on
  the line are what the cells hold when the matrices are taken (the harness squares the gate
  while the cells hold other values, then overwrites them).

Answers: `ok <n> <entries of square().matrix()> | <n> <entries of matrix()>`, or `err <Constructor>`.

* `sqact <mask> <term> | <ψ1> | <ψ2> | <Ψ>` — the same, plus what the returned gate DOES: `ψ1`, `ψ2` are vectors of `2^n`
  amplitudes, `Ψ` a `2^n × 3` matrix (row-major).  Answer: `ok <sq matrix> | <matrix> | <square().apply(ψ1)> |
  <square().apply_slice(ψ2)> | <square().apply_mat(Ψ)>`; the model's answer is the returned gate's matrix times the input.
-/
open Q1t Q1t.Proto Q1t.GateParse Q1t.CFloat

abbrev PG := GateTerm (Param Float)
instance : Inhabited PG := ⟨.I⟩
instance : Inhabited (OpList (Param Float)) := ⟨.nil⟩

def mk (mask : Array Char) (k : Nat) (x : Float) : Param Float :=
  match mask.getD k 'd' with
  | 'r' => .reference k
  | 'f' => .ffiRef k
  | _ => .direct x

mutual
/-- give the parameters their kinds from the mask, numbering the cells in order of occurrence -/
partial def label (mask : Array Char) (k : Nat) : GateTerm Float → PG × Nat
  | .H => (.H, k) | .X => (.X, k) | .Y => (.Y, k) | .Z => (.Z, k) | .S => (.S, k) | .Sdg => (.Sdg, k)
  | .T => (.T, k) | .Tdg => (.Tdg, k) | .V => (.V, k) | .Vdg => (.Vdg, k) | .I => (.I, k)
  | .CX => (.CX, k) | .CY => (.CY, k) | .CZ => (.CZ, k) | .Swap => (.Swap, k)
  | .RX x => (.RX (mk mask k x), k + 1) | .RY x => (.RY (mk mask k x), k + 1)
  | .RZ x => (.RZ (mk mask k x), k + 1) | .U1 x => (.U1 (mk mask k x), k + 1)
  | .U2 x y => (.U2 (mk mask k x) (mk mask (k + 1) y), k + 2)
  | .U3 x y z => (.U3 (mk mask k x) (mk mask (k + 1) y) (mk mask (k + 2) z), k + 3)
  | .C g => let (g', k') := label mask k g; (.C g', k')
  | .Kron g0 g1 =>
      let (a, k1) := label mask k g0
      let (b, k2) := label mask k1 g1
      (.Kron a b, k2)
  | .Composite nm n ops => let (ops', k') := labelOps mask k ops; (.Composite nm n ops', k')
  | .Loop l it nm n ops => let (ops', k') := labelOps mask k ops; (.Loop l it nm n ops', k')
partial def labelOps (mask : Array Char) (k : Nat) : OpList Float → OpList (Param Float) × Nat
  | .nil => (.nil, k)
  | .cons g bits rest =>
      let (g', k1) := label mask k g
      let (rest', k2) := labelOps mask k1 rest
      (.cons g' bits rest', k2)
end

/-- the request's term as a `Param` term plus the store holding the values on the line -/
def readReq (ws : List String) : Option (PG × Store Float) :=
  match ws with
  | "square" :: rest =>
    match parseGate rest with
    | some (g, []) => some (g.mapP .direct, ⟨fun _ => 0.0, fun _ => 0.0⟩)
    | _ => none
  | "squarep" :: mask :: rest =>
    match parseGate rest with
    | some (g, []) =>
      let vals := g.params.toArray
      some ((label mask.toList.toArray 0 g).1, ⟨fun k => vals.getD k 0.0, fun k => vals.getD k 0.0⟩)
    | _ => none
  | _ => none

/-- `sqact <mask> <term> | ψ1 | ψ2 | Ψ` → the labelled term, the store, and the three inputs -/
def readAct (ws : List String) : Option (PG × Store Float × List CFloat × List CFloat × LMat CFloat) :=
  match ws with
  | "sqact" :: mask :: rest =>
    match parseGate rest with
    | some (g, "|" :: data) =>
      match splitBars data with
      | [a, b, c] => do
        let v1 ← parseVec a; let v2 ← parseVec b; let v3 ← parseVec c
        let dim := 2 ^ Gate.nrBits g
        if v1.length ≠ dim ∨ v2.length ≠ dim ∨ v3.length ≠ 3 * dim then none
        let vals := g.params.toArray
        let m3 : LMat CFloat := (List.range dim).map fun r => (v3.drop (r * 3)).take 3
        pure ((label mask.toList.toArray 0 g).1, ⟨fun k => vals.getD k 0.0, fun k => vals.getD k 0.0⟩, v1, v2, m3)
      | _ => none
    | _ => none
  | _ => none

def errName : SqErr → String
  | .referenceArithmetic => "ReferenceArithmetic"
  | .opNotImplemented => "OpNotImplemented"
  | .noImpl => "NoImpl"

def handleAct (ws : List String) : String :=
  match readAct ws with
  | some (g, s, v1, v2, m3) =>
    match Gate.square g with
    | .ok g2 =>
      let m2 : LMat CFloat := Gate.matrixAt s g2
      let m : LMat CFloat := Gate.matrixAt s g
      if m2.isEmpty || m.isEmpty then "panic" else
      "ok " ++ showMat m2 ++ " | " ++ showMat m ++ " | " ++ showVec (LMat.mulVec m2 v1) ++ " | " ++
        showVec (LMat.mulVec m2 v2) ++ " | " ++ showVec (LMat.mul m2 m3).flatten
    | .error e => "err " ++ errName e
  | none => "bad-op"

def handle (line : String) : String :=
  if (words line).head? = some "sqact" then handleAct (words line) else
  match readReq (words line) with
  | some (g, s) =>
    match Gate.square g with
    | .ok g2 =>
      let m2 : LMat CFloat := Gate.matrixAt s g2
      let m : LMat CFloat := Gate.matrixAt s g
      if m2.isEmpty || m.isEmpty then "panic" else "ok " ++ showMat m2 ++ " | " ++ showMat m
    | .error e => "err " ++ errName e
  | none => "bad-op"

def maxDist (a b : LMat CFloat) : Float :=
  if a.length ≠ b.length then 1e9 else
  (List.zipWith (fun ra rb => if ra.length ≠ rb.length then 1e9 else
    (List.zipWith CFloat.dist ra rb).foldl max 0) a b).foldl max 0

def unflat (n : Nat) (v : List CFloat) : LMat CFloat :=
  (List.range n).map fun r => (v.drop (r * n)).take n

def parseMat : List String → Option (LMat CFloat)
  | n :: ent => do
      let n ← n.toNat?
      let v ← parseVec ent
      if v.length ≠ n * n then none else pure (unflat n v)
  | [] => none

mutual
/-- a parameter that is not `Direct`, or a `U3`, outside loop bodies: a cause for refusal -/
partial def refusalCause : PG → Bool
  | .RX p | .RY p | .RZ p | .U1 p => !p.isDirect
  | .U2 p q => !(p.isDirect && q.isDirect)
  | .U3 _ _ _ => true
  | .C g => refusalCause g
  | .Kron a b => refusalCause a || refusalCause b
  | _ => false
/-- a `U2` somewhere (outside loop bodies) -/
partial def hasU2 : PG → Bool
  | .U2 _ _ => true
  | .C g => hasU2 g
  | .Kron a b => hasU2 a || hasU2 b
  | _ => false
/-- a `U2` somewhere below a `C` -/
partial def hasU2UnderC : PG → Bool
  | .C g => hasU2 g
  | .Kron a b => hasU2UnderC a || hasU2UnderC b
  | _ => false
end

/-- the entry of largest modulus -/
def argmax (m : LMat CFloat) : Nat × Nat × Float :=
  (m.zipIdx.foldl (fun acc (row, i) =>
    row.zipIdx.foldl (fun acc (x, j) => if CFloat.normSq x > acc.2.2 then (i, j, CFloat.normSq x) else acc) acc)
    (0, 0, -1.0))

/-- (B): the matrix of the returned gate equals `matrix()·matrix()` of the original up to ONE global
phase (this forces exact equality of the controlled block of a controlled gate); an error is
acceptable only where there is a cause (a non-`Direct` parameter, or a `U3`, outside loop bodies). -/
def maxDistV (a b : List CFloat) : Float :=
  if a.length ≠ b.length then 1e9 else (List.zipWith CFloat.dist a b).foldl max 0

/-- (B) for `sqact`: first the matrix statement as for `square`; then every output of the returned gate — `apply` on `ψ1`,
`apply_slice` on `ψ2`, `apply_mat` on `Ψ` — must be `c · matrix()·matrix()` applied to the input, with the SAME unit scalar
`c` (the original's matrix is the implementation's own answer; nothing of the model is used). -/
def specAct (req ans : String) : String :=
  match readAct (words req) with
  | none => "fail bad-request"
  | some (g, _, v1, v2, m3) =>
    match words ans with
    | "err" :: _ => if refusalCause g then "ok" else "fail square-refused-without-cause " ++ " ".intercalate (words ans)
    | "ok" :: rest =>
      match splitBars rest with
      | [a, b, o1, o2, o3] =>
        match parseMat a, parseMat b, parseVec o1, parseVec o2, parseVec o3 with
        | some sq, some m, some o1, some o2, some o3 =>
          let mm := LMat.mul m m
          let (i, j, w) := argmax mm
          if w < 1e-6 then "fail degenerate-matrix" else
          let num := LMat.get sq i j * Amp.conj Float (LMat.get mm i j)
          let c : CFloat := ⟨num.re / w, num.im / w⟩
          let dPhase := (CFloat.normSq c - 1.0).abs
          let cmm := Spec.scale c mm
          let d := maxDist sq cmm
          let cls := if hasU2UnderC g then "cu2-square" else "square-differs"
          if dPhase > 1e-9 || d > 1e-9 then
            s!"fail {cls} not-equal-up-to-one-global-phase dist={d} |c|^2-1={dPhase} exactdist={maxDist sq mm}"
          else
          let d1 := maxDistV o1 (LMat.mulVec cmm v1)
          let d2 := maxDistV o2 (LMat.mulVec cmm v2)
          let d3 := maxDistV o3 (LMat.mul cmm m3).flatten
          let clsA := if hasU2UnderC g then "cu2-square" else "square-action-differs"
          if d1 > 1e-9 then s!"fail {clsA} square().apply(psi) is not matrix()*matrix()*psi (same phase as square().matrix()) dist={d1}"
          else if d2 > 1e-9 then s!"fail {clsA} square().apply_slice(psi) is not matrix()*matrix()*psi dist={d2}"
          else if d3 > 1e-9 then s!"fail {clsA} square().apply_mat(Psi) is not matrix()*matrix()*Psi dist={d3}"
          else "ok"
        | _, _, _, _, _ => "fail bad-answer"
      | _ => "fail bad-answer"
    | _ => "fail square-call-did-not-return " ++ " ".intercalate (words ans)

def specCheck (line : String) : String :=
  match line.splitOn "\t" with
  | [req, ans] =>
    if (words req).head? = some "sqact" then specAct req ans else
    match readReq (words req) with
    | none => "fail bad-request"
    | some (g, _) =>
      match words ans with
      | "err" :: _ => if refusalCause g then "ok" else "fail square-refused-without-cause " ++ " ".intercalate (words ans)
      | "ok" :: rest =>
        let (a, b) := splitBar rest
        match parseMat a, parseMat b with
        | some sq, some m =>
          let mm := LMat.mul m m
          let (i, j, w) := argmax mm
          if w < 1e-6 then "fail degenerate-matrix" else
          let num := LMat.get sq i j * Amp.conj Float (LMat.get mm i j)
          let c : CFloat := ⟨num.re / w, num.im / w⟩
          let dPhase := (CFloat.normSq c - 1.0).abs
          let d := maxDist sq (Spec.scale c mm)
          if dPhase > 1e-9 || d > 1e-9 then
            let cls := if hasU2UnderC g then "cu2-square" else "square-differs"
            s!"fail {cls} not-equal-up-to-one-global-phase dist={d} |c|^2-1={dPhase} exactdist={maxDist sq mm}"
          else "ok"
        | _, _ => "fail bad-answer"
      | _ => "fail square-call-did-not-return " ++ " ".intercalate (words ans)
  | _ => "fail bad-line"

def main (args : List String) : IO Unit :=
  if args = ["spec"] then serve specCheck else serve handle

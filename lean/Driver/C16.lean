import Driver.GateParse
import Q1t.Model.Square
import Q1t.Spec.Square
import Q1t.Model.Conj
import Q1t.Spec.Clifford
/-!
Driver for C16 (`Square::square`).

Requests
* `square <term>` — every parameter is `Direct`;
* `squarep <mask> <term>` — the i-th parameter of the term (in order of occurrence) is `Direct`,
  `Reference` or `FFIRef` according to the i-th letter (`d`, `r`, `f`) of `<mask>`; the values on
  the line are what the cells hold when the matrices are taken (the harness squares the gate
  while the cells hold other values, then overwrites them).

Answers: `ok <n> <entries of square().matrix()> | <n> <entries of matrix()>`, or `err <Constructor>`.

* `sqact <mask> <term> | <ψ1> | <ψ2> | <Ψ>` — the same, plus what the returned gate DOES: `ψ1`, `ψ2` are vectors of `2^n`
  amplitudes, `Ψ` a `2^n × 3` matrix (row-major).  Answer: `ok <sq matrix> | <matrix> | <square().apply(ψ1)> |
  <square().apply_slice(ψ2)> | <square().apply_mat(Ψ)>`; the model's answer is the returned gate's matrix times the input.

* `sq2 <term>` — the returned gate squared again: `first err ..`, or `ok <sq2 matrix> | <sq matrix>`, or `err ..`.
* `sqconj <term>` — stabilizer view: `ok <sq matrix> | <k> ; r ; .. | r ; ..` with `square().conjugate(P)` for all `4^k`
  strings, then the original's `conjugate` applied twice; `r = ok <flip> <digits>` or `err`.

`err OpNotImplemented <op> <gate>` carries the payload: `op` and the description of the refusing gate with the parameter
lists removed (`U3`, `U3⊗I⊗I`, …).
-/
open Q1t Q1t.Proto Q1t.GateParse Q1t.CFloat
open Q1t.Tableau (P)

abbrev PG := GateTerm (Param Float)
instance : Inhabited PG := ⟨.I⟩
instance : Inhabited (OpList (Param Float)) := ⟨.nil⟩

def mk (mask : Array Char) (k : Nat) (x : Float) : Param Float :=
  match mask.getD k 'd' with
  | 'r' => .reference k
  | 'f' => .ffiRef k
  | _ => .direct x

mutual
/-- give the parameters their kinds from the mask, numbering the cells in order of occurrence -/
partial def label (mask : Array Char) (k : Nat) : GateTerm Float → PG × Nat
  | .H => (.H, k) | .X => (.X, k) | .Y => (.Y, k) | .Z => (.Z, k) | .S => (.S, k) | .Sdg => (.Sdg, k)
  | .T => (.T, k) | .Tdg => (.Tdg, k) | .V => (.V, k) | .Vdg => (.Vdg, k) | .I => (.I, k)
  | .CX => (.CX, k) | .CY => (.CY, k) | .CZ => (.CZ, k) | .Swap => (.Swap, k)
  | .RX x => (.RX (mk mask k x), k + 1) | .RY x => (.RY (mk mask k x), k + 1)
  | .RZ x => (.RZ (mk mask k x), k + 1) | .U1 x => (.U1 (mk mask k x), k + 1)
  | .U2 x y => (.U2 (mk mask k x) (mk mask (k + 1) y), k + 2)
  | .U3 x y z => (.U3 (mk mask k x) (mk mask (k + 1) y) (mk mask (k + 2) z), k + 3)
  | .C g => let (g', k') := label mask k g; (.C g', k')
  | .Kron g0 g1 =>
      let (a, k1) := label mask k g0
      let (b, k2) := label mask k1 g1
      (.Kron a b, k2)
  | .Composite nm n ops => let (ops', k') := labelOps mask k ops; (.Composite nm n ops', k')
  | .Loop l it nm n ops => let (ops', k') := labelOps mask k ops; (.Loop l it nm n ops', k')
partial def labelOps (mask : Array Char) (k : Nat) : OpList Float → OpList (Param Float) × Nat
  | .nil => (.nil, k)
  | .cons g bits rest =>
      let (g', k1) := label mask k g
      let (rest', k2) := labelOps mask k1 rest
      (.cons g' bits rest', k2)
end

/-- the request's term as a `Param` term plus the store holding the values on the line -/
def readReq (ws : List String) : Option (PG × Store Float) :=
  match ws with
  | "square" :: rest =>
    match parseGate rest with
    | some (g, []) => some (g.mapP .direct, ⟨fun _ => 0.0, fun _ => 0.0⟩)
    | _ => none
  | "squarep" :: mask :: rest =>
    match parseGate rest with
    | some (g, []) =>
      let vals := g.params.toArray
      some ((label mask.toList.toArray 0 g).1, ⟨fun k => vals.getD k 0.0, fun k => vals.getD k 0.0⟩)
    | _ => none
  | _ => none

/-- `sqact <mask> <term> | ψ1 | ψ2 | Ψ` → the labelled term, the store, and the three inputs -/
def readAct (ws : List String) : Option (PG × Store Float × List CFloat × List CFloat × LMat CFloat) :=
  match ws with
  | "sqact" :: mask :: rest =>
    match parseGate rest with
    | some (g, "|" :: data) =>
      match splitBars data with
      | [a, b, c] => do
        let v1 ← parseVec a; let v2 ← parseVec b; let v3 ← parseVec c
        let dim := 2 ^ Gate.nrBits g
        if v1.length ≠ dim ∨ v2.length ≠ dim ∨ v3.length ≠ 3 * dim then none
        let vals := g.params.toArray
        let m3 : LMat CFloat := (List.range dim).map fun r => (v3.drop (r * 3)).take 3
        pure ((label mask.toList.toArray 0 g).1, ⟨fun k => vals.getD k 0.0, fun k => vals.getD k 0.0⟩, v1, v2, m3)
      | _ => none
    | _ => none
  | _ => none

mutual
/-- `Gate::description()` without the parameter lists of RX RY RZ U1 U2 U3 -/
partial def skel : PG → String
  | .H => "H" | .X => "X" | .Y => "Y" | .Z => "Z" | .S => "S" | .Sdg => "S†" | .T => "T" | .Tdg => "T†"
  | .V => "V" | .Vdg => "V†" | .I => "I" | .CX => "CX" | .CY => "CY" | .CZ => "CZ" | .Swap => "Swap"
  | .RX _ => "RX" | .RY _ => "RY" | .RZ _ => "RZ" | .U1 _ => "U1" | .U2 _ _ => "U2" | .U3 _ _ _ => "U3"
  | .C g => "C" ++ skel g
  | .Kron a b => skel a ++ "⊗" ++ skel b
  | .Composite nm _ _ => nm
  | .Loop _ it nm _ _ => s!"{it}({nm})"
/-- the gate whose `square()` produced `OpNotImplemented`: a `U3` (trait default; `C` forwards with `?`) or a `Kron`
(which replaces any inner error by its own) -/
partial def refuserSkel : PG → String
  | .C g => refuserSkel g
  | g => skel g
/-- the descriptions of all sub-terms (outside loop bodies) -/
partial def subSkels : PG → List String
  | .C g => skel (.C g) :: subSkels g
  | .Kron a b => skel (.Kron a b) :: (subSkels a ++ subSkels b)
  | g => [skel g]
end

def errName (g : PG) : SqErr → String
  | .referenceArithmetic => "ReferenceArithmetic"
  | .opNotImplemented => "OpNotImplemented square " ++ refuserSkel g
  | .noImpl => "NoImpl"

def handleAct (ws : List String) : String :=
  match readAct ws with
  | some (g, s, v1, v2, m3) =>
    match Gate.square g with
    | .ok g2 =>
      let m2 : LMat CFloat := Gate.matrixAt s g2
      let m : LMat CFloat := Gate.matrixAt s g
      if m2.isEmpty || m.isEmpty then "panic" else
      "ok " ++ showMat m2 ++ " | " ++ showMat m ++ " | " ++ showVec (LMat.mulVec m2 v1) ++ " | " ++
        showVec (LMat.mulVec m2 v2) ++ " | " ++ showVec (LMat.mul m2 m3).flatten
    | .error e => "err " ++ errName g e
  | none => "bad-op"

def showR : Conj.Result → String
  | .ok (flip, o) => s!"ok {if flip then 1 else 0} " ++ joinNats (o.map P.toBits)
  | .error _ => "err"

/-- `conjugate` twice, signs xor-ed -/
def conjTwice (g : PG) (ops : List P) : Conj.Result :=
  match Conj.conjugate g ops with
  | .ok (f1, o1) => match Conj.conjugate g o1 with
    | .ok (f2, o2) => .ok (f1 != f2, o2)
    | .error e => .error e
  | .error e => .error e

def noStore : Store Float := ⟨fun _ => 0.0, fun _ => 0.0⟩

def handleSq2 (ws : List String) : String :=
  match parseGate ws with
  | some (g0, []) =>
    let g : PG := g0.mapP .direct
    match Gate.square g with
    | .error e => "first err " ++ errName g e
    | .ok g2 =>
      match Gate.square g2 with
      | .error e => "err " ++ errName g2 e
      | .ok g4 =>
        let m4 : LMat CFloat := Gate.matrixAt noStore g4
        let m2 : LMat CFloat := Gate.matrixAt noStore g2
        if m4.isEmpty || m2.isEmpty then "panic" else "ok " ++ showMat m4 ++ " | " ++ showMat m2
  | _ => "bad-op"

def handleConj (ws : List String) : String :=
  match parseGate ws with
  | some (g0, []) =>
    let g : PG := g0.mapP .direct
    match Gate.square g with
    | .error e => "err " ++ errName g e
    | .ok g2 =>
      let m2 : LMat CFloat := Gate.matrixAt noStore g2
      let k := Gate.nrBits g
      let strs := Spec.Clifford.allStrings k
      if m2.isEmpty then "panic" else
      "ok " ++ showMat m2 ++ s!" | {k} ; " ++ " ; ".intercalate (strs.map fun o => showR (Conj.conjugate g2 o)) ++
        " | " ++ " ; ".intercalate (strs.map fun o => showR (conjTwice g o))
  | _ => "bad-op"

def handle (line : String) : String :=
  if (words line).head? = some "sqact" then handleAct (words line) else
  if (words line).head? = some "sq2" then handleSq2 ((words line).drop 1) else
  if (words line).head? = some "sqconj" then handleConj ((words line).drop 1) else
  match readReq (words line) with
  | some (g, s) =>
    match Gate.square g with
    | .ok g2 =>
      let m2 : LMat CFloat := Gate.matrixAt s g2
      let m : LMat CFloat := Gate.matrixAt s g
      if m2.isEmpty || m.isEmpty then "panic" else "ok " ++ showMat m2 ++ " | " ++ showMat m
    | .error e => "err " ++ errName g e
  | none => "bad-op"

def maxDist (a b : LMat CFloat) : Float :=
  if a.length ≠ b.length then 1e9 else
  (List.zipWith (fun ra rb => if ra.length ≠ rb.length then 1e9 else
    (List.zipWith CFloat.dist ra rb).foldl max 0) a b).foldl max 0

def unflat (n : Nat) (v : List CFloat) : LMat CFloat :=
  (List.range n).map fun r => (v.drop (r * n)).take n

def parseMat : List String → Option (LMat CFloat)
  | n :: ent => do
      let n ← n.toNat?
      let v ← parseVec ent
      if v.length ≠ n * n then none else pure (unflat n v)
  | [] => none

mutual
/-- a parameter that is not `Direct`, or a `U3`, outside loop bodies: a cause for refusal -/
partial def refusalCause : PG → Bool
  | .RX p | .RY p | .RZ p | .U1 p => !p.isDirect
  | .U2 p q => !(p.isDirect && q.isDirect)
  | .U3 _ _ _ => true
  | .C g => refusalCause g
  | .Kron a b => refusalCause a || refusalCause b
  | _ => false
/-- a `U2` somewhere (outside loop bodies) -/
partial def hasU2 : PG → Bool
  | .U2 _ _ => true
  | .C g => hasU2 g
  | .Kron a b => hasU2 a || hasU2 b
  | _ => false
/-- a `U2` somewhere below a `C` -/
partial def hasU2UnderC : PG → Bool
  | .C g => hasU2 g
  | .Kron a b => hasU2UnderC a || hasU2UnderC b
  | _ => false
end

/-- the entry of largest modulus -/
def argmax (m : LMat CFloat) : Nat × Nat × Float :=
  (m.zipIdx.foldl (fun acc (row, i) =>
    row.zipIdx.foldl (fun acc (x, j) => if CFloat.normSq x > acc.2.2 then (i, j, CFloat.normSq x) else acc) acc)
    (0, 0, -1.0))

/-- an error answer: acceptable only with a cause, and `OpNotImplemented` must carry ("square", description of a sub-gate) -/
def checkErr (g : PG) (ans : List String) : String :=
  if !refusalCause g then "fail square-refused-without-cause " ++ " ".intercalate ans else
  match ans with
  | ["err", "OpNotImplemented", op, gate] =>
    if op ≠ "square" then s!"fail square-error-payload the operation named by OpNotImplemented is '{op}' (gate '{gate}'), not 'square'"
    else if !(subSkels g).contains gate then s!"fail square-error-payload OpNotImplemented names gate '{gate}', not a sub-gate of the receiver"
    else "ok"
  | "err" :: "OpNotImplemented" :: _ => "fail square-error-payload malformed " ++ " ".intercalate ans
  | _ => "ok"

/-- the matrix statement: `sq = c · m·m` for one unit scalar `c`; returns the failure text or `none`, and `c · m·m` -/
def matCheck (g : PG) (sq m : LMat CFloat) : Option String × LMat CFloat :=
  let mm := LMat.mul m m
  let (i, j, w) := argmax mm
  if w < 1e-6 then (some "fail degenerate-matrix", mm) else
  let num := LMat.get sq i j * Amp.conj Float (LMat.get mm i j)
  let c : CFloat := ⟨num.re / w, num.im / w⟩
  let dPhase := (CFloat.normSq c - 1.0).abs
  let cmm := Spec.scale c mm
  let d := maxDist sq cmm
  if dPhase > 1e-9 || d > 1e-9 then
    let cls := if hasU2UnderC g then "cu2-square" else "square-differs"
    (some s!"fail {cls} not-equal-up-to-one-global-phase dist={d} |c|^2-1={dPhase} exactdist={maxDist sq mm}", cmm)
  else (none, cmm)

def specSq2 (req ans : String) : String :=
  match parseGate ((words req).drop 1) with
  | some (g0, []) =>
    let g : PG := g0.mapP .direct
    match words ans with
    | "first" :: rest => checkErr g rest
    | "err" :: rest =>
      -- the receiver of the second call is the gate the first call returned
      match Gate.square g with
      | .ok g2 => checkErr g2 ("err" :: rest)
      | .error _ => "fail second-square-of-a-refused-gate"
    | "ok" :: rest =>
      let (a, b) := splitBar rest
      match parseMat a, parseMat b, Gate.square g with
      | some sq2, some sq, .ok g2 => ((matCheck g2 sq2 sq).1).getD "ok"
      | _, _, _ => "fail bad-answer"
    | _ => "fail square-call-did-not-return " ++ " ".intercalate (words ans)
  | _ => "fail bad-request"

def splitSemis (ws : List String) : List (List String) :=
  let rec go (acc : List String) (out : List (List String)) : List String → List (List String)
    | [] => (acc.reverse :: out).reverse
    | w :: rest => if w = ";" then go [] (acc.reverse :: out) rest else go (w :: acc) out rest
  go [] [] ws

def parseR : List String → Option (Bool × List P)
  | "ok" :: f :: ds => do
      let ds ← nats? ds
      if f = "0" then pure (false, ds.map P.ofBits) else if f = "1" then pure (true, ds.map P.ofBits) else none
  | _ => none

def digits (ops : List P) : String := joinNats (ops.map P.toBits)

open Q1t.Spec.Clifford in
/-- (B) for `sqconj`: for every Pauli string, the returned gate's conjugation rule (a) equals the original's applied twice
and (b) is exact for the returned gate's own matrix: `M·P·Mᴴ = ±P'`. -/
def specConj (req ans : String) : String :=
  match parseGate ((words req).drop 1) with
  | some (g0, []) =>
    let g : PG := g0.mapP .direct
    match words ans with
    | "err" :: rest => checkErr g ("err" :: rest)
    | "ok" :: rest =>
      match splitBars rest with
      | [a, b, c] =>
        match parseMat a, splitSemis b, splitSemis c with
        | some M, kTok :: sqs, tws =>
          let k := Gate.nrBits g
          let strs := allStrings k
          if kTok ≠ [toString k] ∨ sqs.length ≠ strs.length ∨ tws.length ≠ strs.length then "fail bad-answer" else
          let bad := (strs.zip (sqs.zip tws)).filterMap fun (s, (x, y)) =>
            match parseR x, parseR y with
            | some (f, o), some (f', o') =>
              if f ≠ f' ∨ o ≠ o' then
                some s!"fail square-conjugation-differs-from-conjugating-twice P=[{digits s}] square().conjugate -> {" ".intercalate x}, original twice -> {" ".intercalate y}"
              else
                let dev := maxDist (conjBy Float M (pauliMat Float s)) (signed f (pauliMat Float o))
                if dev > 1e-9 then
                  some s!"fail square-conjugation-differs-from-matrix P=[{digits s}] -> {" ".intercalate x} but square().matrix() gives dev={dev}"
                else none
            | some (f, o), none =>
              let dev := maxDist (conjBy Float M (pauliMat Float s)) (signed f (pauliMat Float o))
              if dev > 1e-9 then some s!"fail square-conjugation-differs-from-matrix P=[{digits s}] -> {" ".intercalate x} dev={dev}" else none
            | none, _ => none     -- the returned gate does not offer a conjugation rule: nothing claimed
          match bad with
          | [] => "ok"
          | b :: _ => b
        | _, _, _ => "fail bad-answer"
      | _ => "fail bad-answer"
    | _ => "fail square-call-did-not-return " ++ " ".intercalate (words ans)
  | _ => "fail bad-request"

def maxDistV (a b : List CFloat) : Float :=
  if a.length ≠ b.length then 1e9 else (List.zipWith CFloat.dist a b).foldl max 0

/-- (B) for `sqact`: first the matrix statement as for `square`; then every output of the returned gate — `apply` on `ψ1`,
`apply_slice` on `ψ2`, `apply_mat` on `Ψ` — must be `c · matrix()·matrix()` applied to the input, with the SAME unit scalar
`c` (the original's matrix is the implementation's own answer; nothing of the model is used). -/
def specAct (req ans : String) : String :=
  match readAct (words req) with
  | none => "fail bad-request"
  | some (g, _, v1, v2, m3) =>
    match words ans with
    | "err" :: _ => checkErr g (words ans)
    | "ok" :: rest =>
      match splitBars rest with
      | [a, b, o1, o2, o3] =>
        match parseMat a, parseMat b, parseVec o1, parseVec o2, parseVec o3 with
        | some sq, some m, some o1, some o2, some o3 =>
          let mm := LMat.mul m m
          let (i, j, w) := argmax mm
          if w < 1e-6 then "fail degenerate-matrix" else
          let num := LMat.get sq i j * Amp.conj Float (LMat.get mm i j)
          let c : CFloat := ⟨num.re / w, num.im / w⟩
          let dPhase := (CFloat.normSq c - 1.0).abs
          let cmm := Spec.scale c mm
          let d := maxDist sq cmm
          let cls := if hasU2UnderC g then "cu2-square" else "square-differs"
          if dPhase > 1e-9 || d > 1e-9 then
            s!"fail {cls} not-equal-up-to-one-global-phase dist={d} |c|^2-1={dPhase} exactdist={maxDist sq mm}"
          else
          let d1 := maxDistV o1 (LMat.mulVec cmm v1)
          let d2 := maxDistV o2 (LMat.mulVec cmm v2)
          let d3 := maxDistV o3 (LMat.mul cmm m3).flatten
          let clsA := if hasU2UnderC g then "cu2-square" else "square-action-differs"
          if d1 > 1e-9 then s!"fail {clsA} square().apply(psi) is not matrix()*matrix()*psi (same phase as square().matrix()) dist={d1}"
          else if d2 > 1e-9 then s!"fail {clsA} square().apply_slice(psi) is not matrix()*matrix()*psi dist={d2}"
          else if d3 > 1e-9 then s!"fail {clsA} square().apply_mat(Psi) is not matrix()*matrix()*Psi dist={d3}"
          else "ok"
        | _, _, _, _, _ => "fail bad-answer"
      | _ => "fail bad-answer"
    | _ => "fail square-call-did-not-return " ++ " ".intercalate (words ans)

/-- (B): the matrix of the returned gate equals `matrix()·matrix()` of the original up to ONE global
phase (this forces exact equality of the controlled block of a controlled gate); an error is
acceptable only where there is a cause (a non-`Direct` parameter, or a `U3`, outside loop bodies). -/
def specCheck (line : String) : String :=
  match line.splitOn "\t" with
  | [req, ans] =>
    if (words req).head? = some "sqact" then specAct req ans else
    if (words req).head? = some "sq2" then specSq2 req ans else
    if (words req).head? = some "sqconj" then specConj req ans else
    match readReq (words req) with
    | none => "fail bad-request"
    | some (g, _) =>
      match words ans with
      | "err" :: _ => checkErr g (words ans)
      | "ok" :: rest =>
        let (a, b) := splitBar rest
        match parseMat a, parseMat b with
        | some sq, some m =>
          let mm := LMat.mul m m
          let (i, j, w) := argmax mm
          if w < 1e-6 then "fail degenerate-matrix" else
          let num := LMat.get sq i j * Amp.conj Float (LMat.get mm i j)
          let c : CFloat := ⟨num.re / w, num.im / w⟩
          let dPhase := (CFloat.normSq c - 1.0).abs
          let d := maxDist sq (Spec.scale c mm)
          if dPhase > 1e-9 || d > 1e-9 then
            let cls := if hasU2UnderC g then "cu2-square" else "square-differs"
            s!"fail {cls} not-equal-up-to-one-global-phase dist={d} |c|^2-1={dPhase} exactdist={maxDist sq mm}"
          else "ok"
        | _, _ => "fail bad-answer"
      | _ => "fail square-call-did-not-return " ++ " ".intercalate (words ans)
  | _ => "fail bad-line"

def main (args : List String) : IO Unit :=
  if args = ["spec"] then serve specCheck else serve handle

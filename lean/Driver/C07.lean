import Q1t.Base.Proto
import Q1t.Base.RegProto
import Q1t.Model.Bits
import Q1t.Model.Register
import Q1t.Model.Conditional
import Q1t.Model.Sim
import Q1t.Spec.Bits
import Q1t.Spec.Register
import Q1t.Spec.Conditional
import Driver.SimStep
/-! Driver for C07: one request per line, one answer per line (`model` and `spec` modes). -/
open Q1t Q1t.Proto Q1t.RegProto Q1t.Bits Q1t.Register Q1t.Conditional

def bool? : String → Option Bool
  | "0" => some false
  | "1" => some true
  | _ => none

def showPieces (rs : List Piece) : String :=
  "ok " ++ joinNats (rs.flatMap fun p => [p.1, p.2.1, if p.2.2 then 1 else 0])

/-- basis state as a bit string, qubit 0 first -/
def qs? (s : String) : Option (List Bool) := s.toList.mapM fun c => if c = '0' then some false else if c = '1' then some true else none
def showQs (qs : List Bool) : String := String.ofList (qs.map fun b => if b then '1' else '0')

structure CondReq where
  be : Backend
  nq : Nat
  counts : List Nat
  states : List (List Bool)
  reg : List Word
  control : List Nat
  target : Word
  g : G
  bits : List Nat
  post : List Nat
  /-- `false` for a conditional gate that is not directly followed by the final `measure_all` (`post -`) -/
  hasFinal : Bool := true
  oldIds : List Nat
  newIds : List Nat

/-- `condrun2` = the same request, taken from the trace of a run that was NOT the first execution of its `Circuit` object
(`execute*` clears quantum and classical state: the requirement is that of a first run).  In both kinds the register of the
request is the traced register restricted to the bits written so far in THIS run (every run starts from a zeroed register). -/
def isCondrun (k : String) : Bool := k == "condrun" || k == "condrun2"

def parseCond (segs : List (List String)) : Option CondReq :=
  match segs with
  | [kind, be, nq] :: ("counts" :: cs) :: ("states" :: sts) :: ("reg" :: reg) :: ("cond" :: condw) ::
      ("post" :: post) :: ("ids" :: ids) :: _ =>
    match splitSemis condw, splitSemis ids with
    | [ctl, [t], g :: bits], [oldIds, newIds] => do
      if !isCondrun kind then none
      some ⟨← parseBackend be, ← nat? nq, ← nats? cs, ← sts.mapM qs?, ← words? reg, ← nats? ctl, ← word? t,
        ← parseG g, ← nats? bits, ← (if post = ["-"] then some [] else nats? post), post != ["-"], ← nats? oldIds, ← nats? newIds⟩
    | _, _ => none
  | _ => none

/-- model answer of a `condrun` request: new ranges (counts, basis states), the register after the
conditional operation, the register after the final `measure_all(post)` -/
def condAnswer (r : CondReq) : String :=
  match applyG r.g r.bits (List.replicate r.nq false) with
  | none => "bad-op"
  | some _ =>
    let g := fun qs => (applyG r.g r.bits qs).getD qs
    match condOp g r.control r.target r.reg ⟨r.counts, r.states⟩ with
    | .err c p => s!"err {c} {joinNats p}"
    | .panic _ => "panic"
    | .ok st' =>
      let shots := expand st'
      let finals := (List.zip shots r.reg).map fun sw =>
        stepShot r.be r.nq (.measureAll r.post) ⟨sw.1, sw.2⟩
      let fin := finals.map fun f => match f with | .ok s => toString s.word.toNat | .err .. => "err" | .panic _ => "panic"
      let finText := if r.hasFinal then " ".intercalate fin else "-"
      s!"ok counts {joinNats st'.counts} | states {" ".intercalate (st'.states.map showQs)} | reg {joinWords r.reg} | final {finText}"

/-! ### `cstep`: one conditional operation on full state vectors

`cstep <tag…> | cond <nc> <cbit>*nc <target> <k> <bit>*k <gate term> | <pre snapshot> | <pre register> | 0` with answer
`ok | <post snapshot> | <post register>` (grammar of harness/src/sim.rs; the gate term carries the CURRENT values of all
parameters).  Model mode: the simulator model executes the operation (`Q1t.SimStep.handleStep`).  Spec mode: per shot, the
reference semantics `Spec.replayOp` - the gate's matrix on the shots whose selected bits spell the target (compared up to a
global phase), every other shot's state untouched (compared exactly), register untouched. -/

def expandIdx (counts : List Nat) : List Nat :=
  (List.zip counts (List.range counts.length)).flatMap fun ck => List.replicate ck.1 ck.2

def specCstep (fs : List (List String)) (ans : String) : String :=
  match fs with
  | [_, opToks, snap, regF, _] =>
    match Q1t.SimParse.parseOp opToks, nats? regF with
    | some (.cond control target g bits), some reg =>
      match Q1t.SimParse.parseVecSnapshot reg.length snap with
      | none => "skip"
      | some pre =>
        match Q1t.SimParse.fields ans with
        | [["ok"], snap', regF'] =>
          match Q1t.SimParse.parseVecSnapshot reg.length snap', nats? regF' with
          | some post, some reg' =>
            let n := pre.nrBits
            let (pi, qi) := (expandIdx pre.counts, expandIdx post.counts)
            if reg' != reg then "fail conditional-register-touched"
            else if pi.length ≠ reg.length || qi.length ≠ reg.length || post.nrBits ≠ n then
              "fail conditional-per-shot ranges-do-not-cover-the-shots"
            else
              let nonzero := fun (v : List Q1t.CFloat) => Q1t.SimStep.vnormSq v > 1e-18
              let bad := (List.range reg.length).filter fun i =>
                let ψ := pre.column (pi.getD i 0)
                let φ := post.column (qi.getD i 0)
                let w := reg.getD i 0
                let isMatch := Q1t.Sim.controlWord control w == some target
                match Spec.replayOp (P := Float) n nonzero (.cond control target g bits) ψ w w with
                | [(e, _)] =>
                  if isMatch then
                    let ip := Q1t.CFloat.normSq (Q1t.SimStep.inner e φ)
                    !(Float.abs (ip - Q1t.SimStep.vnormSq e * Q1t.SimStep.vnormSq φ) ≤ 2e-9 * Q1t.SimStep.vnormSq e
                      && Float.abs (Q1t.SimStep.vnormSq φ - Q1t.SimStep.vnormSq e) ≤ 1e-9)
                  else !(Q1t.SimStep.vdist2 ψ φ ≤ 1e-24)
                | _ => true
              match bad with
              | [] => "ok"
              | i :: _ =>
                let isMatch := Q1t.Sim.controlWord control (reg.getD i 0) == some target
                if isMatch then s!"fail conditional-per-shot matching-shot-{i}-does-not-hold-the-gate-applied-to-its-state ({bad.length} shots wrong)"
                else s!"fail conditional-untouched non-matching-shot-{i}-changed ({bad.length} shots wrong)"
          | _, _ => "fail conditional-per-shot unparsable-answer"
        | _ => "fail conditional-per-shot valid-conditional-did-not-complete"
    | _, _ => "fail bad-request"
  | _ => "fail bad-request"

def handle (line : String) : String :=
  let segs := splitBars (words line)
  match segs with
  | ("cstep" :: _) :: _ => Q1t.SimStep.handleStep (Q1t.SimParse.fields line)
  -- differential lines (C interface vs Rust API), computed by the harness: the expected answer is `same`
  | ("ffisame" :: _) :: _ | ("ffierr" :: _) :: _ => "same"
  | ("ranges" :: cs) :: mask :: _ =>
    match nats? cs, mask.mapM bool? with
    | some cs, some m =>
      let mine := collectRanges cs m
      -- differential against the lead's executable model of the same function
      if mine != Q1t.Sim.collectConditionalRanges cs m then "two-lean-models-disagree"
      else match mine with
        | some rs => showPieces rs
        | none => "panic"
    | _, _ => "bad-op"
  | ["cword", w] :: ctl :: _ =>
    match word? w, nats? ctl with
    | some w, some ctl =>
      let mine := controlWord ctl w
      if mine.map BitVec.toNat != Q1t.Sim.controlWord ctl w.toNat then "two-lean-models-disagree"
      else (match mine with | some cw => s!"ok {cw.toNat}" | none => "panic")
    | _, _ => "bad-op"
  | ("condrun" :: _) :: _ | ("condrun2" :: _) :: _ =>
    match parseCond segs with
    | some r => condAnswer r
    | none => "bad-op"
  | _ => "bad-op"

/-! ### spec mode -/

def expandCounts {α} (counts : List Nat) (xs : List α) : List α :=
  (List.zip counts xs).flatMap fun cx => List.replicate cx.1 cx.2

def specCond (r : CondReq) (ans : String) : String :=
  let nshots := r.reg.length
  let valid := r.control.all (· < 64) && r.control.length ≤ 64 && r.counts.all (· > 0) &&
    r.counts.foldl (· + ·) 0 = nshots && r.counts.length = r.states.length &&
    (applyG r.g r.bits (List.replicate r.nq false)).isSome
  if !valid then
    if nshots = 0 && ans.trimAscii.toString = "panic" then "fail D9-zero-shots-panic conditional-gate-on-zero-shots-panicked"
    else "skip"
  else
  match splitBars (words ans) with
  | ("ok" :: "counts" :: cs) :: ("states" :: sts) :: ("reg" :: reg) :: ("final" :: fin) :: _ =>
    match nats? cs, sts.mapM qs?, words? reg, (if r.hasFinal then words? fin else some []) with
    | some cs, some sts, some reg, some fin =>
      let g := fun qs => (applyG r.g r.bits qs).getD qs
      let oldShots := expandCounts r.counts r.states
      let mask := r.reg.map fun w => Spec.Bits.select r.control w == r.target
      let expected := Spec.Conditional.perShot g oldShots mask
      let newShots := expandCounts cs sts
      if cs.foldl (· + ·) 0 ≠ nshots || cs.length ≠ sts.length then "fail conditional-per-shot ranges-do-not-cover-the-shots"
      else if newShots != expected then
        s!"fail conditional-per-shot gate-applied-to-wrong-shots expected {" ".intercalate (expected.map showQs)}"
      else if reg != r.reg then "fail conditional-register-touched"
      else
        -- raw snapshot text of every non-matching shot is unchanged
        let oldRaw := expandCounts r.counts r.oldIds
        let newRaw := expandCounts cs r.newIds
        let untouched := (List.range nshots).all fun i => mask[i]! || oldRaw[i]! == newRaw[i]!
        if r.newIds.length ≠ cs.length || oldRaw.length ≠ nshots then "fail conditional-per-shot snapshot-shape"
        else if !untouched then "fail conditional-untouched non-matching-shot-changed-representation"
        else if cs != (Spec.Conditional.ranges r.counts 0 mask).map (·.2.1) then "fail conditional-ranges pieces-not-maximal"
        else
          let expFinal := (List.zip expected r.reg).map fun sw =>
            Spec.Bits.writeAll (fun q => sw.1.getD q false) r.post 0 sw.2
          if r.hasFinal && fin != expFinal then "fail conditional-per-shot final-measurement-differs"
          else "ok"
    | _, _, _, _ => "fail conditional-per-shot unparsable-answer"
  | _ => "fail conditional-per-shot valid-conditional-did-not-complete"

def specCheck (line : String) : String :=
  match line.splitOn "\t" with
  | [req, ans] =>
    let segs := splitBars (words req)
    match segs with
    | ("ranges" :: cs) :: mask :: _ =>
      match nats? cs, mask.mapM bool? with
      | some cs, some m =>
        if cs = [0] && m = [] then
          (if ans.trimAscii.toString = "panic" then "fail D9-zero-shots-panic collect_conditional_ranges([0],[])" else "ok")
        else if !(cs.all (· > 0)) || cs.foldl (· + ·) 0 ≠ m.length then "skip"
        else if ans.trimAscii.toString = (showPieces (Spec.Conditional.ranges cs 0 m)).trimAscii.toString then "ok"
        else s!"fail conditional-ranges expected {showPieces (Spec.Conditional.ranges cs 0 m)}"
      | _, _ => "fail bad-request"
    | ["cword", w] :: ctl :: _ =>
      match word? w, nats? ctl with
      | some w, some ctl =>
        if !(ctl.all (· < 64)) || ctl.length > 64 then "skip"
        else if ans.trimAscii.toString = s!"ok {(Spec.Bits.select ctl w).toNat}" then "ok"
        else s!"fail control-word expected {(Spec.Bits.select ctl w).toNat}"
      | _, _ => "fail bad-request"
    | ("condrun" :: _) :: _ | ("condrun2" :: _) :: _ =>
      match parseCond segs with
      | some r => specCond r ans
      | none => "fail bad-request"
    | ("cstep" :: _) :: _ => specCstep (Q1t.SimParse.fields req) ans
    | ("ffisame" :: _) :: _ =>
      if ans.trimAscii.toString = "same" then "ok"
      else s!"fail conditional-through-c-interface circuit built through the C interface behaves differently from the Rust-API circuit: {ans.trimAscii.toString.take 120}"
    | ("ffierr" :: _) :: _ =>
      if ans.trimAscii.toString = "same" then "ok"
      else s!"fail conditional-through-c-interface invalid control bits not refused alike: {ans.trimAscii.toString.take 120}"
    | (kind :: _) :: _ =>
      if kind.startsWith "cstep-unexpected" then
        s!"fail conditional-run-did-not-complete a valid circuit with a conditional gate ended in {ans.trimAscii.toString.take 60}"
      else
      if kind.startsWith "condrun-unexpected" then
        s!"fail conditional-run-did-not-complete a valid circuit with a conditional gate ended in {ans.trimAscii.toString.take 60}"
      else "fail bad-request"
    | _ => "fail bad-request"
  | _ => "fail bad-line"

def main (args : List String) : IO Unit :=
  if args = ["spec"] then serve specCheck else serve handle

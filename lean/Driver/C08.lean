import Q1t.Base.Proto
import Q1t.Base.RegProto
import Q1t.Model.Bits
import Q1t.Model.Register
import Q1t.Spec.Bits
import Q1t.Spec.Register
/-! Driver for C08: one request per line, one answer per line (`model` and `spec` modes). -/
open Q1t Q1t.Proto Q1t.RegProto Q1t.Bits Q1t.Register

/-- `histogram_vec` is only called (by harness and model alike) for registers up to this width -/
def vecMax : Nat := 12

def showOptWord : Option Word → String
  | some w => s!"ok {w.toNat}"
  | none => "panic"

def sortPairsNat (l : List (Nat × Nat)) : List (Nat × Nat) := l.mergeSort (fun a b => a.1 ≤ b.1)
def sortPairsStr (l : List (String × Nat)) : List (String × Nat) := l.mergeSort (fun a b => decide (a.1 ≤ b.1))

def showPairs (l : List (String × Nat)) : String := " ".intercalate (l.map fun kc => s!"{kc.1}:{kc.2}")

/-- the three views of a register, in the harness's canonical text -/
def viewsText (nc : Nat) (cs : List Word) : String :=
  let h := sortPairsNat ((histogram cs).map fun kc => (kc.1.toNat, kc.2))
  let hs := "h " ++ showPairs (h.map fun kc => (toString kc.1, kc.2))
  let vs := if nc > vecMax then "v -" else
    match histogramVec nc cs with
    | some v => "v " ++ joinNats v
    | none => "v panic"
  let s := sortPairsStr ((histogramString nc cs).map fun kc => (String.ofList kc.1, kc.2))
  s!"{hs} | {vs} | s {showPairs s}"

def finalWords (nshots : Nat) (traces : List (List Shot)) : List Word :=
  if traces.isEmpty then List.replicate nshots 0 else
  traces.map (fun t => match t.getLast? with | some s => s.word | none => 0)

def circText (nc nshots nops : Nat) (traces : List (List Shot)) : String :=
  let cs := finalWords nshots traces
  let t := " / ".intercalate ((List.range nops).map fun i => joinWords (traces.map fun tr => (tr.getD i (initShot 0)).word))
  s!"ok {joinWords cs} | t {t} | {viewsText nc cs}"

structure CircReq where
  be : Backend
  nq : Nat
  nc : Nat
  nshots : Nat
  ops : List Op
  /-- `circfrom`: the shots do not start in |0..0> with a zero register but in the given basis states / words (the situation
  the real run was in after a randomising prelude that split the shots over several ranges) -/
  init : Option (List Shot) := none

def parseInit (nq : Nat) : List String → Option (List Shot)
  | [] => some []
  | b :: w :: rest => do
    let qs ← if b = "-" then some [] else b.toList.mapM fun c => if c = '1' then some true else if c = '0' then some false else none
    if qs.length ≠ nq then none else
    let w ← word? w
    let tl ← parseInit nq rest
    some (⟨qs, w⟩ :: tl)
  | _ => none

def parseCirc (segs : List (List String)) : Option CircReq :=
  match segs with
  | ["circ", be, nq, nc, sh] :: opsegs => do
    some ⟨← parseBackend be, ← nat? nq, ← nat? nc, ← nat? sh, ← parseOps opsegs, none⟩
  -- through the C interface: representation chosen by the library (deterministic basis-state circuits: either gives the same words)
  | ["circffi", _be, nq, nc, sh] :: opsegs => do
    some ⟨← parseBackend "v", ← nat? nq, ← nat? nc, ← nat? sh, ← parseOps opsegs, none⟩
  | ["circfrom", be, nq, nc, sh] :: ("init" :: ini) :: opsegs => do
    let nqv ← nat? nq
    let shots ← parseInit nqv ini
    let n ← nat? sh
    if shots.length ≠ n then none else
    some ⟨← parseBackend be, nqv, ← nat? nc, n, ← parseOps opsegs, some shots⟩
  | _ => none

def handle (line : String) : String :=
  let segs := splitBars (words line)
  match segs with
  | ["rev", idx, n] :: _ =>
    match word? idx, nat? n with
    | some i, some n => showOptWord (reverseBits i n)
    | _, _ => "bad-op"
  | ["shuf", idx] :: bits :: _ =>
    match word? idx, nats? bits with
    | some i, some b => showOptWord (shuffleBits i b)
    | _, _ => "bad-op"
  | ("ranges" :: nrs) :: _ =>
    match nats? nrs with
    | some l => (match getRanges l with
      | some rs => "ok " ++ joinNats (rs.flatMap fun ab => [ab.1, ab.2])
      | none => "panic")
    | none => "bad-op"
  | ("circ" :: _) :: _ =>
    match parseCirc segs with
    | some r => showRes (circText r.nc r.nshots r.ops.length) (run r.be r.nq r.nc r.nshots r.ops)
    | none => "bad-op"
  | ("circffi" :: _) :: _ =>
    match parseCirc segs with
    | some r => (match run r.be r.nq r.nc r.nshots r.ops with
      | .ok traces => "ok " ++ joinWords (finalWords r.nshots traces)
      | .err c _ => s!"err {c}"
      | .panic _ => "panic")
    | none => "bad-op"
  | ("circfrom" :: _) :: _ =>
    match parseCirc segs with
    | some r =>
      let shots := r.init.getD []
      showRes (circText r.nc r.nshots r.ops.length)
        (match buildAll r.nq r.nc r.ops with
         | .err c p => .err ("build:" ++ c) p
         | .panic st => .panic st
         | .ok () => Res.mapM (runShot r.be r.nq r.ops) shots)
    | none => "bad-op"
  | ["views", nc] :: cs :: _ =>
    match nat? nc, words? cs with
    | some nc, some cs => viewsText nc cs
    | _, _ => "bad-op"
  -- after run k with n shots of one object the register holds exactly n words (`execute` allocates `zeros(nr_shots)`)
  | ["nwords", _k, n, _hist] :: _ => (match nat? n with | some n => s!"ok {n}" | none => "bad-op")
  | _ => "bad-op"

/-! ### spec mode: the property evaluated on the implementation's answer -/

def hasDup : List Nat → Bool
  | [] => false
  | x :: xs => xs.contains x || hasDup xs

/-- check the three views (as printed by the implementation) against the reference semantics -/
def checkViews (nc : Nat) (cs : List Word) (hseg vseg sseg : List String) : Option String :=
  let hres : Option String :=
    match hseg with
    | "h" :: entries =>
      match entries.mapM parsePair with
      | some ps =>
        match ps.mapM (fun kc => (word? kc.1).map fun w => (w, kc.2)) with
        | some h =>
          if !(Spec.Register.isHistogram (fun w => w) cs h) then some "histogram map-is-not-the-count-of-the-register"
          else if (h.map (·.2)).foldl (· + ·) 0 ≠ cs.length then some "histogram counts-do-not-sum-to-N"
          else none
        | none => some "histogram unparsable"
      | none => some "histogram unparsable"
    | _ => some "histogram missing"
  let vres : Option String :=
    match vseg with
    | ["v", "-"] => none
    | "v" :: entries =>
      match nats? entries with
      | some v => if Spec.Register.isVecHistogram nc cs v then none else some "histogram-vec entry-differs-from-count"
      | none => some "histogram-vec did-not-return"
    | _ => some "histogram-vec missing"
  let sres : Option String :=
    match sseg with
    | "s" :: entries =>
      if nc = 0 then none   -- no bit 0: the property's statement about string keys needs nr_cbits ≥ 1
      else match entries.mapM parsePair with
      | some ps =>
        let h := ps.map fun kc => (kc.1.toList, kc.2)
        if !(Spec.Register.isHistogram (fun w => Spec.Register.key nc w.toNat) cs h) then
          some "histogram-string key-is-not-msb-first-binary-of-register-width"
        else none
      | none => some "histogram-string unparsable"
    | _ => some "histogram-string missing"
  match hres, vres, sres with
  | some e, _, _ => some e
  | _, some e, _ => some e
  | _, _, some e => some e
  | none, none, none => none

def specCirc (r : CircReq) (ans : String) : String :=
  if !(r.ops.all (Spec.Register.opValid r.nq r.nc)) then "skip" else
  let asegs := splitBars (words ans)
  match asegs with
  | ("ok" :: csw) :: ("t" :: tw) :: hseg :: vseg :: sseg :: _ =>
    match words? csw, (splitSlashes tw).mapM words? with
    | some cs, some cols =>
      let cols := if r.ops.isEmpty then [] else cols
      if cs.length ≠ r.nshots then "fail register wrong-number-of-shots"
      else if cols.length ≠ r.ops.length then "fail register trace-length"
      else
        -- per shot: the reference trace from the zeroed register / |0..0> (or from the shot's own start, `circfrom`)
        let starts : List Shot := match r.init with | some l => l | none => List.replicate r.nshots (initShot r.nq)
        let refTraces := starts.map fun sh => Spec.Register.trace r.nq r.ops sh
        let refTrace := refTraces.headD (Spec.Register.trace r.nq r.ops (initShot r.nq))
        let bad := (List.range r.ops.length).find? fun i =>
          cols[i]! != refTraces.map fun tr => (tr[i]!).word
        match bad with
        | some i =>
          let cls := match r.ops[i]! with
            | .measureAll cb => if hasDup cb then "D14-measure-all-repeated-or" else "register-write"
            | .peekAll cb => if hasDup cb then "D14-peek-all-repeated-or" else "register-write"
            | .gate .. | .reset _ | .resetAll | .barrier _ => "register-touched-by-gate-or-reset"
            | _ => "register-write"
          s!"fail {cls} op#{i} expected-word {(refTrace[i]!).word.toNat}"
        | none =>
          let fins := (List.zip refTraces starts).map fun ts => match ts.1.getLast? with | some s => s.word | none => ts.2.word
          if cs != fins then "fail register final-cstate-differs-from-last-trace-entry"
          else match checkViews r.nc cs hseg vseg sseg with
            | some e => s!"fail {e}"
            | none => "ok"
    | _, _ => "fail register unparsable-answer"
  | _ =>
    if r.nshots = 0 && ans.trimAscii.toString = "panic" then "fail D9-zero-shots-panic valid-program-on-zero-shots-panicked"
    else s!"fail register valid-program-did-not-complete"

def specCheck (line : String) : String :=
  match line.splitOn "\t" with
  | [req, ans] =>
    let segs := splitBars (words req)
    match segs with
    | ["rev", idx, n] :: _ =>
      match word? idx, nat? n with
      | some i, some n =>
        if n > 64 then "skip"
        else if ans.trimAscii.toString = s!"ok {(Spec.Bits.reverse i n).toNat}" then "ok"
        else s!"fail reverse-bits expected {(Spec.Bits.reverse i n).toNat}"
      | _, _ => "fail bad-request"
    | ["shuf", idx] :: bits :: _ =>
      match word? idx, nats? bits with
      | some i, some b =>
        if !(b.all (· < 64)) then "skip"
        else if ans.trimAscii.toString = s!"ok {(Spec.Bits.shuffle i b).toNat}" then "ok"
        else s!"fail shuffle-bits expected {(Spec.Bits.shuffle i b).toNat}"
      | _, _ => "fail bad-request"
    | ("ranges" :: _) :: _ => "skip"
    | ("circ" :: _) :: _ | ("circfrom" :: _) :: _ =>
      match parseCirc segs with
      | some r => specCirc r ans
      | none => "fail bad-request"
    | ("circffi" :: _) :: _ =>
      match parseCirc segs with
      | some r =>
        if !(r.ops.all (Spec.Register.opValid r.nq r.nc)) then "skip" else
        let refTrace := Spec.Register.trace r.nq r.ops (initShot r.nq)
        let fin := match refTrace.getLast? with | some s => s.word | none => 0
        let expected := "ok " ++ joinWords (List.replicate r.nshots fin)
        if ans.trimAscii.toString = expected.trimAscii.toString then "ok"
        else s!"fail register-write-through-c-interface expected {expected.take 80}"
      | none => "fail bad-request"
    | ["nwords", _k, n, _hist] :: _ =>
      if ans.trimAscii.toString = s!"ok {n}" then "ok" else s!"fail views register-does-not-hold-exactly-the-N-words-of-the-run expected {n}"
    | ["views", nc] :: cs :: _ =>
      match nat? nc, words? cs with
      | some nc, some cs =>
        (match splitBars (words ans) with
        | hseg :: vseg :: sseg :: _ =>
          (match checkViews nc cs hseg vseg sseg with
          | some e => s!"fail {e}"
          | none => "ok")
        | _ => "fail views unparsable-answer")
      | _, _ => "fail bad-request"
    | _ => "fail bad-request"
  | _ => "fail bad-line"

def main (args : List String) : IO Unit :=
  if args = ["spec"] then serve specCheck else serve handle

import Q1t.Base.Proto
import Q1t.Base.Z8
import Q1t.Model.Tableau
import Q1t.Model.TableauBits
import Q1t.Spec.PauliGroup
import Q1t.Spec.Stab
import Q1t.Spec.StabEnum
import Q1t.Gen.PhaseTable
import Q1t.Gen.Conj
import Std.Data.HashSet
import Driver.GateParse
import Q1t.Base.Q8
import Q1t.Model.Conj
import Q1t.Spec.Unitaries
import Q1t.Spec.Clifford
import Driver.SimParse
/-! Driver for C03: one request per line, one answer per line.

Requests (words separated by blanks; a tableau is its `Display` lines joined by `,`, `_` = 0 qubits):

  new n | swap T i0 i1 | mul T i0 i1 | norm T | gate T NAME b.. | measure T q | collapse T i q v |
  reset T q | words T | conj NAME ops.. | isstab NAME | count n | peekall T | smeasure T q

`model` mode answers with the model; `spec` mode reads `<req>\t<impl answer>` and evaluates the
property (reference semantics over exact vectors) on the implementation's answer. -/
open Q1t Q1t.Proto Q1t.Tableau Q1t.Spec.Pauli Q1t.Spec.Stab

def ph : List Nat := Q1t.Gen.phaseTable
def conjFor (name : String) : Tab.Conj := conjOf Q1t.Gen.conjTable Q1t.Gen.conjNoArityCheck name
def params : Q1t.Spec.StabEnum.Params := ⟨ph, fun g => conjFor g.name⟩

def parseTab (s : String) : Option Tab :=
  if s = "_" then some ⟨0, [], []⟩ else Tab.ofLines (s.splitOn ",")

def showTab (t : Tab) : String :=
  if t.n = 0 then "_" else ",".intercalate (List.zipWith Tab.rowText t.signs t.rows)

def showGErr : GErr → String
  | .invalidNrBits g e => s!"err nrbits {g} {e}"
  | .notAStabilizer => "err notstab"

def showRes {α} (f : α → String) : Res α → String
  | .ok a => f a
  | .err e => showGErr e
  | .panic .assertIPow => "panic assert"
  | .panic .unwrapNoZ => "panic unwrap"
  | .oob => "oob"

def showTabRes : Res Tab → String := showRes (fun t => "ok " ++ showTab t)

def showMInfo : MInfo → String
  | .deterministic v => s!"det {if v then 1 else 0}"
  | .random i => s!"rnd {i}"

def hex16 (w : Nat) : String :=
  let ds := (Nat.toDigits 16 w)
  String.ofList (List.replicate (16 - ds.length) '0' ++ ds)

def bool? : String → Option Bool
  | "0" => some false | "1" => some true | _ => none

/-- all outcome words `peek_all_into(&[0..n])` can produce according to the code: every qubit is
queried on the same (uncollapsed) tableau; a deterministic qubit contributes its value, a random one
both values, independently (classical bit `q` = qubit `q`). -/
def peekAllWords (t : Tab) : Res (List Nat) := do
  let mut ws : List Nat := [0]
  for q in List.range t.n do
    match ← t.measure q with
    | .deterministic false => pure ()
    | .deterministic true => ws := ws.map (· + 2 ^ q)
    | .random _ => ws := ws ++ ws.map (· + 2 ^ q)
  pure ws

def sortNats (l : List Nat) : List Nat := (l.toArray.qsort (· < ·)).toList

/-- number of tableaux reachable from `new n` under H, S, CX (model), breadth-first with a hash set of
`Display` texts (the list-based `closure` of the spec is quadratic; this one is used for `n ≥ 4`) -/
def countClosure (n : Nat) : Option Nat := Id.run do
  let gens := Q1t.Spec.Stab.gens n
  let t0 := Tab.new n
  let mut seen : Std.HashSet String := Std.HashSet.emptyWithCapacity 65536
  seen := seen.insert (showTab t0)
  let mut frontier : Array Tab := #[t0]
  let mut failed := false
  -- at most as many rounds as there are states
  for _ in [0:100000] do
    if frontier.isEmpty || failed then break
    let mut next : Array Tab := #[]
    for t in frontier do
      for g in gens do
        match Q1t.Spec.StabEnum.stepT params t g.gate g.bits with
        | .ok t' =>
          let key := showTab t'
          if !seen.contains key then
            seen := seen.insert key
            next := next.push t'
        | _ => failed := true
    frontier := next
  return if failed then none else some seen.size

/-! ### combinator gate terms -/

/-- `conjugate` of a gate term as the tableau model needs it (Model/Conj.lean with the generated tables) -/
def conjTerm (g : GateTerm Float) : Tab.Conj := fun ops =>
  match Q1t.Conj.conjugateT Q1t.Gen.conjTable Q1t.Gen.conjNoArityCheck g ops with
  | .ok r => .ok r
  | .error (.invalidNrBits a b) => .error (.invalidNrBits a b)
  | .error .notAStabilizer => .error .notAStabilizer
  | .error .oob => .error (.invalidNrBits 999999 999999)   -- index panic inside Composite::conjugate; not generated

def parseBits (s : String) : Option (List Nat) :=
  if s = "-" then some [] else nats? (s.splitOn ",")

mutual
/-- the same term without parameters; `none` if it has a parametrised leaf -/
partial def toE : GateTerm Float → Option (GateTerm Empty)
  | .H => some .H | .X => some .X | .Y => some .Y | .Z => some .Z | .S => some .S | .Sdg => some .Sdg
  | .T => some .T | .Tdg => some .Tdg | .V => some .V | .Vdg => some .Vdg | .I => some .I
  | .CX => some .CX | .CY => some .CY | .CZ => some .CZ | .Swap => some .Swap
  | .C g => (toE g).map .C
  | .Kron a b => do let a ← toE a; let b ← toE b; pure (.Kron a b)
  | .Composite nm n ops => (toEOps ops).map (.Composite nm n)
  | .Loop l k nm n ops => (toEOps ops).map (.Loop l k nm n)
  | _ => none
partial def toEOps : OpList Float → Option (OpList Empty)
  | .nil => some .nil
  | .cons g bits rest => do let g ← toE g; let r ← toEOps rest; pure (.cons g bits r)
end

mutual
/-- Clifford-only and well-formed, decided on the syntax: every leaf is one of the 13 stabilizer gates, no
`C<..>`, every sub-gate sits on as many distinct in-range local qubits as it has -/
partial def cliffordWF : GateTerm Empty → Bool
  | .H | .X | .Y | .Z | .S | .Sdg | .V | .Vdg | .I | .CX | .CY | .CZ | .Swap => true
  | .Kron a b => cliffordWF a && cliffordWF b
  | .Composite _ n ops => cliffordWFOps n ops
  | .Loop _ _ _ n ops => cliffordWFOps n ops
  | _ => false
partial def cliffordWFOps (n : Nat) : OpList Empty → Bool
  | .nil => true
  | .cons g bits rest =>
    cliffordWF g && bits.length == Gate.nrBits g && bits.all (· < n) &&
      Q1t.Spec.StabEnum.nodupBy (· == ·) bits && cliffordWFOps n rest
end

/-- the documented matrix of `g` (Spec.specMatrix over ℚ(ζ₈)) embedded on `bits` (Spec.embed), multiplied by
the common denominator of its entries so that it lies in ℤ[ζ₈] (a positive multiple: rays are unchanged) -/
def termMatrix (g : GateTerm Empty) (n : Nat) (bits : List Nat) : List (List Z8) :=
  let M : LMat Q8 := Q1t.Spec.embed n bits (Q1t.Spec.specMatrix (α := Q8) (P := Empty) g)
  let d : Nat := M.foldl (fun acc row => row.foldl (fun acc x =>
    Nat.lcm (Nat.lcm (Nat.lcm (Nat.lcm acc x.a.den) x.b.den) x.c.den) x.d.den) acc) 1
  let D : Rat := (d : Int)
  M.map fun row => row.map fun x => ⟨(x.a * D).num, (x.b * D).num, (x.c * D).num, (x.d * D).num⟩

/-- exact state-vector result: (scaled, embedded documented matrix) · ψ -/
def applyTermSpec (M : List (List Z8)) (ψ : Vec) : Vec :=
  M.map fun row => (List.zipWith (· * ·) row ψ).foldl (· + ·) 0

/-- ops of an `auto` request: tokens after the `|`, ops separated by `;` -/
def parseCircuitOps (toks : List String) : Option (List (Q1t.Sim.COp Float)) :=
  let groups : List (List String) := toks.foldl (fun acc w =>
    if w == ";" then acc ++ [[]] else
    match acc.getLast? with
    | some g => acc.dropLast ++ [g ++ [w]]
    | none => [[w]]) [[]]
  (groups.filter (· ≠ [])).mapM Q1t.SimParse.parseOp

def handle (line : String) : String :=
  match words line with
  | ["new", n] =>
    match n.toNat? with
    | some n => "ok " ++ showTab (Tab.new n)
    | none => "bad-op"
  | ["count", n] =>
    match n.toNat? with
    | some n =>
      if n ≥ 4 then (match countClosure n with
        | some c => s!"ok {c}"
        | none => "fail")
      else match Q1t.Spec.StabEnum.closure params n 200 with
      | some l => s!"ok {l.length}"
      | none => "fail"
    | none => "bad-op"
  | "auto" :: _det :: _nq :: _nc :: "|" :: toks =>
    match parseCircuitOps toks with
    | some ops => s!"isstab {Q1t.Conj.isStabilizerCircuit ops}"
    | none => "bad-op"
  | "hist" :: _ => "any"
  | "hist2" :: _ => "any"
  | "stream" :: _ => "ok"   -- a generator stream of the harness ran to its end (a panic in the code under test ends it)
  | "conj" :: name :: ops =>
    match nats? ops with
    | some ops =>
      match conjFor name (ops.map P.ofBits) with
      | .ok (flip, o) => (s!"ok {if flip then 1 else 0} " ++ joinNats (o.map P.toBits)).trimAscii.toString
      | .error e => showGErr e
    | none => "bad-op"
  | ["isstab", name] =>
    match Q1t.Gen.conjTable.find? (fun e => e.1 == name) with
    | some (_, _, flag, _) => if flag then "true" else "false"
    | none => "unknown-gate"
  | op :: ts :: rest =>
    match parseTab ts with
    | none => "bad-tab"
    | some t =>
      match op, rest with
      | "swap", [a, b] =>
        match a.toNat?, b.toNat? with
        | some a, some b => showTabRes (t.swapRows a b)
        | _, _ => "bad-op"
      | "mul", [a, b] =>
        match a.toNat?, b.toNat? with
        | some a, some b => showTabRes (t.multiplyRow ph a b)
        | _, _ => "bad-op"
      | "norm", [] => showTabRes (t.normalize ph)
      | "gate", name :: bits =>
        match nats? bits with
        | some bits => showTabRes (t.applyGate ph (conjFor name) bits)
        | none => "bad-op"
      | "measure", [q] =>
        match q.toNat? with
        | some q => showRes showMInfo (t.measure q)
        | none => "bad-op"
      | "collapse", [i, q, v] =>
        match i.toNat?, q.toNat?, bool? v with
        | some i, some q, some v => showTabRes (t.collapse ph i q v)
        | _, _, _ => "bad-op"
      | "reset", [q] =>
        match q.toNat? with
        | some q => showTabRes (t.reset ph q)
        | none => "bad-op"
      | "mcollapse", [q, v] =>
        match q.toNat?, bool? v with
        | some q, some v =>
          match t.measure q with
          | .ok (.deterministic b) => s!"det {if b then 1 else 0}"
          | .ok (.random i) => showTabRes (t.collapse ph i q v)
          | r => showRes showMInfo r
        | _, _ => "bad-op"
      | "tgate", _mode :: bits :: term =>
        match parseBits bits, Q1t.GateParse.parseGate term with
        | some bits, some (g, []) => showTabRes (t.applyGate ph (conjTerm g) bits)
        | _, _ => "bad-op"
      | "minto", [q, b] =>
        -- `measure_into(q, b)` on one shot whose register word is all ones beforehand
        match q.toNat?, b.toNat? with
        | some q, some b =>
          let all := 2 ^ 64 - 1
          let put (v : Bool) : Nat := if v then all else all ^^^ (1 <<< b)
          match t.measure q with
          | .ok (.deterministic v) => s!"any {put v} {showTab t}"
          | .ok (.random i) =>
            match t.collapse ph i q false, t.collapse ph i q true with
            | .ok t0, .ok t1 => s!"any {put false} {showTab t0} | {put true} {showTab t1}"
            | r0, _ => showTabRes r0
          | r => showRes showMInfo r
        | _, _ => "bad-op"
      | "minto2", [q, b] =>
        -- measure into bit b, X on the qubit, measure into bit b again (register all ones beforehand)
        match q.toNat?, b.toNat? with
        | some q, some b =>
          let all := 2 ^ 64 - 1
          let put (v : Bool) : Nat := if v then all else all ^^^ (1 <<< b)
          let second (t1 : Tab) : Option String :=
            match t1.applyGate ph (conjFor "X") [q] with
            | .ok t2 =>
              match t2.measure q with
              | .ok (.deterministic v) => some s!"{put v} {showTab t2}"
              | _ => none
            | _ => none
          match t.measure q with
          | .ok (.deterministic _) => (match second t with | some a => "any " ++ a | none => "model-stuck")
          | .ok (.random i) =>
            match t.collapse ph i q false, t.collapse ph i q true with
            | .ok t0, .ok t1 =>
              (match second t0, second t1 with
               | some a0, some a1 => s!"any {a0} | {a1}"
               | _, _ => "model-stuck")
            | r0, _ => showTabRes r0
          | r => showRes showMInfo r
        | _, _ => "bad-op"
      | "words", [] =>
        match Q1t.TableauBits.ofTab t with
        | some tb =>
          if Q1t.TableauBits.toTab tb == some t then
            "ok " ++ " ".intercalate (tb.xz.map hex16) ++ " | " ++ " ".intercalate (tb.signs.map hex16)
          else "roundtrip-failed"
        | none => "panic index"
      | "peekall", [] =>
        showRes (fun ws => "any " ++ joinNats (sortNats ws)) (peekAllWords t)
      | "smeasure", [q] =>
        match q.toNat? with
        | some q =>
          match t.measure q with
          | .ok (.deterministic v) => s!"any {if v then 1 else 0} {showTab t}"
          | .ok (.random i) =>
            match t.collapse ph i q false, t.collapse ph i q true with
            | .ok t0, .ok t1 => s!"any 0 {showTab t0} | 1 {showTab t1}"
            | r0, _ => showTabRes r0
          | r => showRes showMInfo r
        | none => "bad-op"
      | _, _ => "bad-op"
  | _ => "bad-op"

/-! ### spec mode -/

def distinctInRange (n : Nat) (bits : List Nat) : Bool :=
  bits.all (· < n) && Q1t.Spec.StabEnum.nodupBy (· == ·) bits

/-- the last row with X or Y in column `q` (the documented argument of `collapse`) -/
def lastXRow (t : Tab) (q : Nat) : Option Nat :=
  (Tab.revRange t.n).find? fun i => match t.cell i q with | .ok p => p.hasX | _ => false

def xMat : Mat2 := ⟨0, 1, 1, 0⟩

/-- probability-zero test for outcome word `w` (bit `q` of `w` = qubit `q`) -/
def amplitudeOfWord (n : Nat) (v : Vec) (w : Nat) : Z8 :=
  -- basis index with qubit q = bit q of w; qubit 0 is the most significant index bit
  let idx := (List.range n).foldl (fun acc q => acc * 2 + (w / 2 ^ q) % 2) 0
  vget v idx

/-! ### Pauli-group reference for registers that are out of reach of state vectors (`n > 8`) -/

/-- the multiplication table of the Pauli matrices, `σ_a σ_b = i^k σ_c` (the reference `Spec.Pauli.mulP` finds the
same pairs by searching the matrices; this literal copy is used for speed on wide registers and is compared with
it once, in `mulTabOk`) -/
def mulTab : P → P → Nat × P
  | .I, p => (0, p)
  | p, .I => (0, p)
  | .Z, .Z => (0, .I) | .Z, .X => (1, .Y) | .Z, .Y => (3, .X)
  | .X, .Z => (3, .Y) | .X, .X => (0, .I) | .X, .Y => (1, .Z)
  | .Y, .Z => (1, .X) | .Y, .X => (3, .Z) | .Y, .Y => (0, .I)

def mulTabOk : Bool := allP.all fun a => allP.all fun b => mulTab a b == mulP a b

/-- product in the Pauli group, with the table -/
def pmul (p q : PStr) : PStr :=
  let cells := List.zipWith mulTab p.ops q.ops
  ⟨(p.phase + q.phase + cells.foldl (fun acc c => acc + c.1) 0) % 4, cells.map (·.2)⟩

def commuteFast (a b : List P) : Bool :=
  ((List.zipWith (fun x y => (mulTab x y).1 % 2) a b).foldl (· + ·) 0) % 2 == 0

/-- lowest set bit of a natural number (0 for 0) -/
def lowBit (x : Nat) : Nat := x ^^^ (x &&& (x - 1))

/-- reduce the signed Pauli string `g` against an echelon basis (pairs (bit vector, string) with distinct
lowest bits), multiplying in the Pauli group of the reference semantics; `none` if it is not in the span -/
partial def reduceIn (basis : Array (Nat × PStr)) (bits : Nat) (g : PStr) : Option PStr :=
  if bits = 0 then some g else
  match basis.find? (fun b => lowBit b.1 == lowBit bits) with
  | none => none
  | some (bb, bs) => reduceIn basis (bits ^^^ bb) (pmul g bs)

/-- echelon basis of the group generated by signed rows; `none` if the rows are dependent -/
def mkBasis (rows : List PStr) : Option (Array (Nat × PStr)) := Id.run do
  let mut basis : Array (Nat × PStr) := #[]
  for g in rows do
    -- reduce as far as possible
    let mut bits := rowBits g.ops
    let mut cur := g
    let mut fuel := rows.length + 2
    while fuel > 0 do
      fuel := fuel - 1
      if bits == 0 then break
      match basis.find? (fun b => lowBit b.1 == lowBit bits) with
      | none => break
      | some (bb, bs) =>
        bits := bits ^^^ bb
        cur := pmul cur bs
    if bits == 0 then return none
    basis := basis.push (bits, cur)
  return some basis

def signedRows (t : Tab) : List PStr := List.zipWith rowStr t.signs t.rows

def allCommute (rows : List PStr) : Bool :=
  rows.all fun a => rows.all fun b => commuteFast a.ops b.ops

/-- do the two lists of signed rows (each commuting, independent) generate the same group, signs included -/
def sameGroupB (exp got : List PStr) : Option Bool :=
  if exp.length != got.length || !allCommute exp then none else
  match mkBasis exp with
  | none => none
  | some basis =>
    some (got.all fun g =>
      match reduceIn basis (rowBits g.ops) g with
      | some r => r.phase % 4 == 0
      | none => false)

/-- symbolic conjugation of a Pauli string on the gate's own qubits by the documented matrix of the gate
(search among the `2·4^k` signed strings for the one with `M·P·Mᴴ = ±P'`, over ℚ(ζ₈)) -/
def conjSym (g : GateTerm Empty) (L : List P) : Option (Bool × List P) :=
  let M : LMat Q8 := Q1t.Spec.specMatrix (α := Q8) (P := Empty) g
  let lhs := Q1t.Spec.Clifford.conjBy Empty M (Q1t.Spec.Clifford.pauliMat Empty L)
  let cands := (Q1t.Spec.Clifford.allStrings L.length).flatMap fun L' => [(false, L'), (true, L')]
  cands.find? fun fl => decide (lhs = Q1t.Spec.Clifford.signed fl.1 (Q1t.Spec.Clifford.pauliMat Empty fl.2 : LMat Q8))

/-- the 13 stabilizer primitives with their symbolic conjugation tables, computed once -/
def primSymTables : List (String × List (List P × Option (Bool × List P))) :=
  let prims : List (String × GateTerm Empty) :=
    [("I", .I), ("X", .X), ("Y", .Y), ("Z", .Z), ("H", .H), ("S", .S), ("Sdg", .Sdg), ("V", .V), ("Vdg", .Vdg),
     ("CX", .CX), ("CY", .CY), ("CZ", .CZ), ("Swap", .Swap)]
  prims.map fun (nm, g) => (nm, (Q1t.Spec.Clifford.allStrings (Gate.nrBits g)).map fun L => (L, conjSym g L))

/-- the signed rows after conjugating every row by gate `g` on `bits`, symbolically -/
def conjRowsSym (g : GateTerm Empty) (bits : List Nat) (t : Tab) : Option (List PStr) :=
  let table : List (List P × Option (Bool × List P)) :=
    match (Q1t.Conj.primName g).bind fun nm => primSymTables.find? (fun e => e.1 == nm) with
    | some e => e.2
    | none => (Q1t.Spec.Clifford.allStrings bits.length).map fun L => (L, conjSym g L)
  (List.zip t.signs t.rows).mapM fun (s, r) => do
    let L ← bits.mapM fun b => r[b]?
    let (_, res) ← table.find? (fun e => e.1 == L)
    let (flip, L') ← res
    let r' := (bits.zip L').foldl (fun acc bp => acc.set bp.1 bp.2) r
    pure (rowStr (s != flip) r')

mutual
/-- a combinator term on the qubits `bits`, expanded into its primitive gates in execution order (the documented
meaning of `Composite` / `Kron` / `Loop`: sub-gates one after the other on their mapped qubits) -/
partial def flattenTerm : GateTerm Empty → List Nat → Option (List (GateTerm Empty × List Nat))
  | .Kron a b, bits => do
      let na := Gate.nrBits a
      let xs ← flattenTerm a (bits.take na)
      let ys ← flattenTerm b (bits.drop na)
      pure (xs ++ ys)
  | .Composite _ _ ops, bits => flattenOps ops bits
  | .Loop _ iters _ _ ops, bits => do
      let body ← flattenOps ops bits
      pure ((List.replicate iters body).flatten)
  | .C _, _ => none
  | g, bits => some [(g, bits)]
partial def flattenOps : OpList Empty → List Nat → Option (List (GateTerm Empty × List Nat))
  | .nil, _ => some []
  | .cons g lbits rest, bits => do
      let mapped ← lbits.mapM fun b => bits[b]?
      let xs ← flattenTerm g mapped
      let ys ← flattenOps rest bits
      pure (xs ++ ys)
end

/-- symbolic conjugation by a sequence of primitive gates -/
def conjSeqSym (seq : List (GateTerm Empty × List Nat)) (t : Tab) : Option (List PStr) :=
  seq.foldlM (fun (rows : List PStr) (gb : GateTerm Empty × List Nat) =>
    conjRowsSym gb.1 gb.2 ⟨t.n, rows.map (·.ops), rows.map (fun r => r.phase % 4 == 2)⟩) (signedRows t)

/-- (B) for `n > 8`: the Pauli-group reference -/
def specCheckBig (t : Tab) (op : String) (rest aw : List String) : String :=
  let rows := signedRows t
  if !mulTabOk then "fail spec-multiplication-table-inconsistent" else
  if !allCommute rows || (mkBasis rows).isNone then "skip" else
  let resTab : Option Tab := match aw with
    | ["ok", s] => parseTab s
    | _ => none
  let judge (exp : List PStr) (tag : String) : String :=
    match resTab with
    | none => s!"fail {tag}-did-not-return"
    | some t' =>
      match sameGroupB exp (signedRows t') with
      | some true => "ok"
      | some false => s!"fail {tag}-changes-group the signed generators after the operation do not generate the group obtained symbolically (Pauli-group reference, n > 8)"
      | none => s!"fail {tag}-result-not-a-stabilizer-tableau"
  match op, rest with
  | "swap", [a, b] =>
    match a.toNat?, b.toNat? with
    | some a, some b => if a < t.n && b < t.n then judge rows "swap" else "skip"
    | _, _ => "fail bad-request"
  | "mul", [a, b] =>
    match a.toNat?, b.toNat? with
    | some a, some b => if a < t.n && b < t.n && a != b then judge rows "mul" else "skip"
    | _, _ => "fail bad-request"
  | "norm", [] => judge rows "norm"
  | "gate", name :: bits =>
    match nats? bits, Q1t.GateParse.parseGate [name] with
    | some bits, some (g, []) =>
      match toE g with
      | some ge =>
        if cliffordWF ge && bits.all (· < t.n) && Q1t.Spec.StabEnum.nodupBy (· == ·) bits && bits.length == Gate.nrBits ge then
          match conjRowsSym ge bits t with
          | some exp => judge exp "gate"
          | none => "fail spec-symbolic-conjugation-failed"
        else "skip"
      | none => "skip"
    | _, _ => "skip"
  | "tgate", _mode :: bits :: term =>
    match parseBits bits, Q1t.GateParse.parseGate term with
    | some bits, some (g, []) =>
      match toE g with
      | some ge =>
        if cliffordWF ge && bits.all (· < t.n) && Q1t.Spec.StabEnum.nodupBy (· == ·) bits && bits.length == Gate.nrBits ge then
          match flattenTerm ge bits with
          | some seq =>
            match conjSeqSym seq t with
            | some exp => judge exp "tgate"
            | none => "fail spec-symbolic-conjugation-failed"
          | none => "skip"
        else "skip"
      | none => "skip"
    | _, _ => "skip"
  | _, _ => "skip"

/-- `mat`: the embedded documented matrix of a `tgate` request when the caller has it cached -/
def specCheck (mat : Option (List (List Z8))) (line : String) : String :=
  match line.splitOn "\t" with
  | [req, ans] =>
    let aw := words ans
    match words req with
    | ["new", n] =>
      match n.toNat?, aw with
      | some n, ["ok", ts] =>
        match parseTab ts with
        | some t => if n > 8 then "skip"   -- exact vectors have 2^n entries
                    else if t.n == n && stabilizesB t (Vec.basis n 0) then "ok" else "fail new-not-zero-state"
        | none => "fail unparsable-answer"
      | _, _ => "fail new-did-not-return"
    | "auto" :: det :: _ =>
      -- isstab B auto CLS vec CLS rega R regv R
      match aw with
      | ["isstab", _, "auto", ca, "vec", cv, "rega", ra, "regv", rv] =>
        if ca != cv then s!"fail auto-choice-changes-result-class automatic representation gives {ca}, explicit vector run gives {cv}"
        else if det == "det" && ca == "ok" && ra != rv then
          s!"fail auto-choice-changes-register deterministic circuit: automatic run stores {ra}, vector run stores {rv}"
        else "ok"
      | _ => "fail auto-did-not-return"
    | "hist" :: _ =>
      -- words w.. | snap count:tab ..   : bit 1 (q1 measured before the reset of q0) must equal bit 2 (q1 read out
      -- afterwards) in every shot, and the ranges must be the runs of equal (bit0, bit1) in shot order, each with
      -- the tableau of |0, bit1, 0..>
      match splitBars aw with
      | [("words" :: ws), ("snap" :: rs)] =>
        match nats? ws with
        | none => "fail unparsable-answer"
        | some ws =>
          match ws.find? (fun w => w.testBit 1 != w.testBit 2) with
          | some w => s!"fail hist-readout-differs-from-stored-bit a shot stored q1={if w.testBit 1 then 1 else 0} before the reset of q0 and reads {if w.testBit 2 then 1 else 0} afterwards"
          | none =>
            -- runs of (bit0, bit1)
            let keys := ws.map fun w => w % 4
            let runs : List (Nat × Nat) := keys.foldl (fun acc k =>
              match acc.getLast? with
              | some (k', c) => if k' == k then acc.dropLast ++ [(k, c + 1)] else acc ++ [(k, 1)]
              | none => [(k, 1)]) []
            let got : List (Nat × Bool) := rs.filterMap fun r =>
              match r.splitOn ":" with
              | [c, t] => c.toNat?.map fun c => (c, (t.splitOn ",").getD 1 "" |>.startsWith "-")
              | _ => none
            let exp : List (Nat × Bool) := runs.map fun kc => (kc.2, kc.1 / 2 == 1)
            -- adjacent runs with the same q1 value may legitimately be one range or two
            let expand (l : List (Nat × Bool)) : List Bool := l.flatMap fun cb => List.replicate cb.1 cb.2
            if got.length != rs.length then "fail unparsable-answer"
            else if expand got != expand exp then "fail hist-ranges-do-not-match-register the tableaus owned by the shots do not carry the q1 values stored for those shots"
            else "ok"
      | _ => "fail hist-did-not-return"
    | "hist2" :: _n :: shots :: _ =>
      -- after reset_all every shot is |0..0>: X on qubit 1 then a read-out gives 1 in EVERY shot (bit 1), qubit 0 reads 0
      -- (bit 2); the ranges must still account for all shots
      match splitBars aw, shots.toNat? with
      | [("words" :: ws), ("counts" :: cs)], some shots =>
        match nats? ws, nats? cs with
        | some ws, some cs =>
          if ws.length != shots then "fail hist2-register-length"
          else if cs.foldl (· + ·) 0 != shots then s!"fail hist2-counts-do-not-sum-to-shots the ranges after reset_all cover {cs.foldl (· + ·) 0} of {shots} shots"
          else match ws.zipIdx.find? (fun wi => !(wi.1.testBit 1) || wi.1.testBit 2) with
            | some (w, i) => s!"fail hist2-shot-not-reset shot {i}: after reset_all, X(1), read-out of qubits 1 and 0 stored {if w.testBit 1 then 1 else 0} and {if w.testBit 2 then 1 else 0} (expected 1 and 0)"
            | none => "ok"
        | _, _ => "fail unparsable-answer"
      | _, _ => "fail hist2-did-not-return"
    | "stream" :: _ => if aw == ["ok"] then "ok" else "fail stream-panicked the code under test panicked while the harness evolved a state"
    | "conj" :: _ => "skip"
    | ["isstab", _] => "skip"
    | ["count", _] => "skip"
    | op :: ts :: rest =>
      match parseTab ts with
      | none => "fail bad-request"
      | some t =>
        if t.n > 8 then specCheckBig t op rest aw else   -- exact vectors have 2^n entries
        if t.n ≤ 3 && stateOfSlow t != stateOf t then "fail spec-stateOf-inconsistent" else
        match stateOf t with
        | none => "skip"   -- rows do not describe a stabilizer state (non-commuting / dependent)
        | some ψ =>
          let n := t.n
          let resTab : Option Tab := match aw with
            | ["ok", s] => parseTab s
            | _ => none
          match op, rest with
          | "swap", [a, b] | "mul", [a, b] =>
            match a.toNat?, b.toNat? with
            | some a, some b =>
              if a < n && b < n && (op == "swap" || a != b) then
                match resTab with
                | some t' => if stabilizesB t' ψ then "ok" else s!"fail {op}-changes-state"
                | none => s!"fail {op}-did-not-return"
              else "skip"
            | _, _ => "fail bad-request"
          | "norm", [] =>
            match resTab with
            | some t' => if !stabilizesB t' ψ then "fail norm-changes-state"
                         else if !rrefB t' then "fail norm-result-not-canonical" else "ok"
            | none => "fail norm-did-not-return"
          | "gate", name :: bits =>
            match nats? bits with
            | some bits =>
              if distinctInRange n bits then
                match applyGate name n bits ψ with
                | none => "skip"
                | some ψ' =>
                  match resTab with
                  | some t' => if !stabilizesB t' ψ' then "fail gate-result-not-stabilizing"
                               else if !rrefB t' then "fail gate-result-not-canonical" else "ok"
                  | none => "fail gate-did-not-return"
              else "skip"
            | none => "fail bad-request"
          | "measure", [q] =>
            match q.toNat? with
            | some q =>
              if q < n && rrefB t then
                match measKind n q ψ, aw with
                | .certain b, ["det", v] => if bool? v == some b then "ok" else "fail measure-wrong-value"
                | .fair, ["rnd", _] => "ok"
                | .certain _, _ => "fail measure-certain-reported-random"
                | .fair, _ => "fail measure-fair-reported-deterministic"
                | .other, _ => "fail spec-state-not-stabilizer"
              else "skip"
            | none => "fail bad-request"
          | "collapse", [i, q, v] =>
            match i.toNat?, q.toNat?, bool? v with
            | some i, some q, some v =>
              if q < n && rrefB t && measKind n q ψ == .fair && lastXRow t q == some i then
                match resTab with
                | some t' => if !stabilizesB t' (proj n q v ψ) then "fail collapse-result-not-stabilizing"
                             else if !rrefB t' then "fail collapse-result-not-canonical" else "ok"
                | none => "fail collapse-did-not-return"
              else "skip"
            | _, _, _ => "fail bad-request"
          | "reset", [q] =>
            match q.toNat? with
            | some q =>
              if q < n && rrefB t then
                match resTab with
                | none => "fail reset-did-not-return"
                | some t' =>
                  match measKind n q ψ with
                  | .certain b =>
                    let ψ' := if b then apply1 xMat n q ψ else ψ
                    if stabilizesB t' ψ' then "ok" else "fail reset-result-not-stabilizing"
                  | .fair =>
                    let v0 := proj n q false ψ
                    let v1 := apply1 xMat n q (proj n q true ψ)
                    if sameRay v0 v1 then
                      (if stabilizesB t' v0 then "ok" else "fail reset-result-not-stabilizing")
                    else "fail reset-entangled-forced-zero correct result is the mixture of P0ψ and X·P1ψ (different rays); single tableau returned"
                  | .other => "fail spec-state-not-stabilizer"
              else "skip"
            | none => "fail bad-request"
          | "mcollapse", [q, v] =>
            match q.toNat?, bool? v with
            | some q, some v =>
              if q < n && rrefB t then
                match measKind n q ψ with
                | .certain b => if aw == ["det", if b then "1" else "0"] then "ok"
                                else "fail mcollapse-certain-not-reported-deterministic"
                | .fair =>
                  match resTab with
                  | some t' => if !stabilizesB t' (proj n q v ψ) then "fail mcollapse-result-not-stabilizing measure's Random(i) then collapse(i, q, v) does not give the tableau of the projected state vector"
                               else if !rrefB t' then "fail mcollapse-result-not-canonical" else "ok"
                  | none => "fail mcollapse-did-not-return"
                | .other => "fail spec-state-not-stabilizer"
              else "skip"
            | _, _ => "fail bad-request"
          | "tgate", _mode :: bits :: term =>
            match parseBits bits, Q1t.GateParse.parseGate term with
            | some bits, some (g, []) =>
              match toE g with
              | none => "skip"
              | some ge =>
                if cliffordWF ge && distinctInRange n bits && bits.length == Gate.nrBits ge then
                  match resTab with
                  | some t' =>
                    let ψ' := applyTermSpec (mat.getD (termMatrix ge n bits)) ψ
                    if !stabilizesB t' ψ' then "fail tgate-result-not-stabilizing the tableau after apply_gate of a Clifford-only combinator does not stabilize (documented matrix embedded on the qubits) * state"
                    else if !rrefB t' then "fail tgate-result-not-canonical" else "ok"
                  | none => "fail tgate-did-not-return"
                else "skip"
            | _, _ => "fail bad-request"
          | "minto", [q, b] | "minto2", [q, b] =>
            if !rrefB t then "skip" else
            if aw.head? == some "panic" then s!"fail {op}-did-not-return" else
            match q.toNat?, b.toNat?, aw with
            | some q, some b, [w, ts'] =>
              match w.toNat?, parseTab ts' with
              | some w, some t' =>
                let all := 2 ^ 64 - 1
                if w ||| (1 <<< b) != all then s!"fail {op}-touches-other-bits" else
                let o := w.testBit b
                -- minto: the stored bit is the outcome; minto2: the stored bit is the second outcome, after X
                let φ := if op == "minto" then proj n q o ψ else apply1 xMat n q (proj n q (!o) ψ)
                if Vec.isZero φ then s!"fail {op}-stored-bit-is-impossible-outcome the classical bit does not hold a possible measurement result"
                else if stabilizesB t' φ then "ok" else s!"fail {op}-stored-bit-contradicts-state the tableau after the measurement does not stabilize the state selected by the stored bit"
              | _, _ => "fail unparsable-answer"
            | _, _, _ => s!"fail {op}-did-not-return"
          | "words", [] => "skip"
          | "peekall", [] =>
            if !rrefB t then "skip" else
            match aw with
            | "obs" :: ws =>
              match nats? ws with
              | some ws =>
                match ws.find? (fun w => (amplitudeOfWord n ψ w).isZero) with
                | some w => s!"fail peek-all-impossible-outcome word {w} has amplitude 0"
                | none => "ok"
              | none => "fail unparsable-answer"
            | _ => "fail peekall-did-not-return"
          | "smeasure", [q] =>
            if !rrefB t then "skip" else
            if aw.head? == some "panic" then "fail smeasure-did-not-return StabilizerState::measure panicked" else
            match q.toNat?, aw with
            | some q, [o, ts'] =>
              match bool? o, parseTab ts' with
              | some o, some t' =>
                let w := proj n q o ψ
                if Vec.isZero w then "fail smeasure-impossible-outcome"
                else if stabilizesB t' w then "ok" else "fail smeasure-result-not-stabilizing"
              | _, _ => "fail unparsable-answer"
            | _, _ => "fail smeasure-did-not-return"
          | _, _ => "fail bad-request"
    | _ => "fail bad-request"
  | _ => "fail bad-line"

/-- spec mode: as `serve`, with a cache of the embedded matrices of `tgate` requests keyed by
(number of qubits, placement, term) -/
partial def serveSpec : IO Unit := do
  let stdin ← IO.getStdin
  let stdout ← IO.getStdout
  let mut cache : Std.HashMap String (List (List Z8)) := {}
  repeat
    let line ← stdin.getLine
    if line.isEmpty then break
    let mut mat : Option (List (List Z8)) := none
    if line.startsWith "tgate " then
      match words ((line.splitOn "\t").headD "") with
      | "tgate" :: ts :: _mode :: bits :: term =>
        let n := if ts = "_" then 0 else (ts.splitOn ",").length
        let key := s!"{n} {bits} " ++ " ".intercalate term
        match cache[key]? with
        | some m => mat := some m
        | none =>
          if n ≤ 8 then
            match parseBits bits, Q1t.GateParse.parseGate term with
            | some bs, some (g, []) =>
              match toE g with
              | some ge =>
                let m := termMatrix ge n bs
                cache := cache.insert key m
                mat := some m
              | none => pure ()
            | _, _ => pure ()
      | _ => pure ()
    stdout.putStrLn (specCheck mat line)
  stdout.flush

def main (args : List String) : IO Unit :=
  if args = ["spec"] then serveSpec else serve handle

import Driver.GateParse
import Q1t.Model.Sim
/-! Line-protocol parsing/printing for the simulator drivers (shared by C01, C02, C07–C10). -/
namespace Q1t.SimParse
open Q1t Q1t.Sim Q1t.CFloat Q1t.GateParse Q1t.Proto

instance : SimAmp CFloat where
  normSq a := ⟨a.re * a.re + a.im * a.im, 0.0⟩
  rsqrt w := ⟨1.0 / Float.sqrt w.re, 0.0⟩
  min1 w := ⟨if w.re < 1.0 then w.re else (if w.re.isNaN then w.re else 1.0), 0.0⟩
  weightsOk ws := !ws.isEmpty && ws.all (fun w => w.re ≥ 0.0) && (ws.foldl (fun a w => a + w.re) 0.0) > 0.0

def parseBasis : String → Option Basis
  | "X" => some .X | "Y" => some .Y | "Z" => some .Z | _ => none

def takeNats (k : Nat) (ws : List String) : Option (List Nat × List String) :=
  if ws.length < k then none else (nats? (ws.take k)).map fun l => (l, ws.drop k)

/-- parse one op from its tokens -/
def parseOp : List String → Option (COp Float)
  | "gate" :: k :: rest => do
      let k ← k.toNat?
      let (bits, r) ← takeNats k rest
      let (g, r') ← parseGate r
      if r' ≠ [] then none
      pure (.gate g bits)
  | "cond" :: nc :: rest => do
      let nc ← nc.toNat?
      let (control, r) ← takeNats nc rest
      match r with
      | target :: k :: r2 => do
          let target ← target.toNat?
          let k ← k.toNat?
          let (bits, r3) ← takeNats k r2
          let (g, r4) ← parseGate r3
          if r4 ≠ [] then none
          pure (.cond control target g bits)
      | _ => none
  | ["reset", q] => q.toNat?.map .reset
  | ["resetall"] => some .resetAll
  | "barrier" :: k :: rest => do
      let k ← k.toNat?
      let (bits, _) ← takeNats k rest
      pure (.barrier bits)
  | ["measure", q, c, b] => do pure (.measure (← q.toNat?) (← c.toNat?) (← parseBasis b))
  | ["peek", q, c, b] => do pure (.peek (← q.toNat?) (← c.toNat?) (← parseBasis b))
  | "measureall" :: k :: rest => do
      let k ← k.toNat?
      let (cbits, r) ← takeNats k rest
      match r with
      | [b] => (parseBasis b).map (.measureAll cbits)
      | _ => none
  | "peekall" :: k :: rest => do
      let k ← k.toNat?
      let (cbits, r) ← takeNats k rest
      match r with
      | [b] => (parseBasis b).map (.peekAll cbits)
      | _ => none
  | _ => none

/-- split a line into ` | `-separated fields, each a token list -/
def fields (line : String) : List (List String) := splitBars (words line)

/-- `V <n> <K> <counts…> <states…>` (column-major amplitudes) -/
def parseVecSnapshot (nshots : Nat) : List String → Option (VecState CFloat)
  | "V" :: n :: k :: rest => do
      let n ← n.toNat?
      let k ← k.toNat?
      let (counts, r) ← takeNats k rest
      let amps ← parseVec r
      if amps.length ≠ k * 2 ^ n then none
      let cols := (List.range k).map fun c => (amps.drop (c * 2 ^ n)).take (2 ^ n)
      pure { nrBits := n, nrShots := nshots, counts := counts, states := VecState.ofColumns n cols }
  | _ => none

def showVecSnapshot (s : VecState CFloat) : String :=
  let k := s.counts.length
  let cols := (List.range k).map fun c => s.column c
  s!"V {s.nrBits} {k} {joinNats s.counts}" ++ (if k = 0 ∨ s.counts.isEmpty then "" else "") ++
    String.join (cols.map fun col => " " ++ showVec col)

/-- recorded draws: `<n> (B count p n0 | C count k (idx cnt)*k)*` -/
inductive DrawRec where
  | bin (count : Nat) (p : Float) (n0 : Nat)
  | cat (count : Nat) (l : List (Nat × Nat))

partial def parseDrawList : List String → Option (List DrawRec)
  | [] => some []
  | "B" :: c :: p :: n0 :: r => do
      let d := DrawRec.bin (← c.toNat?) (← hexF p) (← n0.toNat?)
      (parseDrawList r).map (d :: ·)
  | "C" :: c :: k :: r => do
      let c ← c.toNat?
      let k ← k.toNat?
      let (flat, r') ← takeNats (2 * k) r
      let pairs := (List.range k).map fun i => (flat.getD (2 * i) 0, flat.getD (2 * i + 1) 0)
      (parseDrawList r').map (DrawRec.cat c pairs :: ·)
  | _ => none

def parseDraws : List String → Option (List DrawRec)
  | _ :: rest => parseDrawList rest
  | [] => none

/-- Interpreter used for the correspondence: consumes the implementation's recorded draws and checks
that each draw node of the model requests the same distribution (count, parameter within 1e-9) that
the implementation logged, and that the recorded value lies in its support. -/
def runChecked {β} : Prog CFloat β → List DrawRec → Except String (Except Fail β × List DrawRec)
  | .pure b, ds => .ok (.ok b, ds)
  | .fail e, ds => .ok (.error e, ds)
  | .binomial c p k, .bin c' p' n0 :: ds =>
      if c ≠ c' then .error s!"binomial-count model={c} impl={c'}"
      else if !(Float.abs (p.re - p') ≤ 1e-9) then .error s!"binomial-parameter model={p.re} impl={p'}"
      else if n0 > c then .error "binomial-draw-out-of-support"
      else if (n0 > 0 ∧ p' ≤ 0.0) ∨ (n0 < c ∧ p' ≥ 1.0) then .error "binomial-draw-has-probability-zero"
      else runChecked (k n0) ds
  | .binomial _ _ _, _ => .error "model-draws-binomial-impl-did-not"
  | .categorical ws c k, .cat c' l :: ds =>
      if c ≠ c' then .error s!"categorical-count model={c} impl={c'}"
      else if (l.map (·.2)).foldl (· + ·) 0 ≠ c then .error "categorical-counts-do-not-sum"
      else if !(l.all fun ic => ic.1 < ws.length ∧ 0 < ic.2) then .error "categorical-index-out-of-range"
      else if !(l.all fun ic => (ws.getD ic.1 0).re > 0.0) then .error "categorical-draw-has-probability-zero"
      else runChecked (k l) ds
  | .categorical _ _ _, _ => .error "model-draws-categorical-impl-did-not"

def showSimErr : SimErr → String
  | .invalidQBit q => s!"err invalidQBit {q}"
  | .invalidCBit c => s!"err invalidCBit {c}"
  | .notEnoughSpace a b => s!"err notEnoughSpace {a} {b}"
  | .invalidNrMeasurementBits a b => s!"err invalidNrMeasurementBits {a} {b}"
  | .invalidNrBits a b => s!"err invalidNrBits {a} {b}"
  | .invalidNrControlBits a b => s!"err invalidNrControlBits {a} {b}"
  | .notAStabilizer => "err notAStabilizer"
  | .notExecuted => "err notExecuted"

end Q1t.SimParse

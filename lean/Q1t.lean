-- This module serves as the root of the `Q1t` library.
-- Import modules here that should be built as part of the library.
import Q1t.Basic

import Q1t.Base.Amp
import Q1t.Model.Gate
/-!
Model of the simulator spine (import-free, executable):

* `Prog` — a tiny free monad: the only way randomness reaches a result is through a `binomial` or a
  `categorical` node (DESIGN.md M3).  Two interpreters live elsewhere over the *same* term:
  `runOracle` (deterministic given the draws; used for the correspondence with the implementation,
  the draws being inferred from the implementation's own trace) and `expect` (in `Q1t/Proofs`).
* the classical register writes of `measure_into`, `measure_all_into_helper`, `peek_into`,
  `peek_all_into` (`src/vectorstate.rs`), `support::reverse_bits`, `support::shuffle_bits`;
* `qustate::collect_conditional_ranges`;
* `VectorState`: `apply_gate`, `apply_unary_gate_all`, `apply_conditional_gate`, `measure_into`,
  `measure_all_into`, `peek_into`, `peek_all_into`, `reset`, `reset_all`, `collapse`;
* `Circuit::do_execute_with` generically over a backend (`Backend S`), so that the stabilizer
  backend (`Q1t/Model/StabSim.lean`) plugs into the same executor.
-/
namespace Q1t.Sim
open Q1t

/-- the error constructors of `error::Error` that execution can return -/
inductive SimErr where
  | invalidQBit (q : Nat)
  | invalidCBit (c : Nat)
  | notEnoughSpace (have_ need : Nat)
  | invalidNrMeasurementBits (given need : Nat)
  | invalidNrBits (given need : Nat)
  | invalidNrControlBits (given need : Nat)
  | notAStabilizer
  | notExecuted
deriving DecidableEq, Repr

inductive Fail where
  | err (e : SimErr)
  | panic (site : String)
deriving DecidableEq, Repr

/-- Programs that may draw random numbers.  `binomial c p k`: draw `n0 ~ Binomial(c, p)`, continue
with `k n0`.  `categorical ws c k`: draw `c` independent indices from `WeightedIndex(ws)` and hand the
resulting multiset to `k` as a list of `(index, count)` with distinct indices, positive counts summing to
`c`, in the iteration order of the implementation's hash map (an oracle). -/
inductive Prog (W : Type) (β : Type) where
  | pure : β → Prog W β
  | fail : Fail → Prog W β
  | binomial : Nat → W → (Nat → Prog W β) → Prog W β
  | categorical : List W → Nat → (List (Nat × Nat) → Prog W β) → Prog W β

namespace Prog
variable {W β γ : Type}

def bind : Prog W β → (β → Prog W γ) → Prog W γ
  | .pure b, f => f b
  | .fail e, _ => .fail e
  | .binomial c p k, f => .binomial c p (fun n => bind (k n) f)
  | .categorical ws c k, f => .categorical ws c (fun l => bind (k l) f)

instance : Monad (Prog W) where
  pure := Prog.pure
  bind := Prog.bind

def err (e : SimErr) : Prog W β := .fail (.err e)
def panic (s : String) : Prog W β := .fail (.panic s)
def ofOption (site : String) : Option β → Prog W β
  | some b => .pure b
  | none => panic site

/-- one recorded random draw -/
inductive Draw where
  | bin (n0 : Nat)
  | cat (l : List (Nat × Nat))
deriving DecidableEq, Repr

/-- Deterministic interpreter: consume recorded draws.  A draw outside the support of the requested
distribution (more zeros than shots; categorical counts not summing to the shot count, repeated or
out-of-range indices) is rejected: `none`. Returns the result and the unconsumed draws. -/
def runOracle : Prog W β → List Draw → Option (Except Fail β × List Draw)
  | .pure b, ds => some (.ok b, ds)
  | .fail e, ds => some (.error e, ds)
  | .binomial c _ k, .bin n0 :: ds => if n0 ≤ c then runOracle (k n0) ds else none
  | .binomial _ _ _, _ => none
  | .categorical ws c k, .cat l :: ds =>
      if (l.map (·.2)).foldl (· + ·) 0 = c ∧ l.all (fun ic => ic.1 < ws.length ∧ 0 < ic.2) ∧ (l.map (·.1)).Nodup
      then runOracle (k l) ds else none
  | .categorical _ _ _, _ => none

end Prog

/-! ### classical register words (u64) -/

/-- `1 << c` on u64 panics for `c ≥ 64` in a checked build -/
def shiftOk (c : Nat) : Bool := c < 64

def setBitTo (w : Nat) (c : Nat) (v : Bool) : Nat :=
  if v then w ||| (1 <<< c) else w &&& ((2 ^ 64 - 1) ^^^ (1 <<< c))

/-- `support::reverse_bits` -/
def reverseBits (idx : Nat) (nrBits : Nat) : Nat :=
  (List.range nrBits).foldl (fun res i => res ||| (((idx >>> i) &&& 1) <<< (nrBits - 1 - i))) 0

/-- `support::shuffle_bits`; `none` = shift overflow -/
def shuffleBits (idx : Nat) (bits : List Nat) : Option Nat :=
  if bits.all shiftOk then
    some ((bits.zipIdx.foldl (fun res (b, i) => res ||| (((idx >>> i) &&& 1) <<< b)) 0))
  else none

/-- write the outcomes of one range: `n0` zeros then `c - n0` ones into bit `cbit` of the words
`[start, start+c)` -/
def writeRange (res : List Nat) (start c n0 cbit : Nat) : List Nat :=
  res.zipIdx.map fun (w, i) =>
    if start ≤ i ∧ i < start + n0 then setBitTo w cbit false
    else if start + n0 ≤ i ∧ i < start + c then setBitTo w cbit true
    else w

/-! ### `collect_conditional_ranges` -/

/-- scan one range `[off, off+count)` of the control mask; `none` = index panic -/
def scanRange (control : List Bool) (icol off count : Nat) : Option (List (Nat × Nat × Bool)) :=
  match control[off]? with
  | none => none
  | some first =>
    let step := fun (st : List (Nat × Nat × Bool) × Nat × Bool) (ibit : Nat) =>
      let (acc, begin, prev) := st
      if control.getD ibit prev != prev then (acc ++ [(icol, ibit - begin, prev)], ibit, !prev) else st
    let (acc, begin, prev) := (List.range' (off + 1) (count - 1)).foldl step ([], off, first)
    if off + count ≤ control.length ∨ count = 0 then
      some (if begin < off + count then acc ++ [(icol, off + count - begin, prev)] else acc)
    else none

def collectLoop (control : List Bool) : List Nat → Nat → Nat → Option (List (Nat × Nat × Bool))
  | [], _, _ => some []
  | count :: rest, icol, off =>
    (scanRange control icol off count).bind fun r =>
      (collectLoop control rest (icol + 1) (off + count)).map (r ++ ·)

/-- `qustate::collect_conditional_ranges(counts, control)`: triples (column, length, apply) -/
def collectConditionalRanges (counts : List Nat) (control : List Bool) : Option (List (Nat × Nat × Bool)) :=
  collectLoop control counts 0 0

/-! ### the vector backend -/

/-- extra amplitude operations the simulator needs -/
class SimAmp (α : Type) where
  /-- `c.norm_sqr()` embedded as a (real) amplitude -/
  normSq : α → α
  /-- `Complex::new(1.0 / w.sqrt(), 0.0)` -/
  rsqrt : α → α
  /-- `w.min(1.0)` -/
  min1 : α → α
  /-- validity of a weight list for `WeightedIndex::new` (not all zero, none negative/NaN) -/
  weightsOk : List α → Bool

structure VecState (α : Type) where
  nrBits : Nat
  nrShots : Nat
  counts : List Nat
  /-- `2^nrBits` rows, one column per range -/
  states : LMat α

variable {α P : Type} [Zero α] [One α] [Add α] [Mul α] [Neg α] [Sub α] [Amp α P] [SimAmp α]

namespace VecState

/-- `VectorState::new` -/
def new (nrBits nrShots : Nat) : VecState α :=
  { nrBits, nrShots, counts := [nrShots],
    states := (List.range (2 ^ nrBits)).map fun r => [if r = 0 then (1 : α) else 0] }

def nrCols (s : VecState α) : Nat := s.counts.length

def column (s : VecState α) (k : Nat) : List α := s.states.map fun row => row.getD k 0

/-- the matrix with the given columns -/
def ofColumns (n : Nat) (cols : List (List α)) : LMat α :=
  (List.range (2 ^ n)).map fun r => cols.map fun c => c.getD r 0

/-- `apply_gate` -/
def applyGate (s : VecState α) (g : GateTerm P) (bits : List Nat) : Prog α (VecState α) :=
  if Gate.nrBits g ≠ bits.length then Prog.err (.invalidNrBits bits.length (Gate.nrBits g))
  else match Gate.applyGateSlice .mat g bits s.nrBits s.states with
    | none => Prog.panic "apply_gate_mat_slice"
    | some st => .pure { s with states := st }

/-- `apply_unary_gate_all` -/
def applyUnaryAll (s : VecState α) (g : GateTerm P) : Prog α (VecState α) :=
  (List.range s.nrBits).foldl (fun acc bit => acc.bind fun st => applyGate st g [bit]) (.pure s)

/-- `apply_conditional_gate` -/
def applyConditional (s : VecState α) (control : List Bool) (g : GateTerm P) (bits : List Nat) :
    Prog α (VecState α) :=
  if control.length ≠ s.nrShots then Prog.err (.invalidNrControlBits control.length s.nrShots)
  else if Gate.nrBits g ≠ bits.length then Prog.err (.invalidNrBits bits.length (Gate.nrBits g))
  else match collectConditionalRanges s.counts control with
    | none => Prog.panic "collect_conditional_ranges index"
    | some ranges =>
      let cols := ranges.mapM fun (icol, _, apply) =>
        let col := s.column icol
        if apply then Gate.applyGateSlice (α := α) .vec g bits s.nrBits col else some col
      match cols with
      | none => Prog.panic "apply_gate_slice"
      | some cols => .pure { s with states := ofColumns s.nrBits cols, counts := ranges.map (·.2.1) }

/-- weight of outcome 0 of qubit `q` in every column: blocks of `block_size` rows with the
qubit's index bit clear -/
def weights0 (s : VecState α) (q : Nat) : List α :=
  let blockSize := 2 ^ (s.nrBits - q - 1)
  (List.range s.nrCols).map fun k =>
    (s.states.zipIdx.foldl (fun acc (row, r) =>
      if (r / blockSize) % 2 = 0 then acc + SimAmp.normSq (row.getD k 0) else acc) (0 : α))

/-- `collapse(coefs, block_size, nr_blocks, offset, norm_sq)`: zero the blocks of the other outcome
(`keep` = the outcome kept), renormalise -/
def collapseCol (n q : Nat) (col : List α) (keep : Bool) (normSq : α) : List α :=
  let blockSize := 2 ^ (n - q - 1)
  col.zipIdx.map fun (a, r) =>
    (if ((r / blockSize) % 2 = 1) = keep then a else 0) * SimAmp.rsqrt normSq

/-- draw `Binomial(c_k, min(w0_k, 1))` for every range, in order -/
def drawAll : List (α × Nat) → (List Nat → Prog α β) → Prog α β
  | [], k => k []
  | (w, c) :: rest, k => .binomial c (SimAmp.min1 w) fun n0 => drawAll rest fun ns => k (n0 :: ns)

/-- the second loop of `measure_into` -/
def measureLoop (n q cbit : Nat) :
    List (List α × α × Nat × Nat) → Nat → List Nat → List (List α) → List Nat →
    (List Nat × List (List α) × List Nat)
  | [], _, res, cols, counts => (res, cols, counts)
  | (col, w0, c, n0) :: rest, start, res, cols, counts =>
    let res' := writeRange res start c n0 cbit
    if n0 = c then
      measureLoop n q cbit rest (start + c) res' (cols ++ [collapseCol n q col false w0]) (counts ++ [c])
    else if n0 = 0 then
      measureLoop n q cbit rest (start + c) res' (cols ++ [collapseCol n q col true (1 - w0)]) (counts ++ [c])
    else
      measureLoop n q cbit rest (start + c) res'
        (cols ++ [collapseCol n q col false w0, collapseCol n q col true (1 - w0)]) (counts ++ [n0, c - n0])

/-- `measure_into` -/
def measureInto (s : VecState α) (q cbit : Nat) (res : List Nat) : Prog α (VecState α × List Nat) :=
  if s.nrBits ≤ q then Prog.err (.invalidQBit q)
  else if res.length < s.nrShots then Prog.err (.notEnoughSpace res.length s.nrShots)
  else
    let w0s := weights0 s q
    drawAll (w0s.zip s.counts) fun n0s =>
      if ¬ shiftOk cbit then Prog.panic "1 << cbit" else
      let items := (List.range s.nrCols).map fun k =>
        (s.column k, w0s.getD k 0, s.counts.getD k 0, n0s.getD k 0)
      let (res', cols, counts) := measureLoop s.nrBits q cbit items 0 res [] []
      .pure ({ s with states := ofColumns s.nrBits cols, counts := counts }, res')

/-- `peek_into` -/
def peekInto (s : VecState α) (q cbit : Nat) (res : List Nat) : Prog α (List Nat) :=
  if s.nrBits ≤ q then Prog.err (.invalidQBit q)
  else if res.length < s.nrShots then Prog.err (.notEnoughSpace res.length s.nrShots)
  else if ¬ shiftOk cbit then Prog.panic "1 << cbit"
  else
    let w0s := weights0 s q
    let rec go : List (α × Nat) → Nat → List Nat → Prog α (List Nat)
      | [], _, res => .pure res
      | (w, c) :: rest, start, res =>
        .binomial c (SimAmp.min1 w) fun n0 => go rest (start + c) (writeRange res start c n0 cbit)
    go (w0s.zip s.counts) 0 res

/-- the sampling loop of `measure_all_into_helper`: one categorical draw per column -/
def sampleAll : List (List α × Nat) → (List (Nat × Nat) → Prog α β) → Prog α β
  | [], k => k []
  | (ws, c) :: rest, k =>
    if ¬ SimAmp.weightsOk ws then Prog.panic "WeightedIndex::new(..).unwrap()"
    else .categorical ws c fun l => sampleAll rest fun ls => k (l ++ ls)

/-- `measure_all_into_helper` -/
def measureAllHelper (s : VecState α) (cbits : List Nat) (res : List Nat) (collapse : Bool) :
    Prog α (VecState α × List Nat) :=
  if res.length < s.nrShots then Prog.err (.notEnoughSpace res.length s.nrShots)
  else if cbits.length ≠ s.nrBits then Prog.err (.invalidNrMeasurementBits cbits.length s.nrBits)
  else
    let cols := (List.range s.nrCols).map fun k => ((s.column k).map SimAmp.normSq, s.counts.getD k 0)
    sampleAll cols fun stateCounts =>
      if ¬ cbits.all shiftOk then Prog.panic "1u64 << b" else
      let mask := cbits.foldl (fun m b => m ||| (1 <<< b)) 0
      let step := fun (st : List Nat × Nat) (ic : Nat × Nat) =>
        let (res, off) := st
        let rev := reverseBits ic.1 s.nrBits
        let perm := (shuffleBits rev cbits).getD 0
        (res.zipIdx.map fun (w, i) =>
          if off ≤ i ∧ i < off + ic.2 then (w &&& ((2 ^ 64 - 1) ^^^ mask)) ||| perm else w, off + ic.2)
      let (res', _) := stateCounts.foldl step (res, 0)
      if collapse then
        let cols' := stateCounts.map fun ic => (List.range (2 ^ s.nrBits)).map fun r => if r = ic.1 then (1 : α) else 0
        .pure ({ s with states := ofColumns s.nrBits cols', counts := stateCounts.map (·.2) }, res')
      else .pure (s, res')

/-- `reset`: a hidden measurement into a scratch register, then a conditional X -/
def reset (s : VecState α) (bit : Nat) : Prog α (VecState α) :=
  (measureInto s bit 0 (List.replicate s.nrShots 0)).bind fun (s', m) =>
    applyConditional (P := P) s' (m.map (· != 0)) .X [bit]

/-- `reset_all` -/
def resetAll (s : VecState α) : VecState α :=
  { s with states := (List.range (2 ^ s.nrBits)).map fun r => [if r = 0 then (1 : α) else 0],
           counts := [s.nrShots] }

end VecState

/-! ### circuit operations and the executor -/

inductive Basis | X | Y | Z
deriving DecidableEq, Repr

inductive COp (P : Type) where
  | gate (g : GateTerm P) (bits : List Nat)
  | cond (control : List Nat) (target : Nat) (g : GateTerm P) (bits : List Nat)
  | reset (q : Nat)
  | resetAll
  | measure (q c : Nat) (b : Basis)
  | measureAll (cbits : List Nat) (b : Basis)
  | peek (q c : Nat) (b : Basis)
  | peekAll (cbits : List Nat) (b : Basis)
  | barrier (bits : List Nat)

/-- the operations of `trait QuState` that `do_execute_with` uses -/
structure Backend (W P S : Type) where
  applyGate : S → GateTerm P → List Nat → Prog W S
  applyUnaryAll : S → GateTerm P → Prog W S
  applyConditional : S → List Bool → GateTerm P → List Nat → Prog W S
  measureInto : S → Nat → Nat → List Nat → Prog W (S × List Nat)
  measureAllInto : S → List Nat → List Nat → Prog W (S × List Nat)
  peekInto : S → Nat → Nat → List Nat → Prog W (List Nat)
  peekAllInto : S → List Nat → List Nat → Prog W (S × List Nat)
  reset : S → Nat → Prog W S
  resetAll : S → S

def vecBackend : Backend α P (VecState α) where
  applyGate := VecState.applyGate
  applyUnaryAll := VecState.applyUnaryAll
  applyConditional := VecState.applyConditional
  measureInto := VecState.measureInto
  measureAllInto s cbits res := VecState.measureAllHelper s cbits res true
  peekInto := VecState.peekInto
  peekAllInto s cbits res := VecState.measureAllHelper s cbits res false
  reset := VecState.reset (P := P)
  resetAll := VecState.resetAll

/-- the control-word gather of `do_execute_with`: bit `idst` of the word is bit `control[idst]` of
the register word; `none` = shift overflow -/
def controlWord (control : List Nat) (w : Nat) : Option Nat :=
  if control.all shiftOk ∧ control.length ≤ 64 then
    some (control.zipIdx.foldl (fun acc (isrc, idst) => acc ||| (((w >>> isrc) &&& 1) <<< idst)) 0)
  else none

section exec
variable {W S : Type} (B : Backend W P S)

/-- run `ops` around a basis change: `pre` gates, the body, `post` gates (single qubit) -/
def withBasis1 (s : S) (q : Nat) (b : Basis) (body : S → Prog W (S × List Nat)) : Prog W (S × List Nat) :=
  match b with
  | .Z => body s
  | .X => do
      let s ← B.applyGate s .H [q]
      let (s, r) ← body s
      let s ← B.applyGate s .H [q]
      pure (s, r)
  | .Y => do
      let s ← B.applyGate s .Sdg [q]
      let s ← B.applyGate s .H [q]
      let (s, r) ← body s
      let s ← B.applyGate s .H [q]
      let s ← B.applyGate s .S [q]
      pure (s, r)

def withBasisAll (s : S) (b : Basis) (body : S → Prog W (S × List Nat)) : Prog W (S × List Nat) :=
  match b with
  | .Z => body s
  | .X => do
      let s ← B.applyUnaryAll s .H
      let (s, r) ← body s
      let s ← B.applyUnaryAll s .H
      pure (s, r)
  | .Y => do
      let s ← B.applyUnaryAll s .Sdg
      let s ← B.applyUnaryAll s .H
      let (s, r) ← body s
      let s ← B.applyUnaryAll s .H
      let s ← B.applyUnaryAll s .S
      pure (s, r)

/-- one iteration of the `for op in ops` loop of `do_execute_with` -/
def execOp (s : S) (c : List Nat) : COp P → Prog W (S × List Nat)
  | .gate g bits => (B.applyGate s g bits).bind fun s' => .pure (s', c)
  | .cond control target g bits =>
    match c.mapM (controlWord control) with
    | none => Prog.panic "control word shift"
    | some ws => (B.applyConditional s (ws.map (· == target)) g bits).bind fun s' => .pure (s', c)
  | .measure q cb b => withBasis1 B s q b fun s => B.measureInto s q cb c
  | .measureAll cbits b => withBasisAll B s b fun s => B.measureAllInto s cbits c
  | .peek q cb b => withBasis1 B s q b fun s => (B.peekInto s q cb c).bind fun r => .pure (s, r)
  | .peekAll cbits b => withBasisAll B s b fun s => B.peekAllInto s cbits c
  | .reset q => (B.reset s q).bind fun s' => .pure (s', c)
  | .resetAll => .pure (B.resetAll s, c)
  | .barrier _ => .pure (s, c)

/-- `do_execute_with` -/
def execOps (s : S) (c : List Nat) : List (COp P) → Prog W (S × List Nat)
  | [] => .pure (s, c)
  | op :: rest => (execOp B s c op).bind fun (s', c') => execOps s' c' rest

end exec
end Q1t.Sim

import Q1t.Model.OpenQasmTable
import Q1t.Model.CQasm
import Q1t.Model.Builders
/-!
C18: the circuit the builders built, as the two QASM exporter models read it.  `ofTerm` names each gate term
the way a `Circuit` holds it (`H` → `lib "H"`, `C H` → the named `CH`, …; a `C g` that is not a named gate stays
the generic `ctrl`/`ctl`, which has no translation); `Proofs/ExportNoPanic*Bridge.lean` ties it to the models' own
reading (`toTerm (ofTerm g) = some g`).  Definitions only (import-free), shared by the proofs and the driver.
-/
namespace Q1t.OpenQasm
open Q1t Q1t.Sim Q1t.Builders
variable {P : Type}

def d (a : P) : QParam P := .direct a

/-- the named controlled gate that `C g` stands for in a circuit, if any -/
def ofC : GateTerm P → Option (QGate P)
  | .H => some (.lib "CH" []) | .S => some (.lib "CS" []) | .Sdg => some (.lib "CSdg" [])
  | .T => some (.lib "CT" []) | .Tdg => some (.lib "CTdg" []) | .V => some (.lib "CV" []) | .Vdg => some (.lib "CVdg" [])
  | .CX => some (.lib "CCX" []) | .CZ => some (.lib "CCZ" [])
  | .RX a => some (.lib "CRX" [d a]) | .RY a => some (.lib "CRY" [d a]) | .RZ a => some (.lib "CRZ" [d a])
  | .U1 a => some (.lib "CU1" [d a]) | .U2 a b => some (.lib "CU2" [d a, d b]) | .U3 a b c => some (.lib "CU3" [d a, d b, d c])
  | .C (.RX a) => some (.lib "CCRX" [d a]) | .C (.RY a) => some (.lib "CCRY" [d a]) | .C (.RZ a) => some (.lib "CCRZ" [d a])
  | _ => none

mutual
def ofTerm : GateTerm P → QGate P
  | .H => .lib "H" [] | .X => .lib "X" [] | .Y => .lib "Y" [] | .Z => .lib "Z" [] | .S => .lib "S" []
  | .Sdg => .lib "Sdg" [] | .T => .lib "T" [] | .Tdg => .lib "Tdg" [] | .V => .lib "V" [] | .Vdg => .lib "Vdg" []
  | .I => .lib "I" []
  | .RX a => .lib "RX" [d a] | .RY a => .lib "RY" [d a] | .RZ a => .lib "RZ" [d a] | .U1 a => .lib "U1" [d a]
  | .U2 a b => .lib "U2" [d a, d b] | .U3 a b c => .lib "U3" [d a, d b, d c]
  | .CX => .lib "CX" [] | .CY => .lib "CY" [] | .CZ => .lib "CZ" [] | .Swap => .lib "Swap" []
  | .C g => match ofC g with
    | some q => q
    | none => .ctrl (ofTerm g)
  | .Kron a b => .kron (ofTerm a) (ofTerm b)
  | .Composite name n ops => .composite name n (ofOps ops)
  | .Loop label iters name n body => .loop label iters name n (ofOps body)
def ofOps : OpList P → QOps P
  | .nil => .nil
  | .cons g bits rest => .cons (ofTerm g) bits (ofOps rest)
end

def ofOp : COp P → QOp P
  | .gate g bits => .gate (ofTerm g) bits
  | .cond control target g bits => .cond control target (ofTerm g) bits
  | .reset q => .reset q
  | .resetAll => .resetAll
  | .measure q c b => .measure q c b
  | .measureAll cbits b => .measureAll cbits b
  | .peek q c b => .peek q c b
  | .peekAll cbits b => .peekAll cbits b
  | .barrier bits => .barrier bits

/-- the built circuit as the exporter model's input -/
def ofCirc (c : Circ P) : QCircuit P := ⟨c.nq, c.nc, c.ops.map ofOp⟩

end Q1t.OpenQasm

namespace Q1t.CQ
open Q1t Q1t.Sim Q1t.Builders
variable {F : Type}

def toBasis : Sim.Basis → Basis
  | .X => .X | .Y => .Y | .Z => .Z

def d (a : F) : Param F := .direct a

def ofC : GateTerm F → Option (XGate F)
  | .H => some (.lib "CH" []) | .S => some (.lib "CS" []) | .Sdg => some (.lib "CSdg" [])
  | .T => some (.lib "CT" []) | .Tdg => some (.lib "CTdg" []) | .V => some (.lib "CV" []) | .Vdg => some (.lib "CVdg" [])
  | .CX => some (.lib "CCX" []) | .CZ => some (.lib "CCZ" [])
  | .RX a => some (.lib "CRX" [d a]) | .RY a => some (.lib "CRY" [d a]) | .RZ a => some (.lib "CRZ" [d a])
  | .U1 a => some (.lib "CU1" [d a]) | .U2 a b => some (.lib "CU2" [d a, d b]) | .U3 a b c => some (.lib "CU3" [d a, d b, d c])
  | .C (.RX a) => some (.lib "CCRX" [d a]) | .C (.RY a) => some (.lib "CCRY" [d a]) | .C (.RZ a) => some (.lib "CCRZ" [d a])
  | _ => none

mutual
def ofTerm : GateTerm F → XGate F
  | .H => .lib "H" [] | .X => .lib "X" [] | .Y => .lib "Y" [] | .Z => .lib "Z" [] | .S => .lib "S" []
  | .Sdg => .lib "Sdg" [] | .T => .lib "T" [] | .Tdg => .lib "Tdg" [] | .V => .lib "V" [] | .Vdg => .lib "Vdg" []
  | .I => .lib "I" []
  | .RX a => .lib "RX" [d a] | .RY a => .lib "RY" [d a] | .RZ a => .lib "RZ" [d a] | .U1 a => .lib "U1" [d a]
  | .U2 a b => .lib "U2" [d a, d b] | .U3 a b c => .lib "U3" [d a, d b, d c]
  | .CX => .lib "CX" [] | .CY => .lib "CY" [] | .CZ => .lib "CZ" [] | .Swap => .lib "Swap" []
  | .C g => match ofC g with
    | some q => q
    | none => .ctl (ofTerm g)
  | .Kron a b => .kron (ofTerm a) (ofTerm b)
  | .Composite name n ops => .comp name n (ofOps ops)
  | .Loop label iters name n body => .loop label.toList iters name n (ofOps body)
def ofOps : OpList F → XOps F
  | .nil => .nil
  | .cons g bits rest => .cons (ofTerm g) bits (ofOps rest)
end

def ofOp : COp F → XOp F
  | .gate g bits => .gate (ofTerm g) bits
  | .cond control target g bits => .cond control target (ofTerm g) bits
  | .reset q => .reset q
  | .resetAll => .resetAll
  | .measure q c b => .measure q c (toBasis b)
  | .measureAll cbits b => .measureAll cbits (toBasis b)
  | .peek q c b => .peek q c (toBasis b)
  | .peekAll cbits b => .peekAll cbits (toBasis b)
  | .barrier bits => .barrier bits

def ofCirc (c : Circ F) : XCircuit F := ⟨c.nq, c.nc, c.ops.map ofOp⟩

end Q1t.CQ

import Q1t.Model.Param
import Q1t.Base.CFloat
/-!
Model of `arithmetic::Square` (`src/arithmetic.rs`) and of every `impl Square` in `src/gates/*.rs`,
one clause per impl, as written:

* constants return a constant (`H X Y Z ↦ I`, `S Sdg ↦ Z`, `T ↦ S`, `Tdg ↦ Sdg`, `V Vdg ↦ X`, `I ↦ I`,
  `CX CY CZ Swap ↦ Kron(I, I)`);
* `RX RY RZ U1` double a `Direct` parameter and refuse anything else with `ReferenceArithmetic`;
* `U2(φ,λ)` with two `Direct` parameters returns `U3(λ+φ−π, φ−π/2, λ−π/2)` (equal to the square only
  up to a global phase — source comment in `u2.rs`), otherwise `ReferenceArithmetic`;
* `U3` uses the trait's default method: `OpNotImplemented`;
* `C<G>` (and every `declare_controlled_square!` wrapper, which forwards to its `C<G>`) squares the
  inner gate with `?` and wraps the result;
* `Kron<G0,G1>` squares both factors and maps ANY inner error to `OpNotImplemented`;
* `Loop` doubles its iteration count and keeps (clones) its body;
* `Composite` has no `impl Square` at all: `x.square()` does not compile.  This is modelled as the
  outcome `noImpl`, distinct from the run-time error `OpNotImplemented`, and it propagates through
  `C` and `Kron` (their impls require `G: Square`, so the wrapper type has no impl either).

Import-free, executable.  Not modelled: `usize` overflow of `2 * nr_iterations`.
-/
namespace Q1t

/-- outcome classes of `square()` other than `Ok` -/
inductive SqErr where
  /-- `Error::ReferenceArithmetic` -/
  | referenceArithmetic
  /-- `Error::OpNotImplemented("square", description)` -/
  | opNotImplemented
  /-- the type has no `impl Square`: the call is rejected by the Rust compiler -/
  | noImpl
deriving DecidableEq, Repr

/-- the `f64` arithmetic performed on `Direct` parameter values by the `square()` impls -/
class ParamArith (V : Type) where
  /-- `2.0 * x` -/
  dbl : V → V
  /-- `l + p - pi` (arguments in the order `p l`) -/
  u2theta : V → V → V
  /-- `x - 0.5 * pi` -/
  subHalfPi : V → V

instance : ParamArith Float where
  dbl x := 2.0 * x
  u2theta p l := l + p - CFloat.pi
  subHalfPi x := x - 0.5 * CFloat.pi

namespace Gate
variable {V : Type} [ParamArith V]
open ParamArith

/-- `Square::square` -/
def square : GateTerm (Param V) → Except SqErr (GateTerm (Param V))
  | .H => .ok .I | .X => .ok .I | .Y => .ok .I | .Z => .ok .I
  | .S => .ok .Z | .Sdg => .ok .Z
  | .T => .ok .S | .Tdg => .ok .Sdg
  | .V => .ok .X | .Vdg => .ok .X
  | .I => .ok .I
  | .RX θ => match θ with
    | .direct x => .ok (.RX (.direct (dbl x)))
    | _ => .error .referenceArithmetic
  | .RY θ => match θ with
    | .direct x => .ok (.RY (.direct (dbl x)))
    | _ => .error .referenceArithmetic
  | .RZ l => match l with
    | .direct x => .ok (.RZ (.direct (dbl x)))
    | _ => .error .referenceArithmetic
  | .U1 l => match l with
    | .direct x => .ok (.U1 (.direct (dbl x)))
    | _ => .error .referenceArithmetic
  | .U2 φ l => match φ, l with
    | .direct p, .direct l =>
        .ok (.U3 (.direct (u2theta p l)) (.direct (subHalfPi p)) (.direct (subHalfPi l)))
    | _, _ => .error .referenceArithmetic
  | .U3 _ _ _ => .error .opNotImplemented
  | .CX => .ok (.Kron .I .I) | .CY => .ok (.Kron .I .I) | .CZ => .ok (.Kron .I .I)
  | .Swap => .ok (.Kron .I .I)
  | .C g => match square g with
    | .ok g2 => .ok (.C g2)
    | .error e => .error e
  | .Kron g0 g1 => match square g0, square g1 with
    | .error .noImpl, _ => .error .noImpl
    | _, .error .noImpl => .error .noImpl
    | .ok a, .ok b => .ok (.Kron a b)
    | _, _ => .error .opNotImplemented
  | .Composite _ _ _ => .error .noImpl
  | .Loop label iters name n body => .ok (.Loop label (2 * iters) name n body)

end Gate
end Q1t

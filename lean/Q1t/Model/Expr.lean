import Q1t.Base.DecFloat
/-!
Model of `src/expression.rs` (Mathlib-free, executable).

* Text is a `List Char` (the `regex` crate works on Unicode scalar values in its default Unicode mode;
  all match ends are char boundaries, so the `&expr[m.end()..]` slices never panic).
* Each anchored pattern `^\s*…` is a total function returning the unmatched rest (and the capture).
  `\s` is the Unicode `White_Space` property (regex-syntax 0.8 table `perl_space::WHITE_SPACE`);
  `[0-9]` is ASCII.  The patterns are leftmost-first (backtracking) regexes; the functions below are
  written so that they return the leftmost-first match (remarks at each).
* The seven recursive-descent levels are written as in the source.  Recursion and `while` loops take
  a fuel argument (structural recursion, so that the kernel can evaluate the model); the only
  recursive calls are on strictly shorter text, and `Q1t/Proofs/ExprTotal.lean` proves that with
  `fuel > length` the fuel is never exhausted (outcome `.fuel` unreachable from `parse`).
* A literal is kept as its matched text; its `f64` is `DecFloat.literalBits` (correctly rounded, as
  `str::parse::<f64>` and `u64 as f64` are).
-/
namespace Q1t.Expr
open Q1t.DecFloat (isDigit)

/-- `\s` in Unicode mode: U+0009–000D, 0020, 0085, 00A0, 1680, 2000–200A, 2028, 2029, 202F, 205F, 3000. -/
def isWs (c : Char) : Bool :=
  let n := c.toNat
  (9 ≤ n && n ≤ 13) || n == 0x20 || n == 0x85 || n == 0xA0 || n == 0x1680 ||
  (0x2000 ≤ n && n ≤ 0x200A) || n == 0x2028 || n == 0x2029 || n == 0x202F || n == 0x205F || n == 0x3000

/-- `^\s*`: greedy; no later pattern element starts with white space, so no backtracking into it helps. -/
def dropWs (s : List Char) : List Char := s.dropWhile isWs

/-- Literal prefix. -/
def stripPrefix : List Char → List Char → Option (List Char)
  | [], s => some s
  | _ :: _, [] => none
  | p :: ps, c :: cs => if p = c then stripPrefix ps cs else none

/-- `^\s*<lit>` for a literal string: rest after the match. -/
def reLit (lit : List Char) (s : List Char) : Option (List Char) := stripPrefix lit (dropWs s)

/-- `^\s*([xy])` for a two-character class: the captured char and the rest. -/
def reOp2 (x y : Char) (s : List Char) : Option (Char × List Char) :=
  match dropWs s with
  | c :: t => if c = x || c = y then some (c, t) else none
  | [] => none

/-- `[-+]?` at the start of `r`: the sign taken (if any) and the rest. -/
def optSign : List Char → List Char × List Char
  | c :: t => if c = '-' || c = '+' then ([c], t) else ([], c :: t)
  | [] => ([], [])

/-- `(?:[eE][-+]?[0-9]+)?` at the start of `r`: matched text (empty if the group does not match) and rest.
The sign is optional-greedy; if the sign is taken and no digit follows, retrying without the sign
fails too (a sign is not a digit). -/
def reExponent (r : List Char) : List Char × List Char :=
  match r with
  | e :: r1 =>
    if e = 'e' || e = 'E' then
      let p := optSign r1
      let d := p.2.takeWhile isDigit
      if d.isEmpty then ([], r) else (e :: (p.1 ++ d), p.2.dropWhile isDigit)
    else ([], r)
  | [] => ([], r)

/-- `(?:[0-9]+\.[0-9]*|\.[0-9]+)` at the start of `s`.  First alternative: greedy digits must be followed by
`.` (giving digits back cannot help, the next char would be a digit).  If it fails and `s` starts with
a digit the second alternative fails as well. -/
def reMantissa (s : List Char) : Option (List Char × List Char) :=
  let d1 := s.takeWhile isDigit
  let r1 := s.dropWhile isDigit
  if !d1.isEmpty then
    match r1 with
    | '.' :: r2 => some (d1 ++ '.' :: r2.takeWhile isDigit, r2.dropWhile isDigit)
    | _ => none
  else
    match s with
    | '.' :: r2 =>
      let d2 := r2.takeWhile isDigit
      if d2.isEmpty then none else some ('.' :: d2, r2.dropWhile isDigit)
    | _ => none

/-- `^\s*((?:[0-9]+\.[0-9]*|\.[0-9]+)(?:[eE][-+]?[0-9]+)?)`: capture 1 and rest. -/
def reReal (s : List Char) : Option (List Char × List Char) :=
  match reMantissa (dropWs s) with
  | some (m, r) => let (x, r') := reExponent r; some (m ++ x, r')
  | none => none

/-- `^\s*([1-9][0-9]*|0)`: capture 1 and rest. -/
def reInteger (s : List Char) : Option (List Char × List Char) :=
  match dropWs s with
  | c :: t =>
    if 49 ≤ c.toNat && c.toNat ≤ 57 then some (c :: t.takeWhile isDigit, t.dropWhile isDigit)
    else if c = '0' then some (['0'], t)
    else none
  | [] => none

/-- The function names of `(sin|cos|tan|exp|ln|sqrt)`, in the order of the alternation. -/
def funNames : List (List Char) :=
  [['s', 'i', 'n'], ['c', 'o', 's'], ['t', 'a', 'n'], ['e', 'x', 'p'], ['l', 'n'], ['s', 'q', 'r', 't']]

/-- `^\s*(sin|cos|tan|exp|ln|sqrt)\s*\(`: leftmost-first over the alternation, backtracking to the next
name when the tail `\s*\(` does not match. -/
def reFunOpen (s : List Char) : Option (List Char × List Char) :=
  let s0 := dropWs s
  let rec go : List (List Char) → Option (List Char × List Char)
    | [] => none
    | nm :: more =>
      match stripPrefix nm s0 with
      | some r => (match reLit ['('] r with
                   | some r' => some (nm, r')
                   | none => go more)
      | none => go more
  go funNames

/-- A literal as matched: the text of capture 1 (`real`, `int`) or the constant `pi`. -/
inductive Lit where
  | real (txt : List Char)
  | int (txt : List Char)
  | pi
deriving DecidableEq, Repr, Inhabited

/-- `enum Expression`. -/
inductive Expr where
  | value (l : Lit)
  | sum (a b : Expr)
  | difference (a b : Expr)
  | product (a b : Expr)
  | quotient (a b : Expr)
  | negative (a : Expr)
  | power (a b : Expr)
  | function (name : List Char) (a : Expr)
  | variable (name : List Char)
deriving DecidableEq, Repr, Inhabited

/-- The two `ParseError` constructors reachable from `Expression::parse`, with their `String` payload. -/
inductive ParseError where
  | invalidArgument (text : List Char)
  | unclosedParentheses (text : List Char)
deriving DecidableEq, Repr

/-- Outcomes: M1 (`ok`/`err`/`panic`) plus `fuel` for an exhausted recursion budget (proved unreachable). -/
inductive Res (α : Type) where
  | ok (a : α)
  | err (e : ParseError)
  | panic
  | fuel
deriving DecidableEq, Repr

abbrev PRes := Res (Expr × List Char)

/-- `parse_real_literal`.  `captures[1].parse::<f64>()` succeeds on every text of the `real` shape
(too large → inf); `parse::<u64>()` fails exactly when the integer exceeds `u64::MAX`. -/
def parseRealLiteral (s : List Char) : PRes :=
  match reReal s with
  | some (txt, rest) => .ok (.value (.real txt), rest)
  | none =>
    match reInteger s with
    | some (txt, rest) =>
      if DecFloat.digitsToNat txt < 2 ^ 64 then .ok (.value (.int txt), rest)
      else .err (.invalidArgument s)
    | none =>
      match reLit ['p', 'i'] s with
      | some rest => .ok (.value .pi, rest)
      | none => .err (.invalidArgument s)

/-- `parse_parenthesized_expression`, with the sum level passed in. -/
def parseParen (sum : List Char → PRes) (s : List Char) : PRes :=
  match reLit ['('] s with
  | some r =>
    match sum r with
    | .ok (result, rest) =>
      (match reLit [')'] rest with
       | some r2 => .ok (result, r2)
       | none => .err (.unclosedParentheses s))
    | other => other
  | none => parseRealLiteral s

/-- `parse_function_expression`. -/
def parseFunction (sum : List Char → PRes) (s : List Char) : PRes :=
  match reFunOpen s with
  | some (name, r) =>
    match sum r with
    | .ok (arg, rest) =>
      (match reLit [')'] rest with
       | some r2 => .ok (.function name arg, r2)
       | none => .err (.unclosedParentheses s))
    | other => other
  | none => parseParen sum s

/-- `parse_power_expression` (right recursion after `^`). -/
def parsePower (sum : List Char → PRes) : Nat → List Char → PRes
  | 0, _ => .fuel
  | n + 1, s =>
    match parseFunction sum s with
    | .ok (left, rest) =>
      (match reLit ['^'] rest with
       | some r =>
         (match parsePower sum n r with
          | .ok (right, newRest) => .ok (.power left right, newRest)
          | other => other)
       | none => .ok (left, rest))
    | other => other

/-- The `while let Some(m) = op.find(rest)` loop of `parse_negative_expression`: strips `\s*-` repeatedly,
returns `(flip_sign, rest)`. -/
def negLoop : Nat → Bool → List Char → Res (Bool × List Char)
  | 0, _, _ => .fuel
  | n + 1, flip, s =>
    match reLit ['-'] s with
    | some r => negLoop n (!flip) r
    | none => .ok (flip, s)

/-- `parse_negative_expression`. -/
def parseNegative (sum : List Char → PRes) (n : Nat) (s : List Char) : PRes :=
  match negLoop n false s with
  | .ok (flip, rest) =>
    (match parsePower sum n rest with
     | .ok (result, newRest) => if flip then .ok (.negative result, newRest) else .ok (result, newRest)
     | other => other)
  | .err e => .err e
  | .panic => .panic
  | .fuel => .fuel

/-- The `while` loop of `parse_product_expression`. -/
def productLoop (sum : List Char → PRes) : Nat → Expr → List Char → PRes
  | 0, _, _ => .fuel
  | n + 1, left, rest =>
    match reOp2 '*' '/' rest with
    | some (c, r) =>
      (match parseNegative sum n r with
       | .ok (right, newRest) =>
         productLoop sum n (if c = '*' then .product left right else .quotient left right) newRest
       | other => other)
    | none => .ok (left, rest)

/-- `parse_product_expression`. -/
def parseProduct (sum : List Char → PRes) (n : Nat) (s : List Char) : PRes :=
  match parseNegative sum n s with
  | .ok (left, rest) => productLoop sum n left rest
  | other => other

/-- The `while` loop of `parse_sum_expression`. -/
def sumLoop (sum : List Char → PRes) : Nat → Expr → List Char → PRes
  | 0, _, _ => .fuel
  | n + 1, left, rest =>
    match reOp2 '-' '+' rest with
    | some (c, r) =>
      (match parseProduct sum n r with
       | .ok (right, newRest) =>
         sumLoop sum n (if c = '+' then .sum left right else .difference left right) newRest
       | other => other)
    | none => .ok (left, rest)

/-- `parse_sum_expression` with recursion budget `n`: the nested sum level (inside parentheses) runs with
budget `n - 1`, every loop of this level with budget `n`. -/
def parseSum : Nat → List Char → PRes
  | 0, _ => .fuel
  | n + 1, s =>
    match parseProduct (parseSum n) (n + 1) s with
    | .ok (left, rest) => sumLoop (parseSum n) (n + 1) left rest
    | other => other

/-- `Expression::parse`.  Budget `length + 1`; see `Proofs/ExprTotal.lean` (`parse_ne_fuel`). -/
def parse (s : List Char) : PRes := parseSum (s.length + 1) s

/-! ### Evaluation -/

inductive EvalError where
  | unknownFunction (name : List Char)
  | unknownVariable (name : List Char)
deriving DecidableEq, Repr

/-- The float operations `eval_with_parameters` uses, abstractly. -/
structure FloatOps (F : Type) where
  ofLit : Lit → F
  add : F → F → F
  sub : F → F → F
  mul : F → F → F
  div : F → F → F
  neg : F → F
  powf : F → F → F
  sin : F → F
  cos : F → F
  tan : F → F
  exp : F → F
  ln : F → F
  sqrt : F → F

def lookup {F} (name : List Char) : List (List Char × F) → Option F
  | [] => none
  | (p, v) :: more => if p = name then some v else lookup name more

/-- `eval_with_parameters`. -/
def evalWith {F} (I : FloatOps F) (params : List (List Char × F)) : Expr → Except EvalError F
  | .value l => .ok (I.ofLit l)
  | .sum a b => do let x ← evalWith I params a; let y ← evalWith I params b; pure (I.add x y)
  | .difference a b => do let x ← evalWith I params a; let y ← evalWith I params b; pure (I.sub x y)
  | .product a b => do let x ← evalWith I params a; let y ← evalWith I params b; pure (I.mul x y)
  | .quotient a b => do let x ← evalWith I params a; let y ← evalWith I params b; pure (I.div x y)
  | .negative a => do let x ← evalWith I params a; pure (I.neg x)
  | .power a b => do let x ← evalWith I params a; let y ← evalWith I params b; pure (I.powf x y)
  | .function name a => do
    let x ← evalWith I params a
    if name = ['s', 'i', 'n'] then pure (I.sin x)
    else if name = ['c', 'o', 's'] then pure (I.cos x)
    else if name = ['t', 'a', 'n'] then pure (I.tan x)
    else if name = ['e', 'x', 'p'] then pure (I.exp x)
    else if name = ['l', 'n'] then pure (I.ln x)
    else if name = ['s', 'q', 'r', 't'] then pure (I.sqrt x)
    else .error (.unknownFunction name)
  | .variable name =>
    match lookup name params with
    | some v => .ok v
    | none => .error (.unknownVariable name)

/-- `eval`. -/
def eval {F} (I : FloatOps F) (e : Expr) : Except EvalError F := evalWith I [] e

/-- Bits of a literal: `captures[1].parse::<f64>()`, `parse::<u64>() as f64`, `std::f64::consts::PI`. -/
def litBits : Lit → UInt64
  | .real txt => DecFloat.literalBits txt
  | .int txt => DecFloat.literalBits txt
  | .pi => 0x400921FB54442D18

/-- The IEEE interpretation (Lean `Float` = C `double`, libm for the transcendental functions). -/
def floatOps : FloatOps Float where
  ofLit l := Float.ofBits (litBits l)
  add := (· + ·)
  sub := (· - ·)
  mul := (· * ·)
  div := (· / ·)
  neg := fun x => -x
  powf := Float.pow
  sin := Float.sin
  cos := Float.cos
  tan := Float.tan
  exp := Float.exp
  ln := Float.log
  sqrt := Float.sqrt

end Q1t.Expr

namespace Q1t.Expr

/-- The pattern strings this model was written for, per parsing function, in source order; compared
with the strings re-extracted from `src/expression.rs` (`Q1t.Gen.exprPatterns`) in `Props/C14.lean`. -/
def modelledPatterns : List (String × List String) := [
  ("parse_real_literal", ["^\\s*((?:[0-9]+\\.[0-9]*|\\.[0-9]+)(?:[eE][-+]?[0-9]+)?)", "^\\s*([1-9][0-9]*|0)", "^\\s*pi"]),
  ("parse_parenthesized_expression", ["^\\s*\\(", "^\\s*\\)"]),
  ("parse_function_expression", ["^\\s*(sin|cos|tan|exp|ln|sqrt)\\s*\\(", "^\\s*\\)"]),
  ("parse_power_expression", ["^\\s*\\^"]),
  ("parse_negative_expression", ["^\\s*\\-"]),
  ("parse_product_expression", ["^\\s*([*/])"]),
  ("parse_sum_expression", ["^\\s*([-+])"])]

/-- The `match &**fname` arms of `eval_with_parameters` as modelled in `evalWith`. -/
def modelledFunctionArms : List (String × String) :=
  [("sin", "sin"), ("cos", "cos"), ("tan", "tan"), ("exp", "exp"), ("ln", "ln"), ("sqrt", "sqrt")]

end Q1t.Expr

import Q1t.Base.Amp
import Q1t.Model.Perm
/-!
Model of the gate library's numeric core (import-free, executable):

* `GateTerm P` — the gates of `src/gates/*.rs` and the combinators `C`, `Kron`, `Composite`, `Loop`
  as a term language over a parameter type `P`;
* `nrBits`, `matrix` — `nr_affected_bits()` and `matrix()` of every gate, expression by expression;
* `route` — every hand-written "leading qubits" application route (`apply_slice` on a vector,
  `apply_mat_slice` on a matrix), and the default block-multiply routes of `trait Gate`;
* `bitPermutation`, `applyGateSlice` — `gates::bit_permutation`, `apply_gate_slice`,
  `apply_gate_mat_slice` (placement of a gate on chosen qubits of a register).

A vector route acts on a `List α` (rows are amplitudes), a matrix route on a `List (List α)` (rows
are matrix rows); both are `List (Row α m)` for the mode `m`. `none` = a Rust panic (`assert!`,
slice index, shape mismatch, `unwrap`, usize underflow).
-/
namespace Q1t

mutual
inductive GateTerm (P : Type) where
  | H | X | Y | Z | S | Sdg | T | Tdg | V | Vdg | I
  | RX (θ : P) | RY (θ : P) | RZ (l : P) | U1 (l : P) | U2 (φ l : P) | U3 (θ φ l : P)
  | CX | CY | CZ | Swap
  /-- `controlled::C<G>` (and the named wrappers `CH`, `CRX`, … which delegate to it) -/
  | C (g : GateTerm P)
  | Kron (g0 g1 : GateTerm P)
  /-- `Composite { name, nr_bits, ops }` -/
  | Composite (name : String) (n : Nat) (ops : OpList P)
  /-- `Loop { label, nr_iterations, body: Composite{name, n, ops} }` -/
  | Loop (label : String) (iters : Nat) (name : String) (n : Nat) (body : OpList P)
inductive OpList (P : Type) where
  | nil
  | cons (g : GateTerm P) (bits : List Nat) (rest : OpList P)
end

/-- which of the two application routes of a gate: `apply_slice` or `apply_mat_slice` -/
inductive Mode | vec | mat
deriving DecidableEq, Repr

/-- what a route acts on: amplitudes (vector) or matrix rows -/
abbrev Row (α : Type) : Mode → Type
  | .vec => α
  | .mat => List α

instance rowOps {α} [Mul α] [Add α] [Sub α] [Neg α] : (m : Mode) → RowOps α (Row α m)
  | .vec => selfRowOps
  | .mat => listRowOps

namespace Gate
variable {α P : Type} [Zero α] [One α] [Add α] [Mul α] [Neg α] [Sub α] [Amp α P]

/-- iterate a partial function `n` times -/
def iterM {β} : Nat → (β → Option β) → β → Option β
  | 0, _, x => some x
  | n + 1, f, x => (f x).bind (iterM n f)

/-! ### fixed matrices of the primitives -/

def matH : LMat α := let x : α := Amp.hsqrt2 P; [[x, x], [x, -x]]
def matX : LMat α := [[0, 1], [1, 0]]
def matY : LMat α := let i : α := Amp.I P; [[0, -i], [i, 0]]
def matZ : LMat α := [[1, 0], [0, -1]]
def matS : LMat α := [[1, 0], [0, Amp.I P]]
def matSdg : LMat α := [[1, 0], [0, -(Amp.I P)]]
def matT : LMat α := let x : α := Amp.hsqrt2 P; [[1, 0], [0, x + x * Amp.I P]]
def matTdg : LMat α := let x : α := Amp.hsqrt2 P; [[1, 0], [0, x - x * Amp.I P]]
def matV : LMat α :=
  let h : α := Amp.half P * 1; let hi : α := Amp.half P * Amp.I P
  [[h + hi, h - hi], [h - hi, h + hi]]
def matVdg : LMat α :=
  let h : α := Amp.half P * 1; let hi : α := Amp.half P * Amp.I P
  [[h - hi, h + hi], [h + hi, h - hi]]
def matRX (θ : P) : LMat α :=
  let hθ := Amp.phalf α θ
  let c : α := Amp.cos hθ; let si : α := Amp.I P * Amp.sin hθ
  [[c, -si], [-si, c]]
def matRY (θ : P) : LMat α :=
  let hθ := Amp.phalf α θ
  let c : α := Amp.cos hθ; let s : α := Amp.sin hθ
  [[c, -s], [s, c]]
def matRZ (l : P) : LMat α :=
  let p : α := Amp.polar 1 (Amp.phalf α l)
  [[Amp.conj P p, 0], [0, p]]
def matU1 (l : P) : LMat α := [[1, 0], [0, Amp.polar 1 l]]
def matU2 (φ l : P) : LMat α :=
  let x : α := Amp.hsqrt2 P
  [[x, -(Amp.polar x l)], [Amp.polar x φ, Amp.polar x (Amp.padd α φ l)]]
def matU3 (θ φ l : P) : LMat α :=
  let hθ := Amp.phalf α θ
  let c : α := Amp.cos hθ; let s : α := Amp.sin hθ
  [[c, -(Amp.polar s l)], [Amp.polar s φ, Amp.polar c (Amp.padd α φ l)]]
def matSwap : LMat α := [[1, 0, 0, 0], [0, 0, 1, 0], [0, 1, 0, 0], [0, 0, 0, 1]]

/-- `C::matrix`: identity of twice the size with the lower right block replaced by `gm` -/
def controlledMat (gm : LMat α) : LMat α :=
  let g := gm.length
  (List.range (2 * g)).map fun i => (List.range (2 * g)).map fun j =>
    if i < g ∨ j < g then (if i = j then 1 else 0) else LMat.get gm (i - g) (j - g)

/-! ### block helpers for the routes -/

section rows
variable {R : Type} [RowOps α R]

def rsmul (a : α) (r : R) : R := RowOps.smul a r
def radd (x y : R) : R := RowOps.add α x y
def rsub (x y : R) : R := RowOps.sub α x y
def rneg (x : R) : R := RowOps.neg α x

/-- combine two halves `s0 ++ s1` block-wise; `none` when the length is odd -/
def twoBlock (f : R → R → R × R) (v : List R) : Option (List R) :=
  if v.length % 2 ≠ 0 then none else
    let n := v.length / 2
    let pairs := List.zipWith f (v.take n) (v.drop n)
    some (pairs.map (·.1) ++ pairs.map (·.2))

/-- the blocks of size `len / nb` of a state, `none` unless `nb ∣ len` -/
def blocks (nb : Nat) (v : List R) : Option (List (List R)) :=
  if nb = 0 ∨ v.length % nb ≠ 0 then none else
    let n := v.length / nb
    some ((List.range nb).map fun i => (v.drop (i * n)).take n)

/-- `Σ_j mat[i][j] * block_j`, elementwise (first term, then `+=` the others) -/
def combine (coeffs : List α) (bs : List (List R)) : List R :=
  match List.zipWith (fun c b => b.map (rsmul c)) coeffs bs with
  | [] => []
  | t :: ts => ts.foldl (List.zipWith (radd (α := α))) t

/-- default route of `trait Gate`: block-multiply by the gate's matrix -/
def defaultRoute (k : Nat) (mat : LMat α) (v : List R) : Option (List R) :=
  (blocks (2 ^ k) v).map fun bs => (List.map (fun row => combine row bs) mat).flatten

end rows

/-! ### `bit_permutation` -/

/-- one pass of the `while !ab.is_empty()` loop: move index bit `idx = nr_bits - s - 1` to the top -/
def moveBit (nrBits s : Nat) (i : Nat) : Nat :=
  let idx := nrBits - s - 1
  let bit := 2 ^ idx
  let lmask := bit - 1
  -- `umask = !(bit | lmask)`: keeps the bits above `idx`
  let upper := i - i % (2 * bit)
  (upper >>> 1) ||| (i &&& lmask) ||| ((i &&& bit) <<< s)

/-- the popping loop; `ab` is held reversed (last element first); `none` = usize underflow -/
def bitPermLoop (nrBits : Nat) : Nat → List Nat → List Nat → Option (List Nat)
  | _, [], perm => some perm
  | 0, _ :: _, _ => none   -- unreachable: the fuel is the length of `ab`, which `map` preserves
  | fuel + 1, s :: rest, perm =>
    if nrBits < s + 1 then none else
      bitPermLoop nrBits fuel (rest.map fun a => if a < s then a + 1 else a) (perm.map (moveBit nrBits s))

/-- `gates::bit_permutation(nr_bits, affected_bits)`; `none` = panic (underflow or `unwrap`) -/
def bitPermutation (nrBits : Nat) (bits : List Nat) : Option (List Nat) :=
  (bitPermLoop nrBits bits.length bits.reverse (List.range (2 ^ nrBits))).bind fun perm1 =>
    match Perm.new perm1 with
    | .error _ => none
    | .ok p => match Perm.inverse p with
      | .error _ => none
      | .ok q => some q

/-- `usize::trailing_zeros` (64 for 0) -/
def tzAux : Nat → Nat → Nat
  | 0, _ => 0
  | f + 1, x => if x % 2 = 1 then 0 else 1 + tzAux f (x / 2)
def trailingZeros (x : Nat) : Nat := if x = 0 then 64 else tzAux 64 x

/-! ### `nr_affected_bits` -/

mutual
def nrBits : GateTerm P → Nat
  | .H | .X | .Y | .Z | .S | .Sdg | .T | .Tdg | .V | .Vdg | .I => 1
  | .RX _ | .RY _ | .RZ _ | .U1 _ | .U2 _ _ | .U3 _ _ _ => 1
  | .CX | .CY | .CZ | .Swap => 2
  | .C g => 1 + nrBits g
  | .Kron g0 g1 => nrBits g0 + nrBits g1
  | .Composite _ n _ => n
  | .Loop _ _ _ n _ => n
end

/-! ### `matrix`, the routes and gate placement (mutually recursive: a composite's matrix is its
matrix route applied to the identity, the default routes multiply by the matrix) -/

mutual

/-- `Gate::matrix()` -/
def matrix : GateTerm P → LMat α
  | .H => matH (P := P) | .X => matX | .Y => matY (P := P) | .Z => matZ
  | .S => matS (P := P) | .Sdg => matSdg (P := P) | .T => matT (P := P) | .Tdg => matTdg (P := P)
  | .V => matV (P := P) | .Vdg => matVdg (P := P) | .I => LMat.identity 2
  | .RX θ => matRX θ | .RY θ => matRY θ | .RZ l => matRZ l
  | .U1 l => matU1 l | .U2 φ l => matU2 φ l | .U3 θ φ l => matU3 θ φ l
  | .CX => controlledMat matX | .CY => controlledMat (matY (P := P)) | .CZ => controlledMat matZ
  | .Swap => matSwap
  | .C g => controlledMat (matrix g)
  | .Kron g0 g1 => LMat.kron (matrix g0) (matrix g1)
  | .Composite _ n ops => (routeOps .mat ops n (LMat.identity (2 ^ n))).getD []
  | .Loop _ iters _ n body =>
      (iterM iters (routeOps .mat body n) (LMat.identity (2 ^ n))).getD []

/-- `apply_slice` (mode `vec`) / `apply_mat_slice` (mode `mat`) of every gate -/
def route (m : Mode) : GateTerm P → List (Row α m) → Option (List (Row α m))
  | .H, v => twoBlock (fun s0 s1 =>
      -- s1 -= s0; s1 *= -h; s0 += s1_copy; s0 *= h
      (rsmul (Amp.hsqrt2 P : α) (radd (α := α) s0 s1),
       rsmul (-(Amp.hsqrt2 P : α)) (rsub (α := α) s1 s0))) v
  | .X, v => twoBlock (fun s0 s1 => (s1, s0)) v
  | .Y, v => twoBlock (fun s0 s1 =>
      (rsmul (-(Amp.I P : α)) s1, rsmul (Amp.I P : α) s0)) v
  | .Z, v => twoBlock (fun s0 s1 => (s0, rneg (α := α) s1)) v
  | .S, v => twoBlock (fun s0 s1 => (s0, rsmul (Amp.I P : α) s1)) v
  | .Sdg, v => twoBlock (fun s0 s1 => (s0, rsmul (-(Amp.I P : α)) s1)) v
  | .T, v => twoBlock (fun s0 s1 => (s0, rsmul (Amp.zeta8 P : α) s1)) v
  | .Tdg, v => twoBlock (fun s0 s1 => (s0, rsmul (Amp.conj P (Amp.zeta8 P : α)) s1)) v
  | .RX θ, v =>
      let hθ := Amp.phalf α θ
      let c : α := Amp.cos hθ; let si : α := Amp.I P * Amp.sin hθ
      twoBlock (fun s0 s1 =>
        (rsub (α := α) (rsmul c s0) (rsmul si s1),
         rsub (α := α) (rsmul c s1) (rsmul si s0))) v
  | .RY θ, v =>
      let hθ := Amp.phalf α θ
      let c : α := Amp.cos hθ; let s : α := Amp.sin hθ
      twoBlock (fun s0 s1 =>
        (rsub (α := α) (rsmul c s0) (rsmul s s1),
         radd (α := α) (rsmul c s1) (rsmul s s0))) v
  | .RZ l, v =>
      let hl := Amp.phalf α l
      twoBlock (fun s0 s1 =>
        (rsmul (Amp.polar (1 : α) (Amp.pneg α hl)) s0, rsmul (Amp.polar (1 : α) hl) s1)) v
  | .U1 l, v =>
      match m with
      | .vec => twoBlock (fun s0 s1 => (s0, rsmul (Amp.polar (1 : α) l) s1)) v
      | .mat => defaultRoute (α := α) 1 (matU1 l) v
  | .I, v =>
      match m with
      | .vec => some v
      | .mat => defaultRoute (α := α) 1 (LMat.identity 2) v
  | .V, v => defaultRoute (α := α) 1 (matV (P := P)) v
  | .Vdg, v => defaultRoute (α := α) 1 (matVdg (P := P)) v
  | .U2 φ l, v => defaultRoute (α := α) 1 (matU2 φ l) v
  | .U3 θ φ l, v => defaultRoute (α := α) 1 (matU3 θ φ l) v
  | .Swap, v =>
      -- swap the two middle quarters
      (blocks 4 v).bind fun bs =>
        match bs with
        | [b0, b1, b2, b3] => some (b0 ++ b2 ++ b1 ++ b3)
        | _ => none
  | .CX, v => let n := v.length / 2
      (twoBlock (fun s0 s1 => (s1, s0)) (v.drop n)).map (v.take n ++ ·)
  | .CY, v => let n := v.length / 2
      (twoBlock (fun s0 s1 =>
        (rsmul (-(Amp.I P : α)) s1, rsmul (Amp.I P : α) s0)) (v.drop n)).map (v.take n ++ ·)
  | .CZ, v => let n := v.length / 2
      (twoBlock (fun s0 s1 => (s0, rneg (α := α) s1)) (v.drop n)).map (v.take n ++ ·)
  | .C g, v => let n := v.length / 2
      (route m g (v.drop n)).map (v.take n ++ ·)
  | .Kron g0 g1, v =>
      match m with
      | .vec =>
        if v.length % 4 ≠ 0 then none else
          (route .vec g0 v).bind fun v1 =>
            (blocks (2 ^ nrBits g0) v1).bind fun bs =>
              (bs.mapM (route .vec g1)).map List.flatten
      | .mat => defaultRoute (α := α) (nrBits g0 + nrBits g1) (LMat.kron (matrix g0) (matrix g1)) v
  -- the composite acts on the leading qubits of a possibly larger state: the register size is
  -- taken from the state (`state.len().trailing_zeros()`), not from the gate
  | .Composite _ _ ops, v => routeOps m ops (trailingZeros v.length) v
  | .Loop _ iters _ _ body, v => iterM iters (fun w => routeOps m body (trailingZeros w.length) w) v

/-- the `for op in self.ops` loop of `Composite::apply_slice` / `apply_mat_slice` -/
def routeOps (m : Mode) : OpList P → Nat → List (Row α m) → Option (List (Row α m))
  | .nil, _, v => some v
  | .cons g bits rest, n, v =>
      -- `gates::apply_gate_slice` / `apply_gate_mat_slice`, inlined for structural recursion
      (if nrBits g ≠ bits.length then none
       else if v.length ≠ 2 ^ n then none
       else match bits with
        | [bit] =>
          if n < bit then none else
            (blocks (2 ^ bit) v).bind fun bs => (bs.mapM (route m g)).map List.flatten
        | _ =>
          (bitPermutation n bits).bind fun perm =>
            (Perm.applyInto perm v).bind fun work =>
              (route m g work).bind fun work' =>
                Perm.applyInverseInto perm work' v).bind fun v' => routeOps m rest n v'
end

/-- `gates::apply_gate_slice` (mode `vec`) / `gates::apply_gate_mat_slice` (mode `mat`) -/
def applyGateSlice (m : Mode) (g : GateTerm P) (bits : List Nat) (n : Nat)
    (v : List (Row α m)) : Option (List (Row α m)) :=
  routeOps (α := α) m (.cons g bits .nil) n v

end Gate
end Q1t

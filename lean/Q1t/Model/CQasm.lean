import Q1t.Gen.CQasmTemplates
import Q1t.Model.Expr
import Q1t.Model.Gate
/-!
Model of the c-QASM exporter (C12), mirroring the Rust *as it is* (Mathlib-free, executable):

* `Circuit::c_qasm` (`src/circuit.rs`)                          → `exportOp`, `exportLoop`, `export`
* the trait defaults of `src/export/cqasm.rs`                    → `.ctl` arm of `cQasm` (NotImplemented), `defaultCond`
* every library gate's `c_qasm` (`src/gates/*.rs`, `declare_controlled_qasm!` in `controlled.rs`)
                                                                 → `libCQasm`, driven by the GENERATED table `Gen.cqGates`
* the `Kron`, `Composite`, `Loop` overrides of both methods       → `cQasm`, `condCQasm`, `opsTexts`, `condOpsTexts`

Text is a `List Char`.  The result of an export is a list of *chunks*: the Rust code appends
`format!("{}\n", chunk)` for each; a chunk may itself contain `\n` (multi-line gate translations).
Outcomes: `ok`, `err e` (the `ExportError` / `Error` constructor), `panic` (slice index, `&bits[..n0]`,
`1 << shift` with `shift ≥ 64` in the debug profile).

Numbers: `f64::to_string`, `x + PI` and `Expression::eval` are parameters (`Num F`); `Expression::parse` is the
model of C14 (`Q1t.Expr.parse`).  The driver instantiates `F = Float` with an exact decimal expansion for
`to_string` (numeric tokens are compared *by value*, so any printer that round-trips is equivalent).

Known wrong behaviour that is reproduced on purpose (DESIGN §1 D12 and the C12 report): the default
`conditional_c_qasm` prefixes only the first line of a multi-line translation; `U2`/`U3` templates without a
comma / with a stray `; `; `measure_all` in X/Y is not
rotated back; an empty control list is exported unconditionally; reference parameters print their name (and are
then left inside unevaluated `{…}` holes); `CH CRZ CU2 CV CVdg` print a lower-cased struct name that is not a
cQASM instruction; `Kron` wraps multi-line / empty / bundle texts into `{ … | … }`.
-/
namespace Q1t.CQ
open Q1t.Gen

abbrev Text := List Char

inductive Err where
  | notImplemented
  | invalidConditionalOp
  | exportPeekInvalid
  | noClassicalRegister
  | invalidNrBits (actual expected : Nat)
  deriving DecidableEq, Repr

inductive Res (α : Type) where
  | ok (a : α)
  | err (e : Err)
  | panic
  deriving Repr, DecidableEq

namespace Res
def bind {α β} : Res α → (α → Res β) → Res β
  | .ok a, f => f a
  | .err e, _ => .err e
  | .panic, _ => .panic
instance : Monad Res where
  pure := .ok
  bind := Res.bind
def map' {α β} (f : α → β) : Res α → Res β
  | .ok a => .ok (f a)
  | .err e => .err e
  | .panic => .panic
@[simp] theorem bind_ok {α β} (a : α) (f : α → Res β) : (Res.ok a >>= f) = f a := rfl
@[simp] theorem bind_err {α β} (e : Err) (f : α → Res β) : (Res.err e >>= f) = .err e := rfl
@[simp] theorem bind_panic {α β} (f : α → Res β) : ((Res.panic : Res α) >>= f) = .panic := rfl
@[simp] theorem pure_eq {α} (a : α) : (pure a : Res α) = .ok a := rfl
end Res

/-- what the exporter needs of `f64` -/
structure Num (F : Type) where
  /-- `f64::to_string` (`Display`) -/
  disp : F → Text
  /-- `x + ::std::f64::consts::PI` -/
  addPi : F → F
  /-- `Expression::eval` (`none` = `Err`) -/
  evalExpr : Expr.Expr → Option F

/-- `gates::Parameter`: `Direct(v)` or `Reference(cell, name)` with the cell's current value -/
inductive Param (F : Type) where
  | direct (v : F)
  | ref (name : Text) (v : F)
  deriving Repr

namespace Param
variable {F : Type}
/-- `Parameter::value` -/
def value : Param F → F
  | .direct v => v
  | .ref _ v => v
/-- `impl Display for Parameter` -/
def text (N : Num F) : Param F → Text
  | .direct v => N.disp v
  | .ref name _ => name
def isRef : Param F → Bool
  | .direct _ => false
  | .ref _ _ => true
end Param

mutual
/-- gates as the exporter sees them: library gates by their Rust struct name, the generic `C<G>` (which has no
`impl CQasm`, so a wrapper type gets the trait defaults), `Kron`, `Composite`, `Loop` -/
inductive XGate (F : Type) where
  | lib (name : String) (params : List (Param F))
  | ctl (g : XGate F)
  | kron (g0 g1 : XGate F)
  | comp (name : String) (n : Nat) (ops : XOps F)
  | loop (label : Text) (iters : Nat) (name : String) (n : Nat) (ops : XOps F)
inductive XOps (F : Type) where
  | nil
  | cons (g : XGate F) (bits : List Nat) (rest : XOps F)
end

/-- `nr_affected_bits()` of the library gates -/
def libBits (name : String) : Nat :=
  if ["CX", "CY", "CZ", "Swap", "CH", "CRX", "CRY", "CRZ", "CS", "CSdg", "CT", "CTdg", "CU1", "CU2", "CU3",
      "CV", "CVdg"].contains name then 2
  else if ["CCX", "CCZ", "CCRX", "CCRY", "CCRZ"].contains name then 3
  else 1

def nrBits {F : Type} : XGate F → Nat
  | .lib name _ => libBits name
  | .ctl g => 1 + nrBits g
  | .kron g0 g1 => nrBits g0 + nrBits g1
  | .comp _ n _ => n
  | .loop _ _ _ n _ => n

/-! ### text helpers -/

def natText (n : Nat) : Text := (toString n).toList

def intercalate (sep : Text) : List Text → Text
  | [] => []
  | [t] => t
  | t :: ts => t ++ sep ++ intercalate sep ts

/-- `format!`: literal pieces around the holes, hole `i` filled by `args[i]` -/
def fillFormat : List Text → List Text → Text
  | [], _ => []
  | p :: ps, [] => p ++ (ps.foldl (· ++ ·) [])
  | p :: ps, a :: as => p ++ a ++ fillFormat ps as

/-- split at the first occurrence of `c`: text before, text after -/
def splitFirst (c : Char) : Text → Option (Text × Text)
  | [] => none
  | x :: xs => if x = c then some ([], xs) else (splitFirst c xs).map fun (a, b) => (x :: a, b)

/-- `str::replace(pat, rep)`: all non-overlapping occurrences, left to right (`pat ≠ ""`) -/
def replaceAllF (pat rep : Text) : Nat → Text → Text
  | 0, s => s
  | _ + 1, [] => []
  | fuel + 1, c :: cs =>
    match Expr.stripPrefix pat (c :: cs) with
    | some rest => if pat.isEmpty then c :: cs else rep ++ replaceAllF pat rep fuel rest
    | none => c :: replaceAllF pat rep fuel cs
def replaceAll (pat rep s : Text) : Text := replaceAllF pat rep (s.length + 1) s

/-! ### `declare_controlled_qasm!`, second arm: template expansion -/

variable {F : Type}

/-- the value a `{…}` hole is replaced with, if its text parses completely and evaluates -/
def holeValue (N : Num F) (inner : Text) : Option Text :=
  match Expr.parse inner with
  | .ok (e, []) => (N.evalExpr e).map N.disp
  | _ => none

/-- the `while let Some(i) = res[off..].find('{')` loop -/
def holesF (N : Num F) : Nat → Text → Text
  | 0, s => s
  | fuel + 1, s =>
    match splitFirst '{' s with
    | none => s
    | some (pre, post) =>
      match splitFirst '}' post with
      | none => pre ++ '{' :: holesF N fuel post
      | some (inner, after) =>
        match holeValue N inner with
        | some repl => pre ++ repl ++ holesF N fuel after
        | none => pre ++ '{' :: holesF N fuel post
def holes (N : Num F) (s : Text) : Text := holesF N (s.length + 1) s

/-- `{i}` → name of the `i`-th listed qubit, for every listed qubit in order -/
def substBits (names : List Text) : List (Nat × Nat) → Text → Option Text
  | [], s => some s
  | (bit, i) :: more, s =>
    match names[bit]? with
    | none => none
    | some nm => substBits names more (replaceAll ('{' :: natText i ++ ['}']) nm s)

def substArgs (N : Num F) : List (String × Param F) → Text → Text
  | [], s => s
  | (arg, p) :: more, s => substArgs N more (replaceAll ('{' :: arg.toList ++ ['}']) (p.text N) s)

def expandTemplate (N : Num F) (names : List Text) (tpl : String) (argNames : List String)
    (params : List (Param F)) (bits : List Nat) : Res Text :=
  match substBits names bits.zipIdx tpl.toList with
  | none => .panic
  | some s1 => .ok (holes N (substArgs N (argNames.zip params) s1))

/-! ### the library gates -/

def bitName (names : List Text) (bits : List Nat) (k : Nat) : Res Text :=
  match bits[k]? with
  | none => .panic
  | some b => match names[b]? with
    | none => .panic
    | some nm => .ok nm

def paramOf (argNames : List String) (params : List (Param F)) (field : String) : Option (Param F) :=
  ((argNames.zip params).find? (fun ap => ap.1 == field)).map (·.2)

def formatArg (N : Num F) (names : List Text) (argNames : List String) (params : List (Param F))
    (bits : List Nat) : CQArg → Res Text
  | .bit k => bitName names bits k
  | .param f => match paramOf argNames params f with
    | some p => .ok (p.text N)
    | none => .panic
  | .paramPlusPi f => match paramOf argNames params f with
    | some p => .ok (N.disp (N.addPi p.value))
    | none => .panic

def mapRes {α β} (f : α → Res β) : List α → Res (List β)
  | [] => .ok []
  | a :: as => do let b ← f a; let bs ← mapRes f as; pure (b :: bs)

/-- `declare_controlled_qasm!`, first arm: lower-cased name, qubits, parameters -/
def plainText (N : Num F) (names : List Text) (lname : String) (params : List (Param F)) (bits : List Nat) :
    Res Text := do
  let bs ← mapRes (fun b => match names[b]? with | some nm => Res.ok nm | none => Res.panic) bits
  let t0 := lname.toList ++ (if bs.isEmpty then [] else ' ' :: intercalate ", ".toList bs)
  pure (if params.isEmpty then t0 else t0 ++ ", ".toList ++ intercalate ", ".toList (params.map (·.text N)))

def gateCQasm (N : Num F) (names : List Text) (g : CQGate) (params : List (Param F)) (bits : List Nat) :
    Res Text :=
  match g.kind with
  | .format check pieces args =>
    match check with
    | some k => if bits.length ≠ k then .err (.invalidNrBits bits.length k) else
        do let as ← mapRes (formatArg N names g.params params bits) args
           pure (fillFormat (pieces.map String.toList) as)
    | none =>
        do let as ← mapRes (formatArg N names g.params params bits) args
           pure (fillFormat (pieces.map String.toList) as)
  | .plain lname => plainText N names lname params bits
  | .template tpl => expandTemplate N names tpl g.params params bits

/-- `c_qasm` of the library gate called `name`, through the generated table `tbl` -/
def libCQasm (tbl : List CQGate) (N : Num F) (names : List Text) (name : String) (params : List (Param F))
    (bits : List Nat) : Res Text :=
  match tbl.find? (·.name == name) with
  | none => .err .notImplemented
  | some g => gateCQasm N names g params bits

/-- the default `CQasm::conditional_c_qasm`: `c-<first word> <condition>, <rest>` -/
def defaultCond (cond : Text) (unc : Text) : Res Text :=
  match splitFirst ' ' unc with
  | none => .err .invalidConditionalOp
  | some (p0, p1) => .ok (fillFormat (cqCondPieces.map String.toList) [p0, cond, p1])

def gatherBits (bits : List Nat) (sub : List Nat) : Res (List Nat) :=
  mapRes (fun b => match bits[b]? with | some x => Res.ok x | none => Res.panic) sub

/-! ### `c_qasm` and `conditional_c_qasm` of every gate -/

mutual
/-- `CQasm::c_qasm` -/
def cQasm (tbl : List CQGate) (N : Num F) (names : List Text) : XGate F → List Nat → Res Text
  | .lib name ps, bits => libCQasm tbl N names name ps bits
  | .ctl _, _ => .err .notImplemented
  | .kron g0 g1, bits =>
      let n0 := nrBits g0
      if bits.length < n0 then .panic else do
        let op0 ← cQasm tbl N names g0 (bits.take n0)
        let op1 ← cQasm tbl N names g1 (bits.drop n0)
        pure (fillFormat (cqKronPieces.map String.toList) [op0, op1])
  | .comp _ _ ops, bits => do
      let ts ← opsTexts tbl N names ops bits
      pure (intercalate ['\n'] ts)
  | .loop label iters _ _ ops, bits => do
      let ts ← opsTexts tbl N names ops bits
      pure (fillFormat (cqLoopPieces.map String.toList) [label, natText iters, intercalate ['\n'] ts])
/-- the per-operation texts of `Composite::c_qasm` (joined with `\n` by the caller) -/
def opsTexts (tbl : List CQGate) (N : Num F) (names : List Text) : XOps F → List Nat → Res (List Text)
  | .nil, _ => .ok []
  | .cons g sub rest, bits => do
      let gb ← gatherBits bits sub
      let t ← cQasm tbl N names g gb
      let ts ← opsTexts tbl N names rest bits
      pure (t :: ts)
end

mutual
/-- `CQasm::conditional_c_qasm` -/
def condCQasm (tbl : List CQGate) (N : Num F) (cond : Text) (names : List Text) : XGate F → List Nat → Res Text
  | .lib name ps, bits => do
      let unc ← libCQasm tbl N names name ps bits
      defaultCond cond unc
  | .ctl _, _ => .err .notImplemented
  | .kron g0 g1, bits =>
      let n0 := nrBits g0
      if bits.length < n0 then .panic else do
        let op0 ← condCQasm tbl N cond names g0 (bits.take n0)
        let op1 ← condCQasm tbl N cond names g1 (bits.drop n0)
        pure (op0 ++ '\n' :: op1)
  | .comp _ _ ops, bits => do
      let ts ← condOpsTexts tbl N cond names ops bits
      pure (intercalate ['\n'] ts)
  | .loop _ iters _ _ ops, bits =>
      if iters = 0 then .ok [] else do
        let ts ← condOpsTexts tbl N cond names ops bits
        pure (intercalate ['\n'] (List.replicate iters (intercalate ['\n'] ts)))
def condOpsTexts (tbl : List CQGate) (N : Num F) (cond : Text) (names : List Text) :
    XOps F → List Nat → Res (List Text)
  | .nil, _ => .ok []
  | .cons g sub rest, bits => do
      let gb ← gatherBits bits sub
      let t ← condCQasm tbl N cond names g gb
      let ts ← condOpsTexts tbl N cond names rest bits
      pure (t :: ts)
end

/-! ### `Circuit::c_qasm` -/

inductive Basis | X | Y | Z
  deriving DecidableEq, Repr

inductive XOp (F : Type) where
  | gate (g : XGate F) (bits : List Nat)
  | cond (control : List Nat) (target : Nat) (g : XGate F) (bits : List Nat)
  | reset (q : Nat)
  | resetAll
  | measure (q c : Nat) (b : Basis)
  | measureAll (cbits : List Nat) (b : Basis)
  | peek (q c : Nat) (b : Basis)
  | peekAll (cbits : List Nat) (b : Basis)
  | barrier (bits : List Nat)

structure XCircuit (F : Type) where
  nq : Nat
  nc : Nat
  ops : List (XOp F)

def qName (i : Nat) : Text := "q[".toList ++ natText i ++ [']']
def bName (i : Nat) : Text := "b[".toList ++ natText i ++ [']']
def qNames (nq : Nat) : List Text := (List.range nq).map qName

/-- `check_c_qasm_measurement` over `cbits.iter().enumerate()` -/
def measureAllOk : List (Nat × Nat) → Bool
  | [] => true
  | (c, q) :: more => if q ≠ c then false else measureAllOk more

/-- the bits for which a `not` line is written: `target & (1 << shift) == 0` -/
def notBits (control : List Nat) (target : Nat) : List Nat :=
  control.zipIdx.filterMap fun (idx, shift) => if target.testBit shift then none else some idx

def notLine (idx : Nat) : Text := "not ".toList ++ bName idx

/-- one arm of the `match *op` of `Circuit::c_qasm`: the chunks appended for this operation -/
def exportOp (tbl : List CQGate) (N : Num F) (nq : Nat) : XOp F → Res (List Text)
  | .gate g bits => do let t ← cQasm tbl N (qNames nq) g bits; pure [t]
  | .cond control target g bits =>
      if control.isEmpty then do let t ← cQasm tbl N (qNames nq) g bits; pure [t]
      else if 64 < control.length then .panic          -- `1 << shift`, shift = 64
      else if control.any (fun idx => nq ≤ idx) then .panic   -- `cbit_names[idx]`: only `nr_qbits` names exist
      else do
        let nots := (notBits control target).map notLine
        let condition := intercalate ", ".toList (control.map bName)
        let t ← condCQasm tbl N condition (qNames nq) g bits
        pure (nots ++ [t] ++ nots)
  | .measure q c b =>
      if q ≠ c then .err .noClassicalRegister else
        let op := match b with | .X => "measure_x" | .Y => "measure_y" | .Z => "measure"
        .ok [op.toList ++ " q[".toList ++ natText q ++ [']']]
  | .measureAll cbits b =>
      if !measureAllOk cbits.zipIdx then .err .noClassicalRegister else do
        let pre ← match b with
          | .X => mapRes (fun bit => cQasm tbl N (qNames nq) (.lib "H" []) [bit]) (List.range nq)
          | .Y => (mapRes (fun bit => do
                    let a ← cQasm tbl N (qNames nq) (.lib "Sdg" []) [bit]
                    let h ← cQasm tbl N (qNames nq) (.lib "H" []) [bit]
                    pure [a, h]) (List.range nq)).map' List.flatten
          | .Z => .ok []
        pure (pre ++ ["measure_all".toList])
  | .peek _ _ _ => .err .exportPeekInvalid
  | .peekAll _ _ => .err .exportPeekInvalid
  | .reset q => match (qNames nq)[q]? with
      | none => .panic
      | some nm => .ok ["prep_z ".toList ++ nm]
  | .resetAll => .ok ((qNames nq).map fun nm => "prep_z ".toList ++ nm)
  | .barrier _ => .ok []

def header (nq : Nat) : List Text :=
  "version 1.0".toList :: (if nq > 0 then ["qubits ".toList ++ natText nq] else [])

/-- the `for op in self.ops.iter()` loop with its accumulator `res` (as chunks) and the early returns of `?` -/
def exportLoop (tbl : List CQGate) (N : Num F) (nq : Nat) : List (XOp F) → List Text → Res (List Text)
  | [], acc => .ok acc
  | op :: ops, acc =>
    match exportOp tbl N nq op with
    | .ok ls => exportLoop tbl N nq ops (acc ++ ls)
    | .err e => .err e
    | .panic => .panic

/-- `Circuit::c_qasm`, as chunks -/
def exportChunks (tbl : List CQGate) (N : Num F) (c : XCircuit F) : Res (List Text) :=
  exportLoop tbl N c.nq c.ops (header c.nq)

/-- the program text: every chunk followed by a newline -/
def chunksText (chunks : List Text) : Text := chunks.flatMap (· ++ ['\n'])

/-- `Circuit::c_qasm` -/
def exportText (tbl : List CQGate) (N : Num F) (c : XCircuit F) : Res Text :=
  (exportChunks tbl N c).map' chunksText

/-! ### which gate a term denotes (for the reference semantics): library names to `GateTerm` -/

def libTerm : String → List F → Option (GateTerm F)
  | "H", [] => some .H | "X", [] => some .X | "Y", [] => some .Y | "Z", [] => some .Z
  | "S", [] => some .S | "Sdg", [] => some .Sdg | "T", [] => some .T | "Tdg", [] => some .Tdg
  | "V", [] => some .V | "Vdg", [] => some .Vdg | "I", [] => some .I
  | "RX", [a] => some (.RX a) | "RY", [a] => some (.RY a) | "RZ", [a] => some (.RZ a)
  | "U1", [a] => some (.U1 a) | "U2", [a, b] => some (.U2 a b) | "U3", [a, b, c] => some (.U3 a b c)
  | "CX", [] => some .CX | "CY", [] => some .CY | "CZ", [] => some .CZ | "Swap", [] => some .Swap
  | "CH", [] => some (.C .H) | "CS", [] => some (.C .S) | "CSdg", [] => some (.C .Sdg)
  | "CT", [] => some (.C .T) | "CTdg", [] => some (.C .Tdg) | "CV", [] => some (.C .V) | "CVdg", [] => some (.C .Vdg)
  | "CRX", [a] => some (.C (.RX a)) | "CRY", [a] => some (.C (.RY a)) | "CRZ", [a] => some (.C (.RZ a))
  | "CU1", [a] => some (.C (.U1 a)) | "CU2", [a, b] => some (.C (.U2 a b)) | "CU3", [a, b, c] => some (.C (.U3 a b c))
  | "CCX", [] => some (.C .CX) | "CCZ", [] => some (.C .CZ)
  | "CCRX", [a] => some (.C (.C (.RX a))) | "CCRY", [a] => some (.C (.C (.RY a))) | "CCRZ", [a] => some (.C (.C (.RZ a)))
  | _, _ => none

mutual
def toTerm : XGate F → Option (GateTerm F)
  | .lib name ps => libTerm name (ps.map Param.value)
  | .ctl g => (toTerm g).map .C
  | .kron g0 g1 => do let a ← toTerm g0; let b ← toTerm g1; pure (.Kron a b)
  | .comp name n ops => (toTermOps ops).map (.Composite name n)
  | .loop label iters name n ops => (toTermOps ops).map (.Loop (String.ofList label) iters name n)
def toTermOps : XOps F → Option (OpList F)
  | .nil => some .nil
  | .cons g bits rest => do let a ← toTerm g; let r ← toTermOps rest; pure (.cons a bits r)
end

end Q1t.CQ

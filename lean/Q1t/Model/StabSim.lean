import Q1t.Model.Sim
import Q1t.Model.Tableau
/-!
Model of the stabilizer backend `src/stabilizer/state.rs` (`StabilizerState: QuState`) on top of the
tableau model `Q1t.Tableau` (import-free, executable).  Plugs into `Sim.execOp` through
`stabBackend`.  The Pauli-conjugation rule of a gate term is a parameter (`conjOf`), supplied by the
conjugation model (C06) / the generated tables; the phase table is a parameter too (`ph`).
-/
namespace Q1t.Sim
open Q1t Q1t.Tableau

structure StabState where
  nrBits : Nat
  nrShots : Nat
  counts : List Nat
  tabs : List Tab

namespace StabState
variable {α P : Type}

/-- lift a tableau result into a program: errors stay errors, panics and index faults are panics -/
def lift {β} : Res β → Prog α β
  | .ok b => .pure b
  | .err (.invalidNrBits a b) => Prog.err (.invalidNrBits a b)
  | .err .notAStabilizer => Prog.err .notAStabilizer
  | .panic _ => Prog.panic "tableau"
  | .oob => Prog.panic "tableau index"

def new (nrBits nrShots : Nat) : StabState :=
  { nrBits, nrShots, counts := [nrShots], tabs := [Tab.new nrBits] }

-- `half` is the weight ½ handed to every `Binomial::new(count, 0.5)`
variable (half : α) (ph : List Nat) (conjOf : GateTerm P → Tab.Conj)

/-- `apply_gate`: `gate.check_nr_bits(bits.len())?`, then every tableau in turn (an error leaves the
earlier ones already updated — the model returns the error) -/
def applyGate (s : StabState) (g : GateTerm P) (bits : List Nat) : Prog α StabState :=
  if Gate.nrBits g ≠ bits.length then Prog.err (.invalidNrBits bits.length (Gate.nrBits g))
  else
    (lift (α := α) (s.tabs.mapM fun t => Tab.applyGate ph (conjOf g) t bits)).bind fun ts =>
      .pure { s with tabs := ts }

def applyUnaryAll (s : StabState) (g : GateTerm P) : Prog α StabState :=
  (List.range s.nrBits).foldl (fun acc bit => acc.bind fun st => applyGate (α := α) ph conjOf st g [bit]) (.pure s)

/-- `apply_conditional_gate`: the control length, then the gate's arity (as the vector backend), then
the ranges -/
def applyConditional (s : StabState) (control : List Bool) (g : GateTerm P) (bits : List Nat) :
    Prog α StabState :=
  if control.length ≠ s.nrShots then Prog.err (.invalidNrControlBits control.length s.nrShots)
  else if Gate.nrBits g ≠ bits.length then Prog.err (.invalidNrBits bits.length (Gate.nrBits g))
  else match collectConditionalRanges s.counts control with
    | none => Prog.panic "collect_conditional_ranges index"
    | some ranges =>
      (lift (α := α) (ranges.mapM fun (icol, _, apply) =>
        match s.tabs[icol]? with
        | none => Res.oob
        | some t => if apply then Tab.applyGate ph (conjOf g) t bits else .ok t)).bind fun ts =>
        .pure { s with tabs := ts, counts := ranges.map (·.2.1) }

/-- the loop of `measure_into` over (tableau, count) -/
def measureLoop (q cbit : Nat) :
    List (Tab × Nat) → Nat → List Nat → List Tab → List Nat → Prog α (List Nat × List Tab × List Nat)
  | [], _, res, ts, cs => .pure (res, ts, cs)
  | (t, count) :: rest, start, res, ts, cs =>
    (lift (α := α) (Tab.measure t q)).bind fun info =>
      match info with
      | .deterministic v =>
        -- all `count` shots get the value
        measureLoop q cbit rest (start + count) (writeRange res start count (if v then 0 else count) cbit)
          (ts ++ [t]) (cs ++ [count])
      | .random i =>
        .binomial count half fun n0 =>
          let res' := writeRange res start count n0 cbit
          if n0 = 0 then
            (lift (α := α) (Tab.collapse ph t i q true)).bind fun t1 =>
              measureLoop q cbit rest (start + count) res' (ts ++ [t1]) (cs ++ [count])
          else if n0 = count then
            (lift (α := α) (Tab.collapse ph t i q false)).bind fun t0 =>
              measureLoop q cbit rest (start + count) res' (ts ++ [t0]) (cs ++ [count])
          else
            (lift (α := α) (Tab.collapse ph t i q false)).bind fun t0 =>
              (lift (α := α) (Tab.collapse ph t i q true)).bind fun t1 =>
                measureLoop q cbit rest (start + count) res' (ts ++ [t0, t1]) (cs ++ [n0, count - n0])

/-- `measure_into` -/
def measureInto (s : StabState) (q cbit : Nat) (res : List Nat) : Prog α (StabState × List Nat) :=
  if s.nrBits ≤ q then Prog.err (.invalidQBit q)
  else if res.length < s.nrShots then Prog.err (.notEnoughSpace res.length s.nrShots)
  else if ¬ shiftOk cbit then Prog.panic "1 << cbit"
  else
    (measureLoop half ph q cbit (s.tabs.zip s.counts) 0 res [] []).bind fun (res', ts, cs) =>
      .pure ({ s with tabs := ts, counts := cs }, res')

/-- `measure_all_into`: the two checks of the vector backend (`NotEnoughSpace`, then
`InvalidNrMeasurementBits`), then qubit by qubit -/
def measureAllInto (s : StabState) (cbits : List Nat) (res : List Nat) : Prog α (StabState × List Nat) :=
  if res.length < s.nrShots then Prog.err (.notEnoughSpace res.length s.nrShots)
  else if cbits.length ≠ s.nrBits then Prog.err (.invalidNrMeasurementBits cbits.length s.nrBits)
  else
    cbits.zipIdx.foldl (fun acc (cbit, q) => acc.bind fun (st, r) => measureInto half ph st q cbit r) (.pure (s, res))

/-- `peek_into` -/
def peekInto (s : StabState) (q cbit : Nat) (res : List Nat) : Prog α (List Nat) :=
  if s.nrBits ≤ q then Prog.err (.invalidQBit q)
  else if res.length < s.nrShots then Prog.err (.notEnoughSpace res.length s.nrShots)
  else if ¬ shiftOk cbit then Prog.panic "1 << cbit"
  else
    let rec go : List (Tab × Nat) → Nat → List Nat → Prog α (List Nat)
      | [], _, res => .pure res
      | (t, count) :: rest, start, res =>
        (lift (α := α) (Tab.measure t q)).bind fun info =>
          match info with
          | .deterministic v => go rest (start + count) (writeRange res start count (if v then 0 else count) cbit)
          | .random _ => .binomial count half fun n0 =>
              go rest (start + count) (writeRange res start count n0 cbit)
    go (s.tabs.zip s.counts) 0 res

/-- the inner loops of `peek_all_into` for one tableau: refine `(idx, count)` pieces qubit by qubit,
each qubit sampled independently on the *uncollapsed* tableau -/
def peekAllPieces (t : Tab) : List (Nat × Nat) → List (Nat × Nat) → Prog α (List (Nat × Nat))
  | [], counts => .pure counts
  | (cbit, q) :: rest, counts =>
    (lift (α := α) (Tab.measure t q)).bind fun info =>
      let rec split : List (Nat × Nat) → Prog α (List (Nat × Nat))
        | [] => .pure []
        | (idx, c) :: more =>
          let cont := fun (n0 : Nat) =>
            (split more).bind fun tail =>
              .pure ((if n0 > 0 then [(idx, n0)] else []) ++
                     (if n0 < c then [(idx ||| (1 <<< cbit), c - n0)] else []) ++ tail)
          match info with
          | .deterministic false => cont c
          | .deterministic true => cont 0
          | .random _ => .binomial c half cont
      (split counts).bind fun counts' => peekAllPieces t rest counts'

/-- `peek_all_into`: the same two checks first -/
def peekAllInto (s : StabState) (cbits : List Nat) (res : List Nat) : Prog α (StabState × List Nat) :=
  if res.length < s.nrShots then Prog.err (.notEnoughSpace res.length s.nrShots) else
  if cbits.length ≠ s.nrBits then Prog.err (.invalidNrMeasurementBits cbits.length s.nrBits) else
  if ¬ cbits.all shiftOk then Prog.panic "1u64 << cbit" else
  let oneMask := cbits.foldl (fun m b => m ||| (1 <<< b)) 0
  let rec go : List (Tab × Nat) → Nat → List Nat → Prog α (List Nat)
    | [], _, res => .pure res
    | (t, count) :: rest, offset, res =>
      (peekAllPieces half t cbits.zipIdx [(0, count)]).bind fun pieces =>
        let step := fun (st : List Nat × Nat) (ic : Nat × Nat) =>
          let (res, off) := st
          (res.zipIdx.map fun (w, i) =>
            if off ≤ i ∧ i < off + ic.2 then (w &&& ((2 ^ 64 - 1) ^^^ oneMask)) ||| ic.1 else w, off + ic.2)
        let (res', off') := pieces.foldl step (res, offset)
        go rest off' res'
  (go (s.tabs.zip s.counts) 0 res).bind fun res' => .pure (s, res')

/-- `reset`: every tableau is forced (no draw, no range split) -/
def reset (s : StabState) (bit : Nat) : Prog α StabState :=
  (lift (α := α) (s.tabs.mapM fun t => Tab.reset ph t bit)).bind fun ts => .pure { s with tabs := ts }

def resetAll (s : StabState) : StabState :=
  { s with tabs := [Tab.new s.nrBits], counts := [s.nrShots] }

end StabState

/-- the stabilizer backend as a `Backend` for `execOp` -/
def stabBackend {α P : Type} (half : α) (ph : List Nat) (conjOf : GateTerm P → Tab.Conj) :
    Backend α P StabState where
  applyGate := StabState.applyGate ph conjOf
  applyUnaryAll := StabState.applyUnaryAll ph conjOf
  applyConditional := StabState.applyConditional ph conjOf
  measureInto := StabState.measureInto half ph
  measureAllInto := StabState.measureAllInto half ph
  peekInto := StabState.peekInto half
  peekAllInto := StabState.peekAllInto half
  reset := StabState.reset ph
  resetAll := StabState.resetAll

end Q1t.Sim

import Q1t.Model.Bits
/-!
Model of `qustate::collect_conditional_ranges` and of the two `apply_conditional_gate`s
(`src/vectorstate.rs`, `src/stabilizer/state.rs`), import-free and executable.

A simulation state is a list of ranges: `counts[k]` shots share `states[k]`.  The state type `σ`
and the gate action `g : σ → σ` are parameters (coefficient column + `apply_gate_slice`, or tableau +
`apply_gate`); what a gate does to a state is the subject of C04/C06, not of this model.
-/
namespace Q1t.Conditional
open Q1t.Bits

abbrev Piece := Nat × Nat × Bool   -- (start column, length, apply)

/-- The `for ibit in off+1..off+count` loop: a change of the mask value closes the current piece. -/
def innerLoop (control : List Bool) (icol : Nat) :
    List Nat → Nat → Bool → List Piece → Option (List Piece × Nat × Bool)
  | [], begin, prev, acc => some (acc, begin, prev)
  | ibit :: rest, begin, prev, acc =>
    match control[ibit]? with
    | none => none                     -- `control[ibit]` index panic
    | some b =>
      if b != prev then innerLoop control icol rest ibit (!prev) (acc ++ [(icol, ibit - begin, prev)])
      else innerLoop control icol rest begin prev acc

/-- The `for (icol, &count) in counts.iter().enumerate()` loop. -/
def outerLoop (control : List Bool) : List Nat → Nat → Nat → List Piece → Option (List Piece)
  | [], _, _, acc => some acc
  | count :: rest, icol, off, acc =>
    match control[off]? with
    | none => none                     -- `control[off]` index panic (D9: counts = [0], control = [])
    | some prev0 =>
      match innerLoop control icol (List.range' (off + 1) (count - 1)) off prev0 acc with
      | none => none
      | some (acc', begin, prev) =>
        let acc'' := if begin < off + count then acc' ++ [(icol, off + count - begin, prev)] else acc'
        outerLoop control rest (icol + 1) (off + count) acc''

/-- `collect_conditional_ranges(counts, control)`; `none` = index panic. -/
def collectRanges (counts : List Nat) (control : List Bool) : Option (List Piece) :=
  outerLoop control counts 0 0 []

/-- ranges representation of a simulation state -/
structure RState (σ : Type) where
  counts : List Nat
  states : List σ
deriving Repr

/-- the `for (new_icol, &(icol, _, apply)) in ranges` loop: a copy of the source column per piece, the
gate applied iff the flag is set; `none` = column index panic -/
def buildCols {σ} (g : σ → σ) (states : List σ) : List Piece → Option (List (Nat × σ))
  | [] => some []
  | p :: ps =>
    match states[p.1]? with
    | none => none
    | some s => (buildCols g states ps).map ((p.2.1, if p.2.2 then g s else s) :: ·)

/-- `apply_conditional_gate(control, gate, bits)` of either backend: length check, ranges, then for
every piece a copy of its source column, with the gate applied iff the piece's flag is set. -/
def applyConditional {σ} (nrShots : Nat) (g : σ → σ) (control : List Bool) (st : RState σ) : Res (RState σ) :=
  if control.length ≠ nrShots then .err "InvalidNrControlBits" [control.length, nrShots]
  else match collectRanges st.counts control with
    | none => .panic "collect_conditional_ranges index"
    | some ranges =>
      match buildCols g st.states ranges with
      | none => .panic "column index"
      | some cols => .ok ⟨cols.map (·.1), cols.map (·.2)⟩

/-- the state of every shot, in shot order -/
def expand {σ} (st : RState σ) : List σ :=
  (List.zip st.counts st.states).flatMap (fun cs => List.replicate cs.1 cs.2)

/-- the control word of every shot; `none` = shift-overflow panic -/
def gatherAll (control : List Nat) : List Word → Option (List Word)
  | [] => some []
  | w :: ws =>
    match controlWord control w with
    | none => none
    | some cw => (gatherAll control ws).map (cw :: ·)

/-- The `ConditionalGate` arm of `do_execute_with`: gather the control word of every shot, compare
with `target`, hand the mask to the backend.  The register is only read. -/
def condOp {σ} (g : σ → σ) (control : List Nat) (target : Word) (reg : List Word) (st : RState σ) :
    Res (RState σ) :=
  match gatherAll control reg with
  | none => .panic "shift"
  | some cws => applyConditional reg.length g (cws.map (· == target)) st

end Q1t.Conditional

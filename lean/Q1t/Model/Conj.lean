import Q1t.Model.Gate
import Q1t.Model.Tableau
import Q1t.Model.Sim
import Q1t.Gen.Conj
/-!
Model of the stabilizer interface of the gate library (import-free, executable):

* `isStabilizerT` — `Gate::is_stabilizer()` of every gate term (`src/gates.rs:352` default `false`;
  the overriding primitives through the GENERATED table `Q1t.Gen.conjTable`; `Kron`, `Composite`,
  `Loop` as written in `kron.rs`, `composite.rs`, `staticloop.rs`; `C<G>` and the named wrappers
  declared by `declare_controlled!` keep the default);
* `conjugateT` — `Gate::conjugate(&mut ops)`: `Ok(flip)` with the overwritten slice, or the error.
  Primitives: `check_nr_bits` (omitted by `I`, see `Gen.conjNoArityCheck`) then the table row;
  `Kron`: `check_nr_bits`, `g0` on `ops[..n0]`, `g1` on `ops[n0..]`, signs xor-ed, `?` returns early;
  `Composite`: `check_nr_bits`, then for every sub-gate gather `ops[b]` (index panic = `oob`),
  conjugate the copy, scatter it back through `zip`; `Loop`: `check_nr_bits`, then `NotAStabilizer`
  unless `self.is_stabilizer()`, then `nr_iterations` times `body.conjugate(ops)`;
* `opIsStab`, `isStabilizerCircuit`, `chooseRepr` — `CircuitOp::is_stabilizer`,
  `Circuit::is_stabilizer_circuit`, and the representation `execute_with_rng` creates.

The tables are parameters (`tbl`, `noCheck`); `isStabilizer`, `conjugate`, … are the instances at
the generated tables.
-/
namespace Q1t.Conj
open Q1t Q1t.Gate

abbrev Pauli := Tableau.P
abbrev Table := List Tableau.ConjEntry

/-- outcomes of `conjugate` other than `Ok` -/
inductive Err where
  /-- `Error::InvalidNrBits(got, expected, _)` from `check_nr_bits` -/
  | invalidNrBits (got expected : Nat)
  /-- `Error::NotAStabilizer(_)` -/
  | notAStabilizer
  /-- panic: `ops[b]` with `b` out of range in `Composite::conjugate` -/
  | oob
deriving DecidableEq, Repr, Inhabited

def Err.ofG : Tableau.GErr → Err
  | .invalidNrBits g e => .invalidNrBits g e
  | .notAStabilizer => .notAStabilizer

abbrev Result := Except Err (Bool × List Pauli)

variable {Q : Type}

/-- the struct name under which a primitive's `impl Gate` is found in the generated table -/
def primName : GateTerm Q → Option String
  | .H => some "H" | .X => some "X" | .Y => some "Y" | .Z => some "Z"
  | .S => some "S" | .Sdg => some "Sdg" | .T => some "T" | .Tdg => some "Tdg"
  | .V => some "V" | .Vdg => some "Vdg" | .I => some "I"
  | .RX _ => some "RX" | .RY _ => some "RY" | .RZ _ => some "RZ"
  | .U1 _ => some "U1" | .U2 _ _ => some "U2" | .U3 _ _ _ => some "U3"
  | .CX => some "CX" | .CY => some "CY" | .CZ => some "CZ" | .Swap => some "Swap"
  | _ => none

def lookup (tbl : Table) (name : String) : Option Tableau.ConjEntry :=
  tbl.find? (fun e => e.1 == name)

/-- `is_stabilizer()` of a primitive: the flag extracted from its `impl Gate` (absent: default) -/
def primFlag (tbl : Table) : Option String → Bool
  | some name => match lookup tbl name with
    | some e => e.2.2.1
    | none => false
  | none => false

/-- `conjugate()` of a primitive -/
def primConj (tbl : Table) (noCheck : List String) (name : Option String) (ops : List Pauli) : Result :=
  match name with
  | some nm => match Tableau.conjOf tbl noCheck nm ops with
    | .ok r => .ok r
    | .error e => .error (Err.ofG e)
  | none => .error .notAStabilizer

/-- `for _ in 0..k { flip_sign ^= f(ops)?; }` -/
def iterConj (f : List Pauli → Result) : Nat → List Pauli → Bool → Result
  | 0, ops, flip => .ok (flip, ops)
  | k + 1, ops, flip =>
    match f ops with
    | .error e => .error e
    | .ok (fl, ops') => iterConj f k ops' (flip != fl)

/-- `op.bits.iter().map(|&b| ops[b]).collect()`; `none` = index panic -/
def gather (ops : List Pauli) (bits : List Nat) : Option (List Pauli) := bits.mapM fun b => ops[b]?

/-- `for (&i, gop) in op.bits.iter().zip(gate_ops) { ops[i] = gop; }` -/
def scatter (ops : List Pauli) (bits : List Nat) (gops : List Pauli) : List Pauli :=
  (bits.zip gops).foldl (fun acc ig => acc.set ig.1 ig.2) ops

mutual
/-- `Gate::is_stabilizer()` -/
def isStabilizerT (tbl : Table) : GateTerm Q → Bool
  | .C _ => false
  | .Kron g0 g1 => isStabilizerT tbl g0 && isStabilizerT tbl g1
  | .Composite _ _ ops => allStabT tbl ops
  | .Loop _ _ _ _ body => allStabT tbl body
  | .H => primFlag tbl (some "H") | .X => primFlag tbl (some "X") | .Y => primFlag tbl (some "Y")
  | .Z => primFlag tbl (some "Z") | .S => primFlag tbl (some "S") | .Sdg => primFlag tbl (some "Sdg")
  | .T => primFlag tbl (some "T") | .Tdg => primFlag tbl (some "Tdg") | .V => primFlag tbl (some "V")
  | .Vdg => primFlag tbl (some "Vdg") | .I => primFlag tbl (some "I")
  | .RX _ => primFlag tbl (some "RX") | .RY _ => primFlag tbl (some "RY") | .RZ _ => primFlag tbl (some "RZ")
  | .U1 _ => primFlag tbl (some "U1") | .U2 _ _ => primFlag tbl (some "U2")
  | .U3 _ _ _ => primFlag tbl (some "U3")
  | .CX => primFlag tbl (some "CX") | .CY => primFlag tbl (some "CY") | .CZ => primFlag tbl (some "CZ")
  | .Swap => primFlag tbl (some "Swap")
/-- `self.ops.iter().all(|op| op.gate.is_stabilizer())` -/
def allStabT (tbl : Table) : OpList Q → Bool
  | .nil => true
  | .cons g _ rest => isStabilizerT tbl g && allStabT tbl rest
end

mutual
/-- `Gate::conjugate(&mut ops)` -/
def conjugateT (tbl : Table) (noCheck : List String) : GateTerm Q → List Pauli → Result
  | .C _, _ => .error .notAStabilizer
  | .Kron g0 g1, ops =>
    let n0 := nrBits g0
    if ops.length ≠ n0 + nrBits g1 then .error (.invalidNrBits ops.length (n0 + nrBits g1))
    else match conjugateT tbl noCheck g0 (ops.take n0) with
      | .error e => .error e
      | .ok (f0, o0) => match conjugateT tbl noCheck g1 (ops.drop n0) with
        | .error e => .error e
        | .ok (f1, o1) => .ok (f0 != f1, o0 ++ o1)
  | .Composite _ n body, ops =>
    if ops.length ≠ n then .error (.invalidNrBits ops.length n)
    else conjOpsT tbl noCheck body ops false
  | .Loop _ iters _ n body, ops =>
    if ops.length ≠ n then .error (.invalidNrBits ops.length n)
    else if !allStabT tbl body then .error .notAStabilizer      -- `if !self.is_stabilizer()`
    else iterConj (fun p =>
      if p.length ≠ n then .error (.invalidNrBits p.length n) else conjOpsT tbl noCheck body p false)
      iters ops false
  | .H, ops => primConj tbl noCheck (some "H") ops | .X, ops => primConj tbl noCheck (some "X") ops
  | .Y, ops => primConj tbl noCheck (some "Y") ops | .Z, ops => primConj tbl noCheck (some "Z") ops
  | .S, ops => primConj tbl noCheck (some "S") ops | .Sdg, ops => primConj tbl noCheck (some "Sdg") ops
  | .T, ops => primConj tbl noCheck (some "T") ops | .Tdg, ops => primConj tbl noCheck (some "Tdg") ops
  | .V, ops => primConj tbl noCheck (some "V") ops | .Vdg, ops => primConj tbl noCheck (some "Vdg") ops
  | .I, ops => primConj tbl noCheck (some "I") ops
  | .RX _, ops => primConj tbl noCheck (some "RX") ops | .RY _, ops => primConj tbl noCheck (some "RY") ops
  | .RZ _, ops => primConj tbl noCheck (some "RZ") ops | .U1 _, ops => primConj tbl noCheck (some "U1") ops
  | .U2 _ _, ops => primConj tbl noCheck (some "U2") ops
  | .U3 _ _ _, ops => primConj tbl noCheck (some "U3") ops
  | .CX, ops => primConj tbl noCheck (some "CX") ops | .CY, ops => primConj tbl noCheck (some "CY") ops
  | .CZ, ops => primConj tbl noCheck (some "CZ") ops | .Swap, ops => primConj tbl noCheck (some "Swap") ops
/-- the `for op in self.ops.iter()` loop of `Composite::conjugate` (`flip` = `flip_sign` so far) -/
def conjOpsT (tbl : Table) (noCheck : List String) : OpList Q → List Pauli → Bool → Result
  | .nil, ops, flip => .ok (flip, ops)
  | .cons g bits rest, ops, flip =>
    match gather ops bits with
    | none => .error .oob
    | some gops =>
      match conjugateT tbl noCheck g gops with
      | .error e => .error e
      | .ok (fl, gops') => conjOpsT tbl noCheck rest (scatter ops bits gops') (flip != fl)
end

/-! ### the instances at the generated tables -/

def isStabilizer (g : GateTerm Q) : Bool := isStabilizerT Gen.conjTable g
def conjugate (g : GateTerm Q) (ops : List Pauli) : Result :=
  conjugateT Gen.conjTable Gen.conjNoArityCheck g ops

/-! ### circuits -/

/-- `CircuitOp::is_stabilizer` -/
def opIsStabT (tbl : Table) : Sim.COp Q → Bool
  | .gate g _ => isStabilizerT tbl g
  | .cond _ _ g _ => isStabilizerT tbl g
  | _ => true

/-- `Circuit::is_stabilizer_circuit` -/
def isStabilizerCircuitT (tbl : Table) (ops : List (Sim.COp Q)) : Bool := ops.all (opIsStabT tbl)

/-- the two variants of `QuStateRepr` -/
inductive QRepr where
  | stabilizer | vector
deriving DecidableEq, Repr, Inhabited

/-- the state `execute_with_rng` creates before running the operations -/
def chooseReprT (tbl : Table) (ops : List (Sim.COp Q)) : QRepr :=
  if isStabilizerCircuitT tbl ops then .stabilizer else .vector

def opIsStab (op : Sim.COp Q) : Bool := opIsStabT Gen.conjTable op
def isStabilizerCircuit (ops : List (Sim.COp Q)) : Bool := isStabilizerCircuitT Gen.conjTable ops
def chooseRepr (ops : List (Sim.COp Q)) : QRepr := chooseReprT Gen.conjTable ops

/-! ### well-formed terms (executable version of `Spec.WF`) -/

mutual
def wfB : GateTerm Q → Bool
  | .C g => wfB g
  | .Kron g0 g1 => wfB g0 && wfB g1
  | .Composite _ n ops => decide (0 < n) && wfOpsB n ops
  | .Loop _ _ _ n body => decide (0 < n) && wfOpsB n body
  | _ => true
def wfOpsB (n : Nat) : OpList Q → Bool
  | .nil => true
  | .cons g bits rest =>
    wfB g && decide (nrBits g = bits.length) && (bits.all (· < n) && decide bits.Nodup) && wfOpsB n rest
end

end Q1t.Conj

import Q1t.Model.Gate
/-!
Small model of `VectorState::apply_gate` and `VectorState::apply_conditional_gate` together with
`qustate::collect_conditional_ranges` (C04 only needs the range level: which columns the gate is
applied to).  A state is a list of `(count, amplitudes)` columns.  Import-free, executable.
-/
namespace Q1t.Gate

/-- the runs of equal control bits inside one column's shots: `prev` is the value of the current
run, `len` its length so far -/
def condRuns (icol : Nat) : Bool → Nat → List Bool → List (Nat × Nat × Bool)
  | prev, len, [] => [(icol, len, prev)]
  | prev, len, b :: r =>
    if b = prev then condRuns icol prev (len + 1) r else (icol, len, prev) :: condRuns icol b 1 r

/-- `collect_conditional_ranges(counts, control)`: `(column, number of shots, apply?)`;
`none` = index panic (`control[off]` is read even for an empty column) -/
def condRanges : Nat → Nat → List Nat → List Bool → Option (List (Nat × Nat × Bool))
  | _, _, [], _ => some []
  | icol, off, count :: rest, control =>
    match control[off]? with
    | none => none
    | some prev =>
      let seg := (control.drop off).take count
      if seg.length < count then none else
        (condRanges (icol + 1) (off + count) rest control).map fun tl =>
          (if count = 0 then [] else condRuns icol prev 1 (seg.drop 1)) ++ tl

inductive CondRes (α : Type) where
  | ok (counts : List Nat) (states : List (List α))
  | errNrControl (got shots : Nat)
  | errNrBits (got want : Nat)
  | panic

variable {α P : Type} [Zero α] [One α] [Add α] [Mul α] [Neg α] [Sub α] [Amp α P]

/-- `VectorState::apply_conditional_gate` -/
def applyConditional (n shots : Nat) (counts : List Nat) (states : List (List α))
    (control : List Bool) (g : GateTerm P) (bits : List Nat) : CondRes α :=
  if control.length ≠ shots then .errNrControl control.length shots
  else if nrBits g ≠ bits.length then .errNrBits bits.length (nrBits g)
  else match condRanges 0 0 counts control with
    | none => .panic
    | some ranges =>
      let cols := ranges.mapM fun (icol, _, ap) =>
        match states[icol]? with
        | none => none
        | some col =>
          if col.length ≠ 2 ^ n then none
          else if ap then applyGateSlice (α := α) .vec g bits n col else some col
      match cols with
      | none => .panic
      | some cs => .ok (ranges.map (·.2.1)) cs

/-- `VectorState::apply_gate`: the state matrix (`2^n` rows, one column per range) goes through
`apply_gate_mat_slice`; `Except` error = `InvalidNrBits` -/
def applyAll (n : Nat) (rows : List (List α)) (g : GateTerm P) (bits : List Nat) :
    Except (Nat × Nat) (Option (List (List α))) :=
  if nrBits g ≠ bits.length then .error (bits.length, nrBits g)
  else .ok (applyGateSlice (α := α) .mat g bits n rows)

end Q1t.Gate

import Q1t.Model.Sim
/-!
Model of the circuit-building calls of `impl Circuit` (`/repo/src/circuit.rs`), C18 — import-free,
executable.  Every `pub fn … -> Result<()>` that appends to `self.ops` and `reset_all`, *as coded*:
the range checks (and nothing else: no arity, no distinctness, no length check), their order, the
error constructor and payload, the delegation of the convenience methods (`measure_x → measure_basis`,
`h → add_gate`, …) and the operation pushed on success.

A call is a transformer of the `&mut self` circuit that also returns the `Result<()>`:
`step : Circ P → Call P → Circ P × Except Fail Unit`.  `Fail` has a `panic` constructor (convention M1);
no builder produces it (`Proofs/Builders.lean: builder_never_panics`).

The `circuit!` macro is `runMacro`: the calls in order on a fresh circuit; the error of a call is
returned (and the remaining calls are not evaluated) iff the method's name has a `$res?` arm in
`circuit_method_check!` (the generated table `Gen.checkedMethods`, a parameter here), otherwise it is
dropped and building goes on.
-/
namespace Q1t.Builders
open Q1t Q1t.Sim

/-- `Circuit { nr_qbits, nr_cbits, ops }` (the run-time state `q_state`/`c_state` is `CircuitObj`) -/
structure Circ (P : Type) where
  nq : Nat
  nc : Nat
  ops : List (COp P)

/-- `Circuit::new` -/
def Circ.new {P : Type} (nq nc : Nat) : Circ P := { nq, nc, ops := [] }

/-- the public building calls; `target` is the `u64` word of `add_conditional_gate` -/
inductive Call (P : Type) where
  | addGate (g : GateTerm P) (bits : List Nat)
  | addConditionalGate (control : List Nat) (target : Nat) (g : GateTerm P) (qbits : List Nat)
  | measureBasis (q c : Nat) (b : Basis)
  | measureX (q c : Nat) | measureY (q c : Nat) | measureZ (q c : Nat) | measure (q c : Nat)
  | measureAllBasis (cbits : List Nat) (b : Basis)
  | measureAll (cbits : List Nat)
  | peekBasis (q c : Nat) (b : Basis)
  | peekX (q c : Nat) | peekY (q c : Nat) | peekZ (q c : Nat) | peek (q c : Nat)
  | peekAllBasis (cbits : List Nat) (b : Basis)
  | peekAll (cbits : List Nat)
  | reset (q : Nat)
  | resetAll
  | h (q : Nat) | x (q : Nat) | y (q : Nat) | z (q : Nat) | s (q : Nat) | sdg (q : Nat)
  | rx (θ : P) (q : Nat) | ry (θ : P) (q : Nat) | rz (l : P) (q : Nat)
  | u1 (l : P) (q : Nat) | u2 (φ l : P) (q : Nat) | u3 (θ φ l : P) (q : Nat)
  | cx (control target : Nat)
  | barrier (qbits : List Nat)

/-- the Rust method name of a call (the identifier `circuit_method_check!` matches on) -/
def Call.name {P : Type} : Call P → String
  | .addGate .. => "add_gate" | .addConditionalGate .. => "add_conditional_gate"
  | .measureBasis .. => "measure_basis" | .measureX .. => "measure_x" | .measureY .. => "measure_y"
  | .measureZ .. => "measure_z" | .measure .. => "measure"
  | .measureAllBasis .. => "measure_all_basis" | .measureAll .. => "measure_all"
  | .peekBasis .. => "peek_basis" | .peekX .. => "peek_x" | .peekY .. => "peek_y"
  | .peekZ .. => "peek_z" | .peek .. => "peek"
  | .peekAllBasis .. => "peek_all_basis" | .peekAll .. => "peek_all"
  | .reset .. => "reset" | .resetAll => "reset_all"
  | .h .. => "h" | .x .. => "x" | .y .. => "y" | .z .. => "z" | .s .. => "s" | .sdg .. => "sdg"
  | .rx .. => "rx" | .ry .. => "ry" | .rz .. => "rz" | .u1 .. => "u1" | .u2 .. => "u2" | .u3 .. => "u3"
  | .cx .. => "cx" | .barrier .. => "barrier"

abbrev Out (P : Type) := Circ P × Except Fail Unit

variable {P : Type}

/-- `bits.iter().find(|&&b| b >= bound)` -/
def firstGe (bound : Nat) (bits : List Nat) : Option Nat := bits.find? fun b => decide (bound ≤ b)

/-- `self.ops.push(op); Ok(())` -/
def push (c : Circ P) (op : COp P) : Out P := ({ c with ops := c.ops ++ [op] }, .ok ())

def fail (c : Circ P) (e : SimErr) : Out P := (c, .error (.err e))

/-- `add_gate` -/
def addGate (c : Circ P) (g : GateTerm P) (bits : List Nat) : Out P :=
  match firstGe c.nq bits with
  | some b => fail c (.invalidQBit b)
  | none => push c (.gate g bits)

/-- `add_conditional_gate` -/
def addConditionalGate (c : Circ P) (control : List Nat) (target : Nat) (g : GateTerm P) (qbits : List Nat) : Out P :=
  match firstGe c.nc control with
  | some b => fail c (.invalidCBit b)
  | none =>
    match firstGe c.nq qbits with
    | some b => fail c (.invalidQBit b)
    | none => push c (.cond control target g qbits)

/-- `measure_basis` -/
def measureBasis (c : Circ P) (q cb : Nat) (b : Basis) : Out P :=
  if c.nq ≤ q then fail c (.invalidQBit q)
  else if c.nc ≤ cb then fail c (.invalidCBit cb)
  else push c (.measure q cb b)

/-- `measure_all_basis` -/
def measureAllBasis (c : Circ P) (cbits : List Nat) (b : Basis) : Out P :=
  match firstGe c.nc cbits with
  | some bit => fail c (.invalidCBit bit)
  | none => push c (.measureAll cbits b)

/-- `peek_basis` -/
def peekBasis (c : Circ P) (q cb : Nat) (b : Basis) : Out P :=
  if c.nq ≤ q then fail c (.invalidQBit q)
  else if c.nc ≤ cb then fail c (.invalidCBit cb)
  else push c (.peek q cb b)

/-- `peek_all_basis` -/
def peekAllBasis (c : Circ P) (cbits : List Nat) (b : Basis) : Out P :=
  match firstGe c.nc cbits with
  | some bit => fail c (.invalidCBit bit)
  | none => push c (.peekAll cbits b)

/-- `reset` -/
def reset (c : Circ P) (q : Nat) : Out P :=
  if c.nq ≤ q then fail c (.invalidQBit q) else push c (.reset q)

/-- `barrier` -/
def barrier (c : Circ P) (qbits : List Nat) : Out P :=
  match firstGe c.nq qbits with
  | some b => fail c (.invalidQBit b)
  | none => push c (.barrier qbits)

/-- one building call on `&mut self` -/
def step (c : Circ P) : Call P → Out P
  | .addGate g bits => addGate c g bits
  | .addConditionalGate control target g qbits => addConditionalGate c control target g qbits
  | .measureBasis q cb b => measureBasis c q cb b
  | .measureX q cb => measureBasis c q cb .X
  | .measureY q cb => measureBasis c q cb .Y
  | .measureZ q cb => measureBasis c q cb .Z
  | .measure q cb => measureBasis c q cb .Z
  | .measureAllBasis cbits b => measureAllBasis c cbits b
  | .measureAll cbits => measureAllBasis c cbits .Z
  | .peekBasis q cb b => peekBasis c q cb b
  | .peekX q cb => peekBasis c q cb .X
  | .peekY q cb => peekBasis c q cb .Y
  | .peekZ q cb => peekBasis c q cb .Z
  | .peek q cb => peekBasis c q cb .Z
  | .peekAllBasis cbits b => peekAllBasis c cbits b
  | .peekAll cbits => peekAllBasis c cbits .Z
  | .reset q => reset c q
  | .resetAll => push c .resetAll
  | .h q => addGate c .H [q]
  | .x q => addGate c .X [q]
  | .y q => addGate c .Y [q]
  | .z q => addGate c .Z [q]
  | .s q => addGate c .S [q]
  | .sdg q => addGate c .Sdg [q]
  | .rx θ q => addGate c (.RX θ) [q]
  | .ry θ q => addGate c (.RY θ) [q]
  | .rz l q => addGate c (.RZ l) [q]
  | .u1 l q => addGate c (.U1 l) [q]
  | .u2 φ l q => addGate c (.U2 φ l) [q]
  | .u3 θ φ l q => addGate c (.U3 θ φ l) [q]
  | .cx control target => addGate c .CX [control, target]
  | .barrier qbits => barrier c qbits

/-- a sequence of calls on the same object, every result kept (the caller goes on after an error) -/
def runCalls (c : Circ P) : List (Call P) → Circ P × List (Except Fail Unit)
  | [] => (c, [])
  | call :: rest =>
    let (c1, r) := step c call
    let (c2, rs) := runCalls c1 rest
    (c2, r :: rs)

/-! ### reference reading of a call (what it validates, what it appends) -/

/-- which register an index list is checked against -/
inductive Reg | q | c
deriving DecidableEq, Repr

/-- the index lists a call validates, in the order it validates them -/
def Call.checks : Call P → List (Reg × List Nat)
  | .addGate _ bits => [(.q, bits)]
  | .addConditionalGate control _ _ qbits => [(.c, control), (.q, qbits)]
  | .measureBasis q cb _ | .measureX q cb | .measureY q cb | .measureZ q cb | .measure q cb => [(.q, [q]), (.c, [cb])]
  | .measureAllBasis cbits _ | .measureAll cbits => [(.c, cbits)]
  | .peekBasis q cb _ | .peekX q cb | .peekY q cb | .peekZ q cb | .peek q cb => [(.q, [q]), (.c, [cb])]
  | .peekAllBasis cbits _ | .peekAll cbits => [(.c, cbits)]
  | .reset q => [(.q, [q])]
  | .resetAll => []
  | .h q | .x q | .y q | .z q | .s q | .sdg q => [(.q, [q])]
  | .rx _ q | .ry _ q | .rz _ q | .u1 _ q | .u2 _ _ q | .u3 _ _ _ q => [(.q, [q])]
  | .cx a b => [(.q, [a, b])]
  | .barrier qbits => [(.q, qbits)]

/-- the operation a call appends when it succeeds -/
def Call.op : Call P → COp P
  | .addGate g bits => .gate g bits
  | .addConditionalGate control target g qbits => .cond control target g qbits
  | .measureBasis q cb b => .measure q cb b
  | .measureX q cb => .measure q cb .X
  | .measureY q cb => .measure q cb .Y
  | .measureZ q cb | .measure q cb => .measure q cb .Z
  | .measureAllBasis cbits b => .measureAll cbits b
  | .measureAll cbits => .measureAll cbits .Z
  | .peekBasis q cb b => .peek q cb b
  | .peekX q cb => .peek q cb .X
  | .peekY q cb => .peek q cb .Y
  | .peekZ q cb | .peek q cb => .peek q cb .Z
  | .peekAllBasis cbits b => .peekAll cbits b
  | .peekAll cbits => .peekAll cbits .Z
  | .reset q => .reset q
  | .resetAll => .resetAll
  | .h q => .gate .H [q] | .x q => .gate .X [q] | .y q => .gate .Y [q] | .z q => .gate .Z [q]
  | .s q => .gate .S [q] | .sdg q => .gate .Sdg [q]
  | .rx θ q => .gate (.RX θ) [q] | .ry θ q => .gate (.RY θ) [q] | .rz l q => .gate (.RZ l) [q]
  | .u1 l q => .gate (.U1 l) [q] | .u2 φ l q => .gate (.U2 φ l) [q] | .u3 θ φ l q => .gate (.U3 θ φ l) [q]
  | .cx a b => .gate .CX [a, b]
  | .barrier qbits => .barrier qbits

def Reg.bound (c : Circ P) : Reg → Nat
  | .q => c.nq
  | .c => c.nc

def Reg.err : Reg → Nat → SimErr
  | .q, b => .invalidQBit b
  | .c, b => .invalidCBit b

/-- the first index, in validation order, that is out of range — with its register -/
def firstViolation (c : Circ P) : List (Reg × List Nat) → Option (Reg × Nat)
  | [] => none
  | (r, l) :: rest =>
    match firstGe (r.bound c) l with
    | some b => some (r, b)
    | none => firstViolation c rest

/-- reference semantics of a call: reject with the first out-of-range index, else append the op -/
def stepRef (c : Circ P) (call : Call P) : Out P :=
  match firstViolation c call.checks with
  | some (r, b) => fail c (r.err b)
  | none => push c call.op

/-! ### the `circuit!` macro -/

/-- `circuit!(nq, nc, { call; call; … })` with the `$res?` arms `checked`: the circuit or the first
propagated error, and the number of calls whose arguments were evaluated -/
def macroLoop (checked : List String) (c : Circ P) : List (Call P) → Nat → Except Fail (Circ P) × Nat
  | [], k => (.ok c, k)
  | call :: rest, k =>
    match step c call with
    | (c1, .ok ()) => macroLoop checked c1 rest (k + 1)
    | (c1, .error e) =>
      if checked.contains call.name then (.error e, k + 1)   -- `$res?`
      else macroLoop checked c1 rest (k + 1)                 -- `$res`: the `Result` is dropped

def runMacro (checked : List String) (nq nc : Nat) (calls : List (Call P)) : Except Fail (Circ P) × Nat :=
  macroLoop checked (Circ.new nq nc) calls 0

end Q1t.Builders

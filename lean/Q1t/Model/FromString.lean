import Q1t.Model.Expr
import Q1t.Model.Gate
/-!
Model of `Composite::from_string` and its helpers (`src/gates/composite.rs`), Mathlib-free, executable.

* Text is a `List Char`; the anchored patterns are total functions as in `Model/Expr.lean` (whose `isWs`,
  `dropWs`, `reLit` are reused: `\s` is Unicode `White_Space`, which is also `char::is_whitespace` of
  `str::trim`).  All match ends are char boundaries, so no `&desc[m.end()..]` slice can panic.
* What the code looks up in a table is a parameter (`Tables`): the dispatch arms of the `match`, the `\d` class
  of the regex engine (Unicode `Decimal_Number`, so `٣` matches `\d` and is then refused by
  `parse::<usize>()`), and the non-ASCII characters `(?i)[a-z]` matches through case folding (`ſ`, `K`).
  They are regenerated from the sources into `Q1t.Gen` on every check run.
* Argument expressions are parsed by `Expr.parse` and evaluated by `Expr.eval` under an abstract
  interpretation `FloatOps F` of the float operations (`Float` in the driver).
* The order of the checks is the order of the code: every `;`-separated part is parsed first (name, argument
  list, bit numbers, trailing text — first error wins); then `max_bit + 1` is computed (`checked_add`:
  `InvalidBit` on overflow); only then the names are dispatched (unknown name, number of arguments, number of
  bits, per gate in order).
* Outcomes follow M1.  The `panic` sites kept explicit (`max().unwrap()`, `gate.args[i]`) are unreachable
  (`Q1t/Proofs/FromStringTotal.lean`); `fuel` is an exhausted loop budget, unreachable as well.
-/
namespace Q1t.FromString
open Q1t.Expr (isWs dropWs reLit FloatOps)
open Q1t.DecFloat (isDigit digitsToNat)

/-- `error::ParseError`, all constructors, `String` payloads as `List Char`. -/
inductive ParseErr where
  | unknownGate (name : List Char)
  | noGateName (text : List Char)
  | invalidNrArguments (actual expected : Nat) (name : List Char)
  | invalidNrBits (actual expected : Nat) (name : List Char)
  | invalidArgument (text : List Char)
  | noBits (name : List Char)
  | invalidBit (text : List Char)
  | trailingText (text : List Char)
  | unclosedParentheses (text : List Char)
deriving DecidableEq, Repr

inductive Res (α : Type) where
  | ok (a : α)
  | err (e : ParseErr)
  | panic (site : String)
  | fuel
deriving Repr

/-- One arm of the dispatch: key, gate struct, `nr_args`, `nr_bits`, order of the `gate.args[i]`. -/
abbrev Arm := String × String × Nat × Nat × List Nat

structure Tables where
  dispatch : List Arm
  decimal : List (Nat × Nat)
  foldExtras : List Nat

def inRanges (rs : List (Nat × Nat)) (n : Nat) : Bool := rs.any fun r => r.1 ≤ n && n ≤ r.2

/-- `\d` (Unicode mode). -/
def isDec (T : Tables) (c : Char) : Bool := inRanges T.decimal c.toNat

def isAsciiLetter (c : Char) : Bool :=
  let n := c.toNat
  (97 ≤ n && n ≤ 122) || (65 ≤ n && n ≤ 90)

/-- `(?i)[a-z]`. -/
def isNameStart (T : Tables) (c : Char) : Bool := isAsciiLetter c || T.foldExtras.contains c.toNat

/-- `(?i)[a-z0-9]` (digits have no case variants). -/
def isNameChar (T : Tables) (c : Char) : Bool := isNameStart T c || isDigit c

/-- `SubGateDesc`. -/
structure SubGateDesc (F : Type) where
  name : List Char
  args : List F
  bits : List Nat
deriving Repr

/-- `parse_gate_name`: `(?i)^\s*([a-z][a-z0-9]*)`.  `\s*` and `[a-z0-9]*` are greedy and nothing after them
can fail, so the leftmost-first match is the greedy one. -/
def parseGateName (T : Tables) (desc : List Char) : Res (List Char × List Char) :=
  match dropWs desc with
  | c :: t =>
    if isNameStart T c then .ok (c :: t.takeWhile (isNameChar T), t.dropWhile (isNameChar T))
    else .err (.noGateName desc)
  | [] => .err (.noGateName desc)

def liftExprErr : Expr.ParseError → ParseErr
  | .invalidArgument t => .invalidArgument t
  | .unclosedParentheses t => .unclosedParentheses t

/-- `Expression::parse(text)?` followed by `match arg.eval()`; `matched` is `m.as_str()` of the separator. -/
def parseArg {F : Type} (I : FloatOps F) (matched text : List Char) : Res (F × List Char) :=
  match Expr.parse text with
  | .ok (arg, rest) =>
    (match Expr.eval I arg with
     | .ok x => .ok (x, rest)
     | .error _ => .err (.invalidArgument matched))
  | .err e => .err (liftExprErr e)
  | .panic => .panic "Expression::parse"
  | .fuel => .fuel

/-- `while let Some(m) = sep_args.find(rest)` (`^\s*,`). -/
def argsLoop {F : Type} (I : FloatOps F) : Nat → List F → List Char → Res (List F × List Char)
  | 0, _, _ => .fuel
  | n + 1, args, rest =>
    match reLit [','] rest with
    | some r =>
      (match parseArg I (rest.takeWhile isWs ++ [',']) r with
       | .ok (x, newRest) => argsLoop I n (args ++ [x]) newRest
       | .err e => .err e
       | .panic s => .panic s
       | .fuel => .fuel)
    | none => .ok (args, rest)

/-- `parse_gate_args` (`^\s*\(`, `^\s*,`, `^\s*\)`). -/
def parseGateArgs {F : Type} (I : FloatOps F) (desc : List Char) : Res (List F × List Char) :=
  match reLit ['('] desc with
  | some r =>
    (match parseArg I (desc.takeWhile isWs ++ ['(']) r with
     | .ok (x, rest) =>
       (match argsLoop I (rest.length + 1) [x] rest with
        | .ok (args, rest') =>
          (match reLit [')'] rest' with
           | some r2 => .ok (args, r2)
           | none => .err (.unclosedParentheses desc))
        | other => other)
     | .err e => .err e
     | .panic s => .panic s
     | .fuel => .fuel)
  | none => .ok ([], desc)

/-- `while let Some(captures) = re.captures(rest)` (`^\s*(\d+)`) with `bit_txt.parse::<usize>()`: the text must
consist of ASCII digits and denote a value below 2^64.  When the pattern no longer matches, `rest` is kept with
its leading blanks. -/
def bitsLoop (T : Tables) : Nat → List Nat → List Char → Res (List Nat × List Char)
  | 0, _, _ => .fuel
  | n + 1, bits, rest =>
    let s := dropWs rest
    let ds := s.takeWhile (isDec T)
    if ds.isEmpty then .ok (bits, rest)
    else if ds.all isDigit && digitsToNat ds < 2 ^ 64 then
      bitsLoop T n (bits ++ [digitsToNat ds]) (s.dropWhile (isDec T))
    else .err (.invalidBit ds)

/-- `parse_gate_bits`. -/
def parseGateBits (T : Tables) (desc name : List Char) : Res (List Nat × List Char) :=
  match bitsLoop T (desc.length + 1) [] desc with
  | .ok (bits, rest) => if bits.isEmpty then .err (.noBits name) else .ok (bits, rest)
  | other => other

def trimEnd (s : List Char) : List Char := (dropWs s.reverse).reverse

/-- `str::trim`. -/
def trim (s : List Char) : List Char := trimEnd (dropWs s)

/-- `parse_gate_desc`. -/
def parseGateDesc {F : Type} (I : FloatOps F) (T : Tables) (desc : List Char) : Res (SubGateDesc F) :=
  match parseGateName T desc with
  | .ok (name, rest) =>
    (match parseGateArgs I rest with
     | .ok (args, rest) =>
       (match parseGateBits T rest name with
        | .ok (bits, rest) =>
          let rest := trim rest
          if !rest.isEmpty then .err (.trailingText rest) else .ok ⟨name, args, bits⟩
        | .err e => .err e
        | .panic s => .panic s
        | .fuel => .fuel)
     | .err e => .err e
     | .panic s => .panic s
     | .fuel => .fuel)
  | .err e => .err e
  | .panic s => .panic s
  | .fuel => .fuel

/-- `str::split(';')`: at least one part. -/
def splitSemi : List Char → List (List Char)
  | [] => [[]]
  | c :: t =>
    if c = ';' then [] :: splitSemi t
    else match splitSemi t with
      | p :: ps => (c :: p) :: ps
      | [] => [[c]]

/-- `*gate.bits.iter().max().unwrap()`. -/
def maxOfBits : List Nat → Option Nat
  | [] => none
  | b :: bs => some (bs.foldl max b)

/-- The first loop of `from_string`: parse every part, tracking `max_bit`. -/
def parseParts {F : Type} (I : FloatOps F) (T : Tables) :
    List (List Char) → Nat → List (SubGateDesc F) → Res (List (SubGateDesc F) × Nat)
  | [], maxBit, gates => .ok (gates, maxBit)
  | part :: more, maxBit, gates =>
    match parseGateDesc I T part with
    | .ok g =>
      (match maxOfBits g.bits with
       | some m => parseParts I T more (max maxBit m) (gates ++ [g])
       | none => .panic "gate.bits.iter().max().unwrap()")
    | .err e => .err e
    | .panic s => .panic s
    | .fuel => .fuel

/-- `char::to_lowercase` on the characters a gate name can consist of (`[a-zA-Z0-9]`, `ſ`, `K`). -/
def lowerChar (c : Char) : Char :=
  let n := c.toNat
  if 65 ≤ n && n ≤ 90 then Char.ofNat (n + 32) else if n = 0x212A then 'k' else c

def lookupArm (T : Tables) (lname : List Char) : Option Arm :=
  T.dispatch.find? fun e => e.1.toList == lname

/-- `<Struct>::new(args…)` as a gate term (the named controlled gates are `C<…>` wrappers, as in C05). -/
def buildGate {F : Type} (ctor : String) (a : List F) : Option (GateTerm F) :=
  match ctor, a with
  | "H", [] => some .H | "X", [] => some .X | "Y", [] => some .Y | "Z", [] => some .Z
  | "S", [] => some .S | "Sdg", [] => some .Sdg | "T", [] => some .T | "Tdg", [] => some .Tdg
  | "V", [] => some .V | "Vdg", [] => some .Vdg | "I", [] => some .I
  | "CX", [] => some .CX | "CY", [] => some .CY | "CZ", [] => some .CZ | "Swap", [] => some .Swap
  | "RX", [x] => some (.RX x) | "RY", [x] => some (.RY x) | "RZ", [x] => some (.RZ x)
  | "U1", [x] => some (.U1 x) | "U2", [x, y] => some (.U2 x y) | "U3", [x, y, z] => some (.U3 x y z)
  | "CH", [] => some (.C .H) | "CS", [] => some (.C .S) | "CSdg", [] => some (.C .Sdg)
  | "CT", [] => some (.C .T) | "CTdg", [] => some (.C .Tdg) | "CV", [] => some (.C .V) | "CVdg", [] => some (.C .Vdg)
  | "CCX", [] => some (.C .CX) | "CCZ", [] => some (.C .CZ)
  | "CRX", [x] => some (.C (.RX x)) | "CRY", [x] => some (.C (.RY x)) | "CRZ", [x] => some (.C (.RZ x))
  | "CU1", [x] => some (.C (.U1 x)) | "CU2", [x, y] => some (.C (.U2 x y)) | "CU3", [x, y, z] => some (.C (.U3 x y z))
  | "CCRX", [x] => some (.C (.C (.RX x))) | "CCRY", [x] => some (.C (.C (.RY x))) | "CCRZ", [x] => some (.C (.C (.RZ x)))
  | _, _ => none

/-- One iteration of the second loop: the `match` arm (or the default arm), `assert_nr_args_bits`
(arguments first, then bits), the constructor call. -/
def dispatchOne {F : Type} (T : Tables) (g : SubGateDesc F) : Res (GateTerm F) :=
  match lookupArm T (g.name.map lowerChar) with
  | none => .err (.unknownGate g.name)
  | some (_, ctor, nrArgs, nrBits, order) =>
    if nrArgs ≠ g.args.length then .err (.invalidNrArguments g.args.length nrArgs g.name)
    else if nrBits ≠ g.bits.length then .err (.invalidNrBits g.bits.length nrBits g.name)
    else match order.mapM (fun i => g.args[i]?) with
      | none => .panic "gate.args[i]"
      | some as =>
        match buildGate ctor as with
        | some t => .ok t
        | none => .panic "constructor not modelled"

/-- The second loop. -/
def dispatchAll {F : Type} (T : Tables) : List (SubGateDesc F) → Res (OpList F)
  | [] => .ok .nil
  | g :: more =>
    match dispatchOne T g with
    | .ok t =>
      (match dispatchAll T more with
       | .ok ops => .ok (.cons t g.bits ops)
       | other => other)
    | .err e => .err e
    | .panic s => .panic s
    | .fuel => .fuel

/-- `Composite::from_string(name, desc)`. -/
def fromString {F : Type} (I : FloatOps F) (T : Tables) (name : String) (desc : List Char) : Res (GateTerm F) :=
  match parseParts I T (splitSemi desc) 0 [] with
  | .ok (gates, maxBit) =>
    if 2 ^ 64 ≤ maxBit + 1 then .err (.invalidBit (Nat.toDigits 10 maxBit))
    else
      (match dispatchAll T gates with
       | .ok ops => .ok (.Composite name (maxBit + 1) ops)
       | .err e => .err e
       | .panic s => .panic s
       | .fuel => .fuel)
  | .err e => .err e
  | .panic s => .panic s
  | .fuel => .fuel

/-- The pattern strings this model was written for (compared with `Q1t.Gen.fromStringPatterns`). -/
def modelledPatterns : List (String × List String) := [
  ("parse_gate_name", ["(?i)^\\s*([a-z][a-z0-9]*)"]),
  ("parse_gate_args", ["^\\s*\\(", "^\\s*,", "^\\s*\\)"]),
  ("parse_gate_bits", ["^\\s*(\\d+)"]),
  ("parse_gate_desc", [])]

end Q1t.FromString

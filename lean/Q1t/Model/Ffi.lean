import Q1t.Gen.FfiTables
/-!
# Model of `/repo/src/ffi.rs` (C19)

The C interface is modelled as a state machine `step : State → Call → State × Answer` over

* an abstract heap: the list of live blocks `(id, size, align)` plus a counter for fresh ids;
* `CResult` values: the four C fields plus a ghost *view* of the memory reachable from `data`
  (what `CResult::free` reads back: the C string up to its NUL, the `CHistElem` array);
* an arbitrary implementation `Api C` of the Rust `Circuit` API (`C` is the Rust-side circuit value,
  every call returns `ok / err msg / panic`), so that everything proved about `step` holds for whatever
  `Circuit` does;
* a shadow of the operations that were accepted (only used to *predict* the panics of q1tsim that
  reach the `extern "C"` boundary and therefore abort the process).

The two name-dispatch tables are parameters (`Cfg`); they are instantiated with the generated
`Gen.gateTable` / `Gen.condTable`.  Core Lean only.
-/
namespace Q1t.Ffi

/-! ## result codes (ffi.rs lines 5–9; tied to `Gen.resultCodesRust` in `Props/C19`) -/
def RESULT_ERROR : Nat := 0
def RESULT_EMPTY : Nat := 1
def RESULT_STRING : Nat := 2
def RESULT_HISTOGRAM : Nat := 3
def RESULT_CSTATE : Nat := 5

/-- what the model believes the source says (checked against `Gen.resultCodesRust` by `decide`) -/
def resultCodes : List (String × Nat) :=
  [("RESULT_ERROR", RESULT_ERROR), ("RESULT_EMPTY", RESULT_EMPTY), ("RESULT_STRING", RESULT_STRING),
   ("RESULT_HISTOGRAM", RESULT_HISTOGRAM), ("RESULT_CSTATE", RESULT_CSTATE)]

/-- `CResult::free`: which restype releases what (checked against `Gen.freeArms`; canonical form: every code by
name with the action of its first matching arm, then the catch-all). -/
def freeArms : List (String × String) :=
  [("RESULT_CSTATE", "u64vec"), ("RESULT_EMPTY", "nothing"), ("RESULT_ERROR", "cstring"),
   ("RESULT_HISTOGRAM", "histvec"), ("RESULT_STRING", "cstring"), ("_", "nothing")]

/-- `CResult` constructors (checked against `Gen.resultCtors`). -/
def resultCtors : List (String × String × String × String × String) :=
  [("new", "RESULT_EMPTY", "null", "zero", "zero"),
   ("error", "RESULT_ERROR", "cstring", "zero", "zero"),
   ("string", "RESULT_STRING", "cstring", "zero", "zero"),
   ("histogram", "RESULT_HISTOGRAM", "histvec", "len", "cap"),
   ("c_state", "RESULT_CSTATE", "u64vec", "len", "cap")]

/-- `size_of::<CHistElem>()`, `align_of` (repr(C): pointer + usize); `u64`. Tied to the generated
struct layouts in `Props/C19`. -/
def HIST_ELEM_SIZE : Nat := 16
def HIST_ELEM_ALIGN : Nat := 8
def U64_SIZE : Nat := 8
def U64_ALIGN : Nat := 8

/-! ## literal messages (checked against `Gen.errorLiterals`) -/
def msgNullCircuit := "Pointer to circuit is NULL"
def msgNullBits := "Pointer to bit indices is NULL"
def msgNullControl := "Pointer to control bit indices is NULL"
def msgNullMeasure := "Pointer to measurement bit indices is NULL"
def msgInvalidName := "Invalid gate name"
def msgNotRun := "Circuit has not been run yet"
def msgBasisTemplate := "Invalid measurement basis '{}'"

def errorLiterals : List (String × List String × Nat) :=
  [("result_free", [], 0), ("circuit_new", [], 0), ("circuit_free", [], 0),
   ("circuit_nr_qbits", [], 1), ("circuit_nr_cbits", [], 1),
   ("circuit_cstate", [msgNotRun], 1),
   ("circuit_add_gate", [msgNullCircuit, msgNullBits, msgInvalidName], 0),
   ("circuit_add_conditional_gate", [msgNullCircuit, msgNullControl, msgNullBits, msgInvalidName], 0),
   ("circuit_reset", [msgNullCircuit], 0), ("circuit_reset_all", [msgNullCircuit], 0),
   ("circuit_measure", [msgNullCircuit, msgBasisTemplate], 0),
   ("circuit_measure_all", [msgNullCircuit, msgNullMeasure, msgBasisTemplate], 0),
   ("circuit_execute", [msgNullCircuit], 0), ("circuit_reexecute", [msgNullCircuit], 0),
   ("circuit_histogram", [msgNullCircuit], 0), ("circuit_latex", [msgNullCircuit], 0),
   ("circuit_open_qasm", [msgNullCircuit], 0), ("circuit_c_qasm", [msgNullCircuit], 0)]

/-- `format!("Invalid measurement basis '{}'", dir)`: `dir` is a `c_char` (= `i8` here), so its
*number* is printed, not the character. -/
def msgBasis (dir : Int) : String := "Invalid measurement basis '" ++ toString dir ++ "'"
/-- `ParseError::UnknownGate(name)` through `Error::to_string()` -/
def msgUnknownGate (name : String) : String := "Unknown gate \"" ++ name ++ "\""
/-- `ParseError::InvalidNrArguments(actual, expected, stringify!(ty))` -/
def msgNrArguments (actual expected : Nat) (ty : String) : String :=
  "Expected " ++ toString expected ++ " arguments to \"" ++ ty ++ "\" gate, got " ++ toString actual

/-! ## abstract heap -/

inductive Ptr where
  | null
  | dangling            -- `NonNull::dangling()` of a `Vec` with capacity 0
  | blk (id : Nat)
  deriving DecidableEq, Repr, Inhabited

structure Block where
  id : Nat
  size : Nat
  align : Nat
  deriving DecidableEq, Repr, Inhabited

abbrev Heap := List Block

/-- behaviour that is undefined in the real program -/
inductive Fault where
  | notLive (p : Ptr)                       -- dealloc of something that is not a live block: double free / wild free
  | layout (id size align : Nat)            -- dealloc with another layout than the block was allocated with
  deriving DecidableEq, Repr

structure HeapSt where
  heap : Heap
  next : Nat
  deriving Repr

def HeapSt.alloc (m : HeapSt) (size align : Nat) : HeapSt × Ptr :=
  ({ heap := m.heap ++ [⟨m.next, size, align⟩], next := m.next + 1 }, .blk m.next)

def findBlock (h : Heap) (id : Nat) : Option Block := h.find? (fun b => b.id == id)

/-- `dealloc(ptr, Layout(size, align))` -/
def dealloc (h : Heap) (p : Ptr) (size align : Nat) : Except Fault Heap :=
  match p with
  | .blk id =>
    match findBlock h id with
    | none => .error (.notLive p)
    | some b => if b.size = size ∧ b.align = align then .ok (h.filter (fun b => b.id != id))
                else .error (.layout id size align)
  | _ => .error (.notLive p)

/-! ## `CResult` -/

structure HistElem where
  key : Ptr
  keyText : String        -- ghost: the bytes at `key` up to the NUL
  count : Nat
  deriving DecidableEq, Repr

/-- ghost view of the memory reachable from `CResult.data` -/
inductive View where
  | none
  | cstr (text : String)
  | hist (elems : List HistElem)
  | words (ws : List Nat)
  deriving DecidableEq, Repr

structure CResult where
  data : Ptr
  length : Nat
  size : Nat
  restype : Nat
  mem : View
  deriving DecidableEq, Repr

def strlen (s : String) : Nat := s.utf8ByteSize
def hasNul (s : String) : Bool := s.toList.any (fun c => c.val == 0)

/-- `to_cstring`: `CString::new(msg).unwrap()` panics on an interior NUL; the boxed slice has
`len + 1` bytes, alignment 1; the string is leaked. -/
def toCString (m : HeapSt) (msg : String) : Option (HeapSt × Ptr) :=
  if hasNul msg then none else some (m.alloc (strlen msg + 1) 1)

/-- `cstring_free`: `CString::from_raw(ptr)` recomputes the length with `strlen` and drops the box. -/
def cstringFree (h : Heap) (p : Ptr) (text : String) : Except Fault Heap :=
  dealloc h p (strlen text + 1) 1

/-- drop of `Vec::from_raw_parts(ptr, _, cap)` for elements without destructor -/
def vecDrop (h : Heap) (p : Ptr) (cap elemSize align : Nat) : Except Fault Heap :=
  if cap * elemSize = 0 then .ok h else dealloc h p (cap * elemSize) align

/-- `Vec::with_capacity(cap)` / `to_vec` / `collect` of an exact-size iterator: no allocation for 0 -/
def vecAlloc (m : HeapSt) (cap elemSize align : Nat) : HeapSt × Ptr :=
  if cap * elemSize = 0 then (m, .dangling) else m.alloc (cap * elemSize) align

namespace CResult

def new : CResult := ⟨.null, 0, 0, RESULT_EMPTY, .none⟩

def error (m : HeapSt) (msg : String) : Option (HeapSt × CResult) :=
  (toCString m msg).map fun (m', p) => (m', ⟨p, 0, 0, RESULT_ERROR, .cstr msg⟩)

def string (m : HeapSt) (msg : String) : Option (HeapSt × CResult) :=
  (toCString m msg).map fun (m', p) => (m', ⟨p, 0, 0, RESULT_STRING, .cstr msg⟩)

/-- the keys of a histogram, one `to_cstring` each, in iteration order -/
def histKeys (m : HeapSt) : List (String × Nat) → Option (HeapSt × List HistElem)
  | [] => some (m, [])
  | (k, v) :: rest =>
    match toCString m k with
    | none => none
    | some (m', p) =>
      match histKeys m' rest with
      | none => none
      | some (m'', es) => some (m'', ⟨p, k, v⟩ :: es)

/-- Capacity `Vec::from_iter` gives for an iterator of `n` items that is not `TrustedLen`
(`hash_map::Iter` mapped): nothing for an empty one, else `max(MIN_NON_ZERO_CAP, n + 1)` with
`MIN_NON_ZERO_CAP = 4` for 16-byte elements.  This is a fact about the standard library the crate is
built with; it is observed by the harness, and nothing proved below depends on its value. -/
def histCap (n : Nat) : Nat := if n = 0 then 0 else max 4 (n + 1)

/-- `hist.iter().map(..).collect()`: the `Vec<CHistElem>` is allocated, then filled (one `to_cstring`
per key); `length = len`, `size = capacity` (≠ len in general); the `Vec` is leaked. -/
def histogram (m : HeapSt) (hist : List (String × Nat)) : Option (HeapSt × CResult) :=
  let (m1, p) := vecAlloc m (histCap hist.length) HIST_ELEM_SIZE HIST_ELEM_ALIGN
  (histKeys m1 hist).map fun (m2, es) => (m2, ⟨p, hist.length, histCap hist.length, RESULT_HISTOGRAM, .hist es⟩)

/-- `state.to_vec()` leaked: `length = len`, `size = capacity = len`. -/
def cState (m : HeapSt) (ws : List Nat) : HeapSt × CResult :=
  let (m1, p) := vecAlloc m ws.length U64_SIZE U64_ALIGN
  (m1, ⟨p, ws.length, ws.length, RESULT_CSTATE, .words ws⟩)

def viewText : View → String
  | .cstr t => t
  | _ => ""

def viewElems : View → List HistElem
  | .hist es => es
  | _ => []

def freeKeys (h : Heap) : List HistElem → Except Fault Heap
  | [] => .ok h
  | e :: es =>
    match cstringFree h e.key e.keyText with
    | .error f => .error f
    | .ok h' => freeKeys h' es

/-- `CResult::free`, arm by arm. -/
def free (h : Heap) (r : CResult) : Except Fault Heap :=
  if r.restype = RESULT_ERROR ∨ r.restype = RESULT_STRING then
    cstringFree h r.data (viewText r.mem)
  else if r.restype = RESULT_HISTOGRAM then
    -- `Vec::from_raw_parts(ptr, self.length, self.size)`, free every key, then drop the Vec
    match freeKeys h ((viewElems r.mem).take r.length) with
    | .error f => .error f
    | .ok h' => vecDrop h' r.data r.size HIST_ELEM_SIZE HIST_ELEM_ALIGN
  else if r.restype = RESULT_CSTATE then
    vecDrop h r.data r.size U64_SIZE U64_ALIGN
  else .ok h

/-- the blocks a result owns: `(pointer, size, align)` (the array first, then the keys: the order in
which they were allocated; `free` releases the keys first) -/
def owned (r : CResult) : List (Ptr × Nat × Nat) :=
  if r.restype = RESULT_ERROR ∨ r.restype = RESULT_STRING then
    [(r.data, strlen (viewText r.mem) + 1, 1)]
  else if r.restype = RESULT_HISTOGRAM then
    (if r.size * HIST_ELEM_SIZE = 0 then [] else [(r.data, r.size * HIST_ELEM_SIZE, HIST_ELEM_ALIGN)]) ++
      ((viewElems r.mem).take r.length).map (fun e => (e.key, strlen e.keyText + 1, 1))
  else if r.restype = RESULT_CSTATE then
    (if r.size * U64_SIZE = 0 then [] else [(r.data, r.size * U64_SIZE, U64_ALIGN)])
  else []

def ptrId : Ptr → Nat
  | .blk id => id
  | _ => 0

/-- the same as blocks (meaningful when every owned pointer is a block, which is what the
constructors produce: see `AllBlk` in the proofs) -/
def ownedBlocks (r : CResult) : List Block :=
  (owned r).map fun x => ⟨ptrId x.1, x.2.1, x.2.2⟩

end CResult

/-! ## parameters -/

/-- `CParameter { value: f64, value_ptr: *const f64 }`; floats are bit patterns, addresses are numbers
(0 = NULL). -/
structure CParameter where
  value : Nat
  valuePtr : Nat
  deriving DecidableEq, Repr

inductive Param where
  | direct (bits : Nat)
  | ffiRef (addr : Nat)
  deriving DecidableEq, Repr

/-- `impl From<CParameter> for Parameter` -/
def Param.ofC (p : CParameter) : Param :=
  if p.valuePtr = 0 then .direct p.value else .ffiRef p.valuePtr

/-- memory of the foreign caller: address ↦ f64 bits -/
abbrev Mem := Nat → Nat

/-- `Parameter::value()` for the two variants the C interface can create: `FFIRef` dereferences the
pointer *when called*. -/
def Param.value (mem : Mem) : Param → Nat
  | .direct b => b
  | .ffiRef a => mem a

/-! ## the Rust `Circuit` API, abstract -/

inductive Basis where | X | Y | Z
  deriving DecidableEq, Repr

structure Gate where
  ty : String             -- Rust type name, e.g. "CRX"
  params : List Param
  deriving DecidableEq, Repr

inductive Res (α : Type) where
  | ok (a : α)
  | err (msg : String)     -- `Err(e)`, `msg = e.to_string()`
  | panic
  deriving Repr

/-- Any implementation of the methods of `q1tsim::circuit::Circuit` that ffi.rs calls. -/
structure Api (C : Type) where
  new : Nat → Nat → C
  nrQbits : C → Nat
  nrCbits : C → Nat
  cstate : C → Option (List Nat)
  addGate : C → Gate → List Nat → Res C
  addConditionalGate : C → List Nat → Nat → Gate → List Nat → Res C
  reset : C → Nat → Res C
  resetAll : C → C
  measureBasis : C → Nat → Nat → Basis → Res C
  peekBasis : C → Nat → Nat → Basis → Res C
  measureAllBasis : C → List Nat → Basis → Res C
  peekAllBasis : C → List Nat → Basis → Res C
  execute : Mem → C → Nat → Res C
  reexecute : Mem → C → Res C
  histogramString : C → Res (List (String × Nat))      -- in HashMap iteration order
  latex : Mem → C → Res String
  openQasm : Mem → C → Res String
  cQasm : Mem → C → Res String

/-! ## shadow of accepted operations (for abort prediction only) -/

inductive Op where
  | gate (ty : String) (arity : Nat) (qbits : List Nat)
  | cond (control : List Nat) (ty : String) (arity : Nat) (qbits : List Nat)
  | reset (q : Nat)
  | resetAll
  | measure (q c : Nat)
  | measureAll (cbits : List Nat)
  | peek (q c : Nat)
  | peekAll (cbits : List Nat)
  deriving DecidableEq, Repr

structure Circ (C : Type) where
  rust : C
  nq : Nat
  nc : Nat
  ops : List Op
  shots : Option Nat       -- length of `c_state` once `execute` was called
  blk : Block              -- the `Box<Circuit>`

def hasDup : List Nat → Bool
  | [] => false
  | x :: xs => xs.contains x || hasDup xs

def Op.cbits : Op → List Nat
  | .cond ctl _ _ _ => ctl
  | .measure _ c => [c]
  | .peek _ c => [c]
  | .measureAll cs => cs
  | .peekAll cs => cs
  | _ => []

def Op.touchesRegister : Op → Bool
  | .gate .. => false
  | .resetAll => false
  | _ => true

def Op.arityMismatch : Op → Bool
  | .gate _ a qs => qs.length != a
  | .cond _ _ a qs => qs.length != a
  | _ => false

def Op.dupQubits : Op → Bool
  | .gate _ _ qs => hasDup qs
  | .cond _ _ _ qs => hasDup qs
  | _ => false

def Op.measureAllLen (nq : Nat) : Op → Bool
  | .measureAll cs => cs.length != nq
  | .peekAll cs => cs.length != nq
  | _ => false

/-- Conservative prediction of a panic inside `execute`/`reexecute` with `shots` shots. -/
def execAbortTag (_nq : Nat) (ops : List Op) (shots : Nat) : Option String :=
  if ops.any (fun o => o.cbits.any (· ≥ 64)) then some "exec-cbit-ge-64"
  else if ops.any (fun o => match o with | .cond ctl _ _ _ => ctl.length ≥ 64 | _ => false) then some "exec-cond-controls-ge-64"
  else if ops.any Op.dupQubits then some "exec-dup-qubits"
  -- (a `measure_all`/`peek_all` list of the wrong length is an error result on both representations now:
  -- finding C19-abort-exec-measure-all-len is fixed, no abort class for it)
  else if shots = 0 ∧ ops.any Op.touchesRegister then some "exec-zero-shots"
  else none

def Op.condControlGe (nq : Nat) : Op → Bool
  | .cond ctl _ _ _ => ctl.any (· ≥ nq) || ctl.length ≥ 64
  | _ => false

def qasmAbortTag (cq : Bool) (nq : Nat) (ops : List Op) : Option String :=
  if ops.any Op.arityMismatch then some "export-qasm-arity"
  else if ops.any (Op.measureAllLen nq) then some "export-qasm-measure-all-len"
  else if cq ∧ ops.any (Op.condControlGe nq) then some "export-cqasm-cond-control-ge-nq"
  else none

def latexAbortTag (_nq : Nat) (ops : List Op) : Option String :=
  -- (`reset_all` on 0 qubits is drawn now: finding C19-abort-export-latex-reset-all-0q is fixed)
  if ops.any Op.dupQubits then some "export-latex-dup-qubits"
  else none

/-! ## calls and answers -/

/-- `none` = NULL, `some id` = the pointer returned by the `circuit_new` that allocated block `id` -/
abbrev Handle := Option Nat

inductive Call where
  | new (nq nc : Nat)
  | free (h : Handle)
  | nrQbits (h : Handle)
  | nrCbits (h : Handle)
  | cstate (h : Handle)
  /-- `name = none`: the bytes are not UTF-8; `qbits = none` / `params = none`: NULL pointers -/
  | addGate (h : Handle) (name : Option String) (qbits : Option (List Nat)) (params : Option (List CParameter))
  | addCond (h : Handle) (control : Option (List Nat)) (target : Nat) (name : Option String)
      (qbits : Option (List Nat)) (params : Option (List CParameter))
  | reset (h : Handle) (q : Nat)
  | resetAll (h : Handle)
  | measure (h : Handle) (q c : Nat) (dir : Int) (collapse : Nat)
  | measureAll (h : Handle) (cbits : Option (List Nat)) (dir : Int) (collapse : Nat)
  | execute (h : Handle) (n : Nat)
  | reexecute (h : Handle)
  | histogram (h : Handle)
  | latex (h : Handle)
  | openQasm (h : Handle)
  | cQasm (h : Handle)
  | resultFree (r : CResult)
  deriving Repr

inductive Answer where
  | unit
  | handle (id : Nat)
  | num (n : Nat)
  | result (r : CResult)
  /-- a panic reaches the `extern "C"` boundary: the process aborts -/
  | abort (tag : String)
  /-- the call is outside the protocol (dangling handle, result that is not outstanding): undefined behaviour -/
  | ub (why : String)
  deriving Repr

/-- what an entry point hands to the `CResult` constructors -/
inductive Payload where
  | empty
  | error (msg : String)
  | string (s : String)
  | histogram (h : List (String × Nat))
  | cstate (ws : List Nat)
  deriving DecidableEq, Repr

def build (m : HeapSt) : Payload → Option (HeapSt × CResult)
  | .empty => some (m, CResult.new)
  | .error msg => CResult.error m msg
  | .string s => CResult.string m s
  | .histogram h => CResult.histogram m h
  | .cstate ws => some (CResult.cState m ws)

/-- outcome of an entry point before the result is built -/
inductive Out (C : Type) where
  | ret (c : Circ C) (p : Payload)
  | num (n : Nat)
  | abort (tag : String)

structure Cfg where
  gateTable : List (String × String × Nat × Nat × Nat × Bool)
  condTable : List (String × String × Nat × Nat × Nat × Bool)
  circSize : Nat
  circAlign : Nat

def lookupGate (tbl : List (String × String × Nat × Nat × Nat × Bool)) (lname : String) :
    Option (String × Nat × Nat × Nat × Bool) :=
  (tbl.find? (fun r => r.1 == lname)).map (·.2)

/-- `dir as u8 as char` matched against `'x'|'X'`, … -/
def basisOf (dir : Int) : Option Basis :=
  if dir = 120 ∨ dir = 88 then some .X
  else if dir = 121 ∨ dir = 89 then some .Y
  else if dir = 122 ∨ dir = 90 then some .Z
  else none

/-- `match res { Ok(_) => CResult::new(), Err(err) => CResult::error(&err.to_string()) }`,
a panic inside the Rust call aborts with the predicted tag (or `unpredicted`). -/
def mapRes {C} (c : Circ C) (r : Res C) (upd : C → Circ C) (tag : Option String) : Out C :=
  match r with
  | .ok c' => .ret (upd c') .empty
  | .err msg => .ret c (.error msg)
  | .panic => .abort (tag.getD "unpredicted")

def mapStr {C} (c : Circ C) (r : Res String) (tag : Option String) : Out C :=
  match r with
  | .ok s => .ret c (.string s)
  | .err msg => .ret c (.error msg)
  | .panic => .abort (tag.getD "unpredicted")

/-- body of `circuit_add_gate` after the NULL checks -/
def addGateBody {C} (cfg : Cfg) (api : Api C) (c : Circ C) (name : Option String) (qbits : List Nat)
    (params : List CParameter) : Out C :=
  match name with
  | none => .ret c (.error msgInvalidName)
  | some gateName =>
    match lookupGate cfg.gateTable gateName.toLower with
    | none => .ret c (.error (msgUnknownGate gateName))
    | some (ty, arity, nparams, msgN, checked) =>
      -- only the `add_parametrized_gate!` arms look at `params` at all
      if checked ∧ params.length ≠ nparams then .ret c (.error (msgNrArguments params.length msgN ty))
      else
        mapRes c (api.addGate c.rust ⟨ty, (params.take nparams).map Param.ofC⟩ qbits)
          (fun r => { c with rust := r, ops := c.ops ++ [.gate ty arity qbits] }) none

def addCondBody {C} (cfg : Cfg) (api : Api C) (c : Circ C) (control : List Nat) (target : Nat)
    (name : Option String) (qbits : List Nat) (params : List CParameter) : Out C :=
  match name with
  | none => .ret c (.error msgInvalidName)
  | some gateName =>
    match lookupGate cfg.condTable gateName.toLower with
    | none => .ret c (.error (msgUnknownGate gateName))
    | some (ty, arity, nparams, msgN, checked) =>
      -- only the `add_parametrized_gate!` arms look at `params` at all
      if checked ∧ params.length ≠ nparams then .ret c (.error (msgNrArguments params.length msgN ty))
      else
        mapRes c (api.addConditionalGate c.rust control target ⟨ty, (params.take nparams).map Param.ofC⟩ qbits)
          (fun r => { c with rust := r, ops := c.ops ++ [.cond control ty arity qbits] }) none

/-- an entry point called with a live, non-NULL handle -/
def entry {C} (cfg : Cfg) (api : Api C) (mem : Mem) (c : Circ C) : Call → Out C
  | .nrQbits _ => .num (api.nrQbits c.rust)
  | .nrCbits _ => .num (api.nrCbits c.rust)
  | .cstate _ =>
    match api.cstate c.rust with
    | some ws => .ret c (.cstate ws)
    | none => .ret c (.error msgNotRun)
  | .addGate _ name qbits params =>
    match qbits with
    | none => .ret c (.error msgNullBits)
    | some qs => addGateBody cfg api c name qs (params.getD [])
  | .addCond _ control target name qbits params =>
    match control with
    | none => .ret c (.error msgNullControl)
    | some ctl =>
      match qbits with
      | none => .ret c (.error msgNullBits)
      | some qs => addCondBody cfg api c ctl target name qs (params.getD [])
  | .reset _ q =>
    mapRes c (api.reset c.rust q) (fun r => { c with rust := r, ops := c.ops ++ [.reset q] }) none
  | .resetAll _ =>
    .ret { c with rust := api.resetAll c.rust, ops := c.ops ++ [.resetAll] } .empty
  | .measure _ q cb dir collapse =>
    match basisOf dir with
    | none => .ret c (.error (msgBasis dir))
    | some b =>
      if collapse ≠ 0 then
        mapRes c (api.measureBasis c.rust q cb b) (fun r => { c with rust := r, ops := c.ops ++ [.measure q cb] }) none
      else
        mapRes c (api.peekBasis c.rust q cb b) (fun r => { c with rust := r, ops := c.ops ++ [.peek q cb] }) none
  | .measureAll _ cbits dir collapse =>
    match cbits with
    | none => .ret c (.error msgNullMeasure)
    | some cbs =>
      match basisOf dir with
      | none => .ret c (.error (msgBasis dir))
      | some b =>
        if collapse ≠ 0 then
          mapRes c (api.measureAllBasis c.rust cbs b) (fun r => { c with rust := r, ops := c.ops ++ [.measureAll cbs] }) none
        else
          mapRes c (api.peekAllBasis c.rust cbs b) (fun r => { c with rust := r, ops := c.ops ++ [.peekAll cbs] }) none
  | .execute _ n =>
    match api.execute mem c.rust n with
    | .ok r => .ret { c with rust := r, shots := some n } .empty
    | .err msg => .ret { c with shots := some n } (.error msg)
    | .panic => .abort ((execAbortTag c.nq c.ops n).getD "unpredicted")
  | .reexecute _ =>
    mapRes c (api.reexecute mem c.rust) (fun r => { c with rust := r })
      (match c.shots with | some n => execAbortTag c.nq c.ops n | none => none)
  | .histogram _ =>
    match api.histogramString c.rust with
    | .ok h => .ret c (.histogram h)
    | .err msg => .ret c (.error msg)
    | .panic => .abort "unpredicted"
  | .latex _ => mapStr c (api.latex mem c.rust) (latexAbortTag c.nq c.ops)
  | .openQasm _ => mapStr c (api.openQasm mem c.rust) (qasmAbortTag false c.nq c.ops)
  | .cQasm _ => mapStr c (api.cQasm mem c.rust) (qasmAbortTag true c.nq c.ops)
  | _ => .abort "not-an-entry-point-with-handle"

/-- an entry point called with a NULL handle: an error result, or — where ffi.rs uses
`assert!(!ptr.is_null())` — a panic across the C boundary. -/
def entryNull : Call → Option (Except String Payload)
  | .nrQbits _ => some (.error "null-handle-assert")
  | .nrCbits _ => some (.error "null-handle-assert")
  | .cstate _ => some (.error "null-handle-assert")
  | .addGate .. | .addCond .. | .reset .. | .resetAll _ | .measure .. | .measureAll .. | .execute ..
  | .reexecute _ | .histogram _ | .latex _ | .openQasm _ | .cQasm _ => some (.ok (.error msgNullCircuit))
  | _ => none

def Call.handle? : Call → Option Handle
  | .nrQbits h | .nrCbits h | .cstate h | .addGate h .. | .addCond h .. | .reset h _ | .resetAll h
  | .measure h .. | .measureAll h .. | .execute h _ | .reexecute h | .histogram h | .latex h
  | .openQasm h | .cQasm h => some h
  | _ => none

structure State (C : Type) where
  hs : HeapSt
  circs : List (Nat × Circ C)        -- live circuits, keyed by the id of their `Box`
  results : List CResult             -- results handed out and not yet freed

def getCirc {C} (s : State C) (id : Nat) : Option (Circ C) := s.circs.lookup id

def setCirc {C} (circs : List (Nat × Circ C)) (id : Nat) (c : Circ C) : List (Nat × Circ C) :=
  circs.map (fun (k, v) => if k == id then (k, c) else (k, v))

/-- hand a payload to the `CResult` constructors and record the result as outstanding -/
def finish {C} (s : State C) (circs : List (Nat × Circ C)) (p : Payload) : State C × Answer :=
  match build s.hs p with
  | none => (s, .abort "cstring-nul")
  | some (hs', r) => ({ hs := hs', circs := circs, results := r :: s.results }, .result r)

/-- every entry point that takes a circuit handle and returns a value -/
def stepEntry {C} (cfg : Cfg) (api : Api C) (mem : Mem) (s : State C) (call : Call) : State C × Answer :=
  match call.handle? with
  | none => (s, .ub "unreachable")
  | some none =>
    match entryNull call with
    | some (.ok p) => finish s s.circs p
    | some (.error tag) => (s, .abort tag)
    | none => (s, .ub "unreachable")
  | some (some id) =>
    match getCirc s id with
    | none => (s, .ub "use of a handle that is not live")
    | some c =>
      match entry cfg api mem c call with
      | .num n => (s, .num n)
      | .abort tag => (s, .abort tag)
      | .ret c' p => finish s (setCirc s.circs id c') p

def step {C} (cfg : Cfg) (api : Api C) (mem : Mem) (s : State C) (call : Call) : State C × Answer :=
  match call with
  | .new nq nc =>
    let id := s.hs.next
    ({ s with hs := (s.hs.alloc cfg.circSize cfg.circAlign).1,
              circs := (id, ⟨api.new nq nc, nq, nc, [], none, ⟨id, cfg.circSize, cfg.circAlign⟩⟩) :: s.circs },
     .handle id)
  | .free none => (s, .unit)
  | .free (some id) =>
    match getCirc s id with
    | none => (s, .ub "circuit_free of a handle that is not live")
    | some c =>
      match dealloc s.hs.heap (.blk id) c.blk.size c.blk.align with
      | .error _ => (s, .ub "circuit block not live")
      | .ok h' => ({ s with hs := { s.hs with heap := h' }, circs := s.circs.filter (fun kv => kv.1 != id) }, .unit)
  | .resultFree r =>
    if r ∈ s.results then
      match CResult.free s.hs.heap r with
      | .error _ => (s, .ub "result_free faulted")
      | .ok h' => ({ s with hs := { s.hs with heap := h' }, results := s.results.erase r }, .unit)
    else (s, .ub "result_free of a result that is not outstanding")
  | _ => stepEntry cfg api mem s call

def init (C : Type) (heap : Heap) (next : Nat) : State C := ⟨⟨heap, next⟩, [], []⟩

/-- run a history; every call comes with the foreign memory as it is at that moment; answers in order -/
def run {C} (cfg : Cfg) (api : Api C) : State C → List (Mem × Call) → State C × List Answer
  | s, [] => (s, [])
  | s, (mem, c) :: cs =>
    let (s', a) := step cfg api mem s c
    let (s'', as) := run cfg api s' cs
    (s'', a :: as)

def Answer.bad : Answer → Bool
  | .abort _ => true
  | .ub _ => true
  | _ => false

end Q1t.Ffi

import Q1t.Model.Tableau
/-!
Model of the `u64` packing of `StabilizerTableau` (`bit_indices`, `get_bits`, `set_bits`, `get_sign`,
`set_sign`, `xor_sign`, `new`), import-free and executable.  Words are `Nat`s kept below `2^64`.
`none` = slice-index panic (`self.xz[byte_idx]` out of range).

`Q1t/Proofs/TableauBits.lean` proves the frame laws for all `n` and that reading a packed tableau
built by `ofTab` gives back the list-of-rows tableau.
-/
namespace Q1t.TableauBits
open Q1t.Tableau

structure TabBits where
  n : Nat
  xz : List Nat
  signs : List Nat
deriving DecidableEq, Repr, Inhabited

/-- `bit_indices(i, j)`: `idx = 2*(i*n + j)`, `(idx >> 6, idx & 0x3f)` -/
def bitIndices (n i j : Nat) : Nat × Nat :=
  let idx := 2 * (i * n + j)
  (idx >>> 6, idx &&& 0x3f)

/-- clear the bits of `mask` in `w` (`w & !mask` on `u64`) -/
def clearBits (w mask : Nat) : Nat := w ^^^ (w &&& mask)

/-- `StabilizerTableau::new` before the `set(i, i, Z)` loop: all-zero words -/
def zeros (n : Nat) : TabBits :=
  ⟨n, List.replicate ((2 * n * n + 0x3f) >>> 6) 0, List.replicate ((n + 0x3f) >>> 6) 0⟩

/-- `get_bits(i, j)` -/
def getBits (t : TabBits) (i j : Nat) : Option Nat :=
  let (byte, bit) := bitIndices t.n i j
  (t.xz[byte]?).map fun w => (w >>> bit) &&& 0x03

/-- `set_bits(i, j, op)` -/
def setBits (t : TabBits) (i j op : Nat) : Option TabBits :=
  let (byte, bit) := bitIndices t.n i j
  (t.xz[byte]?).map fun w =>
    { t with xz := t.xz.set byte (clearBits w (0x03 <<< bit) ||| ((op &&& 0x03) <<< bit)) }

/-- `get_sign(i)` -/
def getSign (t : TabBits) (i : Nat) : Option Bool :=
  (t.signs[i >>> 6]?).map fun w => (w &&& (1 <<< (i &&& 0x3f))) != 0

/-- `set_sign(i, sign)` -/
def setSign (t : TabBits) (i : Nat) (s : Bool) : Option TabBits :=
  let (byte, bit) := (i >>> 6, i &&& 0x3f)
  (t.signs[byte]?).map fun w =>
    { t with signs := t.signs.set byte (clearBits w (1 <<< bit) ||| ((if s then 1 else 0) <<< bit)) }

/-- `xor_sign(i, sign)` -/
def xorSign (t : TabBits) (i : Nat) (s : Bool) : Option TabBits :=
  if s then
    let (byte, bit) := (i >>> 6, i &&& 0x3f)
    (t.signs[byte]?).map fun w => { t with signs := t.signs.set byte (w ^^^ (1 <<< bit)) }
  else some t

/-- write one row of cells -/
def setRow (i : Nat) : List P → Nat → TabBits → Option TabBits
  | [], _, t => some t
  | p :: ps, j, t => (setBits t i j p.toBits).bind (setRow i ps (j + 1))

def setRows : List (List P) → Nat → TabBits → Option TabBits
  | [], _, t => some t
  | r :: rs, i, t => (setRow i r 0 t).bind (setRows rs (i + 1))

def setSigns : List Bool → Nat → TabBits → Option TabBits
  | [], _, t => some t
  | s :: ss, i, t => (setSign t i s).bind (setSigns ss (i + 1))

/-- pack a list-of-rows tableau (what `verif_from_rows` does with `set_bits` / `set_sign`) -/
def ofTab (t : Tab) : Option TabBits :=
  (setRows t.rows 0 (zeros t.n)).bind (setSigns t.signs 0)

/-- `StabilizerTableau::new(n)` -/
def new (n : Nat) : Option TabBits := ofTab (Tab.new n)

/-- read all cells and signs back (the abstraction function) -/
def toTab (t : TabBits) : Option Tab := do
  let rows ← (List.range t.n).mapM fun i => (List.range t.n).mapM fun j => (getBits t i j).map P.ofBits
  let signs ← (List.range t.n).mapM fun i => getSign t i
  pure ⟨t.n, rows, signs⟩

end Q1t.TableauBits

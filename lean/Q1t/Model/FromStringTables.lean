import Q1t.Model.FromString
import Q1t.Gen.FromString
/-! The tables `Composite::from_string` consults, as re-extracted from the sources on every check run. -/
namespace Q1t.FromString

def genTables : Tables := ⟨Q1t.Gen.fromStringTable, Q1t.Gen.decimalRanges, Q1t.Gen.letterFoldExtras⟩

end Q1t.FromString

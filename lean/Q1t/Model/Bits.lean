/-!
Bit-level model shared by C08 and C07 (import-free, executable).

Mirrors, as they are written, the `u64` manipulations of
* `src/support.rs`: `reverse_bits`, `shuffle_bits`, `get_ranges`;
* the classical-register write sites of `src/vectorstate.rs` (`measure_into`, `peek_into`,
  `measure_all_into_helper`) and `src/stabilizer/state.rs` (`measure_into`, `peek_into`,
  `measure_all_into`, `peek_all_into`), seen from one shot's register word;
* the control-word gather of `Circuit::do_execute_with` (`*db |= ((sb >> isrc) & 1) << idst`).

A register word is a `BitVec 64` (Rust `u64`), bit `i` is `w.getLsbD i`.  Rust's `x << k` / `x >> k`
on `u64` with `k ≥ 64` panics in a debug build ("attempt to shift left with overflow") and wraps the
shift amount in a release build; the model makes it an explicit `none` (= panic) outcome, the
harness is built with overflow checks on.
-/
namespace Q1t.Bits

abbrev Word := BitVec 64

/-- Outcome of a modelled call: value, `Err(ctor(payload))`, or a panic at a named site. -/
inductive Res (α : Type) where
  | ok (a : α)
  | err (ctor : String) (payload : List Nat)
  | panic (site : String)
deriving Repr, DecidableEq

namespace Res
def bind {α β} : Res α → (α → Res β) → Res β
  | ok a, f => f a
  | err c p, _ => err c p
  | panic s, _ => panic s

def map {α β} (f : α → β) : Res α → Res β
  | ok a => ok (f a)
  | err c p => err c p
  | panic s => panic s

/-- `Option` (none = panic at `site`) to `Res`. -/
def ofOption {α} (site : String) : Option α → Res α
  | some a => ok a
  | none => panic site

/-- run `f` over a list, stopping at the first non-`ok`. -/
def mapM {α β} (f : α → Res β) : List α → Res (List β)
  | [] => ok []
  | a :: as => match f a with
    | ok b => (match mapM f as with
      | ok bs => ok (b :: bs)
      | err c p => err c p
      | panic s => panic s)
    | err c p => err c p
    | panic s => panic s
end Res

/-- Rust `x << k` on `u64`, overflow checks on: `k ≥ 64` panics. -/
def shl (x : Word) (k : Nat) : Option Word := if k < 64 then some (x <<< k) else none

/-- Rust `x >> k` on `u64`, overflow checks on. -/
def shr (x : Word) (k : Nat) : Option Word := if k < 64 then some (x >>> k) else none

/-! ### `support::reverse_bits` -/

/-- Loop body of `reverse_bits` over the remaining values of `i`:
`res |= (sidx & 1) << (nr_bits - 1 - i); sidx >>= 1;` (`nr_bits - 1 - i` cannot underflow inside the loop). -/
def reverseLoop (nrBits : Nat) : List Nat → Word → Word → Option Word
  | [], res, _ => some res
  | i :: is, res, sidx =>
    match shl (sidx &&& 1) (nrBits - 1 - i) with
    | none => none
    | some b => reverseLoop nrBits is (res ||| b) (sidx >>> 1)

/-- `reverse_bits(idx, nr_bits)`; `none` = shift-overflow panic. -/
def reverseBits (idx : Word) (nrBits : Nat) : Option Word :=
  reverseLoop nrBits (List.range nrBits) 0 idx

/-! ### `support::shuffle_bits` -/

/-- Loop of `shuffle_bits`: `res |= (sidx & 1) << i; sidx >>= 1;` for `i in bits`. -/
def shuffleLoop : List Nat → Word → Word → Option Word
  | [], res, _ => some res
  | b :: bs, res, sidx =>
    match shl (sidx &&& 1) b with
    | none => none
    | some x => shuffleLoop bs (res ||| x) (sidx >>> 1)

/-- `shuffle_bits(idx, bits)`; `none` = shift-overflow panic. -/
def shuffleBits (idx : Word) (bits : List Nat) : Option Word := shuffleLoop bits 0 idx

/-! ### `support::get_ranges` -/

/-- insertion into a sorted list (the model of `snrs.sort()` is insertion sort) -/
def insertSorted (x : Nat) : List Nat → List Nat
  | [] => [x]
  | y :: ys => if x ≤ y then x :: y :: ys else y :: insertSorted x ys

def sortNats (l : List Nat) : List Nat := l.foldr insertSorted []

/-- the `for &nr in snrs[1..]` loop of `get_ranges` -/
def rangesLoop : List Nat → Nat → Nat → List (Nat × Nat) → List (Nat × Nat)
  | [], first, last, acc => (acc ++ [(first, last)])
  | nr :: rest, first, last, acc =>
    if nr = last + 1 then rangesLoop rest first (last + 1) acc
    else rangesLoop rest nr nr (acc ++ [(first, last)])

/-- `get_ranges(nrs)`; `none` = the index panic of `snrs[0]` on an empty slice. -/
def getRanges (nrs : List Nat) : Option (List (Nat × Nat)) :=
  match sortNats nrs with
  | [] => none
  | f :: rest => some (rangesLoop rest f f [])

/-! ### single-bit write sites (`measure_into`, `peek_into`, both backends) -/

/-- One shot of `measure_into`/`peek_into`: `one_mask = 1 << cbit; zero_mask = !one_mask;`
then `*b &= zero_mask` (outcome 0) or `*b |= one_mask` (outcome 1). -/
def writeBit (w : Word) (c : Nat) (v : Bool) : Option Word :=
  match shl 1 c with
  | none => none
  | some oneMask => some (if v then w ||| oneMask else w &&& ~~~oneMask)

/-! ### multi-bit write sites -/

/-- `cbits.iter().fold(0u64, |m, b| m | (1u64 << b))` -/
def maskLoop : List Nat → Word → Option Word
  | [], m => some m
  | b :: bs, m =>
    match shl 1 b with
    | none => none
    | some x => maskLoop bs (m ||| x)

def orMask (cbits : List Nat) : Option Word := maskLoop cbits 0

/-- Basis-state index of a list of qubit values as `VectorState` numbers them: qubit 0 is the most
significant of the `n` index bits.  (`idx as u64`.) -/
def idxOfQubits (qs : List Bool) : Word :=
  qs.foldl (fun acc b => (acc <<< 1) ||| (if b then 1 else 0)) 0

/-- One shot of the vector backend's `measure_all_into_helper` (measure_all and peek_all):
`mask = !fold(..)`, `rev_idx = reverse_bits(idx, nr_bits)`, `perm_idx = shuffle_bits(rev_idx, cbits)`,
`*bits = (*bits & mask) | perm_idx`.  `idx` is the sampled basis-state index of this shot. -/
def measureAllVecWord (nrBits : Nat) (cbits : List Nat) (idx : Word) (w : Word) : Option Word :=
  match orMask cbits with
  | none => none
  | some m =>
    match reverseBits idx nrBits with
    | none => none
    | some rev =>
      match shuffleBits rev cbits with
      | none => none
      | some perm => some ((w &&& ~~~m) ||| perm)

/-- One shot of the stabilizer backend's `measure_all_into`: `measure_into(qbit, cbit)` for
`(qbit, cbit) in cbits.iter().enumerate()`; `outcome q` is this shot's outcome for qubit `q`.
No check of `cbits.len()` against the number of qubits is made: a longer list runs into
`InvalidQBit(nr_bits)` after the earlier bits were written, a shorter one measures a prefix. -/
def measureAllStabLoop (nrBits : Nat) (outcome : Nat → Bool) : List Nat → Nat → Word → Res Word
  | [], _, w => .ok w
  | c :: cs, q, w =>
    if q ≥ nrBits then .err "InvalidQBit" [q]
    else match writeBit w c (outcome q) with
      | none => .panic "shl"
      | some w' => measureAllStabLoop nrBits outcome cs (q + 1) w'

def measureAllStabWord (nrBits : Nat) (cbits : List Nat) (outcome : Nat → Bool) (w : Word) : Res Word :=
  measureAllStabLoop nrBits outcome cbits 0 w

/-- The `idx | (1 << cbit)` accumulation of the stabilizer backend's `peek_all_into` for one shot. -/
def peekAllStabIdx (outcome : Nat → Bool) : List Nat → Nat → Word → Option Word
  | [], _, idx => some idx
  | c :: cs, q, idx =>
    if outcome q then
      match shl 1 c with
      | none => none
      | some x => peekAllStabIdx outcome cs (q + 1) (idx ||| x)
    else peekAllStabIdx outcome cs (q + 1) idx

/-- One shot of the stabilizer backend's `peek_all_into`: `one_mask` is the OR of all `1u64 << cbit`,
`*b = (*b & zero_mask) | idx`. -/
def peekAllStabWord (cbits : List Nat) (outcome : Nat → Bool) (w : Word) : Option Word :=
  match orMask cbits with
  | none => none
  | some m =>
    match peekAllStabIdx outcome cbits 0 0 with
    | none => none
    | some idx => some ((w &&& ~~~m) ||| idx)

/-! ### control-word gather of `do_execute_with` -/

/-- `*db |= ((sb >> isrc) & 1) << idst` for `(idst, isrc) in control.iter().enumerate()`, one shot. -/
def gatherLoop (sb : Word) : List Nat → Nat → Word → Option Word
  | [], _, db => some db
  | isrc :: rest, idst, db =>
    match shr sb isrc with
    | none => none
    | some s =>
      match shl (s &&& 1) idst with
      | none => none
      | some x => gatherLoop sb rest (idst + 1) (db ||| x)

/-- The control word of one shot. `none` = shift-overflow panic (a control index ≥ 64, or more
than 64 control bits). -/
def controlWord (control : List Nat) (sb : Word) : Option Word := gatherLoop sb control 0 0

end Q1t.Bits

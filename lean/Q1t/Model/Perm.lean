/-!
Model of `src/permutation.rs` (import-free, executable).

Conventions: the index vector is a `List Nat`, payload vectors are `List α`, matrices are
`List (List α)` (row major).  Every slice index / `unwrap` of the Rust code that can fail is an
explicit `none` (= panic) in the model; nothing is totalised silently.
-/
namespace Q1t.Perm

/-- The three error constructors `Permutation::new` can return. -/
inductive Err where
  | empty
  | invalidElem (max n : Nat)
  | doubleElem (e : Nat)
deriving DecidableEq, Repr

/-- `*idxs.iter().max().unwrap()` for a non-empty list. -/
def maxOf (l : List Nat) : Nat := l.foldl max 0

/-- The `seen` loop of `new`: returns the first element found already marked.
`seen[pi]` is in range because `new` checked `max < n` before. -/
def checkDup (seen : List Bool) : List Nat → Option Nat
  | [] => none
  | pi :: rest => if seen.getD pi false then some pi else checkDup (seen.set pi true) rest

/-- `Permutation::new`: the three checks, in the order of the code. -/
def new (idxs : List Nat) : Except Err (List Nat) :=
  if idxs.isEmpty then .error .empty
  else
    let n := idxs.length
    let m := maxOf idxs
    if m ≥ n then .error (.invalidElem m n)
    else match checkDup (List.replicate n false) idxs with
      | some pi => .error (.doubleElem pi)
      | none => .ok idxs

/-- The loop of `inverse`: `invidxs[pi] = i`. -/
def inverseLoop : List Nat → Nat → List Nat → List Nat
  | [], _, acc => acc
  | pi :: rest, i, acc => inverseLoop rest (i + 1) (acc.set pi i)

def inverseIdx (idxs : List Nat) : List Nat :=
  inverseLoop idxs 0 (List.replicate idxs.length 0)

/-- `inverse`: the index loop followed by `Permutation::new(..).unwrap()`; an `error` here is the
Rust `unwrap` panic. -/
def inverse (idxs : List Nat) : Except Err (List Nat) := new (inverseIdx idxs)

/-- `apply_vec_into`: `perm_v[new_idx] = v[old_idx]`; `none` = index panic. -/
def applyInto {α} (idxs : List Nat) (v : List α) : Option (List α) :=
  idxs.mapM (fun o => v[o]?)

/-- the loop of `apply_inverse_vec_into`, writing into `out`: `out[old_idx] = v[new_idx]`. -/
def applyInverseLoop {α} : List Nat → Nat → List α → List α → Option (List α)
  | [], _, _, out => some out
  | o :: rest, i, v, out =>
    match v[i]? with
    | none => none
    | some x => if o < out.length then applyInverseLoop rest (i + 1) v (out.set o x) else none

def applyInverseInto {α} (idxs : List Nat) (v out : List α) : Option (List α) :=
  applyInverseLoop idxs 0 v out

/-- `v.swap(i, j)` on an ndarray vector. -/
def swap {α} (v : List α) (i j : Nat) : Option (List α) :=
  match v[i]?, v[j]? with
  | some a, some b => some ((v.set i b).set j a)
  | _, _ => none

/-- The inner `while pj != i` loop of `apply`, with fuel (the Rust loop has none; `new` guarantees
a bijection, and `inPlace_fuel_suffices` shows `size` steps are enough).  Returns the payload and the
`in_place` marks; `none` if an index fails or the fuel runs out. -/
def cycleLoop {α} (idxs : List Nat) (i : Nat) :
    Nat → Nat → List α → List Bool → Option (List α × List Bool)
  | 0, _, _, _ => none
  | fuel + 1, j, v, marks =>
    match idxs[j]? with
    | none => none
    | some pj =>
      if pj = i then some (v, marks.set j true)
      else match swap v j pj with
        | none => none
        | some v' => cycleLoop idxs i fuel pj v' (marks.set j true)

/-- The outer `for i in 0..size` loop of `apply`. -/
def outerLoop {α} (idxs : List Nat) : List Nat → List α → List Bool → Option (List α × List Bool)
  | [], v, marks => some (v, marks)
  | i :: rest, v, marks =>
    if marks.getD i true then outerLoop idxs rest v marks
    else match cycleLoop idxs i (idxs.length + 1) i v marks with
      | none => none
      | some (v', marks') => outerLoop idxs rest v' marks'

/-- `apply_vec_in_place`. -/
def inPlace {α} (idxs : List Nat) (v : List α) : Option (List α) :=
  (outerLoop idxs (List.range idxs.length) v (List.replicate idxs.length false)).map (·.1)

/-- `matrix`: `res[[i, pi]] = 1` on a zero matrix. -/
def matrix {α} (zero one : α) (idxs : List Nat) : List (List α) :=
  idxs.map (fun pi => (List.replicate idxs.length zero).set pi one)

/-- `transform`: `a.select(Axis(0), idxs).select(Axis(1), idxs)`. -/
def transform {α} (idxs : List Nat) (a : List (List α)) : Option (List (List α)) :=
  (idxs.mapM (fun r => a[r]?)).bind (fun rows => rows.mapM (fun row => idxs.mapM (fun c => row[c]?)))

/-- matrix–vector product over `Int` (reference arithmetic for the matrix route). -/
def mulVec (m : List (List Int)) (v : List Int) : List Int :=
  m.map (fun row => (List.zipWith (· * ·) row v).foldl (· + ·) 0)

end Q1t.Perm

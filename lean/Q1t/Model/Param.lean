import Q1t.Model.Gate
/-!
Model of `gates::Parameter` (`src/gates/parameter.rs`): a gate parameter is a direct value, a
reference to a shared cell (`Rc<RefCell<f64>>`), or a pointer handed over the C ABI (`*const f64`).
`Parameter::value()` reads the cell at the moment it is called; every `matrix()` / route of a
parametrised gate calls `value()` afresh, so a gate term over `Param V` denotes a matrix only
relative to a store, and is evaluated by substituting the store's current values.
Import-free, executable.
-/
namespace Q1t

/-- `gates::Parameter` -/
inductive Param (V : Type) where
  | direct (v : V)
  | reference (cell : Nat)
  | ffiRef (cell : Nat)
deriving DecidableEq, Repr

/-- the memory a parameter may point into: `Rc<RefCell<f64>>` cells and foreign `f64` locations -/
structure Store (V : Type) where
  ref : Nat → V
  ffi : Nat → V

namespace Store
variable {V : Type}
def setRef (s : Store V) (c : Nat) (v : V) : Store V := { s with ref := fun k => if k = c then v else s.ref k }
def setFfi (s : Store V) (c : Nat) (v : V) : Store V := { s with ffi := fun k => if k = c then v else s.ffi k }
end Store

namespace Param
variable {V : Type}

/-- `Parameter::value()` -/
def value (s : Store V) : Param V → V
  | .direct v => v
  | .reference c => s.ref c
  | .ffiRef c => s.ffi c

def isDirect : Param V → Bool
  | .direct _ => true
  | _ => false

end Param

mutual
/-- substitute the parameters of a term -/
def GateTerm.mapP {P Q : Type} (f : P → Q) : GateTerm P → GateTerm Q
  | .H => .H | .X => .X | .Y => .Y | .Z => .Z | .S => .S | .Sdg => .Sdg | .T => .T | .Tdg => .Tdg
  | .V => .V | .Vdg => .Vdg | .I => .I
  | .RX θ => .RX (f θ) | .RY θ => .RY (f θ) | .RZ l => .RZ (f l) | .U1 l => .U1 (f l)
  | .U2 φ l => .U2 (f φ) (f l) | .U3 θ φ l => .U3 (f θ) (f φ) (f l)
  | .CX => .CX | .CY => .CY | .CZ => .CZ | .Swap => .Swap
  | .C g => .C (g.mapP f)
  | .Kron g0 g1 => .Kron (g0.mapP f) (g1.mapP f)
  | .Composite name n ops => .Composite name n (ops.mapP f)
  | .Loop label iters name n body => .Loop label iters name n (body.mapP f)
def OpList.mapP {P Q : Type} (f : P → Q) : OpList P → OpList Q
  | .nil => .nil
  | .cons g bits rest => .cons (g.mapP f) bits (rest.mapP f)
end

mutual
/-- all parameters occurring in a term, in order -/
def GateTerm.params {P : Type} : GateTerm P → List P
  | .RX θ => [θ] | .RY θ => [θ] | .RZ l => [l] | .U1 l => [l]
  | .U2 φ l => [φ, l] | .U3 θ φ l => [θ, φ, l]
  | .C g => g.params
  | .Kron g0 g1 => g0.params ++ g1.params
  | .Composite _ _ ops => ops.params
  | .Loop _ _ _ _ body => body.params
  | _ => []
def OpList.params {P : Type} : OpList P → List P
  | .nil => []
  | .cons g _ rest => g.params ++ rest.params
end

namespace Gate
variable {α V : Type} [Zero α] [One α] [Add α] [Mul α] [Neg α] [Sub α] [Amp α V]

/-- `matrix()` of a gate whose parameters may be references, called while the store is `s` -/
def matrixAt (s : Store V) (g : GateTerm (Param V)) : LMat α := matrix (g.mapP (Param.value s))

end Gate
end Q1t

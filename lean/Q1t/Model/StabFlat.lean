import Q1t.Model.StabSim
/-!
C18: `StabilizerState::peek_all_into` for operand lists LONGER than the register.

`StabilizerTableau` stores its cells in one flat bit array (`xz: Vec<u64>`, cell `(i, j)` at bit
`2·(i·n + j)`), and `peek_all_into` calls `tableau.measure(qbit)` for `qbit = 0, 1, …, cbits.len()-1`
without comparing `qbit` with `nr_bits`.  For `qbit ≥ n` the accessors therefore read the cells of the
FOLLOWING rows (`(i, j)` aliases `(i + j / n, j % n)`), then the zero padding of the last word, and
only beyond the last word does the `Vec` index panic.  `Q1t.Tableau.Tab.measure` answers `oob` for every
`bit ≥ n`; this file refines exactly that case (`measureFlat`) so that the correspondence on malformed
`peek_all` lists is exact.  For `bit < n` nothing changes (`Proofs/StabFlat.lean`).
-/
namespace Q1t.Sim
open Q1t Q1t.Tableau

namespace StabFlat

/-- `get(i, j)` through the flat array, for any `j` -/
def flatCell (t : Tab) (i j : Nat) : Res P :=
  let idx := i * t.n + j
  if idx < t.n * t.n then t.cell (idx / t.n) (idx % t.n)
  else if idx / 32 < (2 * t.n * t.n + 63) / 64 then .ok .I    -- zero padding of the last `u64`
  else .oob                                                    -- `self.xz[byte_idx]` out of bounds

def findLastFlat (sel : P → Bool) (t : Tab) (bit : Nat) : List Nat → Res (Option Nat)
  | [] => .ok none
  | i :: is => do
    let p ← flatCell t i bit
    if sel p then pure (some i) else findLastFlat sel t bit is

/-- `StabilizerTableau::measure(bit)` for any `bit` -/
def measureFlat (t : Tab) (bit : Nat) : Res MInfo :=
  if bit < t.n then Tab.measure t bit
  else do
    match ← findLastFlat P.hasX t bit (Tab.revRange t.n) with
    | some i => pure (.random i)
    | none =>
      match ← findLastFlat (· == P.Z) t bit (Tab.revRange t.n) with
      | some i => do
        let s ← t.sign i
        pure (.deterministic s)
      | none => .panic .unwrapNoZ

variable {α : Type} (half : α)

/-- `StabState.peekAllPieces` with `measureFlat` -/
def peekAllPieces (t : Tab) : List (Nat × Nat) → List (Nat × Nat) → Prog α (List (Nat × Nat))
  | [], counts => .pure counts
  | (cbit, q) :: rest, counts =>
    (StabState.lift (α := α) (measureFlat t q)).bind fun info =>
      let rec split : List (Nat × Nat) → Prog α (List (Nat × Nat))
        | [] => .pure []
        | (idx, c) :: more =>
          let cont := fun (n0 : Nat) =>
            (split more).bind fun tail =>
              .pure ((if n0 > 0 then [(idx, n0)] else []) ++
                     (if n0 < c then [(idx ||| (1 <<< cbit), c - n0)] else []) ++ tail)
          match info with
          | .deterministic false => cont c
          | .deterministic true => cont 0
          | .random _ => .binomial c half cont
      (split counts).bind fun counts' => peekAllPieces t rest counts'

/-- `peek_all_into` -/
def peekAllInto (s : StabState) (cbits : List Nat) (res : List Nat) : Prog α (StabState × List Nat) :=
  if ¬ cbits.all shiftOk then Prog.panic "1u64 << cbit" else
  let oneMask := cbits.foldl (fun m b => m ||| (1 <<< b)) 0
  let rec go : List (Tab × Nat) → Nat → List Nat → Prog α (List Nat)
    | [], _, res => .pure res
    | (t, count) :: rest, offset, res =>
      (peekAllPieces half t cbits.zipIdx [(0, count)]).bind fun pieces =>
        let step := fun (st : List Nat × Nat) (ic : Nat × Nat) =>
          let (res, off) := st
          (res.zipIdx.map fun (w, i) =>
            if off ≤ i ∧ i < off + ic.2 then (w &&& ((2 ^ 64 - 1) ^^^ oneMask)) ||| ic.1 else w, off + ic.2)
        let (res', off') := pieces.foldl step (res, offset)
        go rest off' res'
  (go (s.tabs.zip s.counts) 0 res).bind fun res' => .pure (s, res')

end StabFlat

/-- the stabilizer backend with the flat-array reading of over-long `peek_all` lists -/
def stabBackendFlat {α P : Type} (half : α) (ph : List Nat) (conjOf : GateTerm P → Tab.Conj) :
    Backend α P StabState :=
  { stabBackend half ph conjOf with peekAllInto := StabFlat.peekAllInto half }

end Q1t.Sim

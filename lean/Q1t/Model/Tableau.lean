/-!
Model of `src/stabilizer/tableau.rs` at the level of rows (import-free, executable).

A tableau is `n` rows of `n` Pauli operators plus one sign per row.  The `u64` packing of the Rust
structure is modelled separately in `Q1t/Model/TableauBits.lean` and proved equivalent to this
list-of-rows view for all in-range indices.

Outcomes (`Res`): `ok`, `err` (the gate's `conjugate` returned `Err`), `panic site` for the two
explicit panic sites of the Rust code (`assert!(i_pow == 0 || i_pow == 2)` in `multiply_row`,
`.next().unwrap()` in `measure` / `reset`), and `oob` when a row / column index is outside
`0..n`.  For out-of-range indices the packed implementation either aliases another cell or hits a
slice-index panic, depending on `n`; that behaviour is not a property of the row view and is kept
out of this model (`TableauBits` has it).  All loops are written as explicit structural recursions
in the order of the Rust loops.

Tables regenerated from the source are parameters: the phase table `ph` of `multiply_row`
(`Q1t.Gen.phaseTable`) and the conjugation function of the gate (`Q1t.Gen.conjTable` through
`conjOf`).
-/
namespace Q1t.Tableau

/-- `PauliOp` with the bit encoding of `pauliop.rs`: I=0, Z=1, X=2, Y=3. -/
inductive P where
  | I | Z | X | Y
deriving DecidableEq, Repr, Inhabited

namespace P
def toBits : P → Nat
  | I => 0 | Z => 1 | X => 2 | Y => 3
/-- `PauliOp::from_bits` (masks with `& 0x03`). -/
def ofBits (b : Nat) : P :=
  match b % 4 with
  | 0 => I | 1 => Z | 2 => X | _ => Y
/-- `get_x`: bit 1 of the cell -/
def hasX : P → Bool
  | X => true | Y => true | _ => false
/-- `get_z`: bit 0 of the cell -/
def hasZ : P → Bool
  | Z => true | Y => true | _ => false
/-- `xz0 ^ xz1` on the two-bit encodings -/
def xor (a b : P) : P := ofBits (a.toBits ^^^ b.toBits)
def toChar : P → Char
  | I => 'I' | Z => 'Z' | X => 'X' | Y => 'Y'
def ofChar? : Char → Option P
  | 'I' => some I | 'Z' => some Z | 'X' => some X | 'Y' => some Y | _ => none
end P

inductive Site where
  /-- `assert!(i_pow == 0 || i_pow == 2)` in `multiply_row` -/
  | assertIPow
  /-- `.next().unwrap()` in `measure` / `reset`: no row with exactly `Z` at the measured column -/
  | unwrapNoZ
deriving DecidableEq, Repr, Inhabited

/-- The errors a library gate's `conjugate` can return. -/
inductive GErr where
  | invalidNrBits (got expected : Nat)
  | notAStabilizer
deriving DecidableEq, Repr, Inhabited

inductive Res (α : Type) where
  | ok (a : α)
  | err (e : GErr)
  | panic (s : Site)
  | oob
deriving DecidableEq, Repr, Inhabited

namespace Res
@[inline] def bind {α β} (r : Res α) (f : α → Res β) : Res β :=
  match r with
  | ok a => f a
  | err e => err e
  | panic s => panic s
  | oob => oob
instance : Monad Res where
  pure := ok
  bind := bind
def ofOption {α} : Option α → Res α
  | some a => ok a
  | none => oob
def isOk {α} : Res α → Bool
  | ok _ => true | _ => false
end Res

structure Tab where
  n : Nat
  rows : List (List P)
  signs : List Bool
deriving DecidableEq, Repr, Inhabited

/-- Result of `measure` (`MeasurementInfo`). -/
inductive MInfo where
  | deterministic (v : Bool)
  | random (i : Nat)
deriving DecidableEq, Repr, Inhabited

namespace Tab

/-- Shape invariant: `n` rows of `n` cells, `n` signs. -/
def WF (t : Tab) : Prop :=
  t.rows.length = t.n ∧ t.signs.length = t.n ∧ ∀ r ∈ t.rows, r.length = t.n

instance (t : Tab) : Decidable t.WF := by unfold WF; exact inferInstance

/-- `StabilizerTableau::new` -/
def new (n : Nat) : Tab :=
  ⟨n, (List.range n).map (fun i => (List.range n).map (fun j => if i = j then P.Z else P.I)),
   List.replicate n false⟩

def row (t : Tab) (i : Nat) : Res (List P) := .ofOption t.rows[i]?
def sign (t : Tab) (i : Nat) : Res Bool := .ofOption t.signs[i]?
/-- `get(i, j)` -/
def cell (t : Tab) (i j : Nat) : Res P := do
  let r ← t.row i
  .ofOption r[j]?

/-- `set(i, j, op)` -/
def setCell (t : Tab) (i j : Nat) (p : P) : Res Tab := do
  let r ← t.row i
  if j < r.length then pure { t with rows := t.rows.set i (r.set j p) } else .oob

/-- `set_sign(i, s)` -/
def setSign (t : Tab) (i : Nat) (s : Bool) : Res Tab :=
  if i < t.signs.length then .ok { t with signs := t.signs.set i s } else .oob

/-- `swap_rows(i0, i1)` -/
def swapRows (t : Tab) (i0 i1 : Nat) : Res Tab := do
  let r0 ← t.row i0
  let r1 ← t.row i1
  let s0 ← t.sign i0
  let s1 ← t.sign i1
  pure { t with rows := (t.rows.set i0 r1).set i1 r0, signs := (t.signs.set i0 s1).set i1 s0 }

/-- `PHASE_FACTORS[(xz0 << 2) | xz1]` -/
def phaseAt (ph : List Nat) (a b : P) : Nat := ph.getD (a.toBits * 4 + b.toBits) 0

/-- the `i_pow` accumulation loop of `multiply_row` over the columns -/
def iPow (ph : List Nat) : List P → List P → Nat → Nat
  | a :: r0, b :: r1, acc => iPow ph r0 r1 ((acc + phaseAt ph a b) % 4)
  | _, _, acc => acc

/-- `multiply_row(i0, i1)`: row `i0` := row `i0` · row `i1`.  The cells of row `i0` are written
before the assertion, but a panic discards the tableau, so the order is not observable. -/
def multiplyRow (ph : List Nat) (t : Tab) (i0 i1 : Nat) : Res Tab := do
  let r0 ← t.row i0
  let r1 ← t.row i1
  let s0 ← t.sign i0
  let s1 ← t.sign i1
  let ipow := iPow ph r0 r1 (if s1 then 2 else 0)
  if ipow = 0 ∨ ipow = 2 then
    pure { t with rows := t.rows.set i0 (List.zipWith P.xor r0 r1),
                  signs := t.signs.set i0 (s0 != (ipow == 2)) }
  else .panic .assertIPow

/-- `(i..n).filter(|&k| sel(k, j)).next()` over an explicit candidate list -/
def findRow (sel : P → Bool) (t : Tab) (j : Nat) : List Nat → Res (Option Nat)
  | [] => .ok none
  | k :: ks => do
    let p ← t.cell k j
    if sel p then pure (some k) else findRow sel t j ks

/-- `for m in 0..n { if m != i && sel(m, j) { multiply_row(m, i) } }` -/
def elimRows (ph : List Nat) (sel : P → Bool) (j i : Nat) : List Nat → Tab → Res Tab
  | [], t => .ok t
  | m :: ms, t => do
    let p ← t.cell m j
    let t' ← if m != i && sel p then multiplyRow ph t m i else pure t
    elimRows ph sel j i ms t'

/-- one of the two `for j in 0..n` loops of `normalize`; the state is (tableau, pivot row `i`) -/
def pass (ph : List Nat) (sel : P → Bool) : List Nat → Tab → Nat → Res (Tab × Nat)
  | [], t, i => .ok (t, i)
  | j :: js, t, i => do
    match ← findRow sel t j (List.range' i (t.n - i)) with
    | none => pass ph sel js t i
    | some k =>
      let t ← swapRows t i k
      let t ← elimRows ph sel j i (List.range t.n) t
      pass ph sel js t (i + 1)

/-- `normalize` -/
def normalize (ph : List Nat) (t : Tab) : Res Tab := do
  let (t, i) ← pass ph P.hasX (List.range t.n) t 0
  let (t, _) ← pass ph P.hasZ (List.range t.n) t i
  pure t

/-- `ops.extend(bits.iter().map(|&j| self.get(i, j)))` -/
def gatherOps (t : Tab) (i : Nat) : List Nat → Res (List P)
  | [] => .ok []
  | j :: js => do
    let p ← t.cell i j
    let ps ← gatherOps t i js
    pure (p :: ps)

/-- `for (&j, &op) in bits.iter().zip(ops.iter()) { self.set(i, j, op) }` -/
def scatterOps (i : Nat) : List Nat → List P → Tab → Res Tab
  | j :: js, p :: ps, t => do
    let t ← t.setCell i j p
    scatterOps i js ps t
  | _, _, t => .ok t

/-- Model of `gate.conjugate(&mut ops)`: `error` = `Err(..)`, otherwise (flip_sign, new ops). -/
abbrev Conj := List P → Except GErr (Bool × List P)

/-- the row loop of `apply_gate` -/
def conjRows (conj : Conj) (bits : List Nat) : List Nat → Tab → Res Tab
  | [], t => .ok t
  | i :: is, t => do
    let ops ← gatherOps t i bits
    match conj ops with
    | .error e => .err e
    | .ok (flip, ops') =>
      let t ← scatterOps i bits ops' t
      let s ← t.sign i
      let t ← t.setSign i (s != flip)
      conjRows conj bits is t

/-- `apply_gate(gate, bits)` -/
def applyGate (ph : List Nat) (conj : Conj) (t : Tab) (bits : List Nat) : Res Tab := do
  let t ← conjRows conj bits (List.range t.n) t
  normalize ph t

/-- `for k in 0..i { if get_x(k, bit) { multiply_row(k, i) } }` -/
def collapseRows (ph : List Nat) (i bit : Nat) : List Nat → Tab → Res Tab
  | [], t => .ok t
  | k :: ks, t => do
    let p ← t.cell k bit
    let t' ← if p.hasX then multiplyRow ph t k i else pure t
    collapseRows ph i bit ks t'

/-- `collapse(i, bit, value)` -/
def collapse (ph : List Nat) (t : Tab) (i bit : Nat) (value : Bool) : Res Tab := do
  let t ← collapseRows ph i bit (List.range i) t
  if i < t.rows.length ∧ bit < t.n then
    let t := { t with rows := t.rows.set i ((List.range t.n).map fun j => if j = bit then P.Z else P.I) }
    let t ← t.setSign i value
    normalize ph t
  else .oob

/-- `(0..n).rev().filter(|&i| sel(get(i, bit))).next()` over an explicit (reversed) candidate list -/
def findLast (sel : P → Bool) (t : Tab) (bit : Nat) : List Nat → Res (Option Nat)
  | [] => .ok none
  | i :: is => do
    let p ← t.cell i bit
    if sel p then pure (some i) else findLast sel t bit is

def revRange (n : Nat) : List Nat := (List.range n).reverse

/-- `measure(bit)` -/
def measure (t : Tab) (bit : Nat) : Res MInfo :=
  if bit < t.n then do
    match ← findLast P.hasX t bit (revRange t.n) with
    | some i => pure (.random i)
    | none =>
      match ← findLast (· == P.Z) t bit (revRange t.n) with
      | some i => do
        let s ← t.sign i
        pure (.deterministic s)
      | none => .panic .unwrapNoZ
  else .oob

/-- `reset(bit)` -/
def reset (ph : List Nat) (t : Tab) (bit : Nat) : Res Tab :=
  if bit < t.n then do
    match ← findLast P.hasX t bit (revRange t.n) with
    | some i => collapse ph t i bit false
    | none =>
      match ← findLast (· == P.Z) t bit (revRange t.n) with
      | some i => t.setSign i false
      | none => .panic .unwrapNoZ
  else .oob

/-- one line of the `Display` text -/
def rowText (s : Bool) (r : List P) : String :=
  String.ofList ((if s then '-' else '+') :: r.map P.toChar)

/-- `Display`: one line per row, sign then operators, lines joined by `\n` (no trailing newline). -/
def display (t : Tab) : String :=
  "\n".intercalate (List.zipWith rowText t.signs t.rows)

/-- Parse one `Display` line. -/
def parseRow (s : String) : Option (Bool × List P) :=
  match s.toList with
  | '+' :: cs => (cs.mapM P.ofChar?).map (fun r => (false, r))
  | '-' :: cs => (cs.mapM P.ofChar?).map (fun r => (true, r))
  | _ => none

/-- Build a tableau from `Display`-style lines (all rows must have as many cells as there are rows). -/
def ofLines (ls : List String) : Option Tab := do
  let rs ← ls.mapM parseRow
  let n := rs.length
  if rs.all (fun r => r.2.length == n) then
    pure ⟨n, rs.map (·.2), rs.map (·.1)⟩
  else none

end Tab

/-! ### Library gates: `conjugate` driven by the generated table -/

/-- One entry of `Q1t.Gen.conjTable`: (name, arity, is_stabilizer, rows (ops ↦ ops', flip)). -/
abbrev ConjEntry := String × Nat × Bool × List (List Nat × List Nat × Bool)

/-- `conjugate` of a primitive library gate: `check_nr_bits` (unless the gate omits it), then the
table row.  A gate without a table has the default `NotAStabilizer` error. -/
def conjOfEntry (checksArity : Bool) (e : ConjEntry) : Tab.Conj := fun ops =>
  let (_, arity, _, rows) := e
  if rows.isEmpty then .error .notAStabilizer
  else if checksArity && ops.length != arity then .error (.invalidNrBits ops.length arity)
  else
    let key := ops.map P.toBits
    match rows.find? (fun r => r.1 == key.take arity) with
    | some (_, out, flip) => .ok (flip, out.map P.ofBits ++ ops.drop arity)
    | none => .ok (false, ops)   -- only reachable for a gate that does not check its arity (I)

def conjOf (tbl : List ConjEntry) (noCheck : List String) (name : String) : Tab.Conj :=
  match tbl.find? (fun e => e.1 == name) with
  | some e => conjOfEntry (!noCheck.contains name) e
  | none => fun _ => .error .notAStabilizer

end Q1t.Tableau

import Q1t.Model.Bits
/-!
Model of the classical register of `Circuit` (import-free, executable): the builder checks of
`src/circuit.rs`, the effect of every `CircuitOp` on one shot's `(basis state, register word)` as
`do_execute_with` dispatches it to the vector and the stabilizer backend, the zero-shot corner,
and the three histogram views.

Quantum content is restricted to computational basis states (lists of qubit values) and gates that
map basis states to basis states; on those every measurement outcome is deterministic, so the
register effect of every operation is a function of the shot alone.  (What the outcome of a
measurement *is* on a general state belongs to C01/C02/C03, not here.)
-/
namespace Q1t.Register
open Q1t.Bits

inductive Backend where
  | vector
  | stabilizer
deriving DecidableEq, Repr

/-- gates of the basis-state fragment -/
inductive G where
  | x | y | z | s | cx | ccx | swap
  /-- `Kron<X, CX>` on `[a, b, c]` (X on a, CX b→c) and `Kron<CX, X>` on `[a, b, c]` (CX a→b, X on c): products of
  factors of DIFFERENT width -/
  | kxcx | kcxx
  /-- USER-DEFINED gates of the harness (structs that only provide `matrix()`, so every `apply*` route is the default
  of the `Gate` trait): the cyclic increment `|k⟩ ↦ |k+1 mod 2^n⟩` on `n = 2, 3, 4` qubits, first operand = most
  significant bit of `k` (a basis permutation whose matrix is NOT symmetric) ... -/
  | inc2 | inc3 | inc4
  /-- ... and the library's combinators around it: `C<Inc_n>` on `a :: bits` (control `a`), `Kron<X, Inc_n>` on
  `a :: bits`, `Kron<Inc_n, X>` on `bits ++ [a]`, `Composite(4){X on [3]; Inc_3 on [1, 2, 0]}` and
  `Loop(2){Composite(3){Inc_3 on [2, 0, 1]}}` -/
  | cinc2 | cinc3 | kxinc2 | kxinc3 | kinc2x | kinc3x | compxinc3 | loopinc3
deriving DecidableEq, Repr

inductive Op where
  | gate (g : G) (bits : List Nat)
  | cond (control : List Nat) (target : Word) (g : G) (bits : List Nat)
  | measure (q c : Nat)
  | measureAll (cbits : List Nat)
  | peek (q c : Nat)
  | peekAll (cbits : List Nat)
  | reset (q : Nat)
  | resetAll
  | barrier (bits : List Nat)
deriving Repr, Inhabited

/-- one shot: basis state (value of every qubit) and register word -/
structure Shot where
  qs : List Bool
  word : Word
deriving DecidableEq, Repr, Inhabited

def initShot (nq : Nat) : Shot := ⟨List.replicate nq false, 0⟩

/-! ### builder checks (`add_gate`, `add_conditional_gate`, `measure_basis`, ...) -/

/-- `bits.iter().find(|&&b| b >= bound)` -/
def firstBad (bound : Nat) : List Nat → Option Nat
  | [] => none
  | b :: bs => if b ≥ bound then some b else firstBad bound bs

def buildCheck (nq nc : Nat) : Op → Res Unit
  | .gate _ bits | .barrier bits =>
    match firstBad nq bits with | some b => .err "InvalidQBit" [b] | none => .ok ()
  | .cond control _ _ bits =>
    match firstBad nc control with
    | some b => .err "InvalidCBit" [b]
    | none => match firstBad nq bits with | some b => .err "InvalidQBit" [b] | none => .ok ()
  | .measure q c | .peek q c =>
    if q ≥ nq then .err "InvalidQBit" [q] else if c ≥ nc then .err "InvalidCBit" [c] else .ok ()
  | .measureAll cbits | .peekAll cbits =>
    match firstBad nc cbits with | some b => .err "InvalidCBit" [b] | none => .ok ()
  | .reset q => if q ≥ nq then .err "InvalidQBit" [q] else .ok ()
  | .resetAll => .ok ()

/-- first builder error of a program, if any -/
def buildAll (nq nc : Nat) : List Op → Res Unit
  | [] => .ok ()
  | op :: ops => match buildCheck nq nc op with
    | .ok () => buildAll nq nc ops
    | e => e

/-! ### gates on basis states -/

def flipAt (qs : List Bool) (q : Nat) : List Bool := qs.set q (!qs.getD q false)

/-- ripple increment of the number whose binary digits are the qubits `bits`, LEAST significant first -/
def incAt : List Nat → List Bool → List Bool
  | [], qs => qs
  | b :: rest, qs => if qs.getD b false then incAt rest (flipAt qs b) else flipAt qs b

/-- `none`: gate/arity combination outside the modelled fragment. -/
def applyG : G → List Nat → List Bool → Option (List Bool)
  | .x, [q], qs | .y, [q], qs => some (flipAt qs q)
  | .z, [_], qs | .s, [_], qs => some qs
  | .cx, [a, b], qs => some (if qs.getD a false then flipAt qs b else qs)
  | .ccx, [a, b, c], qs => some (if qs.getD a false && qs.getD b false then flipAt qs c else qs)
  | .swap, [a, b], qs => some ((qs.set a (qs.getD b false)).set b (qs.getD a false))
  | .kxcx, [a, b, c], qs => some (let q1 := flipAt qs a; if q1.getD b false then flipAt q1 c else q1)
  | .kcxx, [a, b, c], qs => some (let q1 := (if qs.getD a false then flipAt qs b else qs); flipAt q1 c)
  | .inc2, [a, b], qs => some (incAt [b, a] qs)
  | .inc3, [a, b, c], qs => some (incAt [c, b, a] qs)
  | .inc4, [a, b, c, d], qs => some (incAt [d, c, b, a] qs)
  | .cinc2, [k, a, b], qs => some (if qs.getD k false then incAt [b, a] qs else qs)
  | .cinc3, [k, a, b, c], qs => some (if qs.getD k false then incAt [c, b, a] qs else qs)
  | .kxinc2, [x, a, b], qs => some (incAt [b, a] (flipAt qs x))
  | .kxinc3, [x, a, b, c], qs => some (incAt [c, b, a] (flipAt qs x))
  | .kinc2x, [a, b, x], qs => some (flipAt (incAt [b, a] qs) x)
  | .kinc3x, [a, b, c, x], qs => some (flipAt (incAt [c, b, a] qs) x)
  | .compxinc3, [a, b, c, d], qs => some (incAt [a, c, b] (flipAt qs d))
  | .loopinc3, [a, b, c], qs => some (incAt [b, a, c] (incAt [b, a, c] qs))
  | _, _, _ => none

/-! ### one operation on one shot -/

def outcomeOf (qs : List Bool) (q : Nat) : Bool := qs.getD q false

/-- Effect of one `CircuitOp` (Z basis) on one shot, as dispatched by `do_execute_with`. -/
def stepShot (be : Backend) (nq : Nat) (op : Op) (s : Shot) : Res Shot :=
  match op with
  | .gate g bits =>
    match applyG g bits s.qs with
    | some qs => .ok ⟨qs, s.word⟩
    | none => .err "unmodelled" []
  | .cond control target g bits =>
    match controlWord control s.word with
    | none => .panic "shift"
    | some cw =>
      if cw = target then
        match applyG g bits s.qs with
        | some qs => .ok ⟨qs, s.word⟩
        | none => .err "unmodelled" []
      else .ok s
  | .measure q c | .peek q c =>
    if q ≥ nq then .err "InvalidQBit" [q]
    else match writeBit s.word c (outcomeOf s.qs q) with
      | none => .panic "shift"
      | some w => .ok ⟨s.qs, w⟩
  | .measureAll cbits =>
    -- both backends: `InvalidNrMeasurementBits(cbits.len(), nr_bits)` before anything is written
    if cbits.length ≠ nq then .err "InvalidNrMeasurementBits" [cbits.length, nq]
    else match be with
    | .vector =>
      match measureAllVecWord nq cbits (idxOfQubits s.qs) s.word with
        | none => .panic "shift"
        | some w => .ok ⟨s.qs, w⟩
    | .stabilizer => (measureAllStabWord nq cbits (outcomeOf s.qs) s.word).map (fun w => ⟨s.qs, w⟩)
  | .peekAll cbits =>
    if cbits.length ≠ nq then .err "InvalidNrMeasurementBits" [cbits.length, nq]
    else match be with
    | .vector =>
      match measureAllVecWord nq cbits (idxOfQubits s.qs) s.word with
        | none => .panic "shift"
        | some w => .ok ⟨s.qs, w⟩
    | .stabilizer =>
      match peekAllStabWord cbits (outcomeOf s.qs) s.word with
        | none => .panic "shift"
        | some w => .ok ⟨s.qs, w⟩
  | .reset q => .ok ⟨s.qs.set q false, s.word⟩
  | .resetAll => .ok ⟨List.replicate nq false, s.word⟩
  | .barrier _ => .ok s

/-- All operations on one shot; the list holds the shot after every operation (the trace). -/
def runShot (be : Backend) (nq : Nat) : List Op → Shot → Res (List Shot)
  | [], _ => .ok []
  | op :: ops, s =>
    match stepShot be nq op s with
    | .ok s' => (runShot be nq ops s').map (s' :: ·)
    | .err c p => .err c p
    | .panic site => .panic site

/-- What is left of a `VectorState` that was created for zero shots (`counts = [0]`):
* `fresh`: `counts = [0]` and a finite coefficient column;
* `poisoned`: `counts = [0]` and a column of NaN/∞ — `measure_into` found probability 0 for the
  outcome it "collapses" zero shots to (`n0 == count` holds as `0 == 0`) and scaled the column by
  `1/sqrt(0)`;
* `empty`: `counts = []`, no columns — after a collapsing `measure_all`, whose sample map is empty. -/
inductive ZeroVec where
  | fresh | poisoned | empty
deriving DecidableEq, Repr

/-- A run with zero shots.  Every guard computed before the per-shot loops (length checks, the masks
`1 << cbit`) is still evaluated: it is the outcome of `stepShot` on a dummy shot that carries the
basis state.  On top of that (D9):
* a conditional gate — and the vector backend's `reset`, which is measure + conditional X — reaches
  `collect_conditional_ranges(&[0], &[])` and its `control[0]` index panic while `counts = [0]`;
* on the vector backend `measure_all`/`peek_all` of a poisoned column panic in
  `WeightedIndex::new(..).unwrap()`; once `counts = []` nothing panics any more. -/
def runEmpty (be : Backend) (nq : Nat) : List Op → ZeroVec → Shot → Res Unit
  | [], _, _ => .ok ()
  | op :: ops, z, s =>
    match stepShot be nq op s with
    | .err c p => .err c p
    | .panic site =>
      -- the per-shot shifts of the control gather are not evaluated without shots
      (match op with
       | .cond .. => if be == .vector && z == .empty then runEmpty be nq ops z s
                     else .panic "collect_conditional_ranges control[0]"
       | _ => .panic site)
    | .ok s' =>
      match be, op with
      | .stabilizer, .cond .. => .panic "collect_conditional_ranges control[0]"
      | .stabilizer, _ => runEmpty be nq ops z s'
      | .vector, .cond .. | .vector, .reset _ =>
        if z == .empty then runEmpty be nq ops z s' else .panic "collect_conditional_ranges control[0]"
      | .vector, .measure q _ =>
        runEmpty be nq ops (if z == .fresh && outcomeOf s.qs q then .poisoned else z) s'
      | .vector, .measureAll _ =>
        if z == .poisoned then .panic "WeightedIndex::new unwrap" else runEmpty be nq ops .empty s'
      | .vector, .peekAll _ =>
        if z == .poisoned then .panic "WeightedIndex::new unwrap" else runEmpty be nq ops z s'
      | .vector, .resetAll => runEmpty be nq ops .fresh s'
      | .vector, _ => runEmpty be nq ops z s'

/-- `execute_with(nr_shots, ..)`: the register is zeroed, all shots start in |0…0⟩.  Result: for
every shot its trace.  The builder checks come first (a rejected operation is never added). -/
def run (be : Backend) (nq nc nshots : Nat) (ops : List Op) : Res (List (List Shot)) :=
  match buildAll nq nc ops with
  | .err c p => .err ("build:" ++ c) p
  | .panic s => .panic s
  | .ok () =>
    if nshots = 0 then (runEmpty be nq ops .fresh (initShot nq)).map (fun _ => [])
    else Res.mapM (runShot be nq ops) (List.replicate nshots (initShot nq))

/-! ### histogram views -/

/-- `*res.entry(key).or_insert(0) += 1` on an association list (the hash map up to order) -/
def bump {κ} [BEq κ] (k : κ) : List (κ × Nat) → List (κ × Nat)
  | [] => [(k, 1)]
  | (k', c) :: rest => if k' == k then (k', c + 1) :: rest else (k', c) :: bump k rest

/-- `Circuit::histogram` (up to the iteration order of the hash map) -/
def histogram (cs : List Word) : List (Word × Nat) := cs.foldl (fun h k => bump k h) []

/-- `res[key as usize] += 1`; `none` = index panic -/
def bumpVec (v : List Nat) (k : Nat) : Option (List Nat) :=
  if h : k < v.length then some (v.set k (v[k] + 1)) else none

def vecLoop : List Word → List Nat → Option (List Nat)
  | [], v => some v
  | k :: ks, v => match bumpVec v k.toNat with
    | none => none
    | some v' => vecLoop ks v'

/-- `Circuit::histogram_vec`: `vec![0; 1 << nr_cbits]` (`usize` shift: `nr_cbits ≥ 64` panics), then the
loop. -/
def histogramVec (nc : Nat) (cs : List Word) : Option (List Nat) :=
  if nc < 64 then vecLoop cs (List.replicate (2 ^ nc) 0) else none

/-- `format!("{:0width$b}", key, width = nr_cbits)`: the binary digits of `key`, most significant
first, without leading zeros (`"0"` for 0), left-padded with `'0'` to at least `width` characters. -/
def fmtBin (width : Nat) (k : Nat) : List Char :=
  let d := Nat.toDigits 2 k
  List.replicate (width - d.length) '0' ++ d

/-- `Circuit::histogram_string` (keys as character lists, up to hash-map order) -/
def histogramString (nc : Nat) (cs : List Word) : List (List Char × Nat) :=
  cs.foldl (fun h k => bump (fmtBin nc k.toNat) h) []

end Q1t.Register

import Q1t.Model.Sim
/-!
Model of the `Circuit` object as a history machine (C09): the optional quantum and classical state,
the calls `execute`, `execute_with`, `reexecute`, result queries, and gate parameters that are either
direct values or references to cells of a store read at (re-)execution time
(`gates::Parameter::{Direct, Reference, FFIRef}`).
-/
namespace Q1t.CircuitObj
open Q1t Q1t.Sim

/-- `gates::Parameter` over a value type `V`; `ref` covers both `Reference` and `FFIRef` -/
inductive Param (V : Type) where
  | direct (v : V)
  | ref (cell : Nat)

/-- `Parameter::value()` under the store `σ` -/
def Param.value {V} (σ : Nat → V) : Param V → V
  | .direct v => v
  | .ref c => σ c

mutual
/-- read every parameter of a gate term under the store -/
def resolve {V} (σ : Nat → V) : GateTerm (Param V) → GateTerm V
  | .H => .H | .X => .X | .Y => .Y | .Z => .Z | .S => .S | .Sdg => .Sdg | .T => .T | .Tdg => .Tdg
  | .V => .V | .Vdg => .Vdg | .I => .I
  | .RX θ => .RX (θ.value σ) | .RY θ => .RY (θ.value σ) | .RZ l => .RZ (l.value σ)
  | .U1 l => .U1 (l.value σ) | .U2 φ l => .U2 (φ.value σ) (l.value σ)
  | .U3 θ φ l => .U3 (θ.value σ) (φ.value σ) (l.value σ)
  | .CX => .CX | .CY => .CY | .CZ => .CZ | .Swap => .Swap
  | .C g => .C (resolve σ g)
  | .Kron g0 g1 => .Kron (resolve σ g0) (resolve σ g1)
  | .Composite name n ops => .Composite name n (resolveOps σ ops)
  | .Loop label iters name n body => .Loop label iters name n (resolveOps σ body)
def resolveOps {V} (σ : Nat → V) : OpList (Param V) → OpList V
  | .nil => .nil
  | .cons g bits rest => .cons (resolve σ g) bits (resolveOps σ rest)
end

def resolveOp {V} (σ : Nat → V) : COp (Param V) → COp V
  | .gate g bits => .gate (resolve σ g) bits
  | .cond control target g bits => .cond control target (resolve σ g) bits
  | .reset q => .reset q | .resetAll => .resetAll
  | .measure q c b => .measure q c b | .measureAll cbits b => .measureAll cbits b
  | .peek q c b => .peek q c b | .peekAll cbits b => .peekAll cbits b
  | .barrier bits => .barrier bits

/-- the mutable part of a `Circuit`: `q_state`, `c_state` -/
structure Obj (S : Type) where
  q : Option S
  c : Option (List Nat)

structure Machine (S V : Type) where
  obj : Obj S
  store : Nat → V

inductive Call (S V : Type) where
  /-- `execute_with(nr_shots, rng, q_state)`; `execute`/`execute_with_rng` build `q_state` themselves -/
  | executeWith (nrShots : Nat) (st : S)
  | reexecute
  | setParam (cell : Nat) (v : V)

variable {W S V : Type} (B : Backend W V S) (ops : List (COp (Param V)))

/-- `reexecute_with_rng`: `NotExecuted` unless both states are present; otherwise run the operations
from the stored states, reading reference parameters from the store as it is now -/
def reexecute (m : Machine S V) : Prog W (Machine S V) :=
  match m.obj.c, m.obj.q with
  | some c, some q =>
      (execOps B q c (ops.map (resolveOp m.store))).bind fun (q', c') =>
        .pure { m with obj := { q := some q', c := some c' } }
  | _, _ => Prog.err .notExecuted

/-- one call of the history -/
def step (m : Machine S V) : Call S V → Prog W (Machine S V)
  | .executeWith n st =>
      reexecute B ops { m with obj := { q := some st, c := some (List.replicate n 0) } }
  | .reexecute => reexecute B ops m
  | .setParam cell v => .pure { m with store := fun k => if k = cell then v else m.store k }

/-- result queries (`cstate`, `histogram*`): `NotExecuted` before the first execution -/
def query (m : Machine S V) : Except SimErr (List Nat) :=
  match m.obj.c with
  | some c => .ok c
  | none => .error .notExecuted

end Q1t.CircuitObj

import Q1t.Model.Builders
import Q1t.Model.Latex
/-!
C18: what the three exporters do with a circuit the builders accepted, as an *outcome class*
(`ok` / `err` / `panic`), import-free and executable.

* `Circuit::open_qasm` and `Circuit::c_qasm` (`/repo/src/circuit.rs`) with the per-gate
  `open_qasm`/`c_qasm`/`conditional_*` of `/repo/src/gates/*.rs`, reduced to the sites that decide the
  class: slice/array indexing (`bits[0]`, `&bits[..n0]`, `qbit_names[qbit]`, `cbit_names[idx]`), shifts by
  a possibly large amount, `check_nr_bits`, the error returns of the circuit-level code.  The text is NOT
  modelled here (that is C11 / C12).
* `toLatexCirc`: the circuit as the LaTeX model `Q1t.Latex` (C13) reads it, so that
  `Latex.circuitLatex (toLatexCirc c)` is the model of `Circuit::latex()` on a built circuit.

Gate terms: the primitives, the *named* controlled gates (`CH … CCZ`, parsed as `C …`; the generic
`C<G>` has no QASM translation and cannot be added to a `Circuit`), `Kron`, `Composite`, `Loop`.
-/
namespace Q1t.ExportClass
open Q1t Q1t.Sim Q1t.Builders

inductive Cls | ok | err | panic | unsupported
deriving DecidableEq, Repr

def Cls.andThen (a : Cls) (b : Unit → Cls) : Cls :=
  match a with
  | .ok => b ()
  | c => c

variable {P : Type}

/-- `bits[b]` for every local index of a sub-gate (`op.bits.iter().map(|&b| bits[b])`); index panic when
a local index is not below the number of operands the composite received -/
def subBits (bits : List Nat) : List Nat → Option (List Nat)
  | [] => some []
  | b :: bs => match bits[b]?, subBits bits bs with
    | some x, some xs => some (x :: xs)
    | _, _ => none

/-- does the default `conditional_c_qasm` find a blank in the unconditional text?  Only the "plain"
named controlled gates without parameters (`ch`, `cv`, `cvdg`) on an empty operand list have none -/
def condSplitFails : GateTerm P → List Nat → Bool
  | .C .H, [] | .C .V, [] | .C .Vdg, [] => true
  | _, _ => false

mutual
/-- `gate.open_qasm` (`cq = false`) / `gate.c_qasm` (`cq = true`), and their `conditional_…` forms
(`cond = true`), on names that cover every index below `nr_qbits` (which the builders guarantee for the
operands of the circuit operation) -/
def gateCls (cq cond : Bool) : GateTerm P → List Nat → Cls
  | .CX, bits | .CY, bits | .CZ, bits => if bits.length ≠ 2 then .err else .ok   -- `check_nr_bits` first
  | .Swap, bits => if bits.length < 2 then .panic else .ok                       -- `bits[0]`, `bits[1]`
  | .C g, bits =>
    -- `declare_controlled_qasm!`: loops over `bits`, never indexes; the default `conditional_c_qasm` splits at a blank
    if cq && cond && condSplitFails (.C g) bits then .err else .ok
  | .Kron g0 g1, bits =>
    let n0 := Gate.nrBits g0
    if bits.length < n0 then .panic                  -- `&bits[..n0]`
    else (gateCls cq cond g0 (bits.take n0)).andThen fun _ => gateCls cq cond g1 (bits.drop n0)
  | .Composite _ _ ops, bits => opsGateCls cq cond ops bits       -- no arity check of its own
  | .Loop _ iters _ _ body, bits =>
    -- `open_qasm` and both conditional forms return the empty text for 0 iterations; `c_qasm` formats the body always
    if iters = 0 && (!cq || cond) then .ok else opsGateCls cq cond body bits
  | _, bits => if bits.isEmpty then .panic else .ok  -- the one-qubit gates: `bits[0]`
/-- the loop over the sub-gates of a composite -/
def opsGateCls (cq cond : Bool) : OpList P → List Nat → Cls
  | .nil, _ => .ok
  | .cons g sb rest, bits =>
    match subBits bits sb with
    | none => .panic
    | some gb => (gateCls cq cond g gb).andThen fun _ => opsGateCls cq cond rest bits
end

/-- `is_full_register` -/
def isFullRegister (nc : Nat) (control : List Nat) : Bool :=
  control.length == nc && (List.range nc).all fun i => control.contains i

/-- the identity test `len == n && all(|(i, &b)| i == b)` of `open_qasm` -/
def isIdentity (n : Nat) (l : List Nat) : Bool := l.length == n && l.zipIdx.all fun (b, i) => b == i

/-- one operation of `Circuit::open_qasm` -/
def oqOp (nq nc : Nat) : COp P → Cls
  | .gate g bits => gateCls false false g bits
  | .cond control _ g bits =>
    if control.isEmpty then gateCls false false g bits
    else if !isFullRegister nc control then .err              -- IncompleteConditionRegister
    else if 64 < control.length then .panic                   -- `target >> tshift`, `<< sshift` on u64
    else gateCls false true g bits
  | .measure _ _ _ => .ok
  | .measureAll cbits _ =>
    if isIdentity nc cbits then .ok                           -- `measure q -> b`
    else if nq < cbits.length then .panic                     -- `qbit_names[qbit]`
    else .ok
  | .peek _ _ _ | .peekAll _ _ => .err
  | .reset _ | .resetAll | .barrier _ => .ok

/-- one operation of `Circuit::c_qasm`; `cbit_names` has `nr_qbits` entries -/
def cqOp (nq : Nat) : COp P → Cls
  | .gate g bits => gateCls true false g bits
  | .cond control _ g bits =>
    if control.isEmpty then gateCls true false g bits
    else if 64 < control.length ∨ control.any (fun idx => nq ≤ idx) then .panic  -- `1 << shift`, `cbit_names[idx]`
    else gateCls true true g bits
  | .measure q c _ => if q ≠ c then .err else .ok             -- NoClassicalRegister
  | .measureAll cbits _ => if cbits.zipIdx.all (fun (b, i) => b == i) then .ok else .err
  | .peek _ _ _ | .peekAll _ _ => .err
  | .reset _ | .resetAll | .barrier _ => .ok

def opsCls (f : COp P → Cls) : List (COp P) → Cls
  | [] => .ok
  | op :: rest => (f op).andThen fun _ => opsCls f rest

/-- outcome class of `Circuit::open_qasm()` -/
def openQasmCls (c : Circ P) : Cls := opsCls (oqOp c.nq c.nc) c.ops

/-- outcome class of `Circuit::c_qasm()` -/
def cQasmCls (c : Circ P) : Cls := opsCls (cqOp c.nq) c.ops

/-! ### the circuit as the LaTeX model reads it -/

mutual
/-- how each gate term draws itself (labels of parametrised boxes carry no parameter text: the class of
the outcome does not depend on it) -/
def toLatexGate : GateTerm P → Spec.QcGrid.Gate
  | .H => .box "H" 1 | .X => .x | .Y => .box "Y" 1 | .Z => .z
  | .S => .box "S" 1 | .Sdg => .box "S^\\dagger" 1 | .T => .box "T" 1 | .Tdg => .box "T^\\dagger" 1
  | .V => .box "V" 1 | .Vdg => .box "V^\\dagger" 1 | .I => .i
  | .RX _ => .box "R_x" 1 | .RY _ => .box "R_y" 1 | .RZ _ => .box "R_z" 1
  | .U1 _ => .box "U_1" 1 | .U2 _ _ => .box "U_2" 1 | .U3 _ _ _ => .box "U_3" 1
  | .CX => .c .x | .CY => .c (.box "Y" 1) | .CZ => .c .z | .Swap => .swap
  | .C g => .c (toLatexGate g)
  | .Kron g0 g1 => .kron (toLatexGate g0) (toLatexGate g1)
  | .Composite name n ops => .comp name n (toLatexSubs ops)
  | .Loop _ iters name n body => .loop iters (.comp name n (toLatexSubs body))
def toLatexSubs : OpList P → Spec.QcGrid.Subs
  | .nil => .nil
  | .cons g bits rest => .cons (toLatexGate g) bits (toLatexSubs rest)
end

def toLatexBasis : Basis → Spec.QcGrid.Basis
  | .X => .X | .Y => .Y | .Z => .Z

def toLatexOp : COp P → Spec.QcGrid.Op
  | .gate g bits => .gate (toLatexGate g) bits
  | .cond control target g bits => .cond control target (toLatexGate g) bits
  | .reset q => .reset q
  | .resetAll => .resetAll
  | .measure q c b => .measure q c (toLatexBasis b)
  | .measureAll cbits b => .measureAll cbits (toLatexBasis b)
  | .peek q c b => .peek q c (toLatexBasis b)
  | .peekAll cbits b => .peekAll cbits (toLatexBasis b)
  | .barrier bits => .barrier bits

def toLatexCirc (c : Circ P) : Spec.QcGrid.Circ := ⟨c.nq, c.nc, c.ops.map toLatexOp⟩

/-- outcome of `Circuit::latex()` without the text -/
def latexOutcome (c : Circ P) : Latex.Res Unit :=
  match Latex.circuitLatex (toLatexCirc c) with
  | .ok _ => .ok ()
  | .err e => .err e
  | .panic => .panic

end Q1t.ExportClass

import Q1t.Spec.QcGrid
import Q1t.Gen.LatexGates
/-!
# Model of the LaTeX (qcircuit) exporter — C13

Mirrors `/repo/src/export/latex.rs` (`LatexExportState`, field for field, every emitter),
`Circuit::latex` in `/repo/src/circuit.rs`, `support::get_ranges`, the default `Latex::latex`, and
every gate's `impl Latex` in `/repo/src/gates/*.rs`, *as they are*: error returns are `Res.err`,
`panic!`, slice/index failures, `unwrap` on `None` and `usize` underflow are `Res.panic`.

Differences of representation (not of behaviour):
* cell contents are symbols of the vocabulary `Spec.QcGrid.Sym`; the text the Rust code formats is
  `symText` of the symbol, and `code` prints exactly the Rust text;
* the matrix is stored with the LAST column first (`rcols`), ranges / open loops with the innermost first;
* every cell carries a ghost provenance `prov` (index of the circuit operation that wrote it), and
  the state a ghost counter `cur`; `code` erases both.
Core Lean only.
-/
namespace Q1t.Latex
open Q1t.Spec.QcGrid

/-! ## Outcomes -/

inductive Err where
  | invalidQBit (b : Nat)
  | invalidCBit (b : Nat)
  | invalidNrBits (n expected : Nat)
  | notImplemented
  | rangeAlreadyOpen
  | cantCloseLoop
  deriving DecidableEq, Repr

inductive Res (α : Type) where
  | ok (a : α)
  | err (e : Err)
  | panic
  deriving Repr, DecidableEq

namespace Res
@[inline] def bind {α β} (r : Res α) (f : α → Res β) : Res β :=
  match r with
  | ok a => f a
  | err e => err e
  | panic => panic
@[simp] theorem bind_ok {α β} (a : α) (f : α → Res β) : (ok a).bind f = f a := rfl
@[simp] theorem bind_err {α β} (e : Err) (f : α → Res β) : (err e : Res α).bind f = err e := rfl
@[simp] theorem bind_panic {α β} (f : α → Res β) : (panic : Res α).bind f = panic := rfl
theorem bind_eq_ok {α β} {r : Res α} {f : α → Res β} {b : β} :
    r.bind f = ok b ↔ ∃ a, r = ok a ∧ f a = ok b := by
  cases r <;> simp [bind]
end Res

infixl:55 " >>== " => Res.bind

/-! ## Text of a symbol (the `format!` strings of the emitters) -/

def qwxText : Option Int → String
  | none => ""
  | some k => " \\qwx[" ++ toString k ++ "]"

def symText : Sym → String
  | .qw => "\\qw"
  | .cw => "\\cw"
  | .gate l q => "\\gate{" ++ l ++ "}" ++ qwxText q
  | .multigate k l q => "\\multigate{" ++ toString k ++ "}{" ++ l ++ "}" ++ qwxText q
  | .ghost l => "\\ghost{" ++ l ++ "}"
  | .ctrl k => "\\ctrl{" ++ toString k ++ "}"
  | .targ => "\\targ"
  | .control => "\\control \\qw"
  | .qswap q => "\\qswap" ++ qwxText q
  | .meter none => "\\meter"
  | .meter (some b) => "\\meterB{" ++ b ++ "}"
  | .cwx k => "\\cw \\cwx[" ++ toString k ++ "]"
  | .cctrl k => "\\cctrl{" ++ toString k ++ "}"
  | .cctrlo k => "\\cctrlo{" ++ toString k ++ "}"
  | .reset => "\\push{~\\ket{0}~} \\ar @{|-{}} [0,-1]"
  | .barrier k => "\\qw \\barrier{" ++ toString k ++ "}"
  | .cds k l => "\\cds{" ++ toString k ++ "}{" ++ l ++ "}"
  | .lstick l => "\\lstick{" ++ l ++ "}"
  | .empty => ""

/-! ## `LatexExportState` -/

structure Cell where
  sym : Sym
  prov : Nat
  deriving DecidableEq, Repr, Inhabited

abbrev Column := List (Option Cell)

structure St where
  nq : Nat
  nc : Nat
  addInit : Bool
  expand : Bool
  /-- `matrix`, last column first -/
  rcols : List Column
  inUse : List Bool
  controlled : Bool
  /-- `reserved_ranges`, innermost first -/
  ranges : List (Nat × Nat)
  /-- `loops` in push order -/
  loops : List (Nat × Nat × Nat)
  /-- `open_loops`, innermost first -/
  openLoops : List (Nat × Nat)
  /-- ghost: index of the circuit operation being drawn -/
  cur : Nat
  deriving Repr, DecidableEq

def St.new (nq nc : Nat) : St :=
  { nq, nc, addInit := true, expand := true, rcols := [], inUse := List.replicate (nq + nc) true,
    controlled := false, ranges := [], loops := [], openLoops := [], cur := 0 }

def St.total (s : St) : Nat := s.nq + s.nc

def addColumn (s : St) : St :=
  { s with rcols := List.replicate s.total none :: s.rcols, inUse := List.replicate s.total false }

def getBitIndices (s : St) (qbits : List Nat) (cbits : Option (List Nat)) : Res (List Nat) :=
  match qbits.find? (fun b => b ≥ s.nq) with
  | some b => .err (.invalidQBit b)
  | none =>
    match cbits with
    | none => .ok qbits
    | some cbs =>
      match cbs.find? (fun b => b ≥ s.nc) with
      | some b => .err (.invalidCBit b)
      | none => .ok (qbits ++ cbs.map (s.nq + ·))

/-- `bits.iter().any(|&b| self.in_use[b])` — short-circuiting, index panic when out of range. -/
def anyInUse (inUse : List Bool) : List Nat → Res Bool
  | [] => .ok false
  | b :: bs =>
    match inUse[b]? with
    | none => .panic
    | some true => .ok true
    | some false => anyInUse inUse bs

def reserve (qbits : List Nat) (cbits : Option (List Nat)) (s : St) : Res St :=
  getBitIndices s qbits cbits >>== fun bits =>
  anyInUse s.inUse bits >>== fun used =>
  .ok (if used then addColumn s else s)

def reserveAll (s : St) : St :=
  if s.inUse.contains true then addColumn s else s

/-- `in_use[first..=last]` -/
def sliceIncl (l : List Bool) (first last : Nat) : List Bool := (l.drop first).take (last + 1 - first)

def startRangeOp (qbits : List Nat) (cbits : Option (List Nat)) (s : St) : Res St :=
  getBitIndices s qbits cbits >>== fun bits =>
  match bits with
  | [] => .ok s
  | b :: bs =>
    let first := bs.foldl min b
    let last := bs.foldl max b
    match s.ranges with
    | [] =>
      if last < s.inUse.length then
        let s' := if (sliceIncl s.inUse first last).contains true then addColumn s else s
        .ok { s' with ranges := [(first, last)] }
      else .panic
    | (ofirst, olast) :: _ =>
      if ofirst ≤ first ∧ olast ≥ last then .ok { s with ranges := (first, last) :: s.ranges }
      else .err .rangeAlreadyOpen

/-- `for bit in first..=last { in_use[bit] = true }` -/
def markRange (l : List Bool) (first : Nat) : Nat → Option (List Bool)
  | 0 => some l
  | n+1 => if first < l.length then markRange (l.set first true) (first+1) n else none

def endRangeOp (s : St) : Res St :=
  match s.ranges with
  | [] => .ok s
  | (first, last) :: rest =>
    match markRange s.inUse first (last + 1 - first) with
    | some iu => .ok { s with inUse := iu, ranges := rest }
    | none => .panic

def setField (bit : Nat) (sym : Sym) (s : St) : Res St :=
  (if s.ranges.isEmpty then reserve [bit] none s else .ok s) >>== fun s =>
  match s.rcols with
  | [] => .panic
  | col :: rest =>
    if bit < col.length ∧ bit < s.inUse.length then
      .ok { s with rcols := col.set bit (some ⟨sym, s.cur⟩) :: rest, inUse := s.inUse.set bit true }
    else .panic

def setMeasurement (qbit cbit : Nat) (basis : Option String) (s : St) : Res St :=
  let cbitIdx := s.nq + cbit
  startRangeOp [qbit] (some [cbit]) s >>== fun s =>
  setField qbit (.meter basis) s >>== fun s =>
  setField cbitIdx (.cwx ((qbit : Int) - (cbitIdx : Int))) s >>== fun s =>
  endRangeOp s

def setReset (qbit : Nat) (s : St) : Res St := setField qbit .reset s

/-- lexicographic `≤` on pairs, and insertion sort (`bp.sort()`) -/
def pairLe (a b : Nat × Nat) : Bool := a.1 < b.1 || (a.1 == b.1 && a.2 ≤ b.2)
def insertPair (a : Nat × Nat) : List (Nat × Nat) → List (Nat × Nat)
  | [] => [a]
  | b :: bs => if pairLe a b then a :: b :: bs else b :: insertPair a bs
def sortPairs : List (Nat × Nat) → List (Nat × Nat)
  | [] => []
  | a :: as => insertPair a (sortPairs as)

def condLoop (target : Nat) : List (Nat × Nat) → Nat → St → Res St
  | [], _, s => .ok s
  | (bit, pos) :: rest, pbit, s =>
    if pos ≥ 64 then .panic   -- `1 << pos` on u64
    else
      let off : Int := (pbit : Int) - (bit : Int)
      let sym := if target.testBit pos then Sym.cctrl off else Sym.cctrlo off
      setField bit sym s >>== fun s => condLoop target rest bit s

def setCondition (control : List Nat) (target : Nat) (qbits : List Nat) (s : St) : Res St :=
  match qbits.find? (fun b => b ≥ s.nq) with
  | some b => .err (.invalidQBit b)
  | none =>
    match control.find? (fun b => b ≥ s.nc) with
    | some b => .err (.invalidCBit b)
    | none =>
      match qbits with
      | [] => .ok s
      | q :: qs =>
        let pbit := qs.foldl max q
        let bp := sortPairs (control.zipIdx.map fun (idx, pos) => (s.nq + idx, pos))
        condLoop target bp pbit s

/-! `support::get_ranges` -/

def insertNat (a : Nat) : List Nat → List Nat
  | [] => [a]
  | b :: bs => if a ≤ b then a :: b :: bs else b :: insertNat a bs
def sortNat : List Nat → List Nat
  | [] => []
  | a :: as => insertNat a (sortNat as)

def rangesGo (first last : Nat) (acc : List (Nat × Nat)) : List Nat → List (Nat × Nat)
  | [] => (acc.reverse ++ [(first, last)])
  | nr :: rest =>
    if nr = last + 1 then rangesGo first (last + 1) acc rest
    else rangesGo nr nr ((first, last) :: acc) rest

/-- `none` = index panic on the empty list (`snrs[0]`). -/
def getRanges (nrs : List Nat) : Option (List (Nat × Nat)) :=
  match sortNat nrs with
  | [] => none
  | a :: rest => some (rangesGo a a [] rest)

/-- `for bit in first+1..last+1 { set_field(bit, \ghost{desc}) }` -/
def ghosts (desc : String) (bit : Nat) : Nat → St → Res St
  | 0, s => .ok s
  | n+1, s => setField bit (.ghost desc) s >>== ghosts desc (bit+1) n

def drawRange (first last : Nat) (desc : String) (qwx : Option Int) (s : St) : Res St :=
  if last = first then setField first (.gate desc qwx) s
  else
    setField first (.multigate (last - first) desc qwx) s >>== fun s =>
    ghosts desc (first + 1) (last - first) s

def blockRest (desc : String) : List (Nat × Nat) → Nat → St → Res St
  | [], _, s => .ok s
  | (first, last) :: more, prevLast, s =>
    drawRange first last desc (some ((prevLast : Int) - (first : Int))) s >>== fun s =>
    blockRest desc more last s

def addBlockGate (qbits : List Nat) (desc : String) (s : St) : Res St :=
  match getRanges qbits with
  | none => .panic
  | some [] => .ok s
  | some ((first, last) :: more) =>
    startRangeOp qbits none s >>== fun s =>
    drawRange first last desc none s >>== fun s =>
    blockRest desc more last s >>== fun s =>
    endRangeOp s

def startLoop (count : Nat) (s : St) : Res St :=
  let s := reserveAll s
  match s.rcols.length with
  | 0 => .panic        -- `self.matrix.len() - 1`
  | n+1 => .ok { s with openLoops := (n, count) :: s.openLoops }

def endLoop (s : St) : Res St :=
  match s.openLoops with
  | [] => .err .cantCloseLoop
  | (start, count) :: rest =>
    match s.rcols.length with
    | 0 => .panic
    | n+1 => .ok (reserveAll { s with openLoops := rest, loops := s.loops ++ [(start, n, count)] })

def addCds (bit count : Nat) (label : String) (s : St) : Res St :=
  setField bit (.cds count label) (reserveAll s) >>== fun s => .ok (reserveAll s)

def barrierLoop : List (Nat × Nat) → St → Res St
  | [], s => .ok s
  | (first, last) :: more, s => setField first (.barrier (last - first)) s >>== barrierLoop more

def setBarrier (qbits : List Nat) (s : St) : Res St :=
  match qbits.find? (fun b => b ≥ s.nq) with
  | some b => .err (.invalidQBit b)
  | none =>
    if qbits.isEmpty then .ok s       -- a barrier on no qubits draws nothing (no column either)
    else
    match getRanges qbits with
    | none => .panic
    | some ranges => barrierLoop ranges (addColumn s)

/-! ## `code` -/

def rep (n : Nat) (t : String) : String := String.join (List.replicate n t)

/-- The cell of wire `i` in a column: explicit content or the default wire; `none` = index panic. -/
def cellOf (nq i : Nat) (col : Column) : Option Sym :=
  match col[i]? with
  | none => none
  | some (some c) => some c.sym
  | some none => some (if i < nq then .qw else .cw)

def mapOpt {α β} (f : α → Option β) : List α → Option (List β)
  | [] => some []
  | a :: as => match f a, mapOpt f as with
    | some b, some bs => some (b :: bs)
    | _, _ => none

/-- The cells of wire row `i` after the label: one per column, plus the closing wire column. -/
def gridRow (s : St) (i : Nat) : Option (List Sym) :=
  (mapOpt (cellOf s.nq i) s.rcols.reverse).map fun cells =>
    if s.inUse.contains true then cells ++ [if i < s.nq then Sym.qw else Sym.cw] else cells

/-- The grid of symbols that `code` prints (without the label column). -/
def grid (s : St) : Option (List (List Sym)) := mapOpt (gridRow s) (List.range s.total)

def rowLabel (s : St) (i : Nat) : String :=
  if s.addInit then (if i < s.nq then "    \\lstick{\\ket{0}}" else "    \\lstick{0}") else "    "

def rowText (s : St) (i : Nat) (cells : List Sym) : String :=
  rowLabel s i ++ String.join (cells.map fun c => " & " ++ symText c) ++ " \\\\\n"

def braceText (start stop count : Nat) : String :=
  "\\mbox{} \\POS\"2," ++ toString (start+2) ++ "\".\"2," ++ toString (start+2) ++ "\".\"2," ++
  toString (stop+2) ++ "\".\"2," ++ toString (stop+2) ++ "\"!C*+<.7em>\\frm{^\\}},+U*++!D{" ++
  toString count ++ "\\times}"

/-- Header cells; `none` = `start - prev_idx` underflows. -/
def headerText : List (Nat × Nat × Nat) → Nat → Option String
  | [], _ => some ""
  | (start, stop, count) :: more, prev =>
    if start < prev then none
    else (headerText more start).map fun t => rep (start - prev) "& " ++ braceText start stop count ++ t

def code (s : St) : Res String :=
  let hdr : Option String :=
    if s.loops.isEmpty then some ""
    else (headerText s.loops 0).map fun h =>
      "    & " ++ h ++ "\\\\\n" ++ "    " ++ rep s.rcols.length "& " ++ "\\\\\n"
  match hdr with
  | none => .panic
  | some h =>
    match grid s with
    | none => .panic
    | some g =>
      .ok ("\\Qcircuit @C=1em @R=.7em {\n" ++ h ++
        String.join (g.zipIdx.map fun (cells, i) => rowText s i cells) ++ "}\n")

/-! ## Gates -/

def checkNrBits (g : Gate) (bits : List Nat) : Res Unit :=
  if g.nbits ≠ bits.length then .err (.invalidNrBits bits.length g.nbits) else .ok ()

/-- `bits[b]` for every `b` of a sub-gate; index panic when out of range. -/
def subBits (bits : List Nat) : List Nat → Option (List Nat)
  | [] => some []
  | b :: bs => match bits[b]?, subBits bits bs with
    | some x, some xs => some (x :: xs)
    | _, _ => none

mutual
/-- `gate.latex(bits, state)` -/
def latex : Gate → List Nat → St → Res St
  | .box l n, bits, s =>
    checkNrBits (.box l n) bits >>== fun _ => addBlockGate bits l s
  | .x, bits, s =>
    checkNrBits .x bits >>== fun _ =>
    match bits with
    | b :: _ => setField b (if s.controlled then .targ else .gate "X" none) s
    | [] => .panic
  | .z, bits, s =>
    checkNrBits .z bits >>== fun _ =>
    match bits with
    | b :: _ => setField b (if s.controlled then .control else .gate "Z" none) s
    | [] => .panic
  | .i, bits, s =>
    checkNrBits .i bits >>== fun _ =>
    match bits with
    | b :: _ => setField b .qw s
    | [] => .panic
  | .swap, bits, s =>
    checkNrBits .swap bits >>== fun _ =>
    match bits with
    | x0 :: x1 :: _ =>
      let b0 := if x1 < x0 then x1 else x0
      let b1 := if x1 < x0 then x0 else x1
      startRangeOp bits none s >>== fun s =>
      setField b0 (.qswap (some ((b1 - b0 : Nat) : Int))) s >>== fun s =>
      setField b1 (.qswap none) s >>== fun s =>
      endRangeOp s
    | _ => .panic
  | .c g, bits, s =>
    checkNrBits (.c g) bits >>== fun _ =>
    startRangeOp bits none s >>== fun s =>
    match bits with
    | [] => .panic
    | _ :: [] => .panic         -- `bits[1..].iter().min().unwrap()`
    | control :: t :: ts =>
      let mn := ts.foldl min t
      let mx := ts.foldl max t
      (if mn > control ∧ mx > control then setField control (.ctrl ((mn - control : Nat) : Int)) s
       else if mn < control ∧ mx < control then setField control (.ctrl ((mx : Int) - (control : Int))) s
       else .panic) >>== fun s =>
      let controlled := s.controlled
      latex g (t :: ts) { s with controlled := true } >>== fun s =>
      endRangeOp { s with controlled := controlled }
  | .kron a b, bits, s =>
    checkNrBits (.kron a b) bits >>== fun _ =>
    latex a (bits.take a.nbits) s >>== fun s =>
    latex b (bits.drop a.nbits) s
  | .comp name n ops, bits, s =>
    checkNrBits (.comp name n ops) bits >>== fun _ =>
    if s.expand then latexSubs ops bits s else addBlockGate bits name s
  | .loop iters body, bits, s =>
    checkNrBits (.loop iters body) bits >>== fun _ =>
    match iters with
    | 0 => .ok s
    | 1 => latex body bits s
    | 2 => latex body bits s >>== fun s => latex body bits s
    | _ =>
      match bits with
      | [] => .panic         -- `bits.iter().min().unwrap()`
      | b :: bs =>
        let mn := bs.foldl min b
        let mx := bs.foldl max b
        startLoop iters s >>== fun s =>
        latex body bits s >>== fun s =>
        addCds mn (mx - mn) "\\cdots" s >>== fun s =>
        latex body bits s >>== fun s =>
        endLoop s
/-- the loop over the sub-gates of a composite -/
def latexSubs : Subs → List Nat → St → Res St
  | .nil, _, s => .ok s
  | .cons g sb rest, bits, s =>
    match subBits bits sb with
    | none => .panic
    | some gbits => latex g gbits s >>== fun s => latexSubs rest bits s
end

/-! ## `Circuit::latex` -/

def basisLabel : Basis → Option String
  | .X => some "X"
  | .Y => some "Y"
  | .Z => none

def measureAllLoop (basis : Option String) : List Nat → Nat → St → Res St
  | [], _, s => .ok s
  | cbit :: rest, qbit, s => setMeasurement qbit cbit basis s >>== measureAllLoop basis rest (qbit+1)

def resetLoop : Nat → Nat → St → Res St
  | _, 0, s => .ok s
  | q, n+1, s => setReset q s >>== resetLoop (q+1) n

def opLatex (nq : Nat) : Op → St → Res St
  | .gate g bits, s => latex g bits s
  | .cond control target g bits, s =>
    startRangeOp bits (some control) s >>== fun s =>
    let controlled := s.controlled
    latex g bits { s with controlled := true } >>== fun s =>
    setCondition control target bits { s with controlled := controlled } >>== fun s =>
    endRangeOp s
  | .measure q c b, s => setMeasurement q c (basisLabel b) s
  | .measureAll cbits b, s => measureAllLoop (basisLabel b) cbits 0 s
  | .peek _ _ _, _ => .err .notImplemented
  | .peekAll _ _, _ => .err .notImplemented
  | .reset q, s => setReset q s
  | .resetAll, s =>
    -- `let qbits: Vec<usize> = (0..self.nr_qbits).collect(); state.start_range_op(&qbits, None)?`
    startRangeOp (List.range nq) none s >>== fun s =>
    resetLoop 0 nq s >>== fun s =>
    endRangeOp s
  | .barrier qbits, s => setBarrier qbits s

def opsLatex (nq : Nat) : List Op → St → Res St
  | [], s => .ok s
  | op :: rest, s => opLatex nq op s >>== fun s => opsLatex nq rest { s with cur := s.cur + 1 }

/-- The export state after all operations. -/
def exportSt (c : Circ) : Res St := opsLatex c.nq c.ops (St.new c.nq c.nc)

/-- `Circuit::latex()` -/
def circuitLatex (c : Circ) : Res String := exportSt c >>== code

/-! ## Library gates by name (table regenerated from the Rust source) -/

def fillFmt (fmt : String) (params : List String) : String :=
  let parts := fmt.splitOn "{}"
  let rec go : List String → List String → String
    | [], _ => ""
    | [p], _ => p
    | p :: ps, [] => p ++ go ps []
    | p :: ps, a :: as => p ++ a ++ go ps as
  go parts params

def lookupKind (name : String) : Option Q1t.Gen.LatexKind :=
  (Q1t.Gen.latexGates.find? fun e => e.1 = name).map (·.2)

/-- Number of display parameters of a library gate. -/
def libArity : Nat → String → Option Nat
  | 0, _ => none
  | f+1, name =>
    match lookupKind name with
    | some (.block _ k _) => some k
    | some (.ctrl inner) => libArity f inner
    | some _ => some 0
    | none => none

/-- The gate term of a library gate with its parameters as displayed (`{:.4}`). -/
def libGate : Nat → String → List String → Option Gate
  | 0, _, _ => none
  | f+1, name, ps =>
    match lookupKind name with
    | some (.block fmt k n) => if ps.length = k then some (.box (fillFmt fmt ps) n) else none
    | some .x => some .x
    | some .z => some .z
    | some .i => some .i
    | some .swap => some .swap
    | some (.ctrl inner) => (libGate f inner ps).map .c
    | none => none

end Q1t.Latex

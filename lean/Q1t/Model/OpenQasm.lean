import Q1t.Model.Gate
import Q1t.Model.Sim
import Q1t.Gen.OpenQasmTemplates
/-!
# Model of the OpenQASM exporter — C11

Mirrors, *as they are*: `Circuit::open_qasm` (`/repo/src/circuit.rs`), the trait defaults of
`/repo/src/export/openqasm.rs`, every gate's `impl OpenQasm` in `/repo/src/gates/*.rs`, the two arms of
`declare_controlled_qasm!` (`/repo/src/gates/controlled.rs`), the `Kron` / `Composite` / `Loop` overrides and
`Display for Parameter`.

Representation (not behaviour):
* A Rust `String` returned by a gate's `open_qasm` / `conditional_open_qasm` is modelled by the list of its
  `;`-separated chunks (`""` is one empty chunk; `a + "; " + b` and `a + ";\n" + b` are list append).  A chunk
  is a list of `if (b == k) ` prefixes and an optional gate application.
* `Circuit::open_qasm` terminates every string with `";\n"`: every chunk becomes one statement `Line`.
* Per-gate text comes from the table `Gen.oqGates` (re-extracted from the source on every run), compiled by
  `compile` (a lexer/parser for the three shapes `format!` / macro template / plain macro arm) into `GateTpl`.
* A displayed `f64` is the opaque `Arg.val v`; its text (Rust's shortest round-trip decimal) is not modelled:
  correspondence (A) compares numeric tokens by value.
* `Res.panic` = slice index out of range / shift overflow.  `Res.err` = the error returned.
Core Lean only.
-/
namespace Q1t.OpenQasm

/-! ## Outcomes -/

inductive Err where
  /-- `ExportError::NotImplemented("OpenQasm", description)` -/
  | notImplemented
  /-- `Error::InvalidNrBits(n, expected, description)` -/
  | invalidNrBits (n expected : Nat)
  /-- `ExportError::ExportPeekInvalid("OpenQasm")` -/
  | peekInvalid
  /-- `ExportError::IncompleteConditionRegister` -/
  | incompleteConditionRegister
  deriving DecidableEq, Repr

inductive Res (α : Type) where
  | ok (a : α)
  | err (e : Err)
  | panic
  deriving Repr, DecidableEq

namespace Res
@[inline] def bind {α β} (r : Res α) (f : α → Res β) : Res β :=
  match r with
  | ok a => f a
  | err e => err e
  | panic => panic
@[inline] def map {α β} (f : α → β) (r : Res α) : Res β := r.bind fun a => ok (f a)
instance : Monad Res where
  pure := Res.ok
  bind := Res.bind
@[simp] theorem bind_ok {α β} (a : α) (f : α → Res β) : (ok a).bind f = f a := rfl
@[simp] theorem bind_err {α β} (e : Err) (f : α → Res β) : (err e : Res α).bind f = err e := rfl
@[simp] theorem bind_panic {α β} (f : α → Res β) : (panic : Res α).bind f = panic := rfl
def ofOption {α} : Option α → Res α
  | some a => ok a
  | none => panic
end Res

/-! ## Gate terms of the exporter

`lib name ps` is a library gate (its translation is looked up in the table by the Rust type name),
`ctrl g` the generic `C<G>` (no `impl OpenQasm`: the trait default answers `NotImplemented`). -/

/-- `gates::Parameter`: the displayed text is the number, or the *name* of a reference parameter -/
inductive QParam (P : Type) where
  | direct (v : P)
  | ref (name : String) (v : P)
  deriving Repr, DecidableEq

def QParam.value {P} : QParam P → P
  | .direct v => v
  | .ref _ v => v

mutual
inductive QGate (P : Type) where
  | lib (name : String) (ps : List (QParam P))
  | ctrl (g : QGate P)
  | kron (g0 g1 : QGate P)
  | composite (name : String) (n : Nat) (ops : QOps P)
  | loop (label : String) (iters : Nat) (name : String) (n : Nat) (body : QOps P)
inductive QOps (P : Type) where
  | nil
  | cons (g : QGate P) (bits : List Nat) (rest : QOps P)
end

inductive QOp (P : Type) where
  | gate (g : QGate P) (bits : List Nat)
  | cond (control : List Nat) (target : Nat) (g : QGate P) (bits : List Nat)
  | reset (q : Nat)
  | resetAll
  | measure (q c : Nat) (b : Sim.Basis)
  | measureAll (cbits : List Nat) (b : Sim.Basis)
  | peek (q c : Nat) (b : Sim.Basis)
  | peekAll (cbits : List Nat) (b : Sim.Basis)
  | barrier (bits : List Nat)

structure QCircuit (P : Type) where
  nq : Nat
  nc : Nat
  ops : List (QOp P)

/-! ## Templates -/

/-- argument expression of a template -/
inductive TArg where
  | lit (n : Nat)
  | pi
  | param (field : String)
  | neg (e : TArg)
  | div (a b : TArg)
  deriving DecidableEq, Repr

/-- one `;`-separated statement of a template: gate name, parenthesised arguments, qubit holes -/
structure TStmt where
  name : String
  args : List TArg
  qargs : List Nat
  deriving DecidableEq, Repr

/-- which Rust code fills the template -/
inductive TKind where
  /-- hand-written `format!` (optionally after `check_nr_bits`): every hole indexes `bit_names[bits[k]]` -/
  | format (check : Option Nat)
  /-- second arm of `declare_controlled_qasm!`: `{i}` replaced for the bits that were given -/
  | template
  /-- first arm: lower-cased name, parenthesised parameters, all bits that were given -/
  | plain
  deriving DecidableEq, Repr

structure GateTpl where
  name : String
  params : List String
  nbits : Nat
  kind : TKind
  stmts : List TStmt
  deriving DecidableEq, Repr

/-! ### compiling the generated strings -/

inductive TTok where
  | id (s : List Char)
  | nat (n : Nat)
  | sym (c : Char)
  | bit (k : Nat)
  | param (f : List Char)
  deriving DecidableEq, Repr

def isAlpha (c : Char) : Bool := ('a' ≤ c && c ≤ 'z') || ('A' ≤ c && c ≤ 'Z') || c == '_'
def isDigit (c : Char) : Bool := '0' ≤ c && c ≤ '9'
def isSpace (c : Char) : Bool := c == ' ' || c == '\n' || c == '\t' || c == '\r'
def digitsVal (ds : List Char) : Nat := ds.foldl (fun a c => a * 10 + (c.toNat - 48)) 0

/-- lexer for the generated template strings (fuel = number of characters) -/
def lexT : Nat → List Char → Option (List TTok)
  | _, [] => some []
  | 0, _ :: _ => none
  | fuel + 1, c :: cs =>
    if isSpace c then lexT fuel cs
    else if isAlpha c then
      let w := c :: cs.takeWhile (fun x => isAlpha x || isDigit x)
      (lexT fuel (cs.dropWhile (fun x => isAlpha x || isDigit x))).map (TTok.id w :: ·)
    else if isDigit c then
      let w := c :: cs.takeWhile isDigit
      (lexT fuel (cs.dropWhile isDigit)).map (TTok.nat (digitsVal w) :: ·)
    else if c == '{' then
      let inner := cs.takeWhile (· != '}')
      match cs.dropWhile (· != '}') with
      | [] => none
      | _ :: rest =>
        if inner.isEmpty then none
        else if inner.all isDigit then (lexT fuel rest).map (TTok.bit (digitsVal inner) :: ·)
        else if inner.all (fun x => isAlpha x || isDigit x) then (lexT fuel rest).map (TTok.param inner :: ·)
        else none
    else (lexT fuel cs).map (TTok.sym c :: ·)

def lexStr (s : List Char) : Option (List TTok) := lexT s.length s

/-- split a token list at every top-level occurrence of the symbol `c` -/
def splitSym (c : Char) : List TTok → List (List TTok)
  | [] => [[]]
  | t :: ts =>
    match splitSym c ts with
    | [] => [[t]]    -- unreachable
    | cur :: rest => if t = TTok.sym c then [] :: cur :: rest else (t :: cur) :: rest

/-- atoms and unary minus -/
def parseUnary : List TTok → Option (TArg × List TTok)
  | .nat n :: r => some (.lit n, r)
  | .id ['p', 'i'] :: r => some (.pi, r)
  | .param f :: r => some (.param (String.ofList f), r)
  | .sym '-' :: .nat n :: r => some (.neg (.lit n), r)
  | .sym '-' :: .id ['p', 'i'] :: r => some (.neg .pi, r)
  | .sym '-' :: .param f :: r => some (.neg (.param (String.ofList f)), r)
  | _ => none

/-- `unary ('/' unary)*`, left associative (the only operators the templates use) -/
def parseDivs (acc : TArg) : Nat → List TTok → Option TArg
  | _, [] => some acc
  | 0, _ => none
  | fuel + 1, .sym '/' :: r =>
    match parseUnary r with
    | some (e, r') => parseDivs (.div acc e) fuel r'
    | none => none
  | _, _ => none

def parseTArg (ts : List TTok) : Option TArg :=
  match parseUnary ts with
  | some (e, r) => parseDivs e r.length r
  | none => none

def qargOf : List TTok → Option Nat
  | [.bit k] => some k
  | _ => none

/-- one statement: `name [ '(' args ')' ] {i} (',' {j})*` (`qargs` may be empty for the plain arm) -/
def parseTStmt : List TTok → Option TStmt
  | .id name :: .sym '(' :: rest =>
    let inner := rest.takeWhile (· ≠ TTok.sym ')')
    match rest.dropWhile (· ≠ TTok.sym ')') with
    | [] => none
    | _ :: after => do
      let args ← (splitSym ',' inner).mapM parseTArg
      let qargs ← (splitSym ',' after).mapM qargOf
      pure ⟨String.ofList name, args, qargs⟩
  | .id name :: after => do
    let qargs ← (splitSym ',' after).mapM qargOf
    pure ⟨String.ofList name, [], qargs⟩
  | _ => none

def parseTStmts (ts : List TTok) : Option (List TStmt) := (splitSym ';' ts).mapM parseTStmt

/-- tokens of a `format!` call: the literal pieces lexed one by one, the holes in between -/
def formatToks : List (List Char) → List Gen.OQArg → Option (List TTok)
  | [p], [] => lexStr p
  | p :: ps, a :: as => do
    let l ← lexStr p
    let r ← formatToks ps as
    let h := match a with
      | .bit k => TTok.bit k
      | .param f => TTok.param f.toList
    pure (l ++ h :: r)
  | _, _ => none

def paramsKnown (params : List String) : TArg → Bool
  | .lit _ | .pi => true
  | .param f => params.contains f
  | .neg e => paramsKnown params e
  | .div a b => paramsKnown params a && paramsKnown params b

/-- `Gen.OQGate` → `GateTpl`; `none` when the generated entry has a shape the model is not written for -/
def compile (g : Gen.OQGate) : Option GateTpl :=
  if g.condOverride then none else
  match g.kind with
  | .format check pieces args => do
    let ts ← formatToks pieces args
    let stmts ← parseTStmts ts
    if stmts.all (fun s => s.args.all (paramsKnown g.params)) then
      pure ⟨g.name, g.params, g.nbits, .format check, stmts⟩
    else none
  | .template tpl => do
    let ts ← lexStr tpl
    let stmts ← parseTStmts ts
    if stmts.all (fun s => s.args.all (paramsKnown g.params)) then
      pure ⟨g.name, g.params, g.nbits, .template, stmts⟩
    else none
  | .plain lname =>
    some ⟨g.name, g.params, g.nbits, .plain, [⟨lname, g.params.map .param, []⟩]⟩

/-- the compiled table (`none` if any entry fails to compile) -/
def compileAll (gs : List Gen.OQGate) : Option (List GateTpl) := gs.mapM compile

/-! ## Output -/

/-- a quantum or classical argument as the exporter names it -/
inductive QRef where
  /-- a whole register (`q`, `b`) -/
  | reg (r : String)
  /-- `r[i]` -/
  | bit (r : String) (i : Nat)
  /-- an unreplaced `{k}` hole of a macro template, which the brace loop evaluates to the number `k` -/
  | raw (k : Nat)
  deriving DecidableEq, Repr

/-- instantiated argument expression -/
inductive Arg (P : Type) where
  | lit (n : Nat)
  | pi
  /-- a displayed `f64` (`Parameter::Direct`, or `FFIRef`) -/
  | val (v : P)
  /-- the *name* of a reference parameter, with its current value (not printed) -/
  | name (s : String) (v : P)
  | neg (e : Arg P)
  | div (a b : Arg P)
  deriving Repr, DecidableEq

structure App (P : Type) where
  name : String
  args : List (Arg P)
  qargs : List QRef
  deriving Repr, DecidableEq

/-- one `;`-separated chunk of the string a gate returns: `if (b == k) ` prefixes, then a gate application or
nothing -/
structure Chunk (P : Type) where
  conds : List Nat
  app : Option (App P)
  deriving Repr, DecidableEq

def Chunk.empty {P} : Chunk P := ⟨[], none⟩

/-- one `;`-terminated statement of the exported program -/
inductive Line (P : Type) where
  /-- `OPENQASM 2.0;` -/
  | version
  /-- `include "qelib1.inc";` -/
  | includeLib
  | qreg (n : Nat)
  | creg (n : Nat)
  | gate (c : Chunk P)
  | measure (q c : QRef)
  | reset (q : QRef)
  | barrier (qs : List QRef)
  deriving Repr, DecidableEq

/-! ## Gates -/

variable {P : Type}

def lookupTpl (tbl : List GateTpl) (name : String) : Option GateTpl := tbl.find? (·.name == name)

/-- value of field `f`: parameters are stored in constructor order -/
def fieldParam (fields : List String) (ps : List (QParam P)) (f : String) : Option (QParam P) :=
  match fields.idxOf? f with
  | some i => ps[i]?
  | none => none

/-- `format!("{}", self.field)` / `self.field.to_string()` -/
def showParam : QParam P → Arg P
  | .direct v => .val v
  | .ref n v => .name n v

def instArg (fields : List String) (ps : List (QParam P)) : TArg → Option (Arg P)
  | .lit n => some (.lit n)
  | .pi => some .pi
  | .param f => (fieldParam fields ps f).map showParam
  | .neg e => (instArg fields ps e).map .neg
  | .div a b => do
      let x ← instArg fields ps a
      let y ← instArg fields ps b
      pure (.div x y)

/-- `bit_names[bits[k]]` -/
def nameOf (names : List QRef) (bits : List Nat) (k : Nat) : Option QRef :=
  match bits[k]? with
  | some b => names[b]?
  | none => none

/-- `open_qasm` of a library gate.  A parameter list that does not fit the table entry is outside the model
(the constructors fix it): `panic`. -/
def libExport (tpl : GateTpl) (ps : List (QParam P)) (names : List QRef) (bits : List Nat) :
    Res (List (Chunk P)) :=
  if ps.length ≠ tpl.params.length then .panic else
  match tpl.kind with
  | .format check =>
    match check with
    | some k => if bits.length ≠ k then .err (.invalidNrBits bits.length k) else go
    | none => go
  | .template =>
    -- `for (i, &bit) in bits.iter().enumerate() { … &bit_names[bit] … }` indexes every given bit
    match bits.mapM (fun b => names[b]?) with
    | none => .panic
    | some given =>
      Res.ofOption (tpl.stmts.mapM fun s => do
        let args ← s.args.mapM (instArg tpl.params ps)
        pure ⟨[], some ⟨s.name, args, s.qargs.map fun k => given.getD k (.raw k)⟩⟩)
  | .plain =>
    match bits.mapM (fun b => names[b]?) with
    | none => .panic
    | some given =>
      Res.ofOption (tpl.stmts.mapM fun s => do
        let args ← s.args.mapM (instArg tpl.params ps)
        pure ⟨[], some ⟨s.name, args, given⟩⟩)
where
  go : Res (List (Chunk P)) :=
    Res.ofOption (tpl.stmts.mapM fun s => do
      let args ← s.args.mapM (instArg tpl.params ps)
      let qargs ← s.qargs.mapM (nameOf names bits)
      pure ⟨[], some ⟨s.name, args, qargs⟩⟩)

/-- default `conditional_open_qasm`: `format!("if ({}) {}", condition, uncond_qasm)` — the prefix lands on the
first chunk only -/
def prefixCond (k : Nat) : List (Chunk P) → List (Chunk P)
  | [] => []
  | c :: cs => { c with conds := k :: c.conds } :: cs

def withCond (cond : Option Nat) (cs : List (Chunk P)) : List (Chunk P) :=
  match cond with
  | none => cs
  | some k => prefixCond k cs

/-- `nr_affected_bits()` -/
def nbits (tbl : List GateTpl) : QGate P → Nat
  | .lib name _ => match lookupTpl tbl name with
    | some t => t.nbits
    | none => 0
  | .ctrl g => 1 + nbits tbl g
  | .kron g0 g1 => nbits tbl g0 + nbits tbl g1
  | .composite _ n _ => n
  | .loop _ _ _ n _ => n

/-- `n` copies of `xs`, appended (`res = body; for _ in 1..n { res += ";\n"; res += &body }`) -/
def repeatAppend {α} (xs : List α) : Nat → List α
  | 0 => []
  | n + 1 => xs ++ repeatAppend xs n

mutual
/-- `open_qasm` (`cond = none`) / `conditional_open_qasm` (`cond = some k` for the condition `b == k`) -/
def exportGate (tbl : List GateTpl) (names : List QRef) (cond : Option Nat) :
    QGate P → List Nat → Res (List (Chunk P))
  | .lib name ps, bits =>
    match lookupTpl tbl name with
    | none => .err .notImplemented
    | some tpl => (libExport tpl ps names bits).map (withCond cond)
  | .ctrl _, _ => .err .notImplemented
  | .kron g0 g1, bits =>
    let n0 := nbits tbl g0
    if bits.length < n0 then .panic else
    (exportGate tbl names cond g0 (bits.take n0)).bind fun op0 =>
    (exportGate tbl names cond g1 (bits.drop n0)).bind fun op1 =>
    .ok (op0 ++ op1)
  | .composite _ _ ops, bits =>
    match ops with
    | .nil => .ok [Chunk.empty]
    | ops => exportOps tbl names cond ops bits
  | .loop _ iters _ _ body, bits =>
    if iters = 0 then .ok [Chunk.empty] else
    let r : Res (List (Chunk P)) := match body with
      | .nil => .ok [Chunk.empty]
      | body => exportOps tbl names cond body bits
    r.bind fun b => .ok (repeatAppend b iters)

/-- the loop of `Composite::open_qasm` over a non-empty list of sub-gates -/
def exportOps (tbl : List GateTpl) (names : List QRef) (cond : Option Nat) :
    QOps P → List Nat → Res (List (Chunk P))
  | .nil, _ => .ok []
  | .cons g sub rest, bits =>
    match sub.mapM (fun b => bits[b]?) with
    | none => .panic
    | some gateBits =>
      (exportGate tbl names cond g gateBits).bind fun q =>
      (exportOps tbl names cond rest bits).bind fun r =>
      .ok (q ++ r)
end

/-! ## Circuit -/

def qbitNames (n : Nat) : List QRef := (List.range n).map (QRef.bit "q")
def cbitNames (n : Nat) : List QRef := (List.range n).map (QRef.bit "b")

/-- `(0..n).all(|i| v[i] == i)` for a list of length `n` -/
def isIdentityList (l : List Nat) : Bool := l.zipIdx.all fun (b, i) => b == i

/-- insertion sort (`scontrol.sort()`) -/
def insertSorted (x : Nat) : List Nat → List Nat
  | [] => [x]
  | y :: ys => if x ≤ y then x :: y :: ys else y :: insertSorted x ys
def sortNat (l : List Nat) : List Nat := l.foldr insertSorted []

/-- `Circuit::is_full_register` -/
def isFullRegister (nc : Nat) (control : List Nat) : Bool :=
  control.length == nc && isIdentityList (sortNat control)

/-- `starget |= ((target >> tshift) & 1) << sshift`; `none` = shift overflow on `u64` -/
def conditionWord (control : List Nat) (target : Nat) : Option Nat :=
  if control.length ≤ 64 ∧ control.all (· < 64) then
    some (control.zipIdx.foldl (fun acc (sshift, tshift) => acc ||| (((target >>> tshift) &&& 1) <<< sshift)) 0)
  else none

def gateLines (cs : List (Chunk P)) : List (Line P) := cs.map Line.gate

/-- the basis change in front of a measurement: `H::new().open_qasm(..)` / `Sdg`, `H` -/
def basisLines (tbl : List GateTpl) (names : List QRef) (bit : Nat) : Sim.Basis → Res (List (Line P))
  | .Z => .ok []
  | .X => (exportGate tbl names none (.lib "H" []) [bit]).map gateLines
  | .Y => (exportGate tbl names none (.lib "Sdg" []) [bit]).bind fun a =>
          (exportGate tbl names none (.lib "H" []) [bit]).bind fun b =>
            (Res.ok (gateLines a ++ gateLines b) : Res (List (Line P)))

/-- the lines one operation appends to `res` -/
def exportOp (tbl : List GateTpl) (nq nc : Nat) : QOp P → Res (List (Line P))
  | .gate g bits => (exportGate tbl (qbitNames nq) none g bits).map gateLines
  | .cond control target g bits =>
    if control.isEmpty then (exportGate tbl (qbitNames nq) none g bits).map gateLines
    else if !isFullRegister nc control then .err .incompleteConditionRegister
    else match conditionWord control target with
      | none => .panic
      | some k => (exportGate tbl (qbitNames nq) (some k) g bits).map gateLines
  | .measure q c b =>
    (basisLines tbl (qbitNames nq) q b).bind fun pre =>
    match (qbitNames nq)[q]?, (cbitNames nc)[c]? with
    | some qn, some cn => .ok (pre ++ [.measure qn cn])
    | _, _ => .panic
  | .measureAll cbits b =>
    (basisLines tbl [QRef.reg "q"] 0 b).bind fun pre =>
    if cbits.length == nc && isIdentityList cbits then .ok (pre ++ [.measure (.reg "q") (.reg "b")])
    else
      match cbits.zipIdx.mapM (fun (cbit, qbit) =>
          match (qbitNames nq)[qbit]?, (cbitNames nc)[cbit]? with
          | some qn, some cn => some (Line.measure qn cn)
          | _, _ => none) with
      | some ls => .ok (pre ++ ls)
      | none => .panic
  | .peek _ _ _ => .err .peekInvalid
  | .peekAll _ _ => .err .peekInvalid
  | .reset q =>
    match (qbitNames nq)[q]? with
    | some qn => .ok [.reset qn]
    | none => .panic
  | .resetAll => .ok [.reset (.reg "q")]
  | .barrier qbits =>
    if qbits.length == nq && isIdentityList qbits then .ok [.barrier [.reg "q"]]
    else match qbits.mapM (fun b => (qbitNames nq)[b]?) with
      | some ns => .ok [.barrier ns]
      | none => .panic

def header (nq nc : Nat) : List (Line P) :=
  [.version, .includeLib] ++ (if nq > 0 then [.qreg nq] else []) ++ (if nc > 0 then [.creg nc] else [])

/-- the `for op in self.ops.iter()` loop: `res` accumulates, the first error / panic returns -/
def exportLoop (tbl : List GateTpl) (nq nc : Nat) : List (QOp P) → List (Line P) → Res (List (Line P))
  | [], res => .ok res
  | op :: ops, res => (exportOp tbl nq nc op).bind fun ls => exportLoop tbl nq nc ops (res ++ ls)

/-- `Circuit::open_qasm` -/
def exportCircuit (tbl : List GateTpl) (c : QCircuit P) : Res (List (Line P)) :=
  exportLoop tbl c.nq c.nc c.ops (header c.nq c.nc)

/-! ## Tokens (what correspondence (A) compares) -/

inductive Tok where
  | id (s : String)
  /-- a numeric literal, by value (IEEE bits of the nearest double) -/
  | num (bits : UInt64)
  | sym (s : String)
  | str (s : String)
  deriving DecidableEq, Repr

def natTok (n : Nat) : Tok := .num (Float.ofNat n).toBits

def QRef.toks : QRef → List Tok
  | .reg r => [.id r]
  | .bit r i => [.id r, .sym "[", natTok i, .sym "]"]
  | .raw k => [natTok k]

def commaSep (xs : List (List Tok)) : List Tok :=
  match xs with
  | [] => []
  | x :: rest => x ++ (rest.map (fun y => Tok.sym "," :: y)).flatten

/-- tokens of an argument; `showVal` gives the tokens of a displayed `f64`, `lexName` those of a parameter name -/
def Arg.toks (showVal : P → List Tok) (lexName : String → List Tok) : Arg P → List Tok
  | .lit n => [natTok n]
  | .pi => [.id "pi"]
  | .val v => showVal v
  | .name s _ => lexName s
  | .neg e => .sym "-" :: e.toks showVal lexName
  | .div a b => a.toks showVal lexName ++ .sym "/" :: b.toks showVal lexName

def App.toks (showVal : P → List Tok) (lexName : String → List Tok) (a : App P) : List Tok :=
  .id a.name ::
    ((if a.args.isEmpty then [] else
      .sym "(" :: commaSep (a.args.map (Arg.toks showVal lexName)) ++ [.sym ")"]) ++
     commaSep (a.qargs.map QRef.toks))

def Chunk.toks (showVal : P → List Tok) (lexName : String → List Tok) (c : Chunk P) : List Tok :=
  (c.conds.map fun k => [Tok.id "if", .sym "(", .id "b", .sym "==", natTok k, .sym ")"]).flatten ++
    (match c.app with
     | some a => a.toks showVal lexName
     | none => [])

def Line.toks (showVal : P → List Tok) (lexName : String → List Tok) : Line P → List Tok
  | .version => [.id "OPENQASM", .num (2.0 : Float).toBits, .sym ";"]
  | .includeLib => [.id "include", .str "qelib1.inc", .sym ";"]
  | .qreg n => [.id "qreg", .id "q", .sym "[", natTok n, .sym "]", .sym ";"]
  | .creg n => [.id "creg", .id "b", .sym "[", natTok n, .sym "]", .sym ";"]
  | .gate c => c.toks showVal lexName ++ [.sym ";"]
  | .measure q c => .id "measure" :: q.toks ++ .sym "->" :: c.toks ++ [.sym ";"]
  | .reset q => .id "reset" :: q.toks ++ [.sym ";"]
  | .barrier qs => .id "barrier" :: commaSep (qs.map QRef.toks) ++ [.sym ";"]

def programToks (showVal : P → List Tok) (lexName : String → List Tok) (ls : List (Line P)) : List Tok :=
  (ls.map (Line.toks showVal lexName)).flatten

/-! ## The circuit the exporter was given, as the simulator sees it -/

/-- library gate as a `GateTerm` (reference parameters by their current value) -/
def libTerm (name : String) (ps : List P) : Option (GateTerm P) :=
  match name, ps with
  | "H", [] => some .H | "X", [] => some .X | "Y", [] => some .Y | "Z", [] => some .Z
  | "S", [] => some .S | "Sdg", [] => some .Sdg | "T", [] => some .T | "Tdg", [] => some .Tdg
  | "V", [] => some .V | "Vdg", [] => some .Vdg | "I", [] => some .I
  | "RX", [a] => some (.RX a) | "RY", [a] => some (.RY a) | "RZ", [a] => some (.RZ a)
  | "U1", [a] => some (.U1 a) | "U2", [a, b] => some (.U2 a b) | "U3", [a, b, c] => some (.U3 a b c)
  | "CX", [] => some .CX | "CY", [] => some .CY | "CZ", [] => some .CZ | "Swap", [] => some .Swap
  | "CH", [] => some (.C .H) | "CS", [] => some (.C .S) | "CSdg", [] => some (.C .Sdg)
  | "CT", [] => some (.C .T) | "CTdg", [] => some (.C .Tdg) | "CV", [] => some (.C .V)
  | "CVdg", [] => some (.C .Vdg) | "CCX", [] => some (.C .CX) | "CCZ", [] => some (.C .CZ)
  | "CRX", [a] => some (.C (.RX a)) | "CRY", [a] => some (.C (.RY a)) | "CRZ", [a] => some (.C (.RZ a))
  | "CU1", [a] => some (.C (.U1 a)) | "CU2", [a, b] => some (.C (.U2 a b))
  | "CU3", [a, b, c] => some (.C (.U3 a b c))
  | "CCRX", [a] => some (.C (.C (.RX a))) | "CCRY", [a] => some (.C (.C (.RY a)))
  | "CCRZ", [a] => some (.C (.C (.RZ a)))
  | _, _ => none

mutual
def QGate.toTerm : QGate P → Option (GateTerm P)
  | .lib name ps => libTerm name (ps.map QParam.value)
  | .ctrl g => g.toTerm.map .C
  | .kron g0 g1 => do
      let a ← g0.toTerm
      let b ← g1.toTerm
      pure (.Kron a b)
  | .composite name n ops => ops.toTerm.map (.Composite name n)
  | .loop label iters name n body => body.toTerm.map (.Loop label iters name n)
def QOps.toTerm : QOps P → Option (OpList P)
  | .nil => some .nil
  | .cons g bits rest => do
      let a ← g.toTerm
      let r ← rest.toTerm
      pure (.cons a bits r)
end

def QOp.toCOp : QOp P → Option (Sim.COp P)
  | .gate g bits => g.toTerm.map (.gate · bits)
  | .cond control target g bits => g.toTerm.map (.cond control target · bits)
  | .reset q => some (.reset q)
  | .resetAll => some .resetAll
  | .measure q c b => some (.measure q c b)
  | .measureAll cbits b => some (.measureAll cbits b)
  | .peek q c b => some (.peek q c b)
  | .peekAll cbits b => some (.peekAll cbits b)
  | .barrier bits => some (.barrier bits)

end Q1t.OpenQasm

import Q1t.Proofs.SimGate
import Q1t.Proofs.SimGFExpect
import Q1t.Proofs.Conditional
/-!
C01, step 2: the *ranges view* of the vector backend.

A state of the simulator in which all shots of a range carry the same register word (a *homogeneous*
state) is described by a list of ranges `(count, state, word)`: `mkState n N rs` is the `VecState`,
`mkReg rs` the classical register.  This file proves, as equations between `Prog` terms, what every
backend operation used by the fragment F does to such a description: `applyGate`, `applyConditional`
(mask constant on every range), `measureInto` (binomial split of every range).
-/
set_option linter.unusedSectionVars false
namespace Q1t.Sim.SimGF
open Q1t Q1t.Sim Q1t.Spec

variable {α P : Type}

abbrev Rng (α : Type) := Nat × List α × Nat

section defs
variable [Zero α]

def mkState (n N : Nat) (rs : List (Rng α)) : VecState α :=
  { nrBits := n, nrShots := N, counts := rs.map (·.1), states := VecState.ofColumns n (rs.map (·.2.1)) }

def mkReg (rs : List (Rng α)) : List Nat := rs.flatMap fun r => List.replicate r.1 r.2.2

/-- replace the state of every range -/
def mapCol (f : List α → List α) (r : Rng α) : Rng α := (r.1, f r.2.1, r.2.2)

structure Shape (n N : Nat) (rs : List (Rng α)) : Prop where
  pos : ∀ r ∈ rs, 0 < r.1
  len : ∀ r ∈ rs, r.2.1.length = 2 ^ n
  sum : (rs.map (·.1)).sum = N

theorem cols_mkState {n N : Nat} {rs : List (Rng α)} (h : Shape n N rs) :
    cols (mkState n N rs) = rs.map (·.2.1) := by
  apply cols_ofColumns
  · simp
  · intro c hc
    simp only [List.mem_map] at hc
    obtain ⟨r, hr, rfl⟩ := hc
    exact h.len r hr

theorem wfs_mkState {n N : Nat} {rs : List (Rng α)} (h : Shape n N rs) : WFS (mkState n N rs) :=
  wfs_ofColumns n N _ _ (by simp) h.sum

theorem column_mkState {n N : Nat} {rs : List (Rng α)} (h : Shape n N rs) (k : Nat) (hk : k < rs.length) :
    (mkState n N rs).column k = rs[k].2.1 := by
  have := cols_mkState h
  have h2 : (cols (mkState n N rs))[k]'(by simp [cols, mkState, hk]) = (rs.map (·.2.1))[k]'(by simp [hk]) := by
    simp only [this]
  simpa [cols] using h2

/-- a well-formed state is the `mkState` of its columns -/
theorem eq_mkState_of_cols {n N : Nat} (s : VecState α) (rs : List (Rng α)) (hw : WFS s)
    (hn : s.nrBits = n) (hN : s.nrShots = N) (hc : s.counts = rs.map (·.1)) (hcols : cols s = rs.map (·.2.1)) :
    s = mkState n N rs := by
  have := states_eq_ofColumns hw
  cases s
  simp only [mkState] at *
  subst hn hN hc
  simp only [VecState.mk.injEq, true_and]
  rw [this, hcols]

end defs

section gate
variable [Zero α] [One α] [Add α] [Mul α] [Neg α] [Sub α] [Amp α P] [SimAmp α]

/-- the routes of valid gate instances return (no panic site is reached), and arities match -/
structure GateRuns (α : Type) {P : Type} [Zero α] [One α] [Add α] [Mul α] [Neg α] [Sub α] [Amp α P]
    (n : Nat) (valid : GateTerm P → List Nat → Prop) : Prop where
  arity : ∀ g bits, valid g bits → Gate.nrBits g = bits.length
  mat : ∀ g bits, valid g bits → ∀ (m : Nat) (M : LMat α), M.length = 2 ^ n → (∀ row ∈ M, row.length = m) →
    (Gate.applyGateSlice (α := α) .mat g bits n M).isSome
  vec : ∀ g bits, valid g bits → ∀ v : List α, v.length = 2 ^ n →
    (Gate.applyGateSlice (α := α) .vec g bits n v).isSome

variable {n N : Nat} {valid : GateTerm P → List Nat → Prop}

theorem shape_mapCol {rs : List (Rng α)} (h : Shape n N rs) (f : Rng α → List α → List α)
    (hf : ∀ r v, v.length = 2 ^ n → (f r v).length = 2 ^ n) :
    Shape n N (rs.map fun r => mapCol (f r) r) := by
  refine ⟨?_, ?_, ?_⟩
  · intro r hr
    simp only [List.mem_map] at hr
    obtain ⟨r0, h0, rfl⟩ := hr
    exact h.pos r0 h0
  · intro r hr
    simp only [List.mem_map] at hr
    obtain ⟨r0, h0, rfl⟩ := hr
    exact hf _ _ (h.len r0 h0)
  · rw [← h.sum, List.map_map]; rfl

theorem applyGate_eq (hsem : GateSemOK α n valid) (hrun : GateRuns α n valid)
    {g : GateTerm P} {bits : List Nat} (hv : valid g bits) {rs : List (Rng α)} (h : Shape n N rs) :
    VecState.applyGate (mkState n N rs) g bits =
      .pure (mkState n N (rs.map (mapCol (gateOn n g bits)))) := by
  have hw := wfs_mkState h
  have hrows : (mkState n N rs).states.length = 2 ^ n := hw.rows
  have hrl : ∀ row ∈ (mkState n N rs).states, row.length = rs.length := by
    intro row hr; have := hw.row_len row hr; simpa [mkState] using this
  have hsome := hrun.mat g bits hv rs.length _ hrows hrl
  obtain ⟨M', hM'⟩ := Option.isSome_iff_exists.mp hsome
  obtain ⟨m1, m2, m3⟩ := hsem.mat g bits hv rs.length _ M' hrows hrl hM'
  unfold VecState.applyGate
  rw [if_neg (by rw [hrun.arity g bits hv]; simp)]
  show (match Gate.applyGateSlice (α := α) .mat g bits n (mkState n N rs).states with
    | none => _ | some st => _) = _
  rw [hM']
  simp only
  congr 1
  apply eq_mkState_of_cols
  · exact ⟨by simpa [mkState] using h.sum, m1, fun row hr => by simpa [mkState] using m2 row hr⟩
  · rfl
  · rfl
  · simp [mkState, List.map_map, mapCol, Function.comp_def]
  · apply List.ext_getElem
    · simp [cols, mkState]
    · intro k h1 h2
      have hk : k < rs.length := by simpa [cols, mkState] using h1
      simp only [cols, List.getElem_map, List.getElem_range, mapCol]
      have := m3 k hk
      have hc := column_mkState h k hk
      simp only [VecState.column] at hc
      simp only [colAt] at this
      simp only [VecState.column]
      rw [this]
      show gateOn n g bits (List.map (fun row => row.getD k 0) (mkState n N rs).states) = _
      rw [hc]
end gate

/-! ### conditional gates -/

theorem rleAux_replicate (b : Bool) : ∀ (m n : Nat),
    Spec.Conditional.rleAux b n (List.replicate m b) = [(n + m, b)] := by
  intro m
  induction m with
  | zero => intro n; simp [Spec.Conditional.rleAux]
  | succ m ih =>
    intro n
    rw [List.replicate_succ, Spec.Conditional.rleAux]
    simp only [bne_self_eq_false, Bool.false_eq_true, if_false]
    rw [ih]; congr 2; omega

theorem rle_replicate (b : Bool) (c : Nat) (hc : 0 < c) :
    Spec.Conditional.rle (List.replicate c b) = [(c, b)] := by
  obtain ⟨c', rfl⟩ : ∃ c', c = c' + 1 := ⟨c - 1, by omega⟩
  rw [List.replicate_succ, Spec.Conditional.rle, rleAux_replicate]
  congr 2; omega

theorem ranges_homog (β : Rng α → Bool) : ∀ (rs : List (Rng α)) (icol : Nat), (∀ r ∈ rs, 0 < r.1) →
    Spec.Conditional.ranges (rs.map (·.1)) icol (rs.flatMap fun r => List.replicate r.1 (β r)) =
      (rs.zipIdx icol).map fun rk => (rk.2, rk.1.1, β rk.1) := by
  intro rs
  induction rs with
  | nil => intro icol _; simp [Spec.Conditional.ranges]
  | cons r rs ih =>
    intro icol hpos
    simp only [List.map_cons, List.flatMap_cons, Spec.Conditional.ranges, List.zipIdx_cons]
    have h1 : (List.replicate r.1 (β r) ++ List.flatMap (fun r => List.replicate r.1 (β r)) rs).take r.1
        = List.replicate r.1 (β r) := by
      rw [List.take_append_of_le_length (by simp)]; simp
    have h2 : (List.replicate r.1 (β r) ++ List.flatMap (fun r => List.replicate r.1 (β r)) rs).drop r.1
        = List.flatMap (fun r => List.replicate r.1 (β r)) rs := by
      rw [List.drop_append_of_le_length (by simp)]; simp
    rw [h1, h2, rle_replicate _ _ (hpos r (by simp)), ih (icol + 1) (fun x hx => hpos x (by simp [hx]))]
    rfl

theorem mapM_eq_map {β γ : Type} (f : β → Option γ) (g : β → γ) :
    ∀ l : List β, (∀ x ∈ l, f x = some (g x)) → l.mapM f = some (l.map g) := by
  intro l
  induction l with
  | nil => intro _; rfl
  | cons x xs ih =>
    intro h
    rw [List.mapM_cons, h x (by simp), ih (fun y hy => h y (by simp [hy]))]
    rfl

theorem zipIdx_map_eq {β γ : Type} (rs : List γ) (F : γ × Nat → β) (G : γ → β)
    (h : ∀ k (hk : k < rs.length), F (rs[k], k) = G rs[k]) : rs.zipIdx.map F = rs.map G := by
  apply List.ext_getElem
  · simp
  · intro k h1 h2
    simp only [List.length_map, List.length_zipIdx] at h1
    simp [h k h1]

section cond
variable [Zero α] [One α] [Add α] [Mul α] [Neg α] [Sub α] [Amp α P] [SimAmp α]
variable {n N : Nat} {valid : GateTerm P → List Nat → Prop}

theorem mkReg_map_length {β : Type} (rs : List (Rng α)) (f : Rng α → β) :
    (rs.flatMap fun r => List.replicate r.1 (f r)).length = (rs.map (·.1)).sum := by
  induction rs with
  | nil => rfl
  | cons r rs ih => simp [List.flatMap_cons, ih]

/-- a conditional gate whose mask is constant on every range applies the gate to the ranges whose mask
bit is set and leaves the range structure alone -/
theorem applyConditional_eq (hsem : GateSemOK α n valid) (hrun : GateRuns α n valid)
    {g : GateTerm P} {bits : List Nat} (hv : valid g bits) {rs : List (Rng α)} (h : Shape n N rs)
    (β : Rng α → Bool) :
    VecState.applyConditional (mkState n N rs) (rs.flatMap fun r => List.replicate r.1 (β r)) g bits =
      .pure (mkState n N (rs.map fun r => mapCol (fun v => if β r then gateOn n g bits v else v) r)) := by
  have hlen : (rs.flatMap fun r => List.replicate r.1 (β r)).length = N := by
    rw [mkReg_map_length, h.sum]
  unfold VecState.applyConditional
  rw [if_neg (by simp only [mkState]; rw [hlen]; simp)]
  rw [if_neg (by rw [hrun.arity g bits hv]; simp)]
  have hcr : collectConditionalRanges (mkState n N rs).counts (rs.flatMap fun r => List.replicate r.1 (β r))
      = some ((rs.zipIdx 0).map fun rk => (rk.2, rk.1.1, β rk.1)) := by
    have := Q1t.Proofs.Conditional.sim_collectLoop_eq_spec
      (rs.flatMap fun r => List.replicate r.1 (β r)) (rs.map (·.1)) 0 0
      (by intro c hc; simp only [List.mem_map] at hc; obtain ⟨r, hr, rfl⟩ := hc; exact h.pos r hr)
      (by rw [hlen, h.sum]; omega)
    rw [List.drop_zero, ranges_homog β rs 0 h.pos] at this
    exact this
  simp only [hcr]
  have hmap : ((rs.zipIdx 0).map fun rk => (rk.2, rk.1.1, β rk.1)).mapM (fun (x : Nat × Nat × Bool) =>
        match x with
        | (icol, _, apply) =>
          let col := (mkState n N rs).column icol
          if apply then Gate.applyGateSlice (α := α) .vec g bits (mkState n N rs).nrBits col else some col)
      = some (((rs.zipIdx 0).map fun rk => (rk.2, rk.1.1, β rk.1)).map fun x =>
          if x.2.2 then gateOn n g bits ((mkState n N rs).column x.1) else (mkState n N rs).column x.1) := by
    apply mapM_eq_map
    intro x hx
    simp only [List.mem_map] at hx
    obtain ⟨rk, hrk, rfl⟩ := hx
    obtain ⟨hk1, hk2⟩ := List.mem_zipIdx hrk
    simp only [Nat.zero_add] at hk2
    have hk : rk.2 < rs.length := by omega
    simp only
    have hcol := column_mkState h rk.2 hk
    have hlen2 : ((mkState n N rs).column rk.2).length = 2 ^ n := by
      rw [hcol]; exact h.len _ (List.getElem_mem hk)
    split
    · rename_i hb
      have hs := hrun.vec g bits hv _ hlen2
      obtain ⟨v', hv'⟩ := Option.isSome_iff_exists.mp hs
      have := hsem.vec g bits hv _ v' hlen2 hv'
      show Gate.applyGateSlice (α := α) .vec g bits n _ = _
      rw [hv', this]
    · rfl
  simp only [hmap]
  congr 1
  simp only [mkState, List.map_map]
  congr 1
  · apply zipIdx_map_eq
    intro k hk; rfl
  · congr 1
    apply zipIdx_map_eq
    intro k hk
    have := column_mkState h k hk
    simp only [mkState] at this
    simp only [Function.comp, mapCol, this]
end cond
end Q1t.Sim.SimGF

import Q1t.Proofs.SimGate
import Q1t.Proofs.SimGFExpect
import Q1t.Proofs.Conditional
/-!
C01, step 2: the *ranges view* of the vector backend.

A state of the simulator in which all shots of a range carry the same register word (a *homogeneous*
state) is described by a list of ranges `(count, state, word)`: `mkState n N rs` is the `VecState`,
`mkReg rs` the classical register.  This file proves, as equations between `Prog` terms, what every
backend operation used by the fragment F does to such a description: `applyGate`, `applyConditional`
(mask constant on every range), `measureInto` (binomial split of every range).
-/
set_option linter.unusedSectionVars false
set_option linter.unusedSimpArgs false
set_option linter.unusedVariables false
namespace Q1t.Sim.SimGF
open Q1t Q1t.Sim Q1t.Spec

variable {α P : Type}

abbrev Rng (α : Type) := Nat × List α × Nat

section defs
variable [Zero α]

def mkState (n N : Nat) (rs : List (Rng α)) : VecState α :=
  { nrBits := n, nrShots := N, counts := rs.map (·.1), states := VecState.ofColumns n (rs.map (·.2.1)) }

def mkReg (rs : List (Rng α)) : List Nat := rs.flatMap fun r => List.replicate r.1 r.2.2

/-- replace the state of every range -/
def mapCol (f : List α → List α) (r : Rng α) : Rng α := (r.1, f r.2.1, r.2.2)

structure Shape (n N : Nat) (rs : List (Rng α)) : Prop where
  pos : ∀ r ∈ rs, 0 < r.1
  len : ∀ r ∈ rs, r.2.1.length = 2 ^ n
  sum : (rs.map (·.1)).sum = N

theorem cols_mkState {n N : Nat} {rs : List (Rng α)} (h : Shape n N rs) :
    cols (mkState n N rs) = rs.map (·.2.1) := by
  apply cols_ofColumns
  · simp
  · intro c hc
    simp only [List.mem_map] at hc
    obtain ⟨r, hr, rfl⟩ := hc
    exact h.len r hr

theorem wfs_mkState {n N : Nat} {rs : List (Rng α)} (h : Shape n N rs) : WFS (mkState n N rs) :=
  wfs_ofColumns n N _ _ (by simp) h.sum

theorem column_mkState {n N : Nat} {rs : List (Rng α)} (h : Shape n N rs) (k : Nat) (hk : k < rs.length) :
    (mkState n N rs).column k = rs[k].2.1 := by
  have := cols_mkState h
  have h2 : (cols (mkState n N rs))[k]'(by simp [cols, mkState, hk]) = (rs.map (·.2.1))[k]'(by simp [hk]) := by
    simp only [this]
  simpa [cols] using h2

/-- a well-formed state is the `mkState` of its columns -/
theorem eq_mkState_of_cols {n N : Nat} (s : VecState α) (rs : List (Rng α)) (hw : WFS s)
    (hn : s.nrBits = n) (hN : s.nrShots = N) (hc : s.counts = rs.map (·.1)) (hcols : cols s = rs.map (·.2.1)) :
    s = mkState n N rs := by
  have := states_eq_ofColumns hw
  cases s
  simp only [mkState] at *
  subst hn hN hc
  simp only [VecState.mk.injEq, true_and]
  rw [this, hcols]

end defs

section gate
variable [Zero α] [One α] [Add α] [Mul α] [Neg α] [Sub α] [Amp α P] [SimAmp α]

/-- the routes of valid gate instances return (no panic site is reached), and arities match -/
structure GateRuns (α : Type) {P : Type} [Zero α] [One α] [Add α] [Mul α] [Neg α] [Sub α] [Amp α P]
    (n : Nat) (valid : GateTerm P → List Nat → Prop) : Prop where
  arity : ∀ g bits, valid g bits → Gate.nrBits g = bits.length
  mat : ∀ g bits, valid g bits → ∀ (m : Nat) (M : LMat α), M.length = 2 ^ n → (∀ row ∈ M, row.length = m) →
    (Gate.applyGateSlice (α := α) .mat g bits n M).isSome
  vec : ∀ g bits, valid g bits → ∀ v : List α, v.length = 2 ^ n →
    (Gate.applyGateSlice (α := α) .vec g bits n v).isSome

variable {n N : Nat} {valid : GateTerm P → List Nat → Prop}

theorem shape_mapCol {rs : List (Rng α)} (h : Shape n N rs) (f : Rng α → List α → List α)
    (hf : ∀ r v, v.length = 2 ^ n → (f r v).length = 2 ^ n) :
    Shape n N (rs.map fun r => mapCol (f r) r) := by
  refine ⟨?_, ?_, ?_⟩
  · intro r hr
    simp only [List.mem_map] at hr
    obtain ⟨r0, h0, rfl⟩ := hr
    exact h.pos r0 h0
  · intro r hr
    simp only [List.mem_map] at hr
    obtain ⟨r0, h0, rfl⟩ := hr
    exact hf _ _ (h.len r0 h0)
  · rw [← h.sum, List.map_map]; rfl

theorem applyGate_eq (hsem : GateSemOK α n valid) (hrun : GateRuns α n valid)
    {g : GateTerm P} {bits : List Nat} (hv : valid g bits) {rs : List (Rng α)} (h : Shape n N rs) :
    VecState.applyGate (mkState n N rs) g bits =
      .pure (mkState n N (rs.map (mapCol (gateOn n g bits)))) := by
  have hw := wfs_mkState h
  have hrows : (mkState n N rs).states.length = 2 ^ n := hw.rows
  have hrl : ∀ row ∈ (mkState n N rs).states, row.length = rs.length := by
    intro row hr; have := hw.row_len row hr; simpa [mkState] using this
  have hsome := hrun.mat g bits hv rs.length _ hrows hrl
  obtain ⟨M', hM'⟩ := Option.isSome_iff_exists.mp hsome
  obtain ⟨m1, m2, m3⟩ := hsem.mat g bits hv rs.length _ M' hrows hrl hM'
  unfold VecState.applyGate
  rw [if_neg (by rw [hrun.arity g bits hv]; simp)]
  show (match Gate.applyGateSlice (α := α) .mat g bits n (mkState n N rs).states with
    | none => _ | some st => _) = _
  rw [hM']
  simp only
  congr 1
  apply eq_mkState_of_cols
  · exact ⟨by simpa [mkState] using h.sum, m1, fun row hr => by simpa [mkState] using m2 row hr⟩
  · rfl
  · rfl
  · simp [mkState, List.map_map, mapCol, Function.comp_def]
  · apply List.ext_getElem
    · simp [cols, mkState]
    · intro k h1 h2
      have hk : k < rs.length := by simpa [cols, mkState] using h1
      simp only [cols, List.getElem_map, List.getElem_range, mapCol]
      have := m3 k hk
      have hc := column_mkState h k hk
      simp only [VecState.column] at hc
      simp only [colAt] at this
      simp only [VecState.column]
      rw [this]
      show gateOn n g bits (List.map (fun row => row.getD k 0) (mkState n N rs).states) = _
      rw [hc]
end gate

/-! ### conditional gates -/

theorem rleAux_replicate (b : Bool) : ∀ (m n : Nat),
    Spec.Conditional.rleAux b n (List.replicate m b) = [(n + m, b)] := by
  intro m
  induction m with
  | zero => intro n; simp [Spec.Conditional.rleAux]
  | succ m ih =>
    intro n
    rw [List.replicate_succ, Spec.Conditional.rleAux]
    simp only [bne_self_eq_false, Bool.false_eq_true, if_false]
    rw [ih]; congr 2; omega

theorem rle_replicate (b : Bool) (c : Nat) (hc : 0 < c) :
    Spec.Conditional.rle (List.replicate c b) = [(c, b)] := by
  obtain ⟨c', rfl⟩ : ∃ c', c = c' + 1 := ⟨c - 1, by omega⟩
  rw [List.replicate_succ, Spec.Conditional.rle, rleAux_replicate]
  congr 2; omega

theorem ranges_homog (β : Rng α → Bool) : ∀ (rs : List (Rng α)) (icol : Nat), (∀ r ∈ rs, 0 < r.1) →
    Spec.Conditional.ranges (rs.map (·.1)) icol (rs.flatMap fun r => List.replicate r.1 (β r)) =
      (rs.zipIdx icol).map fun rk => (rk.2, rk.1.1, β rk.1) := by
  intro rs
  induction rs with
  | nil => intro icol _; simp [Spec.Conditional.ranges]
  | cons r rs ih =>
    intro icol hpos
    simp only [List.map_cons, List.flatMap_cons, Spec.Conditional.ranges, List.zipIdx_cons]
    have h1 : (List.replicate r.1 (β r) ++ List.flatMap (fun r => List.replicate r.1 (β r)) rs).take r.1
        = List.replicate r.1 (β r) := by
      rw [List.take_append_of_le_length (by simp)]; simp
    have h2 : (List.replicate r.1 (β r) ++ List.flatMap (fun r => List.replicate r.1 (β r)) rs).drop r.1
        = List.flatMap (fun r => List.replicate r.1 (β r)) rs := by
      rw [List.drop_append_of_le_length (by simp)]; simp
    rw [h1, h2, rle_replicate _ _ (hpos r (by simp)), ih (icol + 1) (fun x hx => hpos x (by simp [hx]))]
    rfl

theorem mapM_eq_map {β γ : Type} (f : β → Option γ) (g : β → γ) :
    ∀ l : List β, (∀ x ∈ l, f x = some (g x)) → l.mapM f = some (l.map g) := by
  intro l
  induction l with
  | nil => intro _; rfl
  | cons x xs ih =>
    intro h
    rw [List.mapM_cons, h x (by simp), ih (fun y hy => h y (by simp [hy]))]
    rfl

theorem zipIdx_map_eq {β γ : Type} (rs : List γ) (F : γ × Nat → β) (G : γ → β)
    (h : ∀ k (hk : k < rs.length), F (rs[k], k) = G rs[k]) : rs.zipIdx.map F = rs.map G := by
  apply List.ext_getElem
  · simp
  · intro k h1 h2
    simp only [List.length_map, List.length_zipIdx] at h1
    simp [h k h1]

section cond
variable [Zero α] [One α] [Add α] [Mul α] [Neg α] [Sub α] [Amp α P] [SimAmp α]
variable {n N : Nat} {valid : GateTerm P → List Nat → Prop}

theorem mkReg_map_length {β : Type} (rs : List (Rng α)) (f : Rng α → β) :
    (rs.flatMap fun r => List.replicate r.1 (f r)).length = (rs.map (·.1)).sum := by
  induction rs with
  | nil => rfl
  | cons r rs ih => simp [List.flatMap_cons, ih]

/-- a conditional gate whose mask is constant on every range applies the gate to the ranges whose mask
bit is set and leaves the range structure alone -/
theorem applyConditional_eq (hsem : GateSemOK α n valid) (hrun : GateRuns α n valid)
    {g : GateTerm P} {bits : List Nat} (hv : valid g bits) {rs : List (Rng α)} (h : Shape n N rs)
    (β : Rng α → Bool) :
    VecState.applyConditional (mkState n N rs) (rs.flatMap fun r => List.replicate r.1 (β r)) g bits =
      .pure (mkState n N (rs.map fun r => mapCol (fun v => if β r then gateOn n g bits v else v) r)) := by
  have hlen : (rs.flatMap fun r => List.replicate r.1 (β r)).length = N := by
    rw [mkReg_map_length, h.sum]
  unfold VecState.applyConditional
  rw [if_neg (by simp only [mkState]; rw [hlen]; simp)]
  rw [if_neg (by rw [hrun.arity g bits hv]; simp)]
  have hcr : collectConditionalRanges (mkState n N rs).counts (rs.flatMap fun r => List.replicate r.1 (β r))
      = some ((rs.zipIdx 0).map fun rk => (rk.2, rk.1.1, β rk.1)) := by
    have := Q1t.Proofs.Conditional.sim_collectLoop_eq_spec
      (rs.flatMap fun r => List.replicate r.1 (β r)) (rs.map (·.1)) 0 0
      (by intro c hc; simp only [List.mem_map] at hc; obtain ⟨r, hr, rfl⟩ := hc; exact h.pos r hr)
      (by rw [hlen, h.sum]; omega)
    rw [List.drop_zero, ranges_homog β rs 0 h.pos] at this
    exact this
  simp only [hcr]
  have hmap : ((rs.zipIdx 0).map fun rk => (rk.2, rk.1.1, β rk.1)).mapM (fun (x : Nat × Nat × Bool) =>
        match x with
        | (icol, _, apply) =>
          let col := (mkState n N rs).column icol
          if apply then Gate.applyGateSlice (α := α) .vec g bits (mkState n N rs).nrBits col else some col)
      = some (((rs.zipIdx 0).map fun rk => (rk.2, rk.1.1, β rk.1)).map fun x =>
          if x.2.2 then gateOn n g bits ((mkState n N rs).column x.1) else (mkState n N rs).column x.1) := by
    apply mapM_eq_map
    intro x hx
    simp only [List.mem_map] at hx
    obtain ⟨rk, hrk, rfl⟩ := hx
    obtain ⟨hk1, hk2⟩ := List.mem_zipIdx hrk
    simp only [Nat.zero_add] at hk2
    have hk : rk.2 < rs.length := by omega
    simp only
    have hcol := column_mkState h rk.2 hk
    have hlen2 : ((mkState n N rs).column rk.2).length = 2 ^ n := by
      rw [hcol]; exact h.len _ (List.getElem_mem hk)
    split
    · rename_i hb
      have hs := hrun.vec g bits hv _ hlen2
      obtain ⟨v', hv'⟩ := Option.isSome_iff_exists.mp hs
      have := hsem.vec g bits hv _ v' hlen2 hv'
      show Gate.applyGateSlice (α := α) .vec g bits n _ = _
      rw [hv', this]
    · rfl
  simp only [hmap]
  congr 1
  simp only [mkState, List.map_map]
  congr 1
  · apply zipIdx_map_eq
    intro k hk; rfl
  · congr 1
    apply zipIdx_map_eq
    intro k hk
    have := column_mkState h k hk
    simp only [mkState] at this
    simp only [Function.comp, mapCol, this]
end cond

/-! ### measurement of one qubit -/

theorem writeRange_mid (pre tail : List Nat) (c n0 w cbit : Nat) (h : n0 ≤ c) :
    writeRange (pre ++ List.replicate c w ++ tail) pre.length c n0 cbit =
      pre ++ (List.replicate n0 (setBitTo w cbit false) ++ List.replicate (c - n0) (setBitTo w cbit true)) ++ tail := by
  unfold writeRange
  apply List.ext_getElem
  · simp; omega
  · intro i h1 h2
    simp only [List.getElem_map, List.getElem_zipIdx, Nat.zero_add]
    simp only [List.length_map, List.length_zipIdx, List.length_append, List.length_replicate] at h1
    by_cases hi : i < pre.length
    · rw [if_neg (by omega), if_neg (by omega)]
      simp [List.getElem_append, hi]
    · by_cases hi2 : i < pre.length + n0
      · rw [if_pos (by omega)]
        simp only [List.getElem_append, List.length_append, List.length_replicate]
        simp [hi, hi2, show i < pre.length + c by omega, show i - pre.length < n0 by omega,
          show i < pre.length + (n0 + (c - n0)) by omega]
      · by_cases hi3 : i < pre.length + c
        · rw [if_neg (by omega), if_pos (by omega)]
          simp only [List.getElem_append, List.length_append, List.length_replicate]
          simp [hi, hi3, show ¬ i - pre.length < n0 by omega,
            show i < pre.length + (n0 + (c - n0)) by omega]
        · rw [if_neg (by omega), if_neg (by omega)]
          simp only [List.getElem_append, List.length_append, List.length_replicate]
          simp [hi, hi3, show ¬ i < pre.length + (n0 + (c - n0)) by omega]
          congr 1; omega

section meas
variable [Zero α] [One α] [Add α] [Mul α] [Neg α] [Sub α] [SimAmp α]

/-- what a measurement of qubit `q` with `n0` zeros does to one range; `wf w o` = the new word -/
def splitRng (n q : Nat) (wf : Nat → Bool → Nat) (r : Rng α) (n0 : Nat) : List (Rng α) :=
  let w0 := w0Of n q r.2.1
  let r0 : List α × Nat := (VecState.collapseCol n q r.2.1 false w0, wf r.2.2 false)
  let r1 : List α × Nat := (VecState.collapseCol n q r.2.1 true (1 - w0), wf r.2.2 true)
  if n0 = r.1 then [(r.1, r0)] else if n0 = 0 then [(r.1, r1)] else [(n0, r0), (r.1 - n0, r1)]

def splitAll (n q : Nat) (wf : Nat → Bool → Nat) : List (Rng α) → List Nat → List (Rng α)
  | r :: rs, n0 :: ns => splitRng n q wf r n0 ++ splitAll n q wf rs ns
  | _, _ => []

/-- the register in which every shot of a range carries `f (word of the range)`; `mkReg = mkRegF id`.
(`reset` measures into a scratch register: there the range description keeps the true word and the hidden
outcome together, and two different `f` read them off.) -/
def mkRegF (f : Nat → Nat) (rs : List (Rng α)) : List Nat := rs.flatMap fun r => List.replicate r.1 (f r.2.2)

theorem mkReg_eq (rs : List (Rng α)) : mkReg rs = mkRegF id rs := rfl

theorem mkRegF_length (f : Nat → Nat) (rs : List (Rng α)) : (mkRegF f rs).length = (rs.map (·.1)).sum :=
  mkReg_map_length rs _

theorem mkReg_length (rs : List (Rng α)) : (mkReg rs).length = (rs.map (·.1)).sum :=
  mkReg_map_length rs _

theorem mkRegF_append (f : Nat → Nat) (a b : List (Rng α)) : mkRegF f (a ++ b) = mkRegF f a ++ mkRegF f b := by
  simp [mkRegF]

theorem mkReg_append (a b : List (Rng α)) : mkReg (a ++ b) = mkReg a ++ mkReg b := by
  simp [mkReg]

theorem mkRegF_splitRng (f : Nat → Nat) (n q : Nat) (wf : Nat → Bool → Nat) (r : Rng α) (n0 : Nat) (h : n0 ≤ r.1) :
    mkRegF f (splitRng n q wf r n0) =
      List.replicate n0 (f (wf r.2.2 false)) ++ List.replicate (r.1 - n0) (f (wf r.2.2 true)) := by
  unfold splitRng
  by_cases h1 : n0 = r.1
  · simp [h1, mkRegF]
  · by_cases h2 : n0 = 0
    · have h3 : ¬ 0 = r.1 := by omega
      simp [h1, h2, h3, mkRegF]
    · simp [h1, h2, mkRegF]

/-- the items of the second loop of `measure_into` -/
def mkItems (n q : Nat) (rs : List (Rng α)) (ns : List Nat) : List (List α × α × Nat × Nat) :=
  List.zipWith (fun r n0 => (r.2.1, w0Of n q r.2.1, r.1, n0)) rs ns

theorem mkItems_cons (n q : Nat) (r : Rng α) (rs : List (Rng α)) (n0 : Nat) (ns : List Nat) :
    mkItems n q (r :: rs) (n0 :: ns) = (r.2.1, w0Of n q r.2.1, r.1, n0) :: mkItems n q rs ns := rfl
theorem mkItems_nil (n q : Nat) : mkItems (α := α) n q [] [] = [] := rfl

theorem measureLoop_spec (n q cbit : Nat) (f : Nat → Nat) (wf : Nat → Bool → Nat) :
    ∀ (rs : List (Rng α)) (ns : List Nat) (pre tail : List Nat)
    (cols : List (List α)) (counts : List Nat), List.Forall₂ (fun r n0 => n0 ≤ r.1) rs ns →
    (∀ r ∈ rs, ∀ o, f (wf r.2.2 o) = setBitTo (f r.2.2) cbit o) →
    VecState.measureLoop n q cbit (mkItems n q rs ns) pre.length (pre ++ mkRegF f rs ++ tail) cols counts =
      (pre ++ mkRegF f (splitAll n q wf rs ns) ++ tail,
       cols ++ (splitAll n q wf rs ns).map (·.2.1),
       counts ++ (splitAll n q wf rs ns).map (·.1)) := by
  intro rs ns pre tail cols counts hv
  induction hv generalizing pre cols counts with
  | nil => intro _; simp [mkItems_nil, VecState.measureLoop, splitAll, mkRegF]
  | @cons r n0 rs ns hle _ ih =>
    intro hwf
    have ih := fun pre cols counts => ih pre cols counts (fun x hx => hwf x (by simp [hx]))
    have hreg : pre ++ mkRegF f (r :: rs) ++ tail = pre ++ List.replicate r.1 (f r.2.2) ++ (mkRegF f rs ++ tail) := by
      simp [mkRegF]
    have hw := writeRange_mid pre (mkRegF f rs ++ tail) r.1 n0 (f r.2.2) cbit hle
    have hsp := mkRegF_splitRng f n q wf r n0 hle
    rw [hwf r (by simp) false, hwf r (by simp) true] at hsp
    have hnext : ∀ (cols' : List (List α)) (counts' : List Nat),
        VecState.measureLoop n q cbit (mkItems n q rs ns) (pre.length + r.1)
          (pre ++ (List.replicate n0 (setBitTo (f r.2.2) cbit false) ++ List.replicate (r.1 - n0) (setBitTo (f r.2.2) cbit true))
            ++ (mkRegF f rs ++ tail)) cols' counts' =
          (pre ++ (List.replicate n0 (setBitTo (f r.2.2) cbit false) ++ List.replicate (r.1 - n0) (setBitTo (f r.2.2) cbit true))
              ++ mkRegF f (splitAll n q wf rs ns) ++ tail,
           cols' ++ (splitAll n q wf rs ns).map (·.2.1),
           counts' ++ (splitAll n q wf rs ns).map (·.1)) := by
      intro cols' counts'
      have := ih (pre ++ (List.replicate n0 (setBitTo (f r.2.2) cbit false) ++ List.replicate (r.1 - n0) (setBitTo (f r.2.2) cbit true)))
        cols' counts'
      have hl : (pre ++ (List.replicate n0 (setBitTo (f r.2.2) cbit false) ++ List.replicate (r.1 - n0) (setBitTo (f r.2.2) cbit true))).length
          = pre.length + r.1 := by simp; omega
      rw [hl] at this
      rw [← List.append_assoc _ (mkRegF f rs) tail]
      exact this
    simp only [mkItems_cons, VecState.measureLoop, hreg, hw]
    simp only [splitAll, mkRegF_append, hsp, List.map_append]
    by_cases h1 : n0 = r.1
    · rw [if_pos h1, hnext]
      simp [splitRng, h1, List.append_assoc]
    · by_cases h2 : n0 = 0
      · rw [if_neg h1, if_pos h2]
        rw [hnext]
        have h3 : ¬ 0 = r.1 := by omega
        simp [splitRng, h2, h3, List.append_assoc]
      · rw [if_neg h1, if_neg h2, hnext]
        simp [splitRng, h1, h2, List.append_assoc]


variable {n N : Nat}

theorem forall₂_length {β γ : Type} {R : β → γ → Prop} {l1 : List β} {l2 : List γ} (h : List.Forall₂ R l1 l2) :
    l1.length = l2.length := by
  induction h with
  | nil => rfl
  | cons _ _ ih => simp [ih]

/-- `measure_into` on a homogeneous state (register `mkRegF f rs`): one binomial draw per range, then every
range is split; `wf` is the word update of the description, compatible with the bit written -/
theorem measureIntoF_eq {rs : List (Rng α)} (h : Shape n N rs) {q cbit : Nat} (hq : q < n) (hc : cbit < 64)
    (f : Nat → Nat) (wf : Nat → Bool → Nat)
    (hwf : ∀ r ∈ rs, ∀ o, f (wf r.2.2 o) = setBitTo (f r.2.2) cbit o) :
    ∃ body : List Nat → Prog α (VecState α × List Nat),
      VecState.measureInto (mkState n N rs) q cbit (mkRegF f rs) =
        VecState.drawAll (rs.map fun r => (w0Of n q r.2.1, r.1)) body ∧
      ∀ ns, List.Forall₂ (fun r n0 => n0 ≤ r.1) rs ns →
        body ns = .pure (mkState n N (splitAll n q wf rs ns), mkRegF f (splitAll n q wf rs ns)) := by
  refine ⟨fun n0s =>
      if ¬ shiftOk cbit then Prog.panic "1 << cbit" else
      let items := (List.range (mkState n N rs).nrCols).map fun k =>
        ((mkState n N rs).column k, (VecState.weights0 (mkState n N rs) q).getD k 0,
          (mkState n N rs).counts.getD k 0, n0s.getD k 0)
      let (res', cols, counts) := VecState.measureLoop (mkState n N rs).nrBits q cbit items 0 (mkRegF f rs) [] []
      .pure ({ (mkState n N rs) with states := VecState.ofColumns (mkState n N rs).nrBits cols, counts := counts }, res'),
    ?_, ?_⟩
  · unfold VecState.measureInto
    rw [if_neg (by simp [mkState]; omega)]
    rw [if_neg (by rw [mkRegF_length, h.sum]; simp [mkState])]
    have hz : (VecState.weights0 (mkState n N rs) q).zip (mkState n N rs).counts
        = rs.map fun r => (w0Of n q r.2.1, r.1) := by
      simp only [weights0_eq, cols_mkState h]
      simp only [mkState, List.map_map]
      rw [List.zip_map']
      rfl
    simp only [hz]
  · intro ns hv
    have hl := forall₂_length hv
    have hitems : ((List.range (mkState n N rs).nrCols).map fun k =>
        ((mkState n N rs).column k, (VecState.weights0 (mkState n N rs) q).getD k 0,
          (mkState n N rs).counts.getD k 0, ns.getD k 0)) = mkItems n q rs ns := by
      apply List.ext_getElem
      · simp [mkItems, VecState.nrCols, mkState, hl]
      · intro k h1 h2
        have hk : k < rs.length := by simpa [VecState.nrCols, mkState] using h1
        have hk2 : k < ns.length := by omega
        simp only [List.getElem_map, List.getElem_range, mkItems, List.getElem_zipWith]
        rw [column_mkState h k hk, weights0_eq, cols_mkState h]
        simp [mkState, List.getD_eq_getElem?_getD, hk, hk2]
    simp only [shiftOk, hc, decide_true, not_true_eq_false, if_false]
    rw [hitems]
    have := measureLoop_spec n q cbit f wf rs ns [] [] [] [] hv hwf
    simp only [List.nil_append, List.append_nil, List.length_nil] at this
    simp only [show (mkState n N rs).nrBits = n from rfl]
    rw [this]
    rfl

theorem measureInto_eq {rs : List (Rng α)} (h : Shape n N rs) {q cbit : Nat} (hq : q < n) (hc : cbit < 64) :
    ∃ body : List Nat → Prog α (VecState α × List Nat),
      VecState.measureInto (mkState n N rs) q cbit (mkReg rs) =
        VecState.drawAll (rs.map fun r => (w0Of n q r.2.1, r.1)) body ∧
      ∀ ns, List.Forall₂ (fun r n0 => n0 ≤ r.1) rs ns →
        body ns = .pure (mkState n N (splitAll n q (fun w o => setBitTo w cbit o) rs ns),
                         mkReg (splitAll n q (fun w o => setBitTo w cbit o) rs ns)) :=
  measureIntoF_eq h hq hc id (fun w o => setBitTo w cbit o) (fun _ _ _ => rfl)
end meas
end Q1t.Sim.SimGF

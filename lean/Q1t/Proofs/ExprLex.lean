import Q1t.Model.Expr
import Q1t.Spec.ExprGrammar
/-!
C14, part 2: what each anchored pattern does on text of a known shape (core Lean only).
-/
namespace Q1t.Proofs.Expr
open Q1t.Expr Q1t.Spec.ExprGrammar
open Q1t.DecFloat (isDigit)

theorem isBlank_eq : isBlank = isWs := rfl

/-- All characters of `w` are white space. -/
def Blank (w : List Char) : Prop := ∀ c ∈ w, isWs c = true

theorem blank_of_all {w : List Char} (h : w.all isBlank = true) : Blank w := by
  intro c hc
  rw [isBlank_eq] at h
  exact List.all_eq_true.mp h c hc

theorem dropWs_cons_of_not {c : Char} {t : List Char} (h : isWs c = false) : dropWs (c :: t) = c :: t := by
  simp [dropWs, List.dropWhile_cons, h]

theorem dropWs_append {w s : List Char} (hw : Blank w) : dropWs (w ++ s) = dropWs s := by
  induction w with
  | nil => rfl
  | cons c t ih =>
    have hc := hw c (by simp)
    simp only [dropWs, List.cons_append, List.dropWhile_cons, hc, if_true]
    exact ih (fun x hx => hw x (by simp [hx]))

theorem dropWs_blank_cons {w t : List Char} {c : Char} (hw : Blank w) (h : isWs c = false) :
    dropWs (w ++ c :: t) = c :: t := by
  rw [dropWs_append hw, dropWs_cons_of_not h]

theorem isDigit_not_ws {c : Char} (h : isDigit c = true) : isWs c = false := by
  simp only [isDigit, Bool.and_eq_true, decide_eq_true_eq] at h
  simp only [isWs]
  have : ∀ n : Nat, 48 ≤ n → n ≤ 57 →
      ((decide (9 ≤ n) && decide (n ≤ 13)) || n == 0x20 || n == 0x85 || n == 0xA0 || n == 0x1680 ||
      (decide (0x2000 ≤ n) && decide (n ≤ 0x200A)) || n == 0x2028 || n == 0x2029 || n == 0x202F ||
      n == 0x205F || n == 0x3000) = false := by
    intro n h1 h2
    simp only [Bool.or_eq_false_iff, Bool.and_eq_false_iff, decide_eq_false_iff_not, beq_eq_false_iff_ne]
    omega
  exact this c.toNat h.1 h.2

/-! ### `stripPrefix`, `reLit`, `reOp2` -/

theorem stripPrefix_append (p s : List Char) : stripPrefix p (p ++ s) = some s := by
  induction p with
  | nil => rfl
  | cons a ps ih => simp [stripPrefix, ih]

theorem stripPrefix_cons_ne {a c : Char} {ps cs : List Char} (h : a ≠ c) :
    stripPrefix (a :: ps) (c :: cs) = none := by
  simp [stripPrefix, h]

theorem reLit_hit {w t : List Char} {c : Char} (hw : Blank w) (hc : isWs c = false) :
    reLit [c] (w ++ c :: t) = some t := by
  simp [reLit, dropWs_blank_cons hw hc, stripPrefix]

/-- First non-blank character, if any. -/
def headNB (s : List Char) : Option Char := (dropWs s).head?

theorem headNB_blank_cons {w t : List Char} {c : Char} (hw : Blank w) (hc : isWs c = false) :
    headNB (w ++ c :: t) = some c := by
  simp [headNB, dropWs_blank_cons hw hc]

theorem reLit_miss {s : List Char} {c : Char} (h : headNB s ≠ some c) : reLit [c] s = none := by
  unfold reLit headNB at *
  cases hd : dropWs s with
  | nil => simp [stripPrefix]
  | cons a t =>
    rw [hd] at h
    simp only [List.head?_cons, ne_eq, Option.some.injEq] at h
    have h2 : ¬ c = a := fun h' => h h'.symm
    simp [stripPrefix, h2]

theorem reOp2_hit {w t : List Char} {x y c : Char} (hw : Blank w) (hc : isWs c = false)
    (h : c = x ∨ c = y) : reOp2 x y (w ++ c :: t) = some (c, t) := by
  simp [reOp2, dropWs_blank_cons hw hc, h]

theorem reOp2_miss {s : List Char} {x y : Char} (h1 : headNB s ≠ some x) (h2 : headNB s ≠ some y) :
    reOp2 x y s = none := by
  unfold reOp2 headNB at *
  cases hd : dropWs s with
  | nil => rfl
  | cons a t =>
    rw [hd] at h1 h2
    simp only [List.head?_cons, ne_eq, Option.some.injEq] at h1 h2
    simp [h1, h2]

/-! ### digit runs -/

/-- `rest` does not start with a digit. -/
def NoDigit (rest : List Char) : Prop := ∀ c t, rest = c :: t → isDigit c = false

theorem takeWhile_digits {ds rest : List Char} (hd : ∀ c ∈ ds, isDigit c = true) (hr : NoDigit rest) :
    (ds ++ rest).takeWhile isDigit = ds := by
  induction ds with
  | nil =>
    cases rest with
    | nil => rfl
    | cons c t => simp [List.takeWhile_cons, hr c t rfl]
  | cons a ds ih =>
    simp only [List.cons_append, List.takeWhile_cons, hd a (by simp), if_true]
    rw [ih (fun x hx => hd x (by simp [hx]))]

theorem dropWhile_digits {ds rest : List Char} (hd : ∀ c ∈ ds, isDigit c = true) (hr : NoDigit rest) :
    (ds ++ rest).dropWhile isDigit = rest := by
  induction ds with
  | nil =>
    cases rest with
    | nil => rfl
    | cons c t => simp [List.dropWhile_cons, hr c t rfl]
  | cons a ds ih =>
    simp only [List.cons_append, List.dropWhile_cons, hd a (by simp), if_true]
    exact ih (fun x hx => hd x (by simp [hx]))

theorem digits_of_all {ds : List Char} (h : allDigits ds = true) : ∀ c ∈ ds, isDigit c = true :=
  fun c hc => List.all_eq_true.mp h c hc


/-! ### literals -/

/-- `rest` cannot extend a literal: it does not start with a digit, `.`, `e` or `E`. -/
def NoExt (rest : List Char) : Prop :=
  ∀ c t, rest = c :: t → isDigit c = false ∧ c ≠ '.' ∧ c ≠ 'e' ∧ c ≠ 'E'

theorem NoExt.noDigit {rest : List Char} (h : NoExt rest) : NoDigit rest := fun c t e => (h c t e).1

/-- The model's literal for a token of the grammar. -/
def litOf : LitTok → Lit
  | .int ds => .int ds
  | .dec ip fp ex => .real (LitTok.dec ip fp ex).text
  | .pi => .pi

theorem reExponent_none {rest : List Char} (h : NoExt rest) : reExponent rest = ([], rest) := by
  unfold reExponent
  cases rest with
  | nil => rfl
  | cons c t =>
    obtain ⟨_, _, h3, h4⟩ := h c t rfl
    simp [h3, h4]

theorem reExponent_some {x : ExpPart} {rest : List Char} (hx : x.WF = true) (hr : NoDigit rest) :
    reExponent (x.text ++ rest) = (x.text, rest) := by
  obtain ⟨m, sg, ds⟩ := x
  simp only [ExpPart.WF, Bool.and_eq_true, Bool.or_eq_true, beq_iff_eq, Bool.not_eq_true',
    List.isEmpty_eq_false_iff] at hx
  obtain ⟨⟨⟨hm, hs⟩, hne⟩, hd⟩ := hx
  have hd' := digits_of_all hd
  have hm' : (decide (m = 'e') || decide (m = 'E')) = true := by simpa using hm
  cases sg with
  | none =>
    simp only [ExpPart.text, List.nil_append, List.cons_append, reExponent, hm', if_true]
    have hos : optSign (ds ++ rest) = ([], ds ++ rest) := by
      cases ds with
      | nil => exact absurd rfl hne
      | cons d ds' =>
        have hdd := hd' d (by simp)
        have h1 : d ≠ '-' := by intro h; subst h; simp [isDigit] at hdd
        have h2 : d ≠ '+' := by intro h; subst h; simp [isDigit] at hdd
        simp [optSign, h1, h2]
    rw [hos]
    simp only [takeWhile_digits hd' hr, dropWhile_digits hd' hr, List.nil_append]
    cases ds with
    | nil => exact absurd rfl hne
    | cons d ds' => simp
  | some c =>
    have hc : (decide (c = '-') || decide (c = '+')) = true := by
      have hs' : c = '+' ∨ c = '-' := by simpa using hs
      rcases hs' with h | h <;> simp [h]
    simp only [ExpPart.text, List.cons_append, List.nil_append, reExponent, hm', if_true, optSign, hc]
    simp only [takeWhile_digits hd' hr, dropWhile_digits hd' hr]
    cases ds with
    | nil => exact absurd rfl hne
    | cons d ds' => simp

theorem reMantissa_dec {ip fp tail : List Char} (hi : allDigits ip = true) (hf : allDigits fp = true)
    (hne : ¬ (ip = [] ∧ fp = [])) (ht : NoDigit tail) :
    reMantissa (ip ++ '.' :: (fp ++ tail)) = some (ip ++ '.' :: fp, tail) := by
  have hi' := digits_of_all hi
  have hf' := digits_of_all hf
  have hdot : NoDigit ('.' :: (fp ++ tail)) := by
    intro c t e; simp only [List.cons.injEq] at e; obtain ⟨rfl, _⟩ := e; decide
  unfold reMantissa
  simp only [takeWhile_digits hi' hdot, dropWhile_digits hi' hdot]
  cases ip with
  | cons a ip' =>
    simp only [List.isEmpty_cons, Bool.not_false, if_true, takeWhile_digits hf' ht, dropWhile_digits hf' ht]
  | nil =>
    simp only [List.isEmpty_nil, Bool.not_true, List.nil_append, takeWhile_digits hf' ht,
      dropWhile_digits hf' ht]
    cases fp with
    | nil => exact absurd ⟨rfl, rfl⟩ hne
    | cons d fp' => simp

theorem reReal_dec {w ip fp rest : List Char} {ex : Option ExpPart} (hw : Blank w)
    (ht : (LitTok.dec ip fp ex).WF = true) (hr : NoExt rest) :
    reReal (w ++ (LitTok.dec ip fp ex).text ++ rest) = some ((LitTok.dec ip fp ex).text, rest) := by
  simp only [LitTok.WF, Bool.and_eq_true, Bool.not_eq_true', Bool.and_eq_false_iff,
    List.isEmpty_eq_false_iff] at ht
  obtain ⟨⟨⟨hi, hf⟩, hne⟩, hex⟩ := ht
  have hne' : ¬ (ip = [] ∧ fp = []) := by
    rintro ⟨rfl, rfl⟩; rcases hne with h | h <;> exact h rfl
  unfold reReal
  cases ex with
  | none =>
    have : w ++ (LitTok.dec ip fp none).text ++ rest = w ++ (ip ++ '.' :: (fp ++ rest)) := by
      simp [LitTok.text]
    rw [this, dropWs_append hw]
    have hd : dropWs (ip ++ '.' :: (fp ++ rest)) = ip ++ '.' :: (fp ++ rest) := by
      cases ip with
      | nil => exact dropWs_cons_of_not (by decide)
      | cons a ip' => exact dropWs_cons_of_not (isDigit_not_ws (digits_of_all hi a (by simp)))
    rw [hd, reMantissa_dec hi hf hne' hr.noDigit]
    simp [reExponent_none hr, LitTok.text]
  | some x =>
    have hx : x.WF = true := hex
    have : w ++ (LitTok.dec ip fp (some x)).text ++ rest = w ++ (ip ++ '.' :: (fp ++ (x.text ++ rest))) := by
      simp [LitTok.text]
    rw [this, dropWs_append hw]
    have hd : dropWs (ip ++ '.' :: (fp ++ (x.text ++ rest))) = ip ++ '.' :: (fp ++ (x.text ++ rest)) := by
      cases ip with
      | nil => exact dropWs_cons_of_not (by decide)
      | cons a ip' => exact dropWs_cons_of_not (isDigit_not_ws (digits_of_all hi a (by simp)))
    have htail : NoDigit (x.text ++ rest) := by
      intro c t e
      simp only [ExpPart.text, List.cons_append, List.cons.injEq] at e
      obtain ⟨rfl, _⟩ := e
      simp only [ExpPart.WF, Bool.and_eq_true, Bool.or_eq_true, beq_iff_eq] at hx
      rcases hx.1.1.1 with h | h <;> (rw [h]; decide)
    rw [hd, reMantissa_dec hi hf hne' htail]
    simp [reExponent_some hx hr.noDigit, LitTok.text]


/-- Integer tokens below 2^64 (`parse::<u64>()` succeeds). -/
def tokSmall : LitTok → Prop
  | .int ds => DecFloat.digitsToNat ds < 2 ^ 64
  | _ => True

theorem toNat_ne_of_ne {c d : Char} (h : c ≠ d) : c.toNat ≠ d.toNat := by
  intro e; apply h
  have h1 := Char.ofNat_toNat c
  have h2 := Char.ofNat_toNat d
  rw [← h1, ← h2, e]

theorem reMantissa_none_of_not_start {c : Char} {t : List Char} (h1 : isDigit c = false) (h2 : c ≠ '.') :
    reMantissa (c :: t) = none := by
  unfold reMantissa
  simp only [List.takeWhile_cons, h1, Bool.false_eq_true, if_false, List.isEmpty_nil, Bool.not_true]
  split
  · rename_i r2 heq; simp only [List.cons.injEq] at heq; exact absurd heq.1 h2
  · rfl

theorem literal_parse {w rest : List Char} {t : LitTok} (hw : Blank w) (ht : t.WF = true)
    (hs : tokSmall t) (hr : NoExt rest) :
    parseRealLiteral (w ++ t.text ++ rest) = .ok (.value (litOf t), rest) := by
  cases t with
  | dec ip fp ex =>
    unfold parseRealLiteral
    rw [reReal_dec hw ht hr]
    rfl
  | pi =>
    have e : w ++ LitTok.pi.text ++ rest = w ++ 'p' :: 'i' :: rest := by simp [LitTok.text]
    have hp : isWs 'p' = false := by decide
    unfold parseRealLiteral
    rw [e]
    have h1 : reReal (w ++ 'p' :: 'i' :: rest) = none := by
      unfold reReal
      rw [dropWs_blank_cons hw hp, reMantissa_none_of_not_start (by decide) (by decide)]
    have h2 : reInteger (w ++ 'p' :: 'i' :: rest) = none := by
      unfold reInteger
      rw [dropWs_blank_cons hw hp]
      simp
    have h3 : reLit ['p', 'i'] (w ++ 'p' :: 'i' :: rest) = some rest := by
      unfold reLit
      rw [dropWs_blank_cons hw hp]
      simp [stripPrefix]
    rw [h1, h2, h3]
    rfl
  | int ds =>
    simp only [LitTok.WF, Bool.and_eq_true, Bool.or_eq_true, beq_iff_eq] at ht
    obtain ⟨hd, hshape⟩ := ht
    have hd' := digits_of_all hd
    cases ds with
    | nil => simp at hshape
    | cons d ds' =>
      have hdd := hd' d (by simp)
      have hdw := isDigit_not_ws hdd
      have e : w ++ (LitTok.int (d :: ds')).text ++ rest = w ++ d :: (ds' ++ rest) := by simp [LitTok.text]
      unfold parseRealLiteral
      rw [e]
      have h1 : reReal (w ++ d :: (ds' ++ rest)) = none := by
        unfold reReal
        rw [dropWs_blank_cons hw hdw]
        have : reMantissa (d :: (ds' ++ rest)) = none := by
          unfold reMantissa
          have e2 : d :: (ds' ++ rest) = (d :: ds') ++ rest := rfl
          rw [e2, takeWhile_digits hd' hr.noDigit, dropWhile_digits hd' hr.noDigit]
          simp only [List.isEmpty_cons, Bool.not_false, if_true]
          split
          · rename_i r2; exact absurd rfl ((hr _ _ rfl).2.1)
          · rfl
        rw [this]
      have hds' : ∀ c ∈ ds', isDigit c = true := fun c hc => hd' c (by simp [hc])
      have h2 : reInteger (w ++ d :: (ds' ++ rest)) = some (d :: ds', rest) := by
        unfold reInteger
        rw [dropWs_blank_cons hw hdw]
        dsimp only
        rcases hshape with h0 | hnz
        · simp only [List.cons.injEq] at h0
          obtain ⟨rfl, rfl⟩ := h0
          simp
        · have hne : d ≠ '0' := by simpa using hnz
          have hn := toNat_ne_of_ne hne
          simp only [isDigit, Bool.and_eq_true, decide_eq_true_eq] at hdd
          have h48 : ('0' : Char).toNat = 48 := rfl
          have : (decide (49 ≤ d.toNat) && decide (d.toNat ≤ 57)) = true := by
            simp only [Bool.and_eq_true, decide_eq_true_eq]; omega
          rw [if_pos this, takeWhile_digits hds' hr.noDigit, dropWhile_digits hds' hr.noDigit]
      rw [h1, h2]
      dsimp only
      have hs' : DecFloat.digitsToNat (d :: ds') < 2 ^ 64 := hs
      rw [if_pos hs']
      rfl

/-! ### function names -/

theorem reFunOpen_hit {w1 w2 t : List Char} (f : Fn) (h1 : Blank w1) (h2 : Blank w2) :
    reFunOpen (w1 ++ (f.name ++ (w2 ++ '(' :: t))) = some (f.name, t) := by
  have hp : isWs '(' = false := by decide
  have hl : reLit ['('] (w2 ++ '(' :: t) = some t := reLit_hit h2 hp
  unfold reFunOpen
  rw [dropWs_append h1]
  cases f <;>
    simp [Fn.name, dropWs_cons_of_not (show isWs 's' = false by decide),
      dropWs_cons_of_not (show isWs 'c' = false by decide), dropWs_cons_of_not (show isWs 't' = false by decide),
      dropWs_cons_of_not (show isWs 'e' = false by decide), dropWs_cons_of_not (show isWs 'l' = false by decide),
      reFunOpen.go, funNames, stripPrefix, hl]

theorem reFunOpen_none_of_names {s : List Char}
    (h : ∀ nm ∈ funNames, stripPrefix nm (dropWs s) = none) : reFunOpen s = none := by
  unfold reFunOpen
  dsimp only
  generalize funNames = names at h
  induction names with
  | nil => rfl
  | cons n more ih =>
    simp only [reFunOpen.go, h n (by simp)]
    exact ih (fun nm hnm => h nm (by simp [hnm]))

theorem reFunOpen_miss {s : List Char} {c : Char} (hc : headNB s = some c)
    (h : c ≠ 's' ∧ c ≠ 'c' ∧ c ≠ 't' ∧ c ≠ 'e' ∧ c ≠ 'l') : reFunOpen s = none := by
  apply reFunOpen_none_of_names
  unfold headNB at hc
  cases hd : dropWs s with
  | nil => rw [hd] at hc; simp at hc
  | cons a t =>
    rw [hd] at hc
    simp only [List.head?_cons, Option.some.injEq] at hc
    subst hc
    obtain ⟨h1, h2, h3, h4, h5⟩ := h
    intro nm hnm
    simp only [funNames, List.mem_cons, List.not_mem_nil, or_false] at hnm
    rcases hnm with rfl | rfl | rfl | rfl | rfl | rfl <;>
      simp [stripPrefix, Ne.symm h1, Ne.symm h2, Ne.symm h3, Ne.symm h4, Ne.symm h5]

end Q1t.Proofs.Expr

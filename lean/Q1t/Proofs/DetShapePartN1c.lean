import Q1t.Proofs.DetShapePartN1b
set_option linter.unusedSectionVars false
set_option linter.unusedVariables false
set_option linter.unusedSimpArgs false
/-!
`PartN1`, step c: one `for j in 0..n` loop of `normalize` (`Tab.pass`) in terms of `bit`.

`PInv sel s2 n i0 t0 t j i piv`: columns `< j` are processed, the pivot rows are `i0 … i-1` with pivot columns
`piv` (each column has its `sel`-bit in its pivot row only), the rows `≥ i` have no `sel`-bit in the columns
`< j`; for the second selector `s2` (the X-bits while the Z-loop runs) the rows `≥ i0` are `s2`-free and the rows
`< i0` keep their `s2`-bits of `t0`.
-/
namespace Q1t.Proofs.DetPlan
open Q1t Q1t.Tableau Q1t.Spec.Pauli Q1t.Proofs.Tableau Q1t.Proofs.TabG

structure PInv (sel s2 : P → Bool) (n i0 : Nat) (t0 t : Tab) (j i : Nat) (piv : List Nat) : Prop where
  wf : t.WF
  hn : t.n = n
  hi : i ≤ n
  hlen : i = i0 + piv.length
  pbit : ∀ (a : Nat) (h : a < piv.length) (k : Nat), bit sel t k piv[a] = decide (k = i0 + a)
  clear : ∀ c, c < j → ∀ k, i ≤ k → bit sel t k c = false
  free2 : ∀ k, i0 ≤ k → ∀ c, bit s2 t k c = false
  keep2 : ∀ k, k < i0 → ∀ c, bit s2 t k c = bit s2 t0 k c

theorem swapIdx_lt (a b k : Nat) (m : Nat) (ha : m ≤ a) (hb : m ≤ b) (hk : k < m) : swapIdx a b k = k := by
  unfold swapIdx; split <;> [omega; (split <;> [omega; rfl])]

theorem swapIdx_ge (a b k m : Nat) (ha : m ≤ a) (hb : m ≤ b) (hk : m ≤ k) : m ≤ swapIdx a b k := by
  unfold swapIdx; split <;> [omega; (split <;> [omega; omega])]

theorem swapIdx_eq_iff_lt (a b k v : Nat) (ha : v < a) (hb : v < b) : swapIdx a b k = v ↔ k = v := by
  unfold swapIdx; split <;> [omega; (split <;> [omega; exact Iff.rfl])]

/-- one column of the loop -/
theorem pass_step {sel s2 : P → Bool} (hsel : XorLin sel) (hs2 : XorLin s2) (n i0 : Nat) (t0 t : Tab) (j i : Nat)
    (piv : List Nat) (hj : j < n) (inv : PInv sel s2 n i0 t0 t j i piv) (k : Nat) (hk1 : i ≤ k) (hk2 : k < n)
    (hkb : bit sel t k j = true) (t1 t2 : Tab) (e1 : t.swapRows i k = .ok t1)
    (e2 : Tab.elimRows phG sel j i (List.range t1.n) t1 = .ok t2) :
    PInv sel s2 n i0 t0 t2 (j + 1) (i + 1) (piv ++ [j]) := by
  obtain ⟨wf, hn, hi, hlen, pbit, clear, free2, keep2⟩ := inv
  have hin : i < n := by omega
  obtain ⟨hn1, hwf1, hrow1⟩ := swapRows_rowD t t1 i k e1
  have hb1 : ∀ (s : P → Bool) k' c, bit s t1 k' c = bit s t (swapIdx i k k') c := fun s k' c => by
    unfold bit; rw [hrow1 k']
  obtain ⟨hwf2, hn2, hb2⟩ := elimRows_bits hsel n j i hin (List.range t1.n) t1 t2 List.nodup_range
    (fun m hm => by rw [List.mem_range, hn1, hn] at hm; exact hm) (hwf1 wf) (hn1.trans hn) e2
  have hrl : t.rows.length = n := by rw [wf.1, hn]
  have hi0 : i0 ≤ i := by omega
  -- the pivot row after the swap
  have hpiv_i : bit sel t1 i j = true := by
    rw [hb1]; have : swapIdx i k i = k := by unfold swapIdx; split <;> simp_all
    rw [this]; exact hkb
  have hsel_i_old : ∀ a (h : a < piv.length), bit sel t1 i piv[a] = false := fun a h => by
    rw [hb1, pbit a h]
    have : swapIdx i k i = k := by unfold swapIdx; split <;> simp_all
    rw [this]; simp; omega
  have hs2_i : ∀ c, bit s2 t1 i c = false := fun c => by
    rw [hb1]; exact free2 _ (swapIdx_ge i k i i0 hi0 (by omega) hi0) c
  refine ⟨hwf2, hn2, by omega, by simp; omega, ?_, ?_, ?_, ?_⟩
  · -- pivot columns
    intro a h k'
    simp only [List.length_append, List.length_singleton] at h
    by_cases ha : a < piv.length
    · rw [List.getElem_append_left ha, hb2 sel hsel k' piv[a], hsel_i_old a ha]
      have : bit sel t1 k' piv[a] = decide (k' = i0 + a) := by
        rw [hb1, pbit a ha]
        have hiff := swapIdx_eq_iff_lt i k k' (i0 + a) (by omega) (by omega)
        by_cases hk' : k' = i0 + a
        · rw [decide_eq_true hk', decide_eq_true (hiff.mpr hk')]
        · rw [decide_eq_false hk', decide_eq_false (fun h => hk' (hiff.mp h))]
      split <;> simp [this]
    · have ha' : a = piv.length := by omega
      subst ha'
      rw [List.getElem_append_right (Nat.le_refl _)]
      simp only [Nat.sub_self, List.getElem_cons_zero]
      rw [hb2 sel hsel k' j, hpiv_i]
      by_cases hk'i : k' = i
      · subst hk'i
        have : ¬ (k' ∈ List.range t1.n ∧ k' ≠ k' ∧ bit sel t1 k' j = true) := fun h => h.2.1 rfl
        rw [if_neg this, hpiv_i]; simp; omega
      · by_cases hcond : (k' ∈ List.range t1.n ∧ k' ≠ i ∧ bit sel t1 k' j = true)
        · rw [if_pos hcond, hcond.2.2]; simp; omega
        · rw [if_neg hcond]
          have hf : bit sel t1 k' j = false := by
            by_cases hlt : k' < n
            · by_contra hne
              exact hcond ⟨by rw [List.mem_range, hn1, hn]; exact hlt, hk'i, by simpa using hne⟩
            · exact bit_oob sel t1 k' j (by rw [(hwf1 wf).1, hn1, hn]; omega)
          rw [hf]; simp; omega
  · -- cleared columns
    intro c hc k' hk'
    rw [hb2 sel hsel k' c]
    by_cases hcj : c = j
    · subst hcj
      rw [hpiv_i]
      by_cases hcond : (k' ∈ List.range t1.n ∧ k' ≠ i ∧ bit sel t1 k' c = true)
      · rw [if_pos hcond, hcond.2.2]; rfl
      · rw [if_neg hcond]
        by_cases hlt : k' < n
        · by_contra hne
          exact hcond ⟨by rw [List.mem_range, hn1, hn]; exact hlt, by omega, by simpa using hne⟩
        · exact bit_oob sel t1 k' c (by rw [(hwf1 wf).1, hn1, hn]; omega)
    · have hcl : c < j := by omega
      have h1 : bit sel t1 k' c = false := by
        rw [hb1]; exact clear c hcl _ (swapIdx_ge i k k' i (Nat.le_refl _) hk1 (by omega))
      have h2 : bit sel t1 i c = false := by
        rw [hb1]; exact clear c hcl _ (swapIdx_ge i k i i (Nat.le_refl _) hk1 (Nat.le_refl _))
      rw [h1, h2]; split <;> rfl
  · -- s2-free rows
    intro k' hk' c
    rw [hb2 s2 hs2 k' c, hs2_i c]
    have : bit s2 t1 k' c = false := by rw [hb1]; exact free2 _ (swapIdx_ge i k k' i0 hi0 (by omega) hk') c
    rw [this]; split <;> rfl
  · intro k' hk' c
    rw [hb2 s2 hs2 k' c, hs2_i c]
    have : bit s2 t1 k' c = bit s2 t0 k' c := by
      rw [hb1, swapIdx_lt i k k' i0 hi0 (by omega) hk']; exact keep2 k' hk' c
    rw [this]; split <;> simp

end Q1t.Proofs.DetPlan

import Q1t.Proofs.EmbedUnitary
import Q1t.Proofs.RouteCond
/-!
# Algebraic laws of the reference matrix `Spec.embed` (service file for C11/C12, read-only for them)

For all register sizes `n`, all valid placements, any commutative ring.  Matrices are `LMat α` with the
shape predicate `WFMat d M` (`M.length = d ∧ ∀ row ∈ M, row.length = d`) used throughout C04.

* tools: `unsplit` (the index with given listed / unlisted qubits), `sum_embed_row` (a row of `embed`
  against any function), `qbit_subIndex`;
* (1) `embed_mul`, `embed_one`, `embed_pow`;
* (2) `embed_compose` (placement inside a placement), `embed_foldl_compose(_one)` (a whole gate body);
* (3) `embed_mul_disjoint_get`, `embed_commute_disjoint`, `embed_kron`;
* (4) `embed_smul`, `embed_controlled_get`, `embed_controlled`;
* (5) `mulVec` versions.
-/
namespace Q1t.Proofs.Route
open Q1t Q1t.Gate Q1t.Spec Q1t.Spec.Perm Q1t.Proofs.BitPerm
variable {α : Type} [CommRing α]
set_option linter.unusedSectionVars false
set_option linter.unusedVariables false

/-! ## tools -/

/-- two square matrices with the same entries are equal -/
theorem wfMat_ext (d : Nat) (A B : LMat α) (hA : WFMat d A) (hB : WFMat d B)
    (h : ∀ i j, i < d → j < d → LMat.get A i j = LMat.get B i j) : A = B :=
  LMat.ext_get (show LMat.WF d d A from hA) (show LMat.WF d d B from hB) (fun i hi j hj => h i j hi hj)

/-- the index whose listed qubits spell `s` and whose other qubits spell `t` -/
def unsplit (n : Nat) (bits : List Nat) (s t : Nat) : Nat :=
  (gatherInv n bits).getD (s * 2 ^ (n - bits.length) + t) 0

section unsplit
variable (n : Nat) (bits : List Nat) (hv : validBits n bits = true)
include hv

theorem rest_lt (y : Nat) : subIndex n (others n bits) y < 2 ^ (n - bits.length) := by
  have := subIndex_lt n (others n bits) y
  rwa [others_length n bits hv] at this

theorem unsplit_spec (s t : Nat) (hs : s < 2 ^ bits.length) (ht : t < 2 ^ (n - bits.length)) :
    unsplit n bits s t < 2 ^ n ∧ subIndex n bits (unsplit n bits s t) = s ∧
      subIndex n (others n bits) (unsplit n bits s t) = t := by
  have hk : bits.length ≤ n := validBits_length_le n bits hv
  have hj : s * 2 ^ (n - bits.length) + t < 2 ^ n := by
    rw [← pow_split n _ hk]; exact block_lt s _ _ _ hs ht
  have hgx := gather_gatherInv n bits hv _ hj
  have hs' := gather_split n bits hv (unsplit n bits s t)
  unfold unsplit at hs' ⊢
  rw [hgx, (div_mod_block s _ _ ht).1, (div_mod_block s _ _ ht).2] at hs'
  exact ⟨gatherInv_lt n bits hv _ hj, hs'.1.symm, hs'.2.symm⟩

/-- the unlisted qubits of `unsplit s (rest r)` are those of `r` -/
theorem qbit_unsplit_off (s r : Nat) (hs : s < 2 ^ bits.length) (q : Nat) (hq : q < n) (hqb : q ∉ bits) :
    qbit n q (unsplit n bits s (subIndex n (others n bits) r)) = qbit n q r :=
  (subIndex_eq_iff n (others n bits) _ r).1
    (unsplit_spec n bits hv s _ hs (rest_lt n bits hv r)).2.2 q ((mem_others n bits q).2 ⟨hq, hqb⟩)

/-- a row of the embedded matrix against any function of the column index -/
theorem sum_embed_row (A : LMat α) (r : Nat) (hr : r < 2 ^ n) (f : Nat → α) :
    ∑ x ∈ Finset.range (2 ^ n), LMat.get (embed n bits A) r x * f x =
      ∑ s ∈ Finset.range (2 ^ bits.length), LMat.get A (subIndex n bits r) s *
        f (unsplit n bits s (subIndex n (others n bits) r)) := by
  have hk : bits.length ≤ n := validBits_length_le n bits hv
  set T := 2 ^ (n - bits.length) with hT
  rw [Finset.sum_nbij' (s := Finset.range (2 ^ n)) (t := Finset.range (2 ^ n))
    (g := fun j => LMat.get (embed n bits A) r ((gatherInv n bits).getD j 0) *
      f ((gatherInv n bits).getD j 0))
    (gatherIndex n bits) (fun j => (gatherInv n bits).getD j 0)
    (fun a _ => Finset.mem_range.2 (gatherIndex_lt n bits hv a))
    (fun a ha => Finset.mem_range.2 (gatherInv_lt n bits hv a (Finset.mem_range.1 ha)))
    (fun a ha => gatherInv_gather n bits hv a (Finset.mem_range.1 ha))
    (fun a ha => gather_gatherInv n bits hv a (Finset.mem_range.1 ha))
    (fun a ha => by simp only [gatherInv_gather n bits hv a (Finset.mem_range.1 ha)])]
  rw [← pow_split n _ hk, sum_range_mul, ← hT]
  apply Finset.sum_congr rfl
  intro s hs
  have hs' : s < 2 ^ bits.length := Finset.mem_range.1 hs
  rw [Finset.sum_eq_single (subIndex n (others n bits) r)]
  · obtain ⟨hxlt, hsub, hrest⟩ := unsplit_spec n bits hv s _ hs' (rest_lt n bits hv r)
    show LMat.get (embed n bits A) r (unsplit n bits s (subIndex n (others n bits) r)) * _ = _
    rw [embed_get n bits A r _ hr hxlt, if_pos ((agreeOff_iff' n bits r _).2 hrest.symm), hsub]
    rfl
  · intro t ht hne
    have htlt : t < T := Finset.mem_range.1 ht
    obtain ⟨hxlt, hsub, hrest⟩ := unsplit_spec n bits hv s t hs' htlt
    show LMat.get (embed n bits A) r (unsplit n bits s t) * _ = _
    rw [embed_get n bits A r _ hr hxlt, if_neg, zero_mul]
    intro hag
    have := (agreeOff_iff' n bits r _).1 hag
    rw [hrest] at this
    exact hne this.symm
  · intro hh; exact absurd (Finset.mem_range.2 (rest_lt n bits hv r)) hh

end unsplit

/-! ## (1) products, identity, powers -/

theorem embed_mul (n : Nat) (bits : List Nat) (hv : validBits n bits = true) (A B : LMat α)
    (hA : WFMat (2 ^ bits.length) A) (hB : WFMat (2 ^ bits.length) B) :
    embed n bits (LMat.mul A B) = LMat.mul (embed n bits A) (embed n bits B) := by
  have hEA := embed_wf (α := α) n bits A
  have hEB := embed_wf (α := α) n bits B
  apply wfMat_ext (2 ^ n) _ _ (embed_wf n bits _) (mul_wf _ _ _ hEA hEB)
  intro r c hr hc
  rw [get_mul (2 ^ n) _ _ hEA hEB r c hr hc, sum_embed_row n bits hv A r hr, embed_get n bits _ r c hr hc]
  have hterm : ∀ s ∈ Finset.range (2 ^ bits.length),
      LMat.get A (subIndex n bits r) s *
        LMat.get (embed n bits B) (unsplit n bits s (subIndex n (others n bits) r)) c =
      if agreeOff n bits r c then LMat.get A (subIndex n bits r) s * LMat.get B s (subIndex n bits c)
      else 0 := by
    intro s hs
    obtain ⟨hxlt, hsub, hrest⟩ :=
      unsplit_spec n bits hv s _ (Finset.mem_range.1 hs) (rest_lt n bits hv r)
    rw [embed_get n bits B _ c hxlt hc, hsub]
    have hiff : agreeOff n bits (unsplit n bits s (subIndex n (others n bits) r)) c = true ↔
        agreeOff n bits r c = true := by
      rw [agreeOff_iff', agreeOff_iff', hrest]
    by_cases hag : agreeOff n bits r c = true
    · rw [if_pos hag, if_pos (hiff.2 hag)]
    · rw [if_neg hag, if_neg (fun h => hag (hiff.1 h)), mul_zero]
  rw [Finset.sum_congr rfl hterm]
  by_cases hag : agreeOff n bits r c = true
  · simp only [if_pos hag]
    rw [get_mul _ A B hA hB _ _ (subIndex_lt n bits r) (subIndex_lt n bits c)]
  · simp only [if_neg hag, Finset.sum_const_zero]

theorem embed_one (n : Nat) (bits : List Nat) (hv : validBits n bits = true) :
    embed n bits (LMat.identity (2 ^ bits.length) : LMat α) = LMat.identity (2 ^ n) := by
  apply wfMat_ext (2 ^ n) _ _ (embed_wf n bits _) (identity_wf _)
  intro r c hr hc
  rw [embed_get n bits _ r c hr hc, get_identity _ _ _ (subIndex_lt n bits r) (subIndex_lt n bits c),
    get_identity _ r c hr hc]
  by_cases hrc : r = c
  · subst hrc
    rw [if_pos ((agreeOff_iff' n bits r r).2 rfl), if_pos rfl, if_pos rfl]
  · rw [if_neg hrc]
    by_cases hag : agreeOff n bits r c = true
    · rw [if_pos hag, if_neg]
      intro hsub
      exact hrc ((eq_iff_sub_rest n bits hv r c hr hc).2 ⟨hsub, (agreeOff_iff' n bits r c).1 hag⟩)
    · rw [if_neg hag]

theorem embed_pow (n : Nat) (bits : List Nat) (hv : validBits n bits = true) (A : LMat α)
    (hA : WFMat (2 ^ bits.length) A) (j : Nat) :
    embed n bits (mpow A j) = mpow (embed n bits A) j := by
  induction j with
  | zero =>
    show embed n bits (LMat.identity A.length) = LMat.identity (embed n bits A).length
    rw [hA.1, (embed_wf n bits A).1, embed_one n bits hv]
  | succ j ih =>
    show embed n bits (LMat.mul A (mpow A j)) = LMat.mul (embed n bits A) (mpow (embed n bits A) j)
    rw [embed_mul n bits hv A _ hA (mpow_wf _ A hA j), ih]

/-! ## (4a) scalars -/

/-- `a · M`, entry by entry (the same body as `Spec.scale`, `CQ1.scale`, `OQ2Exact.smulMat`) -/
def smul (a : α) (M : LMat α) : LMat α := M.map fun row => row.map fun x => a * x

theorem smul_wf (d : Nat) (a : α) (M : LMat α) (hM : WFMat d M) : WFMat d (smul a M) := by
  refine ⟨by simp [smul, hM.1], ?_⟩
  intro row hrow
  obtain ⟨r0, h0, rfl⟩ := List.mem_map.1 hrow
  simp [hM.2 r0 h0]

theorem get_smul (d : Nat) (a : α) (M : LMat α) (hM : WFMat d M) (i j : Nat) (hi : i < d) (hj : j < d) :
    LMat.get (smul a M) i j = a * LMat.get M i j := by
  have hi' : i < M.length := by rw [hM.1]; exact hi
  have hj' : j < M[i].length := by rw [hM.2 _ (List.getElem_mem _)]; exact hj
  simp [smul, LMat.get, List.getD_eq_getElem?_getD, hi', hj']

theorem embed_smul (n : Nat) (bits : List Nat) (a : α) (M : LMat α) (hM : WFMat (2 ^ bits.length) M) :
    embed n bits (smul a M) = smul a (embed n bits M) := by
  apply wfMat_ext (2 ^ n) _ _ (embed_wf n bits _) (smul_wf _ a _ (embed_wf n bits M))
  intro r c hr hc
  rw [get_smul _ a _ (embed_wf n bits M) r c hr hc, embed_get n bits _ r c hr hc,
    embed_get n bits M r c hr hc]
  by_cases hag : agreeOff n bits r c = true
  · rw [if_pos hag, if_pos hag, get_smul _ a M hM _ _ (subIndex_lt n bits r) (subIndex_lt n bits c)]
  · rw [if_neg hag, if_neg hag, mul_zero]

/-! ## (2) a placement inside a placement -/

/-- the register qubits addressed by the local qubits `sub` of a gate placed on `bits` -/
def relabel (bits sub : List Nat) : List Nat := sub.map fun j => bits.getD j 0

theorem agreeOff_iff_forall (n : Nat) (bits : List Nat) (r c : Nat) :
    agreeOff n bits r c = true ↔ ∀ q, q < n → q ∈ bits ∨ qbit n q r = qbit n q c := by
  simp only [agreeOff, List.all_eq_true, List.mem_range, Bool.or_eq_true, List.contains_iff_mem,
    beq_iff_eq]

theorem qbit_add_high (L j a st : Nat) (hj : j < L) :
    qbit (L + 1) (j + 1) (a * 2 ^ L + st) = qbit L j st := by
  rw [qbit, qbit, Nat.shiftRight_eq_div_pow, Nat.shiftRight_eq_div_pow]
  have e : L + 1 - 1 - (j + 1) = L - 1 - j := by omega
  rw [e]
  obtain ⟨d, hd⟩ : ∃ d, L = (L - 1 - j) + (d + 1) := ⟨j, by omega⟩
  have hp : a * 2 ^ L = 2 ^ (L - 1 - j) * (2 * (a * 2 ^ d)) := by
    conv_lhs => rw [hd]
    rw [Nat.pow_add, Nat.pow_succ]; ring
  rw [hp, Nat.mul_add_div (Nat.two_pow_pos _), Nat.mul_add_mod]

/-- local qubit `j` of the gate-local index is register qubit `bits[j]` -/
theorem qbit_subIndex (n : Nat) (r : Nat) : ∀ (bits : List Nat) (j : Nat) (hj : j < bits.length),
    qbit bits.length j (subIndex n bits r) = qbit n bits[j] r
  | x :: t, 0, _ => by
    rw [subIndex_cons, List.getElem_cons_zero, qbit, List.length_cons, Nat.shiftRight_eq_div_pow]
    have hst := subIndex_lt n t r
    have hq := qbit_lt_two n x r
    have e : t.length + 1 - 1 - 0 = t.length := by omega
    rw [e, Nat.add_comm, Nat.add_mul_div_right _ _ (Nat.two_pow_pos _), Nat.div_eq_of_lt hst, Nat.zero_add,
      Nat.mod_eq_of_lt hq]
  | x :: t, j + 1, hj => by
    have hj' : j < t.length := by simpa using hj
    rw [subIndex_cons, List.getElem_cons_succ, ← qbit_subIndex n r t j hj', List.length_cons]
    exact qbit_add_high t.length j _ _ hj'

theorem relabel_getD (bits : List Nat) (j : Nat) (hj : j < bits.length) : bits.getD j 0 = bits[j] := by
  simp [List.getD_eq_getElem?_getD, hj]

theorem subIndex_relabel (n : Nat) (bits : List Nat) (r : Nat) : ∀ (sub : List Nat),
    (∀ j ∈ sub, j < bits.length) →
    subIndex bits.length sub (subIndex n bits r) = subIndex n (relabel bits sub) r
  | [], _ => rfl
  | j :: t, h => by
    have hj : j < bits.length := h j (by simp)
    rw [relabel, List.map_cons, subIndex_cons, subIndex_cons, List.length_map,
      qbit_subIndex n r bits j hj, relabel_getD bits j hj]
    congr 1
    exact subIndex_relabel n bits r t (fun i hi => h i (List.mem_cons_of_mem _ hi))

theorem mem_relabel (bits sub : List Nat) (q : Nat) :
    q ∈ relabel bits sub ↔ ∃ j ∈ sub, bits.getD j 0 = q := by
  simp [relabel]

theorem validBits_relabel (n : Nat) (bits sub : List Nat) (hv : validBits n bits = true)
    (hsub : validBits bits.length sub = true) : validBits n (relabel bits sub) = true := by
  obtain ⟨hlt, hnd⟩ := (validBits_iff n bits).1 hv
  obtain ⟨hslt, hsnd⟩ := (validBits_iff _ sub).1 hsub
  rw [validBits_iff]
  constructor
  · intro q hq
    obtain ⟨j, hj, rfl⟩ := (mem_relabel bits sub q).1 hq
    rw [relabel_getD bits j (hslt j hj)]
    exact hlt _ (List.getElem_mem _)
  · unfold relabel
    apply List.Nodup.map_on _ hsnd
    intro a ha b hb hab
    rw [relabel_getD bits a (hslt a ha), relabel_getD bits b (hslt b hb)] at hab
    exact (List.Nodup.getElem_inj_iff hnd).1 hab

theorem length_relabel (bits sub : List Nat) : (relabel bits sub).length = sub.length := by
  simp [relabel]

theorem agreeOff_relabel (n : Nat) (bits sub : List Nat) (hv : validBits n bits = true)
    (hsub : validBits bits.length sub = true) (r c : Nat) :
    agreeOff n (relabel bits sub) r c = true ↔
      (agreeOff n bits r c = true ∧
        agreeOff bits.length sub (subIndex n bits r) (subIndex n bits c) = true) := by
  obtain ⟨hlt, hnd⟩ := (validBits_iff n bits).1 hv
  obtain ⟨hslt, hsnd⟩ := (validBits_iff _ sub).1 hsub
  simp only [agreeOff_iff_forall]
  constructor
  · intro H
    constructor
    · intro q hq
      rcases H q hq with h | h
      · obtain ⟨j, hj, rfl⟩ := (mem_relabel bits sub q).1 h
        rw [relabel_getD bits j (hslt j hj)]
        exact Or.inl (List.getElem_mem _)
      · exact Or.inr h
    · intro j hj
      by_cases hjs : j ∈ sub
      · exact Or.inl hjs
      · right
        rw [qbit_subIndex n r bits j hj, qbit_subIndex n c bits j hj]
        rcases H bits[j] (hlt _ (List.getElem_mem _)) with h | h
        · obtain ⟨j', hj', e⟩ := (mem_relabel bits sub _).1 h
          rw [relabel_getD bits j' (hslt j' hj')] at e
          have := (List.Nodup.getElem_inj_iff hnd).1 e
          exact absurd (this ▸ hj') hjs
        · exact h
  · rintro ⟨H1, H2⟩ q hq
    by_cases hqb : q ∈ bits
    · obtain ⟨j, hj, rfl⟩ := List.getElem_of_mem hqb
      by_cases hjs : j ∈ sub
      · exact Or.inl ((mem_relabel bits sub _).2 ⟨j, hjs, relabel_getD bits j hj⟩)
      · right
        rcases H2 j hj with h | h
        · exact absurd h hjs
        · rwa [qbit_subIndex n r bits j hj, qbit_subIndex n c bits j hj] at h
    · rcases H1 q hq with h | h
      · exact absurd h hqb
      · exact Or.inr h

/-- a gate placed on the local qubits `sub` of a `k`-qubit gate that is itself placed on `bits` is the
gate placed on the register qubits `bits[sub[0]], bits[sub[1]], …` -/
theorem embed_compose (n : Nat) (bits : List Nat) (hv : validBits n bits = true) (sub : List Nat)
    (hsub : validBits bits.length sub = true) (M : LMat α) :
    embed n bits (embed bits.length sub M) = embed n (relabel bits sub) M := by
  obtain ⟨hslt, _⟩ := (validBits_iff _ sub).1 hsub
  apply wfMat_ext (2 ^ n) _ _ (embed_wf n bits _) (embed_wf n _ M)
  intro r c hr hc
  rw [embed_get n bits _ r c hr hc, embed_get n _ M r c hr hc,
    embed_get _ sub M _ _ (subIndex_lt n bits r) (subIndex_lt n bits c),
    subIndex_relabel n bits r sub hslt, subIndex_relabel n bits c sub hslt]
  have hiff := agreeOff_relabel n bits sub hv hsub r c
  by_cases h1 : agreeOff n bits r c = true
  · rw [if_pos h1]
    by_cases h2 : agreeOff bits.length sub (subIndex n bits r) (subIndex n bits c) = true
    · rw [if_pos h2, if_pos (hiff.2 ⟨h1, h2⟩)]
    · rw [if_neg h2, if_neg (fun h => h2 (hiff.1 h).2)]
  · rw [if_neg h1, if_neg (fun h => h1 (hiff.1 h).1)]

/-- an ordered product of placed gates (first element acts first), placed as a whole on `bits`, is the
ordered product of the gates placed on the relabelled qubits — the lifting of a gate body to a register -/
theorem embed_foldl_compose (n : Nat) (bits : List Nat) (hv : validBits n bits = true) :
    ∀ (apps : List (List Nat × LMat α)), (∀ a ∈ apps, validBits bits.length a.1 = true) →
    ∀ acc : LMat α, WFMat (2 ^ bits.length) acc →
      embed n bits (apps.foldl (fun acc a => LMat.mul (embed bits.length a.1 a.2) acc) acc) =
        apps.foldl (fun acc a => LMat.mul (embed n (relabel bits a.1) a.2) acc) (embed n bits acc)
  | [], _, acc, _ => rfl
  | a :: rest, h, acc, hacc => by
    rw [List.foldl_cons, List.foldl_cons,
      embed_foldl_compose n bits hv rest (fun b hb => h b (List.mem_cons_of_mem _ hb)) _
        (mul_wf _ _ _ (embed_wf _ a.1 a.2) hacc),
      embed_mul n bits hv _ acc (embed_wf _ a.1 a.2) hacc,
      embed_compose n bits hv a.1 (h a (by simp)) a.2]

/-- ... starting from the identity -/
theorem embed_foldl_compose_one (n : Nat) (bits : List Nat) (hv : validBits n bits = true)
    (apps : List (List Nat × LMat α)) (h : ∀ a ∈ apps, validBits bits.length a.1 = true) :
    embed n bits (apps.foldl (fun acc a => LMat.mul (embed bits.length a.1 a.2) acc)
        (LMat.identity (2 ^ bits.length))) =
      apps.foldl (fun acc a => LMat.mul (embed n (relabel bits a.1) a.2) acc) (LMat.identity (2 ^ n)) := by
  rw [embed_foldl_compose n bits hv apps h _ (identity_wf _), embed_one n bits hv]

/-! ## (3) disjoint placements: product, commutation, Kronecker product -/

/-- no qubit is listed in both tuples -/
def Disjoint2 (b0 b1 : List Nat) : Prop := ∀ q, q ∈ b0 → q ∉ b1

theorem validBits_append (n : Nat) (b0 b1 : List Nat) (h0 : validBits n b0 = true)
    (h1 : validBits n b1 = true) (hd : Disjoint2 b0 b1) : validBits n (b0 ++ b1) = true := by
  rw [validBits_iff] at h0 h1 ⊢
  refine ⟨fun x hx => ?_, List.Nodup.append h0.2 h1.2 (fun a ha hb => hd a ha hb)⟩
  rcases List.mem_append.1 hx with h | h
  · exact h0.1 x h
  · exact h1.1 x h

theorem validBits_of_append (n : Nat) (b0 b1 : List Nat) (h : validBits n (b0 ++ b1) = true) :
    validBits n b0 = true ∧ validBits n b1 = true ∧ Disjoint2 b0 b1 := by
  rw [validBits_iff] at h
  have hnd := List.nodup_append.1 h.2
  refine ⟨(validBits_iff n b0).2 ⟨fun x hx => h.1 x (List.mem_append_left _ hx), hnd.1⟩,
    (validBits_iff n b1).2 ⟨fun x hx => h.1 x (List.mem_append_right _ hx), hnd.2.1⟩, ?_⟩
  intro q h0 h1
  exact hnd.2.2 q h0 q h1 rfl

/-- entries of the product of two embedded matrices on disjoint qubit tuples -/
theorem embed_mul_disjoint_get (n : Nat) (b0 b1 : List Nat) (h0 : validBits n b0 = true)
    (h1 : validBits n b1 = true) (hd : Disjoint2 b0 b1) (A B : LMat α) (r c : Nat) (hr : r < 2 ^ n)
    (hc : c < 2 ^ n) :
    LMat.get (LMat.mul (embed n b0 A) (embed n b1 B)) r c =
      if agreeOff n (b0 ++ b1) r c then
        LMat.get A (subIndex n b0 r) (subIndex n b0 c) * LMat.get B (subIndex n b1 r) (subIndex n b1 c)
      else 0 := by
  obtain ⟨hlt0, _⟩ := (validBits_iff n b0).1 h0
  obtain ⟨hlt1, _⟩ := (validBits_iff n b1).1 h1
  rw [get_mul (2 ^ n) _ _ (embed_wf n b0 A) (embed_wf n b1 B) r c hr hc, sum_embed_row n b0 h0 A r hr]
  have hterm : ∀ s ∈ Finset.range (2 ^ b0.length),
      LMat.get A (subIndex n b0 r) s *
        LMat.get (embed n b1 B) (unsplit n b0 s (subIndex n (others n b0) r)) c =
      if s = subIndex n b0 c ∧ agreeOff n (b0 ++ b1) r c = true then
        LMat.get A (subIndex n b0 r) s * LMat.get B (subIndex n b1 r) (subIndex n b1 c)
      else 0 := by
    intro s hs
    have hs' : s < 2 ^ b0.length := Finset.mem_range.1 hs
    obtain ⟨hxlt, hsub, hrest⟩ := unsplit_spec n b0 h0 s _ hs' (rest_lt n b0 h0 r)
    have hoff := qbit_unsplit_off n b0 h0 s r hs'
    set x := unsplit n b0 s (subIndex n (others n b0) r) with hx
    have hsub1 : subIndex n b1 x = subIndex n b1 r :=
      (subIndex_eq_iff n b1 x r).2 (fun q hq => hoff q (hlt1 q hq) (fun hq0 => hd q hq0 hq))
    have hiff : agreeOff n b1 x c = true ↔ (s = subIndex n b0 c ∧ agreeOff n (b0 ++ b1) r c = true) := by
      rw [agreeOff_iff_forall, agreeOff_iff_forall]
      constructor
      · intro H
        constructor
        · rw [← hsub]
          apply (subIndex_eq_iff n b0 x c).2
          intro q hq
          rcases H q (hlt0 q hq) with h | h
          · exact absurd h (hd q hq)
          · exact h
        · intro q hq
          by_cases hq0 : q ∈ b0
          · exact Or.inl (List.mem_append_left _ hq0)
          · rcases H q hq with h | h
            · exact Or.inl (List.mem_append_right _ h)
            · right; rw [← hoff q hq hq0]; exact h
      · rintro ⟨hs0, H⟩ q hq
        by_cases hq1 : q ∈ b1
        · exact Or.inl hq1
        · right
          by_cases hq0 : q ∈ b0
          · have : subIndex n b0 x = subIndex n b0 c := by rw [hsub, hs0]
            exact (subIndex_eq_iff n b0 x c).1 this q hq0
          · rw [hoff q hq hq0]
            rcases H q hq with h | h
            · rcases List.mem_append.1 h with h | h
              · exact absurd h hq0
              · exact absurd h hq1
            · exact h
    rw [embed_get n b1 B x c hxlt hc, hsub1]
    by_cases hag : agreeOff n b1 x c = true
    · rw [if_pos hag, if_pos (hiff.1 hag)]
    · rw [if_neg hag, if_neg (fun h => hag (hiff.2 h)), mul_zero]
  rw [Finset.sum_congr rfl hterm]
  by_cases hag : agreeOff n (b0 ++ b1) r c = true
  · rw [if_pos hag, Finset.sum_eq_single (subIndex n b0 c)]
    · rw [if_pos ⟨rfl, hag⟩]
    · intro s _ hne
      rw [if_neg (fun h => hne h.1)]
    · intro hh; exact absurd (Finset.mem_range.2 (subIndex_lt n b0 c)) hh
  · rw [if_neg hag]
    apply Finset.sum_eq_zero
    intro s _
    rw [if_neg (fun h => hag h.2)]

theorem agreeOff_append_comm (n : Nat) (b0 b1 : List Nat) (r c : Nat) :
    agreeOff n (b0 ++ b1) r c = agreeOff n (b1 ++ b0) r c := by
  have : agreeOff n (b0 ++ b1) r c = true ↔ agreeOff n (b1 ++ b0) r c = true := by
    simp only [agreeOff_iff_forall, List.mem_append, or_comm]
  cases h1 : agreeOff n (b0 ++ b1) r c <;> cases h2 : agreeOff n (b1 ++ b0) r c <;> simp_all

/-- embedded matrices on disjoint qubit tuples commute -/
theorem embed_commute_disjoint (n : Nat) (b0 b1 : List Nat) (h0 : validBits n b0 = true)
    (h1 : validBits n b1 = true) (hd : Disjoint2 b0 b1) (A B : LMat α) :
    LMat.mul (embed n b0 A) (embed n b1 B) = LMat.mul (embed n b1 B) (embed n b0 A) := by
  have hE0 := embed_wf (α := α) n b0 A
  have hE1 := embed_wf (α := α) n b1 B
  apply wfMat_ext (2 ^ n) _ _ (mul_wf _ _ _ hE0 hE1) (mul_wf _ _ _ hE1 hE0)
  intro r c hr hc
  rw [embed_mul_disjoint_get n b0 b1 h0 h1 hd A B r c hr hc,
    embed_mul_disjoint_get n b1 b0 h1 h0 (fun q hq1 hq0 => hd q hq0 hq1) B A r c hr hc,
    agreeOff_append_comm n b0 b1 r c, mul_comm]

/-- the Kronecker product placed on `b0 ++ b1` is the product of the factors placed on `b0` and on `b1` -/
theorem embed_kron (n : Nat) (b0 b1 : List Nat) (hv : validBits n (b0 ++ b1) = true) (A B : LMat α)
    (hA : WFMat (2 ^ b0.length) A) (hB : WFMat (2 ^ b1.length) B) :
    embed n (b0 ++ b1) (LMat.kron A B) = LMat.mul (embed n b0 A) (embed n b1 B) := by
  obtain ⟨h0, h1, hd⟩ := validBits_of_append n b0 b1 hv
  apply wfMat_ext (2 ^ n) _ _ (embed_wf n _ _) (mul_wf _ _ _ (embed_wf n b0 A) (embed_wf n b1 B))
  intro r c hr hc
  rw [embed_mul_disjoint_get n b0 b1 h0 h1 hd A B r c hr hc, embed_get n _ _ r c hr hc]
  by_cases hag : agreeOff n (b0 ++ b1) r c = true
  · rw [if_pos hag, if_pos hag, subIndex_append, subIndex_append]
    have hr1 := subIndex_lt n b1 r
    have hc1 := subIndex_lt n b1 c
    rw [get_kron A B _ _ hA hB _ _ (block_lt _ _ _ _ (subIndex_lt n b0 r) hr1)
      (block_lt _ _ _ _ (subIndex_lt n b0 c) hc1),
      (div_mod_block _ _ _ hr1).1, (div_mod_block _ _ _ hr1).2, (div_mod_block _ _ _ hc1).1,
      (div_mod_block _ _ _ hc1).2, mul_comm]
  · rw [if_neg hag, if_neg hag]

/-! ## (4b) controlled gates -/

/-- entry-wise sum of two matrices of the same shape -/
def madd (A B : LMat α) : LMat α := List.zipWith (List.zipWith (· + ·)) A B

/-- the diagonal projector on the basis states whose qubit `c` has value `b` -/
def proj (n c b : Nat) : LMat α :=
  (List.range (2 ^ n)).map fun r => (List.range (2 ^ n)).map fun x =>
    if r = x ∧ qbit n c r = b then (1 : α) else 0

theorem proj_wf (n c b : Nat) : WFMat (2 ^ n) (proj n c b : LMat α) := by
  refine ⟨by simp [proj], ?_⟩
  intro row hrow
  obtain ⟨_, _, rfl⟩ := List.mem_map.1 hrow
  simp

theorem get_proj (n c b r x : Nat) (hr : r < 2 ^ n) (hx : x < 2 ^ n) :
    LMat.get (proj n c b : LMat α) r x = if r = x ∧ qbit n c r = b then 1 else 0 := by
  simp [proj, LMat.get, List.getD_eq_getElem?_getD, hr, hx]

theorem madd_wf (d : Nat) (A B : LMat α) (hA : WFMat d A) (hB : WFMat d B) : WFMat d (madd A B) := by
  refine ⟨by simp [madd, hA.1, hB.1], ?_⟩
  intro row hrow
  unfold madd at hrow
  obtain ⟨i, hi, rfl⟩ := List.getElem_of_mem hrow
  simp only [List.length_zipWith] at hi
  simp [hA.2 _ (List.getElem_mem _), hB.2 _ (List.getElem_mem _)]

theorem get_madd (d : Nat) (A B : LMat α) (hA : WFMat d A) (hB : WFMat d B) (i j : Nat) (hi : i < d)
    (hj : j < d) : LMat.get (madd A B) i j = LMat.get A i j + LMat.get B i j := by
  have hiA : i < A.length := by rw [hA.1]; exact hi
  have hiB : i < B.length := by rw [hB.1]; exact hi
  have hjA : j < A[i].length := by rw [hA.2 _ (List.getElem_mem _)]; exact hj
  have hjB : j < B[i].length := by rw [hB.2 _ (List.getElem_mem _)]; exact hj
  simp [madd, LMat.get, List.getD_eq_getElem?_getD, hiA, hiB, hjA, hjB]

/-- a diagonal projector times a matrix keeps the rows it selects -/
theorem get_proj_mul (n c b : Nat) (E : LMat α) (hE : WFMat (2 ^ n) E) (r x : Nat) (hr : r < 2 ^ n)
    (hx : x < 2 ^ n) :
    LMat.get (LMat.mul (proj n c b) E) r x = if qbit n c r = b then LMat.get E r x else 0 := by
  rw [get_mul (2 ^ n) _ E (proj_wf n c b) hE r x hr hx, Finset.sum_eq_single r]
  · rw [get_proj n c b r r hr hr]
    by_cases hb : qbit n c r = b
    · rw [if_pos ⟨rfl, hb⟩, if_pos hb, one_mul]
    · rw [if_neg (fun h => hb h.2), if_neg hb, zero_mul]
  · intro y hy hne
    rw [get_proj n c b r y hr (Finset.mem_range.1 hy), if_neg (fun h => hne h.1.symm), zero_mul]
  · intro hh; exact absurd (Finset.mem_range.2 hr) hh

/-- the projector is the embedded 2×2 diagonal unit -/
theorem proj_eq_embed (n c b : Nat) (hc : c < n) (hb : b < 2) :
    (proj n c b : LMat α) =
      embed n [c] [[if b = 0 then 1 else 0, 0], [0, if b = 1 then 1 else 0]] := by
  have hv : validBits n [c] = true := validBits_single n c hc
  apply wfMat_ext (2 ^ n) _ _ (proj_wf n c b) (embed_wf n _ _)
  intro r x hr hx
  rw [get_proj n c b r x hr hx, embed_get n [c] _ r x hr hx]
  have hsr : subIndex n [c] r = qbit n c r := by simp [subIndex_cons, subIndex_nil]
  have hsx : subIndex n [c] x = qbit n c x := by simp [subIndex_cons, subIndex_nil]
  rw [hsr, hsx]
  have hqr := qbit_lt_two n c r
  have hqx := qbit_lt_two n c x
  have hiff := eq_iff_sub_rest n [c] hv r x hr hx
  rw [hsr, hsx, ← agreeOff_iff'] at hiff
  by_cases hag : agreeOff n [c] r x = true
  · rw [if_pos hag]
    by_cases hq : qbit n c r = qbit n c x
    · have hrx : r = x := hiff.2 ⟨hq, hag⟩
      subst hrx
      interval_cases b <;> interval_cases h : qbit n c r <;> simp [LMat.get]
    · have hrx : r ≠ x := fun e => hq (hiff.1 e).1
      rw [if_neg (fun h => hrx h.1)]
      interval_cases h1 : qbit n c r <;> interval_cases h2 : qbit n c x <;> simp_all [LMat.get]
  · rw [if_neg hag, if_neg]
    intro h
    exact hag (hiff.1 h.1).2

/-- entries of a controlled gate placed with its control on qubit `c`: identity where the control is 0,
the target gate where it is 1 -/
theorem embed_controlled_get (n c : Nat) (bits : List Nat) (hv : validBits n (c :: bits) = true)
    (M : LMat α) (hM : WFMat (2 ^ bits.length) M) (r x : Nat) (hr : r < 2 ^ n) (hx : x < 2 ^ n) :
    LMat.get (embed n (c :: bits) (controlledMat M)) r x =
      if qbit n c r = 0 then (if r = x then 1 else 0)
      else if qbit n c x = 0 then 0 else LMat.get (embed n bits M) r x := by
  obtain ⟨hlt, hnd⟩ := (validBits_iff n (c :: bits)).1 hv
  have hcn : c < n := hlt c (by simp)
  have hcb : c ∉ bits := (List.nodup_cons.1 hnd).1
  have hg : M.length = 2 ^ bits.length := hM.1
  have hqr := qbit_lt_two n c r
  have hqx := qbit_lt_two n c x
  have hsr := subIndex_lt n bits r
  have hsx := subIndex_lt n bits x
  have hir : subIndex n (c :: bits) r < 2 * M.length := by
    have := subIndex_lt n (c :: bits) r
    rw [List.length_cons, Nat.pow_succ] at this; omega
  have hix : subIndex n (c :: bits) x < 2 * M.length := by
    have := subIndex_lt n (c :: bits) x
    rw [List.length_cons, Nat.pow_succ] at this; omega
  rw [embed_get n _ _ r x hr hx, get_controlledMat M _ _ hir hix, embed_get n bits M r x hr hx]
  have hiff := eq_iff_sub_rest n (c :: bits) hv r x hr hx
  rw [← agreeOff_iff'] at hiff
  -- agreement off `bits` = agreement off `c :: bits` and on `c`
  have hag : agreeOff n bits r x = true ↔
      (agreeOff n (c :: bits) r x = true ∧ qbit n c r = qbit n c x) := by
    simp only [agreeOff_iff_forall, List.mem_cons]
    constructor
    · intro H
      refine ⟨fun q hq => ?_, ?_⟩
      · rcases H q hq with h | h
        · exact Or.inl (Or.inr h)
        · exact Or.inr h
      · rcases H c hcn with h | h
        · exact absurd h hcb
        · exact h
    · rintro ⟨H, hc'⟩ q hq
      rcases H q hq with (rfl | h) | h
      · exact Or.inr hc'
      · exact Or.inl h
      · exact Or.inr h
  rw [subIndex_cons, subIndex_cons, hg] at *
  by_cases h0 : qbit n c r = 0
  · rw [if_pos h0]
    have hlt' : qbit n c r * 2 ^ bits.length + subIndex n bits r < 2 ^ bits.length := by
      rw [h0]; omega
    rw [if_pos (Or.inl hlt')]
    by_cases hrx : r = x
    · rw [if_pos hrx, if_pos (hiff.1 hrx).2, if_pos (hiff.1 hrx).1]
    · rw [if_neg hrx]
      by_cases ha : agreeOff n (c :: bits) r x = true
      · rw [if_pos ha, if_neg (fun e => hrx (hiff.2 ⟨e, ha⟩))]
      · rw [if_neg ha]
  · have h1 : qbit n c r = 1 := by omega
    rw [if_neg h0]
    by_cases hx0 : qbit n c x = 0
    · rw [if_pos hx0]
      have hltx : qbit n c x * 2 ^ bits.length + subIndex n bits x < 2 ^ bits.length := by
        rw [hx0]; omega
      rw [if_pos (Or.inr hltx)]
      have hne : qbit n c r * 2 ^ bits.length + subIndex n bits r ≠
          qbit n c x * 2 ^ bits.length + subIndex n bits x := by
        rw [h1, hx0]; omega
      rw [if_neg hne]
      simp
    · have hx1 : qbit n c x = 1 := by omega
      rw [if_neg hx0, h1, hx1]
      have hnot : ¬ (1 * 2 ^ bits.length + subIndex n bits r < 2 ^ bits.length ∨
          1 * 2 ^ bits.length + subIndex n bits x < 2 ^ bits.length) := by omega
      rw [if_neg hnot]
      have e1 : 1 * 2 ^ bits.length + subIndex n bits r - 2 ^ bits.length = subIndex n bits r := by omega
      have e2 : 1 * 2 ^ bits.length + subIndex n bits x - 2 ^ bits.length = subIndex n bits x := by omega
      rw [e1, e2]
      by_cases ha : agreeOff n bits r x = true
      · rw [if_pos ha, if_pos (hag.1 ha).1]
      · rw [if_neg ha, if_neg]
        intro h
        exact ha (hag.2 ⟨h, by rw [h1, hx1]⟩)

/-- a controlled gate placed on `c :: bits` = `P0(c) + P1(c) · (gate placed on bits)` -/
theorem embed_controlled (n c : Nat) (bits : List Nat) (hv : validBits n (c :: bits) = true)
    (M : LMat α) (hM : WFMat (2 ^ bits.length) M) :
    embed n (c :: bits) (controlledMat M) =
      madd (proj n c 0) (LMat.mul (proj n c 1) (embed n bits M)) := by
  have hE := embed_wf (α := α) n bits M
  have hP := mul_wf (2 ^ n) _ _ (proj_wf (α := α) n c 1) hE
  apply wfMat_ext (2 ^ n) _ _ (embed_wf n _ _) (madd_wf _ _ _ (proj_wf n c 0) hP)
  intro r x hr hx
  have hqr := qbit_lt_two n c r
  rw [embed_controlled_get n c bits hv M hM r x hr hx, get_madd _ _ _ (proj_wf n c 0) hP r x hr hx,
    get_proj n c 0 r x hr hx, get_proj_mul n c 1 _ hE r x hr hx]
  by_cases h0 : qbit n c r = 0
  · rw [if_pos h0, if_neg (show ¬ qbit n c r = 1 by omega), add_zero]
    by_cases hrx : r = x
    · rw [if_pos hrx, if_pos ⟨hrx, h0⟩]
    · rw [if_neg hrx, if_neg (fun h => hrx h.1)]
  · rw [if_neg h0, if_neg (show ¬ (r = x ∧ qbit n c r = 0) from fun h => h0 h.2), zero_add,
      if_pos (show qbit n c r = 1 by omega)]
    by_cases hx0 : qbit n c x = 0
    · rw [if_pos hx0]
      -- the target gate does not touch qubit `c`
      obtain ⟨hlt, hnd⟩ := (validBits_iff n (c :: bits)).1 hv
      rw [embed_get n bits M r x hr hx, if_neg]
      intro hag
      rcases (agreeOff_iff_forall n bits r x).1 hag c (hlt c (by simp)) with h | h
      · exact (List.nodup_cons.1 hnd).1 h
      · omega
    · rw [if_neg hx0]

/-- the same with the direct sum `Spec.ctrl M = 1 ⊕ M` (the documented controlled matrix) -/
theorem embed_ctrl (n c : Nat) (bits : List Nat) (hv : validBits n (c :: bits) = true)
    (M : LMat α) (hM : WFMat (2 ^ bits.length) M) :
    embed n (c :: bits) (ctrl M) = madd (proj n c 0) (LMat.mul (proj n c 1) (embed n bits M)) := by
  rw [← LMat.controlledMat_eq_ctrl (show LMat.WF _ _ M from hM)]
  exact embed_controlled n c bits hv M hM

/-! ## (5) acting on vectors -/

theorem mulVec_length (A : LMat α) (v : List α) : (LMat.mulVec A v).length = A.length := by
  simp [LMat.mulVec]

/-- entry `r` of a matrix–vector product -/
theorem getD_mulVec (d : Nat) (A : LMat α) (hA : WFMat d A) (v : List α) (r : Nat) (hr : r < d) :
    (LMat.mulVec A v).getD r 0 = ∑ x ∈ Finset.range d, LMat.get A r x * v.getD x 0 := by
  have hr' : r < A.length := by rw [hA.1]; exact hr
  unfold LMat.mulVec
  rw [List.getD_eq_getElem?_getD, List.getElem?_map, List.getElem?_eq_getElem hr', Option.map_some,
    Option.getD_some, dot_eq_sum, hA.2 _ (List.getElem_mem _)]
  apply Finset.sum_congr rfl
  intro x _
  simp [LMat.get, List.getD_eq_getElem?_getD, hr']

/-- two vectors of the same length with the same entries are equal -/
theorem vec_ext (d : Nat) (v w : List α) (hv : v.length = d) (hw : w.length = d)
    (h : ∀ r, r < d → v.getD r 0 = w.getD r 0) : v = w := by
  apply List.ext_getElem (by rw [hv, hw])
  intro r h1 h2
  have := h r (by rw [← hv]; exact h1)
  simpa [List.getD_eq_getElem?_getD, h1, h2] using this

theorem mulVec_mul (d : Nat) (A B : LMat α) (hA : WFMat d A) (hB : WFMat d B) (v : List α)
    (hv : v.length = d) :
    LMat.mulVec (LMat.mul A B) v = LMat.mulVec A (LMat.mulVec B v) := by
  have hw : OkWidth .vec 1 := fun _ => rfl
  have hr : ∀ u : List α, RowsW (α := α) .vec 1 u := fun _ _ _ => rfl
  have hBv : (LMat.mulVec B v).length = d := by rw [mulVec_length, hB.1]
  rw [← mulState_vec_eq_mulVec d _ (mul_wf d A B hA hB) v hv,
    ← mulState_vec_eq_mulVec d A hA _ hBv, ← mulState_vec_eq_mulVec d B hB v hv,
    ← blockMul_one .vec 1 hw _ d (mul_wf d A B hA hB) v hv (hr v),
    ← blockMul_one .vec 1 hw B d hB v hv (hr v),
    ← blockMul_one .vec 1 hw A d hA _ (by rw [blockMul_length, hB.1, Nat.mul_one]) (hr _),
    blockMul_mul .vec 1 hw d A B hA hB 1 v (by rw [hv, Nat.mul_one]) (hr v)]

theorem mulVec_identity (d : Nat) (v : List α) (hv : v.length = d) :
    LMat.mulVec (LMat.identity d : LMat α) v = v := by
  have hw : OkWidth .vec 1 := fun _ => rfl
  have hr : RowsW (α := α) .vec 1 v := fun _ _ => rfl
  rw [← mulState_vec_eq_mulVec d _ (identity_wf d) v hv,
    ← blockMul_one .vec 1 hw _ d (identity_wf d) v hv hr,
    blockMul_identity .vec 1 hw d 1 v (by rw [hv, Nat.mul_one]) hr]

theorem mulVec_smul (d : Nat) (a : α) (M : LMat α) (hM : WFMat d M) (v : List α) :
    LMat.mulVec (smul a M) v = (LMat.mulVec M v).map fun y => a * y := by
  apply vec_ext d _ _ (by rw [mulVec_length, (smul_wf d a M hM).1])
    (by rw [List.length_map, mulVec_length, hM.1])
  intro r hr
  have hl : r < (LMat.mulVec M v).length := by rw [mulVec_length, hM.1]; exact hr
  rw [getD_mulVec d _ (smul_wf d a M hM) v r hr]
  rw [List.getD_eq_getElem?_getD, List.getElem?_map, List.getElem?_eq_getElem hl, Option.map_some,
    Option.getD_some]
  have := getD_mulVec d M hM v r hr
  rw [List.getD_eq_getElem?_getD, List.getElem?_eq_getElem hl, Option.getD_some] at this
  rw [this, Finset.mul_sum]
  apply Finset.sum_congr rfl
  intro x hx
  rw [get_smul d a M hM r x hr (Finset.mem_range.1 hx), mul_assoc]

section vectors
variable (n : Nat) (v : List α) (hlen : v.length = 2 ^ n)
include hlen

theorem mulVec_embed_length (bits : List Nat) (M : LMat α) :
    (LMat.mulVec (embed n bits M) v).length = 2 ^ n := by
  rw [mulVec_length, (embed_wf n bits M).1]

theorem mulVec_embed_mul (bits : List Nat) (hv : validBits n bits = true) (A B : LMat α)
    (hA : WFMat (2 ^ bits.length) A) (hB : WFMat (2 ^ bits.length) B) :
    LMat.mulVec (embed n bits (LMat.mul A B)) v =
      LMat.mulVec (embed n bits A) (LMat.mulVec (embed n bits B) v) := by
  rw [embed_mul n bits hv A B hA hB,
    mulVec_mul (2 ^ n) _ _ (embed_wf n bits A) (embed_wf n bits B) v hlen]

theorem mulVec_embed_one (bits : List Nat) (hv : validBits n bits = true) :
    LMat.mulVec (embed n bits (LMat.identity (2 ^ bits.length) : LMat α)) v = v := by
  rw [embed_one n bits hv, mulVec_identity (2 ^ n) v hlen]

theorem mulVec_embed_compose (bits : List Nat) (hv : validBits n bits = true) (sub : List Nat)
    (hsub : validBits bits.length sub = true) (M : LMat α) :
    LMat.mulVec (embed n bits (embed bits.length sub M)) v =
      LMat.mulVec (embed n (relabel bits sub) M) v := by
  rw [embed_compose n bits hv sub hsub M]

theorem mulVec_embed_commute (b0 b1 : List Nat) (h0 : validBits n b0 = true)
    (h1 : validBits n b1 = true) (hd : Disjoint2 b0 b1) (A B : LMat α) :
    LMat.mulVec (embed n b0 A) (LMat.mulVec (embed n b1 B) v) =
      LMat.mulVec (embed n b1 B) (LMat.mulVec (embed n b0 A) v) := by
  rw [← mulVec_mul (2 ^ n) _ _ (embed_wf n b0 A) (embed_wf n b1 B) v hlen,
    ← mulVec_mul (2 ^ n) _ _ (embed_wf n b1 B) (embed_wf n b0 A) v hlen,
    embed_commute_disjoint n b0 b1 h0 h1 hd A B]

theorem mulVec_embed_kron (b0 b1 : List Nat) (hv : validBits n (b0 ++ b1) = true) (A B : LMat α)
    (hA : WFMat (2 ^ b0.length) A) (hB : WFMat (2 ^ b1.length) B) :
    LMat.mulVec (embed n (b0 ++ b1) (LMat.kron A B)) v =
      LMat.mulVec (embed n b0 A) (LMat.mulVec (embed n b1 B) v) := by
  rw [embed_kron n b0 b1 hv A B hA hB,
    mulVec_mul (2 ^ n) _ _ (embed_wf n b0 A) (embed_wf n b1 B) v hlen]

theorem mulVec_embed_smul (bits : List Nat) (a : α) (M : LMat α) (hM : WFMat (2 ^ bits.length) M) :
    LMat.mulVec (embed n bits (smul a M)) v = (LMat.mulVec (embed n bits M) v).map fun y => a * y := by
  rw [embed_smul n bits a M hM, mulVec_smul (2 ^ n) a _ (embed_wf n bits M) v]

/-- a controlled gate acts as the identity on the amplitudes whose control qubit is 0 and as the target
gate on those whose control qubit is 1 -/
theorem mulVec_embed_controlled (c : Nat) (bits : List Nat) (hv : validBits n (c :: bits) = true)
    (M : LMat α) (hM : WFMat (2 ^ bits.length) M) (r : Nat) (hr : r < 2 ^ n) :
    (LMat.mulVec (embed n (c :: bits) (controlledMat M)) v).getD r 0 =
      if qbit n c r = 0 then v.getD r 0 else (LMat.mulVec (embed n bits M) v).getD r 0 := by
  obtain ⟨hlt, hnd⟩ := (validBits_iff n (c :: bits)).1 hv
  rw [getD_mulVec (2 ^ n) _ (embed_wf n _ _) v r hr, getD_mulVec (2 ^ n) _ (embed_wf n bits M) v r hr]
  by_cases h0 : qbit n c r = 0
  · rw [if_pos h0, Finset.sum_eq_single r]
    · rw [embed_controlled_get n c bits hv M hM r r hr hr, if_pos h0, if_pos rfl, one_mul]
    · intro x hx hne
      rw [embed_controlled_get n c bits hv M hM r x hr (Finset.mem_range.1 hx), if_pos h0,
        if_neg (fun e => hne e.symm), zero_mul]
    · intro hh; exact absurd (Finset.mem_range.2 hr) hh
  · rw [if_neg h0]
    apply Finset.sum_congr rfl
    intro x hx
    have hx' : x < 2 ^ n := Finset.mem_range.1 hx
    rw [embed_controlled_get n c bits hv M hM r x hr hx', if_neg h0]
    by_cases hx0 : qbit n c x = 0
    · rw [if_pos hx0, embed_get n bits M r x hr hx', if_neg]
      intro hag
      rcases (agreeOff_iff_forall n bits r x).1 hag c (hlt c (by simp)) with h | h
      · exact (List.nodup_cons.1 hnd).1 h
      · exact h0 (h.trans hx0)
    · rw [if_neg hx0]

end vectors

end Q1t.Proofs.Route

import Q1t.Proofs.SimGFExec
import Q1t.Proofs.SimStabRefine
/-!
C01 on the STABILIZER backend: the multinomial law of the model's own `execOps stabBackend …` term, relative to
the tableau contract `TableauOK` (C02/C03) and a progress contract.

A stabilizer range `(count, tableau, word)` stands for a vector range `(count, ψ, word)` through the contract's
relation `St tableau ψ` (ψ up to a scalar: the range carries the inverse `inv` of `‖ψ‖²`, and the single-shot
generating function, quadratic in ψ, is evaluated as `inv · g(ψ, word)`).

Hypotheses (`StabHyps`):
* `tab : TableauOK St n ph conjOf valid` — what the tableau operations MEAN (partial correctness, C03);
* what the law needs beyond it, none of which `TableauOK` states:
  `gateRuns`, `measRuns`, `collapseRuns` — PROGRESS: on a tableau that describes a vector the tableau operations
  return (`TableauOK` is about the results only *if* they return; a failing operation would make the model's run
  fail and lose probability mass);
  `randHalf` — a `Random` classification means EQUAL weights of the two outcomes (the model draws with ½);
  `iso`, `arity` — valid gates preserve the squared norm and have the right arity;
  `half_add : half + half = 1`, the amplitude arithmetic `amp`, `sim`, and `pos` (a vector of squared norm 0 is 0).
-/
set_option linter.unusedSectionVars false
set_option linter.unusedSimpArgs false
set_option linter.unusedVariables false
namespace Q1t.Sim.SimGF
open Q1t Q1t.Sim Q1t.Spec Q1t.Sim.Prog Q1t.Tableau Finset

/-- a stabilizer range together with a vector it stands for and the inverse of that vector's squared norm -/
structure SRng (α : Type) where
  cnt : Nat
  tab : Tab
  word : Nat
  vec : List α
  inv : α

section
variable {α P R : Type} [CommRing α] [Amp α P] [SimAmp α] [CommRing R] {nz : α → Prop} {n N : Nat}
variable {valid : GateTerm P → List Nat → Prop}
variable {half : α} {ph : List Nat} {conjOf : GateTerm P → Tab.Conj} {St : Tab → List α → Prop}

def mkStab (n N : Nat) (rs : List (SRng α)) : StabState :=
  { nrBits := n, nrShots := N, counts := rs.map (·.cnt), tabs := rs.map (·.tab) }

def mkRegS (rs : List (SRng α)) : List Nat := rs.flatMap fun r => List.replicate r.cnt r.word

/-- one range is in order -/
def OkR (St : Tab → List α → Prop) (r : SRng α) : Prop :=
  0 < r.cnt ∧ St r.tab r.vec ∧ normSqSum r.vec * r.inv = 1 ∧ r.word < 2 ^ 64

structure GoodS (St : Tab → List α → Prop) (N : Nat) (rs : List (SRng α)) : Prop where
  ok : ∀ r ∈ rs, OkR St r
  sum : (rs.map (·.cnt)).sum = N

def valueS (toR : α → R) (g : List α × Nat → R) (rs : List (SRng α)) : R :=
  (rs.map fun r => (toR r.inv * g (r.vec, r.word)) ^ r.cnt).prod

theorem valueS_append (toR : α → R) (g : List α × Nat → R) (a b : List (SRng α)) :
    valueS toR g (a ++ b) = valueS toR g a * valueS toR g b := by simp [valueS]

theorem valueS_cons (toR : α → R) (g : List α × Nat → R) (r : SRng α) (rs : List (SRng α)) :
    valueS toR g (r :: rs) = (toR r.inv * g (r.vec, r.word)) ^ r.cnt * valueS toR g rs := by simp [valueS]

theorem valueS_congr (toR : α → R) (g g' : List α × Nat → R) (rs : List (SRng α))
    (h : ∀ r ∈ rs, toR r.inv * g (r.vec, r.word) = toR r.inv * g' (r.vec, r.word)) :
    valueS toR g rs = valueS toR g' rs := by
  unfold valueS
  congr 1
  apply List.map_congr_left
  intro r hr; rw [h r hr]

theorem mkRegS_append (a b : List (SRng α)) : mkRegS (a ++ b) = mkRegS a ++ mkRegS b := by simp [mkRegS]

theorem mkRegS_length (rs : List (SRng α)) : (mkRegS rs).length = (rs.map (·.cnt)).sum := by
  induction rs with
  | nil => rfl
  | cons r rs ih => simp [mkRegS, List.flatMap_cons] at ih ⊢; try rw [ih]

theorem mkRegS_one (r : SRng α) : mkRegS [r] = List.replicate r.cnt r.word := by simp [mkRegS]
theorem mkRegS_two (a b : SRng α) :
    mkRegS [a, b] = List.replicate a.cnt a.word ++ List.replicate b.cnt b.word := by simp [mkRegS]

/-- the hypotheses of the law on the stabilizer backend (see the file header) -/
structure StabHyps (α P : Type) [CommRing α] [Amp α P] [SimAmp α] (nz : α → Prop) (St : Tab → List α → Prop)
    (n : Nat) (half : α) (ph : List Nat) (conjOf : GateTerm P → Tab.Conj) (valid : GateTerm P → List Nat → Prop) :
    Prop where
  amp : LawfulAmp α P
  sim : LawfulSim α P nz
  pos : ∀ v : List α, normSqSum v = 0 → ∀ a ∈ v, a = 0
  tab : TableauOK St n ph conjOf valid
  half_add : half + half = 1
  arity : ∀ g bits, valid g bits → Gate.nrBits g = bits.length
  iso : ∀ g bits, valid g bits → ∀ v : List α, v.length = 2 ^ n → normSqSum (gateOn n g bits v) = normSqSum v
  gateRuns : ∀ g bits, valid g bits → ∀ t ψ, St t ψ → ∃ t', Tab.applyGate ph (conjOf g) t bits = .ok t'
  measRuns : ∀ t ψ q, q < n → St t ψ → ∃ info, Tab.measure t q = .ok info
  collapseRuns : ∀ t ψ q i, St t ψ → Tab.measure t q = .ok (.random i) → ∀ o, ∃ t', Tab.collapse ph t i q o = .ok t'
  randHalf : ∀ t ψ q i, St t ψ → Tab.measure t q = .ok (.random i) →
    normSqSum (project n q false ψ) = normSqSum (project n q true ψ)

variable (toR : α →+* R) {ord : List (Nat × Nat) → List (Nat × Nat)}

theorem lift_ok {β : Type} (b : β) : StabState.lift (α := α) (Res.ok b) = Prog.pure b := rfl

/-- a generating function that scales vanishes on vectors of squared norm zero -/
theorem scales_zero' (hpos : ∀ v : List α, normSqSum v = 0 → ∀ a ∈ v, a = 0) {g : List α × Nat → R}
    (hg : Scales (P := P) toR g) (v : List α) (w : Nat) (hv : normSqSum v = 0) : g (v, w) = 0 := by
  have hz : v = v.map (· * 0) := by
    apply List.ext_getElem
    · simp
    · intro i h1 h2
      simp [hpos v hv _ (List.getElem_mem h1)]
  rw [hz, hg v w 0]
  simp

/-! ### measurement of one qubit (Z basis): the loop over (tableau, count) -/

/-- a `Deterministic(v)` range: only the branch `v` contributes -/
theorem det_value (H : StabHyps α P nz St n half ph conjOf valid) {g : List α × Nat → R}
    (hg : Scales (P := P) toR g) {t : Tab} {ψ : List α} {q : Nat} {v : Bool} (hst : St t ψ)
    (hm : Tab.measure t q = .ok (.deterministic v)) (w0 w1 : Nat) :
    g (project n q false ψ, w0) + g (project n q true ψ, w1) = g (ψ, if v then w1 else w0) := by
  have hp := H.tab.det t ψ q v hst hm
  have hs := normSqSum_split H.sim n q ψ
  cases v with
  | false =>
    have hz : normSqSum (project n q true ψ) = 0 := by
      rw [hp] at hs; exact add_left_cancel (a := normSqSum ψ) (by rw [hs, add_zero])
    rw [scales_zero' (P := P) toR H.pos hg _ w1 hz, hp]; simp
  | true =>
    have hz : normSqSum (project n q false ψ) = 0 := by
      rw [hp] at hs; exact add_right_cancel (b := normSqSum ψ) (by rw [hs, zero_add])
    rw [scales_zero' (P := P) toR H.pos hg _ w0 hz, hp]; simp

/-- a `Random` range: both projected vectors have squared norm `‖ψ‖²/2` -/
theorem rand_inv (H : StabHyps α P nz St n half ph conjOf valid) {t : Tab} {ψ : List α} {q i : Nat} (hst : St t ψ)
    (hm : Tab.measure t q = .ok (.random i)) {u : α} (hu : normSqSum ψ * u = 1) (o : Bool) :
    normSqSum (project n q o ψ) * (u + u) = 1 := by
  have hh := H.randHalf t ψ q i hst hm
  have hs := normSqSum_split H.sim n q ψ
  cases o with
  | false => rw [← hu, ← hs, ← hh]; ring
  | true => rw [← hu, ← hs, hh]; ring

theorem writeRange_all (pre tail : List Nat) (c w cbit : Nat) (v : Bool) :
    writeRange (pre ++ List.replicate c w ++ tail) pre.length c (if v then 0 else c) cbit =
      pre ++ List.replicate c (setBitTo w cbit v) ++ tail := by
  rw [writeRange_mid pre tail c _ w cbit (by split <;> omega)]
  cases v <;> simp

theorem measureLoopS_expect (H : StabHyps α P nz St n half ph conjOf valid) {q cbit : Nat} (hq : q < n)
    (hcb : cbit < 64)
    {g : List α × Nat → R} (hg : Scales (P := P) toR g) :
    ∀ (rs : List (SRng α)), (∀ r ∈ rs, OkR St r) → ∀ (pre tail : List Nat) (ts : List Tab) (cs : List Nat)
      (Kf : List Nat × List Tab × List Nat → R) (C : R),
    (∀ sp : List (SRng α), (∀ r ∈ sp, OkR St r) → (sp.map (·.cnt)).sum = (rs.map (·.cnt)).sum →
      Kf (pre ++ mkRegS sp ++ tail, ts ++ sp.map (·.tab), cs ++ sp.map (·.cnt)) = C * valueS toR g sp) →
    expectOrd ord toR (StabState.measureLoop half ph q cbit (rs.map fun r => (r.tab, r.cnt)) pre.length
      (pre ++ mkRegS rs ++ tail) ts cs) Kf =
      C * valueS toR (stepGf (P := P) n (.measure q cbit .Z) g) rs := by
  intro rs
  induction rs with
  | nil =>
    intro _ pre tail ts cs Kf C hKf
    have := hKf [] (by simp) rfl
    simpa [StabState.measureLoop, mkRegS, valueS] using this
  | cons r rs ih =>
    intro hok pre tail ts cs Kf C hKf
    obtain ⟨hpos, hst, hinv, hwb⟩ := hok r (by simp)
    have hokrs : ∀ x ∈ rs, OkR St x := fun x hx => hok x (by simp [hx])
    have hreg : pre ++ mkRegS (r :: rs) ++ tail = pre ++ List.replicate r.cnt r.word ++ (mkRegS rs ++ tail) := by
      simp [mkRegS]
    obtain ⟨info, hinfo⟩ := H.measRuns r.tab r.vec q hq hst
    simp only [List.map_cons, StabState.measureLoop, hinfo, lift_ok, bind_pure', hreg]
    -- the continuation after this range, for a list `sp` of sub-ranges replacing `r`
    have hnext : ∀ (sp : List (SRng α)), (∀ x ∈ sp, OkR St x) → (sp.map (·.cnt)).sum = r.cnt →
        expectOrd ord toR (StabState.measureLoop half ph q cbit (rs.map fun r => (r.tab, r.cnt)) (pre.length + r.cnt)
          (pre ++ mkRegS sp ++ (mkRegS rs ++ tail)) (ts ++ sp.map (·.tab)) (cs ++ sp.map (·.cnt))) Kf =
        C * valueS toR g sp * valueS toR (stepGf (P := P) n (.measure q cbit .Z) g) rs := by
      intro sp hsp hsum
      have hl : (pre ++ mkRegS sp).length = pre.length + r.cnt := by
        rw [List.length_append, mkRegS_length, hsum]
      have := ih hokrs (pre ++ mkRegS sp) tail (ts ++ sp.map (·.tab)) (cs ++ sp.map (·.cnt)) Kf
        (C * valueS toR g sp) (by
          intro sp2 hsp2 hsum2
          have := hKf (sp ++ sp2) (by
            intro x hx; rcases List.mem_append.mp hx with hx | hx
            · exact hsp x hx
            · exact hsp2 x hx) (by simp [hsum, hsum2])
          simp only [mkRegS_append, List.map_append, ← List.append_assoc] at this ⊢
          rw [this, valueS_append]; ring)
      rw [hl, List.append_assoc (pre ++ mkRegS sp)] at this
      rw [List.append_assoc pre (mkRegS sp)] at this ⊢
      exact this
    cases info with
    | deterministic v =>
      simp only
      rw [writeRange_all]
      have := hnext [{ r with word := setBitTo r.word cbit v }]
        (by intro x hx; simp only [List.mem_singleton] at hx; subst hx; exact ⟨hpos, hst, hinv, setBitTo_lt _ _ _ hwb hcb⟩) (by simp)
      simp only [mkRegS_one, List.map_cons, List.map_nil] at this
      rw [this, valueS_cons, valueS_cons]
      simp only [valueS, List.map_nil, List.prod_nil, mul_one]
      have hd := det_value (P := P) toR H hg hst hinfo (writeBit r.word cbit false) (writeBit r.word cbit true)
      have : stepGf (P := P) n (.measure q cbit .Z) g (r.vec, r.word) =
          g (r.vec, setBitTo r.word cbit v) := by
        show g (project n q false r.vec, writeBit r.word cbit false) +
          g (project n q true r.vec, writeBit r.word cbit true) = _
        rw [hd]; cases v <;> rfl
      rw [this]; ring
    | random i =>
      simp only [expectOrd_binomial]
      obtain ⟨t0, ht0⟩ := H.collapseRuns r.tab r.vec q i hst hinfo false
      obtain ⟨t1, ht1⟩ := H.collapseRuns r.tab r.vec q i hst hinfo true
      have hst0 := (H.tab.rand r.tab r.vec q i hst hinfo false).2 t0 ht0
      have hst1 := (H.tab.rand r.tab r.vec q i hst hinfo true).2 t1 ht1
      have hi0 := rand_inv H hst hinfo hinv false
      have hi1 := rand_inv H hst hinfo hinv true
      let A : R := toR (r.inv + r.inv) * g (project n q false r.vec, setBitTo r.word cbit false)
      let B : R := toR (r.inv + r.inv) * g (project n q true r.vec, setBitTo r.word cbit true)
      have hterm : ∀ n0 ∈ range (r.cnt + 1),
          binW r.cnt (toR half) n0 *
            expectOrd ord toR
              (if n0 = 0 then
                (StabState.lift (α := α) (Tab.collapse ph r.tab i q true)).bind fun t1 =>
                  StabState.measureLoop half ph q cbit (rs.map fun r => (r.tab, r.cnt)) (pre.length + r.cnt)
                    (writeRange (pre ++ List.replicate r.cnt r.word ++ (mkRegS rs ++ tail)) pre.length r.cnt n0 cbit)
                    (ts ++ [t1]) (cs ++ [r.cnt])
              else if n0 = r.cnt then
                (StabState.lift (α := α) (Tab.collapse ph r.tab i q false)).bind fun t0 =>
                  StabState.measureLoop half ph q cbit (rs.map fun r => (r.tab, r.cnt)) (pre.length + r.cnt)
                    (writeRange (pre ++ List.replicate r.cnt r.word ++ (mkRegS rs ++ tail)) pre.length r.cnt n0 cbit)
                    (ts ++ [t0]) (cs ++ [r.cnt])
              else
                (StabState.lift (α := α) (Tab.collapse ph r.tab i q false)).bind fun t0 =>
                  (StabState.lift (α := α) (Tab.collapse ph r.tab i q true)).bind fun t1 =>
                    StabState.measureLoop half ph q cbit (rs.map fun r => (r.tab, r.cnt)) (pre.length + r.cnt)
                      (writeRange (pre ++ List.replicate r.cnt r.word ++ (mkRegS rs ++ tail)) pre.length r.cnt n0 cbit)
                      (ts ++ [t0, t1]) (cs ++ [n0, r.cnt - n0])) Kf =
          (C * valueS toR (stepGf (P := P) n (.measure q cbit .Z) g) rs) *
            (binW r.cnt (toR half) n0 * (A ^ n0 * B ^ (r.cnt - n0))) := by
        intro n0 hn0
        have hle : n0 ≤ r.cnt := by simp only [Finset.mem_range] at hn0; omega
        rw [writeRange_mid pre (mkRegS rs ++ tail) r.cnt n0 r.word cbit hle]
        let r0 : SRng α := ⟨n0, t0, setBitTo r.word cbit false, project n q false r.vec, r.inv + r.inv⟩
        let r1 : SRng α := ⟨r.cnt - n0, t1, setBitTo r.word cbit true, project n q true r.vec, r.inv + r.inv⟩
        by_cases h0 : n0 = 0
        · rw [if_pos h0, ht1, lift_ok, bind_pure']
          have := hnext [{ r1 with cnt := r.cnt }]
            (by intro x hx; simp only [List.mem_singleton] at hx; subst hx; exact ⟨hpos, hst1, hi1, (setBitTo_lt r.word cbit true hwb hcb : setBitTo r.word cbit true < 2 ^ 64)⟩) (by simp)
          simp only [mkRegS_one, List.map_cons, List.map_nil] at this
          simp only [h0, List.replicate_zero, List.nil_append, Nat.sub_zero]
          rw [this]
          simp only [valueS, List.map_cons, List.map_nil, List.prod_cons, List.prod_nil, mul_one, pow_zero, one_mul, r1, B]
          ring
        · by_cases hc : n0 = r.cnt
          · rw [if_neg h0, if_pos hc, ht0, lift_ok, bind_pure']
            have := hnext [{ r0 with cnt := r.cnt }]
              (by intro x hx; simp only [List.mem_singleton] at hx; subst hx; exact ⟨hpos, hst0, hi0, (setBitTo_lt r.word cbit false hwb hcb : setBitTo r.word cbit false < 2 ^ 64)⟩) (by simp)
            simp only [mkRegS_one, List.map_cons, List.map_nil] at this
            simp only [hc, Nat.sub_self, List.replicate_zero, List.append_nil]
            rw [this]
            simp only [valueS, List.map_cons, List.map_nil, List.prod_cons, List.prod_nil, mul_one, pow_zero, r0, A]
            ring
          · rw [if_neg h0, if_neg hc, ht0, lift_ok, bind_pure', ht1, lift_ok, bind_pure']
            have := hnext [r0, r1]
              (by
                intro x hx
                simp only [List.mem_cons, List.not_mem_nil, or_false] at hx
                rcases hx with rfl | rfl
                · exact ⟨by show 0 < n0; omega, hst0, hi0, (setBitTo_lt r.word cbit false hwb hcb : setBitTo r.word cbit false < 2 ^ 64)⟩
                · exact ⟨by show 0 < r.cnt - n0; omega, hst1, hi1, (setBitTo_lt r.word cbit true hwb hcb : setBitTo r.word cbit true < 2 ^ 64)⟩)
              (by simp [r0, r1]; omega)
            simp only [mkRegS_two, List.map_cons, List.map_nil, r0, r1] at this
            rw [this]
            simp only [valueS, List.map_cons, List.map_nil, List.prod_cons, List.prod_nil, mul_one, A, B]
            ring
      rw [Finset.sum_congr rfl hterm, ← Finset.mul_sum, binW_split, valueS_cons]
      have hhalf : (1 : R) - toR half = toR half := by
        have : toR half + toR half = 1 := by rw [← map_add, H.half_add, map_one]
        linear_combination (-1 : R) * this
      have hAB : toR half * A + (1 - toR half) * B =
          toR r.inv * stepGf (P := P) n (.measure q cbit .Z) g (r.vec, r.word) := by
        rw [hhalf]
        have h2 : toR half * toR (r.inv + r.inv) = toR r.inv := by
          rw [← map_mul]; congr 1
          have := H.half_add
          linear_combination r.inv * this
        show toR half * (toR (r.inv + r.inv) * _) + toR half * (toR (r.inv + r.inv) * _) =
          toR r.inv * (g (project n q false r.vec, writeBit r.word cbit false) +
            g (project n q true r.vec, writeBit r.word cbit true))
        simp only [writeBit]
        linear_combination (g (project n q false r.vec, setBitTo r.word cbit false) +
          g (project n q true r.vec, setBitTo r.word cbit true)) * h2
      rw [hAB]; ring

/-- the continuation `K` is multiplicative over stabilizer ranges -/
def MultS (St : Tab → List α → Prop) (n N : Nat) (toR : α → R) (K : StabState × List Nat → R)
    (g : List α × Nat → R) : Prop :=
  ∀ rs : List (SRng α), GoodS St N rs → K (mkStab n N rs, mkRegS rs) = valueS toR g rs

theorem measureIntoS_step (H : StabHyps α P nz St n half ph conjOf valid) {rs : List (SRng α)} (hgood : GoodS St N rs)
    {q c : Nat} (hq : q < n) (hc : c < 64) {K : StabState × List Nat → R} {g : List α × Nat → R}
    (hK : MultS St n N toR K g) (hg : Scales (P := P) toR g) :
    expectOrd ord toR (StabState.measureInto half ph (mkStab n N rs) q c (mkRegS rs)) K =
      valueS toR (stepGf (P := P) n (.measure q c .Z) g) rs := by
  unfold StabState.measureInto
  rw [if_neg (by simp [mkStab]; omega), if_neg (by rw [mkRegS_length, hgood.sum]; simp [mkStab]),
    if_neg (by simp [shiftOk, hc]), expectOrd_bind]
  have hz : (mkStab n N rs).tabs.zip (mkStab n N rs).counts = rs.map fun r => (r.tab, r.cnt) := by
    simp only [mkStab]; rw [List.zip_map']
  rw [hz]
  have := measureLoopS_expect (ord := ord) toR H (cbit := c) hq hc hg rs hgood.ok [] [] [] []
    (fun b => expectOrd ord toR (match b with
      | (res', ts, cs) => Prog.pure ({ (mkStab n N rs) with tabs := ts, counts := cs }, res')) K) 1
    (by
      intro sp hsp hsum
      simp only [List.nil_append, List.append_nil, expectOrd_pure, one_mul]
      exact hK sp ⟨hsp, by rw [hsum, hgood.sum]⟩)
  simp only [List.nil_append, List.append_nil, List.length_nil, one_mul] at this
  exact this

/-! ### gates (and conditional gates): every tableau in turn -/

theorem mapM_res_ok {σ τ : Type} (f : σ → Res τ) : ∀ {l : List σ} {l' : List τ},
    List.Forall₂ (fun a b => f a = .ok b) l l' → l.mapM f = .ok l' := by
  intro l l' h
  induction h with
  | nil => rfl
  | cons hab _ ih => rw [List.mapM_cons, hab, ih]; rfl

/-- apply a tableau operation `fT` (which may depend on the word) to every range; `F` is what it does to the vector -/
theorem map_ranges (fT : Tab → Nat → Res Tab) (F : List α × Nat → List α) : ∀ (rs : List (SRng α)),
    (∀ r ∈ rs, OkR St r → ∃ t', fT r.tab r.word = .ok t' ∧ St t' (F (r.vec, r.word)) ∧
      normSqSum (F (r.vec, r.word)) = normSqSum r.vec) →
    (∀ r ∈ rs, OkR St r) →
    ∃ rs' : List (SRng α), List.Forall₂ (fun (r : SRng α) t' => fT r.tab r.word = .ok t') rs (rs'.map (·.tab)) ∧
      (∀ r' ∈ rs', OkR St r') ∧ rs'.map (·.cnt) = rs.map (·.cnt) ∧ mkRegS rs' = mkRegS rs ∧
      ∀ g' : List α × Nat → R, valueS toR g' rs' = valueS toR (fun sw => g' (F sw, sw.2)) rs := by
  intro rs
  induction rs with
  | nil => intro _ _; exact ⟨[], .nil, by simp, rfl, rfl, fun _ => rfl⟩
  | cons r rs ih =>
    intro h hok
    obtain ⟨t', ht', hst', hn'⟩ := h r (by simp) (hok r (by simp))
    obtain ⟨rs', h1, h2, h3, h4, h5⟩ := ih (fun x hx => h x (by simp [hx])) (fun x hx => hok x (by simp [hx]))
    obtain ⟨hpos, _, hinv, hwb⟩ := hok r (by simp)
    refine ⟨⟨r.cnt, t', r.word, F (r.vec, r.word), r.inv⟩ :: rs', ?_, ?_, ?_, ?_, ?_⟩
    · exact .cons ht' h1
    · intro x hx
      rcases List.mem_cons.mp hx with rfl | hx
      · exact ⟨hpos, hst', by show normSqSum (F (r.vec, r.word)) * r.inv = 1; rw [hn', hinv], hwb⟩
      · exact h2 x hx
    · simp [h3]
    · simp only [mkRegS, List.flatMap_cons] at h4 ⊢; rw [h4]
    · intro g'; rw [valueS_cons, valueS_cons, h5]

theorem stab_applyGate_eq (H : StabHyps α P nz St n half ph conjOf valid) {gt : GateTerm P} {bits : List Nat}
    (hv : valid gt bits) {rs : List (SRng α)} (hgood : GoodS St N rs) :
    ∃ rs' : List (SRng α), StabState.applyGate (α := α) ph conjOf (mkStab n N rs) gt bits = .pure (mkStab n N rs') ∧
      GoodS St N rs' ∧ mkRegS rs' = mkRegS rs ∧
      ∀ g' : List α × Nat → R, valueS toR g' rs' = valueS toR (fun sw => g' (gateOn n gt bits sw.1, sw.2)) rs := by
  obtain ⟨rs', h1, h2, h3, h4, h5⟩ := map_ranges (St := St) toR (fun t _ => Tab.applyGate ph (conjOf gt) t bits)
    (fun sw => gateOn n gt bits sw.1) rs
    (by
      intro r _ hr
      obtain ⟨t', ht'⟩ := H.gateRuns gt bits hv r.tab r.vec hr.2.1
      exact ⟨t', ht', H.tab.gate gt bits hv _ _ _ hr.2.1 ht', H.iso gt bits hv _ (H.tab.weight _ _ hr.2.1).1⟩)
    hgood.ok
  refine ⟨rs', ?_, ⟨h2, by rw [h3, hgood.sum]⟩, h4, h5⟩
  unfold StabState.applyGate
  rw [if_neg (by rw [H.arity gt bits hv]; simp)]
  have : (mkStab n N rs).tabs.mapM (fun t => Tab.applyGate ph (conjOf gt) t bits) = .ok (rs'.map (·.tab)) := by
    apply mapM_res_ok
    simp only [mkStab]
    exact List.forall₂_map_left_iff.mpr h1
  rw [this, lift_ok, bind_pure']
  simp only [mkStab, h3]

theorem scalesS_postGate {gt : GateTerm P} {bits : List Nat} {g : List α × Nat → R} (hg : Scales (P := P) toR g) :
    Scales (P := P) toR (fun sw => g (gateOn n gt bits sw.1, sw.2)) := scales_postGate toR hg

/-- a gate applied after the body -/
theorem multS_postGate (H : StabHyps α P nz St n half ph conjOf valid) {gt : GateTerm P} {bits : List Nat}
    (hv : valid gt bits) {K : StabState × List Nat → R} {g : List α × Nat → R} (hK : MultS St n N toR K g) :
    MultS St n N toR (fun sr => expectOrd ord toR
        ((StabState.applyGate (α := α) ph conjOf sr.1 gt bits).bind fun s2 => .pure (s2, sr.2)) K)
      (fun sw => g (gateOn n gt bits sw.1, sw.2)) := by
  intro rs hgood
  obtain ⟨rs', h1, h2, h3, h4⟩ := stab_applyGate_eq (N := N) toR H hv hgood
  simp only [h1, bind_pure', expectOrd_pure]
  rw [← h3, hK rs' h2, h4]

/-- shot product on the stabilizer backend -/
def shotProdS (x : Nat → R) (sc : StabState × List Nat) : R := (sc.2.map x).prod

theorem shotProdS_mkRegS (x : Nat → R) (s : StabState) (rs : List (SRng α)) :
    shotProdS x (s, mkRegS rs) = (rs.map fun r => x r.word ^ r.cnt).prod := by
  simp only [shotProdS, mkRegS]
  induction rs with
  | nil => simp
  | cons r rs ih => simp [List.flatMap_cons, ih]

theorem measureS_step (H : StabHyps α P nz St n half ph conjOf valid) {rs : List (SRng α)} (hgood : GoodS St N rs)
    {q c : Nat} (b : Basis) (hq : q < n) (hc : c < 64) {K : StabState × List Nat → R} {g : List α × Nat → R}
    (hK : MultS St n N toR K g) (hg : Scales (P := P) toR g) :
    expectOrd ord toR (execOp (stabBackend half ph conjOf) (mkStab n N rs) (mkRegS rs) (.measure q c b)) K =
      valueS toR (stepGf (P := P) n (.measure q c b) g) rs := by
  obtain ⟨vH, vS, vSdg⟩ := H.tab.basis q hq
  cases b with
  | Z =>
    simp only [execOp, withBasis1, stabBackend]
    exact measureIntoS_step toR H hgood hq hc hK hg
  | X =>
    simp only [execOp, withBasis1, stabBackend, bind_eq', pure_eq']
    obtain ⟨rs1, e1, hg1, hr1, hv1⟩ := stab_applyGate_eq (N := N) toR H vH hgood
    rw [e1, bind_pure', expectOrd_bind, ← hr1]
    have := measureIntoS_step (ord := ord) toR H hg1 hq hc (multS_postGate (ord := ord) toR H vH hK)
      (scalesS_postGate toR hg)
    rw [this, hv1]
    rfl
  | Y =>
    simp only [execOp, withBasis1, stabBackend, bind_eq', pure_eq']
    obtain ⟨rs0, e0, hg0, hr0, hv0⟩ := stab_applyGate_eq (N := N) toR H vSdg hgood
    obtain ⟨rs1, e1, hg1, hr1, hv1⟩ := stab_applyGate_eq (N := N) toR H vH hg0
    rw [e0, bind_pure', e1, bind_pure', expectOrd_bind, ← hr0, ← hr1]
    have hK2 : MultS St n N toR (fun sr : StabState × List Nat => expectOrd ord toR
        ((StabState.applyGate (α := α) ph conjOf sr.1 (GateTerm.H : GateTerm P) [q]).bind fun s2 =>
          (StabState.applyGate (α := α) ph conjOf s2 (GateTerm.S : GateTerm P) [q]).bind fun s3 => .pure (s3, sr.2)) K)
        (fun sw => g (gateOn (P := P) n .S [q] (gateOn (P := P) n .H [q] sw.1), sw.2)) := by
      intro rs' hg'
      obtain ⟨ra, ea, hga, hra, hva⟩ := stab_applyGate_eq (N := N) toR H vH hg'
      obtain ⟨rb, eb, hgb, hrb, hvb⟩ := stab_applyGate_eq (N := N) toR H vS hga
      simp only [ea, bind_pure', eb, expectOrd_pure]
      rw [← hra, ← hrb, hK rb hgb, hvb, hva]
    have hg2 : Scales (P := P) toR (fun sw => g (gateOn (P := P) n .S [q] (gateOn (P := P) n .H [q] sw.1), sw.2)) := by
      intro v w a
      simp only [gateOn_smul]
      exact hg _ _ _
    have := measureIntoS_step (ord := ord) toR H hg1 hq hc hK2 hg2
    rw [this, hv1, hv0]
    rfl

/-! ### conditional gates -/

theorem ranges_homogS (β : Nat → Bool) : ∀ (rs : List (SRng α)) (icol : Nat), (∀ r ∈ rs, 0 < r.cnt) →
    Spec.Conditional.ranges (rs.map (·.cnt)) icol (rs.flatMap fun r => List.replicate r.cnt (β r.word)) =
      (rs.zipIdx icol).map fun rk => (rk.2, rk.1.cnt, β rk.1.word) := by
  intro rs
  induction rs with
  | nil => intro icol _; simp [Spec.Conditional.ranges]
  | cons r rs ih =>
    intro icol hpos
    simp only [List.map_cons, List.flatMap_cons, Spec.Conditional.ranges, List.zipIdx_cons]
    have h1 : (List.replicate r.cnt (β r.word) ++ List.flatMap (fun r => List.replicate r.cnt (β r.word)) rs).take r.cnt
        = List.replicate r.cnt (β r.word) := by
      rw [List.take_append_of_le_length (by simp)]; simp
    have h2 : (List.replicate r.cnt (β r.word) ++ List.flatMap (fun r => List.replicate r.cnt (β r.word)) rs).drop r.cnt
        = List.flatMap (fun r => List.replicate r.cnt (β r.word)) rs := by
      rw [List.drop_append_of_le_length (by simp)]; simp
    rw [h1, h2, rle_replicate _ _ (hpos r (by simp)), ih (icol + 1) (fun x hx => hpos x (by simp [hx]))]
    rfl

theorem forall₂_zipIdx_of_mem {β γ : Type} {Rel : β → γ → Prop} {Rel' : β × Nat → γ → Prop} :
    ∀ {l : List β} {l' : List γ}, List.Forall₂ Rel l l' → ∀ k0 : Nat,
    (∀ a k b, (a, k) ∈ l.zipIdx k0 → Rel a b → Rel' (a, k) b) → List.Forall₂ Rel' (l.zipIdx k0) l' := by
  intro l l' h
  induction h with
  | nil => intro _ _; exact .nil
  | cons hab _ ih =>
    intro k0 hh
    rw [List.zipIdx_cons]
    exact .cons (hh _ _ _ (by simp [List.zipIdx_cons]) hab)
      (ih (k0 + 1) (fun a k b hm hr => hh a k b (by rw [List.zipIdx_cons]; exact List.mem_cons_of_mem _ hm) hr))

theorem stab_applyConditional_eq (H : StabHyps α P nz St n half ph conjOf valid) {gt : GateTerm P} {bits : List Nat}
    (hv : valid gt bits) {rs : List (SRng α)} (hgood : GoodS St N rs) (β : Nat → Bool) :
    ∃ rs' : List (SRng α),
      StabState.applyConditional (α := α) ph conjOf (mkStab n N rs)
        (rs.flatMap fun r => List.replicate r.cnt (β r.word)) gt bits = .pure (mkStab n N rs') ∧
      GoodS St N rs' ∧ mkRegS rs' = mkRegS rs ∧
      ∀ g' : List α × Nat → R, valueS toR g' rs' =
        valueS toR (fun sw => g' (if β sw.2 then gateOn n gt bits sw.1 else sw.1, sw.2)) rs := by
  obtain ⟨rs', h1, h2, h3, h4, h5⟩ := map_ranges (St := St) toR
    (fun t w => if β w then Tab.applyGate ph (conjOf gt) t bits else .ok t)
    (fun sw => if β sw.2 then gateOn n gt bits sw.1 else sw.1) rs
    (by
      intro r _ hr
      by_cases hb : β r.word = true
      · obtain ⟨t', ht'⟩ := H.gateRuns gt bits hv r.tab r.vec hr.2.1
        refine ⟨t', by simp [hb, ht'], ?_, ?_⟩
        · simp only [hb, if_true]; exact H.tab.gate gt bits hv _ _ _ hr.2.1 ht'
        · simp only [hb, if_true]; exact H.iso gt bits hv _ (H.tab.weight _ _ hr.2.1).1
      · exact ⟨r.tab, by simp [hb], by simp only [hb]; exact hr.2.1, by simp [hb]⟩)
    hgood.ok
  refine ⟨rs', ?_, ⟨h2, by rw [h3, hgood.sum]⟩, h4, h5⟩
  have hpos : ∀ r ∈ rs, 0 < r.cnt := fun r hr => (hgood.ok r hr).1
  have hlen : (rs.flatMap fun r => List.replicate r.cnt (β r.word)).length = N := by
    rw [← hgood.sum]
    clear h1 h2 h3 h4 h5 hgood hpos
    induction rs with
    | nil => rfl
    | cons r rs ih => simp [List.flatMap_cons, ih]
  unfold StabState.applyConditional
  rw [if_neg (by simp only [mkStab]; rw [hlen]; simp), if_neg (by rw [H.arity gt bits hv]; simp)]
  have hcr : collectConditionalRanges (mkStab n N rs).counts (rs.flatMap fun r => List.replicate r.cnt (β r.word))
      = some ((rs.zipIdx 0).map fun rk => (rk.2, rk.1.cnt, β rk.1.word)) := by
    have := Q1t.Proofs.Conditional.sim_collectLoop_eq_spec
      (rs.flatMap fun r => List.replicate r.cnt (β r.word)) (rs.map (·.cnt)) 0 0
      (by intro c hc; simp only [List.mem_map] at hc; obtain ⟨r, hr, rfl⟩ := hc; exact hpos r hr)
      (by rw [hlen, hgood.sum]; omega)
    rw [List.drop_zero, ranges_homogS β rs 0 hpos] at this
    exact this
  simp only [hcr]
  refine Eq.trans (congrArg (fun z => (StabState.lift (α := α) z).bind _)
    (mapM_res_ok _ (l' := rs'.map (·.tab)) ?_)) ?_
  · rw [List.forall₂_map_left_iff]
    refine forall₂_zipIdx_of_mem h1 0 ?_
    intro r k b hmem hr
    obtain ⟨_, hk, he⟩ := List.mem_zipIdx hmem
    simp only [Nat.zero_add, Nat.sub_zero] at hk he
    have ht : (mkStab n N rs).tabs[k]? = some r.tab := by
      simp only [mkStab, List.getElem?_map, List.getElem?_eq_getElem hk, Option.map_some, he]
    simp only [ht]
    exact hr
  rw [lift_ok, bind_pure']
  have hcnt : ((rs.zipIdx 0).map fun rk => (rk.2, rk.1.cnt, β rk.1.word)).map (·.2.1) = rs'.map (·.cnt) := by
    rw [h3, List.map_map]
    exact zipIdx_map_eq rs _ _ (fun k hk => rfl)
  simp only [mkStab, hcnt]

theorem condS_step (H : StabHyps α P nz St n half ph conjOf valid) {rs : List (SRng α)} (hgood : GoodS St N rs)
    {control : List Nat} {target : Nat} {gt : GateTerm P} {bits : List Nat} (hv : valid gt bits)
    (hctl : ctlOK control) {K : StabState × List Nat → R} {g : List α × Nat → R} (hK : MultS St n N toR K g) :
    expectOrd ord toR (execOp (stabBackend half ph conjOf) (mkStab n N rs) (mkRegS rs)
      (.cond control target gt bits)) K = valueS toR (stepGf n (.cond control target gt bits) g) rs := by
  have hmap : (mkRegS rs).mapM (controlWord control) = some ((mkRegS rs).map (cwOf control)) :=
    mapM_eq_map _ _ _ (fun w _ => controlWord_ok hctl w)
  have hmask : ((mkRegS rs).map (cwOf control)).map (· == target) =
      rs.flatMap fun r => List.replicate r.cnt (cwOf control r.word == target) := by
    simp [mkRegS, List.map_flatMap]
  obtain ⟨rs', e1, hg1, hr1, hv1⟩ := stab_applyConditional_eq (N := N) toR H hv hgood (fun w => cwOf control w == target)
  simp only [execOp, hmap, hmask, stabBackend, e1, bind_pure', expectOrd_pure]
  rw [← hr1, hK rs' hg1, hv1]
  apply valueS_congr
  intro r _
  simp only [stepGf, controlWord_ok hctl, beq_iff_eq]

/-! ### `measure_all`: qubit by qubit -/

/-- single-shot function of the sequential Z-measurement of the listed `(classical bit, qubit)` pairs -/
def seqGf (n : Nat) (g : List α × Nat → R) : List (Nat × Nat) → List α × Nat → R
  | [] => g
  | p :: ps => fun sw =>
      seqGf n g ps (project n p.2 false sw.1, writeBit sw.2 p.1 false) +
      seqGf n g ps (project n p.2 true sw.1, writeBit sw.2 p.1 true)

theorem seqGf_cons (g : List α × Nat → R) (p : Nat × Nat) (ps : List (Nat × Nat)) :
    seqGf n g (p :: ps) = stepGf (P := P) n (.measure p.2 p.1 .Z) (seqGf n g ps) := rfl

theorem seqGf_scales {g : List α × Nat → R} (hg : Scales (P := P) toR g) :
    ∀ ps : List (Nat × Nat), Scales (P := P) toR (seqGf n g ps)
  | [] => hg
  | p :: ps => by rw [seqGf_cons (P := P)]; exact stepGf_scales toR n _ _ (seqGf_scales hg ps)

theorem expect_foldl_bind {β γ : Type} (f : γ → β → Prog α β) (K : β → R) : ∀ (l : List γ) (acc : Prog α β),
    expectOrd ord toR (l.foldl (fun acc p => acc.bind (f p)) acc) K =
      expectOrd ord toR acc (fun b => expectOrd ord toR (l.foldl (fun acc p => acc.bind (f p)) (.pure b)) K) := by
  intro l
  induction l with
  | nil => intro acc; rfl
  | cons p l ih =>
    intro acc
    simp only [List.foldl_cons]
    rw [ih, expectOrd_bind]
    apply expectOrd_congr
    intro b
    rw [ih ((Prog.pure b).bind (f p))]
    rfl

/-- the loop of `measure_all_into` on a homogeneous state -/
theorem measureSeq_expect (H : StabHyps α P nz St n half ph conjOf valid) {K : StabState × List Nat → R}
    {g : List α × Nat → R} (hK : MultS St n N toR K g) (hg : Scales (P := P) toR g) :
    ∀ (ps : List (Nat × Nat)), (∀ p ∈ ps, p.2 < n ∧ p.1 < 64) → ∀ rs : List (SRng α), GoodS St N rs →
    expectOrd ord toR (ps.foldl (fun (acc : Prog α (StabState × List Nat)) p => acc.bind fun sr =>
        StabState.measureInto half ph sr.1 p.2 p.1 sr.2) (.pure (mkStab n N rs, mkRegS rs))) K =
      valueS toR (seqGf n g ps) rs := by
  intro ps
  induction ps with
  | nil => intro _ rs hgood; exact hK rs hgood
  | cons p ps ih =>
    intro hps rs hgood
    simp only [List.foldl_cons, bind_pure']
    rw [expect_foldl_bind (ord := ord) toR (fun p sr => StabState.measureInto half ph sr.1 p.2 p.1 sr.2) K ps]
    have hp := hps p (by simp)
    have := measureIntoS_step (ord := ord) toR H hgood hp.1 hp.2
      (K := fun b => expectOrd ord toR (ps.foldl (fun (acc : Prog α (StabState × List Nat)) p => acc.bind fun sr =>
        StabState.measureInto half ph sr.1 p.2 p.1 sr.2) (.pure b)) K)
      (fun rs' hg' => ih (fun x hx => hps x (by simp [hx])) rs' hg') (seqGf_scales toR hg ps)
    rw [this]
    rfl

theorem foldl_congr_mem' {β γ : Type} (f g : β → γ → β) : ∀ (l : List γ) (a : β),
    (∀ (x : β) (y : γ), y ∈ l → f x y = g x y) → l.foldl f a = l.foldl g a
  | [], _, _ => rfl
  | y :: l, a, h => by
    simp only [List.foldl_cons, h a y (List.mem_cons_self ..)]
    exact foldl_congr_mem' f g l _ fun x z hz => h x z (List.mem_cons_of_mem _ hz)

/-- **the single-shot identity**: the sequential measurement of the last `m` qubits is the sum over the `2^m`
assignments of their outcomes (qubit `q` ↔ bit `n-1-q` of the index) -/
theorem seqGf_suffix (g : List α × Nat → R) (c : Nat → Nat) : ∀ (m : Nat), m ≤ n → ∀ (ψ : List α) (w : Nat),
    seqGf n g ((List.range' (n - m) m).map fun q => (c q, q)) (ψ, w) =
      ((List.range (2 ^ m)).map fun j =>
        g ((List.range' (n - m) m).foldl (fun φ q => project n q (j.testBit (n - 1 - q)) φ) ψ,
           (List.range' (n - m) m).foldl (fun u q => writeBit u (c q) (j.testBit (n - 1 - q))) w)).sum := by
  intro m
  induction m with
  | zero => intro _ ψ w; simp [seqGf]
  | succ m ih =>
    intro hm ψ w
    have ih := ih (by omega)
    have hr : List.range' (n - (m + 1)) (m + 1) = (n - (m + 1)) :: List.range' (n - m) m := by
      rw [List.range'_succ]; congr 2; omega
    have hq0 : n - 1 - (n - (m + 1)) = m := by omega
    rw [hr]
    simp only [List.map_cons, seqGf, List.foldl_cons, hq0]
    rw [ih, ih, pow_succ, Nat.mul_two, List.range_add, List.map_append, List.sum_append, List.map_map]
    congr 1
    · congr 1
      apply List.map_congr_left
      intro j hj
      have hj' : j < 2 ^ m := List.mem_range.mp hj
      rw [Nat.testBit_lt_two_pow hj']
    · congr 1
      apply List.map_congr_left
      intro j hj
      have hj' : j < 2 ^ m := List.mem_range.mp hj
      have hb : (2 ^ m + j).testBit m = true := by
        rw [Nat.testBit_two_pow_add_eq, Nat.testBit_lt_two_pow hj']; rfl
      simp only [Function.comp, hb]
      congr 2
      · apply foldl_congr_mem'
        intro φ q hq
        have : n - 1 - q < m := by
          have := List.mem_range'_1.mp hq; omega
        rw [Nat.testBit_two_pow_add_gt this]
      · apply foldl_congr_mem'
        intro u q hq
        have : n - 1 - q < m := by
          have := List.mem_range'_1.mp hq; omega
        rw [Nat.testBit_two_pow_add_gt this]

theorem zipIdx_eq_pairs (cbits : List Nat) :
    cbits.zipIdx = (List.range' 0 cbits.length).map fun q => (cbits.getD q 0, q) := by
  apply List.ext_getElem
  · simp
  · intro i h1 h2
    have : i < cbits.length := by simpa using h1
    simp [List.getD_eq_getElem?_getD, this]

/-- … for all qubits: the `measure_all` clause of `gfShot` (words below `2^64`) -/
theorem seqGf_measureAll (g : List α × Nat → R) {cbits : List Nat} (hlen : cbits.length = n) (ψ : List α) {w : Nat}
    (hw : w < 2 ^ 64) :
    seqGf n g cbits.zipIdx (ψ, w) = stepGf (P := P) n (.measureAll cbits .Z) g (ψ, w) := by
  rw [zipIdx_eq_pairs, hlen]
  have := seqGf_suffix (n := n) g (fun q => cbits.getD q 0) n (Nat.le_refl n) ψ w
  rw [Nat.sub_self] at this
  rw [this]
  simp only [stepGf, wordAll, Nat.mod_eq_of_lt hw, ← List.range_eq_range', measureAllTo_Z, qbit_testBit]

theorem measureAllS_step (H : StabHyps α P nz St n half ph conjOf valid) {rs : List (SRng α)} (hgood : GoodS St N rs)
    {cbits : List Nat} (hlen : cbits.length = n) (hlt : ∀ c ∈ cbits, c < 64)
    {K : StabState × List Nat → R} {g : List α × Nat → R} (hK : MultS St n N toR K g) (hg : Scales (P := P) toR g) :
    expectOrd ord toR (StabState.measureAllInto half ph (mkStab n N rs) cbits (mkRegS rs)) K =
      valueS toR (stepGf (P := P) n (.measureAll cbits .Z) g) rs := by
  unfold StabState.measureAllInto
  rw [if_neg (by rw [mkRegS_length, hgood.sum]; simp [mkStab]), if_neg (by simp [mkStab, hlen])]
  have hps : ∀ p ∈ cbits.zipIdx, p.2 < n ∧ p.1 < 64 := by
    intro p hp
    obtain ⟨_, h2, h3⟩ := List.mem_zipIdx hp
    simp only [Nat.zero_add, Nat.sub_zero] at h2 h3
    exact ⟨by omega, by rw [h3]; exact hlt _ (List.getElem_mem _)⟩
  have := measureSeq_expect (ord := ord) toR H hK hg cbits.zipIdx hps rs hgood
  refine Eq.trans ?_ (this.trans ?_)
  · rfl
  · apply valueS_congr
    intro r hr
    rw [seqGf_measureAll (P := P) g hlen r.vec (hgood.ok r hr).2.2.2]

/-- `apply_unary_gate_all` on stabilizer ranges -/
theorem stab_foldGate_eq (H : StabHyps α P nz St n half ph conjOf valid) (gt : GateTerm P) :
    ∀ (l : List Nat), (∀ q ∈ l, valid gt [q]) → ∀ {rs : List (SRng α)}, GoodS St N rs →
    ∃ rs' : List (SRng α),
      l.foldl (fun (acc : Prog α StabState) bit => acc.bind fun st => StabState.applyGate (α := α) ph conjOf st gt [bit])
        (Prog.pure (mkStab n N rs)) = .pure (mkStab n N rs') ∧
      GoodS St N rs' ∧ mkRegS rs' = mkRegS rs ∧
      ∀ g' : List α × Nat → R, valueS toR g' rs' = valueS toR (fun sw => g' (unaryL n gt l sw.1, sw.2)) rs := by
  intro l
  induction l with
  | nil => intro _ rs hgood; exact ⟨rs, rfl, hgood, rfl, fun _ => rfl⟩
  | cons q l ih =>
    intro hv rs hgood
    obtain ⟨r1, e1, g1, m1, v1⟩ := stab_applyGate_eq (N := N) toR H (hv q (by simp)) hgood
    obtain ⟨r2, e2, g2, m2, v2⟩ := ih (fun x hx => hv x (by simp [hx])) g1
    refine ⟨r2, ?_, g2, m2.trans m1, fun g' => ?_⟩
    · simp only [List.foldl_cons, bind_pure', e1]; exact e2
    · rw [v2, v1]; rfl

theorem stab_applyUnaryAll_eq (H : StabHyps α P nz St n half ph conjOf valid) {gt : GateTerm P}
    (hv : ∀ q, q < n → valid gt [q]) {rs : List (SRng α)} (hgood : GoodS St N rs) :
    ∃ rs' : List (SRng α), StabState.applyUnaryAll (α := α) ph conjOf (mkStab n N rs) gt = .pure (mkStab n N rs') ∧
      GoodS St N rs' ∧ mkRegS rs' = mkRegS rs ∧
      ∀ g' : List α × Nat → R, valueS toR g' rs' = valueS toR (fun sw => g' (Sim.unaryAll n gt sw.1, sw.2)) rs := by
  unfold StabState.applyUnaryAll
  exact stab_foldGate_eq toR H gt _ (fun q hq => hv q (List.mem_range.mp hq)) hgood

/-- **`measure_all` on the stabilizer backend, any basis** -/
theorem measureAllBS_step (H : StabHyps α P nz St n half ph conjOf valid) {rs : List (SRng α)}
    (hgood : GoodS St N rs) {cbits : List Nat} (b : Basis) (hlen : cbits.length = n) (hlt : ∀ c ∈ cbits, c < 64)
    {K : StabState × List Nat → R} {g : List α × Nat → R} (hK : MultS St n N toR K g) (hg : Scales (P := P) toR g) :
    expectOrd ord toR (execOp (stabBackend half ph conjOf) (mkStab n N rs) (mkRegS rs) (.measureAll cbits b)) K =
      valueS toR (stepGf (P := P) n (.measureAll cbits b) g) rs := by
  have vH : ∀ q, q < n → valid (.H : GateTerm P) [q] := fun q hq => (H.tab.basis q hq).1
  have vS : ∀ q, q < n → valid (.S : GateTerm P) [q] := fun q hq => (H.tab.basis q hq).2.1
  have vSdg : ∀ q, q < n → valid (.Sdg : GateTerm P) [q] := fun q hq => (H.tab.basis q hq).2.2
  have hspec : ∀ (sw : List α × Nat),
      stepGf (P := P) n (.measureAll cbits .Z) (fun sw => g (Sim.postAll (P := P) n b sw.1, sw.2))
        (Sim.preAll (P := P) n b sw.1, sw.2) = stepGf (P := P) n (.measureAll cbits b) g sw := by
    intro sw
    simp only [stepGf]
    congr 1
    apply List.map_congr_left
    intro idx _
    rw [Sim.measureAllTo_basis (P := P) b _ sw.1]
  have hscale : Scales (P := P) toR (fun sw => g (Sim.postAll (P := P) n b sw.1, sw.2)) := by
    intro v w a
    simp only [postAll_smul]
    exact hg _ _ _
  cases b with
  | Z =>
    simp only [execOp, withBasisAll, stabBackend]
    exact measureAllS_step toR H hgood hlen hlt hK hg
  | X =>
    simp only [execOp, withBasisAll, stabBackend, bind_eq', pure_eq']
    obtain ⟨r1, e1, g1, m1, v1⟩ := stab_applyUnaryAll_eq (N := N) toR H vH hgood
    rw [e1, bind_pure', expectOrd_bind, ← m1]
    have hK1 : MultS St n N toR (fun sr : StabState × List Nat => expectOrd ord toR
        ((StabState.applyUnaryAll (α := α) ph conjOf sr.1 (GateTerm.H : GateTerm P)).bind fun s2 => .pure (s2, sr.2)) K)
        (fun sw => g (Sim.postAll (P := P) n .X sw.1, sw.2)) := by
      intro rs' hg'
      obtain ⟨ra, ea, ga, ma, va⟩ := stab_applyUnaryAll_eq (N := N) toR H vH hg'
      simp only [ea, bind_pure', expectOrd_pure]
      rw [← ma, hK ra ga, va]; rfl
    rw [measureAllS_step (ord := ord) toR H g1 hlen hlt hK1 hscale, v1]
    apply valueS_congr
    intro r _
    rw [← hspec (r.vec, r.word)]; rfl
  | Y =>
    simp only [execOp, withBasisAll, stabBackend, bind_eq', pure_eq']
    obtain ⟨r0, e0, g0, m0, v0⟩ := stab_applyUnaryAll_eq (N := N) toR H vSdg hgood
    obtain ⟨r1, e1, g1, m1, v1⟩ := stab_applyUnaryAll_eq (N := N) toR H vH g0
    rw [e0, bind_pure', e1, bind_pure', expectOrd_bind, ← m0, ← m1]
    have hK1 : MultS St n N toR (fun sr : StabState × List Nat => expectOrd ord toR
        ((StabState.applyUnaryAll (α := α) ph conjOf sr.1 (GateTerm.H : GateTerm P)).bind fun s2 =>
          (StabState.applyUnaryAll (α := α) ph conjOf s2 (GateTerm.S : GateTerm P)).bind fun s3 => .pure (s3, sr.2)) K)
        (fun sw => g (Sim.postAll (P := P) n .Y sw.1, sw.2)) := by
      intro rs' hg'
      obtain ⟨ra, ea, ga, ma, va⟩ := stab_applyUnaryAll_eq (N := N) toR H vH hg'
      obtain ⟨rb, eb, gb, mb, vb⟩ := stab_applyUnaryAll_eq (N := N) toR H vS ga
      simp only [ea, bind_pure', eb, expectOrd_pure]
      rw [← ma, ← mb, hK rb gb, vb, va]; rfl
    rw [measureAllS_step (ord := ord) toR H g1 hlen hlt hK1 hscale, v1, v0]
    apply valueS_congr
    intro r _
    rw [← hspec (r.vec, r.word)]; rfl

/-! ### the fragment and the law -/

/-- **F_stab**: gates and classically controlled gates on valid placements, single-qubit measurements in any
basis, barriers.  Not in F_stab: `reset` (the stabilizer reset forces outcome 0 — D4), `peek`, `peek_all` (D5),
`reset_all`.  `measure_all` is in F_stab (any basis, `n` distinct classical bits `< 64`; this backend does it qubit
by qubit, and its law does not use distinctness — it is required so that F_stab ⊆ F, cf. D14). -/
def InFS (n : Nat) (valid : GateTerm P → List Nat → Prop) : COp P → Prop
  | .gate g bits => valid g bits
  | .cond control _ g bits => valid g bits ∧ ctlOK control
  | .measure q c _ => q < n ∧ c < 64
  | .measureAll cbits _ => cbits.length = n ∧ cbits.Nodup ∧ ∀ c ∈ cbits, c < 64
  | .barrier _ => True
  | _ => False

theorem opS_step (H : StabHyps α P nz St n half ph conjOf valid) {rs : List (SRng α)} (hgood : GoodS St N rs)
    {op : COp P} (hop : InFS n valid op) {K : StabState × List Nat → R} {g : List α × Nat → R}
    (hK : MultS St n N toR K g) (hg : Scales (P := P) toR g) :
    expectOrd ord toR (execOp (stabBackend half ph conjOf) (mkStab n N rs) (mkRegS rs) op) K =
      valueS toR (stepGf n op g) rs := by
  cases op with
  | gate gt bits =>
    have := multS_postGate (ord := ord) toR H (show valid gt bits from hop) hK rs hgood
    simp only [execOp, stabBackend]
    exact this
  | cond control target gt bits => exact condS_step toR H hgood hop.1 hop.2 hK
  | measure q c b => exact measureS_step toR H hgood b hop.1 hop.2 hK hg
  | barrier _ => simp only [execOp, expectOrd_pure, stepGf]; exact hK rs hgood
  | reset q => exact absurd hop id
  | measureAll cbits b => exact measureAllBS_step toR H hgood b hop.1 hop.2.2 hK hg
  | resetAll => exact absurd hop id
  | peek _ _ _ => exact absurd hop id
  | peekAll _ _ => exact absurd hop id

/-- **the multinomial law of the stabilizer backend on F_stab**, from every homogeneous list of stabilizer ranges -/
theorem stab_exec_gf (H : StabHyps α P nz St n half ph conjOf valid) (x : Nat → R) :
    ∀ (ops : List (COp P)), (∀ op ∈ ops, InFS n valid op) → ∀ rs : List (SRng α), GoodS St N rs →
    expectOrd ord toR (execOps (stabBackend half ph conjOf) (mkStab n N rs) (mkRegS rs) ops) (shotProdS x) =
      valueS toR (gfShot n toR x ops) rs := by
  intro ops
  induction ops with
  | nil =>
    intro _ rs hgood
    simp only [execOps, expectOrd_pure, shotProdS_mkRegS, gfShot, valueS]
    congr 1
    apply List.map_congr_left
    intro r hr
    have := (hgood.ok r hr).2.2.1
    rw [← mul_assoc, ← map_mul, mul_comm r.inv, this, map_one, one_mul]
  | cons op rest ih =>
    intro hF rs hgood
    simp only [execOps]
    rw [expectOrd_bind]
    exact opS_step toR H hgood (hF op (by simp))
      (fun rs' hg' => ih (fun o ho => hF o (by simp [ho])) rs' hg')
      (gfShot_scales toR H.amp H.sim n x rest)

/-- **histogram law on the stabilizer backend**: `N ≥ 1` shots from the fresh tableau `|0…0⟩` -/
theorem stab_histogram_gf (H : StabHyps α P nz St n half ph conjOf valid) (x : Nat → R) (ops : List (COp P))
    (hF : ∀ op ∈ ops, InFS n valid op) (hN : 0 < N) :
    expectOrd ord toR (execOps (stabBackend half ph conjOf) (StabState.new n N) (List.replicate N 0) ops)
      (shotProdS x) = gfShot n toR x ops (ket0 n, 0) ^ N := by
  have h1 : SimAmp.normSq (1 : α) = 1 := by rw [H.sim.normSq_eq, H.amp.conj_one, one_mul]
  have h0 : SimAmp.normSq (0 : α) = 0 := H.sim.normSq_zero
  have hk : normSqSum (ket0 n : List α) = 1 := by
    rw [ket0_eq, normSqSum, List.map_cons, List.sum_cons, h1, List.map_replicate, h0]; simp
  have hgood : GoodS St N [(⟨N, Tab.new n, 0, ket0 n, 1⟩ : SRng α)] := by
    refine ⟨?_, by simp⟩
    intro r hr
    simp only [List.mem_singleton] at hr
    subst hr
    exact ⟨hN, H.tab.init, by show normSqSum (ket0 n : List α) * 1 = 1; rw [hk, mul_one], by show (0 : Nat) < 2 ^ 64; decide⟩
  have := stab_exec_gf (ord := ord) toR H x ops hF _ hgood
  have e1 : mkStab n N [(⟨N, Tab.new n, 0, ket0 n, 1⟩ : SRng α)] = StabState.new n N := rfl
  have e2 : mkRegS [(⟨N, Tab.new n, 0, ket0 n, 1⟩ : SRng α)] = List.replicate N 0 := by simp [mkRegS]
  rw [e1, e2] at this
  rw [this]
  simp [valueS]

/-! ### the two backends -/

theorem inF_of_inFS {op : COp P} (h : InFS n valid op) : InF n valid op := by
  cases op <;> first | exact h | exact absurd h id

/-- **The choice of representation does not change the outcome distribution** (on F_stab, under the hypotheses of
both laws): the `N`-shot generating functions of the stabilizer backend and of the vector backend coincide. -/
theorem backends_agree (Hv : Hyps α P nz n valid) (Hs : StabHyps α P nz St n half ph conjOf valid)
    (hord : ∀ l, (ord l).Perm l) (x : Nat → R) (ops : List (COp P)) (hF : ∀ op ∈ ops, InFS n valid op) (hN : 0 < N) :
    expectOrd ord toR (execOps (stabBackend half ph conjOf) (StabState.new n N) (List.replicate N 0) ops)
      (shotProdS x) =
    expectOrd ord toR (execOps (vecBackend (α := α) (P := P)) (VecState.new n N) (List.replicate N 0) ops)
      (shotProd x) := by
  rw [stab_histogram_gf toR Hs x ops hF hN,
    histogram_gf toR hord Hv x ops (fun op ho => inF_of_inFS (hF op ho)) hN]

end
end Q1t.Sim.SimGF

import Q1t.Proofs.SimGFExec
import Q1t.Proofs.SimGFWitness
/-!
C01, non-vacuity of the law on F: a circuit with a mid-circuit measurement, a classically controlled gate, a
`reset` and an X-basis measurement

* is in the fragment F (`fragCirc_inF`, for the side-condition predicate `placed`);
* satisfies the *conclusion* of `histogram_gf` for `N = 2` shots over the exact field `Q8`, computed by the
  kernel on the model's own `Prog` term, at a test function `xT` taking five algebraically independent-looking
  values (`law_on_example`) — independent of the hypotheses `Hyps` of the general theorem;
* has four register values of single-shot probability ¼ each (`fragCirc_coeffs`) and `gfShot` assigns
  probability 0 to every other value (`fragCirc_zero`).
-/
namespace Q1t.Sim.Witness
open Q1t Q1t.Sim Q1t.Sim.Prog Q1t.Sim.SimGF

/-- the side conditions of a gate placement (C04): arity, distinct qubits, all below `n` -/
def placed {P : Type} (n : Nat) (g : GateTerm P) (bits : List Nat) : Prop :=
  Gate.nrBits g = bits.length ∧ bits.Nodup ∧ ∀ b ∈ bits, b < n

def fragCirc : List (COp Empty) :=
  [.gate .H [0], .measure 0 0 .Z, .cond [0] 1 .X [1], .gate .H [0], .measure 1 1 .Z, .reset 0, .measure 0 2 .X]

theorem fragCirc_inF : ∀ op ∈ fragCirc, InF 2 (placed 2) op := by
  simp [fragCirc, InF, placed, ctlOK, shiftOk, Gate.nrBits]

def xT (v : Nat) : Q8 :=
  if v = 0 then 1 else if v = 3 then ⟨0, 1, 0, 0⟩ else if v = 4 then ⟨2, 0, 0, 0⟩
  else if v = 7 then ⟨0, 0, 1, 0⟩ else ⟨0, 0, 0, 1/3⟩

/-- the conclusion of the multinomial law on the model's own program, 2 shots -/
theorem law_on_example :
    expectOrd id (RingHom.id Q8) (execOps (vecBackend (α := Q8) (P := Empty)) (VecState.new 2 2) [0, 0] fragCirc)
      (SimGF.shotProd xT) = gfShot 2 (RingHom.id Q8) xT fragCirc (ket0 2, 0) ^ 2 := by decide +kernel

/-- the single-shot distribution: 000, 011, 100, 111 with probability ¼ each -/
theorem fragCirc_coeffs : ∀ v ∈ [0, 3, 4, 7],
    gfShot 2 (RingHom.id Q8) (fun u => if u = v then 1 else 0) fragCirc (ket0 2, 0) = q8Rat (1/4) := by
  decide +kernel

theorem fragCirc_zero : ∀ v ∈ [1, 2, 5, 6],
    gfShot 2 (RingHom.id Q8) (fun u => if u = v then 1 else 0) fragCirc (ket0 2, 0) = 0 := by
  decide +kernel

/-! a second circuit, ending in a `measure_all` with permuted classical bits (the categorical node) -/

def allCirc : List (COp Empty) :=
  [.gate .H [0], .gate .CX [0, 1], .measure 0 2 .Z, .cond [2] 1 .H [1], .measureAll [1, 0] .Z]

theorem allCirc_inF : ∀ op ∈ allCirc, InF 2 (placed 2) op := by
  simp [allCirc, InF, placed, ctlOK, shiftOk, Gate.nrBits]

def xT2 (v : Nat) : Q8 :=
  if v = 0 then ⟨1, 1, 0, 0⟩ else if v = 6 then ⟨0, 1, 0, 0⟩ else if v = 7 then ⟨2, 0, 0, 5⟩ else ⟨0, 0, 0, 1/3⟩

theorem law_on_allCirc :
    expectOrd id (RingHom.id Q8) (execOps (vecBackend (α := Q8) (P := Empty)) (VecState.new 2 2) [0, 0] allCirc)
      (SimGF.shotProd xT2) = gfShot 2 (RingHom.id Q8) xT2 allCirc (ket0 2, 0) ^ 2 := by decide +kernel

/-- single-shot distribution: 000 with probability ½, 110 and 111 with probability ¼ each -/
theorem allCirc_coeffs : gfShot 2 (RingHom.id Q8) (fun u => if u = 0 then 1 else 0) allCirc (ket0 2, 0) = q8Half ∧
    gfShot 2 (RingHom.id Q8) (fun u => if u = 6 then 1 else 0) allCirc (ket0 2, 0) = q8Rat (1/4) ∧
    gfShot 2 (RingHom.id Q8) (fun u => if u = 7 then 1 else 0) allCirc (ket0 2, 0) = q8Rat (1/4) := by
  decide +kernel

/-! a third circuit: `measure_all` in the X basis on a Bell pair, then a Y-basis measurement -/

def allXCirc : List (COp Empty) :=
  [.gate .H [0], .gate .CX [0, 1], .measureAll [0, 1] .X, .measure 0 2 .Y]

theorem allXCirc_inF : ∀ op ∈ allXCirc, InF 2 (placed 2) op := by
  simp [allXCirc, InF, placed, ctlOK, shiftOk, Gate.nrBits]

theorem law_on_allXCirc :
    expectOrd id (RingHom.id Q8) (execOps (vecBackend (α := Q8) (P := Empty)) (VecState.new 2 2) [0, 0] allXCirc)
      (SimGF.shotProd xT2) = gfShot 2 (RingHom.id Q8) xT2 allXCirc (ket0 2, 0) ^ 2 := by decide +kernel

/-- single-shot distribution: 000, 011, 100, 111 with probability ¼ each (the X outcomes of a Bell pair agree) -/
theorem allXCirc_coeffs : ∀ v ∈ [0, 3, 4, 7],
    gfShot 2 (RingHom.id Q8) (fun u => if u = v then 1 else 0) allXCirc (ket0 2, 0) = q8Rat (1/4) := by
  decide +kernel

end Q1t.Sim.Witness

import Q1t.Proofs.PauliActG
import Q1t.Proofs.TableauStab
set_option linter.unusedSectionVars false
set_option linter.unusedVariables false
/-!
C03, general-ring part 3 (all `n`): `StabG t ψ` — the tableau `t` stabilizes the coefficient vector `ψ : List α`
(any commutative ring with `i² = −1`); `swap_rows`, `multiply_row`, `normalize`, whenever they return, leave the
set of stabilized vectors unchanged.
-/
namespace Q1t.Proofs.TabG
open Q1t Q1t.Tableau Q1t.Spec.Pauli Q1t.Proofs.Tableau

variable {α A : Type} [CommRing α] [Amp α A]

variable (A) in
/-- every signed row of `t` fixes `ψ` (index form), shapes included -/
def StabG (t : Tab) (ψ : List α) : Prop :=
  ψ.length = 2 ^ t.n ∧ t.rows.length = t.n ∧ t.signs.length = t.n ∧
    ∀ (i : Nat) s r, t.signs[i]? = some s → t.rows[i]? = some r →
      r.length = t.n ∧ act (A := A) (rowStr s r) ψ = ψ

variable (α A) in
def SameGroupG (t t' : Tab) : Prop := ∀ ψ : List α, StabG A t' ψ ↔ StabG A t ψ

theorem SameGroupG.refl (t : Tab) : SameGroupG α A t t := fun _ => Iff.rfl
theorem SameGroupG.trans {a b c : Tab} (h1 : SameGroupG α A a b) (h2 : SameGroupG α A b c) : SameGroupG α A a c :=
  fun ψ => (h2 ψ).trans (h1 ψ)

theorem wf_of_stabG (t : Tab) (ψ : List α) (h : StabG A t ψ) : t.WF := by
  obtain ⟨_, h2, h3, h4⟩ := h
  refine ⟨h2, h3, fun r hr => ?_⟩
  obtain ⟨i, hi, rfl⟩ := List.getElem_of_mem hr
  exact (h4 i t.signs[i] t.rows[i] (List.getElem?_eq_getElem (by omega)) (List.getElem?_eq_getElem hi)).1

theorem bind_ok {β γ} {r : Res β} {f : β → Res γ} {y : γ} (h : Res.bind r f = .ok y) :
    ∃ x, r = .ok x ∧ f x = .ok y := by
  cases r with
  | ok x => exact ⟨x, rfl, h⟩
  | err e => cases h
  | panic s => cases h
  | oob => cases h

theorem ofOption_ok {β} {o : Option β} {x : β} (h : Res.ofOption o = .ok x) : o = some x := by
  cases o with
  | none => cases h
  | some y => cases h; rfl

theorem swapRows_inv (t t' : Tab) (a b : Nat) (h : t.swapRows a b = .ok t') :
    SameGroupG α A t t' ∧ t'.n = t.n ∧ (t.WF → t'.WF) := by
  unfold Tab.swapRows Tab.row Tab.sign at h
  obtain ⟨r0, hr0, h⟩ := bind_ok h
  obtain ⟨r1, hr1, h⟩ := bind_ok h
  obtain ⟨s0, hs0, h⟩ := bind_ok h
  obtain ⟨s1, hs1, h⟩ := bind_ok h
  have hr0 := ofOption_ok hr0; have hr1 := ofOption_ok hr1
  have hs0 := ofOption_ok hs0; have hs1 := ofOption_ok hs1
  cases h
  refine ⟨?_, rfl, ?_⟩
  · intro ψ
    simp only [StabG, List.length_set, swap_getElem? _ a b _ _ hr0 hr1, swap_getElem? _ a b _ _ hs0 hs1]
    constructor
    · rintro ⟨h1, h2, h3, h4⟩
      refine ⟨h1, h2, h3, fun i s r hs hr => ?_⟩
      exact h4 (swapIdx a b i) s r (by rw [swapIdx_invol]; exact hs) (by rw [swapIdx_invol]; exact hr)
    · rintro ⟨h1, h2, h3, h4⟩
      exact ⟨h1, h2, h3, fun i s r hs hr => h4 (swapIdx a b i) s r hs hr⟩
  · rintro ⟨w1, w2, w3⟩
    refine ⟨by simp [w1], by simp [w2], fun r hr => ?_⟩
    rcases List.mem_or_eq_of_mem_set hr with hm | he
    · rcases List.mem_or_eq_of_mem_set hm with hm' | he'
      · exact w3 r hm'
      · subst he'; exact w3 _ (List.mem_of_getElem? hr1)
    · subst he; exact w3 _ (List.mem_of_getElem? hr0)

/-- **`multiply_row` preserves the stabilized vectors** (all `n`, any ring) -/
theorem multiplyRow_inv (h : LawfulAmp α A) {ph : List Nat} (hph : PhaseTableCorrect ph) (t t' : Tab) (i0 i1 : Nat)
    (hwf : t.WF) (hne : i0 ≠ i1) (hok : t.multiplyRow ph i0 i1 = .ok t') :
    SameGroupG α A t t' ∧ t'.n = t.n ∧ t'.WF := by
  obtain ⟨r0, r1, s0, s1, hr0, hr1, hs0, hs1, hc, ht', hg⟩ := multiplyRow_ok_inv hph t t' i0 i1 hok
  obtain ⟨w1, w2, w3⟩ := hwf
  have hl0 : r0.length = t.n := w3 r0 (List.mem_of_getElem? hr0)
  have hl1 : r1.length = t.n := w3 r1 (List.mem_of_getElem? hr1)
  have hlg : ((rowStr s0 r0).mul (rowStr s1 r1)).ops.length = t.n := by
    show (opsMul r0 r1).length = t.n
    rw [opsMul_length r0 r1 (hl0.trans hl1.symm), hl0]
  have hi0 : i0 < t.rows.length := (List.getElem?_eq_some_iff.mp hr0).1
  have hi0' : i0 < t.signs.length := (List.getElem?_eq_some_iff.mp hs0).1
  generalize hgdef : (rowStr s0 r0).mul (rowStr s1 r1) = g at *
  subst ht'
  refine ⟨?_, rfl, ?_⟩
  · intro ψ
    simp only [StabG, List.length_set, List.getElem?_set]
    constructor
    · rintro ⟨h1, h2, h3, h4⟩
      refine ⟨h1, h2, h3, fun i s r hs hr => ?_⟩
      by_cases hi : i0 = i
      · subst hi
        rw [hs0] at hs; rw [hr0] at hr
        cases hs; cases hr
        refine ⟨hl0, ?_⟩
        have hG := (h4 i0 (g.phase == 2) g.ops (by simp [hi0']) (by simp [hi0])).2
        have h1' := (h4 i1 s1 r1 (by simp [hne, hs1]) (by simp [hne, hr1])).2
        rw [hg, ← hgdef, pstr_mul_act h _ _ ψ (by simp [rowStr, hl0, hl1]) (by simp [rowStr, hl0, h1]), h1'] at hG
        exact hG
      · exact h4 i s r (by simp [hi, hs]) (by simp [hi, hr])
    · rintro ⟨h1, h2, h3, h4⟩
      refine ⟨h1, h2, h3, fun i s r hs hr => ?_⟩
      by_cases hi : i0 = i
      · subst hi
        simp [hi0, hi0'] at hs hr
        subst hs; subst hr
        refine ⟨hlg, ?_⟩
        rw [hg, ← hgdef, pstr_mul_act h _ _ ψ (by simp [rowStr, hl0, hl1]) (by simp [rowStr, hl0, h1]),
          (h4 i1 s1 r1 hs1 hr1).2, (h4 i0 s0 r0 hs0 hr0).2]
      · simp [hi] at hs hr
        exact h4 i s r hs hr
  · refine ⟨by simp [w1], by simp [w2], fun r hr => ?_⟩
    rcases List.mem_or_eq_of_mem_set hr with hm | he
    · exact w3 r hm
    · subst he; exact hlg

/-- invariant of the loops: same stabilized vectors as `t0`, same `n`, well-shaped -/
def Inv (t0 t : Tab) : Prop := SameGroupG α A t0 t ∧ t.n = t0.n ∧ t.WF

theorem elimRows_inv (h : LawfulAmp α A) {ph : List Nat} (hph : PhaseTableCorrect ph) (t0 : Tab)
    (sel : P → Bool) (j i : Nat) :
    ∀ (ms : List Nat) (t t' : Tab), Inv (α := α) (A := A) t0 t → Tab.elimRows ph sel j i ms t = .ok t' →
      Inv (α := α) (A := A) t0 t' := by
  intro ms
  induction ms with
  | nil => intro t t' hg hok; cases hok; exact hg
  | cons m ms ih =>
    intro t t' hg hok
    simp only [Tab.elimRows, bind] at hok
    obtain ⟨p, hp, hok⟩ := bind_ok hok
    split at hok
    · rename_i hc
      obtain ⟨t1, ht1, hok⟩ := bind_ok hok
      have hne : m ≠ i := by
        simp only [Bool.and_eq_true, bne_iff_ne] at hc; exact hc.1
      obtain ⟨sg, hn, hwf⟩ := multiplyRow_inv h hph t t1 m i hg.2.2 hne ht1
      exact ih t1 t' ⟨hg.1.trans sg, hn.trans hg.2.1, hwf⟩ hok
    · exact ih t t' hg hok

theorem pass_inv (h : LawfulAmp α A) {ph : List Nat} (hph : PhaseTableCorrect ph) (t0 : Tab) (sel : P → Bool) :
    ∀ (js : List Nat) (t : Tab) (i : Nat) (t' : Tab) (i' : Nat), Inv (α := α) (A := A) t0 t →
      Tab.pass ph sel js t i = .ok (t', i') → Inv (α := α) (A := A) t0 t' := by
  intro js
  induction js with
  | nil => intro t i t' i' hg hok; cases hok; exact hg
  | cons j js ih =>
    intro t i t' i' hg hok
    simp only [Tab.pass, bind] at hok
    obtain ⟨r, hr, hok⟩ := bind_ok hok
    cases r with
    | none => exact ih t i t' i' hg hok
    | some k =>
      simp only [] at hok
      obtain ⟨t1, e1, hok⟩ := bind_ok hok
      obtain ⟨t2, e2, hok⟩ := bind_ok hok
      obtain ⟨sg, hn, hwf⟩ := swapRows_inv (α := α) (A := A) t t1 i k e1
      have hg1 : Inv (α := α) (A := A) t0 t1 := ⟨hg.1.trans sg, hn.trans hg.2.1, hwf hg.2.2⟩
      exact ih t2 (i + 1) t' i' (elimRows_inv h hph t0 sel j i _ t1 t2 hg1 e2) hok

/-- **`normalize` preserves the stabilized vectors whenever it returns** (all `n`, any ring) -/
theorem normalize_inv (h : LawfulAmp α A) {ph : List Nat} (hph : PhaseTableCorrect ph) (t t' : Tab) (hwf : t.WF)
    (hok : t.normalize ph = .ok t') : SameGroupG α A t t' ∧ t'.n = t.n ∧ t'.WF := by
  simp only [Tab.normalize, bind] at hok
  obtain ⟨⟨t1, i1⟩, e1, hok⟩ := bind_ok hok
  obtain ⟨⟨t2, i2⟩, e2, hok⟩ := bind_ok hok
  cases hok
  have hg0 : Inv (α := α) (A := A) t t := ⟨SameGroupG.refl t, rfl, hwf⟩
  have hg1 := pass_inv h hph t P.hasX _ t 0 t1 i1 hg0 e1
  exact pass_inv h hph t P.hasZ _ t1 i1 t2 i2 hg1 e2

end Q1t.Proofs.TabG

import Q1t.Proofs.EqualStatesPlan
set_option linter.unusedSectionVars false
set_option linter.unusedVariables false
set_option linter.unusedSimpArgs false
/-!
`PartU`: two `Canon` tableaux whose rows span the same GF(2)-space have the same rows (uniqueness of the reduced
echelon basis).  Self-contained (helpers live in the sub-namespace `PU`).

* `PU.Blk sel t n i0 piv` — an echelon block: rows `i0 … i0+|piv|-1` are pivot rows for the `sel`-bit, later rows are
  `sel`-free.  A combination `Σ α_j row_j` with `α_j = 0` for `j < i0` reads `α_{i0+a}` at column `piv[a]`
  (`cmb_pivot`), is `sel`-free before the pivot of the first participating pivot row (`cmb_lead`) and `sel`-free
  altogether if none takes part (`cmb_zero`).
* `piv_mem` — hence the pivot of a pivot row of `t2` is a pivot of `t1`; the strictly increasing lists agree.
* with equal pivot lists every coefficient of a non-identity row `j` is `[i = j]` (`coef`), so the combination giving
  row `i` of `t2` is row `i` of `t1`.
-/
namespace Q1t.Proofs.DetPlan
open Q1t Q1t.Tableau Q1t.Spec.Pauli Q1t.Proofs.Tableau Q1t.Proofs.TabG

namespace PU

theorem bit_oob (sel : P → Bool) (t : Tab) (hwf : t.WF) (k c : Nat) (hc : t.n ≤ c) : bit sel t k c = false := by
  have hl : (rowD t k).length ≤ c := by
    by_cases hkn : k < t.rows.length
    · rw [hwf.2.2 _ (List.mem_of_getElem? (rowD_getElem? t k hkn))]; exact hc
    · have : rowD t k = [] := by
        simp [rowD, List.getD_eq_getElem?_getD, List.getElem?_eq_none (Nat.le_of_not_lt hkn)]
      rw [this]; simp
  simp [bit, bitAt, List.getElem?_eq_none hl]

/-- the `sel`-bits of the combination `Σ_j α_j · row_j` -/
def cmb (sel : P → Bool) (t : Tab) (n : Nat) (α : Fin n → ZMod 2) (c : Nat) : ZMod 2 :=
  ∑ j : Fin n, α j * bZ (bit sel t j c)

structure Blk (sel : P → Bool) (t : Tab) (n i0 : Nat) (piv : List Nat) : Prop where
  hlen : i0 + piv.length ≤ n
  sorted : piv.Pairwise (· < ·)
  pbit : ∀ (a : Nat) (h : a < piv.length) (i : Nat), bit sel t i piv[a] = decide (i = i0 + a)
  lead : ∀ (a : Nat) (h : a < piv.length) (c : Nat), c < piv[a] → bit sel t (i0 + a) c = false
  free : ∀ i, i0 + piv.length ≤ i → ∀ c, bit sel t i c = false

theorem piv_mono {piv : List Nat} (hs : piv.Pairwise (· < ·)) (a b : Nat) (ha : a < piv.length) (hb : b < piv.length)
    (hab : a ≤ b) : piv[a] ≤ piv[b] := by
  rcases Nat.lt_or_eq_of_le hab with h | h
  · exact Nat.le_of_lt (List.pairwise_iff_getElem.mp hs a b ha hb h)
  · subst h; exact Nat.le_refl _

theorem sorted_ext (l1 l2 : List Nat) (h1 : l1.Pairwise (· < ·)) (h2 : l2.Pairwise (· < ·))
    (h12 : ∀ x ∈ l1, x ∈ l2) (h21 : ∀ x ∈ l2, x ∈ l1) : l1 = l2 := by
  have n1 : l1.Nodup := h1.imp (fun h => Nat.ne_of_lt h)
  have n2 : l2.Nodup := h2.imp (fun h => Nat.ne_of_lt h)
  have hp : l1.Perm l2 := (List.perm_ext_iff_of_nodup n1 n2).mpr (fun a => ⟨h12 a, h21 a⟩)
  exact List.Perm.eq_of_pairwise (fun a b _ _ hab hba => absurd hab (Nat.lt_asymm hba)) h1 h2 hp

variable {sel : P → Bool} {t : Tab} {n i0 : Nat} {piv : List Nat}

/-- a pivot column reads off the coefficient of its pivot row -/
theorem cmb_pivot (B : Blk sel t n i0 piv) (α : Fin n → ZMod 2) (j : Fin n) (h0 : i0 ≤ j.val)
    (h : j.val - i0 < piv.length) : cmb sel t n α (piv[j.val - i0]) = α j := by
  unfold cmb
  rw [Finset.sum_eq_single j]
  · rw [B.pbit _ h]
    have : j.val = i0 + (j.val - i0) := by omega
    simp [bZ, ← this]
  · intro k _ hk
    rw [B.pbit _ h]
    have : ¬ (k.val = i0 + (j.val - i0)) := fun e => hk (Fin.ext (by omega))
    simp [this, bZ]
  · intro h'; exact absurd (Finset.mem_univ _) h'

/-- the combination is `sel`-free before the pivot of the first pivot row that takes part -/
theorem cmb_lead (B : Blk sel t n i0 piv) (α : Fin n → ZMod 2) (a0 : Nat) (h0 : a0 < piv.length)
    (hbefore : ∀ j : Fin n, j.val < i0 + a0 → α j = 0) (c : Nat) (hc : c < piv[a0]) : cmb sel t n α c = 0 := by
  unfold cmb
  apply Finset.sum_eq_zero
  intro j _
  by_cases h2 : j.val < i0 + a0
  · rw [hbefore j h2, zero_mul]
  · by_cases h3 : j.val < i0 + piv.length
    · have ha : j.val - i0 < piv.length := by omega
      have hle := piv_mono B.sorted a0 (j.val - i0) h0 ha (by omega)
      have := B.lead (j.val - i0) ha c (by omega)
      rw [show i0 + (j.val - i0) = j.val by omega] at this
      rw [this]; simp [bZ]
    · rw [B.free j (by omega) c]; simp [bZ]

/-- without pivot rows the combination is `sel`-free -/
theorem cmb_zero (B : Blk sel t n i0 piv) (α : Fin n → ZMod 2)
    (hno : ∀ j : Fin n, j.val < i0 + piv.length → α j = 0) (c : Nat) : cmb sel t n α c = 0 := by
  unfold cmb
  apply Finset.sum_eq_zero
  intro j _
  by_cases h2 : j.val < i0 + piv.length
  · rw [hno j h2, zero_mul]
  · rw [B.free j (by omega) c]; simp [bZ]

/-- the pivot of a pivot row of `t2` that is a combination of the rows `≥ i0` of `t1` is a pivot of `t1` -/
theorem piv_mem {t1 t2 : Tab} {piv1 piv2 : List Nat} (B1 : Blk sel t1 n i0 piv1) (B2 : Blk sel t2 n i0 piv2)
    (b : Nat) (hb : b < piv2.length) (α : Fin n → ZMod 2) (hlow : ∀ j : Fin n, j.val < i0 → α j = 0)
    (hrep : ∀ c, bZ (bit sel t2 (i0 + b) c) = cmb sel t1 n α c) : piv2[b] ∈ piv1 := by
  classical
  have hex : ∃ a, a < piv1.length ∧ ∃ j : Fin n, j.val = i0 + a ∧ α j ≠ 0 := by
    by_contra hno
    have hz := cmb_zero B1 α (fun j hj => by
      by_contra hne
      by_cases hj0 : j.val < i0
      · exact hne (hlow j hj0)
      · exact hno ⟨j.val - i0, by omega, j, by omega, hne⟩) piv2[b]
    rw [← hrep, B2.pbit b hb] at hz
    simp [bZ] at hz
  obtain ⟨h0, j0, hj0, hα0⟩ := Nat.find_spec hex
  have hmin : ∀ j : Fin n, j.val < i0 + Nat.find hex → α j = 0 := by
    intro j hj
    by_cases hj0 : j.val < i0
    · exact hlow j hj0
    · by_contra hne
      exact Nat.find_min hex (m := j.val - i0) (by omega) ⟨by omega, j, by omega, hne⟩
  generalize Nat.find hex = a0 at h0 hj0 hmin
  have hone : α j0 = 1 := z2_eq_one_of_ne _ hα0
  have hidx : j0.val - i0 = a0 := by omega
  have hat : bit sel t2 (i0 + b) piv1[a0] = true := by
    have h1 := cmb_pivot B1 α j0 (by omega) (by omega)
    simp only [hidx] at h1
    have := hrep piv1[a0]
    rw [h1, hone] at this
    exact bZ_eq_one.mp this
  have hbefore : ∀ c, c < piv1[a0] → bit sel t2 (i0 + b) c = false := by
    intro c hc
    have := hrep c
    rw [cmb_lead B1 α a0 h0 hmin c hc] at this
    exact bZ_eq_zero.mp this
  have h1 : ¬ piv1[a0] < piv2[b] := fun h => by
    have := B2.lead b hb _ h; rw [hat] at this; cases this
  have h2 : ¬ piv2[b] < piv1[a0] := fun h => by
    have := hbefore _ h; rw [B2.pbit b hb] at this; simp at this
  have : piv2[b] = piv1[a0] := by omega
  rw [this]; exact List.getElem_mem h0

/-- with the same pivot list on both sides, the coefficient of a pivot row `j` in the combination giving row `i`
is `[i = j]` -/
theorem coef {t1 t2 : Tab} (B1 : Blk sel t1 n i0 piv) (B2 : Blk sel t2 n i0 piv) (i : Nat) (α : Fin n → ZMod 2)
    (hrep : ∀ c, bZ (bit sel t2 i c) = cmb sel t1 n α c) (j : Fin n) (h0 : i0 ≤ j.val)
    (h : j.val < i0 + piv.length) : α j = bZ (decide (i = j.val)) := by
  have hb : j.val - i0 < piv.length := by omega
  rw [← cmb_pivot B1 α j h0 hb, ← hrep, B2.pbit _ hb i]
  rw [show i0 + (j.val - i0) = j.val by omega]

/-- the span hypothesis in terms of `cmb` (all columns, also outside the tableau) -/
theorem rep_of_span (sel : P → Bool) (hsel : sel = P.hasX ∨ sel = P.hasZ) (n : Nat) (t1 t2 : Tab)
    (hwf1 : t1.WF) (hwf2 : t2.WF) (hn1 : t1.n = n) (hn2 : t2.n = n) (i : Nat) (α : Fin n → ZMod 2)
    (hα : ∀ c : Fin n, (∑ j : Fin n, α j * xZ (rowD t1 j) c = xZ (rowD t2 i) c) ∧
      (∑ j : Fin n, α j * zZ (rowD t1 j) c = zZ (rowD t2 i) c)) (c : Nat) :
    bZ (bit sel t2 i c) = cmb sel t1 n α c := by
  by_cases hc : c < n
  · rcases hsel with rfl | rfl
    · exact (hα ⟨c, hc⟩).1.symm
    · exact (hα ⟨c, hc⟩).2.symm
  · rw [bit_oob sel t2 hwf2 i c (by omega)]
    unfold cmb
    symm
    apply Finset.sum_eq_zero
    intro j _
    rw [bit_oob sel t1 hwf1 j c (by omega)]; simp [bZ]

/-- `Canon` with named pivot lists, as two blocks -/
structure CanonB (t : Tab) (n : Nat) (pX pZ : List Nat) : Prop where
  bx : Blk P.hasX t n 0 pX
  bz : Blk P.hasZ t n pX.length pZ

theorem canonB_of_canon (t : Tab) (n : Nat) (hn : t.n = n) (h : Canon t) : ∃ pX pZ, CanonB t n pX pZ := by
  obtain ⟨pX, pZ, h1, h2, h3, _, _, h6, h7, h8, h9⟩ := h
  refine ⟨pX, pZ, ⟨by omega, h2, fun a h i => by rw [(h6 a h).1 i, Nat.zero_add],
    fun a h c hc => by rw [Nat.zero_add]; exact (h6 a h).2 c hc, fun i hi c => h7 i (by omega) c⟩,
    ⟨by omega, h3, fun b h i => (h8 b h).1 i, fun b h c hc => (h8 b h).2 c hc, fun i hi c => h9 i hi c⟩⟩

theorem pivX_sub (n : Nat) (t1 t2 : Tab) (hwf1 : t1.WF) (hwf2 : t2.WF) (hn1 : t1.n = n) (hn2 : t2.n = n)
    {pX1 pZ1 pX2 pZ2 : List Nat} (C1 : CanonB t1 n pX1 pZ1) (C2 : CanonB t2 n pX2 pZ2) (hs : SpanLe n t1 t2) :
    ∀ x ∈ pX2, x ∈ pX1 := by
  intro x hx
  obtain ⟨b, hb, rfl⟩ := List.getElem_of_mem hx
  have hbn : b < n := by have := C2.bx.hlen; omega
  obtain ⟨α, hα⟩ := hs b hbn
  exact piv_mem C1.bx C2.bx b hb α (fun j hj => by omega) (fun c => by
    rw [Nat.zero_add]; exact rep_of_span P.hasX (Or.inl rfl) n t1 t2 hwf1 hwf2 hn1 hn2 b α hα c)

theorem pivZ_sub (n : Nat) (t1 t2 : Tab) (hwf1 : t1.WF) (hwf2 : t2.WF) (hn1 : t1.n = n) (hn2 : t2.n = n)
    {pX pZ1 pZ2 : List Nat} (C1 : CanonB t1 n pX pZ1) (C2 : CanonB t2 n pX pZ2) (hs : SpanLe n t1 t2) :
    ∀ x ∈ pZ2, x ∈ pZ1 := by
  intro x hx
  obtain ⟨b, hb, rfl⟩ := List.getElem_of_mem hx
  have hbn : pX.length + b < n := by have := C2.bz.hlen; omega
  obtain ⟨α, hα⟩ := hs (pX.length + b) hbn
  have hlow : ∀ j : Fin n, j.val < pX.length → α j = 0 := by
    intro j hj
    rw [coef C1.bx C2.bx (pX.length + b) α
      (rep_of_span P.hasX (Or.inl rfl) n t1 t2 hwf1 hwf2 hn1 hn2 _ α hα) j (Nat.zero_le _) (by omega)]
    have : ¬ (pX.length + b = j.val) := by omega
    simp [bZ, this]
  exact piv_mem C1.bz C2.bz b hb α hlow (rep_of_span P.hasZ (Or.inr rfl) n t1 t2 hwf1 hwf2 hn1 hn2 _ α hα)

/-- a combination whose coefficients on the non-identity rows are `[i = j]` is row `i` -/
theorem cmb_self (sel : P → Bool) (t : Tab) (n km i : Nat) (hi : i < n) (α : Fin n → ZMod 2)
    (hcoef : ∀ j : Fin n, j.val < km → α j = bZ (decide (i = j.val)))
    (hfree : ∀ j, km ≤ j → ∀ c, bit sel t j c = false) (c : Nat) : cmb sel t n α c = bZ (bit sel t i c) := by
  unfold cmb
  rw [Finset.sum_eq_single ⟨i, hi⟩]
  · by_cases hik : i < km
    · rw [hcoef ⟨i, hi⟩ hik]; simp [bZ]
    · rw [hfree i (by omega) c]; simp [bZ]
  · intro j _ hj
    by_cases hjk : j.val < km
    · rw [hcoef j hjk]
      have : ¬ (i = j.val) := fun e => hj (Fin.ext e.symm)
      simp [bZ, this]
    · rw [hfree j (by omega) c]; simp [bZ]
  · intro h'; exact absurd (Finset.mem_univ _) h'

end PU

open PU in
/-- **`PartU`** -/
theorem partU : PartU := by
  intro n t1 t2 hwf1 hwf2 hn1 hn2 hc1 hc2 h12 h21
  obtain ⟨pX1, pZ1, C1⟩ := canonB_of_canon t1 n hn1 hc1
  obtain ⟨pX2, pZ2, C2⟩ := canonB_of_canon t2 n hn2 hc2
  have hX : pX1 = pX2 := sorted_ext pX1 pX2 C1.bx.sorted C2.bx.sorted
    (pivX_sub n t2 t1 hwf2 hwf1 hn2 hn1 C2 C1 h21) (pivX_sub n t1 t2 hwf1 hwf2 hn1 hn2 C1 C2 h12)
  subst hX
  have hZ : pZ1 = pZ2 := sorted_ext pZ1 pZ2 C1.bz.sorted C2.bz.sorted
    (pivZ_sub n t2 t1 hwf2 hwf1 hn2 hn1 C2 C1 h21) (pivZ_sub n t1 t2 hwf1 hwf2 hn1 hn2 C1 C2 h12)
  subst hZ
  apply List.ext_getElem (by rw [hwf1.1, hwf2.1, hn1, hn2])
  intro i h1 h2
  have hi : i < n := by rw [hwf1.1, hn1] at h1; exact h1
  have e1 : rowD t1 i = t1.rows[i] := rowD_of_getElem? t1 i _ (List.getElem?_eq_getElem h1)
  have e2 : rowD t2 i = t2.rows[i] := rowD_of_getElem? t2 i _ (List.getElem?_eq_getElem h2)
  have hl1 : (rowD t1 i).length = n := by rw [e1, hwf1.2.2 _ (List.getElem_mem h1), hn1]
  have hl2 : (rowD t2 i).length = n := by rw [e2, hwf2.2.2 _ (List.getElem_mem h2), hn2]
  rw [← e1, ← e2]
  obtain ⟨α, hα⟩ := h12 i hi
  have hrepX := rep_of_span P.hasX (Or.inl rfl) n t1 t2 hwf1 hwf2 hn1 hn2 i α hα
  have hrepZ := rep_of_span P.hasZ (Or.inr rfl) n t1 t2 hwf1 hwf2 hn1 hn2 i α hα
  have hcoef : ∀ j : Fin n, j.val < pX1.length + pZ1.length → α j = bZ (decide (i = j.val)) := by
    intro j hj
    by_cases hjx : j.val < pX1.length
    · exact coef C1.bx C2.bx i α hrepX j (Nat.zero_le _) (by omega)
    · exact coef C1.bz C2.bz i α hrepZ j (by omega) hj
  apply string_ext_bits n _ _ hl1 hl2
  · intro c _
    have := (hrepX c).trans (cmb_self P.hasX t1 n _ i hi α hcoef (fun j hj c => C1.bx.free j (by omega) c) c)
    exact (bZ_inj this).symm
  · intro c _
    have := (hrepZ c).trans (cmb_self P.hasZ t1 n _ i hi α hcoef (fun j hj c => C1.bz.free j hj c) c)
    exact (bZ_inj this).symm

end Q1t.Proofs.DetPlan

import Q1t.Proofs.DetShapePartN1a
import Mathlib.Data.ZMod.Basic
import Mathlib.Algebra.BigOperators.Fin
import Mathlib.Data.Fintype.BigOperators
import Mathlib.Combinatorics.Pigeonhole
set_option linter.unusedSectionVars false
set_option linter.unusedVariables false
/-!
`PartC`, second (elementary) attempt, step a:

* a counting lemma by pigeonhole — more `ZMod 2`-vectors than coordinates have a non-trivial vanishing
  combination (two different coefficient functions with the same combination; their difference);
* the symplectic product `sp` of two Pauli strings as a sum over the cells of their X-bits and Z-bits.
-/
namespace Q1t.Proofs.DetPlan
open Q1t Q1t.Tableau Q1t.Spec.Pauli Q1t.Proofs.Tableau Q1t.Proofs.TabG

/-- **counting**: a family of `ZMod 2`-vectors with more members than coordinates is dependent -/
theorem exists_dep {κ ι : Type} [Fintype κ] [Fintype ι] [DecidableEq κ] [DecidableEq ι] (v : κ → ι → ZMod 2)
    (h : Fintype.card ι < Fintype.card κ) :
    ∃ a : κ → ZMod 2, a ≠ 0 ∧ ∀ c, ∑ i, a i * v i c = 0 := by
  let f : (κ → ZMod 2) → (ι → ZMod 2) := fun a c => ∑ i, a i * v i c
  have hcard : Fintype.card (ι → ZMod 2) < Fintype.card (κ → ZMod 2) := by
    rw [Fintype.card_fun, Fintype.card_fun, ZMod.card]
    exact Nat.pow_lt_pow_right (by decide) h
  obtain ⟨x, y, hxy, hf⟩ := Fintype.exists_ne_map_eq_of_card_lt f hcard
  refine ⟨x - y, sub_ne_zero.mpr hxy, fun c => ?_⟩
  have := congrFun hf c
  simp only [f] at this
  simp only [Pi.sub_apply, sub_mul, Finset.sum_sub_distrib, this, sub_self]

/-- a Boolean as an element of `ZMod 2` -/
def bZ (b : Bool) : ZMod 2 := if b then 1 else 0

theorem bZ_xor (a b : Bool) : bZ (a != b) = bZ a + bZ b := by cases a <;> cases b <;> decide
theorem bZ_and (a b : Bool) : bZ (a && b) = bZ a * bZ b := by cases a <;> cases b <;> decide
theorem bZ_eq_zero {b : Bool} : bZ b = 0 ↔ b = false := by cases b <;> decide
theorem bZ_eq_one {b : Bool} : bZ b = 1 ↔ b = true := by cases b <;> decide
theorem bZ_inj {a b : Bool} (h : bZ a = bZ b) : a = b := by cases a <;> cases b <;> first | rfl | (exact absurd h (by decide))

/-- X-bit and Z-bit of a string at a column, in `ZMod 2` -/
def xZ (s : List P) (c : Nat) : ZMod 2 := bZ (bitAt P.hasX s c)
def zZ (s : List P) (c : Nat) : ZMod 2 := bZ (bitAt P.hasZ s c)

theorem bitAt_cons_zero (sel : P → Bool) (a : P) (s : List P) : bitAt sel (a :: s) 0 = sel a := rfl
theorem bitAt_cons_succ (sel : P → Bool) (a : P) (s : List P) (c : Nat) : bitAt sel (a :: s) (c + 1) = bitAt sel s c := by
  simp [bitAt]

theorem cell_sp (a b : P) : bZ ((mulP a b).1 % 2 == 1) = bZ a.hasX * bZ b.hasZ + bZ a.hasZ * bZ b.hasX := by
  rw [mulP_eq_table]; cases a <;> cases b <;> decide

theorem bZ_parity_add (x y : Nat) : bZ ((x + y) % 2 == 1) = bZ (x % 2 == 1) + bZ (y % 2 == 1) := by
  rcases Nat.mod_two_eq_zero_or_one x with hx | hx <;> rcases Nat.mod_two_eq_zero_or_one y with hy | hy <;>
    simp [Nat.add_mod, hx, hy] <;> decide

/-- **`sp` in bits**: two strings of length `n` anticommute iff `Σ_c (x_c z'_c + z_c x'_c)` is odd -/
theorem sp_bits (n : Nat) : ∀ (s s' : List P), s.length = n → s'.length = n →
    bZ (sp s s') = ∑ c : Fin n, (xZ s c * zZ s' c + zZ s c * xZ s' c) := by
  induction n with
  | zero =>
    intro s s' h h'
    have : s = [] := List.eq_nil_of_length_eq_zero h
    subst this
    simp [sp, phaseSum, bZ]
  | succ n ih =>
    intro s s' h h'
    cases s with
    | nil => simp at h
    | cons a s =>
      cases s' with
      | nil => simp at h'
      | cons b s' =>
        rw [Fin.sum_univ_succ]
        have := ih s s' (by simpa using h) (by simpa using h')
        simp only [sp, phaseSum] at this ⊢
        rw [bZ_parity_add, this, cell_sp]
        simp only [xZ, zZ, Fin.val_zero, Fin.val_succ, bitAt_cons_zero, bitAt_cons_succ]

end Q1t.Proofs.DetPlan

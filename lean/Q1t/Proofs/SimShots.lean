import Q1t.Proofs.SimMeasure
import Q1t.Proofs.SimRanges
/-!
C02 (T3): per-shot reading of `apply_gate`, `apply_conditional_gate` (= C07 `conditional_per_shot`),
`reset`, `reset_all`.
-/
set_option linter.unusedSectionVars false
namespace Q1t.Sim
open Q1t Q1t.Spec Prog

section lists
variable {σ τ : Type}

theorem mapM_option_length {f : σ → Option τ} : ∀ (l : List σ) (r : List τ), l.mapM f = some r → r.length = l.length := by
  intro l
  induction l with
  | nil => intro r h; simp at h; simp [← h]
  | cons x l ih =>
    intro r h
    simp only [List.mapM_cons] at h
    cases hx : f x with
    | none => simp [hx] at h
    | some y =>
      cases hl : l.mapM f with
      | none => simp [hx, hl] at h
      | some ys =>
        simp [hx, hl] at h
        subst h
        simp [ih ys hl]

theorem mapM_option_eq_map {f : σ → Option τ} {g : σ → τ} : ∀ (l : List σ) (r : List τ),
    (∀ x ∈ l, ∀ y, f x = some y → y = g x) → l.mapM f = some r → r = l.map g := by
  intro l
  induction l with
  | nil => intro r _ h; simp at h; simp [← h]
  | cons x l ih =>
    intro r hg h
    simp only [List.mapM_cons] at h
    cases hx : f x with
    | none => simp [hx] at h
    | some y =>
      cases hl : l.mapM f with
      | none => simp [hx, hl] at h
      | some ys =>
        simp [hx, hl] at h
        subst h
        rw [List.map_cons, ← ih ys (fun x hx => hg x (List.mem_cons_of_mem _ hx)) hl, hg x List.mem_cons_self y hx]

theorem zipWith_zipWith_same {ρ υ : Type} (F : τ → ρ → υ) (C : σ → ρ → τ) : ∀ (l : List σ) (o : List ρ),
    List.zipWith F (List.zipWith C l o) o = List.zipWith (fun s b => F (C s b) b) l o := by
  intro l
  induction l with
  | nil => intro o; simp
  | cons x l ih =>
    intro o
    cases o with
    | nil => simp
    | cons b o => simp [ih o]

theorem forall₂_zip_snd {ρ : Type} {R : τ → ρ → Prop} : ∀ (ws : List σ) (cs : List τ) (ns : List ρ),
    ws.length = cs.length → List.Forall₂ (fun (wc : σ × τ) n0 => R wc.2 n0) (ws.zip cs) ns → List.Forall₂ R cs ns := by
  intro ws
  induction ws with
  | nil =>
    intro cs ns h hf
    have : cs = [] := List.length_eq_zero_iff.mp h.symm
    subst this
    simpa using hf
  | cons w ws ih =>
    intro cs ns h hf
    cases cs with
    | nil => simp at h
    | cons c cs =>
      simp only [List.zip_cons_cons] at hf
      cases hf with
      | cons h1 h2 => exact .cons h1 (ih cs _ (by simpa using h) h2)

end lists

section
variable {α P : Type} [CommRing α] [Amp α P] [SimAmp α]
variable {sb : Nat → α → Nat → Prop} {sc : List α → Nat → Prop}
variable {n : Nat} {valid : GateTerm P → List Nat → Prop}

theorem measOuts_length_of {s : VecState α} {q : Nat} {n0s : List Nat} (hwf : WFS s)
    (hf : List.Forall₂ (fun (wc : α × Nat) n0 => n0 ≤ wc.2 ∧ sb wc.2 (SimAmp.min1 wc.1) n0)
        (((cols s).map (w0Of s.nrBits q)).zip s.counts) n0s) :
    (measOuts s.counts n0s).length = s.nrShots := by
  rw [measOuts_length, hwf.counts_sum]
  apply forall₂_zip_snd ((cols s).map (w0Of s.nrBits q)) s.counts n0s (by simp [cols_length])
  exact hf.imp fun _ _ h => h.1

/-! ### `apply_gate` -/

theorem applyGate_runs {s : VecState α} {g : GateTerm P} {bits : List Nat} {ds ds' : List Draw} {s' : VecState α}
    (h : Runs sb sc (VecState.applyGate s g bits) ds (.ok s') ds') :
    ds' = ds ∧ ∃ st, Gate.applyGateSlice (α := α) .mat g bits s.nrBits s.states = some st ∧
      s' = { s with states := st } := by
  unfold VecState.applyGate at h
  split at h
  · exact absurd h runs_err_ok
  split at h
  · exact absurd h runs_panic_ok
  · rename_i st hst
    obtain ⟨h1, h2⟩ := runs_pure_iff.mp h
    simp only [Except.ok.injEq] at h1
    exact ⟨h2, st, hst, h1⟩

/-- shape part (T1) -/
theorem applyGate_wfs (hshape : GateShapeOK α n valid) {s : VecState α} {g : GateTerm P} {bits : List Nat}
    (hv : valid g bits) (hn : s.nrBits = n) (hwf : WFS s) {ds ds' : List Draw} {s' : VecState α}
    (h : Runs sb sc (VecState.applyGate s g bits) ds (.ok s') ds') :
    ds' = ds ∧ s'.nrBits = s.nrBits ∧ s'.nrShots = s.nrShots ∧ s'.counts = s.counts ∧ WFS s' := by
  obtain ⟨h1, st, hst, rfl⟩ := applyGate_runs h
  rw [hn] at hst
  obtain ⟨e1, e2⟩ := hshape g bits hv s.counts.length s.states st (hn ▸ hwf.rows) hwf.row_len hst
  exact ⟨h1, rfl, rfl, rfl, ⟨hwf.counts_sum, by simpa [hn] using e1, e2⟩⟩

/-- per-shot part: every shot's state is hit by the embedded documented unitary -/
theorem applyGate_shots (hsem : GateSemOK α n valid) {s : VecState α} {g : GateTerm P} {bits : List Nat}
    (hv : valid g bits) (hn : s.nrBits = n) (hwf : WFS s) {ds ds' : List Draw} {s' : VecState α}
    (h : Runs sb sc (VecState.applyGate s g bits) ds (.ok s') ds') :
    ds' = ds ∧ s'.nrBits = s.nrBits ∧ s'.nrShots = s.nrShots ∧ s'.counts = s.counts ∧ WFS s' ∧
    shotStates s' = (shotStates s).map (gateOn n g bits) := by
  obtain ⟨e1, e2, e3, e4, e5⟩ := applyGate_wfs hsem.toShape hv hn hwf h
  refine ⟨e1, e2, e3, e4, e5, ?_⟩
  obtain ⟨_, st, hst, rfl⟩ := applyGate_runs h
  rw [hn] at hst
  obtain ⟨_, _, e6⟩ := hsem.mat g bits hv s.counts.length s.states st (hn ▸ hwf.rows) hwf.row_len hst
  have hc : cols ({ s with states := st } : VecState α) = (cols s).map (gateOn n g bits) := by
    simp only [cols, List.map_map]
    apply List.map_congr_left
    intro k hk
    exact e6 k (List.mem_range.mp hk)
  rw [shotStates, hc, expand_map]
  rfl

/-! ### `apply_conditional_gate` -/

theorem shotCols_map {σ : Type} (f : Nat → σ) : ∀ (counts : List Nat) (icol : Nat),
    (shotCols counts icol).map f = expand counts ((List.range' icol counts.length).map f) := by
  intro counts
  induction counts with
  | nil => intro icol; simp [shotCols, expand]
  | cons c cs ih =>
    intro icol
    simp [shotCols, expand, List.range'_succ, ih]

theorem expand_pieces {σ : Type} (F : Nat × Bool → σ) : ∀ (ranges : List (Nat × Nat × Bool)),
    expand (ranges.map (·.2.1)) (ranges.map fun p => F (p.1, p.2.2)) = (expandPieces ranges).map F := by
  intro ranges
  induction ranges with
  | nil => simp [expand, expandPieces]
  | cons p ps ih =>
    simp only [List.map_cons, expand, ih, expandPieces, List.flatMap_cons, List.map_append, List.map_replicate]

theorem applyConditional_runs {s : VecState α} {control : List Bool} {g : GateTerm P} {bits : List Nat}
    {ds ds' : List Draw} {s' : VecState α}
    (h : Runs sb sc (VecState.applyConditional s control g bits) ds (.ok s') ds') :
    ds' = ds ∧ control.length = s.nrShots ∧ ∃ ranges cols', collectConditionalRanges s.counts control = some ranges ∧
      (ranges.mapM fun (p : Nat × Nat × Bool) =>
        if p.2.2 then Gate.applyGateSlice (α := α) .vec g bits s.nrBits (s.column p.1) else some (s.column p.1)) = some cols' ∧
      s' = { s with states := VecState.ofColumns s.nrBits cols', counts := ranges.map (·.2.1) } := by
  unfold VecState.applyConditional at h
  split at h
  · exact absurd h runs_err_ok
  split at h
  · exact absurd h runs_err_ok
  split at h
  · exact absurd h runs_panic_ok
  rename_i hlen _ _ ranges hr
  dsimp only at h
  split at h
  · exact absurd h runs_panic_ok
  · rename_i cols' hc
    obtain ⟨h1, h2⟩ := runs_pure_iff.mp h
    simp only [Except.ok.injEq] at h1
    exact ⟨h2, by simpa using hlen, ranges, cols', hr, hc, h1⟩

/-- shape part (T1), no hypothesis on the gate -/
theorem applyConditional_wfs {s : VecState α} {control : List Bool} {g : GateTerm P} {bits : List Nat}
    (hwf : WFS s) {ds ds' : List Draw} {s' : VecState α}
    (h : Runs sb sc (VecState.applyConditional s control g bits) ds (.ok s') ds') :
    ds' = ds ∧ s'.nrBits = s.nrBits ∧ s'.nrShots = s.nrShots ∧ WFS s' := by
  obtain ⟨h1, hlen, ranges, cols', hr, hc, rfl⟩ := applyConditional_runs h
  refine ⟨h1, rfl, rfl, ?_⟩
  apply wfs_ofColumns
  · simp [mapM_option_length _ _ hc]
  · have hp := ranges_partition s.counts control ranges hr (by rw [hwf.counts_sum, hlen])
    rw [← expandPieces_length, hp, List.length_zip, shotCols_length, hwf.counts_sum, hlen]
    simp

/-- **`conditional_per_shot`** (shared with C07): the gate acts on exactly the shots whose mask bit is
set; every other shot keeps its state -/
theorem applyConditional_shots (hsem : GateSemOK α n valid) {s : VecState α} {control : List Bool}
    {g : GateTerm P} {bits : List Nat} (hv : valid g bits) (hn : s.nrBits = n) (hwf : WFS s)
    {ds ds' : List Draw} {s' : VecState α}
    (h : Runs sb sc (VecState.applyConditional s control g bits) ds (.ok s') ds') :
    ds' = ds ∧ control.length = s.nrShots ∧ s'.nrBits = s.nrBits ∧ s'.nrShots = s.nrShots ∧ WFS s' ∧
    shotStates s' = List.zipWith (fun st b => if b then gateOn n g bits st else st) (shotStates s) control := by
  obtain ⟨e1, e2, e3, e4⟩ := applyConditional_wfs hwf h
  obtain ⟨_, hlen, ranges, cols', hr, hc, rfl⟩ := applyConditional_runs h
  refine ⟨e1, hlen, e2, e3, e4, ?_⟩
  have hcollen : ∀ k, (s.column k).length = 2 ^ n := by
    intro k; simp [VecState.column, hwf.rows, hn]
  have hc' : cols' = ranges.map fun p =>
      (fun (ib : Nat × Bool) => if ib.2 then gateOn n g bits (s.column ib.1) else s.column ib.1) (p.1, p.2.2) := by
    apply mapM_option_eq_map _ _ _ hc
    intro p _ y hy
    by_cases hb : p.2.2 = true
    · simp only [hb, if_true] at hy ⊢
      rw [hn] at hy
      exact hsem.vec g bits hv _ _ (hcollen _) hy
    · simp only [hb] at hy ⊢
      simpa using hy.symm
  have hcl : ∀ c ∈ cols', c.length = 2 ^ s.nrBits := by
    intro c hcm
    rw [hc'] at hcm
    simp only [List.mem_map] at hcm
    obtain ⟨p, _, rfl⟩ := hcm
    by_cases hb : p.2.2 = true
    · simp only [hb, if_true]; rw [gateOn_length, hn]
    · simp only [hb]; rw [hn]; exact hcollen _
  have hp := ranges_partition s.counts control ranges hr (by rw [hwf.counts_sum, hlen])
  rw [shotStates, cols_ofColumns _ _ _ _ (by simp [mapM_option_length _ _ hc]) hcl, hc']
  show expand (ranges.map (·.2.1)) _ = _
  rw [expand_pieces (fun ib : Nat × Bool => if ib.2 = true then gateOn n g bits (s.column ib.1) else s.column ib.1)
    ranges, hp, shotStates, cols]
  have := shotCols_map s.column s.counts 0
  rw [← List.range_eq_range'] at this
  rw [← this, List.zip_eq_zipWith, List.map_zipWith, List.zipWith_map_left]

/-! ### `reset`, `reset_all` -/

theorem reset_mask (outs : List Bool) (N : Nat) (h : outs.length = N) :
    (setOuts 0 (List.replicate N 0) 0 outs).map (· != 0) = outs := by
  apply List.ext_getElem
  · simp [setOuts_length, h]
  · intro i h1 h2
    rw [List.getElem_map, getElem_setOuts_zero 0 _ outs i (by simp; omega) h2]
    cases outs[i] <;> simp [setBitTo]

/-- the state `reset` leaves a shot in, given the hidden outcome `o` -/
def resetShot (n q : Nat) (col : List α) (o : Bool) : List α :=
  if o then gateOn (P := P) n .X [q] (collapseShot n q col true) else collapseShot n q col false

/-- `reset` = hidden measurement + `X` on exactly the shots that measured 1 -/
theorem reset_shots (hsem : GateSemOK α n valid) {s : VecState α} {q : Nat} (hn : s.nrBits = n) (hwf : WFS s)
    {ds ds' : List Draw} {s' : VecState α}
    (h : Runs sb sc (VecState.reset (P := P) s q) ds (.ok s') ds') :
    q < n ∧ s'.nrBits = s.nrBits ∧ s'.nrShots = s.nrShots ∧ WFS s' ∧
    ∃ n0s, List.Forall₂ (fun (wc : α × Nat) n0 => n0 ≤ wc.2 ∧ sb wc.2 (SimAmp.min1 wc.1) n0)
        (((cols s).map (w0Of s.nrBits q)).zip s.counts) n0s ∧
      shotStates s' = List.zipWith (resetShot (P := P) n q) (shotStates s) (measOuts s.counts n0s) := by
  unfold VecState.reset at h
  obtain ⟨⟨s1, m⟩, ds1, hm, hc⟩ := runs_bind_ok _ _ h
  obtain ⟨hq, _, _, n0s, hf, hres, e1, e2, hwf1, hs1⟩ := measureInto_runs s q 0 _ hwf hm
  have hq' : q < n := hn ▸ hq
  dsimp only at hc
  have hol := measOuts_length_of hwf hf
  rw [hres, reset_mask _ _ hol] at hc
  obtain ⟨_, _, e3, e4, hwf2, hs2⟩ := applyConditional_shots hsem (hsem.basis q hq').2.2.2 (e1.trans hn) hwf1 hc
  refine ⟨hq', e3.trans e1, e4.trans e2, hwf2, n0s, hf, ?_⟩
  rw [hs2, hs1, zipWith_zipWith_same, hn]
  congr 1
  funext st b
  cases b <;> simp [resetShot]

theorem reset_wfs {s : VecState α} {q : Nat} (hwf : WFS s)
    {ds ds' : List Draw} {s' : VecState α}
    (h : Runs sb sc (VecState.reset (P := P) s q) ds (.ok s') ds') :
    s'.nrBits = s.nrBits ∧ s'.nrShots = s.nrShots ∧ WFS s' := by
  unfold VecState.reset at h
  obtain ⟨⟨s1, m⟩, ds1, hm, hc⟩ := runs_bind_ok _ _ h
  obtain ⟨_, _, _, n0s, _, _, e1, e2, hwf1, _⟩ := measureInto_runs s q 0 _ hwf hm
  obtain ⟨_, e3, e4, hwf2⟩ := applyConditional_wfs hwf1 hc
  exact ⟨e3.trans e1, e4.trans e2, hwf2⟩

/-- `|0…0⟩` -/
def ket0 (n : Nat) : List α := (List.range (2 ^ n)).map fun i => if i = 0 then (1 : α) else 0

theorem resetAll_shots (s : VecState α) :
    (VecState.resetAll s).nrBits = s.nrBits ∧ (VecState.resetAll s).nrShots = s.nrShots ∧
    WFS (VecState.resetAll s) ∧ shotStates (VecState.resetAll s) = List.replicate s.nrShots (ket0 s.nrBits) := by
  refine ⟨rfl, rfl, ⟨by simp [VecState.resetAll], by simp [VecState.resetAll], ?_⟩, ?_⟩
  · intro row h
    simp only [VecState.resetAll, List.mem_map] at h
    obtain ⟨r, _, rfl⟩ := h
    simp [VecState.resetAll]
  · have hc : cols (VecState.resetAll s) = [ket0 s.nrBits] := by
      simp [cols, VecState.resetAll, VecState.column, ket0, List.map_map]
    rw [shotStates, hc]
    simp [VecState.resetAll, expand]

end
end Q1t.Sim

import Q1t.Proofs.SimGFComplex
import Q1t.Proofs.SimGFExec
import Q1t.Proofs.SimDischargeAll
/-!
C01/C02: a REAL inhabitant of the hypothesis bundle `SimGF.Hyps` — complex amplitudes, real angles, every register
size `n`, `valid` = well-formed gate term on a valid placement (`Route.Placed n`): the arithmetic part from
`SimGFComplex`, `GateSemOK` from `gateSemOK_placed` (C04 + C05 + unitary norm preservation), `GateRuns` from
`RouteSim.gateRuns_of_c04`.  More generally `hyps_placed` for every lawful amplitude ring.
-/
noncomputable section
namespace Q1t.Sim
open Q1t Q1t.Sim.SimGF Q1t.Proofs.Route

/-- the bundle for any lawful ring: only the arithmetic hypotheses remain -/
theorem hyps_placed {α P : Type} [CommRing α] [Amp α P] [SimAmp α] {nz : α → Prop} (ha : LawfulAmp α P)
    (hs : LawfulSim α P nz) (hw : LawfulWeights α nz) (n : Nat) : Hyps α P nz n (Placed (P := P) n) where
  amp := ha
  sim := hs
  wts := hw
  sem := gateSemOK_placed ha hs n
  runs := gateRuns_of_c04 ha n _ (fun _ _ h => h)

open Q1t.Sim.SimGFComplex in
/-- **`Hyps` at ℂ/ℝ, every `n`, all well-formed terms on valid placements** -/
theorem hyps_complex (n : Nat) : Hyps ℂ ℝ nzC n (Placed (P := ℝ) n) :=
  hyps_placed Q1t.AmpComplex.lawful lawfulSim lawfulWeights n

open Q1t.Sim.SimGFComplex Q1t.Sim.Prog in
/-- **C01's `histogram_gf` on F with NO hypothesis on amplitudes or gates**: complex amplitudes, real gate
parameters, all circuits of F whose gates are well-formed terms on valid placements, all `n`, all `N ≥ 1`, every
commutative ring `R`, every `x`, every order oracle. -/
theorem histogram_gf_unconditional {R : Type} [CommRing R] {n N : Nat} (ord : List (Nat × Nat) → List (Nat × Nat))
    (hord : ∀ l, (ord l).Perm l) (toR : ℂ →+* R) (x : Nat → R) (ops : List (COp ℝ))
    (hF : ∀ op ∈ ops, InF n (Placed (P := ℝ) n) op) (hN : 0 < N) :
    expectOrd ord toR (execOps (vecBackend (α := ℂ) (P := ℝ)) (VecState.new n N) (List.replicate N 0) ops)
      (shotProd x) = gfShot n toR x ops (SimGF.ket0 n, 0) ^ N :=
  histogram_gf toR hord (hyps_complex n) x ops hF hN

end Q1t.Sim

import Q1t.Proofs.SimAlg
/-!
C02: the ONE named hypothesis about gates under which the simulator theorems are proved.

`GateSemOK n valid` says, for every gate instance `(g, bits)` accepted by `valid` (the side conditions
of C04: distinct qubits below `n`, arity, …) on an `n`-qubit register:

* `mat` — *if* the matrix route `apply_gate_mat_slice` returns, the result has the same shape and each
  of its columns is the documented unitary of `g` embedded on `bits` applied to the old column;
* `vec` — the same for the vector route `apply_gate_slice`;
* `iso` — the documented embedded unitary preserves the squared norm;
* `basis` — the basis-change gates `H`, `S`, `S†` and the `X` of `reset` on a qubit `q < n` are valid;
* `hh`, `ssdg` — `H·H = 1` and `S·S† = 1` for the embedded documented matrices.

`mat`/`vec` are to be discharged from C04 (`applyGateSlice = embed (matrix g)`) and C05
(`matrix g = specMatrix g`); `iso`, `hh`, `ssdg` speak about the reference semantics only.
`GateShapeOK` is the part needed for the shape invariant alone.
-/
namespace Q1t.Sim
open Q1t Q1t.Spec

variable {α P : Type}

/-- column `k` of a list-of-rows matrix -/
def colAt [Zero α] (M : LMat α) (k : Nat) : List α := M.map fun row => row.getD k 0

section
variable [Zero α] [One α] [Add α] [Mul α] [Neg α] [Sub α] [Amp α P]

/-- the matrix route preserves the shape of the state matrix (when it returns) -/
def GateShapeOK (α : Type) {P : Type} [Zero α] [One α] [Add α] [Mul α] [Neg α] [Sub α] [Amp α P]
    (n : Nat) (valid : GateTerm P → List Nat → Prop) : Prop :=
  ∀ g bits, valid g bits → ∀ (m : Nat) (M M' : LMat α), M.length = 2 ^ n → (∀ row ∈ M, row.length = m) →
    Gate.applyGateSlice (α := α) .mat g bits n M = some M' →
    M'.length = 2 ^ n ∧ ∀ row ∈ M', row.length = m

structure GateSemOK (α : Type) {P : Type} [Zero α] [One α] [Add α] [Mul α] [Neg α] [Sub α] [Amp α P] [SimAmp α]
    (n : Nat) (valid : GateTerm P → List Nat → Prop) : Prop where
  mat : ∀ g bits, valid g bits → ∀ (m : Nat) (M M' : LMat α), M.length = 2 ^ n → (∀ row ∈ M, row.length = m) →
    Gate.applyGateSlice (α := α) .mat g bits n M = some M' →
    M'.length = 2 ^ n ∧ (∀ row ∈ M', row.length = m) ∧
      ∀ k, k < m → colAt M' k = gateOn n g bits (colAt M k)
  vec : ∀ g bits, valid g bits → ∀ (v v' : List α), v.length = 2 ^ n →
    Gate.applyGateSlice (α := α) .vec g bits n v = some v' → v' = gateOn n g bits v
  iso : ∀ g bits, valid g bits → ∀ v : List α, v.length = 2 ^ n →
    normSqSum (gateOn n g bits v) = normSqSum v
  basis : ∀ q, q < n → valid .H [q] ∧ valid .S [q] ∧ valid .Sdg [q] ∧ valid .X [q]
  hh : ∀ q, q < n → ∀ v : List α, v.length = 2 ^ n →
    gateOn (P := P) n .H [q] (gateOn (P := P) n .H [q] v) = v
  ssdg : ∀ q, q < n → ∀ v : List α, v.length = 2 ^ n →
    gateOn (P := P) n .S [q] (gateOn (P := P) n .Sdg [q] v) = v

theorem GateSemOK.toShape [SimAmp α] {n : Nat} {valid : GateTerm P → List Nat → Prop}
    (h : GateSemOK α n valid) : GateShapeOK α n valid :=
  fun g bits hv m M M' h1 h2 h3 => ⟨(h.mat g bits hv m M M' h1 h2 h3).1, (h.mat g bits hv m M M' h1 h2 h3).2.1⟩

/-- the gate instance of an operation (if any) satisfies the side conditions -/
def OpValid (valid : GateTerm P → List Nat → Prop) : COp P → Prop
  | .gate g bits => valid g bits
  | .cond _ _ g bits => valid g bits
  | _ => True

/-- the gate instances of a circuit satisfy the side conditions -/
def OpsValid (valid : GateTerm P → List Nat → Prop) (ops : List (COp P)) : Prop :=
  ∀ op ∈ ops, OpValid valid op

end
end Q1t.Sim

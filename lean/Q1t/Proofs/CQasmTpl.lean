import Q1t.Model.CQasm
set_option linter.unusedSimpArgs false
/-!
C12 (`cq_wellformed_partial`), part 5: the template expansion of `declare_controlled_qasm!` (`str::replace` for every
`{i}` and `{arg}`, then the scan that evaluates `{…}` holes), described on a TOKENISED template: for every token list
that satisfies decidable side conditions, the text procedure of the model computes the token-wise substitution.
-/
namespace Q1t.Proofs.CQasm
open Q1t Q1t.CQ

inductive Tok where
  | lit (t : Text)
  | var (key : Text)
  | lb
  | rb
  deriving DecidableEq, Repr

def Tok.render : Tok → Text
  | .lit t => t
  | .var k => '{' :: (k ++ ['}'])
  | .lb => ['{']
  | .rb => ['}']

def render (ts : List Tok) : Text := ts.flatMap Tok.render

theorem render_cons (t : Tok) (ts : List Tok) : render (t :: ts) = t.render ++ render ts := by
  simp [render]

theorem render_append (a b : List Tok) : render (a ++ b) = render a ++ render b := by
  simp [render]

/-! ### `str::replace` as a relation -/

theorem stripPrefix_self (p r : Text) : Expr.stripPrefix p (p ++ r) = some r := by
  induction p with
  | nil => rfl
  | cons x xs ih => simp [Expr.stripPrefix, ih]

inductive Repl (pat rep : Text) : Text → Text → Prop
  | nil : Repl pat rep [] []
  | hit (rest r : Text) : Repl pat rep rest r → Repl pat rep (pat ++ rest) (rep ++ r)
  | step (c : Char) (s r : Text) : Expr.stripPrefix pat (c :: s) = none → Repl pat rep s r →
      Repl pat rep (c :: s) (c :: r)

theorem repl_sound (pat rep : Text) (hpat : pat ≠ []) (s r : Text) (h : Repl pat rep s r) :
    ∀ fuel, s.length < fuel → replaceAllF pat rep fuel s = r := by
  induction h with
  | nil => intro fuel hf; cases fuel with
    | zero => omega
    | succ f => rfl
  | hit rest r _ ih =>
    intro fuel hf
    cases fuel with
    | zero => omega
    | succ f =>
      cases pat with
      | nil => exact absurd rfl hpat
      | cons p ps =>
        have hs := stripPrefix_self (p :: ps) rest
        simp only [List.cons_append] at hs ⊢
        simp only [replaceAllF, hs, List.isEmpty_cons, Bool.false_eq_true, if_false]
        rw [ih f (by simp at hf; omega)]
  | step c s r hno _ ih =>
    intro fuel hf
    cases fuel with
    | zero => omega
    | succ f =>
      simp only [replaceAllF, hno]
      rw [ih f (by simp at hf; omega)]

theorem replaceAll_of_repl (pat rep : Text) (hpat : pat ≠ []) (s r : Text) (h : Repl pat rep s r) :
    replaceAll pat rep s = r := repl_sound pat rep hpat s r h _ (by omega)

/-- characters that are not `{` pass through -/
theorem repl_skip (key rep : Text) (a s r : Text) (ha : ∀ c ∈ a, c ≠ '{')
    (h : Repl ('{' :: (key ++ ['}'])) rep s r) : Repl ('{' :: (key ++ ['}'])) rep (a ++ s) (a ++ r) := by
  induction a with
  | nil => exact h
  | cons x xs ih =>
    refine Repl.step x _ _ ?_ (ih (fun c hc => ha c (by simp [hc])))
    have : ¬ '{' = x := fun e => ha x (by simp) e.symm
    simp [Expr.stripPrefix, this]

/-- two different brace-free keys never match each other's hole -/
theorem stripPrefix_key_ne : ∀ (key k' : Text) (rest : Text), key ≠ k' → (∀ c ∈ key, c ≠ '}') → (∀ c ∈ k', c ≠ '}') →
    Expr.stripPrefix (key ++ ['}']) (k' ++ '}' :: rest) = none
  | [], [], _, h, _, _ => absurd rfl h
  | [], c :: cs, rest, _, _, h2 => by
    have : ¬ '}' = c := fun e => h2 c (by simp) e.symm
    simp [Expr.stripPrefix, this]
  | a :: as, [], rest, _, h1, _ => by
    have : ¬ a = '}' := h1 a (by simp)
    simp [Expr.stripPrefix, this]
  | a :: as, c :: cs, rest, h, h1, h2 => by
    by_cases hac : a = c
    · subst hac
      have hne : as ≠ cs := fun e => h (by rw [e])
      simp only [List.cons_append, Expr.stripPrefix, if_true]
      exact stripPrefix_key_ne as cs rest hne (fun c hc => h1 c (by simp [hc])) (fun c hc => h2 c (by simp [hc]))
    · simp [Expr.stripPrefix, hac]

/-- the text after `{` decides, whatever follows it, that the hole is not `{key}` -/
def clash : Text → Text → Bool
  | [], _ => false
  | _ :: _, [] => false
  | p :: ps, c :: cs => if p = c then clash ps cs else true

theorem clash_sound : ∀ (p t x : Text), clash p t = true → Expr.stripPrefix p (t ++ x) = none
  | [], _, _, h => by simp [clash] at h
  | _ :: _, [], _, h => by simp [clash] at h
  | p :: ps, c :: cs, x, h => by
    by_cases hpc : p = c
    · subst hpc
      simp only [clash, if_true] at h
      simp only [List.cons_append, Expr.stripPrefix, if_true]
      exact clash_sound ps cs x h
    · simp [Expr.stripPrefix, hpc]

/-! ### side conditions on a tokenised template -/

def tokOK : Tok → Bool
  | .lit t => t.all (fun c => c != '{' && c != '}')
  | .var k => k.all (fun c => c != '{' && c != '}')
  | _ => true

/-- every `{` that opens an evaluated hole is followed by literal text that cannot be mistaken for a `{key}` -/
def lbSafe (keys : List Text) : List Tok → Bool
  | [] => true
  | .lb :: r => (match r with
      | .lit t :: _ => keys.all (fun k => clash (k ++ ['}']) t)
      | _ => false) && lbSafe keys r
  | _ :: r => lbSafe keys r

def substVar (key rep : Text) : Tok → Tok
  | .var k => if k = key then .lit rep else .var k
  | t => t

theorem all_ne_of_all {t : Text} (h : t.all (fun c => c != '{' && c != '}') = true) :
    (∀ c ∈ t, c ≠ '{') ∧ (∀ c ∈ t, c ≠ '}') := by
  rw [List.all_eq_true] at h
  constructor <;> intro c hc <;> have := h c hc <;> simp at this
  · exact this.1
  · exact this.2

/-- **one `str::replace` pass on a tokenised template** -/
theorem repl_tokens (key rep : Text) (hkey : key.all (fun c => c != '{' && c != '}') = true) :
    ∀ (toks : List Tok), toks.all tokOK = true → lbSafe [key] toks = true →
      Repl ('{' :: (key ++ ['}'])) rep (render toks) (render (toks.map (substVar key rep)))
  | [], _, _ => Repl.nil
  | .lit t :: r, hok, hsafe => by
    simp only [List.all_cons, Bool.and_eq_true] at hok
    rw [render_cons, List.map_cons, render_cons]
    exact repl_skip key rep t _ _ (all_ne_of_all hok.1).1 (repl_tokens key rep hkey r hok.2 (by simpa [lbSafe] using hsafe))
  | .var k :: r, hok, hsafe => by
    simp only [List.all_cons, Bool.and_eq_true] at hok
    have ih := repl_tokens key rep hkey r hok.2 (by simpa [lbSafe] using hsafe)
    rw [render_cons, List.map_cons, render_cons]
    by_cases hk : k = key
    · subst hk
      simp only [substVar, if_true, Tok.render]
      exact Repl.hit _ _ ih
    · simp only [substVar, hk, if_false, Tok.render]
      have hk' := all_ne_of_all hok.1
      have hkey' := all_ne_of_all hkey
      show Repl _ rep ('{' :: ((k ++ ['}']) ++ render r)) ('{' :: ((k ++ ['}']) ++ render (r.map (substVar key rep))))
      refine Repl.step '{' _ _ ?_ ?_
      · have := stripPrefix_key_ne key k (render r) (fun e => hk e.symm) hkey'.2 hk'.2
        simpa [Expr.stripPrefix] using this
      · apply repl_skip key rep (k ++ ['}']) _ _ _ ih
        intro c hc
        rcases List.mem_append.mp hc with h | h
        · exact hk'.1 c h
        · simp at h; subst h; decide
  | .rb :: r, hok, hsafe => by
    simp only [List.all_cons, Bool.and_eq_true] at hok
    rw [render_cons, List.map_cons, render_cons]
    exact Repl.step '}' _ _ (by simp [Expr.stripPrefix]) (repl_tokens key rep hkey r hok.2 (by simpa [lbSafe] using hsafe))
  | .lb :: r, hok, hsafe => by
    simp only [List.all_cons, Bool.and_eq_true] at hok
    simp only [lbSafe, Bool.and_eq_true] at hsafe
    rw [render_cons, List.map_cons, render_cons]
    refine Repl.step '{' _ _ ?_ (repl_tokens key rep hkey r hok.2 hsafe.2)
    cases r with
    | nil => simp at hsafe
    | cons t0 r' =>
      cases t0 with
      | lit t =>
        have hc : clash (key ++ ['}']) t = true := by simpa using hsafe.1
        have := clash_sound (key ++ ['}']) t (render r') hc
        simpa [Expr.stripPrefix, render_cons, Tok.render] using this
      | var _ => simp at hsafe
      | lb => simp at hsafe
      | rb => simp at hsafe

theorem tokOK_map (key rep : Text) (hrep : rep.all (fun c => c != '{' && c != '}') = true) (toks : List Tok)
    (h : toks.all tokOK = true) : (toks.map (substVar key rep)).all tokOK = true := by
  rw [List.all_eq_true] at h ⊢
  intro t ht
  obtain ⟨t0, ht0, rfl⟩ := List.mem_map.mp ht
  cases t0 with
  | lit t => exact h _ ht0
  | var k =>
    by_cases hk : k = key
    · simp [substVar, hk, tokOK]; simpa [List.all_eq_true] using hrep
    · simpa [substVar, hk] using h _ ht0
  | lb => rfl
  | rb => rfl

theorem lbSafe_map (keys : List Text) (key rep : Text) : ∀ (toks : List Tok), lbSafe keys toks = true →
    lbSafe keys (toks.map (substVar key rep)) = true
  | [], _ => rfl
  | .lit t :: r, h => by simpa [lbSafe, substVar] using lbSafe_map keys key rep r (by simpa [lbSafe] using h)
  | .var k :: r, h => by
    have := lbSafe_map keys key rep r (by simpa [lbSafe] using h)
    by_cases hk : k = key <;> simpa [lbSafe, substVar, hk] using this
  | .rb :: r, h => by simpa [lbSafe, substVar] using lbSafe_map keys key rep r (by simpa [lbSafe] using h)
  | .lb :: r, h => by
    simp only [lbSafe, Bool.and_eq_true] at h
    have ih := lbSafe_map keys key rep r h.2
    cases r with
    | nil => simp at h
    | cons t0 r' =>
      cases t0 with
      | lit t =>
        have h1 : keys.all (fun k => clash (k ++ ['}']) t) = true := h.1
        simp only [List.map_cons, substVar, lbSafe, Bool.and_eq_true] at ih ⊢
        exact ⟨h1, ih⟩
      | var _ => simp at h
      | lb => simp at h
      | rb => simp at h

theorem lbSafe_mono (keys : List Text) (key : Text) (hk : key ∈ keys) : ∀ (toks : List Tok),
    lbSafe keys toks = true → lbSafe [key] toks = true
  | [], _ => rfl
  | .lit t :: r, h => by simpa [lbSafe] using lbSafe_mono keys key hk r (by simpa [lbSafe] using h)
  | .var k :: r, h => by simpa [lbSafe] using lbSafe_mono keys key hk r (by simpa [lbSafe] using h)
  | .rb :: r, h => by simpa [lbSafe] using lbSafe_mono keys key hk r (by simpa [lbSafe] using h)
  | .lb :: r, h => by
    simp only [lbSafe, Bool.and_eq_true] at h
    have ih := lbSafe_mono keys key hk r h.2
    cases r with
    | nil => simp at h
    | cons t0 r' =>
      cases t0 with
      | lit t =>
        simp only [lbSafe, Bool.and_eq_true]
        refine ⟨?_, ih⟩
        have := h.1
        simp only [List.all_eq_true] at this
        simpa using this key hk
      | var _ => simp at h
      | lb => simp at h
      | rb => simp at h

/-! ### a sequence of passes -/

/-- `res = res.replace("{k}", rep)` for every pair in order -/
def passes (kvs : List (Text × Text)) (s : Text) : Text :=
  kvs.foldl (fun s kv => replaceAll ('{' :: (kv.1 ++ ['}'])) kv.2 s) s

def substAll (kvs : List (Text × Text)) (t : Tok) : Tok := kvs.foldl (fun t kv => substVar kv.1 kv.2 t) t

theorem passes_tokens : ∀ (kvs : List (Text × Text)) (toks : List Tok),
    (∀ kv ∈ kvs, kv.1.all (fun c => c != '{' && c != '}') = true ∧ kv.2.all (fun c => c != '{' && c != '}') = true) →
    toks.all tokOK = true → lbSafe (kvs.map (·.1)) toks = true →
    passes kvs (render toks) = render (toks.map (substAll kvs))
  | [], toks, _, _, _ => by
    have : toks.map (substAll []) = toks := by
      conv => rhs; rw [← List.map_id toks]
      apply List.map_congr_left; intro t _; rfl
    simp [passes, this]
  | kv :: kvs, toks, hkv, hok, hsafe => by
    have h1 := hkv kv (by simp)
    have hrepl := repl_tokens kv.1 kv.2 h1.1 toks hok (lbSafe_mono _ kv.1 (by simp) toks hsafe)
    have e := replaceAll_of_repl _ kv.2 (by simp) _ _ hrepl
    have hsafe' : lbSafe (kvs.map (·.1)) (toks.map (substVar kv.1 kv.2)) = true := by
      apply lbSafe_map
      -- fewer keys: still safe
      have : ∀ (ts : List Tok), lbSafe ((kv :: kvs).map (·.1)) ts = true → lbSafe (kvs.map (·.1)) ts = true := by
        intro ts
        induction ts with
        | nil => intro _; rfl
        | cons t r ih =>
          intro h
          cases t with
          | lit _ => simpa [lbSafe] using ih (by simpa [lbSafe] using h)
          | var _ => simpa [lbSafe] using ih (by simpa [lbSafe] using h)
          | rb => simpa [lbSafe] using ih (by simpa [lbSafe] using h)
          | lb =>
            simp only [lbSafe, Bool.and_eq_true] at h ⊢
            refine ⟨?_, ih h.2⟩
            cases r with
            | nil => simp at h
            | cons t0 r' =>
              cases t0 with
              | lit t => have := h.1; simp only [List.map_cons, List.all_cons, Bool.and_eq_true] at this; exact this.2
              | var _ => simp at h
              | lb => simp at h
              | rb => simp at h
      exact this toks hsafe
    have ih := passes_tokens kvs (toks.map (substVar kv.1 kv.2)) (fun x hx => hkv x (by simp [hx]))
      (tokOK_map kv.1 kv.2 h1.2 toks hok) hsafe'
    show passes kvs (replaceAll ('{' :: (kv.1 ++ ['}'])) kv.2 (render toks)) = _
    rw [e, ih, List.map_map]
    rfl

end Q1t.Proofs.CQasm

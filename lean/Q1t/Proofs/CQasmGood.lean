import Q1t.Proofs.CQasmSLine
set_option linter.unusedSimpArgs false
/-!
C12 (`cq_wellformed_partial`), part 8: the structured lines of every gate of the generated table, computed
(`slinesOf`), and the decidable conditions (`gateGood`) under which the general lemmas apply.  `good_gates` (by
`decide`) lists which gates of the table satisfy them: all but `U2 U3` (text) and `CH CRZ CU2 CV CVdg` (no
translation).
-/
namespace Q1t.Proofs.CQasm
open Q1t Q1t.CQ Q1t.Gen

def flushLit (cur : Text) : List Tok := if cur.isEmpty then [] else [.lit cur.reverse]

/-- tokens of the inner text of an evaluated hole: literal text and `{arg}` variables -/
def tokInner : Text → Option Text → Text → List Tok
  | cur, none, [] => flushLit cur
  | _, some _, [] => [.lb]
  | cur, none, c :: r => if c = '{' then flushLit cur ++ tokInner [] (some []) r else tokInner (c :: cur) none r
  | cur, some k, c :: r => if c = '}' then .var k.reverse :: tokInner [] none r else tokInner cur (some (c :: k)) r

/-- an operand text of the symbolic translation -/
def classify (t : Text) : SOp :=
  match t with
  | '{' :: r =>
    if r.getLast? = some '}' then
      let inner := r.dropLast
      if !inner.isEmpty && inner.all CQ1.isDigit then .q (CQ1.natOfDigits inner)
      else if inner.all CQ1.isIdChar then .arg (String.ofList inner)
      else .hole (tokInner [] none inner)
    else .lit t
  | _ => .lit t

def slinesOf (g : CQGate) : List SLine :=
  (gateShape g).2.2.map fun (nm, ops) => ⟨nm.toList, ops.map fun o => classify o.toList⟩

/-! ### `format!` gates as tokens -/

def litP (p : Text) : List Tok := if p.isEmpty then [] else [.lit p]

def argTok : CQArg → Tok
  | .bit k => .var (natText k)
  | .param f => .var f.toList
  | .paramPlusPi f => .var (f.toList ++ "+pi".toList)

def fmtToks : List Text → List CQArg → List Tok
  | [], _ => []
  | p :: ps, [] => litP (p ++ ps.foldl (· ++ ·) [])
  | p :: ps, a :: as => litP p ++ argTok a :: fmtToks ps as

/-! ### the decidable conditions -/

def keysFor (k : Nat) (params : List String) : List Text := (List.range k).map natText ++ params.map String.toList

def braceFree (t : Text) : Bool := t.all (fun c => c != '{' && c != '}')

def holeVarsIn (params : List String) : List Tok → Bool
  | [] => true
  | .var key :: r => params.any (fun a => a.toList == key) && holeVarsIn params r
  | _ :: r => holeVarsIn params r

def opTyped (k : Nat) (params : List String) : SOp → CQ1.Kind → Bool
  | .q loc, .Q => loc < k
  | .lit t, kd => word t && (match CQ1.parseArg t with | some (.num x) => CQ1.argKind (.num x) kd | _ => false)
  | .arg a, .A => params.contains a
  | .hole inner, .A => innerOK inner && holeVarsIn params inner
  | _, _ => false

def opsTyped (k : Nat) (params : List String) : List SOp → List CQ1.Kind → Bool
  | [], [] => true
  | o :: os, kd :: ks => opTyped k params o kd && opsTyped k params os ks
  | _, _ => false

def locOf : SOp → Option Nat
  | .q loc => some loc
  | _ => none

def notCondName : Text → Bool
  | 'c' :: '-' :: _ => false
  | _ => true

def firstIsQ : List SOp → Bool
  | .q _ :: _ => true
  | _ => false

def lineGood (k : Nat) (params : List String) (l : SLine) : Bool :=
  word l.name && notCondName l.name && (l.name.head? != some '.') && CQ1.isGate (String.ofList l.name) &&
  (match CQ1.signature (String.ofList l.name) with
   | some sig => opsTyped k params l.ops sig
   | none => false) &&
  decide (l.ops.filterMap locOf).Nodup && firstIsQ l.ops

def paramGood (a : String) : Bool :=
  braceFree a.toList && word a.toList && (match a.toList with | c :: _ => !CQ1.isDigit c | [] => false)

def fmtArgGood (k : Nat) (params : List String) : CQArg → Bool
  | .bit k' => k' < k
  | .param f => params.contains f
  | .paramPlusPi _ => false

def gateGood (g : CQGate) : Bool :=
  let k := libBits g.name
  match slinesOf g with
  | [] => false
  | l :: ls =>
    let toks := flat (l :: ls)
    (match g.kind with
     | .template tpl => render toks == tpl.toList
     | .format check pieces args => fmtToks (pieces.map String.toList) args == toks && (check == none || check == some k) &&
         args.all (fmtArgGood k g.params)
     | .plain _ => false) &&
    toks.all tokOK && lbSafe (keysFor k g.params) toks && (l :: ls).all (lineGood k g.params) &&
    g.params.all paramGood

/-- a single-line translation (what may stand inside a `{ … | … }` bundle) -/
def singleLine (g : CQGate) : Bool := (slinesOf g).length == 1

end Q1t.Proofs.CQasm

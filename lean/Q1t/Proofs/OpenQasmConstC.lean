import Q1t.Spec.OQ2Obligation
/-! C11, constants part C: `ccx` (the 15-gate body of `qelib1.inc`) is the Toffoli gate. -/
namespace Q1t.OpenQasm
set_option maxRecDepth 100000
theorem const_ccx_ok : constOK libTable "CCX" = true := by decide +kernel
end Q1t.OpenQasm

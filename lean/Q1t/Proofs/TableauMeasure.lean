import Q1t.Proofs.TableauStab
/-!
C03, proofs part 10 (all `n`): a generator `±Z_q` pins the outcome of measuring qubit `q`.

If a tableau stabilizes `ψ` and one of its rows is exactly `Z` at column `q`, `I` elsewhere, with sign `s`,
then every amplitude of `ψ` on a basis state with qubit `q = ¬s` is zero: the measurement is certain and
yields `s` — the value `measure` reports as `Deterministic(s)` when it finds that row.
-/
namespace Q1t.Proofs.Tableau
open Q1t Q1t.Tableau Q1t.Spec.Pauli Q1t.Spec.Stab

/-- the row `Z_q` of an `n`-qubit tableau, written as `collapse` writes it -/
def zRow (n q : Nat) : List P := (List.range n).map fun j => if j = q then P.Z else P.I

theorem map_range_const (n : Nat) (f : Nat → P) (h : ∀ j, f j = .I) : (List.range n).map f = List.replicate n .I := by
  rw [List.eq_replicate_iff]
  refine ⟨by simp, fun b hb => ?_⟩
  obtain ⟨j, _, rfl⟩ := List.mem_map.mp hb
  exact h j

theorem zRow_zero (n : Nat) : zRow (n + 1) 0 = .Z :: List.replicate n .I := by
  unfold zRow
  rw [List.range_succ_eq_map, List.map_cons, List.map_map]
  simp only [if_true]
  congr 1
  exact map_range_const n _ (fun j => by simp)

theorem zRow_succ (n q : Nat) : zRow (n + 1) (q + 1) = .I :: zRow n q := by
  unfold zRow
  rw [List.range_succ_eq_map, List.map_cons, List.map_map]
  simp [Function.comp_def]

theorem bitOf_zero_lt (n idx : Nat) (h : idx < 2 ^ n) : bitOf (n + 1) 0 idx = false := by
  unfold bitOf
  rw [show n + 1 - 1 - 0 = n by omega, Nat.div_eq_of_lt h]; rfl

theorem bitOf_zero_ge (n idx : Nat) (h1 : 2 ^ n ≤ idx) (h2 : idx < 2 ^ (n + 1)) : bitOf (n + 1) 0 idx = true := by
  unfold bitOf
  rw [show n + 1 - 1 - 0 = n by omega]
  have : idx / 2 ^ n = 1 := by
    rw [Nat.pow_succ] at h2
    have hp : 0 < 2 ^ n := Nat.two_pow_pos n
    apply Nat.div_eq_of_lt_le <;> omega
  rw [this]; rfl

theorem bitOf_succ_lt (n q idx : Nat) : bitOf (n + 1) (q + 1) idx = bitOf n q idx := by
  unfold bitOf
  rw [show n + 1 - 1 - (q + 1) = n - 1 - q by omega]

theorem bitOf_succ_ge (n q k : Nat) (hq : q < n) : bitOf (n + 1) (q + 1) (2 ^ n + k) = bitOf n q k := by
  unfold bitOf
  rw [show n + 1 - 1 - (q + 1) = n - 1 - q by omega]
  have e : 2 ^ n = 2 ^ (n - 1 - q) * 2 ^ (q + 1) := by rw [← Nat.pow_add]; congr 1; omega
  rw [e, Nat.add_comm, Nat.add_mul_div_left _ _ (Nat.two_pow_pos _), Nat.pow_succ]
  congr 1
  omega

/-- the action of `Z_q`, entry by entry (all `n`) -/
theorem actOps_zRow (n : Nat) : ∀ (q : Nat) (v : Vec) (idx : Nat), q < n → v.length = 2 ^ n → idx < 2 ^ n →
    (actOps (zRow n q) v)[idx]? = (v[idx]?).map (fun x => if bitOf n q idx then Z8.neg x else x) := by
  induction n with
  | zero => intro q v idx hq; omega
  | succ n ih =>
    intro q v idx hq hv hidx
    obtain ⟨h0, h1⟩ := halves_length v n hv
    have hhalf : v.length / 2 = 2 ^ n := by rw [hv, Nat.pow_succ]; omega
    cases q with
    | zero =>
      rw [zRow_zero, actOps_cons, actOps_replicate_I, actOps_replicate_I]
      simp only [cellAct]
      by_cases hlt : idx < 2 ^ n
      · rw [List.getElem?_append_left (by rw [h0]; exact hlt), hhalf, List.getElem?_take, if_pos hlt,
          bitOf_zero_lt n idx hlt]
        cases v[idx]? <;> simp
      · have hge : 2 ^ n ≤ idx := by omega
        rw [List.getElem?_append_right (by rw [h0]; exact hge), h0, bitOf_zero_ge n idx hge hidx]
        show (List.map _ _)[idx - 2 ^ n]? = _
        rw [List.getElem?_map, hhalf, List.getElem?_drop, show 2 ^ n + (idx - 2 ^ n) = idx by omega]
        cases v[idx]? <;> simp [Z8.mulIPow]
    | succ q =>
      have hq' : q < n := by omega
      rw [zRow_succ, actOps_cons]
      simp only [cellAct]
      by_cases hlt : idx < 2 ^ n
      · rw [List.getElem?_append_left (by rw [actOps_length, h0]; exact hlt), ih q _ idx hq' h0 hlt,
          hhalf, List.getElem?_take, if_pos hlt, bitOf_succ_lt]
      · have hge : 2 ^ n ≤ idx := by omega
        rw [List.getElem?_append_right (by rw [actOps_length, h0]; exact hge), actOps_length, h0,
          ih q _ (idx - 2 ^ n) hq' h1 (by rw [Nat.pow_succ] at hidx; omega), hhalf, List.getElem?_drop,
          show 2 ^ n + (idx - 2 ^ n) = idx by omega]
        have := bitOf_succ_ge n q (idx - 2 ^ n) hq'
        rw [show 2 ^ n + (idx - 2 ^ n) = idx by omega] at this
        rw [this]

theorem neg_eq_self_zero (x : Z8) (h : Z8.neg x = x) : Z8.isZero x = true := eq_neg_zero x h

/-- **A generator `±Z_q` makes the measurement of qubit `q` certain, all `n`**: if the tableau
stabilizes `ψ` and row `i` is `Z` at `q`, `I` elsewhere, with sign `s`, then the projection of `ψ` on
"qubit `q` = ¬`s`" is the zero vector. -/
theorem zRow_pins_outcome (t : Tab) (ψ : Vec) (hst : Stabilizes t ψ) (q : Nat) (hq : q < t.n) (i : Nat) (s : Bool)
    (hs : t.signs[i]? = some s) (hr : t.rows[i]? = some (zRow t.n q)) :
    Vec.isZero (proj t.n q (!s) ψ) = true := by
  obtain ⟨hlen, _, _, h4⟩ := (stabilizes_iff t ψ).mp hst
  obtain ⟨_, hact⟩ := h4 i s _ hs hr
  have key : ∀ idx, idx < 2 ^ t.n → bitOf t.n q idx = !s → Z8.isZero (vget ψ idx) = true := by
    intro idx hidx hb
    have e := congrArg (fun l : Vec => l[idx]?) hact
    simp only [PStr.act, rowStr, Vec.smulIPow, List.getElem?_map, actOps_zRow t.n q ψ idx hq hlen hidx, hb] at e
    have hx : ψ[idx]? = some ψ[idx] := List.getElem?_eq_getElem (by omega)
    have hv : vget ψ idx = ψ[idx] := by simp [vget, List.getD_eq_getElem?_getD, hx]
    rw [hv]
    rw [hx] at e
    cases s
    · simp [Z8.mulIPow] at e; exact eq_neg_zero _ e
    · simp [Z8.mulIPow] at e; exact eq_neg_zero _ e
  unfold Vec.isZero proj
  rw [List.all_eq_true]
  intro x hx
  obtain ⟨idx, hidx, rfl⟩ := List.mem_map.mp hx
  rw [List.mem_range] at hidx
  by_cases hb : bitOf t.n q idx = !s
  · simp only [hb, beq_self_eq_true, if_true]; exact key idx hidx hb
  · have : (bitOf t.n q idx == !s) = false := by simpa using hb
    simp only [this]; rfl

end Q1t.Proofs.Tableau

import Q1t.Proofs.RouteLift
/-!
# C04 (d), part 2: `apply_gate_slice` of every well-formed gate term equals the embedded matrix;
the lift through `Composite` and `Loop`

* `trailingZeros (2^N) = N` below the word size;
* `placeStep` — the body of `gates::apply_gate_slice` / `apply_gate_mat_slice` (one placed gate), equal
  to `mulState (embed N bits (matrix g))` for every gate with `LeadOK`;
* `routeOps_spec` — the `for op in self.ops` loop of a composite equals `Spec.applyOps`;
* `applyOps_lift` — a list of placements on the leading `n` qubits of an `N`-qubit register is the block
  product with the `n`-qubit product matrix;
* `leadOK_Composite`, `leadOK_Loop`, and the structural induction `leadOK_of_wf`;
* `applyGateSlice_eq_embed` — the theorem of C04;
* `matrix_composite_eq_product`, `matrix_loop_eq_pow` — a composite's matrix is the ordered product of
  the embedded matrices of its operations, a loop's matrix is the power of its body's matrix.
-/
namespace Q1t.Proofs.Route
open Q1t Q1t.Gate Q1t.Spec Q1t.Spec.Perm Q1t.Proofs.BitPerm
variable {α P : Type} [CommRing α] [Amp α P]
set_option linter.unusedSectionVars false
set_option linter.unusedVariables false

/-! ## `usize::trailing_zeros` on a power of two -/

theorem tzAux_pow : ∀ (f N : Nat), N < f → tzAux f (2 ^ N) = N
  | 0, N, h => by omega
  | f + 1, 0, _ => by simp [tzAux]
  | f + 1, N + 1, h => by
    have h2 : 2 ^ (N + 1) % 2 = 0 := by rw [Nat.pow_succ]; omega
    have h3 : 2 ^ (N + 1) / 2 = 2 ^ N := by rw [Nat.pow_succ]; omega
    rw [tzAux, if_neg (by omega), h3, tzAux_pow f N (by omega)]; omega

theorem trailingZeros_pow (N : Nat) (h : N < 64) : trailingZeros (2 ^ N) = N := by
  unfold trailingZeros
  rw [if_neg (by have := Nat.two_pow_pos N; omega)]
  exact tzAux_pow 64 N h

/-! ## one placed gate -/

/-- the body of `gates::apply_gate_slice` / `apply_gate_mat_slice` (as inlined in `Gate.routeOps`) -/
def placeStep (m : Mode) (g : GateTerm P) (bits : List Nat) (n : Nat) (v : List (Row α m)) :
    Option (List (Row α m)) :=
  if nrBits g ≠ bits.length then none
  else if v.length ≠ 2 ^ n then none
  else match bits with
    | [bit] =>
      if n < bit then none else
        (blocks (2 ^ bit) v).bind fun bs => (bs.mapM (route (α := α) m g)).map List.flatten
    | _ =>
      (bitPermutation n bits).bind fun perm =>
        (Q1t.Perm.applyInto perm v).bind fun work =>
          (route (α := α) m g work).bind fun work' =>
            Q1t.Perm.applyInverseInto perm work' v

theorem routeOps_cons (m : Mode) (g : GateTerm P) (bits : List Nat) (rest : OpList P) (n : Nat)
    (v : List (Row α m)) :
    routeOps (α := α) m (.cons g bits rest) n v =
      (placeStep m g bits n v).bind (routeOps (α := α) m rest n) := by
  conv_lhs => unfold routeOps
  rfl

theorem routeOps_nil (m : Mode) (n : Nat) (v : List (Row α m)) :
    routeOps (α := α) (P := P) m .nil n v = some v := by
  rw [routeOps]

theorem applyGateSlice_eq_placeStep (m : Mode) (g : GateTerm P) (bits : List Nat) (n : Nat)
    (v : List (Row α m)) : applyGateSlice (α := α) m g bits n v = placeStep m g bits n v := by
  unfold applyGateSlice
  rw [routeOps_cons]
  cases placeStep m g bits n v with
  | none => rfl
  | some x => rw [Option.bind_some, routeOps_nil]

theorem validBits_mono (n N : Nat) (bits : List Nat) (h : validBits n bits = true) (hnN : n ≤ N) :
    validBits N bits = true := by
  rw [validBits_iff] at h ⊢
  exact ⟨fun x hx => Nat.lt_of_lt_of_le (h.1 x hx) hnN, h.2⟩

/-- one placed gate = the embedded matrix, for every gate whose leading route is the block product -/
theorem placeStep_spec (m : Mode) (w : Nat) (hw : OkWidth m w) (g : GateTerm P)
    (ok : LeadOK (α := α) g) (bits : List Nat) (N : Nat) (har : nrBits g = bits.length)
    (hv : validBits N bits = true) (hword : WordOK g N)
    (v : List (Row α m)) (hlen : v.length = 2 ^ N) (hvw : RowsW m w v) :
    placeStep m g bits N v = some (mulState m w (embed N bits (matrix (α := α) g)) v) := by
  have hk := validBits_length_le N bits hv
  rw [mulState_embed_eq_gather m w hw N bits hv]
  unfold placeStep
  rw [if_neg (by simpa using har), if_neg (by simpa using hlen)]
  match bits, har, hv, hk with
  | [], har, _, _ =>
    have := ok.pos
    simp at har; omega
  | [b], har, hv, _ =>
    have hb : b < N := by
      have := ((validBits_iff N [b]).1 hv).1 b (by simp)
      exact this
    have h1 : nrBits g = 1 := by simpa using har
    simp only
    rw [if_neg (by omega)]
    refine singleBranch_spec m w hw N b hb _ (by rw [ok.wf.1, h1, Nat.pow_one]) _ ?_ v hlen hvw
    intro blk hl hw'
    have := ok.lead m w hw (N - b) (by rw [h1]; omega) (fun h => by have := hword h; omega) blk hl hw'
    rw [this, h1]
  | b :: c :: t, har, hv, hk =>
    simp only
    refine permBranch_spec m w hw N _ hv _ (by rw [ok.wf.1, har]) _ ?_ v hlen hvw
    intro work hl hw'
    have := ok.lead m w hw N (by rw [har]; exact hk) hword work hl hw'
    rw [this, har]

/-! ## the operation loop of a composite -/

/-- every operation has a proved leading route, matching arity and a valid placement on `n` qubits -/
def OpsOK (α : Type) {P : Type} [CommRing α] [Amp α P] (n : Nat) : OpList P → Prop
  | .nil => True
  | .cons g bits rest =>
    LeadOK (α := α) g ∧ nrBits g = bits.length ∧ validBits n bits = true ∧ OpsOK α n rest

theorem opsOK_mono (n N : Nat) (hnN : n ≤ N) : ∀ ops : OpList P, OpsOK α n ops → OpsOK α N ops
  | .nil, _ => trivial
  | .cons g bits rest, h =>
    ⟨h.1, h.2.1, validBits_mono n N bits h.2.2.1 hnN, opsOK_mono n N hnN rest h.2.2.2⟩

theorem applyOps_nil (matOf : GateTerm P → LMat α) (m : Mode) (w N : Nat) (v : List (Row α m)) :
    applyOps matOf m w N .nil v = v := by rw [applyOps]

theorem applyOps_cons (matOf : GateTerm P → LMat α) (m : Mode) (w N : Nat) (g : GateTerm P)
    (bits : List Nat) (rest : OpList P) (v : List (Row α m)) :
    applyOps matOf m w N (.cons g bits rest) v =
      applyOps matOf m w N rest (mulState m w (embed N bits (matOf g)) v) := by rw [applyOps]

/-- a list of placed gates preserves the shape of the state -/
theorem applyOps_shape (matOf : GateTerm P → LMat α) (m : Mode) (w : Nat) (hw : OkWidth m w) (N : Nat) :
    ∀ (ops : OpList P) (v : List (Row α m)), v.length = 2 ^ N → RowsW m w v →
      (applyOps matOf m w N ops v).length = 2 ^ N ∧ RowsW m w (applyOps matOf m w N ops v)
  | .nil, v, hl, hv => by rw [applyOps_nil]; exact ⟨hl, hv⟩
  | .cons g bits rest, v, hl, hv => by
    rw [applyOps_cons]
    exact applyOps_shape matOf m w hw N rest _ (by rw [mulState_length, (embed_wf N bits _).1])
      (mulState_rowsW m w hw _ _)

theorem routeOps_spec (m : Mode) (w : Nat) (hw : OkWidth m w) (N : Nat) (hN : N < 64) :
    ∀ (ops : OpList P), OpsOK α N ops → ∀ v : List (Row α m), v.length = 2 ^ N → RowsW m w v →
      routeOps (α := α) m ops N v = some (applyOps (matrix (α := α)) m w N ops v)
  | .nil, _, v, _, _ => by rw [routeOps_nil, applyOps_nil]
  | .cons g bits rest, h, v, hl, hvw => by
    rw [routeOps_cons, placeStep_spec m w hw g h.1 bits N h.2.1 h.2.2.1 (fun _ => hN) v hl hvw,
      Option.bind_some, applyOps_cons]
    exact routeOps_spec m w hw N hN rest h.2.2.2 _
      (by rw [mulState_length, (embed_wf N bits _).1]) (mulState_rowsW m w hw _ _)

/-! ## placements on the leading `n` qubits of an `N`-qubit register -/

theorem rowsW_of_wf (d : Nat) (A : LMat α) (hA : WFMat d A) : RowsW (α := α) .mat d A :=
  fun r hr => hA.2 r hr

theorem wf_of_rowsW (d : Nat) (A : LMat α) (hl : A.length = d) (hA : RowsW (α := α) .mat d A) :
    WFMat d A := ⟨hl, fun r hr => hA r hr⟩

theorem applyOps_mat_wf (matOf : GateTerm P → LMat α) (n : Nat) (ops : OpList P) (acc : LMat α)
    (hacc : WFMat (2 ^ n) acc) : WFMat (2 ^ n) (applyOps (α := α) matOf .mat (2 ^ n) n ops acc) := by
  have := applyOps_shape matOf .mat (2 ^ n) (okWidth_mat _) n ops acc hacc.1 (rowsW_of_wf _ _ hacc)
  exact wf_of_rowsW _ _ this.1 this.2

theorem applyOps_lift (matOf : GateTerm P → LMat α) (m : Mode) (w : Nat) (hw : OkWidth m w)
    (n N : Nat) (hnN : n ≤ N) :
    ∀ (ops : OpList P), OpsOK α n ops → ∀ acc : LMat α, WFMat (2 ^ n) acc →
      ∀ v : List (Row α m), v.length = 2 ^ N → RowsW m w v →
      applyOps matOf m w N ops (blockMul m w acc (2 ^ (N - n)) v) =
        blockMul m w (applyOps (α := α) matOf .mat (2 ^ n) n ops acc) (2 ^ (N - n)) v
  | .nil, _, acc, _, v, _, _ => by rw [applyOps_nil, applyOps_nil]
  | .cons g bits rest, h, acc, hacc, v, hl, hvw => by
    have hb : ∀ q ∈ bits, q < n := ((validBits_iff n bits).1 h.2.2.1).1
    have hl' : v.length = 2 ^ n * 2 ^ (N - n) := by rw [hl, pow_split N n hnN]
    rw [applyOps_cons, applyOps_cons,
      mulState_embed_lift m w hw n N hnN bits hb _ _
        (by rw [blockMul_length, hacc.1, pow_split N n hnN]) (blockMul_rowsW m w hw _ _ _),
      blockMul_blockMul m w hw (2 ^ n) _ acc (embed_wf n bits _) hacc _ v hl' hvw]
    exact applyOps_lift matOf m w hw n N hnN rest h.2.2.2 _
      (mulState_mat_wf (2 ^ n) _ acc (embed_wf n bits _)) v hl hvw

/-- the ops on an `N`-qubit register = block product with the `n`-qubit matrix of the ops -/
theorem applyOps_eq_blockMul (matOf : GateTerm P → LMat α) (m : Mode) (w : Nat) (hw : OkWidth m w)
    (n N : Nat) (hnN : n ≤ N) (ops : OpList P) (hops : OpsOK α n ops)
    (v : List (Row α m)) (hl : v.length = 2 ^ N) (hvw : RowsW m w v) :
    applyOps matOf m w N ops v =
      blockMul m w (applyOps (α := α) matOf .mat (2 ^ n) n ops (LMat.identity (2 ^ n))) (2 ^ (N - n)) v := by
  have := applyOps_lift matOf m w hw n N hnN ops hops _ (identity_wf (2 ^ n)) v hl hvw
  rwa [blockMul_identity m w hw (2 ^ n) (2 ^ (N - n)) v (by rw [hl, pow_split N n hnN]) hvw] at this

/-! ## `Composite` -/

theorem matrix_composite (nm : String) (n : Nat) (ops : OpList P) (hn64 : n < 64)
    (hops : OpsOK α n ops) :
    matrix (α := α) (.Composite nm n ops) =
      applyOps (matrix (α := α)) .mat (2 ^ n) n ops (LMat.identity (2 ^ n)) := by
  rw [matrix, routeOps_spec .mat (2 ^ n) (okWidth_mat _) n hn64 ops hops _ (identity_wf (2 ^ n)).1
    (rowsW_of_wf _ _ (identity_wf (2 ^ n)))]
  rfl

theorem leadOK_Composite (nm : String) (n : Nat) (ops : OpList P) (hn : 0 < n) (hn64 : n < 64)
    (hops : OpsOK α n ops) : LeadOK (α := α) (.Composite nm n ops) where
  pos := by simp only [nrBits]; omega
  wf := by
    rw [matrix_composite nm n ops hn64 hops]
    exact applyOps_mat_wf _ n ops _ (identity_wf _)
  lead := by
    intro m w hw N hk hN v hlen hv
    have hN' : N < 64 := hN rfl
    have hk' : n ≤ N := by simpa only [nrBits] using hk
    rw [route, hlen, trailingZeros_pow N hN',
      routeOps_spec m w hw N hN' ops (opsOK_mono n N hk' ops hops) v hlen hv,
      matrix_composite nm n ops hn64 hops,
      applyOps_eq_blockMul _ m w hw n N hk' ops hops v hlen hv]
    simp only [nrBits]

/-! ## `Loop` -/

theorem iterM_spec {β : Type} (Q : β → Prop) (F : β → Option β) (G : β → β)
    (hF : ∀ x, Q x → F x = some (G x)) (hG : ∀ x, Q x → Q (G x)) :
    ∀ (k : Nat) (x : β), Q x → iterM k F x = some (G^[k] x)
  | 0, x, _ => rfl
  | k + 1, x, hx => by
    rw [iterM, hF x hx, Option.bind_some, iterM_spec Q F G hF hG k (G x) (hG x hx)]
    rfl

theorem iterate_inv {β : Type} (Q : β → Prop) (G : β → β) (hG : ∀ x, Q x → Q (G x)) :
    ∀ (k : Nat) (x : β), Q x → Q (G^[k] x)
  | 0, x, hx => hx
  | k + 1, x, hx => iterate_inv Q G hG k (G x) (hG x hx)

theorem matrix_loop (l : String) (k : Nat) (nm : String) (n : Nat) (body : OpList P) (hn64 : n < 64)
    (hops : OpsOK α n body) :
    matrix (α := α) (.Loop l k nm n body) =
      (applyOps (matrix (α := α)) .mat (2 ^ n) n body)^[k] (LMat.identity (2 ^ n)) := by
  rw [matrix, iterM_spec (WFMat (2 ^ n)) _ (applyOps (matrix (α := α)) .mat (2 ^ n) n body)
    (fun x hx => routeOps_spec .mat (2 ^ n) (okWidth_mat _) n hn64 body hops x hx.1 (rowsW_of_wf _ _ hx))
    (fun x hx => applyOps_mat_wf _ n body x hx) k _ (identity_wf (2 ^ n))]
  rfl

theorem iterate_lift (matOf : GateTerm P → LMat α) (m : Mode) (w : Nat) (hw : OkWidth m w)
    (n N : Nat) (hnN : n ≤ N) (ops : OpList P) (hops : OpsOK α n ops)
    (v : List (Row α m)) (hl : v.length = 2 ^ N) (hvw : RowsW m w v) :
    ∀ (k : Nat) (acc : LMat α), WFMat (2 ^ n) acc →
      (applyOps matOf m w N ops)^[k] (blockMul m w acc (2 ^ (N - n)) v) =
        blockMul m w ((applyOps (α := α) matOf .mat (2 ^ n) n ops)^[k] acc) (2 ^ (N - n)) v
  | 0, acc, _ => rfl
  | k + 1, acc, hacc => by
    rw [Function.iterate_succ_apply, Function.iterate_succ_apply,
      applyOps_lift matOf m w hw n N hnN ops hops acc hacc v hl hvw]
    exact iterate_lift matOf m w hw n N hnN ops hops v hl hvw k _ (applyOps_mat_wf _ n ops acc hacc)

theorem leadOK_Loop (l : String) (k : Nat) (nm : String) (n : Nat) (body : OpList P) (hn : 0 < n)
    (hn64 : n < 64) (hops : OpsOK α n body) : LeadOK (α := α) (.Loop l k nm n body) where
  pos := by simp only [nrBits]; omega
  wf := by
    rw [matrix_loop l k nm n body hn64 hops]
    exact iterate_inv (WFMat (2 ^ n)) _ (fun x hx => applyOps_mat_wf _ n body x hx) k _ (identity_wf _)
  lead := by
    intro m w hw N hk hN v hlen hv
    have hN' : N < 64 := hN rfl
    have hk' : n ≤ N := by simpa only [nrBits] using hk
    have hopsN := opsOK_mono n N hk' body hops
    rw [route, iterM_spec (fun x : List (Row α m) => x.length = 2 ^ N ∧ RowsW m w x) _
      (applyOps (matrix (α := α)) m w N body)
      (fun x hx => by
        show routeOps m body (trailingZeros x.length) x = _
        rw [hx.1, trailingZeros_pow N hN']
        exact routeOps_spec m w hw N hN' body hopsN x hx.1 hx.2)
      (fun x hx => applyOps_shape _ m w hw N body x hx.1 hx.2) k v ⟨hlen, hv⟩,
      matrix_loop l k nm n body hn64 hops]
    congr 1
    have := iterate_lift (matrix (α := α)) m w hw n N hk' body hops v hlen hv k _ (identity_wf (2 ^ n))
    rw [blockMul_identity m w hw (2 ^ n) (2 ^ (N - n)) v (by rw [hlen, pow_split N n hk']) hv] at this
    simpa only [nrBits] using this

/-! ## every well-formed term -/

/-- terms that contain a composite act on fewer than 64 qubits -/
def Small (g : GateTerm P) : Prop := WordOK g (nrBits g)

mutual
theorem leadOK_of_wf (h : LawfulAmp α P) : ∀ g : GateTerm P, WF g → Small g → LeadOK (α := α) g
  | .H, _, _ => leadOK_prim h _ .H
  | .X, _, _ => leadOK_prim h _ .X
  | .Y, _, _ => leadOK_prim h _ .Y
  | .Z, _, _ => leadOK_prim h _ .Z
  | .S, _, _ => leadOK_prim h _ .S
  | .Sdg, _, _ => leadOK_prim h _ .Sdg
  | .T, _, _ => leadOK_prim h _ .T
  | .Tdg, _, _ => leadOK_prim h _ .Tdg
  | .V, _, _ => leadOK_prim h _ .V
  | .Vdg, _, _ => leadOK_prim h _ .Vdg
  | .I, _, _ => leadOK_prim h _ .I
  | .RX θ, _, _ => leadOK_prim h _ (.RX θ)
  | .RY θ, _, _ => leadOK_prim h _ (.RY θ)
  | .RZ l, _, _ => leadOK_prim h _ (.RZ l)
  | .U1 l, _, _ => leadOK_prim h _ (.U1 l)
  | .U2 φ l, _, _ => leadOK_prim h _ (.U2 φ l)
  | .U3 θ φ l, _, _ => leadOK_prim h _ (.U3 θ φ l)
  | .CX, _, _ => leadOK_prim h _ .CX
  | .CY, _, _ => leadOK_prim h _ .CY
  | .CZ, _, _ => leadOK_prim h _ .CZ
  | .Swap, _, _ => leadOK_prim h _ .Swap
  | .C g, hwf, hs => by
    rw [WF] at hwf
    exact leadOK_C g (leadOK_of_wf h g hwf (fun hc => by
      have := hs (by simpa only [hasComposite] using hc)
      simp only [nrBits] at this; omega))
  | .Kron g0 g1, hwf, hs => by
    rw [WF] at hwf
    exact leadOK_Kron g0 g1
      (leadOK_of_wf h g0 hwf.1 (fun hc => by
        have := hs (by simp only [hasComposite, hc, Bool.true_or])
        simp only [nrBits] at this; omega))
      (leadOK_of_wf h g1 hwf.2 (fun hc => by
        have := hs (by simp only [hasComposite, hc, Bool.or_true])
        simp only [nrBits] at this; omega))
  | .Composite nm n ops, hwf, hs => by
    have hn64 : n < 64 := by simpa only [nrBits] using hs rfl
    rw [WF] at hwf
    exact leadOK_Composite nm n ops hwf.1 hn64 (opsOK_of_wf h n hn64 ops hwf.2)
  | .Loop l k nm n body, hwf, hs => by
    have hn64 : n < 64 := by simpa only [nrBits] using hs rfl
    rw [WF] at hwf
    exact leadOK_Loop l k nm n body hwf.1 hn64 (opsOK_of_wf h n hn64 body hwf.2)
theorem opsOK_of_wf (h : LawfulAmp α P) : ∀ (n : Nat), n < 64 → ∀ ops : OpList P, WFOps n ops →
    OpsOK α n ops
  | _, _, .nil, _ => trivial
  | n, hn, .cons g bits rest, hwf => by
    rw [WFOps] at hwf
    exact ⟨leadOK_of_wf h g hwf.1 (fun _ => by
        have := validBits_length_le n bits hwf.2.2.1
        rw [hwf.2.1]; omega),
      hwf.2.1, hwf.2.2.1, opsOK_of_wf h n hn rest hwf.2.2.2⟩
end

/-! ## the theorem of C04 -/

/-- `gates::apply_gate_slice` (mode `vec`) and `gates::apply_gate_mat_slice` (mode `mat`) of every
well-formed gate term, on every valid placement of every register, equal the embedded matrix -/
theorem applyGateSlice_eq_embed (h : LawfulAmp α P) (g : GateTerm P) (hwf : WF g) (m : Mode) (w : Nat)
    (hw : OkWidth m w) (n : Nat) (bits : List Nat) (har : nrBits g = bits.length)
    (hv : validBits n bits = true) (hword : WordOK g n)
    (v : List (Row α m)) (hlen : v.length = 2 ^ n) (hvw : RowsW m w v) :
    applyGateSlice (α := α) m g bits n v = some (mulState m w (embed n bits (matrix (α := α) g)) v) := by
  rw [applyGateSlice_eq_placeStep]
  refine placeStep_spec m w hw g (leadOK_of_wf h g hwf (fun hc => ?_)) bits n har hv hword v hlen hvw
  have := validBits_length_le n bits hv
  have := hword hc
  omega

/-- the leading-qubit route (`Gate::apply_slice` / `apply_mat_slice`, hence `apply` / `apply_mat`) of
every well-formed term on a state of `2^N` rows is `(M ⊗ I)·v` -/
theorem route_eq_blockMul (h : LawfulAmp α P) (g : GateTerm P) (hwf : WF g) (m : Mode) (w : Nat)
    (hw : OkWidth m w) (N : Nat) (hk : nrBits g ≤ N) (hword : WordOK g N)
    (v : List (Row α m)) (hlen : v.length = 2 ^ N) (hvw : RowsW m w v) :
    route (α := α) m g v = some (blockMul m w (matrix (α := α) g) (2 ^ (N - nrBits g)) v) :=
  (leadOK_of_wf h g hwf (fun hc => by have := hword hc; omega)).lead m w hw N hk hword v hlen hvw

theorem matrix_wf (h : LawfulAmp α P) (g : GateTerm P) (hwf : WF g) (hs : Small g) :
    WFMat (2 ^ nrBits g) (matrix (α := α) g) := (leadOK_of_wf h g hwf hs).wf

/-! ## matrices of composites and loops -/

theorem applyOps_mat_eq_opsMatrix (matOf : GateTerm P → LMat α) (n : Nat) :
    ∀ (ops : OpList P) (acc : LMat α), WFMat (2 ^ n) acc →
      applyOps (α := α) matOf .mat (2 ^ n) n ops acc = opsMatrix matOf n ops acc
  | .nil, acc, _ => by rw [applyOps_nil, opsMatrix]
  | .cons g bits rest, acc, hacc => by
    rw [applyOps_cons, opsMatrix, mulState_mat_eq_mul (2 ^ n) _ acc (embed_wf n bits _) hacc]
    exact applyOps_mat_eq_opsMatrix matOf n rest _ (mul_wf (2 ^ n) _ acc (embed_wf n bits _) hacc)

/-- `Composite::matrix()` is the ordered product of the embedded matrices of its operations -/
theorem matrix_composite_eq_product (h : LawfulAmp α P) (nm : String) (n : Nat) (ops : OpList P)
    (hwf : WF (.Composite nm n ops)) (hn64 : n < 64) :
    matrix (α := α) (.Composite nm n ops) =
      opsMatrix (matrix (α := α)) n ops (LMat.identity (2 ^ n)) := by
  rw [WF] at hwf
  rw [matrix_composite nm n ops hn64 (opsOK_of_wf h n hn64 ops hwf.2),
    applyOps_mat_eq_opsMatrix _ n ops _ (identity_wf _)]

/-- one pass of the ops over a square matrix is the product with the ops' matrix -/
theorem applyOps_mat_eq_mul (matOf : GateTerm P → LMat α) (n : Nat) (ops : OpList P)
    (hops : OpsOK α n ops) (x : LMat α) (hx : WFMat (2 ^ n) x) :
    applyOps (α := α) matOf .mat (2 ^ n) n ops x =
      LMat.mul (applyOps (α := α) matOf .mat (2 ^ n) n ops (LMat.identity (2 ^ n))) x := by
  have hB := applyOps_mat_wf matOf n ops _ (identity_wf (α := α) (2 ^ n))
  have := applyOps_eq_blockMul matOf .mat (2 ^ n) (okWidth_mat _) n n (Nat.le_refl n) ops hops x hx.1
    (rowsW_of_wf _ _ hx)
  rw [this, Nat.sub_self, Nat.pow_zero,
    blockMul_one .mat (2 ^ n) (okWidth_mat _) _ (2 ^ n) hB x hx.1 (rowsW_of_wf _ _ hx),
    mulState_mat_eq_mul (2 ^ n) _ x hB hx]

/-- `Loop::matrix()` is the `k`-th power of its body's matrix -/
theorem matrix_loop_eq_pow (h : LawfulAmp α P) (l : String) (k : Nat) (nm : String) (n : Nat)
    (body : OpList P) (hwf : WF (.Loop l k nm n body)) (hn64 : n < 64) :
    matrix (α := α) (.Loop l k nm n body) = mpow (matrix (α := α) (.Composite nm n body)) k := by
  rw [WF] at hwf
  have hops := opsOK_of_wf (α := α) h n hn64 body hwf.2
  rw [matrix_loop l k nm n body hn64 hops, matrix_composite nm n body hn64 hops]
  have hB := applyOps_mat_wf (matrix (α := α)) n body _ (identity_wf (α := α) (2 ^ n))
  induction k with
  | zero => show LMat.identity (2 ^ n) = LMat.identity _; rw [hB.1]
  | succ k ih =>
    rw [Function.iterate_succ_apply', ih]
    exact applyOps_mat_eq_mul _ n body hops _ (mpow_wf (2 ^ n) _ hB k)

end Q1t.Proofs.Route

import Q1t.Proofs.SimCapstone
import Q1t.Proofs.SimDischarge
import Q1t.Model.StabSim
/-!
C02, stabilizer backend: per-shot reading of the range logic of `StabilizerState` (`Q1t/Model/StabSim.lean`),
independent of what a tableau means: which tableau operation (`Tab.applyGate`, `Tab.measure`, `Tab.collapse`,
`Tab.reset`) is applied to the tableau of each shot, and which bit is written for it.  The meaning of the
tableau operations is the contract `TableauOK` (`SimStabRefine.lean`), to be discharged by C03.
-/
set_option linter.unusedSectionVars false
namespace Q1t.Sim
open Q1t Q1t.Spec Prog Q1t.Tableau

instance : LawfulMonad Res := LawfulMonad.mk' Res
  (id_map := fun x => by cases x <;> rfl)
  (pure_bind := fun _ _ => rfl)
  (bind_assoc := fun x _ _ => by cases x <;> rfl)

theorem res_mapM_forall₂ {σ τ : Type} (f : σ → Res τ) : ∀ (l : List σ) (r : List τ), l.mapM f = .ok r →
    List.Forall₂ (fun a b => f a = .ok b) l r := by
  intro l
  induction l with
  | nil => intro r h; simp only [List.mapM_nil] at h; cases h; exact .nil
  | cons a l ih =>
    intro r h
    rw [List.mapM_cons] at h
    cases ha : f a with
    | ok b =>
      rw [ha] at h
      cases hl : l.mapM f with
      | ok bs =>
        rw [hl] at h
        cases h
        exact .cons ha (ih bs hl)
      | err e => rw [hl] at h; cases h
      | panic s => rw [hl] at h; cases h
      | oob => rw [hl] at h; cases h
    | err e => rw [ha] at h; cases h
    | panic s => rw [ha] at h; cases h
    | oob => rw [ha] at h; cases h

theorem forall₂_expand {σ τ : Type} {R : σ → τ → Prop} : ∀ (cs : List Nat) (xs : List σ) (ys : List τ),
    List.Forall₂ R xs ys → List.Forall₂ R (expand cs xs) (expand cs ys) := by
  intro cs xs ys h
  induction h generalizing cs with
  | nil => cases cs <;> simp [expand]
  | @cons a b l1 l2 hab _ ih =>
    cases cs with
    | nil => simp [expand]
    | cons c cs =>
      simp only [expand]
      apply List.rel_append _ (ih cs)
      induction c with
      | zero => exact .nil
      | succ c ihc => simp only [List.replicate_succ]; exact .cons hab ihc

theorem forall₂_replicate_left {σ τ : Type} {R : σ → τ → Prop} (a : σ) : ∀ (ys : List τ),
    (∀ y ∈ ys, R a y) → List.Forall₂ R (List.replicate ys.length a) ys := by
  intro ys
  induction ys with
  | nil => intro _; exact .nil
  | cons y ys ih =>
    intro h
    simp only [List.length_cons, List.replicate_succ]
    exact .cons (h y List.mem_cons_self) (ih fun y' hy' => h y' (List.mem_cons_of_mem _ hy'))

section
variable {α P : Type} [CommRing α] [Amp α P] [SimAmp α]
variable {sb : Nat → α → Nat → Prop} {sc : List α → Nat → Prop}
variable {half : α} {ph : List Nat} {conjOf : GateTerm P → Tab.Conj}

/-- the tableau of every shot, in shot order -/
def shotTabs (s : StabState) : List Tab := expand s.counts s.tabs

/-- shape invariant of the stabilizer state and the register -/
structure WFT (n N : Nat) (s : StabState) (c : List Nat) : Prop where
  len : s.counts.length = s.tabs.length
  sum : s.counts.sum = N
  nrBits : s.nrBits = n
  nrShots : s.nrShots = N
  reg : c.length = N

theorem shotTabs_length {n N : Nat} {s : StabState} {c : List Nat} (h : WFT n N s c) : (shotTabs s).length = N := by
  rw [shotTabs, expand_length _ _ h.len, h.sum]

theorem runs_lift_ok {β : Type} {r : Res β} {ds ds' : List Draw} {b : β}
    (h : Runs sb sc (StabState.lift (α := α) r) ds (.ok b) ds') : r = .ok b ∧ ds' = ds := by
  cases r with
  | ok b' =>
    obtain ⟨e, rfl⟩ := runs_pure_iff.mp h
    simp only [Except.ok.injEq] at e
    exact ⟨by rw [e], rfl⟩
  | err e => cases e <;> exact absurd h runs_err_ok
  | panic s => exact absurd h runs_panic_ok
  | oob => exact absurd h runs_panic_ok

/-! ### gates and reset: every tableau in turn -/

theorem stab_applyGate_runs {s : StabState} {g : GateTerm P} {bits : List Nat} {ds ds' : List Draw} {s' : StabState}
    (h : Runs sb sc (StabState.applyGate (α := α) ph conjOf s g bits) ds (.ok s') ds') :
    ds' = ds ∧ s'.counts = s.counts ∧ s'.nrBits = s.nrBits ∧ s'.nrShots = s.nrShots ∧
    List.Forall₂ (fun t t' => Tab.applyGate ph (conjOf g) t bits = .ok t') s.tabs s'.tabs := by
  unfold StabState.applyGate at h
  split at h
  · exact absurd h runs_err_ok
  obtain ⟨ts, d1, h1, h2⟩ := runs_bind_ok _ _ h
  obtain ⟨e1, rfl⟩ := runs_lift_ok h1
  obtain ⟨e2, rfl⟩ := runs_pure_iff.mp h2
  simp only [Except.ok.injEq] at e2
  subst e2
  exact ⟨rfl, rfl, rfl, rfl, res_mapM_forall₂ _ _ _ e1⟩

theorem stab_reset_runs {s : StabState} {q : Nat} {ds ds' : List Draw} {s' : StabState}
    (h : Runs sb sc (StabState.reset (α := α) ph s q) ds (.ok s') ds') :
    ds' = ds ∧ s'.counts = s.counts ∧ s'.nrBits = s.nrBits ∧ s'.nrShots = s.nrShots ∧
    List.Forall₂ (fun t t' => Tab.reset ph t q = .ok t') s.tabs s'.tabs := by
  unfold StabState.reset at h
  obtain ⟨ts, d1, h1, h2⟩ := runs_bind_ok _ _ h
  obtain ⟨e1, rfl⟩ := runs_lift_ok h1
  obtain ⟨e2, rfl⟩ := runs_pure_iff.mp h2
  simp only [Except.ok.injEq] at e2
  subst e2
  exact ⟨rfl, rfl, rfl, rfl, res_mapM_forall₂ _ _ _ e1⟩

/-! ### measurement: the loop over (tableau, count) -/

/-- what happens to the tableau `t` of a shot that is measured on qubit `q` with outcome `ot.1`: either the
outcome is the deterministic one and the tableau is kept, or the measurement is random and the tableau is
collapsed on the outcome -/
def MeasStep (ph : List Nat) (q : Nat) (t : Tab) (ot : Bool × Tab) : Prop :=
  (Tab.measure t q = .ok (.deterministic ot.1) ∧ ot.2 = t) ∨
    ∃ i, Tab.measure t q = .ok (.random i) ∧ Tab.collapse ph t i q ot.1 = .ok ot.2

theorem stab_measureLoop_spec (q cbit : Nat) : ∀ (items : List (Tab × Nat)) (start : Nat) (res : List Nat)
    (ts : List Tab) (cs : List Nat) (ds ds' : List Draw) (res' : List Nat) (ts' : List Tab) (cs' : List Nat),
    Runs sb sc (StabState.measureLoop half ph q cbit items start res ts cs) ds (.ok (res', ts', cs')) ds' →
    ∃ (newts : List Tab) (newcs : List Nat) (steps : List (Bool × Tab)),
      ts' = ts ++ newts ∧ cs' = cs ++ newcs ∧ newts.length = newcs.length ∧ newcs.sum = (items.map (·.2)).sum ∧
      res' = setOuts cbit res start (steps.map (·.1)) ∧ expand newcs newts = steps.map (·.2) ∧
      List.Forall₂ (MeasStep ph q) (expand (items.map (·.2)) (items.map (·.1))) steps := by
  intro items
  induction items with
  | nil =>
    intro start res ts cs ds ds' res' ts' cs' h
    simp only [StabState.measureLoop] at h
    obtain ⟨e, _⟩ := runs_pure_iff.mp h
    simp only [Except.ok.injEq, Prod.mk.injEq] at e
    obtain ⟨rfl, rfl, rfl⟩ := e
    exact ⟨[], [], [], by simp, by simp, rfl, rfl, by simp [setOuts_nil], by simp [expand], by simp [expand]⟩
  | cons it rest ih =>
    intro start res ts cs ds ds' res' ts' cs' h
    obtain ⟨t, count⟩ := it
    simp only [StabState.measureLoop] at h
    obtain ⟨info, d1, h1, h2⟩ := runs_bind_ok _ _ h
    obtain ⟨hm, rfl⟩ := runs_lift_ok h1
    -- the common final step: an item contributing `cnew`/`tnew` ranges and the per-shot `stepsI`
    have fin : ∀ (n0 : Nat) (tnew : List Tab) (cnew : List Nat) (stepsI : List (Bool × Tab)) (d2 : List Draw),
        n0 ≤ count → stepsI.map (·.1) = List.replicate n0 false ++ List.replicate (count - n0) true →
        tnew.length = cnew.length → cnew.sum = count → expand cnew tnew = stepsI.map (·.2) →
        (∀ ot ∈ stepsI, MeasStep ph q t ot) →
        Runs sb sc (StabState.measureLoop half ph q cbit rest (start + count) (writeRange res start count n0 cbit)
          (ts ++ tnew) (cs ++ cnew)) d2 (.ok (res', ts', cs')) ds' →
        ∃ (newts : List Tab) (newcs : List Nat) (steps : List (Bool × Tab)),
          ts' = ts ++ newts ∧ cs' = cs ++ newcs ∧ newts.length = newcs.length ∧
          newcs.sum = (((t, count) :: rest).map (·.2)).sum ∧
          res' = setOuts cbit res start (steps.map (·.1)) ∧ expand newcs newts = steps.map (·.2) ∧
          List.Forall₂ (MeasStep ph q) (expand (((t, count) :: rest).map (·.2)) (((t, count) :: rest).map (·.1))) steps := by
      intro n0 tnew cnew stepsI d2 hle houts hlen hsum hexp hstep hr
      obtain ⟨nts, ncs, steps, e1, e2, e3, e4, e5, e6, e7⟩ := ih _ _ _ _ _ _ _ _ _ hr
      have hlenI : stepsI.length = count := by
        have := congrArg List.length houts
        simp only [List.length_map, List.length_append, List.length_replicate] at this
        omega
      refine ⟨tnew ++ nts, cnew ++ ncs, stepsI ++ steps, by rw [e1, List.append_assoc], by rw [e2, List.append_assoc],
        by simp [hlen, e3], by simp [hsum, e4], ?_, ?_, ?_⟩
      · rw [e5, writeRange_eq res start count n0 cbit hle, ← houts, List.map_append]
        have := setOuts_setOuts cbit res start (stepsI.map (·.1)) (steps.map (·.1))
        rw [List.length_map, hlenI] at this
        exact this
      · rw [expand_append _ _ _ _ hlen.symm, hexp, e6, List.map_append]
      · simp only [List.map_cons, expand]
        apply List.rel_append _ e7
        rw [← hlenI]
        exact forall₂_replicate_left t stepsI hstep
    cases info with
    | deterministic v =>
      dsimp only at h2
      cases v with
      | true =>
        simp only [if_true] at h2
        exact fin 0 [t] [count] (List.replicate count (true, t)) _ (Nat.zero_le _) (by simp) rfl (by simp)
          (by simp [expand]) (fun ot hot => by
            rw [List.eq_of_mem_replicate hot]; exact Or.inl ⟨hm, rfl⟩) h2
      | false =>
        simp only [Bool.false_eq_true, if_false] at h2
        exact fin count [t] [count] (List.replicate count (false, t)) _ (Nat.le_refl _) (by simp) rfl (by simp)
          (by simp [expand]) (fun ot hot => by
            rw [List.eq_of_mem_replicate hot]; exact Or.inl ⟨hm, rfl⟩) h2
    | random i =>
      dsimp only at h2
      cases h2 with
      | binomial _ _ _ n0 ds0 _ _ hle hsb hk =>
        dsimp only at hk
        split at hk
        · rename_i h0
          subst h0
          obtain ⟨t1, d3, hc1, hk2⟩ := runs_bind_ok _ _ hk
          obtain ⟨hc1', rfl⟩ := runs_lift_ok hc1
          exact fin 0 [t1] [count] (List.replicate count (true, t1)) _ (Nat.zero_le _) (by simp) rfl (by simp)
            (by simp [expand]) (fun ot hot => by
              rw [List.eq_of_mem_replicate hot]; exact Or.inr ⟨i, hm, hc1'⟩) hk2
        · split at hk
          · rename_i h0 hc
            subst hc
            obtain ⟨t0, d3, hc0, hk2⟩ := runs_bind_ok _ _ hk
            obtain ⟨hc0', rfl⟩ := runs_lift_ok hc0
            exact fin n0 [t0] [n0] (List.replicate n0 (false, t0)) _ (Nat.le_refl _) (by simp) rfl (by simp)
              (by simp [expand]) (fun ot hot => by
                rw [List.eq_of_mem_replicate hot]; exact Or.inr ⟨i, hm, hc0'⟩) hk2
          · rename_i h0 hc
            obtain ⟨t0, d3, hc0, hk2⟩ := runs_bind_ok _ _ hk
            obtain ⟨hc0', rfl⟩ := runs_lift_ok hc0
            obtain ⟨t1, d4, hc1, hk3⟩ := runs_bind_ok _ _ hk2
            obtain ⟨hc1', rfl⟩ := runs_lift_ok hc1
            exact fin n0 [t0, t1] [n0, count - n0]
              (List.replicate n0 (false, t0) ++ List.replicate (count - n0) (true, t1)) _ hle (by simp) rfl
              (by simp; omega) (by simp [expand]) (fun ot hot => by
                rcases List.mem_append.mp hot with hot | hot
                · rw [List.eq_of_mem_replicate hot]; exact Or.inr ⟨i, hm, hc0'⟩
                · rw [List.eq_of_mem_replicate hot]; exact Or.inr ⟨i, hm, hc1'⟩) hk3

theorem zip_maps {σ τ : Type} (xs : List σ) (ys : List τ) (h : ys.length = xs.length) :
    (xs.zip ys).map (·.1) = xs ∧ (xs.zip ys).map (·.2) = ys :=
  ⟨List.map_fst_zip (by omega), List.map_snd_zip (by omega)⟩

/-- **per-shot reading of the stabilizer `measure_into`** -/
theorem stab_measureInto_runs {n N : Nat} {s : StabState} {c : List Nat} {q cbit : Nat} (hwf : WFT n N s c)
    {ds ds' : List Draw} {s' : StabState} {c' : List Nat}
    (h : Runs sb sc (StabState.measureInto half ph s q cbit c) ds (.ok (s', c')) ds') :
    q < n ∧ cbit < 64 ∧ WFT n N s' c' ∧
    ∀ (i : Nat) (t : Tab) (w : Nat), (shotTabs s)[i]? = some t → c[i]? = some w →
      ∃ o t', MeasStep ph q t (o, t') ∧ c'[i]? = some (setBitTo w cbit o) ∧ (shotTabs s')[i]? = some t' := by
  unfold StabState.measureInto at h
  split at h
  · exact absurd h runs_err_ok
  split at h
  · exact absurd h runs_err_ok
  split at h
  · exact absurd h runs_panic_ok
  rename_i hq _ hcb
  obtain ⟨⟨res', ts, cs⟩, d1, h1, h2⟩ := runs_bind_ok _ _ h
  obtain ⟨e, _⟩ := runs_pure_iff.mp h2
  simp only [Except.ok.injEq, Prod.mk.injEq] at e
  obtain ⟨rfl, rfl⟩ := e
  obtain ⟨nts, ncs, steps, e1, e2, e3, e4, e5, e6, e7⟩ := stab_measureLoop_spec q cbit _ _ _ _ _ _ _ _ _ _ h1
  simp only [List.nil_append] at e1 e2
  subst e1 e2
  obtain ⟨z1, z2⟩ := zip_maps s.tabs s.counts hwf.len
  rw [z1, z2] at e7
  rw [z2] at e4
  have hsl : steps.length = N := by rw [← e7.length_eq, expand_length _ _ hwf.len, hwf.sum]
  refine ⟨by have := hwf.nrBits; omega, by simpa [shiftOk] using hcb,
    ⟨e3.symm, e4.trans hwf.sum, hwf.nrBits, hwf.nrShots, by rw [e5, setOuts_length]; exact hwf.reg⟩, ?_⟩
  intro i t w ht hw
  obtain ⟨ot, hot, hstep⟩ := forall₂_getElem? e7 i t ht
  have hi : i < N := by rw [← hwf.reg]; exact (List.getElem?_eq_some_iff.mp hw).1
  refine ⟨ot.1, ot.2, hstep, ?_, ?_⟩
  · rw [e5, getElem?_setOuts, hw]
    simp only [Option.map_some, Option.some.injEq, List.length_map]
    rw [if_pos (by omega), Nat.sub_zero, List.getD_eq_getElem?_getD, List.getElem?_map, hot]
    rfl
  · show (expand cs ts)[i]? = _
    rw [e6, List.getElem?_map, hot]
    rfl

/-- a peek of a shot's tableau on qubit `q` with outcome `o`: the deterministic outcome, or a random one -/
def PeekStep (q : Nat) (t : Tab) (o : Bool) : Prop :=
  Tab.measure t q = .ok (.deterministic o) ∨ ∃ i, Tab.measure t q = .ok (.random i)

theorem stab_peekGo_spec (q cbit : Nat) : ∀ (items : List (Tab × Nat)) (start : Nat) (res : List Nat)
    (ds ds' : List Draw) (res' : List Nat),
    Runs sb sc (StabState.peekInto.go half q cbit items start res) ds (.ok res') ds' →
    ∃ (outs : List Bool), res' = setOuts cbit res start outs ∧
      List.Forall₂ (PeekStep q) (expand (items.map (·.2)) (items.map (·.1))) outs := by
  intro items
  induction items with
  | nil =>
    intro start res ds ds' res' h
    simp only [StabState.peekInto.go] at h
    obtain ⟨e, _⟩ := runs_pure_iff.mp h
    simp only [Except.ok.injEq] at e
    subst e
    exact ⟨[], by simp [setOuts_nil], by simp [expand]⟩
  | cons it rest ih =>
    intro start res ds ds' res' h
    obtain ⟨t, count⟩ := it
    simp only [StabState.peekInto.go] at h
    obtain ⟨info, d1, h1, h2⟩ := runs_bind_ok _ _ h
    obtain ⟨hm, rfl⟩ := runs_lift_ok h1
    have fin : ∀ (n0 : Nat) (d2 : List Draw), n0 ≤ count →
        (∀ o ∈ List.replicate n0 false ++ List.replicate (count - n0) true, PeekStep q t o) →
        Runs sb sc (StabState.peekInto.go half q cbit rest (start + count) (writeRange res start count n0 cbit)) d2
          (.ok res') ds' →
        ∃ (outs : List Bool), res' = setOuts cbit res start outs ∧
          List.Forall₂ (PeekStep q) (expand (((t, count) :: rest).map (·.2)) (((t, count) :: rest).map (·.1))) outs := by
      intro n0 d2 hle hstep hr
      obtain ⟨outs, e5, e7⟩ := ih _ _ _ _ _ hr
      have hlenI : (List.replicate n0 false ++ List.replicate (count - n0) true).length = count := by simp; omega
      refine ⟨(List.replicate n0 false ++ List.replicate (count - n0) true) ++ outs, ?_, ?_⟩
      · rw [e5, writeRange_eq res start count n0 cbit hle]
        have := setOuts_setOuts cbit res start (List.replicate n0 false ++ List.replicate (count - n0) true) outs
        rw [hlenI] at this
        exact this
      · simp only [List.map_cons, expand]
        apply List.rel_append _ e7
        have := forall₂_replicate_left (R := PeekStep q) t _ hstep
        rwa [hlenI] at this
    cases info with
    | deterministic v =>
      dsimp only at h2
      cases v with
      | true =>
        simp only [if_true] at h2
        exact fin 0 _ (Nat.zero_le _) (fun o ho => by
          simp only [List.replicate_zero, List.nil_append] at ho
          rw [List.eq_of_mem_replicate ho]; exact Or.inl hm) h2
      | false =>
        simp only [Bool.false_eq_true, if_false] at h2
        exact fin count _ (Nat.le_refl _) (fun o ho => by
          simp only [Nat.sub_self, List.replicate_zero, List.append_nil] at ho
          rw [List.eq_of_mem_replicate ho]; exact Or.inl hm) h2
    | random i =>
      dsimp only at h2
      cases h2 with
      | binomial _ _ _ n0 ds0 _ _ hle hsb hk =>
        exact fin n0 _ hle (fun o _ => Or.inr ⟨i, hm⟩) hk

/-- **per-shot reading of the stabilizer `peek_into`**: no tableau is touched (the function returns none) -/
theorem stab_peekInto_runs {n N : Nat} {s : StabState} {c : List Nat} {q cbit : Nat} (hwf : WFT n N s c)
    {ds ds' : List Draw} {c' : List Nat}
    (h : Runs sb sc (StabState.peekInto half s q cbit c) ds (.ok c') ds') :
    q < n ∧ cbit < 64 ∧ c'.length = N ∧
    ∀ (i : Nat) (t : Tab) (w : Nat), (shotTabs s)[i]? = some t → c[i]? = some w →
      ∃ o, PeekStep q t o ∧ c'[i]? = some (setBitTo w cbit o) := by
  unfold StabState.peekInto at h
  split at h
  · exact absurd h runs_err_ok
  split at h
  · exact absurd h runs_err_ok
  split at h
  · exact absurd h runs_panic_ok
  rename_i hq _ hcb
  obtain ⟨outs, e5, e7⟩ := stab_peekGo_spec q cbit _ _ _ _ _ _ h
  obtain ⟨z1, z2⟩ := zip_maps s.tabs s.counts hwf.len
  rw [z1, z2] at e7
  have hsl : outs.length = N := by rw [← e7.length_eq, expand_length _ _ hwf.len, hwf.sum]
  refine ⟨by have := hwf.nrBits; omega, by simpa [shiftOk] using hcb, by rw [e5, setOuts_length]; exact hwf.reg, ?_⟩
  intro i t w ht hw
  obtain ⟨o, ho, hstep⟩ := forall₂_getElem? e7 i t ht
  have hi : i < N := by rw [← hwf.reg]; exact (List.getElem?_eq_some_iff.mp hw).1
  refine ⟨o, hstep, ?_⟩
  rw [e5, getElem?_setOuts, hw]
  simp only [Option.map_some, Option.some.injEq]
  rw [if_pos (by omega), Nat.sub_zero, List.getD_eq_getElem?_getD, ho]
  rfl

/-! ### conditional gates -/

theorem forall₂_expandPieces {R : Nat × Bool → Tab → Prop} : ∀ (ranges : List (Nat × Nat × Bool)) (ts : List Tab),
    List.Forall₂ (fun (p : Nat × Nat × Bool) t' => R (p.1, p.2.2) t') ranges ts →
    List.Forall₂ R (expandPieces ranges) (expand (ranges.map (·.2.1)) ts) := by
  intro ranges ts h
  induction h with
  | nil => simp [expandPieces, expand]
  | @cons p t' ps ts' hp _ ih =>
    have e : expandPieces (p :: ps) = List.replicate p.2.1 (p.1, p.2.2) ++ expandPieces ps := by
      simp [expandPieces]
    rw [e]
    simp only [List.map_cons, expand]
    apply List.rel_append _ ih
    generalize p.2.1 = k
    induction k with
    | zero => exact .nil
    | succ k ihk => simp only [List.replicate_succ]; exact .cons hp ihk

theorem shotCols_tabs (tabs : List Tab) : ∀ (counts : List Nat), counts.length = tabs.length →
    (shotCols counts 0).map (fun k => tabs[k]?) = (expand counts tabs).map some := by
  intro counts hlen
  rw [shotCols_map, ← expand_map]
  congr 1
  apply List.ext_getElem
  · simp [hlen]
  · intro k h1 h2
    simp at h1 h2 ⊢

/-- **per-shot reading of the stabilizer `apply_conditional_gate`**: the gate is applied to the tableau of
exactly the shots whose mask bit is set -/
theorem stab_applyConditional_runs {n N : Nat} {s : StabState} {c : List Nat} {control : List Bool}
    {g : GateTerm P} {bits : List Nat} (hwf : WFT n N s c) {ds ds' : List Draw} {s' : StabState}
    (h : Runs sb sc (StabState.applyConditional (α := α) ph conjOf s control g bits) ds (.ok s') ds') :
    ds' = ds ∧ control.length = N ∧ WFT n N s' c ∧
    ∀ (i : Nat) (t : Tab) (b : Bool), (shotTabs s)[i]? = some t → control[i]? = some b →
      ∃ t', (shotTabs s')[i]? = some t' ∧ (if b then Tab.applyGate ph (conjOf g) t bits = .ok t' else t' = t) := by
  unfold StabState.applyConditional at h
  split at h
  · exact absurd h runs_err_ok
  rename_i hlen
  split at h
  · exact absurd h runs_err_ok
  split at h
  · exact absurd h runs_panic_ok
  rename_i ranges hr
  obtain ⟨ts, d1, h1, h2⟩ := runs_bind_ok _ _ h
  obtain ⟨e1, rfl⟩ := runs_lift_ok h1
  obtain ⟨e2, rfl⟩ := runs_pure_iff.mp h2
  simp only [Except.ok.injEq] at e2
  subst e2
  have hlen' : control.length = N := by rw [← hwf.nrShots]; simpa using hlen
  have hp := ranges_partition s.counts control ranges hr (by rw [hwf.sum, hlen'])
  have hf := res_mapM_forall₂ _ _ _ e1
  obtain ⟨R, hR⟩ : ∃ R : Nat × Bool → Tab → Prop, R = fun ib t' =>
      (match s.tabs[ib.1]? with
        | none => Res.oob
        | some t => if ib.2 then Tab.applyGate ph (conjOf g) t bits else .ok t) = .ok t' := ⟨_, rfl⟩
  have hf' : List.Forall₂ (fun (p : Nat × Nat × Bool) t' => R (p.1, p.2.2) t') ranges ts := by
    rw [hR]; exact hf
  have hshots := forall₂_expandPieces ranges ts hf'
  rw [hp] at hshots
  have hsum : (ranges.map (·.2.1)).sum = N := by
    rw [← expandPieces_length, hp, List.length_zip, shotCols_length, hwf.sum, hlen']; simp
  refine ⟨rfl, hlen', ⟨by simp [hf.length_eq], hsum, hwf.nrBits, hwf.nrShots, hwf.reg⟩, ?_⟩
  intro i t b ht hb
  have hcols := shotCols_tabs s.tabs s.counts hwf.len
  have hcol : ∃ k, (shotCols s.counts 0)[i]? = some k ∧ s.tabs[k]? = some t := by
    have := congrArg (fun l => l[i]?) hcols
    simp only [List.getElem?_map] at this
    unfold shotTabs at ht
    rw [ht] at this
    cases hk : (shotCols s.counts 0)[i]? with
    | none => rw [hk] at this; simp at this
    | some k => rw [hk] at this; exact ⟨k, rfl, by simpa using this⟩
  obtain ⟨k, hk1, hk2⟩ := hcol
  obtain ⟨t', ht', hRt⟩ := forall₂_getElem? hshots i (k, b) (by
    rw [List.getElem?_zip_eq_some]; exact ⟨hk1, hb⟩)
  refine ⟨t', ht', ?_⟩
  rw [hR] at hRt
  simp only [hk2] at hRt
  cases b with
  | true => simpa using hRt
  | false =>
    simp only [Bool.false_eq_true, if_false] at hRt ⊢
    cases hRt; rfl

end
end Q1t.Sim

import Q1t.Proofs.LatexConn
namespace Q1t.Proofs.Latex
open Q1t.Latex Q1t.Spec.QcGrid

/-! ## The top-level invariant -/

structure Inv (s : St) : Prop where
  shape : Shape s
  noRange : s.ranges = []
  /-- an unused field of the last column is empty -/
  free : ∀ col rest, s.rcols = col :: rest → ∀ r : Nat, s.inUse[r]? = some false → col[r]? = some none
  /-- before the first column exists everything counts as used -/
  start : s.rcols = [] → ∀ (r : Nat) (b : Bool), s.inUse[r]? = some b → b = true
  ok : ∀ col ∈ s.rcols, ColOK col

theorem inv_new (nq nc : Nat) : Inv (St.new nq nc) := by
  refine ⟨shape_new nq nc, rfl, ?_, ?_, ?_⟩
  · intro col rest h; simp [St.new] at h
  · intro _ r b h
    simp only [St.new, List.getElem?_replicate] at h
    split at h <;> simp_all
  · intro col h; simp [St.new] at h

theorem inv_addColumn {s : St} (h : Inv s) : Inv (addColumn s) := by
  refine ⟨(keeps_addColumn s).shape h.shape, h.noRange, ?_, ?_, ?_⟩
  · intro col rest hc r hr
    simp only [addColumn] at hc
    injection hc with hc _; subst hc
    simp only [addColumn, List.getElem?_replicate] at hr ⊢
    split at hr
    · rename_i hlt; simp [hlt]
    · cases hr
  · intro hc; simp [addColumn] at hc
  · intro col hc
    simp only [addColumn, List.mem_cons] at hc
    rcases hc with rfl | hc
    · exact colOK_replicate _
    · exact h.ok col hc

/-- Either nothing happened or a fresh column was started (only possible outside a range). -/
def Pre (s s0 : St) : Prop := s0 = s ∨ (s.ranges = [] ∧ s0 = addColumn s)

theorem Pre.inv {s s0 : St} (hp : Pre s s0) (h : Inv s) : Inv s0 := by
  rcases hp with rfl | ⟨_, rfl⟩
  · exact h
  · exact inv_addColumn h

theorem anyInUse_false {iu : List Bool} {bits : List Nat} (h : anyInUse iu bits = .ok false) :
    ∀ b ∈ bits, iu[b]? = some false := by
  induction bits with
  | nil => intro b hb; cases hb
  | cons a as ih =>
    simp only [anyInUse] at h
    split at h
    · cases h
    · cases h
    · rename_i hf
      intro b hb
      simp only [List.mem_cons] at hb
      rcases hb with rfl | hb
      · exact hf
      · exact ih h b hb

/-- `reserve` outside a range: afterwards the requested bits are free (in `s` itself or in a fresh column). -/
theorem reserve_top {q : List Nat} {s s0 : St} (h : reserve q none s = .ok s0) :
    (s0 = s ∨ s0 = addColumn s) ∧ ∀ b ∈ q, s0.inUse[b]? = some false := by
  unfold reserve at h
  obtain ⟨bits, hb, h⟩ := Res.bind_eq_ok.mp h
  obtain ⟨used, hu, h⟩ := Res.bind_eq_ok.mp h
  injection h with h; subst h
  have hbits : bits = q ∧ ∀ b ∈ q, b < s.nq := by
    unfold getBitIndices at hb
    split at hb
    · cases hb
    · rename_i hf
      injection hb with hb
      refine ⟨hb.symm, ?_⟩
      intro b hbq
      have := List.find?_eq_none.mp hf b hbq
      simpa using this
  obtain ⟨rfl, hlt⟩ := hbits
  cases used with
  | true =>
    refine ⟨Or.inr rfl, ?_⟩
    intro b hb
    simp only [if_true, addColumn, List.getElem?_replicate]
    have : b < s.total := by have := hlt b hb; simp [St.total]; omega
    simp [this]
  | false =>
    exact ⟨Or.inl rfl, anyInUse_false hu⟩


/-- `start_range_op` outside a range: a (possibly fresh) column whose rows `first..=last` are free,
with the range `(first, last)` open; all requested bits lie in the range. -/
theorem startRangeOp_top {q : List Nat} {c : Option (List Nat)} {s s1 : St} (hs : Shape s)
    (hr : s.ranges = []) (h : startRangeOp q c s = .ok s1) :
    ∃ bits, getBitIndices s q c = .ok bits ∧
      ((bits = [] ∧ s1 = s) ∨
       ∃ s0 f l, (s0 = s ∨ s0 = addColumn s) ∧ s1 = { s0 with ranges := [(f, l)] } ∧ l < s.total ∧
         (∀ r, f ≤ r → r ≤ l → s0.inUse[r]? = some false) ∧ (∀ b ∈ bits, f ≤ b ∧ b ≤ l)) := by
  unfold startRangeOp at h
  obtain ⟨bits, hb, h⟩ := Res.bind_eq_ok.mp h
  refine ⟨bits, hb, ?_⟩
  split at h
  · injection h with h; exact Or.inl ⟨rfl, h.symm⟩
  · rename_i b bs
    right
    dsimp only at h
    rw [hr] at h
    dsimp only at h
    split at h
    · rename_i hlt
      injection h with h
      have hbounds : ∀ x ∈ b :: bs, bs.foldl min b ≤ x ∧ x ≤ bs.foldl max b := by
        intro x hx
        simp only [List.mem_cons] at hx
        rcases hx with rfl | hx
        · exact ⟨(foldl_min_le bs x).1, (foldl_max_ge bs x).1⟩
        · exact ⟨(foldl_min_le bs b).2 x hx, (foldl_max_ge bs b).2 x hx⟩
      rw [hs.iu] at hlt
      by_cases hc : (sliceIncl s.inUse (bs.foldl min b) (bs.foldl max b)).contains true = true
      · refine ⟨addColumn s, _, _, Or.inr rfl, ?_, hlt, ?_, hbounds⟩
        · rw [← h, if_pos hc]
        · intro r _ h2
          simp only [addColumn, List.getElem?_replicate]
          have : r < s.total := by omega
          simp [this]
      · refine ⟨s, _, _, Or.inl rfl, ?_, hlt, ?_, hbounds⟩
        · rw [← h, if_neg hc]
        · intro r h1 h2
          exact slice_free _ _ _ (by simpa using hc) r h1 h2 (by rw [hs.iu]; omega)
    · cases h


/-- The two situations code can run in: outside any range with the invariant, or inside a range. -/
def Ready (s : St) : Prop := (s.ranges = [] ∧ Inv s) ∨ (s.ranges ≠ [] ∧ s.rcols ≠ [] ∧ Shape s)

theorem Ready.shape {s : St} (h : Ready s) : Shape s := by
  rcases h with ⟨_, h⟩ | ⟨_, _, h⟩
  · exact h.shape
  · exact h

theorem shape_of_fields {s s' : St} (h : Shape s) (hq : s'.nq = s.nq) (hc : s'.nc = s.nc)
    (hr : s'.rcols = s.rcols) (hi : s'.inUse = s.inUse) : Shape s' :=
  ⟨by rw [hr, total_eq hq hc]; exact h.cols, by rw [hi, total_eq hq hc]; exact h.iu⟩

theorem open_range {q : List Nat} {c : Option (List Nat)} {s s1 : St} {bits : List Nat} (hr : Ready s)
    (hb : getBitIndices s q c = .ok bits) (hne : bits ≠ []) (h : startRangeOp q c s = .ok s1) :
    ∃ s0, Pre s s0 ∧ Wrote s0 s1 [] ∧ s1.ranges ≠ [] ∧ s1.rcols ≠ [] ∧ s1.ranges.tail = s.ranges ∧
      s1.controlled = s.controlled ∧ Shape s1 ∧
      (s.ranges = [] → Inv s0 ∧ ∃ f l, (∀ x ∈ bits, f ≤ x ∧ x ≤ l) ∧
        ∀ r, f ≤ r → r ≤ l → s0.inUse[r]? = some false) := by
  rcases hr with ⟨hr0, hinv⟩ | ⟨hrn, hcols, hsh⟩
  · obtain ⟨bits', hb', hcase⟩ := startRangeOp_top hinv.shape hr0 h
    rw [hb] at hb'; injection hb' with hb'; subst hb'
    rcases hcase with ⟨he, _⟩ | ⟨s0, f, l, hs0, hs1, hl, hfree, hin⟩
    · exact absurd he hne
    · have hpre : Pre s s0 := by
        rcases hs0 with rfl | rfl
        · exact Or.inl rfl
        · exact Or.inr ⟨hr0, rfl⟩
      have hinv0 : Inv s0 := hpre.inv hinv
      obtain ⟨x, hx⟩ := List.exists_mem_of_ne_nil bits hne
      have hfx := hfree x (hin x hx).1 (hin x hx).2
      have hcols0 : s0.rcols ≠ [] := by
        intro he
        have := hinv0.start he x false hfx
        cases this
      subst hs1
      refine ⟨s0, hpre, wrote_nil_of hcols0 rfl rfl rfl rfl rfl (fun _ h => h), by simp, hcols0, ?_, ?_,
        shape_of_fields hinv0.shape rfl rfl rfl rfl, ?_⟩
      · simp [hr0]
      · rcases hs0 with rfl | rfl <;> rfl
      · intro _
        exact ⟨hinv0, f, l, hin, hfree⟩
  · refine ⟨s, Or.inl rfl, ?_⟩
    unfold startRangeOp at h
    rw [hb] at h
    simp only [Res.bind_ok] at h
    split at h
    · exact absurd rfl hne
    · split at h
      · rename_i hnil; exact absurd hnil hrn
      · split at h
        · injection h with h; subst h
          rename_i hrs _
          refine ⟨wrote_nil_of hcols rfl rfl rfl rfl rfl (fun _ h => h), by simp, hcols, by simp, rfl,
            shape_of_fields hsh rfl rfl rfl rfl, fun h0 => absurd h0 hrn⟩
        · cases h

/-- Closing the range opened by `open_range`. -/
theorem close_range {s2 s' : St} (hcols : s2.rcols ≠ []) (h : endRangeOp s2 = .ok s') :
    Wrote s2 s' [] ∧ s'.ranges = s2.ranges.tail ∧ s'.controlled = s2.controlled :=
  endRangeOp_wrote hcols h

theorem Wrote.rcols_ne {a b : St} {ws} (h : Wrote a b ws) : b.rcols ≠ [] := by
  obtain ⟨col, rest, _, hb, _⟩ := h.cols
  rw [hb]; simp

theorem Wrote.shape {a b : St} {ws} (h : Wrote a b ws) (hs : Shape a) : Shape b := by
  obtain ⟨col, rest, ha, hb, _⟩ := h.cols
  have ht : b.total = a.total := total_eq h.nq h.nc
  refine ⟨?_, by rw [h.iuLen, ht]; exact hs.iu⟩
  intro c hc
  rw [hb] at hc
  simp only [List.mem_cons] at hc
  rw [ht]
  rcases hc with rfl | hc
  · rw [applyWrites_length]; exact hs.cols col (by rw [ha]; simp)
  · exact hs.cols c (by rw [ha]; simp [hc])


/-! ## Gates that are drawn in one column -/

def ctrlOff (ctl t : Nat) (ts : List Nat) : Int :=
  if ts.foldl min t > ctl ∧ ts.foldl max t > ctl then ((ts.foldl min t - ctl : Nat) : Int)
  else ((ts.foldl max t : Nat) : Int) - (ctl : Int)

/-- What a one-column gate writes (row, symbol), in the order it writes. -/
def writes : Gate → List Nat → Bool → List (Nat × Sym)
  | .box l _, b :: _, _ => [(b, .gate l none)]
  | .x, b :: _, ctl => [(b, if ctl then .targ else .gate "X" none)]
  | .z, b :: _, ctl => [(b, if ctl then .control else .gate "Z" none)]
  | .swap, x0 :: x1 :: _, _ =>
    [((if x1 < x0 then x1 else x0), .qswap (some (((if x1 < x0 then x0 else x1) - (if x1 < x0 then x1 else x0) : Nat) : Int))),
     ((if x1 < x0 then x0 else x1), .qswap none)]
  | .c g, ctl :: t :: ts, _ => (ctl, .ctrl (ctrlOff ctl t ts)) :: writes g (t :: ts) true
  | _, _, _ => []

/-- One-qubit boxes, X, Z, Swap and controlled versions of these (all library gates except I). -/
def simple : Gate → Bool
  | .box _ n => n == 1
  | .x | .z | .swap => true
  | .c g => simple g
  | _ => false

theorem getBitIndices_none {s : St} {q bits : List Nat} (h : getBitIndices s q none = .ok bits) : bits = q := by
  unfold getBitIndices at h
  split at h
  · cases h
  · injection h with h; exact h.symm

theorem getBitIndices_none_ok_of_start {q : List Nat} {s s1 : St} (h : startRangeOp q none s = .ok s1) :
    getBitIndices s q none = .ok q := by
  unfold startRangeOp at h
  obtain ⟨bits, hb, _⟩ := Res.bind_eq_ok.mp h
  rw [hb, getBitIndices_none hb]

theorem checkNrBits_ok {g : Gate} {bits : List Nat} {u : Unit} (h : checkNrBits g bits = .ok u) :
    bits.length = g.nbits := by
  unfold checkNrBits at h
  split at h
  · cases h
  · rename_i hne; simp at hne; exact hne.symm

/-- Body shared by all range gates: from a `Ready` state, open the range over `q`, run `body`
inside it, close it. -/
theorem range_gate {q : List Nat} {s s' : St} {ws : List (Nat × Sym)} {body : St → Res St} (hq : q ≠ [])
    (hr : Ready s)
    (hbody : ∀ s1 s2, s1.ranges ≠ [] → s1.rcols ≠ [] → Shape s1 → s1.controlled = s.controlled → body s1 = .ok s2 →
      Wrote s1 s2 ws ∧ s2.ranges = s1.ranges ∧ s2.controlled = s1.controlled)
    (hrows : ∀ p ∈ ws, ∃ lo ∈ q, ∃ hi ∈ q, lo ≤ p.1 ∧ p.1 ≤ hi)
    (h : (startRangeOp q none s >>== fun s1 => body s1 >>== endRangeOp) = .ok s') :
    ∃ s0, Pre s s0 ∧ Wrote s0 s' ws ∧ s'.ranges = s.ranges ∧ s'.controlled = s.controlled ∧
      (s.ranges = [] → Inv s0 ∧ ∀ p ∈ ws, s0.inUse[p.1]? = some false) := by
  obtain ⟨s1, h1, h⟩ := Res.bind_eq_ok.mp h
  obtain ⟨s2, h2, h3⟩ := Res.bind_eq_ok.mp h
  obtain ⟨s0, hpre, hw0, hrn, hcn, htail, hctl, hsh, hfree⟩ :=
    open_range hr (getBitIndices_none_ok_of_start h1) hq h1
  obtain ⟨hw1, hr2, hc2⟩ := hbody s1 s2 hrn hcn hsh hctl h2
  obtain ⟨hw2, hr3, hc3⟩ := close_range hw1.rcols_ne h3
  refine ⟨s0, hpre, ?_, ?_, ?_, ?_⟩
  · have := (hw0.trans hw1).trans hw2
    simpa using this
  · rw [hr3, hr2, htail]
  · rw [hc3, hc2, hctl]
  · intro h0
    obtain ⟨hi, f, l, hin, hf⟩ := hfree h0
    exact ⟨hi, fun p hp => by
      obtain ⟨lo, hlo, hi', hhi, h1, h2⟩ := hrows p hp
      exact hf p.1 (Nat.le_trans (hin lo hlo).1 h1) (Nat.le_trans h2 (hin hi' hhi).2)⟩


theorem bind_assoc {α β γ} (r : Res α) (f : α → Res β) (g : β → Res γ) :
    (r >>== f) >>== g = r >>== fun a => f a >>== g := by
  cases r <;> rfl

theorem setField_ready {b : Nat} {y : Sym} {s s' : St} (hr : Ready s) (h : setField b y s = .ok s') :
    ∃ s0, Pre s s0 ∧ Wrote s0 s' [(b, y)] ∧ s'.ranges = s.ranges ∧ s'.controlled = s.controlled ∧
      (s.ranges = [] → Inv s0 ∧ s0.inUse[b]? = some false) := by
  rcases hr with ⟨hr0, hinv⟩ | ⟨hrn, _, _⟩
  · unfold setField at h
    simp only [hr0, List.isEmpty_nil, if_true] at h
    obtain ⟨s0, h0, h⟩ := Res.bind_eq_ok.mp h
    obtain ⟨hs0, hfree⟩ := reserve_top h0
    have hpre : Pre s s0 := by
      rcases hs0 with rfl | rfl
      · exact Or.inl rfl
      · exact Or.inr ⟨hr0, rfl⟩
    have hfb := hfree b (by simp)
    refine ⟨s0, hpre, ?_⟩
    have hr00 : s0.ranges = s.ranges := by rcases hs0 with rfl | rfl <;> rfl
    have hc00 : s0.controlled = s.controlled := by rcases hs0 with rfl | rfl <;> rfl
    split at h
    · cases h
    · rename_i col rest hc
      split at h
      · rename_i hb
        injection h with h; subst h
        refine ⟨⟨⟨col, rest, hc, rfl, ?_⟩, rfl, rfl, rfl, by simp, ?_⟩, hr00, hc00, fun _ => ⟨hpre.inv hinv, hfb⟩⟩
        · intro p hp; simp at hp; subst hp; exact hb.1
        · intro r hr'
          simp only [List.getElem?_set] at hr'
          split at hr'
          · split at hr' <;> simp at hr'
          · rename_i hne
            exact ⟨hr', by intro p hp; simp at hp; subst hp; exact hne⟩
      · cases h
  · obtain ⟨hw, h1, h2⟩ := setField_inRange hrn h
    exact ⟨s, Or.inl rfl, hw, h1, h2, fun h0 => absurd h0 hrn⟩

theorem writes_rows : ∀ (g : Gate) (bits : List Nat) (ctl : Bool), ∀ p ∈ writes g bits ctl, p.1 ∈ bits
  | .box l n, bits, ctl => by
    cases bits with
    | nil => simp [writes]
    | cons b bs => simp [writes]
  | .x, bits, ctl => by
    cases bits with
    | nil => simp [writes]
    | cons b bs => simp [writes]
  | .z, bits, ctl => by
    cases bits with
    | nil => simp [writes]
    | cons b bs => simp [writes]
  | .i, bits, ctl => by simp [writes]
  | .swap, bits, ctl => by
    match bits with
    | [] => simp [writes]
    | [_] => simp [writes]
    | x0 :: x1 :: rest =>
      simp only [writes, List.mem_cons, List.not_mem_nil, or_false]
      intro p hp
      rcases hp with rfl | rfl <;> (dsimp only; split <;> simp)
  | .c g, bits, ctl => by
    match bits with
    | [] => simp [writes]
    | [_] => simp [writes]
    | c0 :: t :: ts =>
      simp only [writes, List.mem_cons]
      intro p hp
      rcases hp with rfl | hp
      · simp
      · have := writes_rows g (t :: ts) true p hp
        simp only [List.mem_cons] at this
        exact Or.inr this
  | .kron a b, bits, ctl => by simp [writes]
  | .comp _ _ _, bits, ctl => by simp [writes]
  | .loop _ _, bits, ctl => by simp [writes]

theorem wrote_ctl {s : St} (hne : s.rcols ≠ []) (b : Bool) : Wrote s { s with controlled := b } [] :=
  wrote_nil_of hne rfl rfl rfl rfl rfl (fun _ h => h)

theorem pre_inRange {s s0 : St} (hp : Pre s s0) (hr : s.ranges ≠ []) : s0 = s := by
  rcases hp with rfl | ⟨h0, _⟩
  · rfl
  · exact absurd h0 hr


/-- What a one-column gate does to the state, outside or inside a range. -/
def SimpleSpec (g : Gate) (bits : List Nat) (s s' : St) : Prop :=
  ∃ s0, Pre s s0 ∧ Wrote s0 s' (writes g bits s.controlled) ∧ s'.ranges = s.ranges ∧
    s'.controlled = s.controlled ∧
    (s.ranges = [] → Inv s0 ∧ ∀ p ∈ writes g bits s.controlled, s0.inUse[p.1]? = some false)

theorem simple_spec : ∀ (g : Gate), simple g = true → ∀ (bits : List Nat) (s s' : St), Ready s →
    latex g bits s = .ok s' → SimpleSpec g bits s s'
  | .box l n, hs, bits, s, s', hr, h => by
    simp only [simple, beq_iff_eq] at hs; subst hs
    simp only [latex] at h
    obtain ⟨u, hu, h⟩ := Res.bind_eq_ok.mp h
    have hlen := checkNrBits_ok hu
    match bits, hlen with
    | [b], _ =>
      have hg : getRanges [b] = some [(b, b)] := by simp [getRanges, sortNat, insertNat, rangesGo]
      simp only [addBlockGate, hg] at h
      have h' : (startRangeOp [b] none s >>== fun s1 =>
          (fun s1 => drawRange b b l none s1 >>== fun s => blockRest l [] b s) s1 >>== endRangeOp) = .ok s' := by
        simpa [bind_assoc] using h
      refine range_gate (ws := writes (.box l 1) [b] s.controlled) (by simp) hr ?_ ?_ h'
      · intro s1 s2 hrn hcn hsh _ hb
        simp only [drawRange, if_true, blockRest] at hb
        obtain ⟨s2', hb1, hb2⟩ := Res.bind_eq_ok.mp hb
        injection hb2 with hb2; subst hb2
        obtain ⟨hw, h1, h2⟩ := setField_inRange hrn hb1
        exact ⟨by simpa [writes] using hw, h1, h2⟩
      · intro p hp; exact ⟨p.1, writes_rows _ _ _ p hp, p.1, writes_rows _ _ _ p hp, Nat.le_refl _, Nat.le_refl _⟩
  | .x, _, bits, s, s', hr, h => by
    simp only [latex] at h
    obtain ⟨u, hu, h⟩ := Res.bind_eq_ok.mp h
    split at h
    · rename_i b rest
      obtain ⟨s0, hp, hw, h1, h2, h3⟩ := setField_ready hr h
      exact ⟨s0, hp, by simpa [writes] using hw, h1, h2, fun h0 => ⟨(h3 h0).1, by simpa [writes] using (h3 h0).2⟩⟩
    · cases h
  | .z, _, bits, s, s', hr, h => by
    simp only [latex] at h
    obtain ⟨u, hu, h⟩ := Res.bind_eq_ok.mp h
    split at h
    · rename_i b rest
      obtain ⟨s0, hp, hw, h1, h2, h3⟩ := setField_ready hr h
      exact ⟨s0, hp, by simpa [writes] using hw, h1, h2, fun h0 => ⟨(h3 h0).1, by simpa [writes] using (h3 h0).2⟩⟩
    · cases h
  | .swap, _, bits, s, s', hr, h => by
    simp only [latex] at h
    obtain ⟨u, hu, h⟩ := Res.bind_eq_ok.mp h
    cases bits with
    | nil => cases h
    | cons x0 r =>
      cases r with
      | nil => cases h
      | cons x1 rest =>
        dsimp only at h
        have h' : (startRangeOp (x0 :: x1 :: rest) none s >>== fun s1 =>
            (fun s1 => setField (if x1 < x0 then x1 else x0)
                (.qswap (some (((if x1 < x0 then x0 else x1) - (if x1 < x0 then x1 else x0) : Nat) : Int))) s1 >>== fun s =>
              setField (if x1 < x0 then x0 else x1) (.qswap none) s) s1 >>== endRangeOp) = .ok s' := by
          simpa [bind_assoc] using h
        refine range_gate (ws := writes .swap (x0 :: x1 :: rest) s.controlled) (by simp) hr ?_ ?_ h'
        · intro s1 s2 hrn hcn hsh _ hb
          obtain ⟨s1', hb1, hb2⟩ := Res.bind_eq_ok.mp hb
          obtain ⟨hw1, hr1, hc1⟩ := setField_inRange hrn hb1
          obtain ⟨hw2, hr2, hc2⟩ := setField_inRange (by rw [hr1]; exact hrn) hb2
          exact ⟨by simpa [writes] using hw1.trans hw2, hr2.trans hr1, hc2.trans hc1⟩
        · intro p hp; exact ⟨p.1, writes_rows _ _ _ p hp, p.1, writes_rows _ _ _ p hp, Nat.le_refl _, Nat.le_refl _⟩
  | .c g, hs, bits, s, s', hr, h => by
    simp only [simple] at hs
    simp only [latex] at h
    obtain ⟨u, hu, h⟩ := Res.bind_eq_ok.mp h
    match bits, h with
    | [], h =>
      obtain ⟨s1, _, h⟩ := Res.bind_eq_ok.mp h
      cases h
    | [_], h =>
      obtain ⟨s1, _, h⟩ := Res.bind_eq_ok.mp h
      cases h
    | ctl :: t :: ts, h =>
      dsimp only at h
      have h' : (startRangeOp (ctl :: t :: ts) none s >>== fun s1 =>
          (fun s1 =>
            (if ts.foldl min t > ctl ∧ ts.foldl max t > ctl then
                setField ctl (.ctrl ((ts.foldl min t - ctl : Nat) : Int)) s1
              else if ts.foldl min t < ctl ∧ ts.foldl max t < ctl then
                setField ctl (.ctrl (((ts.foldl max t : Nat) : Int) - (ctl : Int))) s1
              else .panic) >>== fun s2 =>
            latex g (t :: ts) { s2 with controlled := true } >>== fun s3 =>
            .ok { s3 with controlled := s2.controlled }) s1 >>== endRangeOp) = .ok s' := by
        simpa [bind_assoc] using h
      refine range_gate (ws := writes (.c g) (ctl :: t :: ts) s.controlled) (by simp) hr ?_ ?_ h'
      · intro s1 s2 hrn hcn hsh hctl hb
        obtain ⟨sa, hb1, hb⟩ := Res.bind_eq_ok.mp hb
        obtain ⟨sb, hb2, hb3⟩ := Res.bind_eq_ok.mp hb
        injection hb3 with hb3; subst hb3
        have hsf : setField ctl (.ctrl (ctrlOff ctl t ts)) s1 = .ok sa := by
          unfold ctrlOff
          split at hb1
          · rename_i hc; rw [if_pos hc]; exact hb1
          · rename_i hc
            rw [if_neg hc]
            split at hb1
            · exact hb1
            · cases hb1
        obtain ⟨hw1, hr1, hc1⟩ := setField_inRange hrn hsf
        have hrdy : Ready { sa with controlled := true } :=
          Or.inr ⟨by show sa.ranges ≠ []; rw [hr1]; exact hrn, hw1.rcols_ne,
            shape_of_fields (hw1.shape hsh) rfl rfl rfl rfl⟩
        obtain ⟨s0, hp0, hw2, hr2, hc2, _⟩ := simple_spec g hs (t :: ts) _ sb hrdy hb2
        have := pre_inRange hp0 (by show sa.ranges ≠ []; rw [hr1]; exact hrn)
        subst this
        have hwa := (hw1.trans (wrote_ctl hw1.rcols_ne true)).trans hw2
        have hwb := hwa.trans (wrote_ctl hw2.rcols_ne sa.controlled)
        refine ⟨by simpa [writes] using hwb, ?_, ?_⟩
        · show sb.ranges = s1.ranges
          rw [hr2]; exact hr1
        · show sa.controlled = s1.controlled
          exact hc1
      · intro p hp; exact ⟨p.1, writes_rows _ _ _ p hp, p.1, writes_rows _ _ _ p hp, Nat.le_refl _, Nat.le_refl _⟩


/-- Operand list fits the gate and every control lies outside the span of its targets. -/
def goodPlace : Gate → List Nat → Bool
  | .c g, ctl :: t :: ts =>
    ((ts.foldl min t > ctl && ts.foldl max t > ctl) || (ts.foldl min t < ctl && ts.foldl max t < ctl)) &&
      goodPlace g (t :: ts)
  | .swap, [_, _] => true
  | .box _ _, [_] => true
  | .x, [_] => true
  | .z, [_] => true
  | _, _ => false

theorem writes_cover : ∀ (g : Gate) (bits : List Nat) (ctl : Bool), simple g = true → goodPlace g bits = true →
    ∀ b ∈ bits, ∃ p ∈ writes g bits ctl, p.1 = b ∧ p.2.isGatePart = true
  | .box l n, [b], ctl, _, _ => by simp [writes, Sym.isGatePart]
  | .x, [b], ctl, _, _ => by cases ctl <;> simp [writes, Sym.isGatePart]
  | .z, [b], ctl, _, _ => by cases ctl <;> simp [writes, Sym.isGatePart]
  | .swap, [x0, x1], ctl, _, _ => by
    intro b hb
    simp only [List.mem_cons, List.not_mem_nil, or_false] at hb
    simp only [writes, List.mem_cons, List.not_mem_nil, or_false]
    by_cases h : x1 < x0
    · rcases hb with rfl | rfl
      · exact ⟨_, Or.inr rfl, by simp [h], by simp [Sym.isGatePart]⟩
      · exact ⟨_, Or.inl rfl, by simp [h], by simp [Sym.isGatePart]⟩
    · rcases hb with rfl | rfl
      · exact ⟨_, Or.inl rfl, by simp [h], by simp [Sym.isGatePart]⟩
      · exact ⟨_, Or.inr rfl, by simp [h], by simp [Sym.isGatePart]⟩
  | .c g, c0 :: t :: ts, ctl, hs, hg => by
    simp only [simple] at hs
    simp only [goodPlace, Bool.and_eq_true] at hg
    intro b hb
    simp only [List.mem_cons] at hb
    simp only [writes, List.mem_cons]
    rcases hb with rfl | hb
    · exact ⟨_, Or.inl rfl, rfl, by simp [Sym.isGatePart]⟩
    · obtain ⟨p, hp, h1, h2⟩ := writes_cover g (t :: ts) true hs hg.2 b (by simpa using hb)
      exact ⟨p, Or.inr hp, h1, h2⟩
  | .box _ _, [], _, _, hg | .box _ _, _ :: _ :: _, _, _, hg => by simp [goodPlace] at hg
  | .x, [], _, _, hg | .x, _ :: _ :: _, _, _, hg => by simp [goodPlace] at hg
  | .z, [], _, _, hg | .z, _ :: _ :: _, _, _, hg => by simp [goodPlace] at hg
  | .swap, [], _, _, hg | .swap, [_], _, _, hg | .swap, _ :: _ :: _ :: _, _, _, hg => by simp [goodPlace] at hg
  | .c _, [], _, _, hg | .c _, [_], _, _, hg => by simp [goodPlace] at hg
  | .i, _, _, hs, _ | .kron _ _, _, _, hs, _ | .comp _ _ _, _, _, hs, _ | .loop _ _, _, _, hs, _ => by
    simp [simple] at hs

theorem writes_closed : ∀ (g : Gate) (bits : List Nat) (ctl : Bool), simple g = true → goodPlace g bits = true →
    ∀ p ∈ writes g bits ctl, ∀ l ∈ p.2.lines,
      ∃ q ∈ writes g bits ctl, (p.1 : Int) + l.1 = (q.1 : Int) ∧ Sym.partnerOk l.2 q.2 = true
  | .box l n, [b], ctl, _, _ => by simp [writes, Sym.lines]
  | .x, [b], ctl, _, _ => by cases ctl <;> simp [writes, Sym.lines]
  | .z, [b], ctl, _, _ => by cases ctl <;> simp [writes, Sym.lines]
  | .swap, [x0, x1], ctl, _, _ => by
    intro p hp l hl
    simp only [writes, List.mem_cons, List.not_mem_nil, or_false] at hp
    rcases hp with rfl | rfl
    · simp only [Sym.lines, List.mem_cons, List.not_mem_nil, or_false] at hl
      subst hl
      refine ⟨_, by simp only [writes, List.mem_cons, List.not_mem_nil, or_false]; exact Or.inr rfl, ?_, by simp [Sym.partnerOk, Sym.isGatePart]⟩
      by_cases h : x1 < x0 <;> simp [h] <;> omega
    · simp [Sym.lines] at hl
  | .c g, c0 :: t :: ts, ctl, hs, hg => by
    simp only [simple] at hs
    simp only [goodPlace, Bool.and_eq_true, Bool.or_eq_true, decide_eq_true_eq] at hg
    intro p hp l hl
    simp only [writes, List.mem_cons] at hp
    rcases hp with rfl | hp
    · simp only [Sym.lines, List.mem_cons, List.not_mem_nil, or_false] at hl
      subst hl
      -- the row the control line ends on
      have hrow : ∃ m ∈ t :: ts, (c0 : Int) + ctrlOff c0 t ts = (m : Int) := by
        unfold ctrlOff
        by_cases hc : ts.foldl min t > c0 ∧ ts.foldl max t > c0
        · refine ⟨ts.foldl min t, foldl_min_mem ts t, ?_⟩
          rw [if_pos hc]; omega
        · refine ⟨ts.foldl max t, foldl_max_mem ts t, ?_⟩
          rw [if_neg hc]; omega
      obtain ⟨m, hm, hme⟩ := hrow
      obtain ⟨q, hq, hq1, hq2⟩ := writes_cover g (t :: ts) true hs hg.2 m hm
      refine ⟨q, ?_, ?_, ?_⟩
      · simp only [writes, List.mem_cons]; exact Or.inr hq
      · rw [hq1]; exact hme
      · simpa [Sym.partnerOk] using hq2
    · obtain ⟨q, hq, h1, h2⟩ := writes_closed g (t :: ts) true hs hg.2 p hp l hl
      exact ⟨q, by simp only [writes, List.mem_cons]; exact Or.inr hq, h1, h2⟩
  | .box _ _, [], _, _, hg | .box _ _, _ :: _ :: _, _, _, hg => by simp [goodPlace] at hg
  | .x, [], _, _, hg | .x, _ :: _ :: _, _, _, hg => by simp [goodPlace] at hg
  | .z, [], _, _, hg | .z, _ :: _ :: _, _, _, hg => by simp [goodPlace] at hg
  | .swap, [], _, _, hg | .swap, [_], _, _, hg | .swap, _ :: _ :: _ :: _, _, _, hg => by simp [goodPlace] at hg
  | .c _, [], _, _, hg | .c _, [_], _, _, hg => by simp [goodPlace] at hg
  | .i, _, _, hs, _ | .kron _ _, _, _, hs, _ | .comp _ _ _, _, _, hs, _ | .loop _ _, _, _, hs, _ => by
    simp [simple] at hs

/-- Rows written are distinct when the operands are. -/
theorem writes_nodup : ∀ (g : Gate) (bits : List Nat) (ctl : Bool), bits.Nodup →
    ((writes g bits ctl).map (·.1)).Nodup
  | .box l n, bits, ctl, _ => by cases bits <;> simp [writes]
  | .x, bits, ctl, _ => by cases bits <;> simp [writes]
  | .z, bits, ctl, _ => by cases bits <;> simp [writes]
  | .i, bits, ctl, _ => by simp [writes]
  | .swap, bits, ctl, hn => by
    match bits, hn with
    | [], _ => simp [writes]
    | [_], _ => simp [writes]
    | x0 :: x1 :: rest, hn =>
      have : x0 ≠ x1 := by
        intro e; subst e; simp at hn
      simp only [writes, List.map_cons, List.map_nil, List.nodup_cons, List.mem_cons, List.not_mem_nil,
        or_false, not_false_eq_true, List.nodup_nil, and_true]
      by_cases h : x1 < x0 <;> simp [h] <;> omega
  | .c g, bits, ctl, hn => by
    match bits, hn with
    | [], _ => simp [writes]
    | [_], _ => simp [writes]
    | c0 :: t :: ts, hn =>
      simp only [writes, List.map_cons, List.nodup_cons]
      have hn' := List.nodup_cons.mp hn
      refine ⟨?_, writes_nodup g (t :: ts) true hn'.2⟩
      intro hmem
      obtain ⟨p, hp, hp1⟩ := List.mem_map.mp hmem
      have := writes_rows g (t :: ts) true p hp
      rw [hp1] at this
      exact hn'.1 this
  | .kron _ _, bits, ctl, _ => by simp [writes]
  | .comp _ _ _, bits, ctl, _ => by simp [writes]
  | .loop _ _, bits, ctl, _ => by simp [writes]


/-- **Frame step.** Writing a closed group of symbols into free fields of the last column of a state
that satisfies the invariant gives a state that satisfies it (once the range is closed). -/
theorem inv_of_wrote {s0 s' : St} {ws : List (Nat × Sym)} (hinv : Inv s0) (hw : Wrote s0 s' ws)
    (hr : s'.ranges = []) (hfree : ∀ p ∈ ws, s0.inUse[p.1]? = some false)
    (hnd : (ws.map (·.1)).Nodup)
    (hclosed : ∀ p ∈ ws, ∀ l ∈ p.2.lines, ∃ q ∈ ws, (p.1 : Int) + l.1 = (q.1 : Int) ∧ Sym.partnerOk l.2 q.2 = true) :
    Inv s' := by
  obtain ⟨col, rest, h0, h1, hlt⟩ := hw.cols
  have hempty : ∀ p ∈ ws, symAt col p.1 = none := fun p hp =>
    symAt_none_of_empty (hinv.free col rest h0 p.1 (hfree p hp))
  refine ⟨hw.shape hinv.shape, hr, ?_, ?_, ?_⟩
  · intro col' rest' hc r hrf
    rw [h1] at hc; injection hc with hc _; subst hc
    obtain ⟨hf0, hne⟩ := hw.iu r hrf
    rw [applyWrites_get_other _ ws col r hne]
    exact hinv.free col rest h0 r hf0
  · intro he; rw [h1] at he; cases he
  · intro c hc
    rw [h1] at hc
    simp only [List.mem_cons] at hc
    rcases hc with rfl | hc
    · exact colOK_applyWrites _ ws col (hinv.ok col (by rw [h0]; simp)) hnd hlt hempty hclosed
    · exact hinv.ok c (by rw [h0]; simp [hc])

theorem ready_top {s : St} (h : Inv s) : Ready s := Or.inl ⟨h.noRange, h⟩

/-- A one-column gate outside a range keeps the invariant. -/
theorem inv_simple {g : Gate} {bits : List Nat} {s s' : St} (hinv : Inv s) (hs : simple g = true)
    (hg : goodPlace g bits = true) (hn : bits.Nodup) (h : latex g bits s = .ok s') : Inv s' := by
  obtain ⟨s0, _, hw, hr, _, hfree⟩ := simple_spec g hs bits s s' (ready_top hinv) h
  obtain ⟨hi0, hf⟩ := hfree hinv.noRange
  exact inv_of_wrote hi0 hw (by rw [hr]; exact hinv.noRange) hf (writes_nodup g bits _ hn)
    (writes_closed g bits _ hs hg)

/-- A symbol without lines written outside a range keeps the invariant. -/
theorem inv_setField {b : Nat} {y : Sym} {s s' : St} (hinv : Inv s) (hy : y.lines = [])
    (h : setField b y s = .ok s') : Inv s' := by
  obtain ⟨s0, _, hw, hr, _, hfree⟩ := setField_ready (ready_top hinv) h
  obtain ⟨hi0, hf⟩ := hfree hinv.noRange
  refine inv_of_wrote hi0 hw (by rw [hr]; exact hinv.noRange) ?_ (by simp) ?_
  · intro p hp; simp at hp; subst hp; exact hf
  · intro p hp l hl; simp at hp; subst hp; rw [hy] at hl; cases hl

theorem inv_reserveAll {s : St} (h : Inv s) : Inv (reserveAll s) := by
  unfold reserveAll; split
  · exact inv_addColumn h
  · exact h

theorem inv_of_fields {s s' : St} (h : Inv s) (hq : s'.nq = s.nq) (hc : s'.nc = s.nc)
    (hr : s'.rcols = s.rcols) (hi : s'.inUse = s.inUse) (hg : s'.ranges = s.ranges) : Inv s' :=
  ⟨shape_of_fields h.shape hq hc hr hi, by rw [hg]; exact h.noRange,
   by rw [hr, hi]; exact h.free, by rw [hr, hi]; exact h.start, by rw [hr]; exact h.ok⟩

theorem inv_startLoop {n : Nat} {s s' : St} (hinv : Inv s) (h : startLoop n s = .ok s') : Inv s' := by
  unfold startLoop at h
  dsimp only at h
  split at h
  · cases h
  · injection h with h; subst h
    exact inv_of_fields (inv_reserveAll hinv) rfl rfl rfl rfl rfl

theorem inv_endLoop {s s' : St} (hinv : Inv s) (h : endLoop s = .ok s') : Inv s' := by
  unfold endLoop at h
  split at h
  · cases h
  · split at h
    · cases h
    · injection h with h; subst h
      exact inv_reserveAll (inv_of_fields hinv rfl rfl rfl rfl rfl)

theorem inv_addCds {b c : Nat} {l : String} {s s' : St} (hinv : Inv s) (h : addCds b c l s = .ok s') : Inv s' := by
  unfold addCds at h
  obtain ⟨s1, h1, h⟩ := Res.bind_eq_ok.mp h
  injection h with h; subst h
  exact inv_reserveAll (inv_setField (inv_reserveAll hinv) rfl h1)

theorem inv_barrierLoop {rs : List (Nat × Nat)} {s s' : St} (hinv : Inv s) (h : barrierLoop rs s = .ok s') :
    Inv s' := by
  induction rs generalizing s with
  | nil => simp [barrierLoop] at h; subst h; exact hinv
  | cons x rest ih =>
    obtain ⟨f, l⟩ := x
    simp only [barrierLoop] at h
    obtain ⟨s1, h1, h⟩ := Res.bind_eq_ok.mp h
    exact ih (inv_setField hinv rfl h1) h

theorem inv_setBarrier {q : List Nat} {s s' : St} (hinv : Inv s) (h : setBarrier q s = .ok s') : Inv s' := by
  unfold setBarrier at h
  split at h
  · cases h
  · split at h
    · cases h; exact hinv
    · split at h
      · cases h
      · exact inv_barrierLoop (inv_addColumn hinv) h


/-- As `range_gate`, for a range over quantum and classical bits. -/
theorem range_op {q : List Nat} {c : Option (List Nat)} {bits : List Nat} {s s' : St} {ws : List (Nat × Sym)}
    {body : St → Res St} (hb : getBitIndices s q c = .ok bits) (hq : bits ≠ []) (hr : Ready s)
    (hbody : ∀ s1 s2, s1.ranges ≠ [] → s1.rcols ≠ [] → Shape s1 → s1.controlled = s.controlled →
      s1.nq = s.nq → s1.nc = s.nc → body s1 = .ok s2 →
      Wrote s1 s2 ws ∧ s2.ranges = s1.ranges ∧ s2.controlled = s1.controlled)
    (hrows : ∀ p ∈ ws, ∃ lo ∈ bits, ∃ hi ∈ bits, lo ≤ p.1 ∧ p.1 ≤ hi)
    (h : (startRangeOp q c s >>== fun s1 => body s1 >>== endRangeOp) = .ok s') :
    ∃ s0, Pre s s0 ∧ Wrote s0 s' ws ∧ s'.ranges = s.ranges ∧ s'.controlled = s.controlled ∧
      (s.ranges = [] → Inv s0 ∧ ∀ p ∈ ws, s0.inUse[p.1]? = some false) := by
  obtain ⟨s1, h1, h⟩ := Res.bind_eq_ok.mp h
  obtain ⟨s2, h2, h3⟩ := Res.bind_eq_ok.mp h
  obtain ⟨s0, hpre, hw0, hrn, hcn, htail, hctl, hsh, hfree⟩ := open_range hr hb hq h1
  have hq1 : s1.nq = s.nq := by
    rw [hw0.nq]; rcases hpre with rfl | ⟨_, rfl⟩ <;> rfl
  have hc1 : s1.nc = s.nc := by
    rw [hw0.nc]; rcases hpre with rfl | ⟨_, rfl⟩ <;> rfl
  obtain ⟨hw1, hr2, hc2⟩ := hbody s1 s2 hrn hcn hsh hctl hq1 hc1 h2
  obtain ⟨hw2, hr3, hc3⟩ := close_range hw1.rcols_ne h3
  refine ⟨s0, hpre, ?_, ?_, ?_, ?_⟩
  · have := (hw0.trans hw1).trans hw2
    simpa using this
  · rw [hr3, hr2, htail]
  · rw [hc3, hc2, hctl]
  · intro h0
    obtain ⟨hi, f, l, hin, hf⟩ := hfree h0
    exact ⟨hi, fun p hp => by
      obtain ⟨lo, hlo, hi', hhi, h1, h2⟩ := hrows p hp
      exact hf p.1 (Nat.le_trans (hin lo hlo).1 h1) (Nat.le_trans h2 (hin hi' hhi).2)⟩

theorem getBitIndices_meas {s : St} {q c : Nat} {bits : List Nat}
    (h : getBitIndices s [q] (some [c]) = .ok bits) : bits = [q, s.nq + c] ∧ q < s.nq := by
  unfold getBitIndices at h
  split at h
  · cases h
  · rename_i hf
    have hq : q < s.nq := by
      have := List.find?_eq_none.mp hf q (by simp)
      simpa using this
    dsimp only at h
    split at h
    · cases h
    · injection h with h; exact ⟨by rw [← h]; simp, hq⟩

theorem inv_setMeasurement {q c : Nat} {b : Option String} {s s' : St} (hinv : Inv s)
    (h : setMeasurement q c b s = .ok s') : Inv s' := by
  unfold setMeasurement at h
  dsimp only at h
  obtain ⟨sx, hx, _⟩ := Res.bind_eq_ok.mp h
  have hbx : ∃ bits, getBitIndices s [q] (some [c]) = .ok bits := by
    unfold startRangeOp at hx
    obtain ⟨bits, hb, _⟩ := Res.bind_eq_ok.mp hx
    exact ⟨bits, hb⟩
  obtain ⟨bits, hb⟩ := hbx
  obtain ⟨hbits, hq⟩ := getBitIndices_meas hb
  subst hbits
  have h' : (startRangeOp [q] (some [c]) s >>== fun s1 =>
      (fun s1 => setField q (.meter b) s1 >>== fun s2 =>
        setField (s.nq + c) (.cwx ((q : Int) - ((s.nq + c : Nat) : Int))) s2) s1 >>== endRangeOp) = .ok s' := by
    simpa [bind_assoc] using h
  obtain ⟨s0, _, hw, hr, _, hfree⟩ := range_op (ws := [(q, .meter b), (s.nq + c, .cwx ((q : Int) - ((s.nq + c : Nat) : Int)))])
    hb (by simp) (ready_top hinv) (by
      intro s1 s2 hrn _ _ _ _ _ hbody
      obtain ⟨sa, ha, hb2⟩ := Res.bind_eq_ok.mp hbody
      obtain ⟨hw1, hr1, hc1⟩ := setField_inRange hrn ha
      obtain ⟨hw2, hr2, hc2⟩ := setField_inRange (by rw [hr1]; exact hrn) hb2
      exact ⟨by simpa using hw1.trans hw2, hr2.trans hr1, hc2.trans hc1⟩)
    (by intro p hp; simp at hp; rcases hp with rfl | rfl
        · exact ⟨q, by simp, q, by simp, Nat.le_refl _, Nat.le_refl _⟩
        · exact ⟨s.nq + c, by simp, s.nq + c, by simp, Nat.le_refl _, Nat.le_refl _⟩) h'
  obtain ⟨hi0, hf⟩ := hfree hinv.noRange
  refine inv_of_wrote hi0 hw (by rw [hr]; exact hinv.noRange) hf ?_ ?_
  · simp; omega
  · intro p hp l hl
    simp only [List.mem_cons, List.not_mem_nil, or_false] at hp
    rcases hp with rfl | rfl
    · simp [Sym.lines] at hl
    · simp only [Sym.lines, List.mem_cons, List.not_mem_nil, or_false] at hl
      subst hl
      exact ⟨(q, .meter b), by simp, by simp; omega, by simp [Sym.partnerOk]⟩

theorem inv_measureAllLoop {b : Option String} {cs : List Nat} {q : Nat} {s s' : St} (hinv : Inv s)
    (h : measureAllLoop b cs q s = .ok s') : Inv s' := by
  induction cs generalizing q s with
  | nil => simp [measureAllLoop] at h; subst h; exact hinv
  | cons c rest ih =>
    simp only [measureAllLoop] at h
    obtain ⟨s1, h1, h⟩ := Res.bind_eq_ok.mp h
    exact ih (inv_setMeasurement hinv h1) h

/-! ## Multi-qubit block gates (the trait's default drawing, `add_block_gate`) -/

def ghostWrites (d : String) : Nat → Nat → List (Nat × Sym)
  | _, 0 => []
  | b, n+1 => (b, .ghost d) :: ghostWrites d (b+1) n

/-- What `drawRange` writes. -/
def drawWrites (f l : Nat) (d : String) (q : Option Int) : List (Nat × Sym) :=
  if l = f then [(f, .gate d q)] else (f, .multigate (l - f) d q) :: ghostWrites d (f + 1) (l - f)

def restWrites (d : String) : List (Nat × Nat) → Nat → List (Nat × Sym)
  | [], _ => []
  | (f, l) :: more, prev => drawWrites f l d (some ((prev : Int) - (f : Int))) ++ restWrites d more l

/-- What `add_block_gate` writes: a box (or multigate on ghosts) per run of qubits, the later ones linked
upwards by `\\qwx`. -/
def blockWrites (d : String) (qbits : List Nat) : List (Nat × Sym) :=
  match getRanges qbits with
  | some ((f, l) :: more) => drawWrites f l d none ++ restWrites d more l
  | _ => []

/-- Every line of a symbol of `ws` ends on a partner symbol of `ws`. -/
def closedB (ws : List (Nat × Sym)) : Bool :=
  ws.all fun p => p.2.lines.all fun ln =>
    ws.any fun q => decide ((p.1 : Int) + ln.1 = (q.1 : Int)) && Sym.partnerOk ln.2 q.2

/-- Placements of a block gate on `n ≥ 2` qubits covered by the theorems: a DECIDABLE check of what
`get_ranges` yields for the operands — at least one run; the written rows are distinct, lie between two
operands, are exactly the operands; every `\\qwx` link ends on a part of the box. (It holds for every list
of distinct qubits: kernel-checked for all placements on up to 5 qubits, `Props.C13.block_placements_small`.) -/
def blockOk (d : String) (n : Nat) (bits : List Nat) : Bool :=
  decide (2 ≤ n) && decide (bits.length = n) &&
  (match getRanges bits with | some (_ :: _) => true | _ => false) &&
  decide (((blockWrites d bits).map (·.1)).Nodup) &&
  ((blockWrites d bits).all fun p => bits.any (· ≤ p.1) && bits.any (p.1 ≤ ·)) &&
  closedB (blockWrites d bits) &&
  (bits.all fun b => (blockWrites d bits).any (·.1 == b)) &&
  ((blockWrites d bits).all fun p => bits.contains p.1)

theorem ghosts_inRange {d : String} : ∀ (n b : Nat) (s s' : St), s.ranges ≠ [] → s.rcols ≠ [] →
    ghosts d b n s = .ok s' →
    Wrote s s' (ghostWrites d b n) ∧ s'.ranges = s.ranges ∧ s'.controlled = s.controlled
  | 0, b, s, s', _, hc, h => by
    simp only [ghosts] at h; injection h with h; subst h
    exact ⟨wrote_nil_of hc rfl rfl rfl rfl rfl (fun _ h => h), rfl, rfl⟩
  | n+1, b, s, s', hr, hc, h => by
    simp only [ghosts] at h
    obtain ⟨s1, h1, h2⟩ := Res.bind_eq_ok.mp h
    obtain ⟨hw1, hr1, hc1⟩ := setField_inRange hr h1
    obtain ⟨hw2, hr2, hc2⟩ := ghosts_inRange n (b+1) s1 s' (by rw [hr1]; exact hr) hw1.rcols_ne h2
    exact ⟨by simpa [ghostWrites] using hw1.trans hw2, hr2.trans hr1, hc2.trans hc1⟩

theorem drawRange_inRange {f l : Nat} {d : String} {q : Option Int} {s s' : St} (hr : s.ranges ≠ [])
    (hc : s.rcols ≠ []) (h : drawRange f l d q s = .ok s') :
    Wrote s s' (drawWrites f l d q) ∧ s'.ranges = s.ranges ∧ s'.controlled = s.controlled := by
  unfold drawRange at h
  unfold drawWrites
  split at h
  · rename_i he
    rw [if_pos he]
    exact setField_inRange hr h
  · rename_i he
    rw [if_neg he]
    obtain ⟨s1, h1, h2⟩ := Res.bind_eq_ok.mp h
    obtain ⟨hw1, hr1, hc1⟩ := setField_inRange hr h1
    obtain ⟨hw2, hr2, hc2⟩ := ghosts_inRange _ _ s1 s' (by rw [hr1]; exact hr) hw1.rcols_ne h2
    exact ⟨by simpa using hw1.trans hw2, hr2.trans hr1, hc2.trans hc1⟩

theorem blockRest_inRange {d : String} : ∀ (rs : List (Nat × Nat)) (prev : Nat) (s s' : St), s.ranges ≠ [] →
    s.rcols ≠ [] → blockRest d rs prev s = .ok s' →
    Wrote s s' (restWrites d rs prev) ∧ s'.ranges = s.ranges ∧ s'.controlled = s.controlled
  | [], _, s, s', _, hc, h => by
    simp only [blockRest] at h; injection h with h; subst h
    exact ⟨wrote_nil_of hc rfl rfl rfl rfl rfl (fun _ h => h), rfl, rfl⟩
  | (f, l) :: more, prev, s, s', hr, hc, h => by
    simp only [blockRest] at h
    obtain ⟨s1, h1, h2⟩ := Res.bind_eq_ok.mp h
    obtain ⟨hw1, hr1, hc1⟩ := drawRange_inRange hr hc h1
    obtain ⟨hw2, hr2, hc2⟩ := blockRest_inRange more l s1 s' (by rw [hr1]; exact hr) hw1.rcols_ne h2
    exact ⟨by simpa [restWrites] using hw1.trans hw2, hr2.trans hr1, hc2.trans hc1⟩

/-- The shape of `latex` of a block gate at a covered placement. -/
theorem blockOk_latex {d : String} {n : Nat} {bits : List Nat} (hok : blockOk d n bits = true) (s : St) :
    ∃ f l more, getRanges bits = some ((f, l) :: more) ∧ bits ≠ [] ∧
      blockWrites d bits = drawWrites f l d none ++ restWrites d more l ∧
      latex (.box d n) bits s = (startRangeOp bits none s >>== fun s1 =>
        (fun s1 => drawRange f l d none s1 >>== fun s2 => blockRest d more l s2) s1 >>== endRangeOp) := by
  simp only [blockOk, Bool.and_eq_true, decide_eq_true_eq] at hok
  obtain ⟨⟨⟨⟨⟨⟨⟨hn, hlen⟩, hgr⟩, _⟩, _⟩, _⟩, _⟩, _⟩ := hok
  cases hg : getRanges bits with
  | none => rw [hg] at hgr; cases hgr
  | some rs =>
    cases rs with
    | nil => rw [hg] at hgr; cases hgr
    | cons x more =>
      obtain ⟨f, l⟩ := x
      refine ⟨f, l, more, rfl, ?_, ?_, ?_⟩
      · intro he; subst he; simp at hlen; omega
      · simp only [blockWrites, hg]
      · simp only [latex, checkNrBits, Gate.nbits, hlen, ne_eq, not_true_eq_false, if_false, Res.bind_ok,
          addBlockGate, hg]
        simp [bind_assoc]

/-- The facts `blockOk` has checked, as propositions. -/
theorem blockOk_facts {d : String} {n : Nat} {bits : List Nat} (hok : blockOk d n bits = true) :
    ((blockWrites d bits).map (·.1)).Nodup ∧
    (∀ p ∈ blockWrites d bits, ∃ lo ∈ bits, ∃ hi ∈ bits, lo ≤ p.1 ∧ p.1 ≤ hi) ∧
    (∀ p ∈ blockWrites d bits, ∀ ln ∈ p.2.lines,
      ∃ q ∈ blockWrites d bits, (p.1 : Int) + ln.1 = (q.1 : Int) ∧ Sym.partnerOk ln.2 q.2 = true) ∧
    (∀ b ∈ bits, ∃ p ∈ blockWrites d bits, p.1 = b) ∧ (∀ p ∈ blockWrites d bits, p.1 ∈ bits) := by
  simp only [blockOk, Bool.and_eq_true, decide_eq_true_eq, List.all_eq_true, List.any_eq_true, closedB,
    beq_iff_eq, List.contains_iff_mem] at hok
  obtain ⟨⟨⟨⟨⟨⟨⟨_, _⟩, _⟩, hnd⟩, hin⟩, hcl⟩, hcov⟩, hsub⟩ := hok
  refine ⟨hnd, ?_, ?_, ?_, hsub⟩
  · intro p hp
    obtain ⟨⟨lo, hlo, h1⟩, ⟨hi, hhi, h2⟩⟩ := hin p hp
    exact ⟨lo, hlo, hi, hhi, h1, h2⟩
  · intro p hp ln hln
    obtain ⟨q, hq, h1, h2⟩ := hcl p hp ln hln
    exact ⟨q, hq, h1, h2⟩
  · intro b hb
    obtain ⟨p, hp, h1⟩ := hcov b hb
    exact ⟨p, hp, h1⟩

/-- A block gate at a covered placement, outside a range, keeps the invariant. -/
theorem inv_block {d : String} {n : Nat} {bits : List Nat} {s s' : St} (hinv : Inv s)
    (hok : blockOk d n bits = true) (h : latex (.box d n) bits s = .ok s') : Inv s' := by
  obtain ⟨f, l, more, _, hne, hws, he⟩ := blockOk_latex hok s
  obtain ⟨hnd, hrows, hclosed, _, _⟩ := blockOk_facts hok
  rw [he] at h
  obtain ⟨sx, hx, _⟩ := Res.bind_eq_ok.mp h
  obtain ⟨s0, _, hw, hr, _, hfree⟩ := range_gate (ws := blockWrites d bits) hne (ready_top hinv)
    (by
      intro s1 s2 hrn hcn _ _ hb
      obtain ⟨sa, ha, hb2⟩ := Res.bind_eq_ok.mp hb
      obtain ⟨hw1, hr1, hc1⟩ := drawRange_inRange hrn hcn ha
      obtain ⟨hw2, hr2, hc2⟩ := blockRest_inRange more l sa s2 (by rw [hr1]; exact hrn) hw1.rcols_ne hb2
      exact ⟨by rw [hws]; exact hw1.trans hw2, hr2.trans hr1, hc2.trans hc1⟩)
    hrows h
  obtain ⟨hi0, hf⟩ := hfree hinv.noRange
  exact inv_of_wrote hi0 hw (by rw [hr]; exact hinv.noRange) hf hnd hclosed

/-! ## Gates outside a range -/

mutual
/-- Placements covered by the theorem: one-column gates (1-qubit boxes, X, Z, Swap, controlled
versions with the control outside the span of the targets) on distinct qubits; multi-qubit block gates
at a placement satisfying `blockOk` (not under a control or condition); I; Kron, Composite and Loop of such. -/
def topOk : Gate → List Nat → Bool
  | .i, _ => true
  | .kron a b, bits => topOk a (bits.take a.nbits) && topOk b (bits.drop a.nbits)
  | .comp _ _ ops, bits => topOkSubs ops bits
  | .loop _ body, bits => topOk body bits
  | .box l n, bits => (simple (.box l n) && goodPlace (.box l n) bits && decide bits.Nodup) || blockOk l n bits
  | .x, bits => goodPlace .x bits
  | .z, bits => goodPlace .z bits
  | .swap, bits => goodPlace .swap bits && decide bits.Nodup
  | .c g, bits => simple g && goodPlace (.c g) bits && decide bits.Nodup
def topOkSubs : Subs → List Nat → Bool
  | .nil, _ => true
  | .cons g sb rest, bits =>
    (match subBits bits sb with
     | some gb => topOk g gb
     | none => true) && topOkSubs rest bits
end

mutual
theorem inv_latex : ∀ (g : Gate) (bits : List Nat) (s s' : St), Inv s → s.expand = true → topOk g bits = true →
    latex g bits s = .ok s' → Inv s'
  | .box l n, bits, s, s', hinv, _, ht, h => by
    simp only [topOk, Bool.or_eq_true, Bool.and_eq_true, decide_eq_true_eq] at ht
    rcases ht with ht | ht
    · exact inv_simple hinv ht.1.1 ht.1.2 ht.2 h
    · exact inv_block hinv ht h
  | .x, bits, s, s', hinv, _, ht, h => by
    simp only [topOk] at ht
    have hn : bits.Nodup := by
      match bits, ht with
      | [b], _ => simp
    exact inv_simple hinv rfl ht hn h
  | .z, bits, s, s', hinv, _, ht, h => by
    simp only [topOk] at ht
    have hn : bits.Nodup := by
      match bits, ht with
      | [b], _ => simp
    exact inv_simple hinv rfl ht hn h
  | .swap, bits, s, s', hinv, _, ht, h => by
    simp only [topOk, Bool.and_eq_true, decide_eq_true_eq] at ht
    exact inv_simple hinv rfl ht.1 ht.2 h
  | .c g, bits, s, s', hinv, _, ht, h => by
    simp only [topOk, Bool.and_eq_true, decide_eq_true_eq] at ht
    exact inv_simple hinv (by simpa [simple] using ht.1.1) ht.1.2 ht.2 h
  | .i, bits, s, s', hinv, _, _, h => by
    simp only [latex] at h
    obtain ⟨_, _, h⟩ := Res.bind_eq_ok.mp h
    split at h
    · exact inv_setField hinv rfl h
    · cases h
  | .kron a b, bits, s, s', hinv, he, ht, h => by
    simp only [topOk, Bool.and_eq_true] at ht
    simp only [latex] at h
    obtain ⟨_, _, h⟩ := Res.bind_eq_ok.mp h
    obtain ⟨s1, h1, h⟩ := Res.bind_eq_ok.mp h
    have i1 := inv_latex a _ s s1 hinv he ht.1 h1
    have e1 : s1.expand = true := by rw [(keeps_latex a _ _ _ h1).expand]; exact he
    exact inv_latex b _ s1 s' i1 e1 ht.2 h
  | .comp name n ops, bits, s, s', hinv, he, ht, h => by
    simp only [topOk] at ht
    simp only [latex] at h
    obtain ⟨_, _, h⟩ := Res.bind_eq_ok.mp h
    rw [if_pos he] at h
    exact inv_latexSubs ops bits s s' hinv he ht h
  | .loop iters body, bits, s, s', hinv, he, ht, h => by
    simp only [topOk] at ht
    simp only [latex] at h
    obtain ⟨_, _, h⟩ := Res.bind_eq_ok.mp h
    split at h
    · injection h with h; subst h; exact hinv
    · exact inv_latex body bits s s' hinv he ht h
    · obtain ⟨s1, h1, h⟩ := Res.bind_eq_ok.mp h
      have i1 := inv_latex body bits s s1 hinv he ht h1
      have e1 : s1.expand = true := by rw [(keeps_latex body _ _ _ h1).expand]; exact he
      exact inv_latex body bits s1 s' i1 e1 ht h
    · split at h
      · cases h
      · obtain ⟨s1, h1, h⟩ := Res.bind_eq_ok.mp h
        obtain ⟨s2, h2, h⟩ := Res.bind_eq_ok.mp h
        obtain ⟨s3, h3, h⟩ := Res.bind_eq_ok.mp h
        obtain ⟨s4, h4, h⟩ := Res.bind_eq_ok.mp h
        have i1 := inv_startLoop hinv h1
        have e1 : s1.expand = true := by rw [(keeps_startLoop h1).expand]; exact he
        have i2 := inv_latex body _ s1 s2 i1 e1 ht h2
        have e2 : s2.expand = true := by rw [(keeps_latex body _ _ _ h2).expand]; exact e1
        have i3 := inv_addCds i2 h3
        have e3 : s3.expand = true := by rw [(keeps_addCds h3).expand]; exact e2
        have i4 := inv_latex body _ s3 s4 i3 e3 ht h4
        exact inv_endLoop i4 h
theorem inv_latexSubs : ∀ (ops : Subs) (bits : List Nat) (s s' : St), Inv s → s.expand = true →
    topOkSubs ops bits = true → latexSubs ops bits s = .ok s' → Inv s'
  | .nil, bits, s, s', hinv, _, _, h => by
    simp only [latexSubs] at h; injection h with h; subst h; exact hinv
  | .cons g sb rest, bits, s, s', hinv, he, ht, h => by
    simp only [topOkSubs, Bool.and_eq_true] at ht
    simp only [latexSubs] at h
    split at h
    · cases h
    · rename_i gb hgb
      rw [hgb] at ht
      obtain ⟨s1, h1, h⟩ := Res.bind_eq_ok.mp h
      have i1 := inv_latex g gb s s1 hinv he ht.1 h1
      have e1 : s1.expand = true := by rw [(keeps_latex g _ _ _ h1).expand]; exact he
      exact inv_latexSubs rest bits s1 s' i1 e1 ht.2 h
end


theorem mapOpt_getElem? {α β} (f : α → Option β) : ∀ (l : List α) (r : List β), mapOpt f l = some r →
    ∀ i : Nat, r[i]? = (l[i]?).bind f
  | [], r, h, i => by simp [mapOpt] at h; subst h; simp
  | a :: as, r, h, i => by
    simp only [mapOpt] at h
    split at h
    · rename_i b bs hb hbs
      injection h with h; subst h
      cases i with
      | zero => simp [hb]
      | succ i => simpa using mapOpt_getElem? f as bs hbs i
    · cases h

theorem mapOpt_length {α β} (f : α → Option β) : ∀ (l : List α) (r : List β), mapOpt f l = some r →
    r.length = l.length
  | [], r, h => by simp [mapOpt] at h; subst h; rfl
  | a :: as, r, h => by
    simp only [mapOpt] at h
    split at h
    · rename_i b bs hb hbs
      injection h with h; subst h
      simp [mapOpt_length f as bs hbs]
    · cases h

theorem grid_col_get {s : St} {g : Grid} (hg : grid s = some g) (r c : Nat) :
    (g.col c)[r]? = (if r < s.total then (gridRow s r).map (fun row => row.getD c .empty) else none) := by
  unfold Grid.col
  rw [List.getElem?_map]
  unfold grid at hg
  rw [mapOpt_getElem? _ _ _ hg r]
  by_cases h : r < s.total
  · simp [h]
  · simp [h]

theorem gridRow_get {s : St} {r : Nat} {row : List Sym} (hrow : gridRow s r = some row) (c : Nat) {col : Column}
    (hc : s.rcols.reverse[c]? = some col) : row[c]? = cellOf s.nq r col := by
  unfold gridRow at hrow
  cases hm : mapOpt (cellOf s.nq r) s.rcols.reverse with
  | none => simp [hm] at hrow
  | some cells =>
    simp only [hm, Option.map_some, Option.some.injEq] at hrow
    have hcell := mapOpt_getElem? _ _ _ hm c
    rw [hc] at hcell
    simp only [Option.bind_some] at hcell
    have hlt : c < cells.length := by
      rw [mapOpt_length _ _ _ hm]
      rcases Nat.lt_or_ge c s.rcols.reverse.length with h | h
      · exact h
      · rw [List.getElem?_eq_none h] at hc; cases hc
    subst hrow
    split
    · rw [List.getElem?_append_left hlt]; exact hcell
    · exact hcell

/-- Beyond the matrix columns a row holds only the closing wire. -/
theorem gridRow_get_beyond {s : St} {r : Nat} {row : List Sym} (hrow : gridRow s r = some row) (c : Nat)
    (hc : s.rcols.length ≤ c) : (row.getD c .empty).lines = [] := by
  unfold gridRow at hrow
  cases hm : mapOpt (cellOf s.nq r) s.rcols.reverse with
  | none => simp [hm] at hrow
  | some cells =>
    simp only [hm, Option.map_some, Option.some.injEq] at hrow
    have hl : cells.length = s.rcols.length := by rw [mapOpt_length _ _ _ hm]; simp
    subst hrow
    split
    · rw [List.getD_eq_getElem?_getD, List.getElem?_append_right (by omega)]
      rcases Nat.lt_or_ge (c - cells.length) 1 with h | h
      · have : c - cells.length = 0 := by omega
        rw [this]; simp only [List.getElem?_cons_zero, Option.getD_some]
        split <;> rfl
      · rw [List.getElem?_eq_none (by simpa using h)]; rfl
    · rw [List.getD_eq_getElem?_getD, List.getElem?_eq_none (by omega)]; rfl


theorem symAt_lt {col : Column} {t : Nat} {y : Sym} (h : symAt col t = some y) : t < col.length := by
  unfold symAt at h
  rcases Nat.lt_or_ge t col.length with hl | hl
  · exact hl
  · rw [List.getElem?_eq_none hl] at h; cases h

theorem cellOf_of_symAt {nq t : Nat} {col : Column} {y : Sym} (h : symAt col t = some y) :
    cellOf nq t col = some y := by
  unfold symAt at h
  unfold cellOf
  split at h
  · rename_i c hc; rw [hc]; simpa using h
  · cases h

theorem target_eq {n r t : Nat} {k : Int} (h : (r : Int) + k = (t : Int)) (ht : t < n) : target n r k = some t := by
  unfold target
  simp only [h]
  have : (0 : Int) ≤ (t : Int) ∧ (t : Int) < (n : Int) := ⟨by omega, by omega⟩
  simp [this]

/-- **Transfer to the printed grid**: if every column of the matrix is connected, then in every
column of the grid of symbols that `code` prints, every line of every cell ends inside the grid on a
partner symbol (`Spec.QcGrid.linesOk`). -/
theorem grid_lines_ok {s : St} (hs : Shape s) (hok : ∀ col ∈ s.rcols, ColOK col) {g : Grid}
    (hg : grid s = some g) : ∀ (c r : Nat) (y : Sym), (g.col c)[r]? = some y → linesOk (g.col c) r y = true := by
  intro c r y hy
  have hlen : (g.col c).length = s.total := by
    unfold Grid.col; rw [List.length_map]
    unfold grid at hg
    rw [mapOpt_length _ _ _ hg]; simp
  rw [grid_col_get hg] at hy
  split at hy
  · rename_i hr
    cases hrow : gridRow s r with
    | none => rw [hrow] at hy; cases hy
    | some row =>
      rw [hrow] at hy
      simp only [Option.map_some, Option.some.injEq] at hy
      by_cases hcw : c < s.rcols.length
      · have hcr : c < s.rcols.reverse.length := by simpa using hcw
        have hc : s.rcols.reverse[c]? = some s.rcols.reverse[c] := List.getElem?_eq_getElem hcr
        generalize hcol : s.rcols.reverse[c] = col at hc
        have hmem : col ∈ s.rcols := by
          have : col ∈ s.rcols.reverse := List.mem_of_getElem? hc
          simpa using this
        have hcl : col.length = s.total := hs.cols col hmem
        have hget := gridRow_get hrow c hc
        rw [List.getD_eq_getElem?_getD, hget] at hy
        unfold linesOk
        rw [List.all_eq_true]
        intro ⟨k, kind⟩ hmemk
        -- the cell is an explicit symbol (default wires have no lines)
        have hsym : symAt col r = some y := by
          unfold cellOf at hy
          unfold symAt
          have hrl : r < col.length := by omega
          rw [List.getElem?_eq_getElem hrl] at hy ⊢
          cases hcell : col[r] with
          | none =>
            rw [hcell] at hy
            simp only [Option.getD_some] at hy
            subst hy
            split at hmemk <;> simp [Sym.lines] at hmemk
          | some cell =>
            rw [hcell] at hy
            simpa using hy
        obtain ⟨t, ht, y', hy', hp⟩ := hok col hmem r y hsym (k, kind) hmemk
        have htl : t < s.total := by rw [← hcl]; exact symAt_lt hy'
        dsimp only
        rw [hlen, target_eq ht htl]
        dsimp only
        -- the target cell as printed
        have hcellt : (g.col c)[t]? = some y' := by
          rw [grid_col_get hg, if_pos htl]
          obtain ⟨rowt, hrt, _⟩ := gridRow_shape s hs t htl
          rw [hrt]
          simp only [Option.map_some, Option.some.injEq]
          rw [List.getD_eq_getElem?_getD, gridRow_get hrt c hc, cellOf_of_symAt hy']
          rfl
        rw [List.getD_eq_getElem?_getD, hcellt]
        exact hp
      · have hl := gridRow_get_beyond hrow c (by omega)
        rw [hy] at hl
        unfold linesOk
        rw [hl]; rfl
  · cases hy


/-! ## `reset_all` -/

def resetWrites (q : Nat) : Nat → List (Nat × Sym)
  | 0 => []
  | n+1 => (q, .reset) :: resetWrites (q+1) n

theorem resetLoop_inRange {n q : Nat} {s s' : St} (hr : s.ranges ≠ []) (hc : s.rcols ≠ [])
    (h : resetLoop q n s = .ok s') :
    Wrote s s' (resetWrites q n) ∧ s'.ranges = s.ranges ∧ s'.controlled = s.controlled := by
  induction n generalizing q s with
  | zero =>
    simp only [resetLoop] at h; injection h with h; subst h
    exact ⟨wrote_nil_of hc rfl rfl rfl rfl rfl (fun _ h => h), rfl, rfl⟩
  | succ n ih =>
    simp only [resetLoop, setReset] at h
    obtain ⟨s1, h1, h⟩ := Res.bind_eq_ok.mp h
    obtain ⟨hw1, hr1, hc1⟩ := setField_inRange hr h1
    obtain ⟨hw2, hr2, hc2⟩ := ih (by rw [hr1]; exact hr) hw1.rcols_ne h
    exact ⟨by simpa [resetWrites] using hw1.trans hw2, hr2.trans hr1, hc2.trans hc1⟩

theorem resetWrites_rows (q n : Nat) : ∀ p ∈ resetWrites q n, q ≤ p.1 ∧ p.1 < q + n ∧ p.2 = .reset := by
  induction n generalizing q with
  | zero => intro p hp; cases hp
  | succ n ih =>
    intro p hp
    simp only [resetWrites, List.mem_cons] at hp
    rcases hp with rfl | hp
    · exact ⟨Nat.le_refl _, by omega, rfl⟩
    · obtain ⟨h1, h2, h3⟩ := ih (q+1) p hp
      exact ⟨by omega, by omega, h3⟩

theorem resetWrites_nodup (q n : Nat) : ((resetWrites q n).map (·.1)).Nodup := by
  induction n generalizing q with
  | zero => simp [resetWrites]
  | succ n ih =>
    simp only [resetWrites, List.map_cons, List.nodup_cons]
    refine ⟨?_, ih (q+1)⟩
    intro hm
    obtain ⟨p, hp, hp1⟩ := List.mem_map.mp hm
    have := (resetWrites_rows (q+1) n p hp).1
    omega

theorem inv_resetAll {nq : Nat} {s s' : St} (hinv : Inv s) (h : opLatex nq .resetAll s = .ok s') : Inv s' := by
  simp only [opLatex] at h
  cases nq with
  | zero =>
    -- no qubits: the range of all qubits is empty, nothing is reserved, drawn or closed
    obtain ⟨s1, h1, h⟩ := Res.bind_eq_ok.mp h
    obtain ⟨s2, h2, h3⟩ := Res.bind_eq_ok.mp h
    have e1 : s1 = s := by
      unfold startRangeOp at h1
      obtain ⟨bits, hb, h1⟩ := Res.bind_eq_ok.mp h1
      have := getBitIndices_none hb
      subst this
      simpa using h1.symm
    subst e1
    have e2 : s2 = s1 := by simpa [resetLoop] using h2.symm
    subst e2
    have e3 : s' = s2 := by
      unfold endRangeOp at h3
      rw [hinv.noRange] at h3
      simpa using h3.symm
    subst e3
    exact hinv
  | succ n =>
    obtain ⟨sx, hx, _⟩ := Res.bind_eq_ok.mp h
    have hb := getBitIndices_none_ok_of_start hx
    have h' : (startRangeOp (List.range (n+1)) none s >>== fun s1 =>
        (fun s1 => resetLoop 0 (n+1) s1) s1 >>== endRangeOp) = .ok s' := by
      simpa [bind_assoc] using h
    obtain ⟨s0, _, hw, hr, _, hfree⟩ := range_op (ws := resetWrites 0 (n+1)) hb (by simp) (ready_top hinv)
      (by
        intro s1 s2 hrn hcn _ _ _ _ hbody
        exact resetLoop_inRange hrn hcn hbody)
      (by
        intro p hp
        obtain ⟨h1, h2, _⟩ := resetWrites_rows 0 (n+1) p hp
        exact ⟨0, by simp, n, by simp, h1, by omega⟩) h'
    obtain ⟨hi0, hf⟩ := hfree hinv.noRange
    refine inv_of_wrote hi0 hw (by rw [hr]; exact hinv.noRange) hf (resetWrites_nodup 0 (n+1)) ?_
    intro p hp l hl
    rw [(resetWrites_rows 0 (n+1) p hp).2.2] at hl
    simp [Sym.lines] at hl


/-! ## Classical conditions -/

def condSym (target pos : Nat) (off : Int) : Sym :=
  if target.testBit pos then Sym.cctrl off else Sym.cctrlo off

def condWrites (target : Nat) : List (Nat × Nat) → Nat → List (Nat × Sym)
  | [], _ => []
  | (bit, pos) :: rest, pbit => (bit, condSym target pos ((pbit : Int) - (bit : Int))) :: condWrites target rest bit

theorem condLoop_inRange {t : Nat} {bp : List (Nat × Nat)} {p : Nat} {s s' : St} (hr : s.ranges ≠ [])
    (hc : s.rcols ≠ []) (h : condLoop t bp p s = .ok s') :
    Wrote s s' (condWrites t bp p) ∧ s'.ranges = s.ranges ∧ s'.controlled = s.controlled := by
  induction bp generalizing p s with
  | nil =>
    simp only [condLoop] at h; injection h with h; subst h
    exact ⟨wrote_nil_of hc rfl rfl rfl rfl rfl (fun _ h => h), rfl, rfl⟩
  | cons x rest ih =>
    obtain ⟨bit, pos⟩ := x
    simp only [condLoop] at h
    split at h
    · cases h
    · obtain ⟨s1, h1, h⟩ := Res.bind_eq_ok.mp h
      have h1' : setField bit (condSym t pos ((p : Int) - (bit : Int))) s = .ok s1 := by
        unfold condSym; exact h1
      obtain ⟨hw1, hr1, hc1⟩ := setField_inRange hr h1'
      obtain ⟨hw2, hr2, hc2⟩ := ih (by rw [hr1]; exact hr) hw1.rcols_ne h
      exact ⟨by simpa [condWrites] using hw1.trans hw2, hr2.trans hr1, hc2.trans hc1⟩

theorem condSym_lines (t pos : Nat) (off : Int) : (condSym t pos off).lines = [(off, 2)] := by
  unfold condSym; split <;> rfl

theorem condSym_partner (t pos : Nat) (off : Int) : Sym.partnerOk 2 (condSym t pos off) = true := by
  unfold condSym; split <;> rfl

theorem condWrites_rows (t : Nat) : ∀ (bp : List (Nat × Nat)) (pb : Nat),
    (condWrites t bp pb).map (·.1) = bp.map (·.1)
  | [], _ => rfl
  | (bit, pos) :: rest, pb => by simp [condWrites, condWrites_rows t rest bit]

/-- Every classical control's line ends on the row `pb` given from outside, or on an earlier control. -/
theorem condWrites_closed (t : Nat) : ∀ (bp : List (Nat × Nat)) (pb : Nat),
    ∀ p ∈ condWrites t bp pb, ∀ l ∈ p.2.lines, l.2 = 2 ∧
      ((p.1 : Int) + l.1 = (pb : Int) ∨
       ∃ q ∈ condWrites t bp pb, (p.1 : Int) + l.1 = (q.1 : Int) ∧ Sym.partnerOk 2 q.2 = true)
  | [], _ => by intro p hp; cases hp
  | (bit, pos) :: rest, pb => by
    intro p hp l hl
    simp only [condWrites, List.mem_cons] at hp
    rcases hp with rfl | hp
    · rw [condSym_lines] at hl
      simp only [List.mem_cons, List.not_mem_nil, or_false] at hl
      subst hl
      exact ⟨rfl, Or.inl (by simp; omega)⟩
    · obtain ⟨h2, hcase⟩ := condWrites_closed t rest bit p hp l hl
      refine ⟨h2, Or.inr ?_⟩
      rcases hcase with h | ⟨q, hq, h1, h3⟩
      · exact ⟨(bit, condSym t pos ((pb : Int) - (bit : Int))), by simp [condWrites], h, condSym_partner _ _ _⟩
      · exact ⟨q, by simp only [condWrites, List.mem_cons]; exact Or.inr hq, h1, h3⟩

theorem insertPair_perm (a : Nat × Nat) (l : List (Nat × Nat)) : (insertPair a l).Perm (a :: l) := by
  induction l with
  | nil => exact List.Perm.refl _
  | cons b bs ih =>
    simp only [insertPair]
    split
    · exact List.Perm.refl _
    · exact ((List.Perm.cons b ih).trans (List.Perm.swap a b bs))

theorem sortPairs_perm (l : List (Nat × Nat)) : (sortPairs l).Perm l := by
  induction l with
  | nil => exact List.Perm.refl _
  | cons a as ih =>
    simp only [sortPairs]
    exact (insertPair_perm a _).trans (List.Perm.cons a ih)

theorem getBitIndices_cond {s : St} {q control bits : List Nat}
    (h : getBitIndices s q (some control) = .ok bits) :
    bits = q ++ control.map (s.nq + ·) ∧ (∀ b ∈ q, b < s.nq) := by
  unfold getBitIndices at h
  split at h
  · cases h
  · rename_i hf
    have hq : ∀ b ∈ q, b < s.nq := by
      intro b hb
      have := List.find?_eq_none.mp hf b hb
      simpa using this
    dsimp only at h
    split at h
    · cases h
    · injection h with h; exact ⟨h.symm, hq⟩


theorem nodup_map_add (n : Nat) (l : List Nat) (h : l.Nodup) : (l.map (n + ·)).Nodup := by
  induction l with
  | nil => simp
  | cons a as ih =>
    simp only [List.map_cons, List.nodup_cons] at h ⊢
    refine ⟨?_, ih h.2⟩
    intro hm
    obtain ⟨b, hb, he⟩ := List.mem_map.mp hm
    have : b = a := by omega
    subst this; exact h.1 hb

/-- The rows of the sorted (bit, position) pairs of a condition are `nq + idx`, `idx` in the control list. -/
theorem condPairs_rows (nq : Nat) (control : List Nat) :
    ((sortPairs (control.zipIdx.map fun (idx, pos) => (nq + idx, pos))).map (·.1)).Perm (control.map (nq + ·)) := by
  have h1 := (sortPairs_perm (control.zipIdx.map fun (idx, pos) => (nq + idx, pos))).map (·.1)
  refine h1.trans ?_
  rw [List.map_map]
  have : ((fun x : Nat × Nat => x.1) ∘ fun (x : Nat × Nat) => (nq + x.1, x.2)) = (fun x => nq + x) ∘ (fun x : Nat × Nat => x.1) := by
    funext x; rfl
  show (List.map ((fun x : Nat × Nat => x.1) ∘ fun (x : Nat × Nat) => (nq + x.1, x.2)) control.zipIdx).Perm _
  rw [this, ← List.map_map, List.zipIdx_map_fst]

theorem goodPlace_ne_nil (g : Gate) : goodPlace g [] = false := by
  cases g <;> simp [goodPlace]

/-- Conditional gates covered: a one-column gate on distinct qubits under distinct classical bits. -/
def condOk (control : List Nat) (g : Gate) (bits : List Nat) : Bool :=
  simple g && goodPlace g bits && decide bits.Nodup && decide control.Nodup

theorem inv_cond {nq : Nat} {control : List Nat} {target : Nat} {g : Gate} {bits : List Nat} {s s' : St}
    (hinv : Inv s) (hok : condOk control g bits = true)
    (h : opLatex nq (.cond control target g bits) s = .ok s') : Inv s' := by
  simp only [condOk, Bool.and_eq_true, decide_eq_true_eq] at hok
  obtain ⟨⟨⟨hs, hg⟩, hnb⟩, hnc⟩ := hok
  simp only [opLatex] at h
  obtain ⟨sx, hx, _⟩ := Res.bind_eq_ok.mp h
  have hbx : ∃ B, getBitIndices s bits (some control) = .ok B := by
    unfold startRangeOp at hx
    obtain ⟨B, hb, _⟩ := Res.bind_eq_ok.mp hx
    exact ⟨B, hb⟩
  obtain ⟨B, hb⟩ := hbx
  obtain ⟨hB, hlt⟩ := getBitIndices_cond hb
  match bits, hg, hnb, h, hx, hb, hB, hlt with
  | [], hg, _, _, _, _, _, _ => rw [goodPlace_ne_nil] at hg; cases hg
  | q0 :: qs, hg, hnb, h, hx, hb, hB, hlt =>
    let bp := sortPairs (control.zipIdx.map fun (idx, pos) => (s.nq + idx, pos))
    let pbit := qs.foldl max q0
    have h' : (startRangeOp (q0 :: qs) (some control) s >>== fun s1 =>
        (fun s1 => latex g (q0 :: qs) { s1 with controlled := true } >>== fun s2 =>
          setCondition control target (q0 :: qs) { s2 with controlled := s1.controlled }) s1 >>== endRangeOp) = .ok s' := by
      simpa [bind_assoc] using h
    have hBne : B ≠ [] := by rw [hB]; simp
    obtain ⟨s0, _, hw, hr, _, hfree⟩ := range_op (ws := writes g (q0 :: qs) true ++ condWrites target bp pbit)
      hb hBne (ready_top hinv)
      (by
        intro s1 s3 hrn hcn hsh _ hq1 _ hbody
        obtain ⟨s2, ha, hb2⟩ := Res.bind_eq_ok.mp hbody
        have hrdy : Ready { s1 with controlled := true } :=
          Or.inr ⟨hrn, hcn, shape_of_fields hsh rfl rfl rfl rfl⟩
        obtain ⟨sa, hpa, hwa, hra, _, _⟩ := simple_spec g hs (q0 :: qs) _ s2 hrdy ha
        have := pre_inRange hpa (show ({ s1 with controlled := true } : St).ranges ≠ [] from hrn)
        subst this
        have hq2 : s2.nq = s.nq := by rw [hwa.nq]; exact hq1
        -- the condition, on the state `S` with the saved `controlled` flag restored
        have hSq : ({ s2 with controlled := s1.controlled } : St).nq = s.nq := hq2
        have hSr : ({ s2 with controlled := s1.controlled } : St).ranges = s2.ranges := rfl
        have hSc : ({ s2 with controlled := s1.controlled } : St).controlled = s1.controlled := rfl
        have hSw : Wrote s2 ({ s2 with controlled := s1.controlled } : St) [] := wrote_ctl hwa.rcols_ne _
        generalize ({ s2 with controlled := s1.controlled } : St) = S at hb2 hSq hSr hSc hSw
        have hrnS : S.ranges ≠ [] := by rw [hSr, hra]; exact hrn
        unfold setCondition at hb2
        split at hb2
        · cases hb2
        · split at hb2
          · cases hb2
          · dsimp only at hb2
            rw [hSq] at hb2
            obtain ⟨hwc, hrc, hcc⟩ := condLoop_inRange hrnS hSw.rcols_ne hb2
            have hall := ((wrote_ctl hcn true).trans hwa).trans (hSw.trans hwc)
            refine ⟨by simpa using hall, ?_, ?_⟩
            · rw [hrc, hSr, hra]
            · rw [hcc, hSc])
      (by
        intro p hp
        have hmem : p.1 ∈ B := by
          rw [hB]
          simp only [List.mem_append] at hp ⊢
          rcases hp with hp | hp
          · exact Or.inl (writes_rows _ _ _ p hp)
          · right
            have : p.1 ∈ (condWrites target bp pbit).map (·.1) := List.mem_map_of_mem hp
            rw [condWrites_rows] at this
            exact (condPairs_rows s.nq control).mem_iff.mp this
        exact ⟨p.1, hmem, p.1, hmem, Nat.le_refl _, Nat.le_refl _⟩) h'
    obtain ⟨hi0, hf⟩ := hfree hinv.noRange
    refine inv_of_wrote hi0 hw (by rw [hr]; exact hinv.noRange) hf ?_ ?_
    · rw [List.map_append, List.nodup_append]
      refine ⟨writes_nodup g _ _ hnb, ?_, ?_⟩
      · rw [condWrites_rows]
        exact (condPairs_rows s.nq control).nodup_iff.mpr (nodup_map_add _ _ hnc)
      · intro a ha b hb' hab
        obtain ⟨p, hp, rfl⟩ := List.mem_map.mp ha
        have h1 := hlt _ (writes_rows _ _ _ p hp)
        rw [condWrites_rows] at hb'
        have h2 := (condPairs_rows s.nq control).mem_iff.mp hb'
        obtain ⟨idx, _, rfl⟩ := List.mem_map.mp h2
        omega
    · intro p hp l hl
      simp only [List.mem_append] at hp
      rcases hp with hp | hp
      · obtain ⟨q, hq, h1, h2⟩ := writes_closed g _ true hs hg p hp l hl
        exact ⟨q, List.mem_append_left _ hq, h1, h2⟩
      · obtain ⟨hk, hcase⟩ := condWrites_closed target bp pbit p hp l hl
        rcases hcase with ht | ⟨q, hq, h1, h2⟩
        · obtain ⟨q, hq, hq1, hq2⟩ := writes_cover g (q0 :: qs) true hs hg pbit (foldl_max_mem qs q0)
          refine ⟨q, List.mem_append_left _ hq, by rw [hq1]; exact ht, ?_⟩
          rw [hk]; simp [Sym.partnerOk, hq2]
        · exact ⟨q, List.mem_append_right _ hq, h1, by rw [hk]; exact h2⟩

/-- Operations covered by the connector theorem (see `topOk` for gates). Conditional gates: see `condOk`. -/
def opOk : Op → Bool
  | .gate g bits => topOk g bits
  | .cond control _ g bits => condOk control g bits
  | _ => true

theorem inv_opLatex {nq : Nat} {op : Op} {s s' : St} (hinv : Inv s) (he : s.expand = true) (hop : opOk op = true)
    (h : opLatex nq op s = .ok s') : Inv s' := by
  cases op with
  | gate g bits => exact inv_latex g bits s s' hinv he hop h
  | cond control target g bits => exact inv_cond hinv hop h
  | reset q => exact inv_setField hinv rfl h
  | resetAll => exact inv_resetAll hinv h
  | measure q c b => exact inv_setMeasurement hinv h
  | measureAll cbits b => exact inv_measureAllLoop hinv h
  | peek q c b => simp [opLatex] at h
  | peekAll cbits b => simp [opLatex] at h
  | barrier qbits => exact inv_setBarrier hinv h

theorem inv_opsLatex {nq : Nat} {ops : List Op} {s s' : St} (hinv : Inv s) (he : s.expand = true)
    (hop : ∀ op ∈ ops, opOk op = true) (h : opsLatex nq ops s = .ok s') : Inv s' := by
  induction ops generalizing s with
  | nil => simp [opsLatex] at h; subst h; exact hinv
  | cons op rest ih =>
    simp only [opsLatex] at h
    obtain ⟨s1, h1, h⟩ := Res.bind_eq_ok.mp h
    have i1 := inv_opLatex hinv he (hop op (by simp)) h1
    have e1 : s1.expand = true := by rw [(keeps_opLatex h1).expand]; exact he
    exact ih (s := { s1 with cur := s1.cur + 1 }) (inv_of_fields i1 rfl rfl rfl rfl rfl) e1 (fun o ho => hop o (by simp [ho])) h

theorem exportSt_inv {c : Circ} {s : St} (hop : ∀ op ∈ c.ops, opOk op = true) (h : exportSt c = .ok s) : Inv s :=
  inv_opsLatex (inv_new c.nq c.nc) rfl hop h


end Q1t.Proofs.Latex

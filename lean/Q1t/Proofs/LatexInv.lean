import Q1t.Proofs.LatexConn
namespace Q1t.Proofs.Latex
open Q1t.Latex Q1t.Spec.QcGrid

/-! ## The top-level invariant -/

structure Inv (s : St) : Prop where
  shape : Shape s
  noRange : s.ranges = []
  /-- an unused field of the last column is empty -/
  free : ∀ col rest, s.rcols = col :: rest → ∀ r : Nat, s.inUse[r]? = some false → col[r]? = some none
  /-- before the first column exists everything counts as used -/
  start : s.rcols = [] → ∀ (r : Nat) (b : Bool), s.inUse[r]? = some b → b = true
  ok : ∀ col ∈ s.rcols, ColOK col

theorem inv_new (nq nc : Nat) : Inv (St.new nq nc) := by
  refine ⟨shape_new nq nc, rfl, ?_, ?_, ?_⟩
  · intro col rest h; simp [St.new] at h
  · intro _ r b h
    simp only [St.new, List.getElem?_replicate] at h
    split at h <;> simp_all
  · intro col h; simp [St.new] at h

theorem inv_addColumn {s : St} (h : Inv s) : Inv (addColumn s) := by
  refine ⟨(keeps_addColumn s).shape h.shape, h.noRange, ?_, ?_, ?_⟩
  · intro col rest hc r hr
    simp only [addColumn] at hc
    injection hc with hc _; subst hc
    simp only [addColumn, List.getElem?_replicate] at hr ⊢
    split at hr
    · rename_i hlt; simp [hlt]
    · cases hr
  · intro hc; simp [addColumn] at hc
  · intro col hc
    simp only [addColumn, List.mem_cons] at hc
    rcases hc with rfl | hc
    · exact colOK_replicate _
    · exact h.ok col hc

/-- Either nothing happened or a fresh column was started (only possible outside a range). -/
def Pre (s s0 : St) : Prop := s0 = s ∨ (s.ranges = [] ∧ s0 = addColumn s)

theorem Pre.inv {s s0 : St} (hp : Pre s s0) (h : Inv s) : Inv s0 := by
  rcases hp with rfl | ⟨_, rfl⟩
  · exact h
  · exact inv_addColumn h

theorem anyInUse_false {iu : List Bool} {bits : List Nat} (h : anyInUse iu bits = .ok false) :
    ∀ b ∈ bits, iu[b]? = some false := by
  induction bits with
  | nil => intro b hb; cases hb
  | cons a as ih =>
    simp only [anyInUse] at h
    split at h
    · cases h
    · cases h
    · rename_i hf
      intro b hb
      simp only [List.mem_cons] at hb
      rcases hb with rfl | hb
      · exact hf
      · exact ih h b hb

/-- `reserve` outside a range: afterwards the requested bits are free (in `s` itself or in a fresh column). -/
theorem reserve_top {q : List Nat} {s s0 : St} (h : reserve q none s = .ok s0) :
    (s0 = s ∨ s0 = addColumn s) ∧ ∀ b ∈ q, s0.inUse[b]? = some false := by
  unfold reserve at h
  obtain ⟨bits, hb, h⟩ := Res.bind_eq_ok.mp h
  obtain ⟨used, hu, h⟩ := Res.bind_eq_ok.mp h
  injection h with h; subst h
  have hbits : bits = q ∧ ∀ b ∈ q, b < s.nq := by
    unfold getBitIndices at hb
    split at hb
    · cases hb
    · rename_i hf
      injection hb with hb
      refine ⟨hb.symm, ?_⟩
      intro b hbq
      have := List.find?_eq_none.mp hf b hbq
      simpa using this
  obtain ⟨rfl, hlt⟩ := hbits
  cases used with
  | true =>
    refine ⟨Or.inr rfl, ?_⟩
    intro b hb
    simp only [if_true, addColumn, List.getElem?_replicate]
    have : b < s.total := by have := hlt b hb; simp [St.total]; omega
    simp [this]
  | false =>
    exact ⟨Or.inl rfl, anyInUse_false hu⟩


/-- `start_range_op` outside a range: a (possibly fresh) column whose rows `first..=last` are free,
with the range `(first, last)` open; all requested bits lie in the range. -/
theorem startRangeOp_top {q : List Nat} {c : Option (List Nat)} {s s1 : St} (hs : Shape s)
    (hr : s.ranges = []) (h : startRangeOp q c s = .ok s1) :
    ∃ bits, getBitIndices s q c = .ok bits ∧
      ((bits = [] ∧ s1 = s) ∨
       ∃ s0 f l, (s0 = s ∨ s0 = addColumn s) ∧ s1 = { s0 with ranges := [(f, l)] } ∧ l < s.total ∧
         (∀ r, f ≤ r → r ≤ l → s0.inUse[r]? = some false) ∧ (∀ b ∈ bits, f ≤ b ∧ b ≤ l)) := by
  unfold startRangeOp at h
  obtain ⟨bits, hb, h⟩ := Res.bind_eq_ok.mp h
  refine ⟨bits, hb, ?_⟩
  split at h
  · injection h with h; exact Or.inl ⟨rfl, h.symm⟩
  · rename_i b bs
    right
    dsimp only at h
    rw [hr] at h
    dsimp only at h
    split at h
    · rename_i hlt
      injection h with h
      have hbounds : ∀ x ∈ b :: bs, bs.foldl min b ≤ x ∧ x ≤ bs.foldl max b := by
        intro x hx
        simp only [List.mem_cons] at hx
        rcases hx with rfl | hx
        · exact ⟨(foldl_min_le bs x).1, (foldl_max_ge bs x).1⟩
        · exact ⟨(foldl_min_le bs b).2 x hx, (foldl_max_ge bs b).2 x hx⟩
      rw [hs.iu] at hlt
      by_cases hc : (sliceIncl s.inUse (bs.foldl min b) (bs.foldl max b)).contains true = true
      · refine ⟨addColumn s, _, _, Or.inr rfl, ?_, hlt, ?_, hbounds⟩
        · rw [← h, if_pos hc]
        · intro r _ h2
          simp only [addColumn, List.getElem?_replicate]
          have : r < s.total := by omega
          simp [this]
      · refine ⟨s, _, _, Or.inl rfl, ?_, hlt, ?_, hbounds⟩
        · rw [← h, if_neg hc]
        · intro r h1 h2
          exact slice_free _ _ _ (by simpa using hc) r h1 h2 (by rw [hs.iu]; omega)
    · cases h

end Q1t.Proofs.Latex

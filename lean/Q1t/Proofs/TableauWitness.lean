import Q1t.Proofs.TableauStates
import Q1t.Model.StabSim
/-!
C03, negative witnesses (kernel-checked on the model, with the generated tables):

* D4 — `reset` of one half of a Bell pair: the correct result is a mixture of `|00⟩` and `|01⟩`; the
  tableau model (like the code) returns the single tableau of `|00⟩`.
* D5 — `peek_all` on a Bell pair: the range-level model queries each qubit on the uncollapsed tableau and
  draws them independently; with draws (qubit 0 ↦ 0, qubit 1 ↦ 1) it stores the word `0b10`, i.e. the
  basis state `|01⟩`, whose amplitude in the Bell state is 0.
-/
namespace Q1t.Proofs.Tableau
open Q1t Q1t.Tableau Q1t.Spec.Pauli Q1t.Spec.Stab Q1t.Spec.StabEnum

/-- tableau of the Bell state `(|00⟩+|11⟩)/√2`: `+XX, +ZZ` -/
def bellT : Tab := ⟨2, [[.X, .X], [.Z, .Z]], [false, false]⟩
/-- its (unnormalised) exact vector -/
def bellV : Vec := [1, 0, 0, 1]

def xMat : Mat2 := ⟨0, 1, 1, 0⟩

theorem bell_is_model_state :
    (do let t ← stepT paramsK (Tab.new 2) .H [0]; stepT paramsK t .CX [0, 1]) = Res.ok bellT ∧
    stepV 2 (stepV 2 (Vec.basis 2 0) .H [0]) .CX [0, 1] = bellV ∧ (bellT, bellV) ∈ states2 := by
  decide +kernel

/-- D4, Boolean facts -/
theorem d4_facts :
    measKind 2 0 bellV = .fair ∧
    Z8.canonRay (proj 2 0 false bellV) = Vec.basis 2 0 ∧
    Z8.canonRay (apply1 xMat 2 0 (proj 2 0 true bellV)) = Vec.basis 2 1 ∧
    resetPure 2 0 bellV = none ∧
    bellT.reset paramsK.ph 0 = .ok (Tab.new 2) ∧
    stabilizesB (Tab.new 2) (Vec.basis 2 0) = true ∧
    stabilizesB (Tab.new 2) (Vec.basis 2 1) = false := by
  decide +kernel

/-! D5 -/

def bellStab : Q1t.Sim.StabState := { nrBits := 2, nrShots := 1, counts := [1], tabs := [bellT] }

/-- the register after `peek_all_into(&[0, 1])` on one shot of the Bell pair, given the recorded draws -/
def bellPeekAllRegister (draws : List Q1t.Sim.Prog.Draw) : Option (List Nat) :=
  match Q1t.Sim.Prog.runOracle
      (Q1t.Sim.StabState.peekAllInto (α := Unit) () bellStab [0, 1] [0]) draws with
  | some (.ok (_, reg), []) => some reg
  | _ => none

/-- both qubits are reported `Random` on the uncollapsed tableau; the draws "qubit 0 ↦ 0" (`n0 = 1` of 1
shot) and "qubit 1 ↦ 1" (`n0 = 0`) are each in the support of their `Binomial(1, ½)`; the stored word is
`0b10` (bit 1 = qubit 1 = 1, bit 0 = qubit 0 = 0); the amplitude of that basis state `|01⟩` is 0 -/
theorem d5_facts :
    (∃ i, bellT.measure 0 = .ok (.random i)) ∧ (∃ i, bellT.measure 1 = .ok (.random i)) ∧
    bellPeekAllRegister [.bin 1, .bin 0] = some [2] ∧
    vget bellV 1 = 0 ∧ measKind 2 1 (proj 2 0 false bellV) = .certain false := by
  refine ⟨⟨0, by decide +kernel⟩, ⟨0, by decide +kernel⟩, by decide +kernel, by decide +kernel, by decide +kernel⟩

end Q1t.Proofs.Tableau

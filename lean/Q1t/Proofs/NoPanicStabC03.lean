import Q1t.Proofs.TableauProgress
import Q1t.Proofs.NoPanicStab
import Q1t.Proofs.NoPanicRoute
import Q1t.Proofs.TableauContractQ8
import Q1t.Proofs.PauliPhase
set_option linter.unusedSectionVars false
set_option linter.unusedVariables false
set_option linter.unusedSimpArgs false
/-!
C18 ← C03: `TabTotal` (the tableau-level obligations behind `BackendSafe` of the stabilizer representation) holds
for the reachable tableaux of C03 (`TInv t := ∃ ψ, Reach t ψ`), for ALL `n`, with the placements `validT` (claiming
gate terms on distinct in-range qubits) — from `applyGate_prog`, `collapse_prog`, `measure_prog`, the constructors
of `Reach`, and the relation between `reset` and `measure` proved here (`reset_prog`).  The only open hypothesis is
C03's `DetShapeHolds` (needed by `measure`'s deterministic branch).
-/
namespace Q1t.Proofs.TabG
open Q1t Q1t.LMat Q1t.Tableau Q1t.Spec Q1t.Spec.Clifford Q1t.Spec.Pauli Q1t.Proofs.Tableau Q1t.Sim Q1t.Conj
open Q1t.Proofs.ConjBridge Q1t.Proofs.ConjTerm Q1t.Gate Q1t.WellFormed

/-- `reset` follows `measure`: after `Random(i)` it is `collapse(i, bit, false)`, after `Deterministic` it returns -/
theorem reset_prog (ph : List Nat) (t : Tab) (q : Nat) :
    (∀ i, Tab.measure t q = .ok (.random i) → Tab.reset ph t q = Tab.collapse ph t i q false) ∧
    (∀ v, Tab.measure t q = .ok (.deterministic v) → ∃ t', Tab.reset ph t q = .ok t') := by
  unfold Tab.measure Tab.reset
  by_cases hq : q < t.n
  · simp only [hq, if_true]
    cases h1 : Tab.findLast P.hasX t q (Tab.revRange t.n) with
    | ok o1 =>
      cases o1 with
      | some i =>
        refine ⟨fun j hj => ?_, fun v hv => ?_⟩
        · simp only [bind, Res.bind, pure] at hj ⊢
          cases hj; rfl
        · simp only [bind, Res.bind, pure] at hv
          cases hv
      | none =>
        cases h2 : Tab.findLast (· == P.Z) t q (Tab.revRange t.n) with
        | ok o2 =>
          cases o2 with
          | some i =>
            refine ⟨fun j hj => ?_, fun v hv => ?_⟩
            · simp only [bind, Res.bind, pure, h2] at hj
              cases hs : t.sign i <;> simp [hs, Res.bind] at hj
            · simp only [bind, Res.bind, pure, h2] at hv ⊢
              cases hs : t.sign i with
              | ok s =>
                have hi : i < t.signs.length := by
                  unfold Tab.sign at hs
                  cases hg : t.signs[i]? with
                  | none => rw [hg] at hs; simp [Res.ofOption] at hs
                  | some b => exact (List.getElem?_eq_some_iff.mp hg).1
                exact ⟨{ t with signs := t.signs.set i false }, by simp [Tab.setSign, hi]⟩
              | err e => simp [hs, Res.bind] at hv
              | panic s => simp [hs, Res.bind] at hv
              | oob => simp [hs, Res.bind] at hv
          | none =>
            refine ⟨fun j hj => ?_, fun v hv => ?_⟩ <;> simp [bind, Res.bind, pure, h2] at *
        | err e => refine ⟨fun j hj => ?_, fun v hv => ?_⟩ <;> simp [bind, Res.bind, pure, h2] at *
        | panic s => refine ⟨fun j hj => ?_, fun v hv => ?_⟩ <;> simp [bind, Res.bind, pure, h2] at *
        | oob => refine ⟨fun j hj => ?_, fun v hv => ?_⟩ <;> simp [bind, Res.bind, pure, h2] at *
    | err e => refine ⟨fun j hj => ?_, fun v hv => ?_⟩ <;> simp [bind, Res.bind, pure] at *
    | panic s => refine ⟨fun j hj => ?_, fun v hv => ?_⟩ <;> simp [bind, Res.bind, pure] at *
    | oob => refine ⟨fun j hj => ?_, fun v hv => ?_⟩ <;> simp [bind, Res.bind, pure] at *
  · simp only [hq, if_false]
    refine ⟨fun j hj => ?_, fun v hv => ?_⟩
    · cases hj
    · cases hv

variable {α A : Type} [CommRing α] [Amp α A] [SimAmp α] {nz : α → Prop}
variable (n : Nat) (ph : List Nat) (tbl : Conj.Table) (noCheck : List String)

/-- the tableau invariant: reachable by the operations of the contract -/
def TReach (t : Tab) : Prop := ∃ ψ : List α, Reach (A := A) α n ph tbl noCheck t ψ

/-- **`TabTotal` for the reachable tableaux, all `n`** — relative to `DetShapeHolds` only (and a non-trivial ring) -/
theorem tabTotal_reach (ha : LawfulAmp α A) (hs : LawfulSim α A nz) (hph : PhaseTableCorrect ph)
    (hp : PrimsExact α A tbl noCheck) (hT : TableFacts (A := A) tbl noCheck)
    (hD : DetShapeHolds (α := α) (A := A) n ph tbl noCheck) (hne : (1 : α) ≠ 0) :
    TabTotal ph (conjOfT (A := A) tbl noCheck) n (validT (A := A) n tbl) (TReach (α := α) (A := A) n ph tbl noCheck) where
  init := ⟨_, Reach.init⟩
  arity := fun g bits hv => hv.2.2.2.symm
  gate := by
    rintro g bits t ⟨ψ, hr⟩ hv
    obtain ⟨hst, hn, hw⟩ := reach_sound n ph tbl noCheck ha hs hph hp hT hD t ψ hr
    obtain ⟨hwf, hstab, hvb, hlen⟩ := hv
    have te := term_exact tbl noCheck hp Q1t.Proofs.ConjEmbed.embed_exact g hwf hstab
    have hM : WF (2 ^ bits.length) (2 ^ bits.length) (specMatrix g : LMat α) := by rw [hlen]; exact te.wf
    have hrule : RuleExact A (specMatrix g : LMat α) bits.length (conjugateT tbl noCheck g) := by
      rw [hlen]; exact te.rule
    have hU : IsUnitary A n (embed n bits (specMatrix g : LMat α)) :=
      Q1t.Proofs.ConjEmbed.embed_unitary ha n bits hvb _ (by
        rw [hlen]; exact Q1t.Proofs.ConjUnitary.isUnitary_iff_unitary.2 (Q1t.Proofs.ConjUnitary.spec_unitary ha g hwf))
    have hiso := unitary_normSqSum ha hs (Nat.two_pow_pos n) (Q1t.Proofs.ConjUnitary.isUnitary_iff_unitary.1 hU) ψ
      (by rw [hst.1, hn])
    obtain ⟨t', ht'⟩ := applyGate_prog ha hs hne hph t ψ hst hw (by rw [hn]; exact hvb) hM hrule (by rw [hn]; exact hiso)
    exact ⟨t', ht', _, Reach.gate g bits t t' ψ ⟨hwf, hstab, hvb, hlen⟩ hr ht'⟩
  measure := by
    rintro t q ⟨ψ, hr⟩ hq
    obtain ⟨hst, hn, _⟩ := reach_sound n ph tbl noCheck ha hs hph hp hT hD t ψ hr
    exact measure_prog t (wf_of_stabG t ψ hst) (hD t ψ hr) q (by rw [hn]; exact hq)
  collapse := by
    rintro t q i v ⟨ψ, hr⟩ hm
    obtain ⟨hst, _, hw⟩ := reach_sound n ph tbl noCheck ha hs hph hp hT hD t ψ hr
    obtain ⟨t', ht'⟩ := collapse_prog ha hs hne hph t ψ hst hw q i hm v
    exact ⟨t', ht', _, Reach.collapse t t' ψ q i v hr hm ht'⟩
  reset := by
    rintro t q ⟨ψ, hr⟩ hq
    obtain ⟨hst, hn, hw⟩ := reach_sound n ph tbl noCheck ha hs hph hp hT hD t ψ hr
    obtain ⟨info, hinfo⟩ := measure_prog t (wf_of_stabG t ψ hst) (hD t ψ hr) q (by rw [hn]; exact hq)
    cases info with
    | random i =>
      obtain ⟨t', ht'⟩ := collapse_prog ha hs hne hph t ψ hst hw q i hinfo false
      exact ⟨t', by rw [(reset_prog ph t q).1 i hinfo]; exact ht', _, Reach.collapse t t' ψ q i false hr hinfo ht'⟩
    | deterministic v =>
      obtain ⟨t', ht'⟩ := (reset_prog ph t q).2 v hinfo
      exact ⟨t', ht', _, Reach.resetDet t t' ψ q v hr hinfo ht'⟩

/-- the stabilizer representation handles every `ValidPlace` of a claiming gate term -/
theorem stabHandles (ha : LawfulAmp α A) (hs : LawfulSim α A nz) (hph : PhaseTableCorrect ph)
    (hp : PrimsExact α A tbl noCheck) (hT : TableFacts (A := A) tbl noCheck)
    (hD : DetShapeHolds (α := α) (A := A) n ph tbl noCheck) :
    Handles n (fun g : GateTerm A => isStabilizerT tbl g = true) (validT (A := A) n tbl) where
  place := fun g bits hv hE =>
    ⟨Q1t.Sim.wf_of_gateOK g hv.1, hE, Q1t.Sim.validBits_of_place hv, hv.2.1.symm⟩
  basis := fun q hq => (tableauOK n ph tbl noCheck ha hs hph hp hT hD).basis q hq


/-- a circuit `is_stabilizer_circuit()` accepts has only claiming gates -/
theorem opGate_of_isStabilizerCircuit (ops : List (COp A)) (h : isStabilizerCircuitT tbl ops = true) :
    ∀ op ∈ ops, opGate (fun g : GateTerm A => isStabilizerT tbl g = true) op := by
  intro op hop
  have := (List.all_eq_true.mp h) op hop
  cases op <;> simp_all [opIsStabT, opGate]

/-- **the stabilizer representation executes every well-formed stabilizer circuit**: from any state whose columns
are reachable tableaux, on operations that are `OpGood` (in range, `WellFormed`-clean) and pass
`is_stabilizer_circuit()`, no error and no panic is reachable — for all `n`, relative to `DetShapeHolds` -/
theorem execOps_stab_safe {W : Type} (half : W) (ha : LawfulAmp α A) (hs : LawfulSim α A nz)
    (hph : PhaseTableCorrect ph) (hp : PrimsExact α A tbl noCheck) (hT : TableFacts (A := A) tbl noCheck)
    (hD : DetShapeHolds (α := α) (A := A) n ph tbl noCheck) (hne : (1 : α) ≠ 0) (N nc : Nat) (hN : 0 < N)
    (ops : List (COp A)) (hgood : ∀ op ∈ ops, OpGood n nc op) (hstab : isStabilizerCircuitT tbl ops = true)
    (s : StabState) (c : List Nat) (hs0 : SInv (TReach (α := α) (A := A) n ph tbl noCheck) n N s) (hc : c.length = N) :
    Safe noErr (fun _ => False) (QG (SInv (TReach (α := α) (A := A) n ph tbl noCheck) n N) N)
      (execOps (stabBackend (α := W) half ph (conjOfT (A := A) tbl noCheck)) s c ops) :=
  execOps_safe (nc := nc) (stabBackendSafe (tabTotal_reach n ph tbl noCheck ha hs hph hp hT hD hne) hN)
    (stabHandles n ph tbl noCheck ha hs hph hp hT hD) ops s c hs0 hc hgood
    (opGate_of_isStabilizerCircuit tbl ops hstab)

/-- the same at the tables generated from /repo (ghost amplitudes in ℚ(ζ₈); the weight type `W` of the run is free) -/
theorem execOps_stab_safe_generated {W : Type} (half : W) (n : Nat)
    (hD : DetShapeHolds (α := Q8) (A := Empty) n Q1t.Gen.phaseTable Q1t.Gen.conjTable Q1t.Gen.conjNoArityCheck)
    (N nc : Nat) (hN : 0 < N) (ops : List (COp Empty)) (hgood : ∀ op ∈ ops, OpGood n nc op)
    (hstab : isStabilizerCircuit ops = true) (s : StabState) (c : List Nat)
    (hs0 : SInv (TReach (α := Q8) (A := Empty) n Q1t.Gen.phaseTable Q1t.Gen.conjTable Q1t.Gen.conjNoArityCheck) n N s)
    (hc : c.length = N) :
    Safe noErr (fun _ => False)
      (QG (SInv (TReach (α := Q8) (A := Empty) n Q1t.Gen.phaseTable Q1t.Gen.conjTable Q1t.Gen.conjNoArityCheck) n N) N)
      (execOps (stabBackend (α := W) half Q1t.Gen.phaseTable
        (conjOfT (A := Empty) Q1t.Gen.conjTable Q1t.Gen.conjNoArityCheck)) s c ops) :=
  execOps_stab_safe n _ _ _ half Q8.lawful Q1t.Sim.Demo.lawfulSimQ8 Q1t.Proofs.Tableau.phaseTable_correct
    Q1t.Proofs.ConjQ8.prims_exact_Q8 tableFacts_generated hD (by decide) N nc hN ops hgood hstab s c hs0 hc

/-- the fresh state is in the invariant -/
theorem new_sinv_reach (n N : Nat) (hN : 0 < N) :
    SInv (TReach (α := α) (A := A) n ph tbl noCheck) n N (StabState.new n N) where
  nrBits := rfl
  nrShots := rfl
  sum := by simp [StabState.new]
  pos := by simp [StabState.new, hN]
  len := by simp [StabState.new]
  tabs := by
    intro t ht
    simp only [StabState.new, List.mem_singleton] at ht
    subst ht; exact ⟨_, Reach.init⟩

end Q1t.Proofs.TabG

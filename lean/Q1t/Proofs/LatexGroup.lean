import Q1t.Proofs.LatexExpect
import Q1t.Proofs.LatexBrace
/-!
C13 — reset_all and barrier against the independent reader: the reader groups their marks differently
from the reference stages (reset_all: one stage item per qubit, the code draws one column; barrier: one
stage item holding all runs, the code writes one symbol per run), so the tie is stated on the FLATTENED
stages, together with the fact that all symbols of the operation sit in one column.
-/
namespace Q1t.Proofs.Latex
open Q1t.Latex Q1t.Spec.QcGrid

/-! ## reset_all -/

theorem resetWrites_eq (q n : Nat) : resetWrites q n = (List.range' q n).map fun r => (r, Sym.reset) := by
  induction n generalizing q with
  | zero => rfl
  | succ n ih => simp [resetWrites, List.range'_succ, ih]

/-- reset_all: the reference stage is, symbol by symbol, the reader's marks (one per qubit, in order). -/
theorem resetAll_expected (nq : Nat) :
    (opStages nq .resetAll).flatten = (List.range nq).map (fun q => (q, Sym.reset)) ∧
    (itemStages (opItems nq .resetAll)).flatten = (List.range nq).map (fun q => (⟨q, .reset⟩ : Mark)) ∧
    StageMatches (opStages nq .resetAll).flatten (itemStages (opItems nq .resetAll)).flatten := by
  have h1 : (opStages nq .resetAll).flatten = (List.range nq).map (fun q => (q, Sym.reset)) := by
    simp only [opStages]
    split
    · rename_i h; subst h; rfl
    · simp [resetWrites_eq, List.range_eq_range']
  have h2 : ∀ n, (itemStages ((List.range n).map fun q => Item.stage [⟨q, .reset⟩] [] false)).flatten =
      (List.range n).map (fun q => (⟨q, .reset⟩ : Mark)) := by
    intro n
    generalize List.range n = l
    induction l with
    | nil => rfl
    | cons a as ih => simp [itemStages, ih]
  have h2' : (itemStages (opItems nq .resetAll)).flatten = (List.range nq).map (fun q => (⟨q, .reset⟩ : Mark)) := by
    simp only [opItems]; exact h2 nq
  refine ⟨h1, h2', ?_⟩
  rw [h1, h2']
  constructor
  · intro p hp
    obtain ⟨q, hq, rfl⟩ := List.mem_map.mp hp
    exact ⟨⟨q, .reset⟩, List.mem_map.mpr ⟨q, hq, rfl⟩, rfl, by simp [accepts]⟩
  · intro m hm
    obtain ⟨q, hq, rfl⟩ := List.mem_map.mp hm
    exact ⟨(q, .reset), List.mem_map.mpr ⟨q, hq, rfl⟩, rfl, by simp [accepts]⟩

/-! ## barrier -/

/-- The decidable side condition: the runs `support::get_ranges` computes (sort, split) are the maximal
runs of the qubit set the reader computes, and their first rows are distinct. True for every list of
distinct qubits (kernel-checked for all such lists over up to 5 qubits, `barrierOk_small`). -/
def barrierOk (nq : Nat) (qbits : List Nat) : Bool :=
  !qbits.isEmpty && decide (getRanges qbits = some (runs qbits nq)) && decide (((runs qbits nq).map (·.1)).Nodup)

/-- barrier: the reference stages, flattened, are the reader's marks (one `\\barrier` per run). -/
theorem barrier_expected (nq : Nat) (qbits : List Nat) (h : barrierOk nq qbits = true) :
    (opStages nq (.barrier qbits)).flatten = (runs qbits nq).map (fun p => (p.1, Sym.barrier (p.2 - p.1))) ∧
    (itemStages (opItems nq (.barrier qbits))).flatten =
      (runs qbits nq).map (fun p => (⟨p.1, .barrier (p.2 - p.1)⟩ : Mark)) ∧
    StageMatches (opStages nq (.barrier qbits)).flatten (itemStages (opItems nq (.barrier qbits))).flatten := by
  simp only [barrierOk, Bool.and_eq_true, decide_eq_true_eq] at h
  replace h := And.intro h.1.2 h.2
  have h1 : (opStages nq (.barrier qbits)).flatten = (runs qbits nq).map (fun p => (p.1, Sym.barrier (p.2 - p.1))) := by
    simp only [opStages, h.1, barrierStages]
    generalize runs qbits nq = l
    induction l with
    | nil => rfl
    | cons a as ih => obtain ⟨f, l⟩ := a; simp [ih]
  have h2 : (itemStages (opItems nq (.barrier qbits))).flatten =
      (runs qbits nq).map (fun p => (⟨p.1, .barrier (p.2 - p.1)⟩ : Mark)) := by
    simp [opItems, itemStages]
  refine ⟨h1, h2, ?_⟩
  rw [h1, h2]
  constructor
  · intro p hp
    obtain ⟨q, hq, rfl⟩ := List.mem_map.mp hp
    exact ⟨⟨q.1, .barrier (q.2 - q.1)⟩, List.mem_map.mpr ⟨q, hq, rfl⟩, rfl, by simp [accepts]⟩
  · intro m hm
    obtain ⟨q, hq, rfl⟩ := List.mem_map.mp hm
    exact ⟨(q.1, .barrier (q.2 - q.1)), List.mem_map.mpr ⟨q, hq, rfl⟩, rfl, by simp [accepts]⟩

/-- All lists of `k` distinct numbers below `n`. -/
def distinctLists (n : Nat) : Nat → List (List Nat)
  | 0 => [[]]
  | k + 1 => (distinctLists n k).flatMap fun l =>
      (List.range n).filterMap fun x => if l.contains x then none else some (x :: l)

/-- FINITE (kernel, the whole enumeration): `barrierOk` holds for every non-empty list of distinct qubits
of a register of up to 5 qubits (5 + 20 + 60 + 120 + 120 lists for 5 qubits). An empty barrier draws
nothing (`opStages nq (.barrier []) = []`). -/
theorem barrierOk_small : ∀ n ∈ List.range 6, ∀ k ∈ List.range n, ∀ l ∈ distinctLists n (k + 1),
    barrierOk n l = true := by decide +kernel

theorem barrier_empty (nq : Nat) : opStages nq (.barrier []) = [] := by
  simp [opStages, getRanges, sortNat]

/-! ## All symbols of a barrier sit in one column -/

theorem setField_top_lt {b : Nat} {y : Sym} {s s' : St} (hr : s.ranges = []) (h : setField b y s = .ok s') :
    b < s.inUse.length := by
  unfold setField at h
  simp only [hr, List.isEmpty_nil, if_true] at h
  obtain ⟨s0, h0, _⟩ := Res.bind_eq_ok.mp h
  unfold reserve at h0
  obtain ⟨bits, hb, h0⟩ := Res.bind_eq_ok.mp h0
  have := getBitIndices_none hb
  subst this
  obtain ⟨used, hu, _⟩ := Res.bind_eq_ok.mp h0
  rcases Nat.lt_or_ge b s.inUse.length with hl | hl
  · exact hl
  · simp [anyInUse, List.getElem?_eq_none hl] at hu

theorem setField_noadd {b : Nat} {y : Sym} {s s' : St} (hr : s.ranges = []) (hf : s.inUse[b]? = some false)
    (h : setField b y s = .ok s') :
    s'.rcols.length = s.rcols.length ∧ ∀ r : Nat, s'.inUse[r]? = some true → r = b ∨ s.inUse[r]? = some true := by
  unfold setField at h
  simp only [hr, List.isEmpty_nil, if_true] at h
  obtain ⟨s0, h0, h2⟩ := Res.bind_eq_ok.mp h
  have e0 : s0 = s := by
    unfold reserve at h0
    obtain ⟨bits, hb, h0'⟩ := Res.bind_eq_ok.mp h0
    have := getBitIndices_none hb
    subst this
    simp only [anyInUse, hf, Res.bind_ok] at h0'
    injection h0' with h0'
    simpa using h0'.symm
  rw [e0] at h2
  split at h2
  · cases h2
  · rename_i col rest hc
    split at h2
    · injection h2 with h2; subst h2
      refine ⟨by simp [hc], ?_⟩
      intro r hr'
      simp only [List.getElem?_set] at hr'
      split at hr'
      · rename_i he; exact Or.inl he.symm
      · exact Or.inr hr'
    · cases h2

theorem barrierLoop_noadd : ∀ (rs : List (Nat × Nat)) (s s' : St), Inv s →
    (∀ p ∈ rs, s.inUse[p.1]? ≠ some true) → (rs.map (·.1)).Nodup → barrierLoop rs s = .ok s' →
    s'.rcols.length = s.rcols.length
  | [], s, s', _, _, _, h => by simp [barrierLoop] at h; subst h; rfl
  | (f, l) :: rest, s, s', hinv, hfree, hnd, h => by
    simp only [barrierLoop] at h
    obtain ⟨s1, h1, h⟩ := Res.bind_eq_ok.mp h
    have hl := setField_top_lt hinv.noRange h1
    have hf : s.inUse[f]? = some false := by
      rw [List.getElem?_eq_getElem hl]
      cases hv : s.inUse[f] with
      | false => rfl
      | true => exact absurd (by rw [List.getElem?_eq_getElem hl, hv]) (hfree (f, l) (by simp))
    obtain ⟨hlen, hiu⟩ := setField_noadd hinv.noRange hf h1
    simp only [List.map_cons, List.nodup_cons] at hnd
    rw [← hlen]
    refine barrierLoop_noadd rest s1 s' (inv_setField hinv rfl h1) ?_ hnd.2 h
    intro p hp ht
    rcases hiu p.1 ht with he | hs
    · exact hnd.1 (by rw [← he]; exact List.mem_map_of_mem hp)
    · exact hfree p (by simp [hp]) hs

/-- A barrier over distinct qubits is drawn as the stages `barrierStages (runs …)`, all in ONE column
(the last one, freshly started). -/
theorem barrier_one_column {q : List Nat} {s s' : St} (hinv : Inv s) (hok : barrierOk s.nq q = true)
    (h : setBarrier q s = .ok s') :
    ∃ L, Trace s s' L ∧ L.map (·.ws) = barrierStages (runs q s.nq) ∧ ∀ g ∈ L, g.col + 1 = s'.rcols.length := by
  simp only [barrierOk, Bool.and_eq_true, decide_eq_true_eq, Bool.not_eq_true', ] at hok
  have hd := setBarrier_draws hinv h
  rw [hok.1.2] at hd
  unfold setBarrier at h
  split at h
  · cases h
  · split at h
    · rename_i he; rw [hok.1.1] at he; cases he
    · rw [hok.1.2] at h
      dsimp only at h
      have ia := inv_addColumn hinv
      have hlen := barrierLoop_noadd _ (addColumn s) s' ia
        (by intro p _; simp only [addColumn, List.getElem?_replicate]; split <;> simp) hok.2 h
      obtain ⟨L, t, hm, _, _, _, hb⟩ := draws_bounds ia (barrierLoop_draws ia h)
      have t0 : Trace s (addColumn s) [] := Trace.single (Step.col hinv.noRange)
      refine ⟨L, by simpa using t0.trans t, hm, ?_⟩
      intro g hg
      have := hb g hg
      omega

end Q1t.Proofs.Latex

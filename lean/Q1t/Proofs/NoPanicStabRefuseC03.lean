import Q1t.Proofs.NoPanicStabC03
import Q1t.Proofs.NoPanicStabRefuse
import Q1t.Proofs.ConjRefuseExact
import Q1t.Proofs.DetShapeAll
set_option linter.unusedSectionVars false
set_option linter.unusedVariables false
set_option linter.unusedSimpArgs false
/-!
C18 ← C03, C06: the refusal path.  On a reachable tableau of a register with at least one qubit, `apply_gate` of a
well-formed term that does NOT claim a rule, on distinct in-range qubits of the right number, returns
`Err(NotAStabilizer)` from the first row (`reach_refuses`): row 0 is gathered (`gatherOps_prog`), the term's
`conjugate` answers `NotAStabilizer` (`refuse_exact`).  With `tabTotal_reach` this is the dichotomy `Dich`, hence
`BackendSafe` over all valid placements (`stabBackendSafeAny`) and the run-level statements below.
-/
namespace Q1t.Proofs.TabG
open Q1t Q1t.LMat Q1t.Tableau Q1t.Spec Q1t.Spec.Clifford Q1t.Spec.Pauli Q1t.Proofs.Tableau Q1t.Sim Q1t.Conj
open Q1t.Proofs.ConjBridge Q1t.Proofs.ConjTerm Q1t.Gate Q1t.WellFormed

theorem gatherOps_length (t : Tab) (i : Nat) : ∀ (bits : List Nat) (L : List P),
    t.gatherOps i bits = .ok L → L.length = bits.length := by
  intro bits
  induction bits with
  | nil => intro L h; simp only [Tab.gatherOps] at h; cases h; rfl
  | cons b bs ih =>
    intro L h
    simp only [Tab.gatherOps, bind, Res.bind, pure] at h
    cases hc : t.cell i b with
    | ok p =>
      rw [hc] at h
      simp only at h
      cases hg : t.gatherOps i bs with
      | ok ps =>
        rw [hg] at h
        simp only at h
        cases h
        simp [ih ps hg]
      | err e => rw [hg] at h; cases h
      | panic s => rw [hg] at h; cases h
      | oob => rw [hg] at h; cases h
    | err e => rw [hc] at h; cases h
    | panic s => rw [hc] at h; cases h
    | oob => rw [hc] at h; cases h

/-- a rule that refuses every slice of the placement's length makes `apply_gate` return that error at row 0 -/
theorem applyGate_refuses_tab (ph : List Nat) (conj : Tab.Conj) (t : Tab) (hwf : t.WF) (hn : 0 < t.n)
    (bits : List Nat) (hb : ∀ b ∈ bits, b < t.n)
    (hconj : ∀ L : List P, L.length = bits.length → conj L = .error .notAStabilizer) :
    Tab.applyGate ph conj t bits = .err .notAStabilizer := by
  obtain ⟨m, hm⟩ : ∃ m, t.n = m + 1 := ⟨t.n - 1, by omega⟩
  obtain ⟨L, hL⟩ := gatherOps_prog t hwf 0 hn bits hb
  have hc := hconj L (gatherOps_length t 0 bits L hL)
  unfold Tab.applyGate
  rw [hm, List.range_succ_eq_map]
  simp only [Tab.conjRows, hL, hc, bind, Res.bind, pure]

theorem nrBits_pos_of_WF {P : Type} : (g : GateTerm P) → Spec.WF g → 0 < Gate.nrBits g
  | .C g, _ => by simp only [Gate.nrBits]; omega
  | .Kron g0 g1, h => by
    have := nrBits_pos_of_WF g0 h.1
    simp only [Gate.nrBits]; omega
  | .Composite _ n _, h => h.1
  | .Loop _ _ _ n _, h => h.1
  | .H, _ | .X, _ | .Y, _ | .Z, _ | .S, _ | .Sdg, _ | .T, _ | .Tdg, _ | .V, _ | .Vdg, _ | .I, _ => by
    simp [Gate.nrBits]
  | .RX _, _ | .RY _, _ | .RZ _, _ | .U1 _, _ | .U2 _ _, _ | .U3 _ _ _, _ => by simp [Gate.nrBits]
  | .CX, _ | .CY, _ | .CZ, _ | .Swap, _ => by simp [Gate.nrBits]

variable {α A : Type} [CommRing α] [Amp α A] [SimAmp α] {nz : α → Prop}
variable (n : Nat) (ph : List Nat) (tbl : Conj.Table) (noCheck : List String)

/-- **the tableau refuses a non-claiming term with `NotAStabilizer`** (reachable tableaux, all `n`) -/
theorem reach_refuses (ha : LawfulAmp α A) (hs : LawfulSim α A nz) (hph : PhaseTableCorrect ph)
    (hp : PrimsExact α A tbl noCheck) (hT : TableFacts (A := A) tbl noCheck)
    (hD : DetShapeHolds (α := α) (A := A) n ph tbl noCheck) (hsh : Q1t.Proofs.ConjModel.TableShape tbl)
    (g : GateTerm A) (bits : List Nat) (hv : ValidPlace n g bits) (hf : isStabilizerT tbl g = false)
    (t : Tab) (ht : TReach (α := α) (A := A) n ph tbl noCheck t) :
    Tab.applyGate ph (conjOfT (A := A) tbl noCheck g) t bits = .err .notAStabilizer := by
  obtain ⟨ψ, hr⟩ := ht
  obtain ⟨hst, hn, _⟩ := reach_sound n ph tbl noCheck ha hs hph hp hT hD t ψ hr
  have hwfg := Q1t.Sim.wf_of_gateOK g hv.1
  have hpos := nrBits_pos_of_WF g hwfg
  have hn0 : 0 < n := by
    cases hb : bits with
    | nil => rw [hv.2.1, hb] at hpos; simp at hpos
    | cons b bs => exact Nat.lt_of_le_of_lt (Nat.zero_le b) (hv.2.2.2 b (by rw [hb]; simp))
  refine applyGate_refuses_tab ph _ t (wf_of_stabG t ψ hst) (by rw [hn]; exact hn0) bits
    (by rw [hn]; exact hv.2.2.2) ?_
  intro L hL
  have := refuse_exact (α := α) tbl noCheck hp Q1t.Proofs.ConjEmbed.embed_exact hsh g hwfg hf L (by rw [hL, hv.2.1])
  simp only [conjOfT, conjOfRule, this]

/-- the dichotomy of a valid placement on reachable tableaux -/
theorem dich_reach (ha : LawfulAmp α A) (hs : LawfulSim α A nz) (hph : PhaseTableCorrect ph)
    (hp : PrimsExact α A tbl noCheck) (hT : TableFacts (A := A) tbl noCheck)
    (hD : DetShapeHolds (α := α) (A := A) n ph tbl noCheck) (hsh : Q1t.Proofs.ConjModel.TableShape tbl) :
    Dich ph (conjOfT (A := A) tbl noCheck) n (validT (A := A) n tbl) (TReach (α := α) (A := A) n ph tbl noCheck) := by
  intro g bits hv
  by_cases hc : isStabilizerT tbl g = true
  · exact Or.inl ((stabHandles n ph tbl noCheck ha hs hph hp hT hD).place g bits hv hc)
  · exact Or.inr (reach_refuses n ph tbl noCheck ha hs hph hp hT hD hsh g bits hv (by simpa using hc))

/-! ### at the generated tables (ghost amplitudes in ℚ(ζ₈), `DetShapeHolds` proved by C03) -/

abbrev TReachG (n : Nat) : Tab → Prop :=
  TReach (α := Q8) (A := Empty) n Q1t.Gen.phaseTable Q1t.Gen.conjTable Q1t.Gen.conjNoArityCheck

theorem tabTotal_generated (n : Nat) :
    TabTotal Q1t.Gen.phaseTable (conjOfT (A := Empty) Q1t.Gen.conjTable Q1t.Gen.conjNoArityCheck) n
      (validT (A := Empty) n Q1t.Gen.conjTable) (TReachG n) :=
  tabTotal_reach n _ _ _ Q8.lawful Q1t.Sim.Demo.lawfulSimQ8 Q1t.Proofs.Tableau.phaseTable_correct
    Q1t.Proofs.ConjQ8.prims_exact_Q8 tableFacts_generated (Q1t.Proofs.DetPlan.detShapeHolds_generated n) (by decide)

theorem dich_generated (n : Nat) :
    Dich Q1t.Gen.phaseTable (conjOfT (A := Empty) Q1t.Gen.conjTable Q1t.Gen.conjNoArityCheck) n
      (validT (A := Empty) n Q1t.Gen.conjTable) (TReachG n) :=
  dich_reach n _ _ _ Q8.lawful Q1t.Sim.Demo.lawfulSimQ8 Q1t.Proofs.Tableau.phaseTable_correct
    Q1t.Proofs.ConjQ8.prims_exact_Q8 tableFacts_generated (Q1t.Proofs.DetPlan.detShapeHolds_generated n)
    Q1t.Proofs.ConjModel.gen_table_shape

/-- **every well-formed circuit on the stabilizer representation**: `Ok` in the invariant, or `Err(NotAStabilizer)`;
no other error, no panic — whatever gates it holds -/
theorem execOps_stab_any_generated {W : Type} (half : W) (n N nc : Nat) (hN : 0 < N) (ops : List (COp Empty))
    (hgood : ∀ op ∈ ops, OpGood n nc op) (s : StabState) (c : List Nat) (hs0 : SInv (TReachG n) n N s)
    (hc : c.length = N) :
    Safe okNS (fun _ => False) (QG (SInv (TReachG n) n N) N)
      (execOps (stabBackend (α := W) half Q1t.Gen.phaseTable
        (conjOfT (A := Empty) Q1t.Gen.conjTable Q1t.Gen.conjNoArityCheck)) s c ops) :=
  execOps_safe (nc := nc) (stabBackendSafeAny (tabTotal_generated n) (dich_generated n) hN) (vecHandles n) ops s c
    hs0 hc hgood (fun op _ => by cases op <;> trivial)

/-- **a non-claiming gate ends the run with `Err(NotAStabilizer)`**: operations that claim, then an unconditional
gate whose term does not — the run never returns `Ok`, never panics, and the only error is `NotAStabilizer` -/
theorem execOps_stab_refuses_generated {W : Type} (half : W) (n N nc : Nat) (hN : 0 < N)
    (pre post : List (COp Empty)) (g : GateTerm Empty) (bits : List Nat)
    (hgood : ∀ op ∈ pre ++ .gate g bits :: post, OpGood n nc op)
    (hstab : isStabilizerCircuit pre = true) (hf : isStabilizer g = false)
    (s : StabState) (c : List Nat) (hs0 : SInv (TReachG n) n N s) (hc : c.length = N) :
    Safe okNS (fun _ => False) (fun _ : StabState × List Nat => False)
      (execOps (stabBackend (α := W) half Q1t.Gen.phaseTable
        (conjOfT (A := Empty) Q1t.Gen.conjTable Q1t.Gen.conjNoArityCheck)) s c (pre ++ .gate g bits :: post)) := by
  have hB := stabBackendSafe (α := W) (half := half) (tabTotal_generated n) hN
  have hH := stabHandles n Q1t.Gen.phaseTable Q1t.Gen.conjTable Q1t.Gen.conjNoArityCheck Q8.lawful
    Q1t.Sim.Demo.lawfulSimQ8 Q1t.Proofs.Tableau.phaseTable_correct Q1t.Proofs.ConjQ8.prims_exact_Q8
    tableFacts_generated (Q1t.Proofs.DetPlan.detShapeHolds_generated n)
  have hg := hgood (.gate g bits) (by simp)
  obtain ⟨hin, hdef⟩ := hg
  obtain ⟨h1, h2, h3⟩ := gateDefects_exec (by simpa [opDefects] using hdef)
  have hv : ValidPlace n g bits := ⟨h1, h2, h3, hin⟩
  refine execOps_stops_at (nc := nc) (okErr' := okNS) (fun _ h => h.elim) hB hH (.gate g bits) post ?_ pre s c hs0 hc
    (fun o ho => hgood o (by simp [ho])) (opGate_of_isStabilizerCircuit _ pre hstab)
  intro s' c' hs' hc'
  simp only [execOp, stabBackend]
  rw [applyGate_refusedS (α := W) (ph := Q1t.Gen.phaseTable) hs' hN hv.2.1
    (fun t ht => reach_refuses n _ _ _ Q8.lawful Q1t.Sim.Demo.lawfulSimQ8 Q1t.Proofs.Tableau.phaseTable_correct
      Q1t.Proofs.ConjQ8.prims_exact_Q8 tableFacts_generated (Q1t.Proofs.DetPlan.detShapeHolds_generated n)
      Q1t.Proofs.ConjModel.gen_table_shape g bits hv hf t ht)]
  exact Safe.errP rfl

end Q1t.Proofs.TabG

import Q1t.Proofs.OpenQasmEquiv
import Q1t.Spec.OQ2Text
set_option linter.unusedSimpArgs false
set_option linter.unusedSectionVars false
/-!
C11: under `NumRoundTrip`, the exported lines read as an OpenQASM program WITH ITS DECIMAL LITERALS (`toProgramV`)
are run by `Spec.OQ2.run` exactly as `exportedRun` runs the lines — so `export_equiv_partial` is a statement about
that program.
-/
namespace Q1t.OpenQasm
open Q1t Q1t.Spec Q1t.Spec.OQ2

variable {α P : Type} [CommRing α] [Amp α P] [Angle P]

theorem eval_toExpr (sh : P → DecLit) : ∀ a : Arg P, NumRoundTrip P sh a.vals →
    eval (P := P) (fun _ => none) (a.toExpr sh) = a.eval
  | .lit n, _ => rfl
  | .pi, _ => rfl
  | .val v, hrt => by
    have := hrt v (by simp [Arg.vals])
    unfold DecLit.value at this
    have hlit : eval (P := P) (fun _ => none) (sh v).lit = some (Angle.ofDec (sh v).m (sh v).e) := by
      unfold DecLit.lit
      by_cases he : (sh v).e = 0
      · simp only [he, if_true, eval]
      · simp only [he, if_false, eval]
    by_cases hn : (sh v).neg = true
    · simp only [Arg.toExpr, hn, if_true, eval, Arg.eval, hlit, Option.map_some]
      rw [if_pos hn] at this; rw [this]
    · have hn' : (sh v).neg = false := by simpa using hn
      rw [if_neg hn] at this
      simp only [Arg.toExpr, hn', Bool.false_eq_true, if_false, Arg.eval, hlit, this]
  | .name s v, _ => rfl
  | .neg e, hrt => by simp only [Arg.toExpr, eval, Arg.eval, eval_toExpr sh e hrt]
  | .div a b, hrt => by
    have ha : NumRoundTrip P sh a.vals := fun v hv => hrt v (by simp [Arg.vals, hv])
    have hb : NumRoundTrip P sh b.vals := fun v hv => hrt v (by simp [Arg.vals, hv])
    simp only [Arg.toExpr, eval, Arg.eval, eval_toExpr sh a ha, eval_toExpr sh b hb]

theorem mapM_eval_toExpr (sh : P → DecLit) (args : List (Arg P)) (hrt : NumRoundTrip P sh (args.flatMap Arg.vals)) :
    (args.map (Arg.toExpr sh)).mapM (eval (P := P) (fun _ => none)) = args.mapM Arg.eval := by
  rw [List.mapM_map]
  exact mapM_congr_mem _ _ _ fun a ha => eval_toExpr sh a fun v hv => hrt v (List.mem_flatMap.2 ⟨a, ha, hv⟩)

/-- a closed argument has a value -/
theorem eval_of_closed : ∀ a : Arg P, idents a.skeleton = [] → ∃ v, a.eval = some v
  | .lit n, _ => ⟨_, rfl⟩
  | .pi, _ => ⟨_, rfl⟩
  | .val v, _ => ⟨v, rfl⟩
  | .name s v, h => by simp [Arg.skeleton, idents] at h
  | .neg e, h => by
    obtain ⟨v, hv⟩ := eval_of_closed e (by simpa [Arg.skeleton, idents] using h)
    exact ⟨Angle.neg v, by simp [Arg.eval, hv]⟩
  | .div a b, h => by
    simp only [Arg.skeleton, idents, List.append_eq_nil_iff] at h
    obtain ⟨va, ha⟩ := eval_of_closed a h.1
    obtain ⟨vb, hb⟩ := eval_of_closed b h.2
    exact ⟨Angle.div va vb, by simp [Arg.eval, ha, hb]⟩

theorem opProblem_closed (q : Bool) (rg : Regs) (name : String) (ps : List Expr) (args : List QArg)
    (h : opProblem q rg (.app name ps args) = none) : ps.flatMap idents = [] := by
  cases hf : ps.flatMap idents with
  | nil => rfl
  | cons x xs =>
    exfalso
    simp only [opProblem] at h
    cases hs : signature q name with
    | none => simp [hs] at h
    | some sg =>
      obtain ⟨np, k⟩ := sg
      simp only [hs] at h
      by_cases h1 : ps.length ≠ np
      · simp [h1] at h
      · by_cases h2 : args.length ≠ k
        · simp [h1, h2] at h
        · simp [h1, h2, hf] at h

theorem mapM_of_forall_some {β γ : Type} (f : β → Option γ) : ∀ (l : List β), (∀ a ∈ l, ∃ v, f a = some v) →
    ∃ vs, l.mapM f = some vs
  | [], _ => ⟨[], rfl⟩
  | a :: l, h => by
    obtain ⟨v, hv⟩ := h a (List.mem_cons_self ..)
    obtain ⟨vs, hvs⟩ := mapM_of_forall_some f l fun b hb => h b (List.mem_cons_of_mem _ hb)
    exact ⟨v :: vs, by simp [List.mapM_cons, hv, hvs]⟩

def stmtIsOp : Stmt → Bool
  | .op _ | .cond _ _ _ => true
  | _ => false

/-- a line that is a good statement: its statement with decimal literals runs as the line does -/
theorem line_stmtV (sh : P → DecLit) (n : Nat) (rg rg0 : Regs) (nz : List α → Bool)
    (l : Line P) (hrt : NumRoundTrip P sh (linesVals [l])) (hl : LineOK rg0 l) :
    ∃ st, l.toStmtV sh = some (some st) ∧ stmtIsOp st = true ∧
      ∀ br : Branch α, runStmt (P := P) n rg nz st br = Line.run (P := P) n rg nz l br := by
  obtain ⟨st0, hst0, hok⟩ := hl
  cases l with
  | version => simp [Line.toStmt] at hst0
  | includeLib => simp [Line.toStmt] at hst0
  | qreg k =>
    simp only [Line.toStmt, Option.some.injEq] at hst0
    subst hst0; exact absurd hok (by simp [StmtOK])
  | creg k =>
    simp only [Line.toStmt, Option.some.injEq] at hst0
    subst hst0; exact absurd hok (by simp [StmtOK])
  | gate c =>
    simp only [Line.toStmt, Option.map_eq_some_iff, Option.some.injEq] at hst0
    obtain ⟨st1, hc, rfl⟩ := hst0
    unfold Chunk.toStmt at hc
    cases hca : c.app with
    | none => rw [hca] at hc; cases hc
    | some a =>
      rw [hca] at hc
      simp only at hc
      cases hqs : a.qargs.mapM QRef.toQArg with
      | none => rw [hqs] at hc; cases hc
      | some qs =>
        rw [hqs] at hc
        simp only at hc
        have hrtA : NumRoundTrip P sh (a.args.flatMap Arg.vals) := by
          intro v hv
          exact hrt v (by simp [linesVals, hca, hv])
        have hclosed : ∀ hop : opProblem true rg0 (.app a.name (a.args.map Arg.skeleton) qs) = none,
            ∃ vals, a.args.mapM Arg.eval = some vals := by
          intro hop
          have hfl := opProblem_closed true rg0 a.name _ qs hop
          rw [List.flatMap_eq_nil_iff] at hfl
          exact mapM_of_forall_some _ _ fun x hx =>
            eval_of_closed x (hfl _ (List.mem_map_of_mem hx))
        match hcd : c.conds, hc with
        | [], hc =>
          simp only [Option.some.injEq] at hc
          subst hc
          obtain ⟨vals, hvals⟩ := hclosed hok
          refine ⟨.op (.app a.name (a.args.map (Arg.toExpr sh)) qs), by simp [Line.toStmtV, Chunk.toStmtV, hca, hqs, hcd],
            rfl, fun br => ?_⟩
          simp only [runStmt, runOp, mapM_eval_toExpr sh a.args hrtA, hvals, Line.run, Chunk.run, hca, hqs, hcd,
            Option.pure_def, Option.bind_eq_bind, Option.bind_some]
        | [k], hc =>
          simp only [Option.some.injEq] at hc
          subst hc
          obtain ⟨vals, hvals⟩ := hclosed hok.2
          refine ⟨.cond "b" k (.app a.name (a.args.map (Arg.toExpr sh)) qs),
            by simp [Line.toStmtV, Chunk.toStmtV, hca, hqs, hcd], rfl, fun br => ?_⟩
          simp only [runStmt, runOp, mapM_eval_toExpr sh a.args hrtA, hvals, Line.run, Chunk.run, hca, hqs, hcd,
            Option.pure_def, Option.bind_eq_bind, Option.bind_some]
          obtain ⟨ψ, w⟩ := br
          rfl
        | _ :: _ :: _, hc => cases hc
  | measure q c =>
    simp only [Line.toStmt, Option.pure_def, Option.bind_eq_bind] at hst0
    cases hq : q.toQArg with
    | none => simp [hq] at hst0
    | some q' =>
      cases hc : c.toQArg with
      | none => simp [hq, hc] at hst0
      | some c' =>
        exact ⟨.op (.measure q' c'), by simp [Line.toStmtV, hq, hc], rfl, fun br => by
          simp [runStmt, Line.run, hq, hc]⟩
  | reset q =>
    simp only [Line.toStmt, Option.pure_def, Option.bind_eq_bind] at hst0
    cases hq : q.toQArg with
    | none => simp [hq] at hst0
    | some q' =>
      exact ⟨.op (.reset q'), by simp [Line.toStmtV, hq], rfl, fun br => by simp [runStmt, Line.run, hq]⟩
  | barrier qs =>
    simp only [Line.toStmt, Option.pure_def, Option.bind_eq_bind] at hst0
    cases hq : qs.mapM QRef.toQArg with
    | none => simp [hq] at hst0
    | some qs' =>
      exact ⟨.op (.barrier qs'), by simp [Line.toStmtV, hq], rfl, fun br => by simp [runStmt, Line.run, hq]⟩

theorem lines_stmtsV (sh : P → DecLit) (n : Nat) (rg rg0 : Regs) (nz : List α → Bool) :
    ∀ (body : List (Line P)), NumRoundTrip P sh (linesVals body) → (∀ l ∈ body, LineOK rg0 l) →
      ∃ sts : List Stmt, body.mapM (Line.toStmtV sh) = some (sts.map some) ∧ (∀ st ∈ sts, stmtIsOp st = true) ∧
        ∀ brs : List (Branch α), runStmts (P := P) n rg nz sts brs = linesRun (P := P) n rg nz body brs
  | [], _, _ => ⟨[], rfl, ⟨fun _ h => absurd h List.not_mem_nil, fun _ => rfl⟩⟩
  | l :: body, hrt, h => by
    have hrt1 : NumRoundTrip P sh (linesVals [l]) := fun v hv => hrt v (by
      simp only [linesVals, List.flatMap_cons, List.flatMap_nil, List.append_nil] at hv ⊢
      exact List.mem_append_left _ hv)
    have hrt2 : NumRoundTrip P sh (linesVals body) := fun v hv => hrt v (by
      simp only [linesVals, List.flatMap_cons] at hv ⊢
      exact List.mem_append_right _ hv)
    obtain ⟨st, hst, hop, hrun⟩ := line_stmtV (α := α) sh n rg rg0 nz l hrt1 (h l (List.mem_cons_self ..))
    obtain ⟨sts, hsts, hops, hruns⟩ := lines_stmtsV sh n rg rg0 nz body hrt2 fun l' hl' => h l' (List.mem_cons_of_mem _ hl')
    refine ⟨st :: sts, by simp [List.mapM_cons, hst, hsts], ?_, fun brs => ?_⟩
    · intro s hs
      rcases List.mem_cons.1 hs with rfl | hs
      · exact hop
      · exact hops s hs
    · simp only [runStmts, linesRun]
      have : runStmt (α := α) (P := P) n rg nz st = Line.run (P := P) n rg nz l := funext hrun
      rw [this]
      cases brs.mapM (Line.run (α := α) (P := P) n rg nz l) with
      | none => rfl
      | some r => simp [hruns]

theorem foldl_ops_id (F : Regs → Stmt → Regs) (hF : ∀ rg st, stmtIsOp st = true → F rg st = rg) :
    ∀ (sts : List Stmt) (rg : Regs), (∀ st ∈ sts, stmtIsOp st = true) → sts.foldl F rg = rg
  | [], _, _ => rfl
  | st :: sts, rg, h => by
    simp only [List.foldl_cons, hF rg st (h st (List.mem_cons_self ..))]
    exact foldl_ops_id F hF sts rg fun s hs => h s (List.mem_cons_of_mem _ hs)

/-- Under `NumRoundTrip`, the exported lines of a sound circuit are an OpenQASM program with decimal literals
that `Spec.OQ2.run` runs exactly as `exportedRun` runs the lines. -/
theorem program_runs_as_lines (sh : P → DecLit) (tbl : List GateTpl) (c : QCircuit P)
    (hs : c.sound tbl = true) (ls : List (Line P)) (he : exportCircuit tbl c = .ok ls)
    (hrt : NumRoundTrip P sh (linesVals ls)) (nz : List α → Bool) :
    ∃ p, toProgramV sh ls = some p ∧ run (α := α) (P := P) nz p = exportedRun nz c.nq c.nc ls := by
  simp only [QCircuit.sound, Bool.and_eq_true, decide_eq_true_eq, List.all_eq_true] at hs
  obtain ⟨hq, hops⟩ := hs
  obtain ⟨per, hper, rfl⟩ := (exportCircuit_ok_iff tbl c ls).1 he
  have hbody : ∀ l ∈ per.flatten, LineOK (regsOf c.nq c.nc) l := by
    intro l hl
    obtain ⟨lsi, hlsi, hl⟩ := List.mem_flatten.1 hl
    have hmem : Res.ok lsi ∈ c.ops.map (exportOp tbl c.nq c.nc) := by
      rw [hper]; exact List.mem_map_of_mem hlsi
    obtain ⟨op, hop, he'⟩ := List.mem_map.1 hmem
    exact exportOp_lines_ok tbl c.nq c.nc hq op (hops op hop) lsi he' l hl
  have hrtB : NumRoundTrip P sh (linesVals per.flatten) := fun v hv => hrt v (by
    simp only [linesVals, List.flatMap_append] at hv ⊢
    exact List.mem_append_right _ hv)
  obtain ⟨sts, hsts, hisop, hruns⟩ := lines_stmtsV (α := α) sh c.nq (exportRegs c.nq c.nc) (regsOf c.nq c.nc) nz
    per.flatten hrtB hbody
  have hfm : (sts.map some).filterMap id = sts := by
    induction sts with
    | nil => rfl
    | cons s ss ih => simp
  have hrunL : exportedRun (α := α) nz c.nq c.nc (header c.nq c.nc ++ per.flatten) =
      linesRun c.nq (exportRegs c.nq c.nc) nz per.flatten [(zeroState c.nq, 0)] := by
    unfold exportedRun
    rw [linesRun_append, linesRun_header]; rfl
  rw [hrunL, ← hruns]
  by_cases hnc : 0 < c.nc
  · refine ⟨⟨true, .qreg "q" c.nq :: .creg "b" c.nc :: sts⟩, ?_, ?_⟩
    · simp only [header, hq, hnc, if_true, List.cons_append, List.nil_append, List.append_assoc, toProgramV,
        List.mapM_cons, Line.toStmtV, hsts]
      simp [hfm]
    · have hrg : allRegs ⟨true, .qreg "q" c.nq :: .creg "b" c.nc :: sts⟩ = exportRegs c.nq c.nc := by
        simp only [allRegs, List.foldl_cons, Regs.empty, List.nil_append]
        rw [foldl_ops_id _ (by intro rg st h; cases st <;> simp_all [stmtIsOp]) sts _ hisop]
        simp [exportRegs, hq, hnc]
      simp only [run, hrg]
      have hn : total (exportRegs c.nq c.nc).qregs = c.nq := by simp [exportRegs, hq, total]
      rw [hn]
      simp [runStmts, runStmt]
  · have hnc0 : c.nc = 0 := by omega
    refine ⟨⟨true, .qreg "q" c.nq :: sts⟩, ?_, ?_⟩
    · simp only [header, hq, hnc, if_true, if_false, List.cons_append, List.nil_append, List.append_nil, toProgramV,
        List.mapM_cons, Line.toStmtV, hsts]
      simp [hfm]
    · have hrg : allRegs ⟨true, .qreg "q" c.nq :: sts⟩ = exportRegs c.nq c.nc := by
        simp only [allRegs, List.foldl_cons, Regs.empty, List.nil_append]
        rw [foldl_ops_id _ (by intro rg st h; cases st <;> simp_all [stmtIsOp]) sts _ hisop]
        simp [exportRegs, hq, hnc0]
      simp only [run, hrg]
      have hn : total (exportRegs c.nq c.nc).qregs = c.nq := by simp [exportRegs, hq, total]
      rw [hn]
      simp [runStmts, runStmt]

end Q1t.OpenQasm

/-! ## the reference lexer on decimal literals (as `Display for f64` prints them: digits, optionally `.` digits;
never an exponent) -/
namespace Q1t.OpenQasm
open Q1t.Spec.OQ2

theorem takeWhile_append_stop {β : Type} (p : β → Bool) (l : List β) (x : β) (r : List β) (hl : ∀ a ∈ l, p a = true)
    (hx : p x = false) : (l ++ x :: r).takeWhile p = l ∧ (l ++ x :: r).dropWhile p = x :: r := by
  induction l with
  | nil => simp [List.takeWhile, List.dropWhile, hx]
  | cons a l ih =>
    have ha := hl a (List.mem_cons_self ..)
    obtain ⟨h1, h2⟩ := ih fun b hb => hl b (List.mem_cons_of_mem _ hb)
    simp [List.takeWhile, List.dropWhile, ha, h1, h2]

theorem takeWhile_all {β : Type} (p : β → Bool) (l : List β) (hl : ∀ a ∈ l, p a = true) :
    l.takeWhile p = l ∧ l.dropWhile p = [] := by
  induction l with
  | nil => simp
  | cons a l ih =>
    have ha := hl a (List.mem_cons_self ..)
    obtain ⟨h1, h2⟩ := ih fun b hb => hl b (List.mem_cons_of_mem _ hb)
    simp [List.takeWhile, List.dropWhile, ha, h1, h2]

/-- the characters that follow a printed number in the exported text -/
def numberEnders : List Char := [')', ',', '/', ' ', ';', ']', '\n']

theorem ender_facts (x : Char) (hx : x ∈ numberEnders) :
    Spec.OQ2.isDigit x = false ∧ x ≠ '.' ∧ x ≠ 'e' ∧ x ≠ 'E' := by
  simp only [numberEnders, List.mem_cons, List.not_mem_nil, or_false] at hx
  rcases hx with rfl | rfl | rfl | rfl | rfl | rfl | rfl <;> decide

/-- an integer literal `ddd` followed by such a character is read as the token `int ddd` -/
theorem lexNumber_int (ip : List Char) (x : Char) (r : List Char) (hip : ∀ c ∈ ip, Spec.OQ2.isDigit c = true)
    (hx : x ∈ numberEnders) : lexNumber (ip ++ x :: r) = (.int (Spec.OQ2.digitsVal ip), x :: r) := by
  obtain ⟨hd, hdot, he, hE⟩ := ender_facts x hx
  obtain ⟨h1, h2⟩ := takeWhile_append_stop Spec.OQ2.isDigit ip x r hip hd
  unfold lexNumber
  simp only [h1, h2]
  rcases r with _ | ⟨y, _ | ⟨z, t⟩⟩
  · split <;> simp_all
  · split <;> simp_all
  · split <;> simp_all <;> split at * <;> simp_all

/-- a literal `ddd.fff` followed by such a character is read as the token `real (dddfff) (−|fff|)` -/
theorem lexNumber_real (ip fp : List Char) (x : Char) (r : List Char) (hip : ∀ c ∈ ip, Spec.OQ2.isDigit c = true)
    (hfp : ∀ c ∈ fp, Spec.OQ2.isDigit c = true) (hx : x ∈ numberEnders) :
    lexNumber (ip ++ '.' :: (fp ++ x :: r)) =
      (.real (Spec.OQ2.digitsVal (ip ++ fp)) (-(fp.length : Int)), x :: r) := by
  obtain ⟨hd, hdot, he, hE⟩ := ender_facts x hx
  have hdotd : Spec.OQ2.isDigit '.' = false := by decide
  obtain ⟨h1, h2⟩ := takeWhile_append_stop Spec.OQ2.isDigit ip '.' (fp ++ x :: r) hip hdotd
  obtain ⟨h3, h4⟩ := takeWhile_append_stop Spec.OQ2.isDigit fp x r hfp hd
  unfold lexNumber
  simp only [h1, h2, h3, h4]
  rcases r with _ | ⟨y, _ | ⟨z, t⟩⟩
  · split <;> simp_all
  · split <;> simp_all
  · split <;> simp_all <;> split at * <;> simp_all

end Q1t.OpenQasm

import Q1t.Proofs.AmpComplex
import Q1t.Proofs.SimGFStep
/-!
C01: the intended instance of the arithmetic hypotheses of the law.  Amplitudes `ℂ`, angles `ℝ`;
`normSq a = a·ā`, `rsqrt w = 1/√(re w)`, `min1 w = min(re w, 1) + i·im w`, `weightsOk` = "all weights are
non-negative reals and one of them is non-zero" (what `WeightedIndex::new` accepts), and
`nz w` = "`w` is a positive real".  `LawfulAmp ℂ ℝ` (from `AmpComplex`), `LawfulSim ℂ ℝ nzC` and
`LawfulWeights ℂ nzC` hold, so the hypotheses `amp`, `sim`, `wts` of `SimGF.Hyps` are satisfiable together;
`sem`/`runs` (`GateSemOK`, `GateRuns`) are the statements of C04 + C05.  (Noncomputable; proofs only.)
-/
noncomputable section
namespace Q1t.Sim.SimGFComplex
open Q1t Q1t.Sim Q1t.Sim.SimGF Q1t.AmpComplex
open scoped Classical

instance simAmpComplex : SimAmp ℂ where
  normSq a := a * (starRingEnd ℂ) a
  rsqrt w := ((1 / Real.sqrt w.re : ℝ) : ℂ)
  min1 w := ⟨min w.re 1, w.im⟩
  weightsOk ws := decide ((∀ w ∈ ws, w.im = 0 ∧ 0 ≤ w.re) ∧ ∃ w ∈ ws, w ≠ 0)

/-- `w` is a positive real -/
def nzC (w : ℂ) : Prop := w.im = 0 ∧ 0 < w.re

theorem normSq_real (a : ℂ) : SimAmp.normSq a = ((Complex.normSq a : ℝ) : ℂ) := by
  show a * (starRingEnd ℂ) a = _
  rw [Complex.mul_conj]

theorem normSqSum_real (v : List ℂ) : normSqSum v = (((v.map Complex.normSq).sum : ℝ) : ℂ) := by
  induction v with
  | nil => simp [normSqSum]
  | cons a v ih =>
    simp only [normSqSum, List.map_cons, List.sum_cons] at ih ⊢
    rw [ih, normSq_real]; push_cast; rfl

theorem sum_normSq_nonneg (v : List ℂ) : 0 ≤ (v.map Complex.normSq).sum := by
  induction v with
  | nil => simp
  | cons a v ih => simp only [List.map_cons, List.sum_cons]; have := Complex.normSq_nonneg a; linarith

theorem lawfulSim : LawfulSim ℂ ℝ nzC where
  normSq_eq a := rfl
  rsqrt_mul w h := by
    obtain ⟨him, hre⟩ := h
    have hw : w = ((w.re : ℝ) : ℂ) := by apply Complex.ext <;> simp [him]
    show ((1 / Real.sqrt w.re : ℝ) : ℂ) * ((1 / Real.sqrt w.re : ℝ) : ℂ) * w = 1
    rw [hw, ← Complex.ofReal_mul, ← Complex.ofReal_mul]
    simp only [Complex.ofReal_re]
    have hs : Real.sqrt w.re * Real.sqrt w.re = w.re := Real.mul_self_sqrt hre.le
    have hpos : 0 < Real.sqrt w.re := Real.sqrt_pos.mpr hre
    have : 1 / Real.sqrt w.re * (1 / Real.sqrt w.re) * w.re = 1 := by
      field_simp
      nlinarith
    rw [this]; rfl
  rsqrt_real w _ := Complex.conj_ofReal _
  min1_nz0 w h := by
    obtain ⟨him, hre⟩ := h
    exact ⟨him, lt_of_lt_of_le hre (min_le_left _ _)⟩
  min1_nz1 w h := by
    obtain ⟨him, hre⟩ := h
    have h1 : (1 - (⟨min w.re 1, w.im⟩ : ℂ)).im = -w.im := by simp
    have h2 : (1 - (⟨min w.re 1, w.im⟩ : ℂ)).re = 1 - min w.re 1 := by simp
    change (1 - (⟨min w.re 1, w.im⟩ : ℂ)).im = 0 at him
    change 0 < (1 - (⟨min w.re 1, w.im⟩ : ℂ)).re at hre
    rw [h1] at him
    rw [h2] at hre
    refine ⟨by simp; linarith, ?_⟩
    have : w.re < 1 := by
      by_contra hc
      rw [min_eq_right (not_lt.mp hc)] at hre
      linarith
    simp; linarith

theorem lawfulWeights : LawfulWeights ℂ nzC where
  min1_eq u v h := by
    rw [normSqSum_real, normSqSum_real] at *
    have hu := sum_normSq_nonneg u
    have hv := sum_normSq_nonneg v
    have h1 : (u.map Complex.normSq).sum + (v.map Complex.normSq).sum = 1 := by
      have := congrArg Complex.re h
      simpa using this
    show (⟨min (((u.map Complex.normSq).sum : ℝ) : ℂ).re 1, (((u.map Complex.normSq).sum : ℝ) : ℂ).im⟩ : ℂ) = _
    apply Complex.ext
    · simp only [Complex.ofReal_re]; exact min_eq_left (by linarith)
    · simp
  nz_or_zero v := by
    rw [normSqSum_real]
    rcases (sum_normSq_nonneg v).lt_or_eq with h | h
    · left; exact ⟨by simp, by simpa using h⟩
    · right; rw [← h]; simp
  pos v h := by
    rw [normSqSum_real] at h
    have h0 : (v.map Complex.normSq).sum = 0 := by exact_mod_cast h
    clear h
    induction v with
    | nil => intro a ha; simp at ha
    | cons b v ih =>
      simp only [List.map_cons, List.sum_cons] at h0
      have hb := Complex.normSq_nonneg b
      have hv := sum_normSq_nonneg v
      have hb0 : Complex.normSq b = 0 := by linarith
      have hv0 : (v.map Complex.normSq).sum = 0 := by linarith
      intro a ha
      rcases List.mem_cons.mp ha with rfl | ha
      · exact Complex.normSq_eq_zero.mp hb0
      · exact ih hv0 a ha
  weightsOk v h := by
    show decide _ = true
    rw [decide_eq_true_eq]
    constructor
    · intro w hw
      simp only [List.mem_map] at hw
      obtain ⟨a, _, rfl⟩ := hw
      rw [normSq_real]
      exact ⟨by simp, by simpa using Complex.normSq_nonneg a⟩
    · by_contra hc
      simp only [not_exists, not_and, not_not] at hc
      have : normSqSum v = 0 := by
        unfold normSqSum
        apply List.sum_eq_zero
        intro x hx
        exact hc x hx
      rw [this] at h
      exact zero_ne_one h

/-- the arithmetic hypotheses of `SimGF.Hyps` hold for `ℂ` -/
theorem arith_hyps_complex : LawfulAmp ℂ ℝ ∧ LawfulSim ℂ ℝ nzC ∧ LawfulWeights ℂ nzC :=
  ⟨AmpComplex.lawful, lawfulSim, lawfulWeights⟩

/-- `Hyps` is inhabited — degenerately: on a register of 0 qubits with no valid gate placement the gate
hypotheses are vacuous, so this only shows that the five hypotheses are jointly consistent with the complex
arithmetic.  A non-degenerate inhabitant needs `GateSemOK`/`GateRuns` for an actual gate set, i.e. the theorems
of C04 (routes = embedded matrix) and C05 (matrix = documented unitary). -/
theorem hyps_zero_qubits : Hyps ℂ ℝ nzC 0 (fun _ _ => False) where
  amp := AmpComplex.lawful
  sim := lawfulSim
  wts := lawfulWeights
  sem :=
    { mat := fun _ _ h => h.elim
      vec := fun _ _ h => h.elim
      iso := fun _ _ h => h.elim
      basis := fun q hq => absurd hq (Nat.not_lt_zero q)
      hh := fun q hq => absurd hq (Nat.not_lt_zero q)
      ssdg := fun q hq => absurd hq (Nat.not_lt_zero q) }
  runs :=
    { arity := fun _ _ h => h.elim
      mat := fun _ _ h => h.elim
      vec := fun _ _ h => h.elim }

end Q1t.Sim.SimGFComplex

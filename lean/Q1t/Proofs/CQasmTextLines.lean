import Q1t.Proofs.CQasmTextSem
import Q1t.Proofs.CQasmEquivText
import Q1t.Proofs.CQasmSound
set_option linter.unusedSimpArgs false
set_option linter.unusedSectionVars false
set_option linter.unusedVariables false
/-!
C12 (text link), part 2: the EXACT parse result of a printed line of a library gate's translation and its meaning.
Under `ReadsBack` the numeric operands of the parsed instruction denote the values of the value-level line
(`lineApp`), so the instruction — plain, or with the `c-` prefix on a control list — is the value-level statement
`gate ctrl (placed qubits) M`.
-/
namespace Q1t.Proofs.CQasm
open Q1t Q1t.Spec Q1t.CQ Q1t.Gen Q1t.Proofs.Route

variable {F α P : Type} [CommRing α] [Amp α P]

theorem mapM_cons_some {β γ : Type} (f : β → Option γ) (a : β) (l : List β) (vs : List γ)
    (h : (a :: l).mapM f = some vs) : ∃ v vs', f a = some v ∧ l.mapM f = some vs' ∧ vs = v :: vs' := by
  rw [List.mapM_cons] at h
  cases hf : f a with
  | none => simp [hf] at h
  | some v =>
    cases hl : l.mapM f with
    | none => simp [hf, hl] at h
    | some vs' =>
      simp [hf, hl] at h
      exact ⟨v, vs', rfl, rfl, h.symm⟩

/-- the numeric operands of a printed line denote the values of its value-level line -/
theorem nums_denote (N : Num F) (S : CQ1.NumSem α P) (val : F → P) (RB : ReadsBack (α := α) N S val)
    (σ : Tok → Tok) (v : Text → Text) (ρV : Text → Option P) :
    ∀ (ops : List SOp) (args : List CQ1.Arg) (vals : List (NVal P)),
      (ops.map (instOp σ v)).map CQ1.parseArg = args.map some →
      (ops.filter (fun o => !isQ o)).mapM (opVal (α := α) ρV) = some vals →
      (∀ loc, SOp.q loc ∈ ops → ∃ i, σ (.var (natText loc)) = .lit (qName i)) →
      (∀ a, SOp.arg a ∈ ops → ∃ x, σ (.var a.toList) = .lit (N.disp x) ∧ ρV a.toList = some (val x)) →
      (∀ inner, SOp.hole inner ∈ ops →
        ∃ y, v (innerText σ inner) = N.disp y ∧ holeVal (α := α) ρV inner = some (val y)) →
      List.Forall₂ (NumDenotes S) (CQ1.numArgs args) vals
  | [], args, vals, hp, hm, _, _, _ => by
    cases args with
    | nil => simp at hm; subst hm; exact List.Forall₂.nil
    | cons _ _ => simp at hp
  | o :: os, args, vals, hp, hm, hq, ha, hv => by
    cases args with
    | nil => simp at hp
    | cons a as =>
      simp only [List.map_cons, List.cons.injEq] at hp
      obtain ⟨hp0, hps⟩ := hp
      have ih := fun vals' hm' => nums_denote N S val RB σ v ρV os as vals' hps hm'
        (fun loc h => hq loc (by simp [h])) (fun a h => ha a (by simp [h])) (fun i h => hv i (by simp [h]))
      cases o with
      | q loc =>
        obtain ⟨i, hi⟩ := hq loc (by simp)
        simp only [instOp, hi, textOf, parseArg_qName, Option.some.injEq] at hp0
        subst hp0
        simp only [List.filter_cons, isQ, Bool.not_true, Bool.false_eq_true, if_false] at hm
        simpa [CQ1.numArgs] using ih vals hm
      | lit t =>
        simp only [List.filter_cons, isQ, Bool.not_false, if_true] at hm
        obtain ⟨nv, vs', h1, h2, rfl⟩ := mapM_cons_some _ _ _ _ hm
        simp only [opVal] at h1
        simp only [instOp] at hp0
        by_cases e1 : t = ['1']
        · subst e1
          simp only [if_true, Option.some.injEq] at h1
          subst h1
          have : CQ1.parseArg ['1'] = some (.num ⟨false, ['1'], true⟩) := by decide
          rw [this] at hp0; injection hp0 with hp0; subst hp0
          simp only [CQ1.numArgs, List.filterMap_cons]
          refine List.Forall₂.cons ⟨by decide, fun _ => RB.crk.1, fun h => absurd h (by decide)⟩ ?_
          simpa [CQ1.numArgs] using ih vs' h2
        · by_cases e2 : t = ['2']
          · subst e2
            simp only [e1, if_false, if_true, Option.some.injEq] at h1
            subst h1
            have : CQ1.parseArg ['2'] = some (.num ⟨false, ['2'], true⟩) := by decide
            rw [this] at hp0; injection hp0 with hp0; subst hp0
            simp only [CQ1.numArgs, List.filterMap_cons]
            refine List.Forall₂.cons ⟨by decide, fun h => absurd h (by decide), fun _ => RB.crk.2⟩ ?_
            simpa [CQ1.numArgs] using ih vs' h2
          · simp [e1, e2] at h1
      | arg a' =>
        simp only [List.filter_cons, isQ, Bool.not_false, if_true] at hm
        obtain ⟨nv, vs', h1, h2, rfl⟩ := mapM_cons_some _ _ _ _ hm
        obtain ⟨x, hx, hρ⟩ := ha a' (by simp)
        obtain ⟨l, hl, hang⟩ := RB.disp_reads x
        simp only [instOp, hx, textOf, hl, Option.some.injEq] at hp0
        subst hp0
        simp only [opVal, hρ, Option.map_some, Option.some.injEq] at h1
        subst h1
        simp only [CQ1.numArgs, List.filterMap_cons]
        refine List.Forall₂.cons hang ?_
        simpa [CQ1.numArgs] using ih vs' h2
      | hole inner =>
        simp only [List.filter_cons, isQ, Bool.not_false, if_true] at hm
        obtain ⟨nv, vs', h1, h2, rfl⟩ := mapM_cons_some _ _ _ _ hm
        obtain ⟨y, hy, hval⟩ := hv inner (by simp)
        obtain ⟨l, hl, hang⟩ := RB.disp_reads y
        simp only [instOp, hy, hl, Option.some.injEq] at hp0
        subst hp0
        simp only [opVal, hval, Option.map_some, Option.some.injEq] at h1
        subst h1
        simp only [CQ1.numArgs, List.filterMap_cons]
        refine List.Forall₂.cons hang ?_
        simpa [CQ1.numArgs] using ih vs' h2

theorem args_in_params (k : Nat) (params : List String) (a : String) : ∀ (ops : List SOp) (sig : List CQ1.Kind),
    opsTyped k params ops sig = true → SOp.arg a ∈ ops → a ∈ params
  | [], _, _, h => by simp at h
  | _ :: _, [], h, _ => by simp [opsTyped] at h
  | o :: os, kd :: ks, h, hm => by
    simp only [opsTyped, Bool.and_eq_true] at h
    rcases List.mem_cons.mp hm with e | hm
    · subst e
      cases kd <;> simp [opTyped] at h
      exact h.1
    · exact args_in_params k params a os ks h.2 hm

theorem q_mem_locs (loc : Nat) : ∀ (ops : List SOp), SOp.q loc ∈ ops → loc ∈ ops.filterMap locOf
  | [], h => by simp at h
  | o :: os, h => by
    rcases List.mem_cons.mp h with e | h
    · subst e; simp [locOf]
    · rw [List.filterMap_cons]
      cases locOf o with
      | none => exact q_mem_locs loc os h
      | some _ => exact List.mem_cons_of_mem _ (q_mem_locs loc os h)

/-- **the parsed operands of a printed line**: what `parseInstr` needs, the placed qubits, and the matrix that
`Spec/CQ1` assigns to the instruction (the matrix of the value-level line) -/
theorem line_args (N : Num F) (hN : GoodNum N) (S : CQ1.NumSem α P) (val : F → P) (RB : ReadsBack (α := α) N S val)
    (σ : Tok → Tok) (v : Text → Text) (ρV : Text → Option P) (k : Nat) (params : List String) (bits : List Nat)
    (hk : bits.length = k) (l : SLine) (hl : lineGood k params l = true)
    (hq : ∀ loc, ∀ (h : loc < bits.length), σ (.var (natText loc)) = .lit (qName bits[loc]))
    (ha : ∀ a ∈ params, ∃ x, σ (.var a.toList) = .lit (N.disp x) ∧ ρV a.toList = some (val x))
    (hv : ∀ inner, SOp.hole inner ∈ l.ops →
      ∃ y, v (innerText σ inner) = N.disp y ∧ holeVal (α := α) ρV inner = some (val y))
    (locs : List Nat) (M : LMat α) (happ : lineApp (α := α) ρV l = some (locs, M)) :
    ∃ args sig,
      instLine σ v l = printInstr l.name (l.ops.map (instOp σ v)) ∧
      (l.ops.map (instOp σ v)).map CQ1.parseArg = args.map some ∧
      (∀ t ∈ l.ops.map (instOp σ v), word t = true) ∧ l.ops.map (instOp σ v) ≠ [] ∧
      CQ1.signature (String.ofList l.name) = some sig ∧ CQ1.argsMatch args sig = true ∧
      args.filterMap CQ1.qIndex = relabel bits locs ∧ args.filterMap CQ1.bIndex = [] ∧
      (∀ a, args.head? = some a → CQ1.isB a = false) ∧
      CQ1.gateMatrix S (String.ofList l.name) (CQ1.numArgs args) = some M ∧
      locs.Nodup ∧ (∀ x ∈ locs, x < k) := by
  have hl0 := hl
  simp only [lineGood, Bool.and_eq_true, decide_eq_true_eq] at hl
  obtain ⟨⟨⟨⟨⟨⟨h1, h2⟩, h3⟩, h4⟩, h5⟩, h6⟩, h7⟩ := hl
  cases hs : CQ1.signature (String.ofList l.name) with
  | none => rw [hs] at h5; simp at h5
  | some sig =>
    rw [hs] at h5
    obtain ⟨args, g1, g2, g3, g4, g5, g6⟩ := ops_printed N hN σ v k params bits hk hq
      (fun a ham => let ⟨x, hx, _⟩ := ha a ham; ⟨x, hx⟩) l.ops sig h5
      (fun inner hin => let ⟨y, hy, _⟩ := hv inner hin; ⟨y, hy⟩)
    have hne : l.ops ≠ [] := by
      intro e; rw [e] at h7; simp [firstIsQ] at h7
    -- the value-level line
    unfold lineApp at happ
    cases hvals : (l.ops.filter (fun o => !isQ o)).mapM (opVal (α := α) ρV) with
    | none => rw [hvals] at happ; cases happ
    | some vals =>
      rw [hvals] at happ
      simp only [] at happ
      cases hM : gateMatrixV (α := α) l.name vals with
      | none => rw [hM] at happ; cases happ
      | some M' =>
        rw [hM] at happ
        simp only [Option.map_some, Option.some.injEq, Prod.mk.injEq] at happ
        obtain ⟨rfl, rfl⟩ := happ
        have hlocs := locs_lt k params l.ops sig h5
        have hden := nums_denote N S val RB σ v ρV l.ops args vals g1 hvals
          (fun loc hm => by
            have hlt : loc < bits.length := by rw [hk]; exact hlocs loc (q_mem_locs loc l.ops hm)
            exact ⟨_, hq loc hlt⟩)
          (fun a hm => ha a (args_in_params k params a l.ops sig h5 hm)) hv
        have hgm := gateMatrix_of_values S (String.ofList l.name) (CQ1.numArgs args) vals M'
          (by simpa using hM) hden
        refine ⟨args, sig, ?_, g1, g2, by simpa using hne, rfl, g3, ?_, g5, g6 h7, hgm, h6, hlocs⟩
        · have : (l.ops.map (instOp σ v)).isEmpty = false := by
            cases ho : l.ops with
            | nil => exact absurd ho hne
            | cons _ _ => rfl
          simp [instLine, printInstr, this]
        · rw [g4]; rfl

/-- a clean printed line as a one-line text -/
structure CleanLine (l : Text) : Prop where
  ne : l ≠ []
  trim : CQ1.trim l = l
  chars : ∀ c ∈ l, c ≠ '#' ∧ c ≠ '\n'

theorem cleanLine_printInstr (name : Text) (ops : List Text) (hn : word name = true) (ho : ∀ t ∈ ops, word t = true) :
    CleanLine (printInstr name ops) :=
  let ⟨h1, h2, h3, _⟩ := printInstr_trim_chars name ops hn ho
  ⟨h1, h2, h3⟩

/-- a printed instruction that parses to a well-formed instruction denoting `D` is a statement line denoting `D` -/
theorem lineStmt_of_instr (S : CQ1.NumSem α P) (nq : Nat) (nz : List α → Bool) (name : Text) (ops : List Text)
    (i : CQ1.Instr) (D : List (DStmt α)) (hn : word name = true) (ho : ∀ t ∈ ops, word t = true)
    (hh : name.head? ≠ some '.') (hp : CQ1.parseInstr (printInstr name ops) = .ok i)
    (hw : CQ1.instrWf nq i = none) (hd : InstrDen S nq nz i D) : LineStmt S nq nz (printInstr name ops) D := by
  obtain ⟨h1, h2, h3, h4⟩ := printInstr_trim_chars name ops hn ho
  exact ⟨by rw [printInstr_head name ops hn]; exact hh, .one i, parseStmt_line _ i h2 h4 hp, hw,
    stmtDen_one S nq nz i D hd⟩

theorem relabel_lt (nq : Nat) (bits locs : List Nat) (hb : ∀ b ∈ bits, b < nq) (hl : ∀ x ∈ locs, x < bits.length) :
    ∀ q ∈ relabel bits locs, q < nq := placed_lt' nq bits locs hb hl
where
  placed_lt' (nq : Nat) (bits sub : List Nat) (hb : ∀ b ∈ bits, b < nq) (h : ∀ b ∈ sub, b < bits.length) :
      ∀ x ∈ sub.map (fun b => bits.getD b 0), x < nq := by
    intro x hx
    obtain ⟨b, hbm, rfl⟩ := List.mem_map.mp hx
    have := h b hbm
    simp only [List.getD_eq_getElem?_getD, List.getElem?_eq_getElem this, Option.getD_some]
    exact hb _ (List.getElem_mem this)

theorem instrDen_gate (S : CQ1.NumSem α P) (n : Nat) (nz : List α → Bool) (ctrl : List Nat) (name : String)
    (args : List CQ1.Arg) (M : LMat α) (hg : CQ1.isGate name = true)
    (hM : CQ1.gateMatrix S name (CQ1.numArgs args) = some M) :
    InstrDen S n nz ⟨ctrl, name, args⟩ [.gate ctrl (args.filterMap CQ1.qIndex) M] := by
  intro br
  have hname : name ≠ "measure_all" := by
    intro e; rw [e] at hg; simp [CQ1.isGate] at hg
  rw [instrSem_gate S n nz ⟨ctrl, name, args⟩ M hg hM br]
  simp [dSeq, CQ1.Instr.qubits, hname]

/-- **a plain line of a library gate's translation**: the statement `gate [] (placed qubits) M` -/
theorem line_stmt_plain (N : Num F) (hN : GoodNum N) (S : CQ1.NumSem α P) (val : F → P) (RB : ReadsBack (α := α) N S val)
    (σ : Tok → Tok) (v : Text → Text) (ρV : Text → Option P) (k : Nat) (params : List String) (bits : List Nat)
    (hk : bits.length = k) (l : SLine) (hl : lineGood k params l = true)
    (hq : ∀ loc, ∀ (h : loc < bits.length), σ (.var (natText loc)) = .lit (qName bits[loc]))
    (ha : ∀ a ∈ params, ∃ x, σ (.var a.toList) = .lit (N.disp x) ∧ ρV a.toList = some (val x))
    (hv : ∀ inner, SOp.hole inner ∈ l.ops →
      ∃ y, v (innerText σ inner) = N.disp y ∧ holeVal (α := α) ρV inner = some (val y))
    (locs : List Nat) (M : LMat α) (happ : lineApp (α := α) ρV l = some (locs, M))
    (nq : Nat) (nz : List α → Bool) (hbn : bits.Nodup) (hb : ∀ b ∈ bits, b < nq) :
    LineStmt S nq nz (instLine σ v l) [.gate [] (relabel bits locs) M] ∧ CleanLine (instLine σ v l) := by
  obtain ⟨args, sig, e, g1, g2, gne, hs, g3, g4, g5, g6, hgm, hnd, hlt⟩ :=
    line_args N hN S val RB σ v ρV k params bits hk l hl hq ha hv locs M happ
  simp only [lineGood, Bool.and_eq_true, decide_eq_true_eq] at hl
  obtain ⟨⟨⟨⟨⟨⟨h1, h2⟩, h3⟩, h4⟩, _⟩, _⟩, _⟩ := hl
  have hp := parseInstr_plain l.name _ args sig h1 (notCondName_spec h2) g2 g1 hs g3
  have hname : String.ofList l.name ≠ "measure_all" := by
    intro e'; rw [e'] at h4; simp [CQ1.isGate] at h4
  rw [e]
  refine ⟨lineStmt_of_instr S nq nz l.name _ _ _ h1 g2 (by simpa using h3) hp ?_ ?_, cleanLine_printInstr _ _ h1 g2⟩
  · apply instrWf_ok nq _ hname
    · intro q hq'; simp only [g4] at hq'
      exact relabel_lt nq bits locs hb (fun x hx => by rw [hk]; exact hlt x hx) q hq'
    · simp only [g4]; exact map_getD_nodup bits hbn locs hnd (fun x hx => by rw [hk]; exact hlt x hx)
    · intro q hq'; simp [g5] at hq'
  · have := instrDen_gate S nq nz [] (String.ofList l.name) args M h4 hgm
    rwa [g4] at this

/-- **the same line under a condition** (`c-name b[i], …, operands`): the statement `gate control (placed qubits) M` -/
theorem line_stmt_cond (N : Num F) (hN : GoodNum N) (S : CQ1.NumSem α P) (val : F → P) (RB : ReadsBack (α := α) N S val)
    (σ : Tok → Tok) (v : Text → Text) (ρV : Text → Option P) (k : Nat) (params : List String) (bits : List Nat)
    (hk : bits.length = k) (l : SLine) (hl : lineGood k params l = true)
    (hq : ∀ loc, ∀ (h : loc < bits.length), σ (.var (natText loc)) = .lit (qName bits[loc]))
    (ha : ∀ a ∈ params, ∃ x, σ (.var a.toList) = .lit (N.disp x) ∧ ρV a.toList = some (val x))
    (hv : ∀ inner, SOp.hole inner ∈ l.ops →
      ∃ y, v (innerText σ inner) = N.disp y ∧ holeVal (α := α) ρV inner = some (val y))
    (locs : List Nat) (M : LMat α) (happ : lineApp (α := α) ρV l = some (locs, M))
    (nq : Nat) (nz : List α → Bool) (hbn : bits.Nodup) (hb : ∀ b ∈ bits, b < nq)
    (control : List Nat) (hc : control ≠ []) (hcb : ∀ c ∈ control, c < nq) :
    defaultCond (intercalate ", ".toList (control.map bName)) (instLine σ v l) =
      .ok (printInstr ('c' :: '-' :: l.name) (control.map bName ++ l.ops.map (instOp σ v))) ∧
    LineStmt S nq nz (printInstr ('c' :: '-' :: l.name) (control.map bName ++ l.ops.map (instOp σ v)))
      [.gate control (relabel bits locs) M] ∧
    CleanLine (printInstr ('c' :: '-' :: l.name) (control.map bName ++ l.ops.map (instOp σ v))) := by
  obtain ⟨args, sig, e, g1, g2, gne, hs, g3, g4, g5, g6, hgm, hnd, hlt⟩ :=
    line_args N hN S val RB σ v ρV k params bits hk l hl hq ha hv locs M happ
  simp only [lineGood, Bool.and_eq_true, decide_eq_true_eq] at hl
  obtain ⟨⟨⟨⟨⟨⟨h1, h2⟩, h3⟩, h4⟩, _⟩, _⟩, _⟩ := hl
  have hp := parseInstr_cond l.name control _ args sig h1 hc g2 g1 hs h4 g3 g6
  have hname : String.ofList l.name ≠ "measure_all" := by
    intro e'; rw [e'] at h4; simp [CQ1.isGate] at h4
  have hn' : word ('c' :: '-' :: l.name) = true := by
    simp only [word, Bool.and_eq_true, List.all_eq_true] at h1 ⊢
    refine ⟨by simp, ?_⟩
    intro c hcm
    rcases List.mem_cons.mp hcm with rfl | hcm
    · decide
    rcases List.mem_cons.mp hcm with rfl | hcm
    · decide
    · exact h1.2 c hcm
  have ho' : ∀ t ∈ control.map bName ++ l.ops.map (instOp σ v), word t = true := by
    intro t ht
    rcases List.mem_append.mp ht with h | h
    · obtain ⟨i, _, rfl⟩ := List.mem_map.mp h; exact word_bName i
    · exact g2 t h
  refine ⟨?_, lineStmt_of_instr S nq nz _ _ _ _ hn' ho' (by simp) hp ?_ ?_, cleanLine_printInstr _ _ hn' ho'⟩
  · rw [e]
    have := defaultCond_printed control hc l.name (l.ops.map (instOp σ v)) [] h1 gne
    simpa using this
  · apply instrWf_ok nq _ hname
    · intro q hq'; simp only [g4] at hq'
      exact relabel_lt nq bits locs hb (fun x hx => by rw [hk]; exact hlt x hx) q hq'
    · simp only [g4]; exact map_getD_nodup bits hbn locs hnd (fun x hx => by rw [hk]; exact hlt x hx)
    · intro q hq'; simp only [g5, List.append_nil] at hq'; exact hcb q hq'
  · have := instrDen_gate S nq nz control (String.ofList l.name) args M h4 hgm
    rwa [g4] at this

end Q1t.Proofs.CQasm

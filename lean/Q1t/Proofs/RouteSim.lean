import Q1t.Proofs.RouteCond
import Q1t.Proofs.SimGate
import Q1t.Proofs.SimGFBase
/-!
# C04 → C02/C07: the gate hypotheses of the simulator theorems, discharged

`Q1t/Proofs/SimGate.lean` proves the simulator theorems under the named hypothesis `GateSemOK n valid`
(and `GateRuns`), whose `mat`/`vec` fields say that the two routes of `apply_gate_(mat_)slice` act as the
embedded *documented* matrix (`gateOn`, built from `Spec.specMatrix`).  C04 proves that they act as the
embedded `matrix g`; with `matrix g = specMatrix g` (C05) the fields follow.
-/
namespace Q1t.Proofs.Route
open Q1t Q1t.Gate Q1t.Spec
variable {α P : Type} [CommRing α] [Amp α P]
set_option linter.unusedSectionVars false

/-- the side conditions of C04 for a gate instance on an `n`-qubit register -/
def Placed (n : Nat) (g : GateTerm P) (bits : List Nat) : Prop :=
  WF g ∧ nrBits g = bits.length ∧ validBits n bits = true ∧ WordOK g n

theorem colAt_eq_colOf (M : LMat α) (k : Nat) : Sim.colAt M k = colOf M k := rfl

/-- `GateRuns`: the routes of every placed gate return, and arities match -/
theorem gateRuns_of_c04 (h : LawfulAmp α P) (n : Nat) (valid : GateTerm P → List Nat → Prop)
    (hvalid : ∀ g bits, valid g bits → Placed n g bits) : Sim.SimGF.GateRuns α n valid where
  arity := fun g bits hv => (hvalid g bits hv).2.1
  mat := fun g bits hv m M hlen hrow => by
    obtain ⟨hwf, har, hvb, hword⟩ := hvalid g bits hv
    rw [applyGateSlice_eq_embed h g hwf .mat m (okWidth_mat m) n bits har hvb hword M hlen
      (fun r hr => hrow r hr)]
    rfl
  vec := fun g bits hv v hlen => by
    obtain ⟨hwf, har, hvb, hword⟩ := hvalid g bits hv
    rw [applyGateSlice_eq_embed h g hwf .vec 1 (fun _ => rfl) n bits har hvb hword v hlen
      (fun _ _ => rfl)]
    rfl

/-- the `vec` field of `GateSemOK` -/
theorem gateSem_vec_of_c04 (h : LawfulAmp α P) (n : Nat) (g : GateTerm P) (bits : List Nat)
    (hp : Placed n g bits) (hspec : matrix (α := α) g = specMatrix g)
    (v v' : List α) (hlen : v.length = 2 ^ n)
    (hrun : applyGateSlice (α := α) .vec g bits n v = some v') : v' = gateOn n g bits v := by
  obtain ⟨hwf, har, hvb, hword⟩ := hp
  rw [applyGateSlice_eq_embed h g hwf .vec 1 (fun _ => rfl) n bits har hvb hword v hlen
    (fun _ _ => rfl), mulState_vec_eq_mulVec (2 ^ n) _ (embed_wf n bits _) v hlen, hspec] at hrun
  exact (Option.some.inj hrun).symm

/-- the `mat` field of `GateSemOK` -/
theorem gateSem_mat_of_c04 (h : LawfulAmp α P) (n : Nat) (g : GateTerm P) (bits : List Nat)
    (hp : Placed n g bits) (hspec : matrix (α := α) g = specMatrix g)
    (m : Nat) (M M' : LMat α) (hlen : M.length = 2 ^ n) (hrow : ∀ row ∈ M, row.length = m)
    (hrun : applyGateSlice (α := α) .mat g bits n M = some M') :
    M'.length = 2 ^ n ∧ (∀ row ∈ M', row.length = m) ∧
      ∀ k, k < m → Sim.colAt M' k = gateOn n g bits (Sim.colAt M k) := by
  obtain ⟨hwf, har, hvb, hword⟩ := hp
  rw [applyGateSlice_eq_embed h g hwf .mat m (okWidth_mat m) n bits har hvb hword M hlen
    (fun r hr => hrow r hr)] at hrun
  have e := (Option.some.inj hrun).symm
  subst e
  refine ⟨by rw [mulState_length, (embed_wf n bits _).1],
    fun row hr => mulState_rowsW .mat m (okWidth_mat m) _ _ row hr, ?_⟩
  intro k hk
  have hc : (colOf M k).length = 2 ^ n := by simp [colOf, hlen]
  rw [colAt_eq_colOf, colAt_eq_colOf, mulState_mat_col m _ M k hk,
    mulState_vec_eq_mulVec (2 ^ n) _ (embed_wf n bits _) _ hc, hspec]
  rfl

/-- `GateSemOK` reduced to its reference-semantics fields (`iso`, `basis`, `hh`, `ssdg`): the two fields
about the code follow from C04 (+ C05's `matrix g = specMatrix g`) -/
theorem gateSemOK_of_c04 [Sim.SimAmp α] (h : LawfulAmp α P) (n : Nat) (valid : GateTerm P → List Nat → Prop)
    (hvalid : ∀ g bits, valid g bits → Placed n g bits ∧ matrix (α := α) g = specMatrix g)
    (iso : ∀ g bits, valid g bits → ∀ v : List α, v.length = 2 ^ n →
      Sim.normSqSum (gateOn n g bits v) = Sim.normSqSum v)
    (basis : ∀ q, q < n → valid .H [q] ∧ valid .S [q] ∧ valid .Sdg [q] ∧ valid .X [q])
    (hh : ∀ q, q < n → ∀ v : List α, v.length = 2 ^ n →
      gateOn (P := P) n .H [q] (gateOn (P := P) n .H [q] v) = v)
    (ssdg : ∀ q, q < n → ∀ v : List α, v.length = 2 ^ n →
      gateOn (P := P) n .S [q] (gateOn (P := P) n .Sdg [q] v) = v) :
    Sim.GateSemOK α n valid where
  mat := fun g bits hv m M M' hl hr hrun =>
    gateSem_mat_of_c04 h n g bits (hvalid g bits hv).1 (hvalid g bits hv).2 m M M' hl hr hrun
  vec := fun g bits hv v v' hl hrun =>
    gateSem_vec_of_c04 h n g bits (hvalid g bits hv).1 (hvalid g bits hv).2 v v' hl hrun
  iso := iso
  basis := basis
  hh := hh
  ssdg := ssdg

end Q1t.Proofs.Route

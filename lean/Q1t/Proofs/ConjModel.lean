import Q1t.Proofs.ConjPrimDefs
/-!
# C06, part 2: facts about the model's control flow (core Lean only)

* a primitive whose table entry does not claim refuses every operand slice with `NotAStabilizer`
  (for ANY table of the right shape; instantiated at the generated one);
* `C<G>` refuses and does not claim;
* `is_stabilizer` of `Kron` / `Composite` / `Loop` is the conjunction over the parts;
* a term that does not claim refuses every operand slice (all terms: `Loop::conjugate` asks
  `is_stabilizer()` first, so a loop iterated zero times over a non-claiming body refuses too);
* the routing predicate.
-/
namespace Q1t.Proofs.ConjModel
open Q1t Q1t.Gate Q1t.Conj Q1t.Proofs.ConjPrim

variable {P : Type}

/-- the (sub-gate, local bits) list of a composite -/
def opsToList : OpList P → List (GateTerm P × List Nat)
  | .nil => []
  | .cons g bits rest => (g, bits) :: opsToList rest

/-- "no claim ⇒ no rows, claim ⇒ complete rows" for every entry -/
def TableShape (tbl : Table) : Prop := tbl.all entryShapeOK = true

theorem gen_table_shape : TableShape Gen.conjTable := table_shape

/-! ## primitives -/

theorem primConj_refuses (tbl : Table) (noCheck : List String) (hs : TableShape tbl) (nm : String)
    (hf : primFlag tbl (some nm) = false) (ops : List Pauli) :
    primConj tbl noCheck (some nm) ops = .error .notAStabilizer := by
  simp only [primConj, Tableau.conjOf]
  simp only [primFlag, lookup] at hf
  cases hfind : List.find? (fun e => e.1 == nm) tbl with
  | none => simp [Err.ofG]
  | some e =>
    rw [hfind] at hf
    have hmem : e ∈ tbl := List.mem_of_find?_eq_some hfind
    have hshape := List.all_eq_true.1 hs e hmem
    obtain ⟨n, ar, fl, rows⟩ := e
    simp only at hf
    subst hf
    simp only [entryShapeOK, Bool.false_eq_true, ↓reduceIte] at hshape
    simp [Tableau.conjOfEntry, hshape, Err.ofG]

/-- Every primitive that does not claim refuses every operand slice (of any length) with
`NotAStabilizer`. -/
theorem prim_refuses (tbl : Table) (noCheck : List String) (hs : TableShape tbl) (g : GateTerm P)
    (hp : IsPrim g) (hf : isStabilizerT tbl g = false) (ops : List Pauli) :
    conjugateT tbl noCheck g ops = .error .notAStabilizer := by
  cases g <;> first
    | exact hp.elim
    | (simp only [isStabilizerT] at hf; simp only [conjugateT]; exact primConj_refuses tbl noCheck hs _ hf ops)

theorem C_refuses (tbl : Table) (noCheck : List String) (g : GateTerm P) (ops : List Pauli) :
    isStabilizerT tbl (.C g) = false ∧ conjugateT tbl noCheck (.C g) ops = .error .notAStabilizer := by
  simp [isStabilizerT, conjugateT]

/-- the parametrised primitives never claim, whatever the parameter values -/
theorem param_prims_flag (θ φ l : P) :
    isStabilizer (.RX θ) = false ∧ isStabilizer (.RY θ) = false ∧ isStabilizer (.RZ l) = false ∧
    isStabilizer (.U1 l) = false ∧ isStabilizer (.U2 φ l) = false ∧ isStabilizer (.U3 θ φ l) = false ∧
    isStabilizer (.T : GateTerm P) = false ∧ isStabilizer (.Tdg : GateTerm P) = false := by
  have h := nonclaiming_names
  simp only [List.all_cons, List.all_nil, Bool.and_true, Bool.and_eq_true, beq_iff_eq] at h
  simp only [isStabilizer, isStabilizerT]
  exact ⟨h.2.2.1, h.2.2.2.1, h.2.2.2.2.1, h.2.2.2.2.2.1, h.2.2.2.2.2.2.1, h.2.2.2.2.2.2.2, h.1, h.2.1⟩

/-! ## `is_stabilizer` of the combinators -/

theorem allStabT_eq (tbl : Table) : (ops : OpList P) →
    allStabT tbl ops = (opsToList ops).all (fun gb => isStabilizerT tbl gb.1)
  | .nil => by simp [allStabT, opsToList]
  | .cons g bits rest => by simp [allStabT, opsToList, allStabT_eq tbl rest]

theorem isStab_kron (tbl : Table) (g0 g1 : GateTerm P) :
    isStabilizerT tbl (.Kron g0 g1) = (isStabilizerT tbl g0 && isStabilizerT tbl g1) := by
  simp [isStabilizerT]

theorem isStab_composite (tbl : Table) (nm : String) (n : Nat) (ops : OpList P) :
    isStabilizerT tbl (.Composite nm n ops) = (opsToList ops).all (fun gb => isStabilizerT tbl gb.1) := by
  simp [isStabilizerT, allStabT_eq]

theorem isStab_loop (tbl : Table) (label nm : String) (k n : Nat) (ops : OpList P) :
    isStabilizerT tbl (.Loop label k nm n ops) = (opsToList ops).all (fun gb => isStabilizerT tbl gb.1) := by
  simp [isStabilizerT, allStabT_eq]

/-! ## a term that does not claim refuses -/

def Result.refused (r : Conj.Result) : Prop := ∃ e, r = .error e

mutual
/-- a term that does not claim refuses every operand slice: primitives and `C<G>` by their defaults, `Kron`
and `Composite` because a part that does not claim is reached (or an earlier part fails), `Loop` because
`Loop::conjugate` asks `self.is_stabilizer()` before iterating — also with zero iterations -/
theorem term_refuses (tbl : Table) (noCheck : List String) (hs : TableShape tbl) :
    (g : GateTerm P) → isStabilizerT tbl g = false → ∀ ops : List Pauli,
      Result.refused (conjugateT tbl noCheck g ops)
  | .C g, _, ops => ⟨_, (C_refuses tbl noCheck g ops).2⟩
  | .Kron g0 g1, hf, ops => by
    simp only [isStabilizerT, Bool.and_eq_false_iff] at hf
    simp only [conjugateT]
    split
    · exact ⟨_, rfl⟩
    · rcases hf with hf | hf
      · obtain ⟨e, he⟩ := term_refuses tbl noCheck hs g0 hf (ops.take (nrBits g0))
        exact ⟨e, by rw [he]⟩
      · cases h0 : conjugateT tbl noCheck g0 (ops.take (nrBits g0)) with
        | error e => exact ⟨e, rfl⟩
        | ok r =>
          obtain ⟨f0, o0⟩ := r
          obtain ⟨e, he⟩ := term_refuses tbl noCheck hs g1 hf (ops.drop (nrBits g0))
          exact ⟨e, by simp only [he]⟩
  | .Composite _ n body, hf, ops => by
    simp only [isStabilizerT] at hf
    simp only [conjugateT]
    split
    · exact ⟨_, rfl⟩
    · exact ops_refuse tbl noCheck hs body hf ops false
  | .Loop _ iters _ n body, hf, ops => by
    simp only [isStabilizerT] at hf
    simp only [conjugateT, hf]
    split
    · exact ⟨_, rfl⟩
    · exact ⟨_, rfl⟩
  | .H, hf, ops => ⟨_, prim_refuses tbl noCheck hs .H trivial hf ops⟩
  | .X, hf, ops => ⟨_, prim_refuses tbl noCheck hs .X trivial hf ops⟩
  | .Y, hf, ops => ⟨_, prim_refuses tbl noCheck hs .Y trivial hf ops⟩
  | .Z, hf, ops => ⟨_, prim_refuses tbl noCheck hs .Z trivial hf ops⟩
  | .S, hf, ops => ⟨_, prim_refuses tbl noCheck hs .S trivial hf ops⟩
  | .Sdg, hf, ops => ⟨_, prim_refuses tbl noCheck hs .Sdg trivial hf ops⟩
  | .T, hf, ops => ⟨_, prim_refuses tbl noCheck hs .T trivial hf ops⟩
  | .Tdg, hf, ops => ⟨_, prim_refuses tbl noCheck hs .Tdg trivial hf ops⟩
  | .V, hf, ops => ⟨_, prim_refuses tbl noCheck hs .V trivial hf ops⟩
  | .Vdg, hf, ops => ⟨_, prim_refuses tbl noCheck hs .Vdg trivial hf ops⟩
  | .I, hf, ops => ⟨_, prim_refuses tbl noCheck hs .I trivial hf ops⟩
  | .RX θ, hf, ops => ⟨_, prim_refuses tbl noCheck hs (.RX θ) trivial hf ops⟩
  | .RY θ, hf, ops => ⟨_, prim_refuses tbl noCheck hs (.RY θ) trivial hf ops⟩
  | .RZ θ, hf, ops => ⟨_, prim_refuses tbl noCheck hs (.RZ θ) trivial hf ops⟩
  | .U1 θ, hf, ops => ⟨_, prim_refuses tbl noCheck hs (.U1 θ) trivial hf ops⟩
  | .U2 θ φ, hf, ops => ⟨_, prim_refuses tbl noCheck hs (.U2 θ φ) trivial hf ops⟩
  | .U3 θ φ l, hf, ops => ⟨_, prim_refuses tbl noCheck hs (.U3 θ φ l) trivial hf ops⟩
  | .CX, hf, ops => ⟨_, prim_refuses tbl noCheck hs .CX trivial hf ops⟩
  | .CY, hf, ops => ⟨_, prim_refuses tbl noCheck hs .CY trivial hf ops⟩
  | .CZ, hf, ops => ⟨_, prim_refuses tbl noCheck hs .CZ trivial hf ops⟩
  | .Swap, hf, ops => ⟨_, prim_refuses tbl noCheck hs .Swap trivial hf ops⟩
theorem ops_refuse (tbl : Table) (noCheck : List String) (hs : TableShape tbl) :
    (l : OpList P) → allStabT tbl l = false → ∀ (ops : List Pauli) (flip : Bool),
      Result.refused (conjOpsT tbl noCheck l ops flip)
  | .nil, hf, _, _ => by simp [allStabT] at hf
  | .cons g bits rest, hf, ops, flip => by
    simp only [allStabT, Bool.and_eq_false_iff] at hf
    simp only [conjOpsT]
    cases hg : gather ops bits with
    | none => exact ⟨_, rfl⟩
    | some gops =>
      simp only
      cases hc : conjugateT tbl noCheck g gops with
      | error e => exact ⟨e, rfl⟩
      | ok r =>
        obtain ⟨fl, gops'⟩ := r
        simp only
        rcases hf with hf | hf
        · obtain ⟨e, he⟩ := term_refuses tbl noCheck hs g hf gops
          rw [he] at hc; exact absurd hc (by simp)
        · exact ops_refuse tbl noCheck hs rest hf _ _
end

/-! ## routing -/

/-- the gate of a `Gate` / `ConditionalGate` operation -/
def opGate : Sim.COp P → Option (GateTerm P)
  | .gate g _ => some g
  | .cond _ _ g _ => some g
  | _ => none

theorem opIsStabT_iff (tbl : Table) (op : Sim.COp P) :
    opIsStabT tbl op = true ↔ ∀ g, opGate op = some g → isStabilizerT tbl g = true := by
  cases op <;> simp [opIsStabT, opGate]

theorem isStabilizerCircuitT_iff (tbl : Table) (ops : List (Sim.COp P)) :
    isStabilizerCircuitT tbl ops = true ↔
      ∀ op ∈ ops, ∀ g, opGate op = some g → isStabilizerT tbl g = true := by
  simp only [isStabilizerCircuitT, List.all_eq_true, opIsStabT_iff]

theorem chooseReprT_iff (tbl : Table) (ops : List (Sim.COp P)) :
    chooseReprT tbl ops = .stabilizer ↔
      ∀ op ∈ ops, ∀ g, opGate op = some g → isStabilizerT tbl g = true := by
  rw [← isStabilizerCircuitT_iff]
  unfold chooseReprT
  split <;> simp_all

theorem opIsStabT_false_iff (tbl : Table) (op : Sim.COp P) :
    opIsStabT tbl op = false ↔ ∃ g, opGate op = some g ∧ isStabilizerT tbl g = false := by
  cases op <;> simp [opIsStabT, opGate]

theorem chooseReprT_vector_iff (tbl : Table) (ops : List (Sim.COp P)) :
    chooseReprT tbl ops = .vector ↔
      ∃ op ∈ ops, ∃ g, opGate op = some g ∧ isStabilizerT tbl g = false := by
  have h : chooseReprT tbl ops = .vector ↔ isStabilizerCircuitT tbl ops = false := by
    unfold chooseReprT
    split <;> simp_all
  rw [h, isStabilizerCircuitT, List.all_eq_false]
  constructor
  · rintro ⟨op, hop, hn⟩
    have : opIsStabT tbl op = false := by simpa using hn
    exact ⟨op, hop, (opIsStabT_false_iff tbl op).1 this⟩
  · rintro ⟨op, hop, hg⟩
    exact ⟨op, hop, by simp [(opIsStabT_false_iff tbl op).2 hg]⟩

end Q1t.Proofs.ConjModel
